import PdtVerif.Lemmas.Slicing
/-!
# Policy 'ali': the `nonzero` run lists and the lobe index arithmetic (helper lemmas for C10)

Part 1: the two `nonzero` calls on `cat([nonempty, mask])` and `cat([0, mask, 0]) | (nonempty &
in_lens == arange)` list, row by row, exactly the starts and the ends of the maximal runs of the
first `in_lens` labels (`SlicePolicy.runs`).

Part 2: the batch-flattened run lists are a concatenation of per-sequence blocks with distinct
source labels; the valid-only shifted views and the non-valid `start_idx` / `end_idx` loop act
block by block.

Core Lean only.
-/
namespace PdtVerif.Slicing
open PdtVerif.SlicePolicy

/-! ## Part 1: run boundaries -/

/-- Positions (counted from `p`) at which the label changes, `cur` being the label before. -/
def changes (cur : Int) (p : Nat) : List Int → List Nat
  | [] => []
  | x :: xs => if x == cur then changes cur (p + 1) xs else p :: changes x (p + 1) xs

theorem runsAux_fst (cur : Int) (s p : Nat) (ys : List Int) :
    (runsAux cur s p ys).map (·.1) = s :: changes cur p ys := by
  induction ys generalizing cur s p with
  | nil => simp [runsAux, changes]
  | cons y ys ih =>
    simp only [runsAux, changes]
    split
    · exact ih cur s (p + 1)
    · simp [ih y p (p + 1)]

theorem runsAux_snd (cur : Int) (s p : Nat) (ys : List Int) :
    (runsAux cur s p ys).map (·.2) = changes cur p ys ++ [p + ys.length] := by
  induction ys generalizing cur s p with
  | nil => simp [runsAux, changes]
  | cons y ys ih =>
    simp only [runsAux, changes]
    split
    · rw [ih cur s (p + 1)]; simp; omega
    · simp [ih y p (p + 1)]; omega

/-- `input[:-1] != input[1:]` seen from the label before the first element. -/
def maskFrom (cur : Int) : List Int → List Bool
  | [] => []
  | x :: xs => (cur != x) :: maskFrom x xs

theorem neqMask_cons (x : Int) (xs : List Int) : neqMask (x :: xs) = maskFrom x xs := by
  induction xs generalizing x with
  | nil => simp [neqMask, maskFrom]
  | cons y ys ih =>
    have := ih y
    simp only [neqMask, List.tail_cons, List.zipWith_cons_cons, maskFrom] at this ⊢
    rw [this]

theorem maskFrom_length (cur : Int) (xs : List Int) : (maskFrom cur xs).length = xs.length := by
  induction xs generalizing cur with
  | nil => rfl
  | cons x xs ih => simp [maskFrom, ih]

/-- The neighbour mask cut at length `l`, positions counted from `p`. -/
def cutMask (l : Nat) (cur : Int) (p : Nat) (xs : List Int) : List Bool :=
  List.zipWith (fun (b : Bool) (q : Nat) => b && decide (q < l)) (maskFrom cur xs) (List.range' p xs.length)

theorem cutMask_cons (l : Nat) (cur : Int) (p : Nat) (x : Int) (xs : List Int) :
    cutMask l cur p (x :: xs) = ((cur != x) && decide (p < l)) :: cutMask l x (p + 1) xs := by
  simp [cutMask, maskFrom, List.range'_succ]

theorem cutMask_length (l : Nat) (cur : Int) (p : Nat) (xs : List Int) :
    (cutMask l cur p xs).length = xs.length := by
  simp [cutMask, maskFrom_length]

/-- `nonzero` of the cut neighbour mask lists the label changes among the first `l` labels. -/
theorem select_cutMask (l : Nat) (cur : Int) (p : Nat) (xs : List Int) :
    select (List.range' p xs.length) (cutMask l cur p xs) = changes cur p (xs.take (l - p)) := by
  induction xs generalizing cur p with
  | nil => simp [select, changes]
  | cons x xs ih =>
    rw [cutMask_cons]
    simp only [List.length_cons, List.range'_succ, select]
    by_cases hp : p < l
    · have e : l - p = (l - (p + 1)) + 1 := by omega
      rw [e, List.take_succ_cons]
      simp only [changes, hp, decide_true, Bool.and_true]
      by_cases hx : x = cur
      · subst hx; simp [ih]
      · have h1 : (cur != x) = true := by simp; exact fun h => hx h.symm
        have h2 : (x == cur) = false := by simp [hx]
        simp [h1, h2, ih]
    · have e : l - p = 0 := by omega
      have e' : l - (p + 1) = 0 := by omega
      have := ih x (p + 1)
      rw [e'] at this
      simp [hp, e, changes, this]

/-- `nonzero` of the ends mask from position `p` on. -/
theorem select_endsMask (l : Nat) (cur : Int) (p : Nat) (xs : List Int) (hl : l ≤ p + xs.length) :
    select (List.range' p (xs.length + 1))
      (List.zipWith (fun (b : Bool) (q : Nat) => b || decide (l = q)) (cutMask l cur p xs ++ [false])
        (List.range' p (xs.length + 1))) =
      if p ≤ l then changes cur p (xs.take (l - p)) ++ [l] else [] := by
  induction xs generalizing cur p with
  | nil =>
    simp only [List.length_nil] at hl
    by_cases h : p ≤ l
    · have : l = p := by omega
      subst this
      simp [cutMask, maskFrom, select, changes]
    · have : ¬ l = p := by omega
      simp [cutMask, maskFrom, select, h, this]
  | cons x xs ih =>
    rw [cutMask_cons]
    simp only [List.length_cons] at hl ⊢
    rw [List.range'_succ]
    simp only [List.cons_append, List.zipWith_cons_cons, select]
    have ih' := ih x (p + 1) (by omega)
    rw [ih']
    by_cases h1 : p < l
    · have e : l - p = (l - (p + 1)) + 1 := by omega
      have hne : ¬ l = p := by omega
      have hle : p ≤ l := by omega
      have hle' : p + 1 ≤ l := by omega
      rw [e, List.take_succ_cons]
      simp only [h1, hne, hle, hle', decide_true, decide_false, Bool.and_true, Bool.or_false, if_true, changes]
      by_cases hx : x = cur
      · subst hx; simp
      · have h1 : (cur != x) = true := by simp; exact fun h => hx h.symm
        have h2 : (x == cur) = false := by simp [hx]
        simp [h1, h2]
    · by_cases h2 : p = l
      · subst h2
        simp [changes]
      · have hle : ¬ p ≤ l := by omega
        have hle' : ¬ p + 1 ≤ l := by omega
        have hne : ¬ l = p := by omega
        simp [h1, hle, hle', hne]

theorem select_all_false {α} (l : List α) (m : List Bool) (h : ∀ b ∈ m, b = false) : select l m = [] := by
  induction l generalizing m with
  | nil => cases m <;> simp [select]
  | cons x xs ih =>
    cases m with
    | nil => simp [select]
    | cons b bs =>
      have hb : b = false := h b (by simp)
      subst hb
      simp only [select, Bool.false_eq_true, if_false]
      exact ih bs (fun b hb => h b (by simp [hb]))

/-- The length the policy is evaluated with: `in_lens[n]`, or `T` when lengths are omitted. -/
def lenOf (T : Nat) (len : Option Int) : Nat := (len.getD (T : Int)).toNat

/-- The mask `m` inside `aliMasks`. -/
def aliM (row : List Int) (len : Option Int) : List Bool :=
  match len with
  | none => neqMask row
  | some l => List.zipWith (fun (b : Bool) (i : Nat) => b && decide (l > ((i + 1 : Nat) : Int)))
      (neqMask row) (List.range (neqMask row).length)

theorem aliMasks_eq (T : Nat) (row : List Int) (len : Option Int) :
    aliMasks T row len =
      (decide (len.getD (T : Int) > 0) :: aliM row len,
       List.zipWith (fun (b : Bool) (t : Nat) => b || (decide (len.getD (T : Int) > 0) &&
          decide (len.getD (T : Int) = (t : Int)))) (false :: aliM row len ++ [false]) (List.range (T + 1))) := by
  cases len <;> rfl

/-- The mask `m` of `aliMasks` is the cut neighbour mask. -/
theorem aliMasks_m (T : Nat) (x : Int) (xs : List Int) (len : Option Int) (hT : xs.length + 1 = T)
    (hlen : ∀ l, len = some l → 0 ≤ l ∧ l ≤ (T : Int)) :
    aliM (x :: xs) len = cutMask (lenOf T len) x 1 xs := by
  unfold aliM
  rw [neqMask_cons, maskFrom_length]
  unfold cutMask
  rw [List.range'_eq_map_range, List.zipWith_map_right]
  cases len with
  | none =>
    simp only [lenOf, Option.getD_none, Int.toNat_natCast]
    apply List.ext_getElem
    · simp [maskFrom_length]
    · intro i h1 h2
      simp only [List.length_zipWith, maskFrom_length, List.length_range] at h2
      have : 1 + i < T := by omega
      simp [this]
  | some l =>
    have := hlen l rfl
    simp only [lenOf, Option.getD_some]
    congr 1
    funext b i
    congr 1
    apply decide_eq_decide.mpr
    omega

theorem aliMasks_starts (T : Nat) (row : List Int) (len : Option Int) (hT : row.length = T)
    (hlen : ∀ l, len = some l → 0 ≤ l ∧ l ≤ (T : Int)) :
    nonzero (aliMasks T row len).1 = (runs (row.take (lenOf T len))).map (·.1) := by
  cases row with
  | nil =>
    simp only [List.length_nil] at hT
    subst hT
    have hl0 : lenOf 0 len = 0 := by
      cases len with
      | none => simp [lenOf]
      | some l => have := hlen l rfl; simp [lenOf]; omega
    have hne : decide (len.getD ((0 : Nat) : Int) > 0) = false := by
      cases len with
      | none => simp
      | some l => have := hlen l rfl; simp; omega
    rw [aliMasks_eq]
    simp only [hne, hl0, nonzero, aliM, neqMask]
    cases len <;> simp [select, runs]
  | cons x xs =>
    simp only [List.length_cons] at hT
    rw [aliMasks_eq]
    simp only
    rw [aliMasks_m T x xs len hT hlen]
    unfold nonzero
    simp only [List.length_cons, cutMask_length, List.range_eq_range', List.range'_succ, select]
    have hsel := select_cutMask (lenOf T len) x 1 xs
    simp only [Nat.zero_add] at hsel ⊢
    by_cases h0 : lenOf T len = 0
    · have hne : ¬ (len.getD (T : Int) > 0) := by unfold lenOf at h0; omega
      simp only [hne, decide_false, Bool.false_eq_true, if_false, h0, List.take_zero, runs, List.map_nil]
      rw [h0] at hsel
      rw [hsel]
      simp [changes]
    · have hne : len.getD (T : Int) > 0 := by unfold lenOf at h0; omega
      have e : lenOf T len = (lenOf T len - 1) + 1 := by omega
      simp only [hne, decide_true, if_true]
      rw [hsel, e, List.take_succ_cons, runs, runsAux_fst]
      simp

theorem aliMasks_ends (T : Nat) (row : List Int) (len : Option Int) (hT : row.length = T)
    (hlen : ∀ l, len = some l → 0 ≤ l ∧ l ≤ (T : Int)) :
    nonzero (aliMasks T row len).2 = (runs (row.take (lenOf T len))).map (·.2) := by
  have hlT : lenOf T len ≤ T := by
    cases len with
    | none => simp [lenOf]
    | some l => have := hlen l rfl; simp [lenOf]; omega
  cases row with
  | nil =>
    simp only [List.length_nil] at hT
    subst hT
    have hne : decide (len.getD ((0 : Nat) : Int) > 0) = false := by
      cases len with
      | none => simp
      | some l => have := hlen l rfl; simp; omega
    have hl0 : lenOf 0 len = 0 := by omega
    rw [aliMasks_eq]
    simp only [hne, hl0, nonzero, aliM, neqMask]
    cases len <;> simp [select, runs]
  | cons x xs =>
    simp only [List.length_cons] at hT
    rw [aliMasks_eq]
    simp only
    rw [aliMasks_m T x xs len hT hlen]
    unfold nonzero
    have hlenmask : (List.zipWith (fun (b : Bool) (t : Nat) => b || (decide (len.getD (T : Int) > 0) &&
        decide (len.getD (T : Int) = (t : Int)))) (false :: cutMask (lenOf T len) x 1 xs ++ [false])
        (List.range (T + 1))).length = T + 1 := by
      simp [cutMask_length]; omega
    rw [hlenmask, List.range_eq_range']
    have hT' : T + 1 = (xs.length + 1) + 1 := by omega
    rw [hT', List.range'_succ]
    simp only [List.cons_append, List.zipWith_cons_cons, select, Bool.false_or]
    have hend := select_endsMask (lenOf T len) x 1 xs (by omega)
    simp only [Nat.zero_add] at hend ⊢
    by_cases h0 : lenOf T len = 0
    · have hne : ¬ (len.getD (T : Int) > 0) := by unfold lenOf at h0; omega
      simp only [hne, decide_false, Bool.false_and, Bool.or_false, Bool.false_eq_true, if_false, h0,
        List.take_zero, runs, List.map_nil]
      apply select_all_false
      intro b hb
      obtain ⟨i, hi, rfl⟩ := List.getElem_of_mem hb
      simp only [List.getElem_zipWith]
      simp only [cutMask, List.getElem_append]
      split
      · simp
      · simp
    · have hne : len.getD (T : Int) > 0 := by unfold lenOf at h0; omega
      have e : lenOf T len = (lenOf T len - 1) + 1 := by omega
      have hz : ¬ len.getD (T : Int) = ((0 : Nat) : Int) := by simp; omega
      simp only [hne, hz, decide_true, decide_false, Bool.true_and, Bool.and_false, Bool.false_eq_true, if_false]
      have hfun : (fun (b : Bool) (t : Nat) => b || decide (len.getD (T : Int) = (t : Int))) =
          (fun (b : Bool) (q : Nat) => b || decide (lenOf T len = q)) := by
        funext b t
        congr 1
        apply decide_eq_decide.mpr
        unfold lenOf; omega
      rw [hfun, hend]
      have h1 : 1 ≤ lenOf T len := by omega
      simp only [h1, if_true]
      rw [e, List.take_succ_cons, runs, runsAux_snd]
      simp only [List.length_take]
      congr 2
      omega

/-! ## Part 2: the batch-flattened run lists as a concatenation of labelled blocks -/

/-- `(source, start, end)` of one run. -/
abbrev Run3 := Nat × Nat × Nat

/-- The runs of the sequences `n0, n0 + 1, …` one block after the other. -/
def flatFrom (n0 : Nat) : List (List (Nat × Nat)) → List Run3
  | [] => []
  | b :: bs => b.map (fun r => (n0, r.1, r.2)) ++ flatFrom (n0 + 1) bs

theorem flatFrom_src_ge (n0 : Nat) (blocks : List (List (Nat × Nat))) :
    ∀ x ∈ flatFrom n0 blocks, n0 ≤ x.1 := by
  induction blocks generalizing n0 with
  | nil => simp [flatFrom]
  | cons b bs ih =>
    intro x hx
    simp only [flatFrom, List.mem_append, List.mem_map] at hx
    rcases hx with ⟨r, _, rfl⟩ | hx
    · exact Nat.le_refl _
    · have := ih (n0 + 1) x hx; omega

/-- The run lists the two `nonzero` calls return for a batch. -/
theorem nonzero2From_blocks (T : Nat) (rows : List (List Int)) (lens : List (Option Int)) (n0 : Nat)
    (hrows : ∀ r ∈ rows, r.length = T)
    (hlens : ∀ len ∈ lens, ∀ l, len = some l → 0 ≤ l ∧ l ≤ (T : Int)) :
    let masks := List.zipWith (fun row len => aliMasks T row len) rows lens
    let L := flatFrom n0 (List.zipWith (fun row len => runs (row.take (lenOf T len))) rows lens)
    (nonzero2From n0 (masks.map (·.1))).map (·.1) = L.map (·.1) ∧
    (nonzero2From n0 (masks.map (·.1))).map (·.2) = L.map (·.2.1) ∧
    (nonzero2From n0 (masks.map (·.2))).map (·.2) = L.map (·.2.2) := by
  induction rows generalizing lens n0 with
  | nil => simp [nonzero2From, flatFrom]
  | cons row rows ih =>
    cases lens with
    | nil => simp [nonzero2From, flatFrom]
    | cons len lens =>
      have hrow : row.length = T := hrows row (by simp)
      have hlen : ∀ l, len = some l → 0 ≤ l ∧ l ≤ (T : Int) := hlens len (by simp)
      have := ih lens (n0 + 1) (fun r hr => hrows r (by simp [hr])) (fun l hl => hlens l (by simp [hl]))
      simp only at this
      obtain ⟨h1, h2, h3⟩ := this
      have hs := aliMasks_starts T row len hrow hlen
      have he := aliMasks_ends T row len hrow hlen
      have hlen_eq : (nonzero (aliMasks T row len).1).length = (runs (row.take (lenOf T len))).length := by
        rw [hs]; simp
      simp only [List.zipWith_cons_cons, List.map_cons, nonzero2From, flatFrom, List.map_append, List.map_map,
        Function.comp_def, h1, h2, h3, hs, he]
      exact ⟨trivial, trivial, trivial⟩

/-! ### the declarative side, block by block -/

/-- `SlicePolicy.aliRow` on the run list of the sequence. -/
def lobeRow (lobe : Nat) (wt : WinType) (validOnly : Bool) (rs : List (Nat × Nat)) : List (Int × Int) :=
  let M := rs.length
  (List.range M).filterMap fun m =>
    let back := if wt.doLeft then lobe else 0
    let fwd := if wt.doRight then lobe else 0
    if validOnly then
      if m < back ∨ M ≤ m + fwd then none
      else some (((rs.getD (m - back) (0, 0)).1 : Int), ((rs.getD (m + fwd) (0, 0)).2 : Int))
    else
      some (((rs.getD (m - back) (0, 0)).1 : Int), ((rs.getD (min (m + fwd) (M - 1)) (0, 0)).2 : Int))

theorem aliRow_eq (lobe : Nat) (wt : WinType) (vo : Bool) (ali : List Int) (len : Nat) :
    aliRow lobe wt vo ali len = lobeRow lobe wt vo (runs (ali.take len)) := rfl

def labelFrom (n0 : Nat) : List (List (Int × Int)) → List Win
  | [] => []
  | r :: rs => r.map (fun w => ⟨w.1, w.2, n0⟩) ++ labelFrom (n0 + 1) rs

theorem labelRows_shift (rows : List (List (Int × Int))) (n0 : Nat) :
    ((List.range rows.length).flatMap fun n => (rows.getD n []).map fun w => (⟨w.1, w.2, n + n0⟩ : Win)) =
      labelFrom n0 rows := by
  induction rows generalizing n0 with
  | nil => simp [labelFrom]
  | cons r rs ih =>
    simp only [List.length_cons, List.range_succ_eq_map, List.flatMap_cons, List.flatMap_map, labelFrom]
    have := ih (n0 + 1)
    simp only [List.getD_eq_getElem?_getD] at this ⊢
    simp only [List.getElem?_cons_zero, Option.getD_some, Nat.zero_add, Nat.succ_eq_add_one,
      List.getElem?_cons_succ]
    rw [← this]
    congr 2
    funext n
    congr 1
    funext w
    congr 1
    omega

theorem labelRows_eq_labelFrom (rows : List (List (Int × Int))) : labelRows rows = labelFrom 0 rows := by
  rw [← labelRows_shift]
  rfl

/-! ### valid-only: the two shifted views and the `is_same` mask -/

/-- The window from the start of run `x` to the end of run `y`, if they belong to the same sequence. -/
def toWin2 (x y : Run3) : Option Win :=
  if x.1 == y.1 then some ⟨(x.2.1 : Int), (y.2.2 : Int), x.1⟩ else none

def pairWins (X Y : List Run3) : List Win := (List.zip X Y).filterMap fun p => toWin2 p.1 p.2

theorem shifted_views (X Y : List Run3) :
    mkWins ((select (X.map (·.2.1)) (List.zipWith (fun a b => a == b) (X.map (·.1)) (Y.map (·.1)))).map Int.ofNat)
      ((select (Y.map (·.2.2)) (List.zipWith (fun a b => a == b) (X.map (·.1)) (Y.map (·.1)))).map Int.ofNat)
      (select (X.map (·.1)) (List.zipWith (fun a b => a == b) (X.map (·.1)) (Y.map (·.1)))) = pairWins X Y := by
  induction X generalizing Y with
  | nil => simp [select, mkWins, pairWins]
  | cons x X ih =>
    cases Y with
    | nil => simp [select, mkWins, pairWins]
    | cons y Y =>
      have := ih Y
      simp only [pairWins] at this
      simp only [List.map_cons, List.zipWith_cons_cons, select, pairWins, List.zip_cons_cons, List.filterMap_cons]
      by_cases h : x.1 = y.1
      · have hb : (x.1 == y.1) = true := by simp [h]
        have ht : toWin2 x y = some ⟨(x.2.1 : Int), (y.2.2 : Int), x.1⟩ := by simp [toWin2, h]
        simp only [hb, ht, if_true, List.map_cons, mkWins, this, Int.ofNat_eq_natCast]
      · have hb : (x.1 == y.1) = false := by simp [h]
        have ht : toWin2 x y = none := by simp [toWin2, h]
        simp only [hb, ht, Bool.false_eq_true, if_false, this]

theorem zip_take_left {α β} (L : List α) (Y : List β) (k : Nat) (h : Y.length ≤ k) :
    List.zip (L.take k) Y = List.zip L Y := by
  induction L generalizing k Y with
  | nil => simp
  | cons x L ih =>
    cases Y with
    | nil => simp
    | cons y Y =>
      cases k with
      | zero => simp at h
      | succ k =>
        simp only [List.length_cons, Nat.add_le_add_iff_right] at h
        simp [ih Y k h]

/-- The valid-only branch of `aliLobe` pairs every run with the run `offs` places later. -/
theorem aliLobe_valid_eq (lobe : Nat) (wt : WinType) (L : List Run3) (hl : lobe ≠ 0) :
    aliLobe lobe wt true (L.map (·.1)) (L.map (·.2.1)) (L.map (·.2.2)) =
      pairWins L (L.drop ((wt.doLeft.toNat + wt.doRight.toNat) * lobe)) := by
  unfold aliLobe
  simp only [hl, if_false, if_true, List.length_map]
  generalize (wt.doLeft.toNat + wt.doRight.toNat) * lobe = offs
  rw [← List.map_take, ← List.map_take, ← List.map_drop, ← List.map_drop, shifted_views]
  unfold pairWins
  rw [zip_take_left]
  simp

theorem zip_append_left {α β} (B R : List α) (Y : List β) :
    List.zip (B ++ R) Y = List.zip B Y ++ List.zip R (Y.drop B.length) := by
  induction B generalizing Y with
  | nil => simp
  | cons x B ih =>
    cases Y with
    | nil => simp
    | cons y Y => simp [ih Y]

theorem pairWins_disjoint (B Y : List Run3) (h : ∀ x ∈ B, ∀ y ∈ Y, x.1 ≠ y.1) : pairWins B Y = [] := by
  induction B generalizing Y with
  | nil => simp [pairWins]
  | cons x B ih =>
    cases Y with
    | nil => simp [pairWins]
    | cons y Y =>
      have hxy : x.1 ≠ y.1 := h x (by simp) y (by simp)
      have := ih Y (fun a ha b hb => h a (by simp [ha]) b (by simp [hb]))
      simp only [pairWins] at this
      have ht : toWin2 x y = none := by simp [toWin2, hxy]
      simp only [pairWins, List.zip_cons_cons, List.filterMap_cons, ht, this]

theorem pairWins_append_right (B Y1 Y2 : List Run3) (h : ∀ x ∈ B, ∀ y ∈ Y2, x.1 ≠ y.1) :
    pairWins B (Y1 ++ Y2) = pairWins B Y1 := by
  induction B generalizing Y1 with
  | nil => simp [pairWins]
  | cons x B ih =>
    cases Y1 with
    | nil =>
      simp only [List.nil_append]
      rw [pairWins_disjoint _ _ h]
      simp [pairWins]
    | cons y Y1 =>
      have := ih Y1 (fun a ha b hb => h a (by simp [ha]) b hb)
      simp only [pairWins] at this
      simp only [pairWins, List.cons_append, List.zip_cons_cons, List.filterMap_cons, this]

/-- Runs of different sequences never pair up: the shifted views act block by block. -/
theorem pairWins_split (B R : List Run3) (offs : Nat) (h : ∀ x ∈ B, ∀ y ∈ R, x.1 ≠ y.1) :
    pairWins (B ++ R) ((B ++ R).drop offs) = pairWins B (B.drop offs) ++ pairWins R (R.drop offs) := by
  have e1 : pairWins (B ++ R) ((B ++ R).drop offs) =
      pairWins B ((B ++ R).drop offs) ++ pairWins R (((B ++ R).drop offs).drop B.length) := by
    simp only [pairWins, zip_append_left, List.filterMap_append]
  have e2 : (B ++ R).drop (offs + B.length) = R.drop offs := by
    rw [List.drop_append]
    have : B.drop (offs + B.length) = [] := List.drop_eq_nil_of_le (by omega)
    simp [this]
  rw [e1, List.drop_drop, e2, List.drop_append]
  congr 1
  apply pairWins_append_right
  intro x hx y hy
  exact h x hx y (List.mem_of_mem_drop hy)

theorem filterMap_range_window {β} (M a c : Nat) (g : Nat → β) :
    (List.range M).filterMap (fun m => if a ≤ m ∧ m < c then some (g (m - a)) else none) =
      (List.range (min c M - a)).map g := by
  induction M with
  | zero => simp
  | succ M ih =>
    rw [List.range_succ, List.filterMap_append, ih]
    by_cases h : a ≤ M ∧ M < c
    · have e : min c (M + 1) - a = (min c M - a) + 1 := by omega
      have e2 : min c M - a = M - a := by omega
      rw [e, List.range_succ, List.map_append]
      simp [h, e2]
    · have e : min c (M + 1) - a = min c M - a := by omega
      rw [e]
      simp [h]

/-- A block of runs of one sequence, paired with itself `offs` places later. -/
theorem pairWins_block (n0 : Nat) (rs Y : List (Nat × Nat)) :
    pairWins (rs.map fun r => (n0, r.1, r.2)) (Y.map fun r => (n0, r.1, r.2)) =
      (List.zip rs Y).map fun p => ⟨(p.1.1 : Int), (p.2.2 : Int), n0⟩ := by
  induction rs generalizing Y with
  | nil => simp [pairWins]
  | cons r rs ih =>
    cases Y with
    | nil => simp [pairWins]
    | cons y Y =>
      have := ih Y
      simp only [pairWins] at this
      simp only [pairWins, List.map_cons, List.zip_cons_cons, List.filterMap_cons, this]
      simp [toWin2]

theorem lobeRow_valid (lobe : Nat) (wt : WinType) (rs : List (Nat × Nat)) :
    lobeRow lobe wt true rs =
      (List.zip rs (rs.drop ((wt.doLeft.toNat + wt.doRight.toNat) * lobe))).map fun p => ((p.1.1 : Int), (p.2.2 : Int)) := by
  unfold lobeRow
  simp only [if_true]
  generalize hb : (if wt.doLeft = true then lobe else 0) = back
  generalize hf : (if wt.doRight = true then lobe else 0) = fwd
  have hoffs : (wt.doLeft.toNat + wt.doRight.toNat) * lobe = back + fwd := by
    subst hb hf
    cases wt <;> simp [WinType.doLeft, WinType.doRight] <;> omega
  rw [hoffs]
  have h1 : (fun m => if m < back ∨ rs.length ≤ m + fwd then none
        else some (((rs.getD (m - back) (0, 0)).1 : Int), ((rs.getD (m + fwd) (0, 0)).2 : Int))) =
      (fun m => if back ≤ m ∧ m < rs.length - fwd then
        some ((fun i => (((rs.getD i (0, 0)).1 : Int), ((rs.getD (i + back + fwd) (0, 0)).2 : Int))) (m - back)) else none) := by
    funext m
    by_cases h : m < back ∨ rs.length ≤ m + fwd
    · have : ¬ (back ≤ m ∧ m < rs.length - fwd) := by omega
      simp [h, this]
    · have h' : back ≤ m ∧ m < rs.length - fwd := by omega
      have e : m - back + back + fwd = m + fwd := by omega
      simp only [h, h', if_false, if_true, e, and_self]
  rw [h1]
  refine (filterMap_range_window rs.length back (rs.length - fwd)
    (fun i => (((rs.getD i (0, 0)).1 : Int), ((rs.getD (i + back + fwd) (0, 0)).2 : Int)))).trans ?_
  apply List.ext_getElem
  · simp; omega
  · intro i h1 h2
    simp only [List.length_map, List.length_range] at h1
    simp only [List.getElem_map, List.getElem_range, List.getElem_zip, List.getElem_drop]
    have hi : i < rs.length := by omega
    have hi2 : i + back + fwd < rs.length := by omega
    have e : back + fwd + i = i + back + fwd := by omega
    simp [List.getD_eq_getElem?_getD, List.getElem?_eq_getElem hi, List.getElem?_eq_getElem hi2, e]

/-! ### not valid-only: the `start_idx` / `end_idx` loop -/

/-- Pass `n` moves `start_idx[j]` one run to the left iff run `j - n` belongs to the same sequence. -/
def dL (src : List Nat) (n j : Nat) : Int :=
  if n ≤ j ∧ src.getD j 0 = src.getD (j - n) 0 then 1 else 0

/-- Pass `n` moves `end_idx[j]` one run to the right iff run `j + n` belongs to the same sequence. -/
def dR (src : List Nat) (n j : Nat) : Int :=
  if j + n < src.length ∧ src.getD (j + n) 0 = src.getD j 0 then 1 else 0

theorem lobeStep_fst (wt : WinType) (src : List Nat) (S E : List Int) (n : Nat) (hS : S.length = src.length) :
    (lobeStep wt src src.length (S, E) n).1 =
      (List.range src.length).map fun j => S.getD j 0 - (if wt.doLeft then dL src n j else 0) := by
  unfold lobeStep
  simp only
  cases hd : wt.doLeft
  · simp only [Bool.false_eq_true, if_false, Int.sub_zero]
    apply List.ext_getElem
    · simp [hS]
    · intro i h1 h2
      simp [List.getD_eq_getElem?_getD, List.getElem?_eq_getElem h1]
  · simp only [if_true]
    apply List.ext_getElem
    · simp [hS]; omega
    · intro i h1 h2
      simp only [List.length_map, List.length_range] at h2
      have hi : i < S.length := by omega
      simp only [List.getElem_map, List.getElem_range, List.getD_eq_getElem?_getD, List.getElem?_eq_getElem hi,
        Option.getD_some, List.getElem_append]
      split
      · rename_i hlt
        simp only [List.length_take] at hlt
        have : ¬ n ≤ i := by omega
        simp [dL, this]
      · rename_i hlt
        simp only [List.length_take] at hlt
        have hn : n ≤ i := by omega
        have hmin : min n S.length = n := by omega
        simp only [List.getElem_zipWith, List.getElem_drop, List.length_take, hmin, List.getElem_take]
        have e1 : n + (i - n) = i := by omega
        have h3 : i - n < src.length := by omega
        have g1 : src.getD i 0 = src[i] := by simp [List.getD_eq_getElem?_getD, List.getElem?_eq_getElem h2]
        have g2 : src.getD (i - n) 0 = src[i - n] := by
          simp [List.getD_eq_getElem?_getD, List.getElem?_eq_getElem h3]
        simp only [dL, hn, true_and, e1, g1, g2]
        by_cases hc : src[i] = src[i - n]
        · simp [hc]
        · simp [hc]

theorem lobeStep_snd (wt : WinType) (src : List Nat) (S E : List Int) (n : Nat) (hE : E.length = src.length) :
    (lobeStep wt src src.length (S, E) n).2 =
      (List.range src.length).map fun j => E.getD j 0 + (if wt.doRight then dR src n j else 0) := by
  unfold lobeStep
  simp only
  cases hd : wt.doRight
  · simp only [Bool.false_eq_true, if_false, Int.add_zero]
    apply List.ext_getElem
    · simp [hE]
    · intro i h1 h2
      simp [List.getD_eq_getElem?_getD, List.getElem?_eq_getElem h1]
  · simp only [if_true]
    apply List.ext_getElem
    · simp [hE]
    · intro i h1 h2
      simp only [List.length_map, List.length_range] at h2
      have hi : i < E.length := by omega
      simp only [List.getElem_map, List.getElem_range, List.getD_eq_getElem?_getD, List.getElem?_eq_getElem hi,
        Option.getD_some, List.getElem_append]
      split
      · rename_i hlt
        simp only [List.length_zipWith, List.length_take, List.length_drop] at hlt
        have hn : i + n < src.length := by omega
        simp only [List.getElem_zipWith, List.getElem_drop, List.getElem_take]
        have g1 : src.getD i 0 = src[i] := by simp [List.getD_eq_getElem?_getD, List.getElem?_eq_getElem h2]
        have g2 : src.getD (i + n) 0 = src[i + n] := by
          simp [List.getD_eq_getElem?_getD, List.getElem?_eq_getElem hn]
        have e1 : n + i = i + n := by omega
        simp only [dR, hn, true_and, g1, g2, e1]
        by_cases hc : src[i + n] = src[i]
        · simp [hc]
        · simp [hc]
      · rename_i hlt
        simp only [List.length_zipWith, List.length_take, List.length_drop] at hlt
        have hn : ¬ i + n < src.length := by omega
        simp only [List.getElem_drop, List.length_zipWith, List.length_take, List.length_drop]
        have e : src.length - n - n = src.length - n - n := rfl
        simp only [dR, hn, false_and, if_false, Int.add_zero]
        first
          | done
          | (congr 1; omega)

/-- Number of passes `1..k` that move `start_idx[j]` / `end_idx[j]`. -/
def cntL (src : List Nat) : Nat → Nat → Int
  | 0, _ => 0
  | k + 1, j => cntL src k j + dL src (k + 1) j

def cntR (src : List Nat) : Nat → Nat → Int
  | 0, _ => 0
  | k + 1, j => cntR src k j + dR src (k + 1) j

/-- The state of the loop after `k` passes. -/
def loopK (wt : WinType) (src : List Nat) (k : Nat) : List Int × List Int :=
  (List.range k).foldl (fun st j => lobeStep wt src src.length st (j + 1))
    ((List.range src.length).map Int.ofNat, (List.range src.length).map Int.ofNat)

theorem loopK_eq (wt : WinType) (src : List Nat) (k : Nat) :
    loopK wt src k =
      ((List.range src.length).map (fun (j : Nat) => (j : Int) - (if wt.doLeft then cntL src k j else 0)),
       (List.range src.length).map (fun (j : Nat) => (j : Int) + (if wt.doRight then cntR src k j else 0))) := by
  induction k with
  | zero =>
    simp only [loopK, List.range_zero, List.foldl_nil, cntL, cntR, ite_self, Int.sub_zero, Int.add_zero]
    rfl
  | succ k ih =>
    unfold loopK at ih ⊢
    rw [List.range_succ, List.foldl_append, ih]
    simp only [List.foldl_cons, List.foldl_nil]
    refine Prod.ext ?_ ?_
    · rw [lobeStep_fst _ _ _ _ _ (by simp)]
      apply List.map_congr_left
      intro j hj
      have hj' : j < src.length := by simpa using hj
      simp only [List.getD_eq_getElem?_getD, List.getElem?_map, List.getElem?_range hj', Option.map_some,
        Option.getD_some, cntL]
      cases wt.doLeft <;> simp <;> omega
    · rw [lobeStep_snd _ _ _ _ _ (by simp)]
      apply List.map_congr_left
      intro j hj
      have hj' : j < src.length := by simpa using hj
      simp only [List.getD_eq_getElem?_getD, List.getElem?_map, List.getElem?_range hj', Option.map_some,
        Option.getD_some, cntR]
      cases wt.doRight <;> simp <;> omega

theorem getD_app_left {α} (A B : List α) (j : Nat) (d : α) (h : j < A.length) :
    (A ++ B).getD j d = A.getD j d := by
  simp [List.getD_eq_getElem?_getD, List.getElem?_append_left h]

theorem getD_app_right {α} (A B : List α) (j : Nat) (d : α) (h : A.length ≤ j) :
    (A ++ B).getD j d = B.getD (j - A.length) d := by
  simp [List.getD_eq_getElem?_getD, List.getElem?_append_right h]

theorem getD_replicate' {α} (M j : Nat) (a d : α) (h : j < M) : (List.replicate M a).getD j d = a := by
  simp [List.getD_eq_getElem?_getD, h]

theorem getD_mem {α} (l : List α) (j : Nat) (d : α) (h : j < l.length) : l.getD j d ∈ l := by
  simp [List.getD_eq_getElem?_getD, List.getElem?_eq_getElem h]

section split
variable (NB n0 : Nat) (sR : List Nat) (hR : ∀ y ∈ sR, y ≠ n0)

theorem dL_block (n j : Nat) (hj : j < NB) :
    dL (List.replicate NB n0 ++ sR) n j = if n ≤ j then 1 else 0 := by
  unfold dL
  by_cases hn : n ≤ j
  · rw [getD_app_left _ _ _ _ (by simpa using hj), getD_app_left _ _ _ _ (by simp; omega),
      getD_replicate' _ _ _ _ hj, getD_replicate' _ _ _ _ (by omega)]
    simp [hn]
  · simp [hn]

include hR

theorem dL_rest (n j : Nat) (hj : NB ≤ j) (hj2 : j < NB + sR.length) :
    dL (List.replicate NB n0 ++ sR) n j = dL sR n (j - NB) := by
  unfold dL
  rw [getD_app_right _ _ j _ (by simpa using hj)]
  simp only [List.length_replicate]
  by_cases hn : n ≤ j - NB
  · rw [getD_app_right _ _ (j - n) _ (by simp; omega)]
    have e : j - n - (List.replicate NB n0).length = j - NB - n := by simp; omega
    have hn' : n ≤ j := by omega
    simp only [e, hn, hn', true_and]
  · by_cases hn' : n ≤ j
    · rw [getD_app_left _ _ (j - n) _ (by simp; omega), getD_replicate' _ _ _ _ (by omega)]
      have := hR _ (getD_mem sR (j - NB) 0 (by omega))
      rw [if_neg (fun h => this h.2), if_neg (fun h => hn h.1)]
    · rw [if_neg (fun h => hn' h.1), if_neg (fun h => hn h.1)]

theorem dR_block (n j : Nat) (hj : j < NB) :
    dR (List.replicate NB n0 ++ sR) n j = if j + n < NB then 1 else 0 := by
  unfold dR
  rw [getD_app_left _ _ j _ (by simpa using hj), getD_replicate' _ _ _ _ hj]
  by_cases hn : j + n < NB
  · rw [getD_app_left _ _ _ _ (by simpa using hn), getD_replicate' _ _ _ _ hn]
    simp [hn]; omega
  · simp only [hn, if_false]
    by_cases h2 : j + n < (List.replicate NB n0 ++ sR).length
    · rw [getD_app_right _ _ _ _ (by simp; omega)]
      simp only [List.length_append, List.length_replicate] at h2
      have := hR _ (getD_mem sR (j + n - (List.replicate NB n0).length) 0 (by simp; omega))
      rw [if_neg (fun h => this h.2)]
    · rw [if_neg (fun h => h2 h.1)]

omit hR in
theorem dR_rest (n j : Nat) (hj : NB ≤ j) :
    dR (List.replicate NB n0 ++ sR) n j = dR sR n (j - NB) := by
  unfold dR
  rw [getD_app_right _ _ j _ (by simpa using hj), getD_app_right _ _ (j + n) _ (by simp; omega)]
  have e : j + n - NB = j - NB + n := by omega
  have e2 : j + n < (List.replicate NB n0 ++ sR).length ↔ j - NB + n < sR.length := by simp; omega
  simp only [e2, List.length_replicate, e]

omit hR in
theorem cntL_block (k j : Nat) (hj : j < NB) :
    cntL (List.replicate NB n0 ++ sR) k j = ((min k j : Nat) : Int) := by
  induction k with
  | zero => simp [cntL]
  | succ k ih =>
    rw [cntL, ih, dL_block NB n0 sR _ _ hj]
    split <;> omega

theorem cntL_rest (k j : Nat) (hj : NB ≤ j) (hj2 : j < NB + sR.length) :
    cntL (List.replicate NB n0 ++ sR) k j = cntL sR k (j - NB) := by
  induction k with
  | zero => simp [cntL]
  | succ k ih => rw [cntL, ih, dL_rest NB n0 sR hR _ _ hj hj2, cntL]

theorem cntR_block (k j : Nat) (hj : j < NB) :
    cntR (List.replicate NB n0 ++ sR) k j = ((min k (NB - 1 - j) : Nat) : Int) := by
  induction k with
  | zero => simp [cntR]
  | succ k ih =>
    rw [cntR, ih, dR_block NB n0 sR hR _ _ hj]
    split <;> omega

omit hR in
theorem cntR_rest (k j : Nat) (hj : NB ≤ j) :
    cntR (List.replicate NB n0 ++ sR) k j = cntR sR k (j - NB) := by
  induction k with
  | zero => simp [cntR]
  | succ k ih => rw [cntR, ih, dR_rest NB n0 sR _ _ hj, cntR]

end split

theorem pyGet_nonneg (l : List Nat) (i : Int) (h : 0 ≤ i) : pyGet l i = l.getD i.toNat 0 := by
  unfold pyGet
  have : ¬ i < 0 := by omega
  simp [this]

theorem map_getD_range {α} (l : List α) (d : α) : (List.range l.length).map (fun j => l.getD j d) = l := by
  apply List.ext_getElem
  · simp
  · intro i h1 h2
    simp only [List.length_map, List.length_range] at h1
    simp [List.getD_eq_getElem?_getD, List.getElem?_eq_getElem h1]

/-- The window the non-valid branch builds for flat run `j` of `L`, the run lists being
`full = P ++ L` (`base = P.length`). -/
def nvWin (lobe : Nat) (wt : WinType) (full : List Run3) (base : Nat) (src : List Nat) (j : Nat) : Win :=
  ⟨Int.ofNat (pyGet (full.map (·.2.1)) (((base + j : Nat) : Int) - (if wt.doLeft then cntL src lobe j else 0))),
   Int.ofNat (pyGet (full.map (·.2.2)) (((base + j : Nat) : Int) + (if wt.doRight then cntR src lobe j else 0))),
   src.getD j 0⟩

theorem aliLobe_nonvalid_eq (lobe : Nat) (wt : WinType) (L : List Run3) (hl : lobe ≠ 0) :
    aliLobe lobe wt false (L.map (·.1)) (L.map (·.2.1)) (L.map (·.2.2)) =
      (List.range L.length).map (nvWin lobe wt L 0 (L.map (·.1))) := by
  have hloop := loopK_eq wt (L.map (·.1)) lobe
  unfold loopK at hloop
  simp only [List.length_map] at hloop
  unfold aliLobe
  simp only [hl, if_false, Bool.false_eq_true, List.length_map, hloop, List.map_map]
  have hsrc := map_getD_range (L.map (·.1)) 0
  simp only [List.length_map] at hsrc
  conv => lhs; arg 3; rw [← hsrc]
  rw [mkWins_map]
  apply List.map_congr_left
  intro j _
  simp [nvWin]


theorem getD_mid (P L' : List Run3) (b : List (Nat × Nat)) (n0 i : Nat) (f : Run3 → Nat) (hi : i < b.length) :
    ((P ++ (b.map (fun r => (n0, r.1, r.2)) ++ L')).map f).getD (P.length + i) 0 =
      f (n0, (b.getD i (0, 0)).1, (b.getD i (0, 0)).2) := by
  have h1 : (P ++ (b.map (fun r => ((n0, r.1, r.2) : Run3)) ++ L'))[P.length + i]? =
      some (n0, b[i].1, b[i].2) := by
    rw [List.getElem?_append_right (by omega), Nat.add_sub_cancel_left,
      List.getElem?_append_left (by simpa using hi)]
    simp [List.getElem?_eq_getElem hi]
  rw [List.getD_eq_getElem?_getD, List.getElem?_map, h1]
  simp [List.getD_eq_getElem?_getD, List.getElem?_eq_getElem hi]

theorem nv_blocks (lobe : Nat) (wt : WinType) (P : List Run3) (n0 : Nat) (blocks : List (List (Nat × Nat))) :
    (List.range (flatFrom n0 blocks).length).map
        (nvWin lobe wt (P ++ flatFrom n0 blocks) P.length ((flatFrom n0 blocks).map (·.1))) =
      labelFrom n0 (blocks.map (lobeRow lobe wt false)) := by
  induction blocks generalizing P n0 with
  | nil => simp [flatFrom, labelFrom]
  | cons b bs ih =>
    have hR : ∀ y ∈ (flatFrom (n0 + 1) bs).map (·.1), y ≠ n0 := by
      intro y hy
      obtain ⟨x, hx, rfl⟩ := List.mem_map.mp hy
      have := flatFrom_src_ge (n0 + 1) bs x hx
      omega
    have hsrc : (b.map (fun r => ((n0, r.1, r.2) : Run3)) ++ flatFrom (n0 + 1) bs).map (·.1) =
        List.replicate b.length n0 ++ (flatFrom (n0 + 1) bs).map (·.1) := by
      simp only [List.map_append, List.map_map, Function.comp_def]
      rw [List.map_const']
    simp only [flatFrom, List.map_cons, labelFrom, List.length_append, List.length_map]
    rw [hsrc, List.range_add, List.map_append, List.map_map]
    congr 1
    · -- the block of sequence n0
      unfold lobeRow
      simp only [Bool.false_eq_true, if_false, List.filterMap_eq_map', List.map_map]
      apply List.map_congr_left
      intro j hj
      have hj' : j < b.length := by simpa using hj
      simp only [nvWin, Function.comp_def]
      rw [cntL_block _ _ _ _ _ hj', cntR_block _ _ _ hR _ _ hj', getD_app_left _ _ _ _ (by simpa using hj'),
        getD_replicate' _ _ _ _ hj']
      have e1 : ((P.length + j : Nat) : Int) - (if wt.doLeft = true then ((min lobe j : Nat) : Int) else 0) =
          ((P.length + (j - (if wt.doLeft = true then lobe else 0)) : Nat) : Int) := by
        cases wt.doLeft <;> simp <;> omega
      have e2 : ((P.length + j : Nat) : Int) + (if wt.doRight = true then ((min lobe (b.length - 1 - j) : Nat) : Int) else 0) =
          ((P.length + (min (j + (if wt.doRight = true then lobe else 0)) (b.length - 1)) : Nat) : Int) := by
        cases wt.doRight <;> simp <;> omega
      rw [e1, e2, pyGet_nonneg _ _ (by omega), pyGet_nonneg _ _ (by omega), Int.toNat_natCast, Int.toNat_natCast,
        getD_mid _ _ _ _ _ _ (by omega), getD_mid _ _ _ _ _ _ (by omega)]
      rfl
    · -- the remaining sequences
      rw [← ih (P ++ b.map (fun r => ((n0, r.1, r.2) : Run3))) (n0 + 1)]
      apply List.map_congr_left
      intro j hj
      have hj' : j < (flatFrom (n0 + 1) bs).length := by simpa using hj
      simp only [nvWin, Function.comp_def, List.append_assoc, List.length_append, List.length_map]
      rw [cntL_rest _ _ _ hR _ _ (by omega) (by simp; omega), cntR_rest _ _ _ _ _ (by omega),
        getD_app_right _ _ _ _ (by simp), List.length_replicate, Nat.add_sub_cancel_left]
      have e : P.length + (b.length + j) = P.length + b.length + j := by omega
      rw [e]


theorem filterMap_congr_mem {α β} (l : List α) (f g : α → Option β) (h : ∀ a ∈ l, f a = g a) :
    l.filterMap f = l.filterMap g := by
  induction l with
  | nil => rfl
  | cons x xs ih =>
    simp only [List.filterMap_cons, h x (by simp), ih (fun a ha => h a (by simp [ha]))]

theorem lobeRow_zero (wt : WinType) (vo : Bool) (rs : List (Nat × Nat)) :
    lobeRow 0 wt vo rs = rs.map fun r => ((r.1 : Int), (r.2 : Int)) := by
  unfold lobeRow
  simp only [ite_self, Nat.sub_zero, Nat.add_zero, Nat.not_lt_zero, false_or]
  have hget : ∀ m, m ∈ List.range rs.length → min m (rs.length - 1) = m := by
    intro m hm
    have : m < rs.length := by simpa using hm
    omega
  have h : ∀ m ∈ List.range rs.length,
      (if vo = true then
        if rs.length ≤ m then none else some (((rs.getD m (0, 0)).1 : Int), ((rs.getD m (0, 0)).2 : Int))
      else some (((rs.getD m (0, 0)).1 : Int), ((rs.getD (min m (rs.length - 1)) (0, 0)).2 : Int))) =
      some (((rs.getD m (0, 0)).1 : Int), ((rs.getD m (0, 0)).2 : Int)) := by
    intro m hm
    have hlt : m < rs.length := by simpa using hm
    have : ¬ rs.length ≤ m := by omega
    cases vo <;> simp [this, hget m hm]
  rw [filterMap_congr_mem _ _ _ h, List.filterMap_eq_map']
  conv => rhs; rw [← map_getD_range rs (0, 0)]
  rw [List.map_map]
  rfl

theorem flatFrom_toWin (n0 : Nat) (blocks : List (List (Nat × Nat))) :
    (flatFrom n0 blocks).map (fun x => (⟨(x.2.1 : Int), (x.2.2 : Int), x.1⟩ : Win)) =
      labelFrom n0 (blocks.map fun rs => rs.map fun r => ((r.1 : Int), (r.2 : Int))) := by
  induction blocks generalizing n0 with
  | nil => simp [flatFrom, labelFrom]
  | cons b bs ih => simp [flatFrom, labelFrom, ih, Function.comp_def]

/-- **The lobe block of the `'ali'` branch, for every lobe, window type and validity**: on the
batch-flattened run lists it returns, sequence by sequence, what the declarative policy does with
the run list of that sequence. -/
theorem aliLobe_blocks (lobe : Nat) (wt : WinType) (vo : Bool) (blocks : List (List (Nat × Nat))) :
    aliLobe lobe wt vo ((flatFrom 0 blocks).map (·.1)) ((flatFrom 0 blocks).map (·.2.1))
        ((flatFrom 0 blocks).map (·.2.2)) =
      labelFrom 0 (blocks.map (lobeRow lobe wt vo)) := by
  by_cases hl : lobe = 0
  · subst hl
    have : lobeRow 0 wt vo = fun rs => rs.map fun r => ((r.1 : Int), (r.2 : Int)) := by
      funext rs; exact lobeRow_zero wt vo rs
    rw [this, ← flatFrom_toWin]
    unfold aliLobe
    simp only [if_true, List.map_map]
    rw [mkWins_map]
    rfl
  · cases vo
    · rw [aliLobe_nonvalid_eq _ _ _ hl]
      have := nv_blocks lobe wt [] 0 blocks
      simpa using this
    · rw [aliLobe_valid_eq _ _ _ hl]
      generalize 0 = n0
      induction blocks generalizing n0 with
      | nil => simp [flatFrom, labelFrom, pairWins]
      | cons b bs ih =>
        simp only [flatFrom, List.map_cons, labelFrom]
        rw [pairWins_split, ih (n0 + 1), ← List.map_drop, pairWins_block, lobeRow_valid, List.map_map]
        · rfl
        · intro x hx y hy
          obtain ⟨r, _, rfl⟩ := List.mem_map.mp hx
          have := flatFrom_src_ge (n0 + 1) bs y hy
          simp only
          omega


/-- `in_lens` as the code sees it row by row (`none` = omitted). -/
def lensOpt (N : Nat) (inLens : Option (List Int)) : List (Option Int) :=
  match inLens with
  | some l => l.map some
  | none => List.replicate N none

theorem lensOf_eq_map (T N : Nat) (inLens : Option (List Int)) :
    lensOf T N inLens = (lensOpt N inLens).map (lenOf T) := by
  cases inLens with
  | none => simp [lensOf, lensOpt, lenOf]
  | some l => simp [lensOf, lensOpt, lenOf, Function.comp_def]

theorem aliBatch_eq (T lobe : Nat) (wt : WinType) (vo : Bool) (rows : List (List Int))
    (inLens : Option (List Int)) (hrows : ∀ r ∈ rows, r.length = T)
    (hin : ∀ l, inLens = some l → ∀ x ∈ l, 0 ≤ x ∧ x ≤ (T : Int)) :
    aliBatch T lobe wt vo rows inLens = SlicePolicy.ali lobe wt vo rows (lensOf T rows.length inLens) := by
  have hlens : ∀ len ∈ lensOpt rows.length inLens, ∀ l, len = some l → 0 ≤ l ∧ l ≤ (T : Int) := by
    intro len hlen l hl
    subst hl
    cases inLens with
    | none => simp [lensOpt] at hlen
    | some ls =>
      simp only [lensOpt, List.mem_map] at hlen
      obtain ⟨x, hx, hx2⟩ := hlen
      cases hx2
      exact hin ls rfl l hx
  have hnz := nonzero2From_blocks T rows (lensOpt rows.length inLens) 0 hrows hlens
  simp only at hnz
  obtain ⟨h1, h2, h3⟩ := hnz
  have hunf : aliBatch T lobe wt vo rows inLens =
      aliLobe lobe wt vo
        ((nonzero2From 0 ((List.zipWith (fun row len => aliMasks T row len) rows
          (lensOpt rows.length inLens)).map (·.1))).map (·.1))
        ((nonzero2From 0 ((List.zipWith (fun row len => aliMasks T row len) rows
          (lensOpt rows.length inLens)).map (·.1))).map (·.2))
        ((nonzero2From 0 ((List.zipWith (fun row len => aliMasks T row len) rows
          (lensOpt rows.length inLens)).map (·.2))).map (·.2)) := by
    cases inLens <;> rfl
  rw [hunf, h1, h2, h3, aliLobe_blocks]
  unfold SlicePolicy.ali
  rw [labelRows_eq_labelFrom, lensOf_eq_map, List.zipWith_map_right, List.map_zipWith]
  rfl


/-! ### runs are well-formed: every valid window of the declarative 'ali' policy lies inside -/

theorem runsAux_wf (cur : Int) (s p : Nat) (ys : List Int) (hsp : s < p) :
    ∀ (i j : Nat) (a b : Nat × Nat), i ≤ j → (runsAux cur s p ys)[i]? = some a →
      (runsAux cur s p ys)[j]? = some b → s ≤ a.1 ∧ a.1 < b.2 ∧ b.2 ≤ p + ys.length := by
  induction ys generalizing cur s p with
  | nil =>
    intro i j a b hij ha hb
    simp only [runsAux] at ha hb
    have hj : j = 0 := by
      cases j with
      | zero => rfl
      | succ j => simp at hb
    subst hj
    have hi : i = 0 := by omega
    subst hi
    simp only [List.getElem?_cons_zero, Option.some.injEq] at ha hb
    subst ha hb
    simp only [List.length_nil]
    omega
  | cons y ys ih =>
    intro i j a b hij ha hb
    by_cases hy : (y == cur) = true
    · simp only [runsAux, hy, if_true] at ha hb
      have := ih cur s (p + 1) (by omega) i j a b hij ha hb
      simp only [List.length_cons]
      omega
    · simp only [runsAux, hy, Bool.false_eq_true, if_false] at ha hb
      simp only [List.length_cons]
      cases j with
      | zero =>
        have hi : i = 0 := by omega
        subst hi
        simp only [List.getElem?_cons_zero, Option.some.injEq] at ha hb
        subst ha hb
        simp only
        omega
      | succ j =>
        simp only [List.getElem?_cons_succ] at hb
        cases i with
        | zero =>
          simp only [List.getElem?_cons_zero, Option.some.injEq] at ha
          subst ha
          have := ih y p (p + 1) (by omega) j j b b (Nat.le_refl _) hb hb
          simp only
          omega
        | succ i =>
          simp only [List.getElem?_cons_succ] at ha
          have := ih y p (p + 1) (by omega) i j a b (by omega) ha hb
          omega

/-- Run `i` starts before run `j ≥ i` ends, and no run ends beyond the sequence. -/
theorem runs_wf (xs : List Int) (i j : Nat) (a b : Nat × Nat) (hij : i ≤ j)
    (ha : (runs xs)[i]? = some a) (hb : (runs xs)[j]? = some b) : a.1 < b.2 ∧ b.2 ≤ xs.length := by
  cases xs with
  | nil => simp [runs] at ha
  | cons x xs =>
    simp only [runs] at ha hb
    have := runsAux_wf x 0 1 xs (by omega) i j a b hij ha hb
    simp only [List.length_cons]
    omega

theorem lobeRow_valid_inside (lobe : Nat) (wt : WinType) (xs : List Int) (w : Int × Int)
    (hw : w ∈ lobeRow lobe wt true (runs xs)) : 0 ≤ w.1 ∧ w.1 < w.2 ∧ w.2 ≤ (xs.length : Int) := by
  unfold lobeRow at hw
  simp only [if_true, List.mem_filterMap, List.mem_range] at hw
  obtain ⟨m, hm, hw⟩ := hw
  generalize hb : (if wt.doLeft = true then lobe else 0) = back at hw
  generalize hf : (if wt.doRight = true then lobe else 0) = fwd at hw
  by_cases hc : m < back ∨ (runs xs).length ≤ m + fwd
  · simp [hc] at hw
  · simp only [hc, if_false, Option.some.injEq] at hw
    subst hw
    have h1 : m - back < (runs xs).length := by omega
    have h2 : m + fwd < (runs xs).length := by omega
    have := runs_wf xs (m - back) (m + fwd) _ _ (by omega) (List.getElem?_eq_getElem h1)
      (List.getElem?_eq_getElem h2)
    simp only [List.getD_eq_getElem?_getD, List.getElem?_eq_getElem h1, List.getElem?_eq_getElem h2,
      Option.getD_some]
    omega

theorem ali_spec_inside (lobe : Nat) (wt : WinType) (rows : List (List Int)) (lens : List Nat) (w : Win)
    (hw : w ∈ SlicePolicy.ali lobe wt true rows lens) :
    w.src < rows.length ∧ w.src < lens.length ∧
      Inside w (min (lens.getD w.src 0) (rows.getD w.src []).length : Nat) := by
  unfold SlicePolicy.ali at hw
  rw [mem_labelRows] at hw
  obtain ⟨h1, h2⟩ := hw
  simp only [List.length_zipWith] at h1
  have hr : w.src < rows.length := by omega
  have hl : w.src < lens.length := by omega
  refine ⟨hr, hl, ?_⟩
  simp only [List.getD_eq_getElem?_getD, List.getElem?_zipWith, List.getElem?_eq_getElem hr,
    List.getElem?_eq_getElem hl, Option.getD_some, aliRow_eq] at h2 ⊢
  have := lobeRow_valid_inside lobe wt _ _ h2
  simp only [List.length_take] at this
  unfold Inside
  exact this


/-! ### the run lists of the two `nonzero` calls satisfy `RunsWf` -/

theorem runsWf_flat (len : Nat → Int) (n0 : Nat) (blocks : List (List (Nat × Nat)))
    (hb : ∀ k (rs : List (Nat × Nat)), blocks[k]? = some rs → ∀ (i j : Nat) (a b : Nat × Nat), i ≤ j →
      rs[i]? = some a → rs[j]? = some b → (a.1 : Int) < b.2 ∧ (b.2 : Int) ≤ len (n0 + k)) :
    RunsWf len ((flatFrom n0 blocks).map (·.1)) ((flatFrom n0 blocks).map (·.2.1))
      ((flatFrom n0 blocks).map (·.2.2)) := by
  induction blocks generalizing n0 with
  | nil =>
    intro i j n a b _ h1
    simp [flatFrom] at h1
  | cons blk bs ih =>
    intro i j n a b hij h1 h2 h3 h4
    simp only [flatFrom, List.getElem?_map, Option.map_eq_some_iff] at h1 h2 h3 h4
    obtain ⟨x1, hx1, hn1⟩ := h1
    obtain ⟨x2, hx2, hn2⟩ := h2
    obtain ⟨x3, hx3, ha⟩ := h3
    obtain ⟨x4, hx4, hb4⟩ := h4
    rw [hx1] at hx3
    rw [hx2] at hx4
    cases hx3
    cases hx4
    have hge := flatFrom_src_ge (n0 + 1) bs
    by_cases hi : i < blk.length
    · -- run i belongs to sequence n0, hence so does run j
      rw [List.getElem?_append_left (by simpa using hi)] at hx1
      simp only [List.getElem?_map, Option.map_eq_some_iff] at hx1
      obtain ⟨r1, hr1, rfl⟩ := hx1
      have hn : n = n0 := by simpa using hn1.symm
      by_cases hj : j < blk.length
      · rw [List.getElem?_append_left (by simpa using hj)] at hx2
        simp only [List.getElem?_map, Option.map_eq_some_iff] at hx2
        obtain ⟨r2, hr2, rfl⟩ := hx2
        have := hb 0 blk (by simp) i j r1 r2 hij hr1 hr2
        subst ha hb4 hn
        simpa using this
      · rw [List.getElem?_append_right (by simp; omega)] at hx2
        have := hge x2 (List.mem_of_getElem? hx2)
        omega
    · have hj : ¬ j < blk.length := by omega
      rw [List.getElem?_append_right (by simp; omega)] at hx1 hx2
      simp only [List.length_map] at hx1 hx2
      have hb' : ∀ k (rs : List (Nat × Nat)), bs[k]? = some rs → ∀ (i j : Nat) (a b : Nat × Nat), i ≤ j →
          rs[i]? = some a → rs[j]? = some b → (a.1 : Int) < b.2 ∧ (b.2 : Int) ≤ len (n0 + 1 + k) := by
        intro k rs hk
        have := hb (k + 1) rs (by simpa using hk)
        have e : n0 + (k + 1) = n0 + 1 + k := by omega
        rw [e] at this
        exact this
      exact ih (n0 + 1) hb' (i - blk.length) (j - blk.length) n a b (by omega)
        (by simp [hx1, hn1]) (by simp [hx2, hn2]) (by simp [hx1, ha]) (by simp [hx2, hb4])


theorem aliBatch_runsWf (T : Nat) (rows : List (List Int)) (inLens : Option (List Int))
    (hrows : ∀ r ∈ rows, r.length = T)
    (hin : ∀ l, inLens = some l → ∀ x ∈ l, 0 ≤ x ∧ x ≤ (T : Int)) :
    let masks := List.zipWith (fun row len => aliMasks T row len) rows (lensOpt rows.length inLens)
    RunsWf (fun n => (((lensOf T rows.length inLens).getD n 0 : Nat) : Int))
      ((nonzero2From 0 (masks.map (·.1))).map (·.1)) ((nonzero2From 0 (masks.map (·.1))).map (·.2))
      ((nonzero2From 0 (masks.map (·.2))).map (·.2)) := by
  have hlens : ∀ len ∈ lensOpt rows.length inLens, ∀ l, len = some l → 0 ≤ l ∧ l ≤ (T : Int) := by
    intro len hlen l hl
    subst hl
    cases inLens with
    | none => simp [lensOpt] at hlen
    | some ls =>
      simp only [lensOpt, List.mem_map] at hlen
      obtain ⟨x, hx, hx2⟩ := hlen
      cases hx2
      exact hin ls rfl l hx
  have hnz := nonzero2From_blocks T rows (lensOpt rows.length inLens) 0 hrows hlens
  simp only at hnz ⊢
  obtain ⟨h1, h2, h3⟩ := hnz
  rw [h1, h2, h3]
  apply runsWf_flat
  intro k rs hk i j a b hij ha hb
  simp only [List.getElem?_zipWith] at hk
  cases hr : rows[k]? with
  | none => simp [hr] at hk
  | some row =>
    cases hl : (lensOpt rows.length inLens)[k]? with
    | none => simp [hr, hl] at hk
    | some len =>
      simp only [hr, hl, Option.some.injEq] at hk
      subst hk
      have := runs_wf _ i j a b hij ha hb
      simp only [List.length_take] at this
      have e : (lensOf T rows.length inLens).getD (0 + k) 0 = lenOf T len := by
        rw [lensOf_eq_map]
        simp [List.getD_eq_getElem?_getD, List.getElem?_map, hl]
      rw [e]
      omega


/-! ### "in order, each labelled with its source element" -/

theorem labelFrom_src_ge (n0 : Nat) (rows : List (List (Int × Int))) :
    ∀ w ∈ labelFrom n0 rows, n0 ≤ w.src := by
  induction rows generalizing n0 with
  | nil => simp [labelFrom]
  | cons r rs ih =>
    intro w hw
    simp only [labelFrom, List.mem_append, List.mem_map] at hw
    rcases hw with ⟨p, _, rfl⟩ | hw
    · exact Nat.le_refl _
    · have := ih (n0 + 1) w hw; omega

theorem labelFrom_sorted (n0 : Nat) (rows : List (List (Int × Int))) :
    ((labelFrom n0 rows).map (·.src)).Pairwise (· ≤ ·) := by
  induction rows generalizing n0 with
  | nil => simp [labelFrom]
  | cons r rs ih =>
    simp only [labelFrom, List.map_append, List.map_map, List.pairwise_append]
    refine ⟨?_, ih (n0 + 1), ?_⟩
    · have hc : (List.map ((fun x => x.src) ∘ fun (w : Int × Int) => ({ start := w.1, stop := w.2, src := n0 } : Win)) r) =
          List.replicate r.length n0 := by
        simp only [Function.comp_def]
        rw [List.map_const']
      rw [hc]
      simp [List.pairwise_replicate]
    · intro a ha b hb
      simp only [List.mem_map, Function.comp_def] at ha hb
      obtain ⟨_, _, rfl⟩ := ha
      obtain ⟨w, hw, rfl⟩ := hb
      have := labelFrom_src_ge (n0 + 1) rs w hw
      omega

theorem labelFrom_filter (n0 : Nat) (rows : List (List (Int × Int))) (n : Nat) (hn : n < rows.length) :
    (labelFrom n0 rows).filter (fun w => w.src == n0 + n) =
      (rows.getD n []).map fun w => ⟨w.1, w.2, n0 + n⟩ := by
  induction rows generalizing n0 n with
  | nil => simp at hn
  | cons r rs ih =>
    simp only [labelFrom, List.filter_append]
    cases n with
    | zero =>
      have h1 : (labelFrom (n0 + 1) rs).filter (fun w => w.src == n0 + 0) = [] := by
        rw [List.filter_eq_nil_iff]
        intro w hw
        have := labelFrom_src_ge (n0 + 1) rs w hw
        simp; omega
      rw [h1, List.append_nil, List.filter_eq_self.mpr]
      · simp
      · intro w hw
        obtain ⟨_, _, rfl⟩ := List.mem_map.mp hw
        simp
    | succ n =>
      have h1 : (r.map fun w => (⟨w.1, w.2, n0⟩ : Win)).filter (fun w => w.src == n0 + (n + 1)) = [] := by
        rw [List.filter_eq_nil_iff]
        intro w hw
        obtain ⟨_, _, rfl⟩ := List.mem_map.mp hw
        simp
      have e : n0 + (n + 1) = n0 + 1 + n := by omega
      rw [h1, List.nil_append, e, ih (n0 + 1) n (by simpa using hn)]
      simp


/-! ## the directory-level worker: slicer and token chunker composed -/

theorem sliceSpectData_ali_eq (N T lobe : Nat) (wt : WinType) (vo : Bool) (rows : List (List Int))
    (inLens otherLens : Option (List Int)) (hN : rows.length = N) (hT : T ≠ 0)
    (hrows : ∀ r ∈ rows, r.length = T)
    (hin : ∀ l, inLens = some l → l.length = N ∧ ∀ x ∈ l, 0 ≤ x ∧ x ≤ (T : Int)) :
    sliceSpectData (.ali N T rows) inLens otherLens wt vo lobe =
      .ok (SlicePolicy.ali lobe wt vo rows (lensOf T N inLens)) := by
  subst hN
  have hok : lensOk rows.length inLens = true := by
    cases inLens with
    | none => rfl
    | some l => simp [lensOk, (hin l rfl).1]
  simp only [sliceSpectData, hT, if_false, hok, Bool.not_true, Bool.false_eq_true]
  rw [aliBatch_eq T lobe wt vo rows inLens hrows (fun l hl => (hin l hl).2)]

theorem zip_map_range_getD {α β} (ws : List α) (d : α) (f : α → β) :
    List.zip ws ((List.range ws.length).map fun n => f (ws.getD n d)) = ws.map fun w => (w, f w) := by
  apply List.ext_getElem
  · simp
  · intro i h1 h2
    simp only [List.length_map] at h2
    simp [List.getD_eq_getElem?_getD, List.getElem?_eq_getElem h2]

/-- The slicer as the worker calls it (`N = 1`, no lengths) returns the policy's windows of the
utterance. -/
theorem dirSlices_eq (policy : Policy) (wt : WinType) (vo : Bool) (lobe : Nat) (u : Utt)
    (hali : u.ali.length = u.T) (hne : if policy = .ref then u.ref ≠ [] else u.T ≠ 0) :
    dirSlices policy wt vo lobe u = .ok (dirWindows policy lobe wt vo u) := by
  cases policy
  · replace hne : u.T ≠ 0 := by simpa using hne
    simp only [dirSlices, sliceSpectData, hne, if_false, lensOk, Bool.not_true, Bool.false_eq_true, dirWindows]
    rw [fixedBatch_omitted]
    rfl
  · replace hne : u.T ≠ 0 := by simpa using hne
    simp only [dirSlices, dirWindows]
    rw [sliceSpectData_ali_eq 1 u.T lobe wt vo [u.ali] none none rfl hne (by simp [hali]) (by simp)]
    rfl
  · replace hne : u.ref ≠ [] := by simpa using hne
    have hR : u.ref.length ≠ 0 := by
      intro h; exact hne (List.eq_nil_of_length_eq_zero h)
    simp only [dirSlices, sliceSpectData, hR, if_false, lensOk, Bool.not_true, Bool.false_eq_true, dirWindows]
    rw [C10_ref_aux u.ref.length lobe wt vo [u.ref] none none (by simp) (by simp) (by simp)]
    rfl

theorem dirChunks_eq (policy : Policy) (wt : WinType) (vo : Bool) (lobe : Nat) (p retain : Bool) (u : Utt)
    (hali : u.ali.length = u.T) (hne : if policy = .ref then u.ref ≠ [] else u.T ≠ 0) :
    dirChunks policy wt vo lobe p retain u =
      .ok ((dirWindows policy lobe wt vo u).map fun w =>
        (w, (tokensKept p u.ref (w.start, w.stop) none).map (shiftTok retain w.start))) := by
  unfold dirChunks
  rw [dirSlices_eq policy wt vo lobe u hali hne]
  simp only
  generalize dirWindows policy lobe wt vo u = ws
  rw [chunkTokens_eq p retain _ _ none (by simp)]
  simp only [List.length_replicate, Option.map_none]
  congr 1
  rw [← zip_map_range_getD ws ⟨0, 0, 0⟩
    (fun w => (tokensKept p u.ref (w.start, w.stop) none).map (shiftTok retain w.start))]
  congr 1
  apply List.map_congr_left
  intro n hn
  have hn' : n < ws.length := by simpa using hn
  simp [List.getD_eq_getElem?_getD, hn']

theorem dirChunks_empty (policy : Policy) (wt : WinType) (vo : Bool) (lobe : Nat) (p retain : Bool) (u : Utt)
    (he : if policy = .ref then u.ref = [] else u.T = 0) :
    dirChunks policy wt vo lobe p retain u = .ok [] := by
  cases policy
  · replace he : u.T = 0 := by simpa using he
    simp [dirChunks, dirSlices, sliceSpectData, he]
  · replace he : u.T = 0 := by simpa using he
    simp [dirChunks, dirSlices, sliceSpectData, he]
  · replace he : u.ref = [] := by simpa using he
    simp [dirChunks, dirSlices, sliceSpectData, he]

/-! ### the final gather never leaves the run lists (audit) -/

theorem cntL_bounds (src : List Nat) (k j : Nat) : 0 ≤ cntL src k j ∧ cntL src k j ≤ ((min k j : Nat) : Int) := by
  induction k with
  | zero => simp [cntL]
  | succ k ih =>
    rw [cntL]
    unfold dL
    split <;> omega

theorem cntR_bounds (src : List Nat) (k j : Nat) (hj : j < src.length) :
    0 ≤ cntR src k j ∧ cntR src k j ≤ ((min k (src.length - 1 - j) : Nat) : Int) := by
  induction k with
  | zero => simp [cntR]
  | succ k ih =>
    rw [cntR]
    unfold dR
    split <;> omega

/-- Every index the non-valid loop hands to the final gather `starts[start_idx]`, `ends[end_idx]` lies in
`[0, NN)`, for ANY `sources` vector: `pyGet` never wraps around and never reads its default. -/
theorem loopK_in_range (wt : WinType) (src : List Nat) (k : Nat) :
    (∀ i ∈ (loopK wt src k).1, 0 ≤ i ∧ i < (src.length : Int)) ∧
    (∀ i ∈ (loopK wt src k).2, 0 ≤ i ∧ i < (src.length : Int)) := by
  rw [loopK_eq]
  constructor
  · intro i hi
    simp only [List.mem_map, List.mem_range] at hi
    obtain ⟨j, hj, rfl⟩ := hi
    have := cntL_bounds src k j
    split <;> omega
  · intro i hi
    simp only [List.mem_map, List.mem_range] at hi
    obtain ⟨j, hj, rfl⟩ := hi
    have := cntR_bounds src k j hj
    split <;> omega

/-- The two `nonzero` calls return the same number of rows (so `torch.stack([starts, ends], 1)` is
well-formed and `mkWins` truncates nothing). -/
theorem aliBatch_same_count (T : Nat) (rows : List (List Int)) (inLens : Option (List Int))
    (hrows : ∀ r ∈ rows, r.length = T)
    (hin : ∀ l, inLens = some l → ∀ x ∈ l, 0 ≤ x ∧ x ≤ (T : Int)) :
    let masks := List.zipWith (fun row len => aliMasks T row len) rows (lensOpt rows.length inLens)
    (nonzero2From 0 (masks.map (·.1))).length = (nonzero2From 0 (masks.map (·.2))).length := by
  have hlens : ∀ len ∈ lensOpt rows.length inLens, ∀ l, len = some l → 0 ≤ l ∧ l ≤ (T : Int) := by
    intro len hlen l hl
    subst hl
    cases inLens with
    | none => simp [lensOpt] at hlen
    | some ls =>
      simp only [lensOpt, List.mem_map] at hlen
      obtain ⟨x, hx, hx2⟩ := hlen
      cases hx2
      exact hin ls rfl l hx
  have h := nonzero2From_blocks T rows (lensOpt rows.length inLens) 0 hrows hlens
  simp only at h ⊢
  have h2 := congrArg List.length h.2.1
  have h3 := congrArg List.length h.2.2
  simp only [List.length_map] at h2 h3
  omega

end PdtVerif.Slicing
