import PdtVerif.Model.SpecAugment
import PdtVerif.Spec.SpecAugment
import Mathlib.Tactic.Linarith
import Mathlib.Tactic.Ring
import Mathlib.Tactic.Positivity
import Mathlib.Tactic.FieldSimp
import Mathlib.Tactic.NormNum
/-!
# Helper lemmas for C08 (SpecAugment)

Scalar facts about `rmin`/`rmax`/`clamp`/`truncI`, the floor/clamp arithmetic of the mask
draws, the warp window, interval masks, convexity of the bilinear border-clamped
resampling, and the order-1 spline through three ordered knots.
-/
namespace PdtVerif.SpecAugment

theorem rmin_le_left (a b : Rat) : rmin a b ≤ a := by
  unfold rmin; split <;> [exact le_refl _; exact le_of_lt (lt_of_not_ge ‹_›)]
theorem rmin_le_right (a b : Rat) : rmin a b ≤ b := by
  unfold rmin; split <;> [assumption; exact le_refl _]
theorem le_rmin {a b c : Rat} (h1 : c ≤ a) (h2 : c ≤ b) : c ≤ rmin a b := by
  unfold rmin; split <;> assumption
theorem le_rmax_left (a b : Rat) : a ≤ rmax a b := by
  unfold rmax; split <;> [assumption; exact le_refl _]
theorem le_rmax_right (a b : Rat) : b ≤ rmax a b := by
  unfold rmax; split <;> [exact le_refl _; exact le_of_lt (lt_of_not_ge ‹_›)]
theorem rmax_le {a b c : Rat} (h1 : a ≤ c) (h2 : b ≤ c) : rmax a b ≤ c := by
  unfold rmax; split <;> assumption
theorem rmin_cases (a b : Rat) : rmin a b = a ∨ rmin a b = b := by
  unfold rmin; split <;> simp
theorem rmax_cases (a b : Rat) : rmax a b = a ∨ rmax a b = b := by
  unfold rmax; split <;> simp

theorem truncI_of_nonneg {q : Rat} (h : 0 ≤ q) : truncI q = q.floor := by
  unfold truncI; simp [h]

theorem truncI_bounds {u x : Rat} {n : Int} (hn : 0 ≤ n) (hu0 : 0 ≤ u) (hu1 : u < 1) (hx0 : 0 ≤ x)
    (hx1 : x ≤ (n : Rat) + 1) : 0 ≤ truncI (u * x) ∧ truncI (u * x) ≤ n := by
  have h0 : 0 ≤ u * x := mul_nonneg hu0 hx0
  rw [truncI_of_nonneg h0]
  constructor
  · exact Rat.le_floor_iff.mpr (by simpa using h0)
  · have hlt : u * x < (n : Rat) + 1 := by
      rcases eq_or_lt_of_le hx0 with h | h
      · rw [← h]; have : (0 : Rat) ≤ n := by exact_mod_cast hn
        linarith
      · nlinarith
    have : (u * x).floor < n + 1 := Rat.floor_lt_iff.mpr (by push_cast; exact hlt)
    omega

theorem propCap_nonneg {len : Nat} {prop : Rat} {cap : Nat} (hp : 0 ≤ prop) : 0 ≤ propCap len prop cap := by
  unfold propCap
  apply Rat.le_floor_iff.mpr
  apply le_rmin
  · have : (0 : Rat) ≤ (len : Rat) := by exact_mod_cast Nat.zero_le len
    simpa using mul_nonneg this hp
  · simp

theorem propCap_le_cap (len : Nat) (prop : Rat) (cap : Nat) : propCap len prop cap ≤ (cap : Int) := by
  unfold propCap
  have h1 := Rat.floor_le (rmin ((len : Rat) * prop) (cap : Rat))
  have h2 := rmin_le_right ((len : Rat) * prop) (cap : Rat)
  have : ((rmin ((len : Rat) * prop) (cap : Rat)).floor : Rat) ≤ ((cap : Int) : Rat) := by
    push_cast; linarith
  exact_mod_cast this

theorem propCap_le_propFloor (len : Nat) (prop : Rat) (cap : Nat) :
    propCap len prop cap ≤ propFloor len prop := by
  unfold propCap propFloor
  exact Rat.floor_monotone (rmin_le_left _ _)

/-- `floor(min(a, n)) = min(floor a, n)` for an integer cap. -/
theorem propCap_eq_min (len : Nat) (prop : Rat) (cap : Nat) :
    propCap len prop cap = min (propFloor len prop) (cap : Int) := by
  unfold propCap propFloor rmin
  split
  · rename_i h
    have : ((len : Rat) * prop).floor ≤ (cap : Int) := by
      have h1 := Rat.floor_le ((len : Rat) * prop)
      have : (((len : Rat) * prop).floor : Rat) ≤ ((cap : Int) : Rat) := by push_cast; linarith
      exact_mod_cast this
    omega
  · rename_i h
    have h' : (cap : Rat) < (len : Rat) * prop := lt_of_not_ge h
    have h1 : ((cap : Nat) : Rat).floor = (cap : Int) := by
      have := Rat.floor_intCast (cap : Int)
      simpa using this
    have h2 : (cap : Int) ≤ ((len : Rat) * prop).floor :=
      Rat.le_floor_iff.mpr (by push_cast; linarith)
    rw [h1]; omega

theorem propFloor_le_len {len : Nat} {prop : Rat} (hp : prop ≤ 1) : propFloor len prop ≤ (len : Int) := by
  unfold propFloor
  have h1 := Rat.floor_le ((len : Rat) * prop)
  have hl : (0 : Rat) ≤ (len : Rat) := by exact_mod_cast Nat.zero_le len
  have : (((len : Rat) * prop).floor : Rat) ≤ ((len : Int) : Rat) := by
    push_cast; nlinarith
  exact_mod_cast this

/-- Start of a mask: inside `0 .. size - t`. -/
theorem maskStart_bounds {eps : Rat} {size : Nat} {t : Int} {u : Rat} (he0 : 0 ≤ eps) (he1 : eps ≤ 1)
    (_ht0 : 0 ≤ t) (ht : t ≤ (size : Int)) (hu0 : 0 ≤ u) (hu1 : u < 1) :
    0 ≤ maskStart eps size t u ∧ maskStart eps size t u + t ≤ (size : Int) := by
  unfold maskStart
  have htr : (t : Rat) ≤ (size : Rat) := by exact_mod_cast ht
  have := truncI_bounds (n := (size : Int) - t) (u := u) (x := (size : Rat) - (t : Rat) + (1 - eps))
    (by omega) hu0 hu1 (by linarith) (by push_cast; linarith)
  omega

theorem timeMaskWidth_bounds {c : Cfg} {len j : Nat} {u : Rat} (he0 : 0 ≤ c.eps) (he1 : c.eps ≤ 1)
    (hp : 0 ≤ c.maxTimeMaskProp) (hu0 : 0 ≤ u) (hu1 : u < 1) :
    0 ≤ timeMaskWidth c len j u ∧
      timeMaskWidth c len j u ≤ propCap len c.maxTimeMaskProp c.maxTimeMask := by
  unfold timeMaskWidth
  have hM := propCap_nonneg (len := len) (cap := c.maxTimeMask) hp
  simp only
  split
  · exact ⟨le_refl _, hM⟩
  · have hMr : (0 : Rat) ≤ ((propCap len c.maxTimeMaskProp c.maxTimeMask : Int) : Rat) := by exact_mod_cast hM
    exact truncI_bounds hM hu0 hu1 (by linarith) (by linarith)

theorem timeMask_ok {c : Cfg} {len j : Nat} {u u0 : Rat} (he0 : 0 ≤ c.eps) (he1 : c.eps ≤ 1)
    (hp0 : 0 ≤ c.maxTimeMaskProp) (hp1 : c.maxTimeMaskProp ≤ 1)
    (hu0 : 0 ≤ u) (hu1 : u < 1) (hv0 : 0 ≤ u0) (hv1 : u0 < 1) :
    MaskOK len c.maxTimeMask (propFloor len c.maxTimeMaskProp) (timeMask c len j u u0) := by
  obtain ⟨h0, h1⟩ := timeMaskWidth_bounds (len := len) (j := j) he0 he1 hp0 hu0 hu1
  have h2 := propCap_le_cap len c.maxTimeMaskProp c.maxTimeMask
  have h3 := propCap_le_propFloor len c.maxTimeMaskProp c.maxTimeMask
  have h4 := propFloor_le_len (len := len) hp1
  obtain ⟨s0, s1⟩ := maskStart_bounds (size := len) (t := timeMaskWidth c len j u) he0 he1 h0 (by omega) hv0 hv1
  exact ⟨h0, by simp only [timeMask]; omega, by simp only [timeMask]; omega, s0, s1⟩

theorem timeMask_past_count {c : Cfg} {len j : Nat} {u u0 : Rat}
    (h : min (propFloor len c.numTimeMaskProp) (c.numTimeMask : Int) ≤ (j : Int)) :
    (timeMask c len j u u0).2 = 0 := by
  simp only [timeMask, timeMaskWidth]
  rw [propCap_eq_min]
  simp [h]

theorem freqMask_ok {c : Cfg} {F : Nat} {u u0 : Rat} (he0 : 0 ≤ c.eps) (he1 : c.eps ≤ 1)
    (hu0 : 0 ≤ u) (hu1 : u < 1) (hv0 : 0 ≤ u0) (hv1 : u0 < 1) :
    MaskOK F c.maxFreqMask (F : Int) (freqMask c F u u0) := by
  have hb : 0 ≤ freqMaskWidth c F u ∧ freqMaskWidth c F u ≤ ((Nat.min c.maxFreqMask F : Nat) : Int) := by
    unfold freqMaskWidth
    generalize Nat.min c.maxFreqMask F = M
    have hM : (0 : Rat) ≤ (M : Rat) := by exact_mod_cast Nat.zero_le _
    exact truncI_bounds (n := (M : Int)) (by omega) hu0 hu1
      (by linarith) (by push_cast; linarith)
  have h1 : ((Nat.min c.maxFreqMask F : Nat) : Int) ≤ (c.maxFreqMask : Int) := by
    exact_mod_cast Nat.min_le_left _ _
  have h2 : ((Nat.min c.maxFreqMask F : Nat) : Int) ≤ (F : Int) := by
    exact_mod_cast Nat.min_le_right _ _
  obtain ⟨s0, s1⟩ := maskStart_bounds (size := F) (t := freqMaskWidth c F u) he0 he1 hb.1 (by omega) hv0 hv1
  exact ⟨hb.1, by simp only [freqMask]; omega, by simp only [freqMask]; omega, s0, s1⟩


/-! ## warp window -/

theorem warpW_bounds {eps maxWarp : Rat} {len : Nat} (hl : 1 ≤ len) (he : 0 < eps) (hm : 0 ≤ maxWarp) :
    0 ≤ warpW eps maxWarp len ∧ warpW eps maxWarp len ≤ maxWarp ∧ warpW eps maxWarp len < (len : Rat) / 2 := by
  have hlr : (1 : Rat) ≤ (len : Rat) := by exact_mod_cast hl
  unfold warpW clamp
  refine ⟨le_rmin (le_rmax_right _ _) hm, rmin_le_right _ _, ?_⟩
  apply lt_of_le_of_lt (rmin_le_left _ _)
  rcases rmax_cases ((len : Rat) / 2 - eps) 0 with h | h <;> rw [h] <;> linarith

theorem warp_ok {eps maxWarp : Rat} {len : Nat} {u u' : Rat} (hl : 1 ≤ len) (he : 0 < eps)
    (hm : 0 ≤ maxWarp) (hu0 : 0 ≤ u) (hu1 : u < 1) (hv0 : 0 ≤ u') (hv1 : u' < 1) :
    WarpOK len maxWarp (warpW eps maxWarp len) (warpCentre eps maxWarp len u) (warpShift eps maxWarp len u') := by
  obtain ⟨h0, h1, h2⟩ := warpW_bounds (len := len) hl he hm
  simp only [warpCentre, warpShift]
  generalize warpW eps maxWarp len = W at *
  have hpos : 0 < (len : Rat) - 2 * W := by linarith
  have a1 : 0 ≤ u * ((len : Rat) - 2 * W) := mul_nonneg hu0 (le_of_lt hpos)
  have a2 : u * ((len : Rat) - 2 * W) < (len : Rat) - 2 * W := by nlinarith
  have b1 : 0 ≤ u' * (2 * W) := mul_nonneg hv0 (by linarith)
  have b2 : u' * (2 * W) ≤ 2 * W := by nlinarith
  exact ⟨h0, h1, h2, by linarith, by linarith, by linarith, by linarith, by linarith, by linarith⟩

/-- With `eps = 0` (what float32 makes of `len/2 - eps` once `len ≥ 4`) the window may close
(`W = len/2`, the centre is `len/2`) but the destination still lies in `[0, len)`. -/
theorem warp_dest_eps0 {maxWarp : Rat} {len : Nat} {u u' : Rat} (hl : 1 ≤ len)
    (hm : 0 < maxWarp) (hu0 : 0 ≤ u) (hu1 : u < 1) (hv0 : 0 ≤ u') (hv1 : u' < 1) :
    0 ≤ warpCentre 0 maxWarp len u + warpShift 0 maxWarp len u' ∧
      warpCentre 0 maxWarp len u + warpShift 0 maxWarp len u' < (len : Rat) := by
  have hlr : (1 : Rat) ≤ (len : Rat) := by exact_mod_cast hl
  have hW : 0 < warpW 0 maxWarp len ∧ warpW 0 maxWarp len ≤ (len : Rat) / 2 := by
    unfold warpW clamp
    have hx : rmax ((len : Rat) / 2 - 0) 0 = (len : Rat) / 2 := by
      unfold rmax; split <;> linarith
    rw [hx]
    refine ⟨?_, rmin_le_left _ _⟩
    rcases rmin_cases ((len : Rat) / 2) maxWarp with h | h <;> rw [h] <;> linarith
  simp only [warpCentre, warpShift]
  generalize warpW 0 maxWarp len = W at *
  obtain ⟨h0, h1⟩ := hW
  have a1 : 0 ≤ u * ((len : Rat) - 2 * W) := mul_nonneg hu0 (by linarith)
  have a2 : u * ((len : Rat) - 2 * W) ≤ (len : Rat) - 2 * W := by nlinarith
  have b1 : 0 ≤ u' * (2 * W) := mul_nonneg hv0 (by linarith)
  have b2 : u' * (2 * W) < 2 * W := by nlinarith
  constructor <;> linarith

/-! ## masks -/

theorem inMask_iff (ms : List (Int × Int)) (j : Nat) : inMask ms j = true ↔ Covered ms j := by
  simp [inMask, Covered, List.any_eq_true]

theorem applyMasks_masked (x : List (List Rat)) (tm fm : List (Int × Int)) :
    MaskedImage x tm fm (applyMasks x tm fm) := by
  refine ⟨by simp [applyMasks], ?_, ?_, ?_⟩
  · intro j h hx; simp [applyMasks]
  · intro j k hj hk hm
    have : (inMask tm j || inMask fm k) = true := by
      rcases hm with h | h
      · simp [(inMask_iff tm j).mpr h]
      · simp [(inMask_iff fm k).mpr h]
    simp only [applyMasks, List.getElem_mapIdx, this, if_true]
  · intro j k hj hk hx hxk hm
    have : (inMask tm j || inMask fm k) = false := by
      have h1 : inMask tm j = false := by
        cases h : inMask tm j with
        | false => rfl
        | true => exact absurd (Or.inl ((inMask_iff tm j).mp h)) hm
      have h2 : inMask fm k = false := by
        cases h : inMask fm k with
        | false => rfl
        | true => exact absurd (Or.inr ((inMask_iff fm k).mp h)) hm
      simp [h1, h2]
    simp only [applyMasks, List.getElem_mapIdx, this]
    simp


/-! ## bilinear, border-clamped resampling is a convex combination -/

theorem clip_bounds {n : Nat} (hn : 1 ≤ n) (x : Rat) : 0 ≤ clip n x ∧ clip n x ≤ (n : Rat) - 1 := by
  have hnr : (1 : Rat) ≤ (n : Rat) := by exact_mod_cast hn
  unfold clip
  exact ⟨le_rmin (by linarith) (le_rmax_right _ _), rmin_le_left _ _⟩

theorem floor_frac_facts {n : Nat} {x : Rat} (h0 : 0 ≤ x) (h1 : x ≤ (n : Rat) - 1) :
    0 ≤ x.floor ∧ x.floor < (n : Int) ∧ 0 ≤ x - (x.floor : Rat) ∧ x - (x.floor : Rat) ≤ 1 ∧
      (x - (x.floor : Rat) = 0 ∨ x.floor + 1 < (n : Int)) := by
  have hf := Rat.floor_le x
  have hl := Rat.lt_floor_add_one x
  have hl' : x < (x.floor : Rat) + 1 := by push_cast at hl; exact hl
  have a0 : 0 ≤ x.floor := Rat.le_floor_iff.mpr (by simpa using h0)
  have a1 : x.floor < (n : Int) := by
    have : (x.floor : Rat) < ((n : Int) : Rat) := by push_cast; linarith
    exact_mod_cast this
  refine ⟨a0, a1, by linarith, by linarith, ?_⟩
  by_cases h : x.floor + 1 < (n : Int)
  · exact Or.inr h
  · left
    have : x.floor = (n : Int) - 1 := by omega
    have hc : (x.floor : Rat) = (n : Rat) - 1 := by rw [this]; push_cast; ring
    linarith

theorem mix_mem {lo hi a p q : Rat} (ha0 : 0 ≤ a) (ha1 : a ≤ 1) (hp : lo ≤ p ∧ p ≤ hi)
    (hq : a = 0 ∨ (lo ≤ q ∧ q ≤ hi)) :
    lo ≤ (1 - a) * p + a * q ∧ (1 - a) * p + a * q ≤ hi := by
  rcases hq with h | ⟨h1, h2⟩
  · subst h; simpa using hp
  · obtain ⟨p1, p2⟩ := hp
    constructor <;> nlinarith [mul_nonneg ha0 (sub_nonneg.mpr h1), mul_nonneg ha0 (sub_nonneg.mpr h2),
      mul_nonneg (sub_nonneg.mpr ha1) (sub_nonneg.mpr p1), mul_nonneg (sub_nonneg.mpr ha1) (sub_nonneg.mpr p2)]

/-- The hypothesis of the range theorem: every cell of the `T × F` image lies in `[lo, hi]`. -/
def CellsIn (img : List (List Rat)) (T F : Nat) (lo hi : Rat) : Prop :=
  ∀ j k, j < T → k < F → lo ≤ (img.getD j []).getD k 0 ∧ (img.getD j []).getD k 0 ≤ hi

theorem getPix_mem {img : List (List Rat)} {T F : Nat} {lo hi : Rat} (H : CellsIn img T F lo hi)
    {y x : Int} (hy0 : 0 ≤ y) (hy1 : y < (T : Int)) (hx0 : 0 ≤ x) (hx1 : x < (F : Int)) :
    lo ≤ getPix img T F y x ∧ getPix img T F y x ≤ hi := by
  unfold getPix
  rw [if_pos ⟨hy0, hy1, hx0, hx1⟩]
  exact H y.toNat x.toNat (by omega) (by omega)

theorem bilinear_mem {img : List (List Rat)} {T F : Nat} {lo hi : Rat} (hT : 1 ≤ T) (hF : 1 ≤ F)
    (H : CellsIn img T F lo hi) (gy gx : Rat) :
    lo ≤ bilinear img T F gy gx ∧ bilinear img T F gy gx ≤ hi := by
  unfold bilinear
  obtain ⟨cx0, cx1⟩ := clip_bounds hF (unnorm F gx)
  obtain ⟨cy0, cy1⟩ := clip_bounds hT (unnorm T gy)
  generalize clip F (unnorm F gx) = x at *
  generalize clip T (unnorm T gy) = y at *
  obtain ⟨x0a, x0b, a0, a1, ax⟩ := floor_frac_facts cx0 cx1
  obtain ⟨y0a, y0b, b0, b1, by_⟩ := floor_frac_facts cy0 cy1
  simp only
  have e : getPix img T F y.floor x.floor * ((((x.floor + 1 : Int) : Rat) - x) * (((y.floor + 1 : Int) : Rat) - y))
      + getPix img T F y.floor (x.floor + 1) * ((x - (x.floor : Rat)) * (((y.floor + 1 : Int) : Rat) - y))
      + getPix img T F (y.floor + 1) x.floor * ((((x.floor + 1 : Int) : Rat) - x) * (y - (y.floor : Rat)))
      + getPix img T F (y.floor + 1) (x.floor + 1) * ((x - (x.floor : Rat)) * (y - (y.floor : Rat)))
      = (1 - (y - (y.floor : Rat))) * ((1 - (x - (x.floor : Rat))) * getPix img T F y.floor x.floor
          + (x - (x.floor : Rat)) * getPix img T F y.floor (x.floor + 1))
        + (y - (y.floor : Rat)) * ((1 - (x - (x.floor : Rat))) * getPix img T F (y.floor + 1) x.floor
          + (x - (x.floor : Rat)) * getPix img T F (y.floor + 1) (x.floor + 1)) := by
    push_cast; ring
  rw [e]
  have row : ∀ yy : Int, 0 ≤ yy → yy < (T : Int) →
      lo ≤ (1 - (x - (x.floor : Rat))) * getPix img T F yy x.floor
          + (x - (x.floor : Rat)) * getPix img T F yy (x.floor + 1) ∧
      (1 - (x - (x.floor : Rat))) * getPix img T F yy x.floor
          + (x - (x.floor : Rat)) * getPix img T F yy (x.floor + 1) ≤ hi := by
    intro yy h0 h1
    apply mix_mem a0 a1 (getPix_mem H h0 h1 x0a x0b)
    rcases ax with h | h
    · exact Or.inl h
    · exact Or.inr (getPix_mem H h0 h1 (by omega) h)
  apply mix_mem b0 b1 (row _ y0a y0b)
  rcases by_ with h | h
  · exact Or.inl h
  · exact Or.inr (row _ (by omega) h)


/-! ## the order-1 spline through three knots is the piecewise-linear map `pwl` -/

theorem rabs_of_nonneg {x : Rat} (h : 0 ≤ x) : rabs x = x := by unfold rabs; simp [h]
theorem rabs_of_nonpos {x : Rat} (h : x ≤ 0) : rabs x = -x := by
  unfold rabs
  split
  · have : x = 0 := le_antisymm h ‹_›
    simp [this]
  · rfl

/-- The two segments of `pwl`. -/
def segL (k : Knots) (x : Rat) : Rat := k.c1 + (k.y2 - k.c1) * ((x - k.c1) / (k.c2 - k.c1))
def segR (k : Knots) (x : Rat) : Rat := k.y2 + (k.c3 - k.y2) * ((x - k.c2) / (k.c3 - k.c2))

theorem segL_mono {k : Knots} (h12 : k.c1 < k.c2) (hy : k.c1 ≤ k.y2) {x x' : Rat} (h : x ≤ x') :
    segL k x ≤ segL k x' := by
  unfold segL
  have hd : 0 < k.c2 - k.c1 := by linarith
  have : (x - k.c1) / (k.c2 - k.c1) ≤ (x' - k.c1) / (k.c2 - k.c1) :=
    div_le_div_of_nonneg_right (by linarith) (le_of_lt hd)
  nlinarith [mul_le_mul_of_nonneg_left this (sub_nonneg.mpr hy)]

theorem segR_mono {k : Knots} (h23 : k.c2 < k.c3) (hy : k.y2 ≤ k.c3) {x x' : Rat} (h : x ≤ x') :
    segR k x ≤ segR k x' := by
  unfold segR
  have hd : 0 < k.c3 - k.c2 := by linarith
  have : (x - k.c2) / (k.c3 - k.c2) ≤ (x' - k.c2) / (k.c3 - k.c2) :=
    div_le_div_of_nonneg_right (by linarith) (le_of_lt hd)
  nlinarith [mul_le_mul_of_nonneg_left this (sub_nonneg.mpr hy)]

theorem segL_c1 (k : Knots) : segL k k.c1 = k.c1 := by unfold segL; simp
theorem segL_c2 {k : Knots} (h12 : k.c1 < k.c2) : segL k k.c2 = k.y2 := by
  unfold segL
  have hd : k.c2 - k.c1 ≠ 0 := by intro h; linarith
  rw [div_self hd]; ring
theorem segR_c2 (k : Knots) : segR k k.c2 = k.y2 := by unfold segR; simp
theorem segR_c3 {k : Knots} (h23 : k.c2 < k.c3) : segR k k.c3 = k.c3 := by
  unfold segR
  have hd : k.c3 - k.c2 ≠ 0 := by intro h; linarith
  rw [div_self hd]; ring

theorem pwl_eq (k : Knots) (x : Rat) :
    pwl k x = if x ≤ k.c1 ∨ k.c3 ≤ x then x else if x ≤ k.c2 then segL k x else segR k x := rfl

/-- Well-ordered knots: what `warpKnots` produces (see `warpKnots_ordered`). -/
structure Knots.Ordered (k : Knots) : Prop where
  h12 : k.c1 < k.c2
  h23 : k.c2 < k.c3
  hy1 : k.c1 ≤ k.y2
  hy3 : k.y2 ≤ k.c3

theorem pwl_cases (k : Knots) (x : Rat) :
    (x ≤ k.c1 ∧ pwl k x = x) ∨ (k.c3 ≤ x ∧ pwl k x = x) ∨
    (k.c1 < x ∧ x ≤ k.c2 ∧ x < k.c3 ∧ pwl k x = segL k x) ∨
    (k.c1 < x ∧ k.c2 < x ∧ x < k.c3 ∧ pwl k x = segR k x) := by
  rw [pwl_eq]
  by_cases h1 : x ≤ k.c1
  · left; exact ⟨h1, by simp [h1]⟩
  · by_cases h3 : k.c3 ≤ x
    · right; left; exact ⟨h3, by simp [h3]⟩
    · have h1' : k.c1 < x := lt_of_not_ge h1
      have h3' : x < k.c3 := lt_of_not_ge h3
      by_cases h2 : x ≤ k.c2
      · right; right; left; exact ⟨h1', h2, h3', by simp [h1, h3, h2]⟩
      · right; right; right; exact ⟨h1', lt_of_not_ge h2, h3', by simp [h1, h3, h2]⟩

theorem segL_bounds {k : Knots} (ho : k.Ordered) {z : Rat} (h1 : k.c1 ≤ z) (h2 : z ≤ k.c2) :
    k.c1 ≤ segL k z ∧ segL k z ≤ k.y2 := by
  have a := segL_mono ho.h12 ho.hy1 h1
  have b := segL_mono ho.h12 ho.hy1 h2
  rw [segL_c1] at a; rw [segL_c2 ho.h12] at b
  exact ⟨a, b⟩

theorem segR_bounds {k : Knots} (ho : k.Ordered) {z : Rat} (h1 : k.c2 ≤ z) (h2 : z ≤ k.c3) :
    k.y2 ≤ segR k z ∧ segR k z ≤ k.c3 := by
  have a := segR_mono ho.h23 ho.hy3 h1
  have b := segR_mono ho.h23 ho.hy3 h2
  rw [segR_c2] at a; rw [segR_c3 ho.h23] at b
  exact ⟨a, b⟩

theorem pwl_mono {k : Knots} (ho : k.Ordered) {x x' : Rat} (h : x ≤ x') : pwl k x ≤ pwl k x' := by
  have L := segL_mono ho.h12 ho.hy1 h
  have R := segR_mono ho.h23 ho.hy3 h
  have h12 := ho.h12
  have h23 := ho.h23
  have hy1 := ho.hy1
  have hy3 := ho.hy3
  rcases pwl_cases k x with ⟨a, e⟩ | ⟨a, e⟩ | ⟨a1, a2, a3, e⟩ | ⟨a1, a2, a3, e⟩ <;>
  rcases pwl_cases k x' with ⟨b, e'⟩ | ⟨b, e'⟩ | ⟨b1, b2, b3, e'⟩ | ⟨b1, b2, b3, e'⟩ <;>
  rw [e, e'] <;>
  (try have f1 := segL_bounds ho (z := x) (by linarith) (by linarith)) <;>
  (try have f2 := segL_bounds ho (z := x') (by linarith) (by linarith)) <;>
  (try have f3 := segR_bounds ho (z := x) (by linarith) (by linarith)) <;>
  (try have f4 := segR_bounds ho (z := x') (by linarith) (by linarith)) <;>
  linarith

/-- Inside the pinned ends the map stays inside the pinned ends. -/
theorem pwl_inside {k : Knots} (ho : k.Ordered) {x : Rat} (h1 : k.c1 ≤ x) (h3 : x ≤ k.c3) :
    k.c1 ≤ pwl k x ∧ pwl k x ≤ k.c3 := by
  have h12 := ho.h12
  have h23 := ho.h23
  have hy1 := ho.hy1
  have hy3 := ho.hy3
  rcases pwl_cases k x with ⟨a, e⟩ | ⟨a, e⟩ | ⟨a1, a2, a3, e⟩ | ⟨a1, a2, a3, e⟩ <;> rw [e]
  · constructor <;> linarith
  · constructor <;> linarith
  · have := segL_bounds ho (le_of_lt a1) a2; constructor <;> linarith
  · have := segR_bounds ho (le_of_lt a2) (le_of_lt a3); constructor <;> linarith


/-- Any solution of the order-1 spline system through the knots equals `pwl` everywhere. -/
theorem spline_eq_pwl {k : Knots} (h12 : k.c1 < k.c2) (h23 : k.c2 < k.c3) {w1 w2 w3 v1 v0 : Rat}
    (S : SplineSystem k w1 w2 w3 v1 v0) (x : Rat) :
    splineEval k.c1 k.c2 k.c3 w1 w2 w3 v1 v0 x = pwl k x := by
  obtain ⟨e1, e2, e3, o0, o1⟩ := S
  have h13 : k.c1 < k.c3 := lt_trans h12 h23
  unfold splineEval at e1 e2 e3
  rw [rabs_of_nonneg (show (0 : Rat) ≤ k.c1 - k.c1 by linarith),
      rabs_of_nonpos (show k.c1 - k.c2 ≤ 0 by linarith),
      rabs_of_nonpos (show k.c1 - k.c3 ≤ 0 by linarith)] at e1
  rw [rabs_of_nonneg (show (0 : Rat) ≤ k.c2 - k.c1 by linarith),
      rabs_of_nonneg (show (0 : Rat) ≤ k.c2 - k.c2 by linarith),
      rabs_of_nonpos (show k.c2 - k.c3 ≤ 0 by linarith)] at e2
  rw [rabs_of_nonneg (show (0 : Rat) ≤ k.c3 - k.c1 by linarith),
      rabs_of_nonneg (show (0 : Rat) ≤ k.c3 - k.c2 by linarith),
      rabs_of_nonneg (show (0 : Rat) ≤ k.c3 - k.c3 by linarith)] at e3
  -- outside the knots the spline is `v1 x + v0`, pinned at both ends: the identity
  have hv : v1 * (k.c3 - k.c1) = k.c3 - k.c1 := by
    have w3e : w3 = -w1 - w2 := by linarith
    subst w3e
    nlinarith
  have hv1 : v1 = 1 := by
    have hne : k.c3 - k.c1 ≠ 0 := by intro h; linarith
    exact mul_right_cancel₀ hne (by rw [hv, one_mul])
  have hv0 : v0 = 0 := by
    subst hv1
    have w3e : w3 = -w1 - w2 := by linarith
    subst w3e
    nlinarith
  subst hv1 hv0
  have w2e : w2 = -w1 - w3 := by linarith
  subst w2e
  unfold splineEval
  rcases pwl_cases k x with ⟨a, e⟩ | ⟨a, e⟩ | ⟨a1, a2, a3, e⟩ | ⟨a1, a2, a3, e⟩ <;> rw [e]
  · rw [rabs_of_nonpos (show x - k.c1 ≤ 0 by linarith), rabs_of_nonpos (show x - k.c2 ≤ 0 by linarith),
        rabs_of_nonpos (show x - k.c3 ≤ 0 by linarith)]
    nlinarith
  · rw [rabs_of_nonneg (show 0 ≤ x - k.c1 by linarith), rabs_of_nonneg (show 0 ≤ x - k.c2 by linarith),
        rabs_of_nonneg (show 0 ≤ x - k.c3 by linarith)]
    nlinarith
  · rw [rabs_of_nonneg (show 0 ≤ x - k.c1 by linarith), rabs_of_nonpos (show x - k.c2 ≤ 0 by linarith),
        rabs_of_nonpos (show x - k.c3 ≤ 0 by linarith)]
    unfold segL
    have hd : k.c2 - k.c1 ≠ 0 := by intro h; linarith
    field_simp
    nlinarith
  · rw [rabs_of_nonneg (show 0 ≤ x - k.c1 by linarith), rabs_of_nonneg (show 0 ≤ x - k.c2 by linarith),
        rabs_of_nonpos (show x - k.c3 ≤ 0 by linarith)]
    unfold segR
    have hd : k.c3 - k.c2 ≠ 0 := by intro h; linarith
    field_simp
    nlinarith


/-! ## the knots `warp_1d_grid` builds -/

theorem clampSrc_bounds {len : Nat} (hl : 1 ≤ len) (src : Rat) :
    0 ≤ clampSrc len src ∧ clampSrc len src ≤ (len : Rat) - 1 := by
  have hlr : (1 : Rat) ≤ (len : Rat) := by exact_mod_cast hl
  unfold clampSrc
  exact ⟨le_rmax_right _ _, rmax_le (rmin_le_right _ _) (by linarith)⟩

theorem clampDst_bounds {len : Nat} (hl : 1 ≤ len) (src flow : Rat) :
    0 ≤ clampDst len src flow ∧ clampDst len src flow ≤ (len : Rat) - 1 := by
  have hlr : (1 : Rat) ≤ (len : Rat) := by exact_mod_cast hl
  unfold clampDst
  exact ⟨le_rmax_right _ _, rmax_le (rmin_le_right _ _) (by linarith)⟩

theorem norm_mono {T : Nat} (hT : 1 ≤ T) {a b : Rat} (h : a ≤ b) : norm T a ≤ norm T b := by
  have hTr : (0 : Rat) < (T : Rat) := by exact_mod_cast hT
  unfold norm
  have : (2 * a + 1) / (T : Rat) ≤ (2 * b + 1) / (T : Rat) :=
    div_le_div_of_nonneg_right (by linarith) (le_of_lt hTr)
  linarith

theorem norm_zero_eq (eps : Rat) (T : Nat) : norm T 0 = lowerPin eps T + eps := by
  unfold norm lowerPin; ring

theorem norm_last_eq (eps : Rat) (T len : Nat) : norm T ((len : Rat) - 1) = upperPin eps T len - eps := by
  unfold norm upperPin; ring

/-- The facts about the knots every later statement uses: they are strictly ordered, the
moved knot and its value stay `eps` inside the pinned ends, and the moved knot keeps the
relative margin `mu` from both ends. -/
structure KnotFacts (eps mu : Rat) (k : Knots) : Prop where
  c2_lo : k.c1 + eps ≤ k.c2
  c2_hi : k.c2 ≤ k.c3 - eps
  y2_lo : k.c1 + eps ≤ k.y2
  y2_hi : k.y2 ≤ k.c3 - eps
  margin_lo : mu * (k.y2 - k.c1) ≤ k.c2 - k.c1
  margin_hi : mu * (k.c3 - k.y2) ≤ k.c3 - k.c2

theorem warpKnots_facts {eps mu : Rat} {T len : Nat} (hT : 1 ≤ T) (hl : 1 ≤ len) (he0 : 0 ≤ eps)
    (_hm0 : 0 ≤ mu) (hm1 : mu ≤ 1) (src flow : Rat) :
    KnotFacts eps mu (warpKnots eps mu T len src flow) := by
  obtain ⟨s0, s1⟩ := clampSrc_bounds hl src
  obtain ⟨d0, d1⟩ := clampDst_bounds hl src flow
  have sn0 := norm_mono hT s0
  have sn1 := norm_mono hT s1
  have dn0 := norm_mono hT d0
  have dn1 := norm_mono hT d1
  rw [norm_zero_eq eps] at sn0 dn0
  rw [norm_last_eq eps] at sn1 dn1
  simp only [warpKnots]
  generalize norm T (clampSrc len src) = sn at *
  generalize norm T (clampDst len src flow) = dn at *
  generalize lowerPin eps T = lo at *
  generalize upperPin eps T len = up at *
  have m1 : mu * (sn - lo) ≤ sn - lo := by
    have := mul_le_mul_of_nonneg_right hm1 (show 0 ≤ sn - lo by linarith)
    linarith
  have m2 : mu * (up - sn) ≤ up - sn := by
    have := mul_le_mul_of_nonneg_right hm1 (show 0 ≤ up - sn by linarith)
    linarith
  have a1 : lo + eps ≤ rmax dn (lo + mu * (sn - lo)) := le_trans dn0 (le_rmax_left _ _)
  have a2 : rmax dn (lo + mu * (sn - lo)) ≤ up - eps := rmax_le dn1 (by linarith)
  have a3 : lo + mu * (sn - lo) ≤ rmax dn (lo + mu * (sn - lo)) := le_rmax_right _ _
  refine ⟨le_rmin a1 (by linarith), le_trans (rmin_le_left _ _) a2, sn0, sn1, ?_, ?_⟩
  · have : lo + mu * (sn - lo) ≤ rmin (rmax dn (lo + mu * (sn - lo))) (up - mu * (up - sn)) :=
      le_rmin a3 (by nlinarith)
    linarith
  · have := rmin_le_right (rmax dn (lo + mu * (sn - lo))) (up - mu * (up - sn))
    linarith

theorem KnotFacts.ordered {eps mu : Rat} {k : Knots} (hf : KnotFacts eps mu k) (he : 0 < eps) : k.Ordered :=
  ⟨by linarith [hf.c2_lo], by linarith [hf.c2_hi], by linarith [hf.y2_lo], by linarith [hf.y2_hi]⟩

/-! ## the grid -/

theorem warpGridWith_length (eps mu : Rat) (T len : Nat) (src flow : Rat) :
    (warpGridWith eps mu T len src flow).length = T := by simp [warpGridWith]

theorem warpGridWith_get (eps mu : Rat) (T len : Nat) (src flow : Rat) (j : Nat)
    (h : j < (warpGridWith eps mu T len src flow).length) :
    (warpGridWith eps mu T len src flow)[j] = pwl (warpKnots eps mu T len src flow) (norm T (j : Rat)) := by
  simp [warpGridWith]

theorem warpGrid_monotone {eps mu : Rat} {T len : Nat} (hT : 1 ≤ T) (hl : 1 ≤ len) (he : 0 < eps)
    (hm0 : 0 ≤ mu) (hm1 : mu ≤ 1) (src flow : Rat) :
    Monotone (warpGridWith eps mu T len src flow) := by
  intro i j hi hj hij
  rw [warpGridWith_get, warpGridWith_get]
  apply pwl_mono ((warpKnots_facts hT hl (le_of_lt he) hm0 hm1 src flow).ordered he)
  exact norm_mono hT (by exact_mod_cast hij)

/-- First valid frame: displaced by at most `max eps (eps / mu)` (normalised units). -/
theorem pwl_first {eps mu : Rat} {k : Knots} (hf : KnotFacts eps mu k) (he : 0 < eps) (hm : 0 < mu) :
    k.c1 ≤ pwl k (k.c1 + eps) ∧ pwl k (k.c1 + eps) ≤ k.c1 + eps / mu := by
  have ho := hf.ordered he
  obtain ⟨c2l, c2h, y2l, y2h, ml, mh⟩ := hf
  rcases pwl_cases k (k.c1 + eps) with ⟨a, e⟩ | ⟨a, e⟩ | ⟨a1, a2, a3, e⟩ | ⟨a1, a2, a3, e⟩
  · linarith
  · linarith
  · rw [e]
    have hb := segL_bounds ho (le_of_lt a1) a2
    refine ⟨hb.1, ?_⟩
    unfold segL
    have hd : 0 < k.c2 - k.c1 := by linarith
    have hy : 0 < k.y2 - k.c1 := by linarith
    have e1 : k.c1 + eps - k.c1 = eps := by ring
    rw [e1]
    have : (k.y2 - k.c1) * (eps / (k.c2 - k.c1)) ≤ eps / mu := by
      rw [mul_div_assoc', div_le_div_iff₀ hd hm]
      nlinarith
    linarith
  · linarith

/-- Last valid frame, symmetrically. -/
theorem pwl_last {eps mu : Rat} {k : Knots} (hf : KnotFacts eps mu k) (he : 0 < eps) (hm : 0 < mu) :
    k.c3 - eps / mu ≤ pwl k (k.c3 - eps) ∧ pwl k (k.c3 - eps) ≤ k.c3 := by
  have ho := hf.ordered he
  obtain ⟨c2l, c2h, y2l, y2h, ml, mh⟩ := hf
  rcases pwl_cases k (k.c3 - eps) with ⟨a, e⟩ | ⟨a, e⟩ | ⟨a1, a2, a3, e⟩ | ⟨a1, a2, a3, e⟩
  · linarith
  · linarith
  · -- the last frame sits on the moved knot: c2 = c3 - eps, value y2 ≥ c3 - (c3 - c2)/mu
    rw [e]
    have hb := segL_bounds ho (le_of_lt a1) a2
    have hc : k.c2 = k.c3 - eps := le_antisymm c2h a2
    have h2 : segL k (k.c3 - eps) = k.y2 := by rw [← hc]; exact segL_c2 ho.h12
    rw [h2]
    refine ⟨?_, by linarith⟩
    have : k.c3 - k.y2 ≤ eps / mu := by
      rw [le_div_iff₀ hm]; nlinarith
    linarith
  · rw [e]
    have hb := segR_bounds ho (le_of_lt a2) (le_of_lt a3)
    refine ⟨?_, hb.2⟩
    unfold segR
    have hd : 0 < k.c3 - k.c2 := by linarith
    have hy : 0 < k.c3 - k.y2 := by linarith
    -- segR x = c3 - (c3 - y2) * ((c3 - x) / (c3 - c2))
    have e1 : k.y2 + (k.c3 - k.y2) * ((k.c3 - eps - k.c2) / (k.c3 - k.c2))
        = k.c3 - (k.c3 - k.y2) * (eps / (k.c3 - k.c2)) := by
      field_simp; ring
    rw [e1]
    have : (k.c3 - k.y2) * (eps / (k.c3 - k.c2)) ≤ eps / mu := by
      rw [mul_div_assoc', div_le_div_iff₀ hd hm]
      nlinarith
    linarith

end PdtVerif.SpecAugment
