import PdtVerif.Lemmas.Controller
/-!
# C15 helper lemmas: the documented training loops only pass through "live" states

`liveRun` (early stopping has not fired at an earlier epoch) is the side condition of `C15_stop` and
of the early-stopping half of `C15_ref_epoch`.  Here: both documented loops — `for …: if not
update_for_epoch(…): break` and `while continue_training(): … update_for_epoch(…)` — stop calling
`update_for_epoch` as soon as it has returned `False`, hence every prefix they run is a `liveRun`,
and they run exactly the epochs the rules allow.
-/
namespace PdtVerif.Controller
open PdtVerif.TrainingRules

/-- `continue_training()` right after an update agrees with the value the update returned. -/
theorem continue_after_step (P : Params) (S S' : State) (tr v : Rat) (o : Out)
    (h : step P S tr v = .ok (S', o)) : continueTraining P S' = .ok o.cont := by
  obtain ⟨info, esInfo, rlrInfo, _, _, _, hc⟩ := step_ok_core h
  have hS : S' = (stepCore P S S.hist.length info esInfo rlrInfo tr v).1 := by rw [← hc]
  have ho : o = (stepCore P S S.hist.length info esInfo rlrInfo tr v).2 := by rw [← hc]
  subst hS ho
  unfold continueTraining
  have hl : (stepCore P S S.hist.length info esInfo rlrInfo tr v).1.hist.length - 1
      = S.hist.length := by simp [stepCore]
  rw [hl]
  have hg : getInfo (stepCore P S S.hist.length info esInfo rlrInfo tr v).1.hist
      (S.hist.length : Int)
      = .ok (stepCore P S S.hist.length info esInfo rlrInfo tr v).2.row := by
    apply getInfo_ok
    simp [stepCore]
  simp only [hg]
  simp only [stepCore]
  congr

/-- `continue_training(e)` for the epoch `e` that an update has just recorded is the value that
update returned (the decision is a function of the recorded row). -/
def contOfRow (P : Params) (r : Row) : Bool :=
  if P.esThr ≠ 0 ∧ r.esCd = 0 then false else budgetCont P r.epoch

theorem step_cont_row {P : Params} {S S' : State} {tr v : Rat} {o : Out}
    (h : step P S tr v = .ok (S', o)) : o.cont = contOfRow P o.row ∧ o.row.epoch = S.hist.length := by
  obtain ⟨info, esInfo, rlrInfo, _, _, _, hc⟩ := step_ok_core h
  have ho : o = (stepCore P S S.hist.length info esInfo rlrInfo tr v).2 := by rw [← hc]
  subst ho
  exact ⟨rfl, rfl⟩

theorem continueTrainingAt_row {P : Params} {S : State} {e : Nat} {r : Row}
    (hr : S.hist[e]? = some r) (he : r.epoch = e) :
    continueTrainingAt P S e = .ok (contOfRow P r) := by
  unfold continueTrainingAt contOfRow
  rw [getInfo_ok hr, he]

/-- rows written by a run: the `i`-th output's row sits at index `length + i`, carries that epoch
number, and determines the returned value -/
theorem run_rows {P : Params} : ∀ (ms : List (Rat × Rat)) (S S' : State) (outs : List Out),
    run P S ms = .ok (S', outs) →
    S'.hist = S.hist ++ outs.map (·.row) ∧
    ∀ (i : Nat) (o : Out), outs[i]? = some o →
      o.cont = contOfRow P o.row ∧ o.row.epoch = S.hist.length + i := by
  intro ms
  induction ms with
  | nil =>
    intro S S' outs h
    simp only [run, Except.ok.injEq, Prod.mk.injEq] at h
    obtain ⟨rfl, rfl⟩ := h
    exact ⟨by simp, by intro i o h; simp at h⟩
  | cons m ms ih =>
    intro S S' outs h
    obtain ⟨S1, o1, os, hs, hr, rfl⟩ := run_cons_inv h
    obtain ⟨h1, h2⟩ := ih S1 S' os hr
    have hh := (step_hist hs).1
    obtain ⟨c1, c2⟩ := step_cont_row hs
    refine ⟨by rw [h1, hh]; simp, ?_⟩
    intro i o hi
    cases i with
    | zero =>
      simp only [List.getElem?_cons_zero, Option.some.injEq] at hi
      subst hi
      exact ⟨c1, by simpa using c2⟩
    | succ k =>
      simp only [List.getElem?_cons_succ] at hi
      obtain ⟨a, b⟩ := h2 k o hi
      refine ⟨a, ?_⟩
      rw [b, hh]
      simp only [List.length_append, List.length_cons, List.length_nil]
      omega

/-! ## liveness is preserved while the returned value is `True` -/

theorem bool_not_true {a b : Bool} (h : a = !b) (ha : a = true) : b = false := by
  subst ha; cases b <;> simp_all

theorem bool_not_false {a b : Bool} (h : a = !b) (ha : a = false) : b = true := by
  subst ha; cases b <;> simp_all

theorem bool_or_false {a b : Bool} (h : (a || b) = false) : a = false := by
  cases a <;> simp_all

theorem bool_ne_true {a : Bool} (h : ¬ a = true) : a = false := by
  cases a <;> simp_all

theorem next_fails_zero_thr (P : Params) (c : Crit) (e : Nat) (v : Rat) :
    (c.next P 0 e v).fails = 0 := by
  unfold Crit.next
  split
  · rfl
  · have : undercutFails P 0 c.ref v = false := by
      unfold undercutFails
      cases c.ref <;> simp
    simp [this]

theorem live_of_cont {P : Params} (hP : P.WF) {S : State} {T : SpecState} (hU : InvU P S T)
    (hE : InvEs P S T) (hl : T.es.fails < P.esPat) {tr v : Rat} {S' : State} {o : Out}
    (hs : step P S tr v = .ok (S', o)) (hc : o.cont = true) :
    (specStep P T v).1.es.fails < P.esPat := by
  obtain ⟨_, hco⟩ := step_invEs hP hU hE hl tr v hs
  have hstop : (specStep P T v).2.stop = false := bool_not_true hco hc
  have hes : (specStep P T v).2.esStop = false := by
    unfold SpecOut.stop at hstop
    exact bool_or_false hstop
  rw [specStep_es]
  have hes' : decide (P.esThr ≠ 0 ∧ P.esPat ≤ (T.es.next P P.esThr (T.epoch + 1) v).fails) = false := hes
  by_cases hthr : P.esThr = 0
  · rw [hthr, next_fails_zero_thr]
    exact hP.esPat
  · simp only [decide_eq_false_iff_not, not_and, Nat.not_le] at hes'
    exact hes' hthr

/-! ## the rules up to the first stop -/

theorem specUntilStop_spec (P : Params) : ∀ (vs : List Rat) (T : SpecState),
    specUntilStop P T vs = (specRun P T (vs.take (specUntilStop P T vs).length)).2 ∧
    (specUntilStop P T vs).length ≤ vs.length ∧
    (∀ o ∈ (specUntilStop P T vs).dropLast, o.stop = false) ∧
    ((specUntilStop P T vs).length < vs.length →
      ∃ o, (specUntilStop P T vs).getLast? = some o ∧ o.stop = true) := by
  intro vs
  induction vs with
  | nil => intro T; simp [specUntilStop, specRun]
  | cons v vs ih =>
    intro T
    unfold specUntilStop
    by_cases hst : (specStep P T v).2.stop = true
    · simp only [hst, if_true, List.length_cons, List.length_nil, List.take_succ_cons, List.take_zero]
      refine ⟨by simp [specRun], by omega, by simp, ?_⟩
      intro _
      exact ⟨_, by simp, hst⟩
    · have hst' : (specStep P T v).2.stop = false := bool_ne_true hst
      obtain ⟨i1, i2, i3, i4⟩ := ih (specStep P T v).1
      simp only [hst', Bool.false_eq_true, if_false, List.length_cons, List.take_succ_cons]
      refine ⟨?_, by omega, ?_, ?_⟩
      · rw [specRun_cons]
        simp only
        rw [← i1]
      · intro o ho
        cases hus : specUntilStop P (specStep P T v).1 vs with
        | nil => rw [hus] at ho; simp at ho
        | cons a l =>
          rw [hus] at ho i3
          rw [List.dropLast_cons_cons] at ho
          rcases List.mem_cons.1 ho with h | h
          · rw [h]; exact hst'
          · exact i3 o h
      · intro hlt
        obtain ⟨o, ho, hos⟩ := i4 (by omega)
        refine ⟨o, ?_, hos⟩
        cases hus : specUntilStop P (specStep P T v).1 vs with
        | nil => rw [hus] at ho; simp at ho
        | cons a l => rw [hus] at ho; rw [List.getLast?_cons_cons]; exact ho

/-! ## the `break` loop -/

theorem breakLoop_sim {P : Params} (hP : P.WF) : ∀ (ms : List (Rat × Rat)) (S : State) (T : SpecState),
    InvU P S T → InvEs P S T → T.es.fails < P.esPat →
    ∃ S' outs, breakLoop P S ms = .ok (S', outs) ∧
      outs.length ≤ ms.length ∧
      run P S (ms.take outs.length) = .ok (S', outs) ∧
      liveRun P T ((ms.take outs.length).map (·.2)) ∧
      outs.map (·.cont) = (specUntilStop P T (ms.map (·.2))).map (fun o => !o.stop) := by
  intro ms
  induction ms with
  | nil =>
    intro S T _ _ _
    exact ⟨S, [], rfl, by simp, rfl, by simp [liveRun], by simp [specUntilStop]⟩
  | cons m ms ih =>
    intro S T hU hE hl
    obtain ⟨S1, o, hs, hSU⟩ := step_invU hP hU m.1 m.2
    obtain ⟨hE1, hco⟩ := step_invEs hP hU hE hl m.1 m.2 hs
    by_cases hc : o.cont = true
    · have hl1 := live_of_cont hP hU hE hl hs hc
      obtain ⟨S2, os, hb, hlen, hr, hlive, hcs⟩ := ih S1 (specStep P T m.2).1 hSU.inv hE1 hl1
      have hst : (specStep P T m.2).2.stop = false := bool_not_true hco hc
      refine ⟨S2, o :: os, ?_, by simp; omega, ?_, ?_, ?_⟩
      · unfold breakLoop
        simp only [hs, hc, if_true, hb]
      · simp only [List.length_cons, List.take_succ_cons]
        exact run_cons_ok hs hr
      · simp only [List.length_cons, List.take_succ_cons, List.map_cons, liveRun]
        exact ⟨hl, hlive⟩
      · simp only [List.map_cons, specUntilStop, hst, Bool.false_eq_true, if_false, hcs, hc,
          Bool.not_false]
    · have hc' : o.cont = false := bool_ne_true hc
      have hst : (specStep P T m.2).2.stop = true := bool_not_false hco hc'
      refine ⟨S1, [o], ?_, by simp, ?_, ?_, ?_⟩
      · unfold breakLoop
        simp only [hs, hc', Bool.false_eq_true, if_false]
      · simp only [List.length_cons, List.length_nil, List.take_succ_cons, List.take_zero]
        exact run_cons_ok hs rfl
      · simp only [List.length_cons, List.length_nil, List.take_succ_cons, List.take_zero,
          List.map_cons, List.map_nil, liveRun]
        exact ⟨hl, trivial⟩
      · simp only [List.map_cons, List.map_nil, specUntilStop, hst, if_true, hc', Bool.not_true]

/-- a caller that never called `update_for_epoch` again after it had returned `False` ran the
`break` loop -/
theorem breakLoop_of_obeyed {P : Params} : ∀ (ms : List (Rat × Rat)) (S S' : State) (outs : List Out),
    run P S ms = .ok (S', outs) → (∀ o ∈ outs.dropLast, o.cont = true) →
    breakLoop P S ms = .ok (S', outs) := by
  intro ms
  induction ms with
  | nil =>
    intro S S' outs h _
    simpa [run, breakLoop] using h
  | cons m ms ih =>
    intro S S' outs h hob
    obtain ⟨S1, o, os, hs, hr, rfl⟩ := run_cons_inv h
    unfold breakLoop
    simp only [hs]
    cases ms with
    | nil =>
      simp only [run, Except.ok.injEq, Prod.mk.injEq] at hr
      obtain ⟨rfl, rfl⟩ := hr
      by_cases hc : o.cont = true
      · simp [hc, breakLoop]
      · simp [hc]
    | cons m2 ms2 =>
      obtain ⟨S2, o2, os2, _, _, hos⟩ := run_cons_inv hr
      have hc : o.cont = true := by
        apply hob
        rw [hos, List.dropLast_cons_cons]
        simp
      have hob' : ∀ x ∈ os.dropLast, x.cont = true := by
        intro x hx
        apply hob
        rw [hos] at hx ⊢
        rw [List.dropLast_cons_cons]
        simp [hx]
      simp only [hc, if_true, ih S1 S' os hr hob']

/-! ## the `while continue_training()` loop is the same loop -/

theorem whileLoop_stopped {P : Params} {S : State} (h : continueTraining P S = .ok false)
    (ms : List (Rat × Rat)) : whileLoop P S ms = .ok (S, []) := by
  cases ms with
  | nil => rfl
  | cons m ms => unfold whileLoop; simp only [h]

theorem whileLoop_eq_breakLoop {P : Params} : ∀ (ms : List (Rat × Rat)) (S : State),
    continueTraining P S = .ok true → whileLoop P S ms = breakLoop P S ms := by
  intro ms
  induction ms with
  | nil => intro S _; rfl
  | cons m ms ih =>
    intro S h
    unfold whileLoop breakLoop
    simp only [h]
    cases hs : step P S m.1 m.2 with
    | error e => rfl
    | ok r =>
      obtain ⟨S1, o⟩ := r
      have hct := continue_after_step P S S1 m.1 m.2 o hs
      simp only
      by_cases hc : o.cont = true
      · rw [hc] at hct
        simp only [hc, if_true, ih S1 hct]
      · have hc' : o.cont = false := bool_ne_true hc
        rw [hc'] at hct
        simp only [hc', Bool.false_eq_true, if_false, whileLoop_stopped hct]

/-- a fresh controller says "continue" -/
theorem continueTraining_init (P : Params) (hP : P.WF) (g : List Rat) :
    continueTraining P (init P g) = .ok true := by
  unfold continueTraining
  have hg : getInfo (init P g).hist (((init P g).hist.length - 1 : Nat) : Int) = .ok (row0 P) := by
    apply getInfo_ok
    simp [init]
  simp only [hg]
  have h1 : (row0 P).esCd ≠ 0 := by
    have := hP.esPat
    simp only [row0]
    omega
  have h2 : budgetCont P ((init P g).hist.length - 1) = true := by
    unfold budgetCont
    cases P.numEpochs with
    | none => rfl
    | some n =>
      by_cases hn : n = 0
      · simp [hn]
      · simp [hn, init]; omega
  simp [h1, h2]

/-! ## an optimizer that was not synchronised with `log10_learning_rate` -/

theorem initRaw_invU (P : Params) (hP : P.WF) (g : List Rat) :
    InvU P (initRaw P g) (specInitRaw P g) := by
  refine ⟨by simp [initRaw, specInitRaw, specInit], by simp [initRaw, specInitRaw], ?_⟩
  refine ⟨row0 P, by simp [initRaw, specInitRaw, specInit], ?_, ?_, ?_, ?_, ?_, ?_⟩
  · refine ⟨by simp [row0, specInitRaw, specInit], by simp [row0, specInitRaw, specInit],
      by simp [specInitRaw, specInit], by simp [specInitRaw, specInit],
      ⟨row0 P, by simp [initRaw, specInitRaw, specInit], by simp [row0, specInitRaw, specInit]⟩,
      by simp [specInitRaw, specInit]⟩
  · have := hP.rlrPat; simp [specInitRaw, specInit]; omega
  · simp [row0, specInitRaw, specInit]
  · simp [row0]
  · simp [row0]
  · simp [row0, specInitRaw, specInit]

theorem initRaw_invEs (P : Params) (g : List Rat) : InvEs P (initRaw P g) (specInitRaw P g) := by
  refine ⟨row0 P, by simp [initRaw, specInitRaw, specInit], ?_⟩
  refine ⟨by simp [row0, specInitRaw, specInit], by simp [row0, specInitRaw, specInit],
      by simp [specInitRaw, specInit], by simp [specInitRaw, specInit],
      ⟨row0 P, by simp [initRaw, specInitRaw, specInit], by simp [row0, specInitRaw, specInit]⟩,
      by simp [specInitRaw, specInit]⟩

/-! ## one more epoch after any run (audit round: per-epoch statements `C15_lr_epoch`, `C15_stop_epoch`) -/

theorem run_append_ok {P : Params} : ∀ (ms : List (Rat × Rat)) (S S1 S2 : State) (os1 os2 : List Out)
    (ms' : List (Rat × Rat)), run P S ms = .ok (S1, os1) → run P S1 ms' = .ok (S2, os2) →
    run P S (ms ++ ms') = .ok (S2, os1 ++ os2) := by
  intro ms
  induction ms with
  | nil =>
    intro S S1 S2 os1 os2 ms' h1 h2
    simp only [run, Except.ok.injEq, Prod.mk.injEq] at h1
    obtain ⟨rfl, rfl⟩ := h1
    simpa using h2
  | cons m ms ih =>
    intro S S1 S2 os1 os2 ms' h1 h2
    obtain ⟨S', o, os, hs, hr, rfl⟩ := run_cons_inv h1
    have := ih S' S1 S2 os os2 ms' hr h2
    simpa using run_cons_ok hs this

theorem specRun_snoc (P : Params) : ∀ (vs : List Rat) (T : SpecState) (v : Rat),
    specRun P T (vs ++ [v]) = ((specStep P (specRun P T vs).1 v).1,
      (specRun P T vs).2 ++ [(specStep P (specRun P T vs).1 v).2]) := by
  intro vs
  induction vs with
  | nil => intro T v; rfl
  | cons x xs ih =>
    intro T v
    rw [List.cons_append, specRun_cons, ih, specRun_cons]
    rfl

theorem liveRun_snoc (P : Params) : ∀ (vs : List Rat) (T : SpecState) (v : Rat),
    liveRun P T (vs ++ [v]) ↔ (liveRun P T vs ∧ (specRun P T vs).1.es.fails < P.esPat) := by
  intro vs
  induction vs with
  | nil => intro T v; simp [liveRun, specRun]
  | cons x xs ih =>
    intro T v
    simp only [List.cons_append, liveRun, ih, specRun_cons, and_assoc]

end PdtVerif.Controller
