import PdtVerif.Model.ErrorRate
import PdtVerif.Spec.ErrorRate
import PdtVerif.Lemmas.Levenshtein
import PdtVerif.Lemmas.LevRow
/-!
# Lemmas for C02

1. `stepPair_cons` — the code's two-phase step (vectorised ins/sub choice, then the sequential
   deletion loop) is one left-to-right pass `sweepF`;
2. `CellOK` — a cell `(cost, m)` comes with a witness script of that cost and `m` edits and the
   cost is `lev`; `sweepF_ok`, `stepPair_ok`, `tableRow_ok` — the row invariant (appendix A3);
3. `rows_eq` — the `hyp_idx` loop with `not_done`/`ins_mask`/`exclude_last` computes, at step
   `k`, the un-frozen fold over `hyp.take (min k lim)`;
4. lengths and `cut`.
-/
set_option linter.unusedSectionVars false
set_option linter.unusedVariables false

namespace PdtVerif.ErrorRate
open PdtVerif.Lev

variable {α : Type} [DecidableEq α]

/-! ## 1. two-phase step = one pass -/

/-- One cell of the fused pass: `diag = last[j]`, `up = last[j+1]`, `left = new[j]`. -/
def cellStep (c : Costs) (y x : α) (insMask : Bool) (diag up left : Cell) : Cell :=
  let v := pickSub (addIns c insMask up) (subCell c y x diag)
  if v.1 ≤ left.1 + c.del then v else (left.1 + c.del, left.2 + 1)

def sweepF (c : Costs) (y : α) (insMask : Bool) : List α → Cell → List Cell → Cell → List Cell
  | x :: xs, diag, up :: rest, left =>
    let cell := cellStep c y x insMask diag up left
    cell :: sweepF c y insMask xs up rest cell
  | _, _, _, _ => []

theorem delLoop_zip (c : Costs) (y : α) (insMask : Bool) (xs : List α) (diag : Cell)
    (rest : List Cell) (left : Cell) :
    delLoop c left
        (List.zipWith pickSub (rest.map (addIns c insMask)) (List.zipWith (subCell c y) xs (diag :: rest)))
      = sweepF c y insMask xs diag rest left := by
  induction xs generalizing diag rest left with
  | nil => simp [delLoop, sweepF]
  | cons x xs ih =>
    cases rest with
    | nil => simp [delLoop, sweepF]
    | cons up rest =>
      simp only [List.map_cons, List.zipWith_cons_cons, delLoop, sweepF, cellStep]
      rw [ih]

theorem stepPair_cons (c : Costs) (ref : List α) (y : α) (insMask : Bool) (d0 : Cell)
    (rest : List Cell) :
    stepPair c ref y insMask (d0 :: rest)
      = addIns c insMask d0 :: sweepF c y insMask ref d0 rest (addIns c insMask d0) := by
  simp only [stepPair, phase1, delSweep, List.drop_succ_cons, List.drop_zero]
  rw [delLoop_zip]

/-! ## 2. the row invariant with witness scripts -/

/-- A script with cost `cell.1` and `cell.2` edits turns `r` into `h`. -/
def Wit (c : Costs) (r h : List α) (cell : Cell) : Prop :=
  ∃ s, Aligns s r h ∧ scriptCost c s = cell.1 ∧ numEdits s = cell.2

/-- The cell is realised by a script and its cost is the weighted Levenshtein distance. -/
def CellOK (c : Costs) (r h : List α) (cell : Cell) : Prop :=
  Wit c r h cell ∧ cell.1 = lev c r h

theorem numEdits_snoc (s : List (Edit α)) (e : Edit α) :
    numEdits (s ++ [e]) = numEdits s + (if e.isEdit then 1 else 0) := by
  simp [numEdits, List.countP_append, List.countP_cons]

theorem scriptCost_snoc (c : Costs) (s : List (Edit α)) (e : Edit α) :
    scriptCost c (s ++ [e]) = scriptCost c s + e.cost c := by
  rw [scriptCost_append, scriptCost_cons, scriptCost_nil]; ring

theorem Wit.ins {c : Costs} {r h : List α} {cell : Cell} (w : Wit c r h cell) (y : α) :
    Wit c r (h ++ [y]) (cell.1 + c.ins, cell.2 + 1) := by
  obtain ⟨s, a, e1, e2⟩ := w
  refine ⟨s ++ [Edit.ins y], ?_, ?_, ?_⟩
  · simpa using a.append (Aligns.ins y Aligns.nil)
  · rw [scriptCost_snoc, e1]; rfl
  · rw [numEdits_snoc, e2]; rfl

theorem Wit.del {c : Costs} {r h : List α} {cell : Cell} (w : Wit c r h cell) (x : α) :
    Wit c (r ++ [x]) h (cell.1 + c.del, cell.2 + 1) := by
  obtain ⟨s, a, e1, e2⟩ := w
  refine ⟨s ++ [Edit.del x], ?_, ?_, ?_⟩
  · simpa using a.append (Aligns.del x Aligns.nil)
  · rw [scriptCost_snoc, e1]; rfl
  · rw [numEdits_snoc, e2]; rfl

theorem Wit.sub {c : Costs} {r h : List α} {cell : Cell} (w : Wit c r h cell) (x y : α) :
    Wit c (r ++ [x]) (h ++ [y])
      (cell.1 + masked (decide (x ≠ y)) c.sub, cell.2 + maskN (decide (x ≠ y))) := by
  obtain ⟨s, a, e1, e2⟩ := w
  by_cases hxy : x = y
  · subst hxy
    refine ⟨s ++ [Edit.keep x], ?_, ?_, ?_⟩
    · exact a.append (Aligns.keep x Aligns.nil)
    · rw [scriptCost_snoc, e1]; simp [masked, Edit.cost]
    · rw [numEdits_snoc, e2]; simp [maskN, Edit.isEdit]
  · refine ⟨s ++ [Edit.sub x y], ?_, ?_, ?_⟩
    · exact a.append (Aligns.sub x y hxy Aligns.nil)
    · rw [scriptCost_snoc, e1]; simp [masked, Edit.cost, hxy]
    · rw [numEdits_snoc, e2]; simp [maskN, Edit.isEdit, hxy]

theorem masked_neq_eq_subCost (c : Costs) (x y : α) :
    masked (decide (x ≠ y)) c.sub = subCost c x y := by
  by_cases hxy : x = y <;> simp [masked, subCost, hxy]

theorem pick3_wit {P : Cell → Prop} {I S : Cell} {dc : Rat} {dm : Nat} (hI : P I) (hS : P S)
    (hD : P (dc, dm)) : P (if (pickSub I S).1 ≤ dc then pickSub I S else (dc, dm)) := by
  unfold pickSub
  split_ifs <;> assumption

theorem pick3_cost (I S : Cell) (dc : Rat) (dm : Nat) :
    (if (pickSub I S).1 ≤ dc then pickSub I S else (dc, dm)).1 = min (min dc I.1) S.1 := by
  unfold pickSub
  simp only [min_def]
  split_ifs <;> (try dsimp only) <;> linarith

/-- **One cell** (appendix A3): from realised neighbours, the cell chosen by the code's
tie-breaking is realised, and its cost is the Levenshtein recursion. No sign condition. -/
theorem cellStep_ok (c : Costs) (pre h : List α) (x y : α) (diag up left : Cell)
    (hd : CellOK c pre h diag) (hu : CellOK c (pre ++ [x]) h up)
    (hl : CellOK c pre (h ++ [y]) left) :
    CellOK c (pre ++ [x]) (h ++ [y]) (cellStep c y x true diag up left) := by
  obtain ⟨wd, ed⟩ := hd
  obtain ⟨wu, eu⟩ := hu
  obtain ⟨wl, el⟩ := hl
  have wI := wu.ins y
  have wS := wd.sub x y
  have wD := wl.del x
  have hlev := lev_snoc c pre h x y
  rw [← ed, ← eu, ← el, ← masked_neq_eq_subCost] at hlev
  have hI : addIns c true up = (up.1 + c.ins, up.2 + 1) := by simp [addIns, masked, maskN]
  unfold cellStep
  simp only [hI]
  constructor
  · exact pick3_wit (P := Wit c (pre ++ [x]) (h ++ [y])) wI wS wD
  · rw [pick3_cost, hlev]
    rfl

/-- Cells `j+1 ..` of a row: each realised for the reference prefix `pre ++ xs.take (j+1)`. -/
inductive TailOK (c : Costs) (h : List α) : List α → List α → List Cell → Prop where
  | nil (pre : List α) : TailOK c h pre [] []
  | cons {pre : List α} {x : α} {xs : List α} {cell : Cell} {cells : List Cell} :
      CellOK c (pre ++ [x]) h cell → TailOK c h (pre ++ [x]) xs cells →
      TailOK c h pre (x :: xs) (cell :: cells)

/-- A whole row of the paired table for hypothesis prefix `h`. -/
def RowOK (c : Costs) (ref h : List α) (row : List Cell) : Prop :=
  ∃ d0 rest, row = d0 :: rest ∧ CellOK c [] h d0 ∧ TailOK c h [] ref rest

theorem sweepF_ok (c : Costs) (y : α) (h : List α) (pre xs : List α) (diag : Cell)
    (ups : List Cell) (left : Cell)
    (hd : CellOK c pre h diag) (ht : TailOK c h pre xs ups) (hl : CellOK c pre (h ++ [y]) left) :
    TailOK c (h ++ [y]) pre xs (sweepF c y true xs diag ups left) := by
  induction ht generalizing diag left with
  | nil pre => exact TailOK.nil pre
  | @cons pre x xs up rest hu _ ih =>
    simp only [sweepF]
    have hc := cellStep_ok c pre h x y diag up left hd hu hl
    exact TailOK.cons hc (ih up _ hu hc)

theorem CellOK.ins_nil {c : Costs} {h : List α} {cell : Cell} (hc : CellOK c [] h cell) (y : α) :
    CellOK c [] (h ++ [y]) (addIns c true cell) := by
  obtain ⟨w, e⟩ := hc
  have hI : addIns c true cell = (cell.1 + c.ins, cell.2 + 1) := by simp [addIns, masked, maskN]
  rw [hI]
  exact ⟨w.ins y, by simp only [e, lev_snoc_right_nil]⟩

/-- **One un-frozen step preserves the row invariant.** -/
theorem stepPair_ok (c : Costs) (ref h : List α) (y : α) (row : List Cell)
    (hr : RowOK c ref h row) : RowOK c ref (h ++ [y]) (stepPair c ref y true row) := by
  obtain ⟨d0, rest, rfl, h0, ht⟩ := hr
  rw [stepPair_cons]
  exact ⟨_, _, rfl, h0.ins_nil y, sweepF_ok c y h [] ref d0 rest _ h0 ht (h0.ins_nil y)⟩

/-! ### row 0 -/

theorem numEdits_delAll (r : List α) : numEdits (delAll r) = r.length := by
  induction r with
  | nil => rfl
  | cons x r ih =>
    simp only [delAll, List.map_cons, numEdits, List.countP_cons, Edit.isEdit, List.length_cons] at ih ⊢
    simp [ih]

theorem cellOK_del (c : Costs) (r : List α) : CellOK c r [] (((r.length : Nat) : Rat) * c.del, r.length) := by
  refine ⟨⟨delAll r, aligns_delAll r, ?_, numEdits_delAll r⟩, ?_⟩
  · rw [scriptCost_delAll]; ring
  · rw [lev_nil_right]; ring

theorem row0_tail (c : Costs) (pre xs : List α) :
    TailOK c [] pre xs
      ((List.range xs.length).map (fun (i : Nat) =>
        ((((pre.length + 1 + i : Nat) : Rat)) * c.del, pre.length + 1 + i))) := by
  induction xs generalizing pre with
  | nil => exact TailOK.nil pre
  | cons x xs ih =>
    rw [List.length_cons, List.range_succ_eq_map, List.map_cons, List.map_map]
    refine TailOK.cons ?_ ?_
    · have := cellOK_del c (pre ++ [x])
      simpa using this
    · have := ih (pre ++ [x])
      simp only [List.length_append, List.length_cons, List.length_nil] at this
      convert this using 2
      funext i
      simp only [Function.comp, Nat.succ_eq_add_one]
      have : pre.length + 1 + (i + 1) = pre.length + (0 + 1) + 1 + i := by omega
      rw [this]

theorem row0P_ok (c : Costs) (ref : List α) : RowOK c ref [] (row0P c ref.length) := by
  unfold row0P
  rw [List.range_succ_eq_map, List.map_cons, List.map_map]
  refine ⟨_, _, rfl, ?_, ?_⟩
  · simpa using cellOK_del c ([] : List α)
  · have := row0_tail c [] ref
    simp only [List.length_nil] at this
    convert this using 2
    funext i
    simp only [Function.comp, Nat.succ_eq_add_one]
    have : 0 + 1 + i = i + 1 := by omega
    rw [this]

/-- The un-frozen table row after consuming the hypothesis prefix `h`. -/
def tableRow (c : Costs) (ref : List α) (h : List α) : List Cell :=
  h.foldl (fun row y => stepPair c ref y true row) (row0P c ref.length)

/-- **Row invariant for every hypothesis prefix** (all costs, all strings). -/
theorem foldl_stepPair_ok (c : Costs) (ref h₀ h : List α) (row : List Cell)
    (hr : RowOK c ref h₀ row) :
    RowOK c ref (h₀ ++ h) (h.foldl (fun row y => stepPair c ref y true row) row) := by
  induction h generalizing h₀ row with
  | nil => simpa using hr
  | cons y h ih =>
    simp only [List.foldl_cons]
    have := ih (h₀ ++ [y]) _ (stepPair_ok c ref h₀ y row hr)
    simpa using this

theorem tableRow_ok (c : Costs) (ref h : List α) : RowOK c ref h (tableRow c ref h) := by
  simpa [tableRow] using foldl_stepPair_ok c ref [] h _ (row0P_ok c ref)

theorem TailOK.getElem? {c : Costs} {h pre xs : List α} {cells : List Cell}
    (ht : TailOK c h pre xs cells) (j : Nat) (hj : j < xs.length) :
    ∃ cell, cells[j]? = some cell ∧ CellOK c (pre ++ xs.take (j + 1)) h cell := by
  induction ht generalizing j with
  | nil pre => simp at hj
  | @cons pre x xs cell cells hc _ ih =>
    cases j with
    | zero => exact ⟨cell, by simp, by simpa using hc⟩
    | succ j =>
      obtain ⟨cl, e, ok⟩ := ih j (by simpa using hj)
      exact ⟨cl, by simpa using e, by simpa [List.take_succ_cons, List.append_assoc] using ok⟩

/-- Entry `j` of an invariant row is realised for the reference prefix of length `j`. -/
theorem RowOK.getElem? {c : Costs} {ref h : List α} {row : List Cell} (hr : RowOK c ref h row)
    (j : Nat) (hj : j ≤ ref.length) :
    ∃ cell, row[j]? = some cell ∧ CellOK c (ref.take j) h cell := by
  obtain ⟨d0, rest, rfl, h0, ht⟩ := hr
  cases j with
  | zero => exact ⟨d0, by simp, by simpa using h0⟩
  | succ j =>
    obtain ⟨cl, e, ok⟩ := ht.getElem? j (by omega)
    exact ⟨cl, by simpa using e, by simpa using ok⟩

/-! ## 3. the `hyp_idx` loop: freeze, `ins_mask`, `exclude_last` -/

/-- Index of the last step that is not frozen. -/
def lim (excl : Bool) (hypLen : Nat) : Nat := if excl then hypLen - 1 else hypLen

theorem lim_le (excl : Bool) (hypLen : Nat) : lim excl hypLen ≤ hypLen := by
  unfold lim; split <;> omega

theorem notDone_iff (excl : Bool) (hypLen idx : Nat) (h1 : 1 ≤ idx) :
    notDone excl hypLen idx = true ↔ idx ≤ lim excl hypLen := by
  unfold notDone lim
  cases excl <;> simp <;> omega

/-- The un-frozen fold of a step function with `ins_mask = 1`. -/
def foldSteps {ρ : Type} (step : α → Bool → ρ → ρ) (row0 : ρ) (h : List α) : ρ :=
  h.foldl (fun r y => step y true r) row0

theorem foldSteps_snoc {ρ : Type} (step : α → Bool → ρ → ρ) (row0 : ρ) (h : List α) (y : α) :
    foldSteps step row0 (h ++ [y]) = step y true (foldSteps step row0 h) := by
  simp [foldSteps, List.foldl_append]

theorem loop_eq {ρ : Type} (step : α → Bool → ρ → ρ) (excl : Bool) (hypLen : Nat) (row0 : ρ)
    (pre ys : List α) (idx : Nat) (hidx : idx = pre.length + 1) :
    loop step excl hypLen idx ys (foldSteps step row0 (pre.take (lim excl hypLen)))
      = (List.range ys.length).map (fun i =>
          foldSteps step row0 ((pre ++ ys).take (min (idx + i) (lim excl hypLen)))) := by
  induction ys generalizing pre idx with
  | nil => simp [loop]
  | cons y ys ih =>
    have ih' := ih (pre ++ [y]) (idx + 1) (by simp [hidx])
    rw [List.length_cons, List.range_succ_eq_map, List.map_cons, List.map_map]
    simp only [loop]
    by_cases hle : idx ≤ lim excl hypLen
    · have hnd : notDone excl hypLen idx = true := (notDone_iff excl hypLen idx (by omega)).2 hle
      have hins : insMaskAt hypLen idx = true := by
        have := lim_le excl hypLen
        simp [insMaskAt]; omega
      have h1 : pre.take (lim excl hypLen) = pre := List.take_of_length_le (by omega)
      have h2 : (pre ++ [y]).take (lim excl hypLen) = pre ++ [y] :=
        List.take_of_length_le (by simp; omega)
      have h3 : (pre ++ y :: ys).take (min (idx + 0) (lim excl hypLen)) = pre ++ [y] := by
        rw [Nat.add_zero, Nat.min_eq_left hle, hidx]
        have : pre ++ y :: ys = (pre ++ [y]) ++ ys := by simp
        rw [this, List.take_left' (by simp)]
      rw [hnd, hins, if_pos rfl, h1, ← foldSteps_snoc step row0 pre y, ← h2, ih', h2, h3]
      congr 1
      apply List.map_congr_left
      intro i _
      simp only [Function.comp, Nat.succ_eq_add_one, List.append_assoc, List.singleton_append]
      rw [show idx + 1 + i = idx + (i + 1) by omega]
    · have hnd : notDone excl hypLen idx = false := by
        rw [← Bool.not_eq_true]; intro hc
        exact hle ((notDone_iff excl hypLen idx (by omega)).1 hc)
      have h2 : (pre ++ [y]).take (lim excl hypLen) = pre.take (lim excl hypLen) :=
        List.take_append_of_le_length (by omega)
      have h3 : (pre ++ y :: ys).take (min (idx + 0) (lim excl hypLen)) = pre.take (lim excl hypLen) := by
        rw [Nat.add_zero, Nat.min_eq_right (by omega)]
        exact List.take_append_of_le_length (by omega)
      rw [hnd]
      simp only [Bool.false_eq_true, if_false]
      rw [h3]
      congr 1
      rw [← h2, ih']
      apply List.map_congr_left
      intro i _
      simp only [Function.comp, Nat.succ_eq_add_one, List.append_assoc, List.singleton_append]
      rw [show idx + 1 + i = idx + (i + 1) by omega]

/-- **All rows of the loop**: row `k` is the un-frozen fold over `toks.take (min k lim)`. -/
theorem rows_eq {ρ : Type} (step : α → Bool → ρ → ρ) (excl : Bool) (hypLen : Nat) (row0 : ρ)
    (toks : List α) :
    row0 :: loop step excl hypLen 1 toks row0
      = (List.range (toks.length + 1)).map (fun k =>
          foldSteps step row0 (toks.take (min k (lim excl hypLen)))) := by
  have := loop_eq step excl hypLen row0 [] toks 1 rfl
  simp only [List.take_nil, List.nil_append] at this
  rw [List.range_succ_eq_map, List.map_cons, List.map_map]
  have h0 : foldSteps step row0 ([] : List α) = row0 := rfl
  rw [h0] at this
  rw [this]
  simp only [Nat.zero_min, List.take_zero, h0]
  congr 1
  apply List.map_congr_left
  intro i _
  simp only [Function.comp, Nat.succ_eq_add_one]
  rw [Nat.add_comm 1 i]

/-! ## 4. lengths and `cut` -/

theorem firstEos_le (e : α) (l : List α) : firstEos e l ≤ l.length := by
  induction l with
  | nil => simp [firstEos]
  | cons t ts ih => simp only [firstEos]; split <;> simp <;> omega

theorem seqLen_le (eos : Option α) (inc : Bool) (l : List α) : seqLen eos inc l ≤ l.length := by
  unfold seqLen
  cases eos with
  | none => simp
  | some e =>
    have := firstEos_le e l
    simp only
    split
    · split <;> omega
    · exact this

theorem takeWhile_eq_take (e : α) (l : List α) :
    l.takeWhile (fun t => decide (t ≠ e)) = l.take (firstEos e l) := by
  induction l with
  | nil => simp [firstEos]
  | cons t ts ih =>
    by_cases h : t = e
    · simp [firstEos, h]
    · have ih' := ih
      simp only [ne_eq, decide_not] at ih'
      simp [firstEos, h, ih']

theorem firstEos_lt_iff (e : α) (l : List α) : firstEos e l < l.length ↔ e ∈ l := by
  induction l with
  | nil => simp [firstEos]
  | cons t ts ih =>
    by_cases h : t = e
    · simp [firstEos, h]
    · have h' : ¬ e = t := fun hh => h hh.symm
      simp [firstEos, h, h', ih]

theorem take_firstEos_succ (e : α) (l : List α) (h : firstEos e l < l.length) :
    l.take (firstEos e l + 1) = l.take (firstEos e l) ++ [e] := by
  induction l with
  | nil => simp at h
  | cons t ts ih =>
    by_cases hte : t = e
    · simp [firstEos, hte]
    · have : firstEos e ts < ts.length := by simpa [firstEos, hte] using h
      simp [firstEos, hte, ih this]

/-- The transcript of the spec is the column cut at the length the code computes. -/
theorem cut_eq_take (eos : Option α) (inc : Bool) (l : List α) :
    cut eos inc l = l.take (seqLen eos inc l) := by
  cases eos with
  | none => simp [cut, seqLen]
  | some e =>
    simp only [cut, seqLen, takeWhile_eq_take]
    have hle := firstEos_le e l
    by_cases hm : e ∈ l
    · have hlt := (firstEos_lt_iff e l).2 hm
      have hne : firstEos e l ≠ l.length := by omega
      cases inc
      · simp
      · simp [hm, hne, take_firstEos_succ e l hlt]
    · have hnl : ¬ firstEos e l < l.length := fun hh => hm ((firstEos_lt_iff e l).1 hh)
      have heq : firstEos e l = l.length := by omega
      cases inc <;> simp [hm, heq]

theorem cut_length (eos : Option α) (inc : Bool) (l : List α) :
    (cut eos inc l).length = seqLen eos inc l := by
  rw [cut_eq_take, List.length_take, Nat.min_eq_left (seqLen_le eos inc l)]

/-! ## 5. the plain table: `del_mat` form = sequential sweep = `Lev.stepRow` -/

/-- `for i: v[i] = min(v[i], v[i-1] + d)` -/
def goDel (d : Rat) : Rat → List Rat → List Rat
  | _, [] => []
  | prev, v :: vs => min v (prev + d) :: goDel d (min v (prev + d)) vs

theorem foldl_min_assoc {ι : Type} (g : ι → Rat) (a b : Rat) (l : List ι) :
    l.foldl (fun acc j => min acc (g j)) (min a b) = min a (l.foldl (fun acc j => min acc (g j)) b) := by
  induction l generalizing b with
  | nil => rfl
  | cons x l ih => simp only [List.foldl_cons]; rw [min_assoc, ih]

theorem foldl_min_swap {ι : Type} (g : ι → Rat) (a b : Rat) (l : List ι) :
    min (l.foldl (fun acc j => min acc (g j)) a) b = min a (l.foldl (fun acc j => min acc (g j)) b) := by
  rw [min_comm, ← foldl_min_assoc, min_comm b a, foldl_min_assoc]

theorem foldl_min_add {ι : Type} (g : ι → Rat) (a d : Rat) (l : List ι) :
    l.foldl (fun acc j => min acc (g j)) a + d
      = l.foldl (fun acc j => min acc (g j + d)) (a + d) := by
  induction l generalizing a with
  | nil => rfl
  | cons x l ih => simp only [List.foldl_cons]; rw [ih, min_add_add_right]

/-- The `del_mat` minimum obeys the recurrence of the sequential sweep (appendix A1; no sign
condition on `d`). -/
theorem delMatCell_succ (d : Rat) (v : List Rat) (i : Nat) :
    delMatCell d v (i + 1) = min (v.getD (i + 1) 0) (delMatCell d v i + d) := by
  unfold delMatCell
  rw [List.range_succ, List.foldl_append, List.foldl_cons, List.foldl_nil, foldl_min_add]
  have hg : (fun (acc : Rat) (j : Nat) => min acc (v.getD j 0 + ((i : Rat) * d - (j : Rat) * d) + d))
      = (fun acc j => min acc (v.getD j 0 + (((i + 1 : Nat) : Rat) * d - (j : Rat) * d))) := by
    funext acc j; congr 1; push_cast; ring
  rw [hg]
  have : v.getD i 0 + (((i + 1 : Nat) : Rat) * d - (i : Rat) * d) = v.getD i 0 + d := by
    push_cast; ring
  rw [this, foldl_min_swap]

theorem goDel_eq (d : Rat) (v : List Rat) (k : Nat) (vs : List Rat) (hvs : vs = v.drop (k + 1)) :
    goDel d (delMatCell d v k) vs
      = (List.range vs.length).map (fun i => delMatCell d v (k + 1 + i)) := by
  induction vs generalizing k with
  | nil => simp [goDel]
  | cons w ws ih =>
    have hw : v.getD (k + 1) 0 = w := by
      have := congrArg (fun l => l[0]?) hvs
      simp only [List.getElem?_cons_zero, List.getElem?_drop, Nat.add_zero] at this
      simp [List.getD_eq_getElem?_getD, ← this]
    have hws : ws = v.drop (k + 1 + 1) := by
      have := congrArg (fun l => l.drop 1) hvs
      simpa [List.drop_drop, Nat.add_comm] using this
    simp only [goDel]
    rw [← hw, ← delMatCell_succ, ih (k + 1) hws, List.length_cons, List.range_succ_eq_map,
      List.map_cons, List.map_map]
    congr 1
    apply List.map_congr_left
    intro i _
    simp only [Function.comp, Nat.succ_eq_add_one]
    rw [show k + 1 + 1 + i = k + 1 + (i + 1) by omega]

theorem delMat_cons (d : Rat) (v0 : Rat) (vs : List Rat) :
    delMat d (v0 :: vs) = v0 :: goDel d v0 vs := by
  unfold delMat
  rw [List.length_cons, List.range_succ_eq_map, List.map_cons, List.map_map]
  have h0 : delMatCell d (v0 :: vs) 0 = v0 := by simp [delMatCell]
  rw [h0]
  congr 1
  have := goDel_eq d (v0 :: vs) 0 vs (by simp)
  rw [h0] at this
  rw [this]
  apply List.map_congr_left
  intro i _
  simp only [Function.comp, Nat.succ_eq_add_one]
  rw [show 0 + 1 + i = i + 1 by omega]

theorem goDel_zip (c : Costs) (y : α) (xs : List α) (diag : Rat) (ups : List Rat) (left : Rat) :
    goDel c.del left
        (List.zipWith min (ups.map (· + c.ins))
          (List.zipWith (fun x d => d + masked (decide (x ≠ y)) c.sub) xs (diag :: ups)))
      = sweep c y xs diag ups left := by
  induction xs generalizing diag ups left with
  | nil => simp [goDel, sweep]
  | cons x xs ih =>
    cases ups with
    | nil => simp [goDel, sweep]
    | cons up rest =>
      simp only [List.map_cons, List.zipWith_cons_cons, goDel, sweep]
      have hcell : min (min (up + c.ins) (diag + masked (decide (x ≠ y)) c.sub)) (left + c.del)
          = min (min (left + c.del) (up + c.ins)) (diag + subCost c x y) := by
        rw [masked_neq_eq_subCost, min_comm, ← min_assoc]
      rw [hcell, ih]

/-- After the shortcut the code's step (`min`, then `del_mat`) is the shared sweep-form step. -/
theorem stepPlain_eq (c : Costs) (ref : List α) (y : α) (row : List Rat) :
    stepPlain c ref y true row = stepRow c ref y row := by
  cases row with
  | nil => simp [stepPlain, phase1Plain, delMat, stepRow]
  | cons d0 rest =>
    have hm : ∀ x : Rat, masked true x = x := fun x => by simp [masked]
    simp only [stepPlain, phase1Plain, stepRow, hm, List.drop_succ_cons, List.drop_zero]
    rw [delMat_cons, goDel_zip]

theorem row0Plain_eq (c : Costs) (ref : List α) : row0Plain c ref.length = row0 c ref := by
  unfold row0Plain row0
  apply List.map_congr_left
  intro j _
  ring

/-- The plain table row after any hypothesis prefix is the row of prefix distances. -/
theorem foldSteps_plain (c : Costs) (ref h : List α) :
    foldSteps (stepPlain c ref) (row0Plain c ref.length) h = levRow c ref h := by
  rw [← dpRow_eq]
  unfold foldSteps dpRow
  rw [row0Plain_eq]
  congr 1
  funext row y
  exact stepPlain_eq c ref y row

/-! ## 6. what the read-out sees -/

theorem CellOK.countOfOptimal {c : Costs} {r h : List α} {cell : Cell} (hc : CellOK c r h cell) :
    CountOfOptimal c r h cell.2 := by
  obtain ⟨⟨s, a, e1, e2⟩, e⟩ := hc
  exact ⟨s, ⟨a, fun s' a' => by rw [e1, e]; exact lev_le_scriptCost c a'⟩, e2⟩

theorem stepTokens_length (hyp : List α) (excl : Bool) :
    (stepTokens hyp excl).length = hyp.length + (if excl then 0 else 1) - 1 := by
  unfold stepTokens
  rw [List.length_take]
  cases excl <;> simp

theorem stepTokens_take (hyp : List α) (excl : Bool) (m : Nat)
    (hm : m ≤ (stepTokens hyp excl).length) : (stepTokens hyp excl).take m = hyp.take m := by
  rw [stepTokens_length] at hm
  unfold stepTokens
  rw [List.take_take, Nat.min_eq_left hm]

/-- The value the code reads at `refLen` after the hypothesis prefix `h` (both branches). -/
def valueAt (c : Costs) (ref : List α) (refLen : Nat) (h : List α) : Rat :=
  if useShortcut c then (levRow unitCosts ref h).getD refLen 0
  else (((tableRow c ref h).getD refLen (0, 0)).2 : Rat)

theorem vals_eq (c : Costs) (ref hyp : List α) (refLen hypLen : Nat) (excl : Bool) :
    vals c ref hyp refLen hypLen excl
      = (List.range ((stepTokens hyp excl).length + 1)).map (fun k =>
          valueAt c ref refLen (hyp.take (min k (lim excl hypLen)))) := by
  unfold vals valueAt
  split
  · unfold rowsPlain
    rw [rows_eq, List.map_map]
    apply List.map_congr_left
    intro k hk
    have hk' : k ≤ (stepTokens hyp excl).length := by
      have := List.mem_range.1 hk; omega
    simp only [Function.comp]
    rw [stepTokens_take hyp excl _ (by omega), foldSteps_plain]
  · unfold rowsP
    rw [rows_eq, List.map_map]
    apply List.map_congr_left
    intro k hk
    have hk' : k ≤ (stepTokens hyp excl).length := by
      have := List.mem_range.1 hk; omega
    simp only [Function.comp]
    rw [stepTokens_take hyp excl _ (by omega)]
    rfl

theorem useShortcut_iff (c : Costs) :
    useShortcut c = true ↔ c.ins = c.del ∧ c.del = c.sub ∧ 0 < c.sub := by
  simp [useShortcut, and_assoc]

/-- Equal positive costs: a script is optimal iff it has the fewest edits. -/
theorem countOfOptimal_uniform (k : Rat) (hk : 0 < k) (r h : List α) (m : Nat)
    (hm : (m : Rat) = lev unitCosts r h) : CountOfOptimal ⟨k, k, k⟩ r h m := by
  obtain ⟨s, a, e, lb⟩ := lev_unit_eq_numEdits r h
  have hms : m = numEdits s := by
    have : (m : Rat) = (numEdits s : Rat) := by rw [hm, e]
    exact_mod_cast this
  refine ⟨s, ⟨a, fun s' a' => ?_⟩, hms.symm⟩
  rw [scriptCost_uniform, scriptCost_uniform, scriptCost_unit, scriptCost_unit]
  have := lb s' a'
  have h2 : (numEdits s : Rat) ≤ (numEdits s' : Rat) := by exact_mod_cast this
  exact mul_le_mul_of_nonneg_left h2 (le_of_lt hk)

theorem lev_unit_nat (r h : List α) : ∃ m : Nat, (m : Rat) = lev unitCosts r h := by
  obtain ⟨s, _, e, _⟩ := lev_unit_eq_numEdits r h
  exact ⟨numEdits s, e.symm⟩

/-- **The value read at `refLen`** is, for every cost triple, the number of edits of a
minimum-cost script between `ref.take refLen` and `h`; after the shortcut it is moreover the
unit-cost Levenshtein distance. -/
theorem valueAt_spec (c : Costs) (ref : List α) (refLen : Nat) (hr : refLen ≤ ref.length)
    (h : List α) :
    (∃ m : Nat, valueAt c ref refLen h = (m : Rat) ∧ CountOfOptimal c (ref.take refLen) h m)
      ∧ (useShortcut c = true → valueAt c ref refLen h = lev unitCosts (ref.take refLen) h) := by
  unfold valueAt
  by_cases hs : useShortcut c = true
  · rw [if_pos hs]
    have hv : (levRow unitCosts ref h).getD refLen 0 = lev unitCosts (ref.take refLen) h := by
      rw [List.getD_eq_getElem?_getD, levRow_getElem? unitCosts ref h refLen hr]; rfl
    rw [hv]
    refine ⟨?_, fun _ => rfl⟩
    obtain ⟨m, hm⟩ := lev_unit_nat (ref.take refLen) h
    obtain ⟨h1, h2, h3⟩ := (useShortcut_iff c).1 hs
    refine ⟨m, hm.symm, ?_⟩
    obtain ⟨ci, cd, cs⟩ := c
    simp only at h1 h2 h3
    subst h2
    subst h1
    exact countOfOptimal_uniform ci h3 _ _ m hm
  · rw [if_neg hs]
    refine ⟨?_, fun hh => absurd hh hs⟩
    obtain ⟨cell, e, ok⟩ := (tableRow_ok c ref h).getElem? refLen hr
    refine ⟨cell.2, ?_, ok.countOfOptimal⟩
    rw [List.getD_eq_getElem?_getD, e]; rfl

/-! ## 7. the two entry points in closed form -/

theorem getLastD_map_range_succ {β : Type} (f : Nat → β) (n : Nat) (d : β) :
    ((List.range (n + 1)).map f).getLastD d = f n := by
  rw [List.range_succ, List.map_append]
  simp

theorem lim_false (hypLen : Nat) : lim false hypLen = hypLen := by simp [lim]

theorem errorRateCol_eq (cfg : Config α) (ref hyp : List α) :
    errorRateCol cfg ref hyp
      = normScalar cfg.norm (seqLen cfg.eos cfg.includeEos ref) (seqLen cfg.eos cfg.includeEos hyp)
          (valueAt cfg.costs ref (seqLen cfg.eos cfg.includeEos ref)
            (hyp.take (seqLen cfg.eos cfg.includeEos hyp))) := by
  unfold errorRateCol
  simp only
  rw [vals_eq, getLastD_map_range_succ, stepTokens_length, lim_false]
  have := seqLen_le cfg.eos cfg.includeEos hyp
  simp only [Bool.false_eq_true, if_false, Nat.add_sub_cancel]
  rw [Nat.min_eq_right this]

theorem valueAt_nil (c : Costs) (ref : List α) (refLen : Nat) (hr : refLen ≤ ref.length) :
    valueAt c ref refLen [] = (refLen : Rat) := by
  unfold valueAt
  split
  · rw [List.getD_eq_getElem?_getD, levRow_getElem? unitCosts ref [] refLen hr, lev_nil_right]
    simp [unitCosts, Nat.min_eq_left hr]
  · have : tableRow c ref [] = row0P c ref.length := rfl
    rw [this, row0P, List.getD_eq_getElem?_getD]
    simp [Nat.lt_succ_of_le hr]

theorem prefixErrorRatesCol_eq (cfg : Config α) (ref hyp : List α) :
    prefixErrorRatesCol cfg ref hyp
      = (List.range (prefixRows hyp.length cfg.excludeLast)).map (fun k =>
          if k ≥ seqLen cfg.eos cfg.includeEos hyp + (if cfg.excludeLast then 0 else 1) then
            (cfg.padding : Rat)
          else normPrefix cfg.norm (seqLen cfg.eos cfg.includeEos ref) k
            (valueAt cfg.costs ref (seqLen cfg.eos cfg.includeEos ref) (hyp.take k))) := by
  unfold prefixErrorRatesCol
  simp only
  have hr := seqLen_le cfg.eos cfg.includeEos ref
  -- `prefix_ers[0]` is the value the table would give anyway
  have hfirst : ((seqLen cfg.eos cfg.includeEos ref : Nat) : Rat)
      * (if useShortcut cfg.costs = true then
          (if useShortcut cfg.costs = true then unitCosts else cfg.costs).del else 1)
      = valueAt cfg.costs ref (seqLen cfg.eos cfg.includeEos ref) [] := by
    rw [valueAt_nil _ _ _ hr]
    split <;> simp [unitCosts]
  rw [hfirst, vals_eq, List.range_succ_eq_map, List.map_cons, List.map_map, List.drop_succ_cons,
    List.drop_zero]
  have hraw : valueAt cfg.costs ref (seqLen cfg.eos cfg.includeEos ref) []
      = valueAt cfg.costs ref (seqLen cfg.eos cfg.includeEos ref)
          (hyp.take (min 0 (lim cfg.excludeLast (seqLen cfg.eos cfg.includeEos hyp)))) := by simp
  rw [hraw, ← List.map_map, ← List.map_cons (f := fun k => valueAt cfg.costs ref
    (seqLen cfg.eos cfg.includeEos ref)
    (hyp.take (min k (lim cfg.excludeLast (seqLen cfg.eos cfg.includeEos hyp))))),
    ← List.range_succ_eq_map]
  apply List.map_congr_left
  intro k hk
  have hk' := List.mem_range.1 hk
  generalize cfg.excludeLast = ex at *
  by_cases hge : k ≥ seqLen cfg.eos cfg.includeEos hyp + (if ex = true then 0 else 1)
  · rw [if_pos hge, if_pos hge]
  · rw [if_neg hge, if_neg hge]
    congr 1
    have hkt : k < (stepTokens hyp ex).length + 1 := by
      rw [stepTokens_length]; unfold prefixRows at hk'
      cases ex <;> simp at hk' ⊢ <;> omega
    rw [List.getD_eq_getElem?_getD, List.getElem?_map, List.getElem?_range hkt]
    simp only [Option.map_some, Option.getD_some]
    have : min k (lim ex (seqLen cfg.eos cfg.includeEos hyp)) = k := by
      unfold lim
      cases ex <;> simp at hge ⊢ <;> omega
    rw [this]

/-! ## 8. the enumeration oracle is sound and complete -/

theorem aligns_of_mem_allScripts (r h : List α) (s : List (Edit α)) (hs : s ∈ allScripts r h) :
    Aligns s r h := by
  fun_induction allScripts r h generalizing s with
  | case1 =>
    simp only [List.mem_singleton] at hs
    subst hs; exact Aligns.nil
  | case2 y h ih =>
    obtain ⟨t, ht, rfl⟩ := List.mem_map.1 hs
    exact Aligns.ins y (ih t ht)
  | case3 x r ih =>
    obtain ⟨t, ht, rfl⟩ := List.mem_map.1 hs
    exact Aligns.del x (ih t ht)
  | case4 x r y h ih1 ih2 ih3 =>
    rcases List.mem_append.1 hs with hs | hs
    · rcases List.mem_append.1 hs with hs | hs
      · obtain ⟨t, ht, rfl⟩ := List.mem_map.1 hs
        exact Aligns.ins y (ih1 t ht)
      · obtain ⟨t, ht, rfl⟩ := List.mem_map.1 hs
        exact Aligns.del x (ih2 t ht)
    · obtain ⟨t, ht, rfl⟩ := List.mem_map.1 hs
      by_cases hxy : x = y
      · subst hxy
        simp only [if_true]
        exact Aligns.keep x (ih3 t ht)
      · simp only [hxy, if_false]
        exact Aligns.sub x y hxy (ih3 t ht)

theorem mem_allScripts_of_aligns {r h : List α} {s : List (Edit α)} (a : Aligns s r h) :
    s ∈ allScripts r h := by
  induction a with
  | nil => simp [allScripts]
  | @ins s r h y _ ih =>
    cases r with
    | nil => rw [allScripts]; exact List.mem_map.2 ⟨s, ih, rfl⟩
    | cons x r =>
      rw [allScripts]
      exact List.mem_append.2 (Or.inl (List.mem_append.2 (Or.inl (List.mem_map.2 ⟨s, ih, rfl⟩))))
  | @del s r h x _ ih =>
    cases h with
    | nil => rw [allScripts]; exact List.mem_map.2 ⟨s, ih, rfl⟩
    | cons y h =>
      rw [allScripts]
      exact List.mem_append.2 (Or.inl (List.mem_append.2 (Or.inr (List.mem_map.2 ⟨s, ih, rfl⟩))))
  | @sub s r h x y hne _ ih =>
    rw [allScripts]
    exact List.mem_append.2 (Or.inr (List.mem_map.2 ⟨s, ih, by simp [hne]⟩))
  | @keep s r h x _ ih =>
    rw [allScripts]
    exact List.mem_append.2 (Or.inr (List.mem_map.2 ⟨s, ih, by simp⟩))

/-- `allScripts r h` lists exactly the edit scripts turning `r` into `h`. -/
theorem mem_allScripts_iff (r h : List α) (s : List (Edit α)) :
    s ∈ allScripts r h ↔ Aligns s r h :=
  ⟨aligns_of_mem_allScripts r h s, mem_allScripts_of_aligns⟩

theorem isOptimal_iff (c : Costs) (r h : List α) (s : List (Edit α)) :
    IsOptimal c r h s ↔ Aligns s r h ∧ scriptCost c s = lev c r h := by
  constructor
  · rintro ⟨a, lb⟩
    obtain ⟨s0, a0, e0⟩ := lev_attained c r h
    have h1 := lb s0 a0
    have h2 := lev_le_scriptCost c a
    exact ⟨a, by linarith⟩
  · rintro ⟨a, e⟩
    exact ⟨a, fun s' a' => by rw [e]; exact lev_le_scriptCost c a'⟩

/-- The brute-force oracle lists exactly the edit counts of minimum-cost alignments. -/
theorem mem_optimalEditCounts (c : Costs) (r h : List α) (m : Nat) :
    m ∈ optimalEditCounts c r h ↔ CountOfOptimal c r h m := by
  unfold optimalEditCounts CountOfOptimal
  simp only [List.mem_map, List.mem_filter, mem_allScripts_iff, beq_iff_eq, isOptimal_iff]

/-! ## 9. `minimum_error_rate_loss`: the flattening `n·M + m` -/

theorem mul_add_lt {n m N M : Nat} (hn : n < N) (hm : m < M) : n * M + m < N * M := by
  have h1 : n * M + m < (n + 1) * M := by rw [Nat.succ_mul]; omega
  have h2 : (n + 1) * M ≤ N * M := Nat.mul_le_mul_right M hn
  omega

/-- Row-major flattening of a list of rows of equal length `M`. -/
theorem getElem?_flatten_uniform {β : Type} (t : List (List β)) (M : Nat)
    (hM : ∀ l ∈ t, l.length = M) (n m : Nat) (hm : m < M) :
    t.flatten[n * M + m]? = (t[n]?).bind (fun l => l[m]?) := by
  induction t generalizing n with
  | nil => simp
  | cons l t ih =>
    have hl : l.length = M := hM l (by simp)
    have ht : ∀ l' ∈ t, l'.length = M := fun l' h' => hM l' (by simp [h'])
    cases n with
    | zero =>
      simp only [List.flatten_cons, Nat.zero_mul, Nat.zero_add, List.getElem?_cons_zero,
        Option.bind_some]
      rw [List.getElem?_append_left (by omega)]
    | succ n =>
      simp only [List.flatten_cons, List.getElem?_cons_succ]
      rw [List.getElem?_append_right (by rw [hl, Nat.succ_mul]; omega)]
      rw [← ih ht n]
      congr 1
      rw [hl, Nat.succ_mul]; omega

/-- The sequence the documentation calls `t_{n,m}`. -/
def seqAt (bf : Bool) (t : List (List (List α))) (n m : Nat) (dflt : α) : List α :=
  if bf then (t.getD n []).getD m [] else t.map (fun plane => (plane.getD n []).getD m dflt)

/-- `(N, M, L)` when `batch_first`, `(L, N, M)` otherwise. -/
def WellShaped (bf : Bool) (N M : Nat) (t : List (List (List α))) : Prop :=
  if bf then t.length = N ∧ ∀ p ∈ t, p.length = M
  else ∀ p ∈ t, p.length = N ∧ ∀ row ∈ p, row.length = M

/-- **Column `n·M + m` of the flattened batch is the sequence `(n, m)`** — both layouts. -/
theorem flatColumns_getElem? (bf : Bool) (N M : Nat) (t : List (List (List α))) (dflt : α)
    (hw : WellShaped bf N M t) (n m : Nat) (hn : n < N) (hm : m < M) :
    (if bf then flatColumnsBatchFirst t else flatColumnsSeqFirst N M t dflt)[n * M + m]?
      = some (seqAt bf t n m dflt) := by
  cases bf with
  | true =>
    obtain ⟨hN, hM⟩ : t.length = N ∧ ∀ p ∈ t, p.length = M := by simpa [WellShaped] using hw
    simp only [if_true, flatColumnsBatchFirst, seqAt]
    rw [getElem?_flatten_uniform t M hM n m hm]
    have hn' : n < t.length := by omega
    have hp : (t[n]).length = M := hM _ (List.getElem_mem hn')
    rw [List.getElem?_eq_getElem hn', Option.bind_some, List.getElem?_eq_getElem (by omega)]
    simp [List.getD_eq_getElem?_getD, List.getElem?_eq_getElem hn', List.getElem?_eq_getElem (show m < (t[n]).length by omega)]
  | false =>
    have hw' : ∀ p ∈ t, p.length = N ∧ ∀ row ∈ p, row.length = M := by simpa [WellShaped] using hw
    simp only [Bool.false_eq_true, if_false, flatColumnsSeqFirst, toColumns, seqAt]
    rw [List.getElem?_map, List.getElem?_range (mul_add_lt hn hm)]
    simp only [Option.map_some, List.map_map]
    congr 1
    apply List.map_congr_left
    intro p hp
    obtain ⟨hpN, hpM⟩ := hw' p hp
    simp only [Function.comp, List.getD_eq_getElem?_getD]
    rw [getElem?_flatten_uniform p M hpM n m hm]
    have hn' : n < p.length := by omega
    rw [List.getElem?_eq_getElem hn']
    simp

theorem getElem?_zipWith_some {β γ δ : Type} (f : β → γ → δ) (l : List β) (l' : List γ) (i : Nat)
    (b : β) (g : γ) (h1 : l[i]? = some b) (h2 : l'[i]? = some g) :
    (List.zipWith f l l')[i]? = some (f b g) := by
  rw [List.getElem?_zipWith, h1, h2]

/-- **`minimum_error_rate_loss`, element `(n, m)`** (before the reduction): the softmax weight
times the error rate of `hyp_{n,m}` against `ref_{n,m}`, minus the mean over the `M` samples of
batch element `n` when `sub_avg`. The flattening to `N·M` columns and the `view(N, M)` back are
consistent, for both layouts. -/
theorem merElems_getD (cfg : Config α) (subAvg bf : Bool) (N M : Nat)
    (ref hyp : List (List (List α))) (w : List (List Rat)) (dflt : α)
    (hr : WellShaped bf N M ref) (hh : WellShaped bf N M hyp)
    (hwN : w.length = N) (hwM : ∀ row ∈ w, row.length = M)
    (n m : Nat) (hn : n < N) (hm : m < M) :
    ((merElems cfg subAvg bf N M ref hyp w dflt).getD n []).getD m 0
      = (errorRateCol cfg (seqAt bf ref n m dflt) (seqAt bf hyp n m dflt)
          - (if subAvg then
              ((List.range M).map (fun m' =>
                errorRateCol cfg (seqAt bf ref n m' dflt) (seqAt bf hyp n m' dflt))).sum / (M : Rat)
             else 0))
        * ((w.getD n []).getD m 0) := by
  -- the flat error rates
  have hflat : ∀ n' m', n' < N → m' < M →
      (List.zipWith (errorRateCol cfg)
        (if bf then flatColumnsBatchFirst ref else flatColumnsSeqFirst N M ref dflt)
        (if bf then flatColumnsBatchFirst hyp else flatColumnsSeqFirst N M hyp dflt)).getD (n' * M + m') 0
        = errorRateCol cfg (seqAt bf ref n' m' dflt) (seqAt bf hyp n' m' dflt) := by
    intro n' m' hn' hm'
    rw [List.getD_eq_getElem?_getD,
      getElem?_zipWith_some _ _ _ _ _ _ (flatColumns_getElem? bf N M ref dflt hr n' m' hn' hm')
        (flatColumns_getElem? bf N M hyp dflt hh n' m' hn' hm')]
    rfl
  -- the `(N, M)` view
  have hview : view2 N M (List.zipWith (errorRateCol cfg)
        (if bf then flatColumnsBatchFirst ref else flatColumnsSeqFirst N M ref dflt)
        (if bf then flatColumnsBatchFirst hyp else flatColumnsSeqFirst N M hyp dflt))
      = (List.range N).map (fun n' => (List.range M).map (fun m' =>
          errorRateCol cfg (seqAt bf ref n' m' dflt) (seqAt bf hyp n' m' dflt))) := by
    unfold view2
    apply List.map_congr_left
    intro n' hn'
    apply List.map_congr_left
    intro m' hm'
    exact hflat n' m' (List.mem_range.1 hn') (List.mem_range.1 hm')
  have hwn : n < w.length := by omega
  have hwrow : (w[n]).length = M := hwM _ (List.getElem_mem hwn)
  unfold merElems
  simp only
  rw [hview]
  rw [List.getD_eq_getElem?_getD, List.getD_eq_getElem?_getD]
  cases subAvg with
  | false =>
    simp only [Bool.false_eq_true, if_false, sub_zero]
    rw [getElem?_zipWith_some _ _ _ n _ _
      (by rw [List.getElem?_map, List.getElem?_range hn]; rfl) (List.getElem?_eq_getElem hwn)]
    simp only [Option.getD_some]
    rw [getElem?_zipWith_some _ _ _ m _ _
      (by rw [List.getElem?_map, List.getElem?_range hm]; rfl)
      (List.getElem?_eq_getElem (by omega))]
    simp [List.getD_eq_getElem?_getD, List.getElem?_eq_getElem hwn,
      List.getElem?_eq_getElem (show m < (w[n]).length by omega)]
  | true =>
    simp only [if_true]
    rw [getElem?_zipWith_some _ _ _ n _ _
      (by rw [List.getElem?_map, List.getElem?_map, List.getElem?_range hn]; rfl)
      (List.getElem?_eq_getElem hwn)]
    simp only [Option.getD_some]
    rw [getElem?_zipWith_some _ _ _ m _ _
      (by rw [List.getElem?_map, List.getElem?_map, List.getElem?_range hm]; rfl)
      (List.getElem?_eq_getElem (by omega))]
    simp [mean, List.getD_eq_getElem?_getD, List.getElem?_eq_getElem hwn,
      List.getElem?_eq_getElem (show m < (w[n]).length by omega)]

end PdtVerif.ErrorRate
