import PdtVerif.Model.SeqScore
import PdtVerif.Spec.SeqScore
/-! Helper lemmas for `sequence_log_probs` (core Lean only). -/
namespace PdtVerif.SeqScore

/-! ### `_lens_from_eos` finds the first `eos` -/

/-- The flag row `(x.eq(1) & mask)` with the running count started at `acc`. -/
def eosFlags (acc : Nat) (tok : List Int) (eos : Int) : List Bool :=
  List.zipWith (fun c m => c == 1 && m)
    (cumsumFrom acc ((tok.map (fun h => h == eos)).map Bool.toNat)) (tok.map (fun h => h == eos))

theorem eosFlags_cons (acc : Nat) (h : Int) (tok : List Int) (eos : Int) :
    eosFlags acc (h :: tok) eos =
      ((acc + (h == eos).toNat == 1) && (h == eos)) :: eosFlags (acc + (h == eos).toNat) tok eos := by
  simp [eosFlags, cumsumFrom]

theorem firstTrue_eosFlags_pos (acc : Nat) (hacc : 1 ≤ acc) (tok : List Int) (eos : Int) :
    firstTrue (eosFlags acc tok eos) = none := by
  induction tok generalizing acc with
  | nil => simp [eosFlags, cumsumFrom, firstTrue]
  | cons h tok ih =>
    rw [eosFlags_cons]
    by_cases he : h = eos
    · subst he
      have h1 : (acc + (h == h).toNat == 1) = false := by simp; omega
      simp only [h1, Bool.false_and, firstTrue]
      rw [ih _ (by omega)]; rfl
    · have h1 : (h == eos) = false := by simpa using he
      simp only [h1, Bool.and_false, firstTrue, Bool.toNat_false, Nat.add_zero]
      rw [ih _ hacc]; rfl

theorem firstTrue_eosFlags_zero (tok : List Int) (eos : Int) :
    firstTrue (eosFlags 0 tok eos) = if eos ∈ tok then some (tok.idxOf eos) else none := by
  induction tok with
  | nil => simp [eosFlags, cumsumFrom, firstTrue]
  | cons h tok ih =>
    rw [eosFlags_cons]
    by_cases he : h = eos
    · subst he
      simp [firstTrue]
    · have h1 : (h == eos) = false := by simpa using he
      have h2 : ¬ eos = h := fun h' => he h'.symm
      simp only [h1, Bool.and_false, firstTrue, Bool.toNat_false, Nat.add_zero, ih,
        List.mem_cons, h2, false_or, List.idxOf_cons]
      split <;> simp

/-- `_lens_from_eos` returns the position of the first `eos` (the length when there is none). -/
theorem lensFromEos_eq_idxOf (tok : List Int) (eos : Int) :
    lensFromEos tok eos = tok.idxOf eos := by
  have h := firstTrue_eosFlags_zero tok eos
  unfold eosFlags at h
  unfold lensFromEos
  simp only [h]
  split
  · rename_i i hi
    split at hi
    · cases hi; rfl
    · cases hi
  · rename_i hi
    split at hi
    · cases hi
    · rename_i hn
      exact (List.idxOf_eq_length hn).symm

/-! ### the masked sum of one sequence -/

theorem oov_eq_not_inVocab (V : Nat) (h : Int) : oov V h = !Spec.inVocab V h := by
  unfold oov Spec.inVocab
  by_cases h1 : h < 0 <;> by_cases h2 : (V : Int) ≤ h <;> simp [h1, h2] <;> omega

/-- Summing `0` on masked cells equals summing over the kept cells of the cut sequence. -/
theorem sum_masked_eq (V : Nat) (f : Nat → Nat → Rat) (C : Nat) (col : List Int) (k : Nat) :
    ((col.zipIdx k).map
        (fun ht => if (oov V ht.1 || decide (C ≤ ht.2)) then (0 : Rat) else f ht.2 ht.1.toNat)).sum
      = ((((col.take (C - k)).zipIdx k).filter (fun ht => Spec.inVocab V ht.1)).map
          (fun ht => f ht.2 ht.1.toNat)).sum := by
  induction col generalizing k with
  | nil => simp
  | cons h col ih =>
    rw [List.zipIdx_cons, List.map_cons, List.sum_cons, ih (k + 1)]
    by_cases hC : C ≤ k
    · have h0 : C - k = 0 := by omega
      have h1 : C - (k + 1) = 0 := by omega
      simp [h0, h1, hC, Rat.add_zero]
    · have h0 : C - k = (C - (k + 1)) + 1 := by omega
      rw [h0, List.take_succ_cons, List.zipIdx_cons, List.filter_cons]
      have hd : decide (C ≤ k) = false := by simpa using hC
      by_cases hv : Spec.inVocab V h = true
      · have ho : oov V h = false := by rw [oov_eq_not_inVocab, hv]; rfl
        simp [hv, ho, hd]
      · have hv' : Spec.inVocab V h = false := by simpa using hv
        have ho : oov V h = true := by rw [oov_eq_not_inVocab, hv']; rfl
        simp [hv', ho, Rat.zero_add]

/-- The mask/fill/gather/fill pipeline, cell by cell. -/
theorem filled_eq (f : Nat → Nat → Rat) (col : List Int) (mask : List Bool)
    (hm : mask.length = col.length) :
    List.zipWith (fun (m : Bool) (x : Rat) => if m then 0 else x) mask
      ((List.zipWith (fun (m : Bool) (h : Int) => if m then 0 else h) mask col).zipIdx.map
        (fun ht => f ht.2 ht.1.toNat))
    = (List.zip mask col).zipIdx.map
        (fun mht => if mht.1.1 then (0 : Rat) else f mht.2 mht.1.2.toNat) := by
  apply List.ext_getElem
  · simp [hm]
  · intro i h1 h2
    simp only [List.getElem_zipWith, List.getElem_map, List.getElem_zipIdx, List.getElem_zip,
      Nat.zero_add]
    split <;> simp_all

theorem colScore_eq_spec (V : Nat) (eos : Option Int) (f : Nat → Nat → Rat) (col : List Int) :
    colScore V eos f col = Spec.seqScore V eos f col := by
  -- the effective cut
  let C : Nat := match eos with
    | none => col.length
    | some e => col.idxOf e + 1
  have hmask : seqMask V eos col
      = col.zipIdx.map (fun ht => oov V ht.1 || decide (C ≤ ht.2)) := by
    unfold seqMask
    apply List.ext_getElem
    · cases eos <;> simp
    · intro i h1 h2
      cases eos with
      | none =>
        have hi : i < col.length := by simpa using h2
        have : ¬ col.length ≤ i := by omega
        simp [C, this]
      | some e =>
        simp [C, lensFromEos_eq_idxOf]
  unfold colScore
  simp only [hmask]
  rw [filled_eq f col _ (by simp)]
  have h3 : (List.zip (col.zipIdx.map (fun ht => oov V ht.1 || decide (C ≤ ht.2))) col).zipIdx.map
        (fun mht => if mht.1.1 then (0 : Rat) else f mht.2 mht.1.2.toNat)
      = (col.zipIdx 0).map
        (fun ht => if (oov V ht.1 || decide (C ≤ ht.2)) then (0 : Rat) else f ht.2 ht.1.toNat) := by
    apply List.ext_getElem
    · simp
    · intro i h1 h2
      simp
  rw [h3, sum_masked_eq V f C col 0]
  unfold Spec.seqScore Spec.cutAtEos
  cases eos with
  | none => simp [C]
  | some e => simp [C]

end PdtVerif.SeqScore
