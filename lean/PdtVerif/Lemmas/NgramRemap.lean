import PdtVerif.Model.NgramFlatCheck
import PdtVerif.Lemmas.NgramTrie
/-!
# `sos → V` does not change the Katz recursion

`_build_trie` renames the start symbol to `V` in every key when it lies outside the
vocabulary, the lookup does the same to the window. On valid tokens (vocabulary ids and the
start symbol) the renaming is injective, so the recursion on the renamed table with the
renamed window equals the recursion on the raw table with the raw window.
-/
namespace PdtVerif.NgramTrie
open PdtVerif.Backoff

/-- A token a history or a key may hold: a vocabulary id or the start symbol. -/
def validTok (V : Nat) (sos : Int) (t : Int) : Prop := (0 ≤ t ∧ t < (V : Int)) ∨ t = sos

instance (V : Nat) (sos : Int) (t : Int) : Decidable (validTok V sos t) := by
  unfold validTok; infer_instance

theorem shiftOf_cases (V : Nat) (sos : Int) :
    (shiftOf V sos = 0 ∧ 0 ≤ sos ∧ sos < (V : Int)) ∨ (shiftOf V sos = 1 ∧ ¬ (0 ≤ sos ∧ sos < (V : Int))) := by
  unfold shiftOf
  by_cases h : 0 ≤ sos ∧ sos < (V : Int)
  · left; simp [h]
  · right; simp [h]

theorem remapTok_ofNat (V : Nat) (sos : Int) (w : Nat) (hw : w < V) :
    remapTok V sos (Int.ofNat w) = Int.ofNat w := by
  unfold remapTok
  rcases shiftOf_cases V sos with ⟨h0, _⟩ | ⟨h1, hn⟩
  · rw [if_neg (fun h => by rw [h0] at h; exact absurd h.1 (by decide))]
  · have : Int.ofNat w ≠ sos := by
      intro e; apply hn; rw [← e]
      exact ⟨Int.natCast_nonneg w, by show (w : Int) < V; exact_mod_cast hw⟩
    rw [if_neg (fun h => this h.2)]

theorem remapTok_inj (V : Nat) (sos : Int) (a b : Int) (ha : validTok V sos a) (hb : validTok V sos b)
    (h : remapTok V sos a = remapTok V sos b) : a = b := by
  unfold remapTok at h
  rcases shiftOf_cases V sos with ⟨h0, _⟩ | ⟨h1, hn⟩
  · simpa [h0] using h
  · simp only [h1, true_and] at h
    unfold validTok at ha hb
    by_cases ea : a = sos <;> by_cases eb : b = sos
    · rw [ea, eb]
    · rw [if_pos ea, if_neg eb] at h
      rcases hb with hb | hb
      · omega
      · exact absurd hb eb
    · rw [if_neg ea, if_pos eb] at h
      rcases ha with ha | ha
      · omega
      · exact absurd ha ea
    · rw [if_neg ea, if_neg eb] at h; exact h

theorem remapTok_dom (V : Nat) (sos : Int) (t : Int) (ht : validTok V sos t) :
    0 ≤ remapTok V sos t ∧ remapTok V sos t < ((V + shiftOf V sos : Nat) : Int) := by
  unfold remapTok
  rcases shiftOf_cases V sos with ⟨h0, hs⟩ | ⟨h1, hn⟩
  · rw [h0]
    simp only [Nat.zero_ne_one, false_and, if_false, Nat.add_zero]
    rcases ht with ht | ht
    · exact ht
    · rw [ht]; exact hs
  · rw [h1]
    simp only [true_and]
    by_cases e : t = sos
    · rw [if_pos e]; push_cast; omega
    · rw [if_neg e]
      rcases ht with ht | ht
      · push_cast; omega
      · exact absurd ht e

theorem ofNat_dom (V : Nat) (sos : Int) (w : Nat) (hw : w < V) :
    0 ≤ Int.ofNat w ∧ Int.ofNat w < ((V + shiftOf V sos : Nat) : Int) := by
  refine ⟨Int.natCast_nonneg w, ?_⟩
  show (w : Int) < _
  push_cast; omega

theorem map_remap_inj (V : Nat) (sos : Int) :
    ∀ (k k' : List Int), (∀ t ∈ k, validTok V sos t) → (∀ t ∈ k', validTok V sos t) →
      k.map (remapTok V sos) = k'.map (remapTok V sos) → k = k'
  | [], [], _, _, _ => rfl
  | [], _ :: _, _, _, h => by simp at h
  | _ :: _, [], _, _, h => by simp at h
  | a :: k, a' :: k', hk, hk', h => by
    simp only [List.map_cons, List.cons.injEq] at h
    have e1 := remapTok_inj V sos a a' (hk a (by simp)) (hk' a' (by simp)) h.1
    have e2 := map_remap_inj V sos k k' (fun t ht => hk t (by simp [ht]))
      (fun t ht => hk' t (by simp [ht])) h.2
    rw [e1, e2]

theorem find?_congr' {α} (p q : α → Bool) : ∀ (l : List α), (∀ x ∈ l, p x = q x) →
    l.find? p = l.find? q
  | [], _ => rfl
  | a :: l, h => by
    simp only [List.find?_cons, h a (by simp)]
    rw [find?_congr' p q l (fun x hx => h x (by simp [hx]))]

theorem ofList_remap (V : Nat) (sos : Int) (items : List (List Int × Entry))
    (hkeys : ∀ e ∈ items, ∀ t ∈ e.1, validTok V sos t) (k : List Int)
    (hk : ∀ t ∈ k, validTok V sos t) :
    ofList (remapTable V sos items) (k.map (remapTok V sos)) = ofList items k := by
  unfold ofList remapTable
  rw [List.find?_map, Option.map_map]
  have hfind : List.find? ((fun e => e.1 == k.map (remapTok V sos)) ∘
        (fun e : List Int × Entry => (e.1.map (remapTok V sos), e.2))) items =
      List.find? (fun e => e.1 == k) items := by
    apply find?_congr'
    intro e he
    simp only [Function.comp]
    by_cases hek : e.1 = k
    · rw [hek]; simp
    · have : e.1.map (remapTok V sos) ≠ k.map (remapTok V sos) :=
        fun h => hek (map_remap_inj V sos _ _ (hkeys e he) hk h)
      rw [beq_eq_false_iff_ne.mpr hek, beq_eq_false_iff_ne.mpr this]
  rw [hfind]
  cases List.find? (fun e => e.1 == k) items <;> rfl

/-- The Katz recursion is invariant under the renaming of the start symbol. -/
theorem bo_remap (V : Nat) (sos : Int) (items : List (List Int × Entry))
    (hkeys : ∀ e ∈ items, ∀ t ∈ e.1, validTok V sos t) (w : Int) (hw : validTok V sos w) :
    ∀ (ctx : List Int), (∀ t ∈ ctx, validTok V sos t) →
      bo (ofList (remapTable V sos items)) (remapTok V sos w) (ctx.map (remapTok V sos)) =
        bo (ofList items) w ctx := by
  have hfin : ∀ k : List Int, (∀ t ∈ k, validTok V sos t) →
      finiteP (ofList (remapTable V sos items)) (k.map (remapTok V sos)) = finiteP (ofList items) k := by
    intro k hk; unfold finiteP; rw [ofList_remap V sos items hkeys k hk]
  have hbeta : ∀ k : List Int, (∀ t ∈ k, validTok V sos t) →
      beta (ofList (remapTable V sos items)) (k.map (remapTok V sos)) = beta (ofList items) k := by
    intro k hk; unfold beta; rw [ofList_remap V sos items hkeys k hk]
  intro ctx
  induction ctx with
  | nil =>
    intro _
    simp only [List.map_nil, bo]
    exact hfin [w] (by simpa using hw)
  | cons c tl ih =>
    intro hctx
    have htl : ∀ t ∈ tl, validTok V sos t := fun t ht => hctx t (by simp [ht])
    have hkey : ∀ t ∈ c :: tl ++ [w], validTok V sos t := by
      intro t ht
      simp only [List.cons_append, List.mem_cons, List.mem_append, List.mem_nil_iff, or_false] at ht
      rcases ht with ht | ht | ht
      · exact hctx t (by simp [ht])
      · exact htl t ht
      · exact ht ▸ hw
    have e1 := hfin (c :: tl ++ [w]) hkey
    have e2 := hbeta (c :: tl) hctx
    simp only [List.map_cons, List.map_append, List.map_nil] at e1 e2
    simp only [List.map_cons, bo]
    rw [e1, e2, ih htl]

end PdtVerif.NgramTrie
