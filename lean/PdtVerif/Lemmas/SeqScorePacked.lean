import PdtVerif.Lemmas.SeqScore
/-! Helper lemmas for the `PackedSequence` path of `sequence_log_probs` (core Lean only). -/
namespace PdtVerif.SeqScore

/-- Offset of step `t` in the packed data: the sum of the earlier batch sizes. -/
def offs (bs : List Nat) (t : Nat) : Nat := (bs.take t).sum

theorem offs_cons_succ (b : Nat) (bs : List Nat) (t : Nat) : offs (b :: bs) (t + 1) = b + offs bs t := by
  simp [offs]

/-- Row-wise work on packed data is step-and-sequence-wise work on the padded data. -/
theorem pack_zipIdx {α β} (Y : Nat → Nat → α) (Z : Nat → Nat → β) (G : Nat → α → β)
    (bs : List Nat) (t0 r0 : Nat)
    (hG : ∀ t i, t < bs.length → i < bs.getD t 0 →
      G (r0 + offs bs t + i) (Y i (t0 + t)) = Z i (t0 + t)) :
    ((packFn Y t0 bs).zipIdx r0).map (fun hr => G hr.2 hr.1) = packFn Z t0 bs := by
  induction bs generalizing t0 r0 with
  | nil => simp [packFn]
  | cons b bs ih =>
    simp only [packFn, List.zipIdx_append, List.map_append, List.length_map, List.length_range]
    congr 1
    · apply List.ext_getElem
      · simp
      · intro i h1 h2
        have hi : i < b := by simpa using h2
        have := hG 0 i (by simp) (by simpa using hi)
        simp only [offs, List.take_zero, List.sum_nil, Nat.add_zero] at this
        simpa using this
    · apply ih (t0 + 1) (r0 + b)
      intro t i ht hi
      have := hG (t + 1) i (by simpa using ht) (by simpa using hi)
      rw [offs_cons_succ] at this
      have e1 : r0 + (b + offs bs t) + i = r0 + b + offs bs t + i := by omega
      have e2 : t0 + (t + 1) = t0 + 1 + t := by omega
      rw [e1, e2] at this
      exact this

/-- `pad_packed_sequence` undoes `pack_padded_sequence` row by row. -/
theorem unpackRow_pack {α} (pad : α) (i : Nat) (Z : Nat → Nat → α) (bs : List Nat) (t0 : Nat)
    (rest : List α) :
    unpackRow pad i bs (packFn Z t0 bs ++ rest)
      = (bs.zipIdx t0).map (fun bt => if i < bt.1 then Z i bt.2 else pad) := by
  induction bs generalizing t0 with
  | nil => simp [unpackRow]
  | cons b bs ih =>
    simp only [packFn, unpackRow, List.zipIdx_cons, List.map_cons, List.append_assoc]
    congr 1
    · by_cases hi : i < b
      · simp [hi, List.getD_eq_getElem?_getD, List.getElem?_append_left, List.getElem?_map,
          List.getElem?_range hi]
      · simp [hi]
    · have : ((List.range b).map (fun i => Z i t0) ++ (packFn Z (t0 + 1) bs ++ rest)).drop b
          = packFn Z (t0 + 1) bs ++ rest := by
        rw [List.drop_append_of_le_length (by simp)]
        simp
      rw [this, ih]

/-- No index outside `[0, n)`: neither `index_select` nor `logits[idx]` raises. -/
theorem idxOob_false (n : Nat) (idx : Option (List Nat))
    (h : ∀ l, idx = some l → ∀ i ∈ l, i < n) : idxOob n idx = false := by
  cases idx with
  | none => rfl
  | some l =>
    rw [idxOob, List.any_eq_false]
    intro i hi
    have := h l rfl i hi
    simp only [decide_eq_true_eq]
    omega

/-- With indices that fit the batch (`sorted_indices` one per sequence of `hyp`, all indices
inside the batch of `batch_sizes[0] = N` sequences) the entry point does not raise an index
error and runs the core on the `N` selected sequences. -/
theorem packed_entry (V N T : Nat) (lsm : Nat → Nat → Rat) (bs : List Nat)
    (sidx uidx : Option (List Nat)) (hyp : Nat → Nat → Int) (hN : bs.head? = some N)
    (hs : ∀ s, sidx = some s → s.length = N ∧ ∀ i ∈ s, i < N)
    (hu : ∀ u, uidx = some u → ∀ j ∈ u, j < N) :
    seqLogProbsPacked V N T lsm bs sidx uidx hyp =
      seqLogProbsPackedCore V N T lsm bs sidx uidx hyp := by
  have hhead : bs.headD 0 = N := by
    cases bs with
    | nil => simp at hN
    | cons b r => simpa using hN
  have hcount : selectedCount N sidx = N := by
    cases sidx with
    | none => rfl
    | some s => exact (hs s rfl).1
  unfold seqLogProbsPacked
  rw [idxOob_false N sidx (fun s h => (hs s h).2), hcount, hhead, idxOob_false N uidx hu]
  simp

end PdtVerif.SeqScore
