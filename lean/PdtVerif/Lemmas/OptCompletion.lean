import PdtVerif.Model.OptCompletion
import PdtVerif.Lemmas.LevRow
import Mathlib.Tactic.Linarith
import Mathlib.Tactic.Ring
import Mathlib.Algebra.Order.Ring.Rat
import Mathlib.Data.List.Sort
/-!
# Lemmas for C03

Part A — the spec level (appendix A4 of DESIGN.md): the column `D[j] = lev (ref.take j) p`, its
minimum `best`, the next column is nowhere below it, the zero-cost diagonal, the characterisation
of targets.
Part B — the `+inf`-carrying sweep of the model agrees with the shared `stepRow` on the valid part.
Part C — loop invariant of `maskLoop`: mask `k` marks exactly `{j < refLen | D[j] = best}`.
Part D — duplicate propagation, sort, neighbour comparison, select = sorted set of marked tokens.
Part E — scatter through the flat buffer = per-row padding.
-/
set_option linter.unusedSectionVars false

namespace PdtVerif.OptCompletion
open PdtVerif.Lev

variable {α : Type} [DecidableEq α]

/-! ## Part A: spec level -/

theorem listMin_le_of_mem {l : List Rat} {a : Rat} (h : a ∈ l) : listMin l ≤ a := by
  induction l with
  | nil => simp at h
  | cons b l ih =>
    cases l with
    | nil => simp at h; simp [listMin, h]
    | cons b' l =>
      simp only [listMin]
      rcases List.mem_cons.mp h with rfl | h'
      · exact min_le_left _ _
      · exact le_trans (min_le_right _ _) (ih h')

theorem listMin_mem {l : List Rat} (h : l ≠ []) : listMin l ∈ l := by
  induction l with
  | nil => exact absurd rfl h
  | cons b l ih =>
    cases l with
    | nil => simp [listMin]
    | cons b' l =>
      simp only [listMin]
      rcases min_choice b (listMin (b' :: l)) with e | e
      · rw [e]; exact List.mem_cons_self
      · rw [e]; exact List.mem_cons_of_mem _ (ih (by simp))

theorem le_listMin {l : List Rat} {m : Rat} (hne : l ≠ []) (h : ∀ a ∈ l, m ≤ a) : m ≤ listMin l :=
  h _ (listMin_mem hne)

theorem prefixDists_length (c : Costs) (ref p : List α) :
    (prefixDists c ref p).length = ref.length + 1 := by
  simp [prefixDists]

theorem prefixDists_ne_nil (c : Costs) (ref p : List α) : prefixDists c ref p ≠ [] := by
  intro h
  have := prefixDists_length c ref p
  rw [h] at this
  simp at this

theorem mem_prefixDists {c : Costs} {ref p : List α} {a : Rat} :
    a ∈ prefixDists c ref p ↔ ∃ j, j ≤ ref.length ∧ lev c (ref.take j) p = a := by
  simp only [prefixDists, List.mem_map, List.mem_range]
  constructor
  · rintro ⟨j, hj, rfl⟩; exact ⟨j, by omega, rfl⟩
  · rintro ⟨j, hj, rfl⟩; exact ⟨j, by omega, rfl⟩

/-- The shared spec row `levRow` is `prefixDists`. -/
theorem levRow_eq_prefixDists (c : Costs) (ref p : List α) : levRow c ref p = prefixDists c ref p := by
  apply List.ext_getElem?
  intro j
  by_cases hj : j ≤ ref.length
  · rw [levRow_getElem? c ref p j hj]
    simp [prefixDists, Nat.lt_succ_of_le hj]
  · have h1 : (levRow c ref p).length ≤ j := by rw [levRow_length]; omega
    have h2 : (prefixDists c ref p).length ≤ j := by rw [prefixDists_length]; omega
    rw [List.getElem?_eq_none h1, List.getElem?_eq_none h2]

/-- `best` is a lower bound of the column. -/
theorem best_le (c : Costs) (ref p : List α) {j : Nat} (hj : j ≤ ref.length) :
    best c ref p ≤ lev c (ref.take j) p :=
  listMin_le_of_mem (mem_prefixDists.mpr ⟨j, hj, rfl⟩)

/-- `best` is an entry of the column. -/
theorem best_attained (c : Costs) (ref p : List α) :
    ∃ j, j ≤ ref.length ∧ lev c (ref.take j) p = best c ref p :=
  mem_prefixDists.mp (listMin_mem (prefixDists_ne_nil c ref p))

theorem subCost_nonneg (c : Costs) (hs : 0 ≤ c.sub) (x y : α) : 0 ≤ subCost c x y := by
  unfold subCost; split <;> simp [hs]

theorem take_succ_eq_snoc (ref : List α) (j : Nat) (hj : j < ref.length) :
    ref.take (j + 1) = ref.take j ++ [ref[j]] :=
  List.take_succ_eq_append_getElem hj

/-- (A4 i) **Every entry of the next column is at least the minimum of the current one**
(non-negative costs). -/
theorem row_lower (c : Costs) (hi : 0 ≤ c.ins) (hd : 0 ≤ c.del) (hs : 0 ≤ c.sub)
    (ref p : List α) (t : α) (j : Nat) (hj : j ≤ ref.length) :
    best c ref p ≤ lev c (ref.take j) (p ++ [t]) := by
  induction j with
  | zero =>
    have h0 := best_le c ref p (Nat.zero_le _)
    simp only [List.take_zero] at h0 ⊢
    rw [lev_snoc_right_nil]
    linarith
  | succ j ih =>
    have hj' : j < ref.length := by omega
    rw [take_succ_eq_snoc ref j hj', lev_snoc]
    have h1 := ih (by omega)
    have h2 := best_le c ref p hj
    rw [take_succ_eq_snoc ref j hj'] at h2
    have h3 := best_le c ref p (Nat.le_of_lt hj')
    have h4 := subCost_nonneg c hs ref[j] t
    refine le_min (le_min ?_ ?_) ?_ <;> linarith

theorem best_mono_snoc (c : Costs) (hi : 0 ≤ c.ins) (hd : 0 ≤ c.del) (hs : 0 ≤ c.sub)
    (ref p : List α) (t : α) : best c ref p ≤ best c ref (p ++ [t]) := by
  apply le_listMin (prefixDists_ne_nil _ _ _)
  intro a ha
  obtain ⟨j, hj, rfl⟩ := mem_prefixDists.mp ha
  exact row_lower c hi hd hs ref p t j hj

theorem best_mono_append (c : Costs) (hi : 0 ≤ c.ins) (hd : 0 ≤ c.del) (hs : 0 ≤ c.sub)
    (ref p cmpl : List α) : best c ref p ≤ best c ref (p ++ cmpl) := by
  induction cmpl generalizing p with
  | nil => simp
  | cons t cmpl ih =>
    have := ih (p ++ [t])
    rw [List.append_assoc, List.singleton_append] at this
    exact le_trans (best_mono_snoc c hi hd hs ref p t) this

/-- (A4 i') no completion beats the column minimum. -/
theorem best_le_completion (c : Costs) (hi : 0 ≤ c.ins) (hd : 0 ≤ c.del) (hs : 0 ≤ c.sub)
    (ref p cmpl : List α) : best c ref p ≤ lev c ref (p ++ cmpl) := by
  have h := best_le c ref (p ++ cmpl) (Nat.le_refl ref.length)
  rw [List.take_length] at h
  exact le_trans (best_mono_append c hi hd hs ref p cmpl) h

/-- All-keep script. -/
def keepAll (s : List α) : List (Edit α) := s.map Edit.keep

theorem aligns_keepAll (s : List α) : Aligns (keepAll s) s s := by
  induction s with
  | nil => exact .nil
  | cons x s ih => exact .keep x ih

theorem scriptCost_keepAll (c : Costs) (s : List α) : scriptCost c (keepAll s) = 0 := by
  induction s with
  | nil => simp [keepAll]
  | cons x s ih =>
    simp only [keepAll, List.map_cons, scriptCost_cons, Edit.cost] at ih ⊢
    linarith

/-- (A4 ii) the zero-cost diagonal: appending the same suffix to both strings cannot raise the
distance. No sign condition. -/
theorem lev_append_same_le (c : Costs) (r p s : List α) : lev c (r ++ s) (p ++ s) ≤ lev c r p := by
  obtain ⟨s1, a1, e1⟩ := lev_attained c r p
  have a := a1.append (aligns_keepAll s)
  have h := lev_le_scriptCost c a
  rw [scriptCost_append, scriptCost_keepAll, e1] at h
  linarith

/-- **`best` is the smallest edit distance a completion can still reach** (non-negative costs):
it is a lower bound for every completion and attained by completing with the remaining reference
suffix after a minimal column position. -/
theorem isBest_best (c : Costs) (hi : 0 ≤ c.ins) (hd : 0 ≤ c.del) (hs : 0 ≤ c.sub)
    (ref p : List α) : IsBest c ref p (best c ref p) := by
  refine ⟨?_, fun cmpl => best_le_completion c hi hd hs ref p cmpl⟩
  obtain ⟨j, _, e⟩ := best_attained c ref p
  refine ⟨ref.drop j, le_antisymm ?_ (best_le_completion c hi hd hs ref p _)⟩
  have h := lev_append_same_le c (ref.take j) p (ref.drop j)
  rw [List.take_append_drop] at h
  linarith

theorem IsBest.unique {c : Costs} {ref p : List α} {m m' : Rat}
    (h : IsBest c ref p m) (h' : IsBest c ref p m') : m = m' := by
  obtain ⟨⟨c1, e1⟩, l1⟩ := h
  obtain ⟨⟨c2, e2⟩, l2⟩ := h'
  have := l1 c2
  have := l2 c1
  linarith

/-- (A4 iii) a minimal column position followed by `t` in the reference makes `t` a target. -/
theorem isTarget_of_pos (c : Costs) (hi : 0 ≤ c.ins) (hd : 0 ≤ c.del) (hs : 0 ≤ c.sub)
    (ref p : List α) (j : Nat) (hj : j < ref.length)
    (hm : lev c (ref.take j) p = best c ref p) : IsTarget c ref p ref[j] := by
  unfold IsTarget
  apply le_antisymm _ (best_mono_snoc c hi hd hs ref p _)
  have h := best_le c ref (p ++ [ref[j]]) (j := j + 1) (by omega)
  rw [take_succ_eq_snoc ref j hj, lev_snoc] at h
  have h3 : min (min (lev c (ref.take j) (p ++ [ref[j]]) + c.del) (lev c (ref.take j ++ [ref[j]]) p + c.ins))
      (lev c (ref.take j) p + subCost c ref[j] ref[j]) ≤ lev c (ref.take j) p + subCost c ref[j] ref[j] :=
    min_le_right _ _
  simp only [subCost, if_true] at h3
  simp only [subCost, if_true] at h
  linarith

/-- (A4 iv) for strictly positive costs a target must follow a minimal column position. -/
theorem pos_of_isTarget (c : Costs) (hi : 0 < c.ins) (hd : 0 < c.del) (hs : 0 < c.sub)
    (ref p : List α) (t : α) (ht : IsTarget c ref p t) :
    ∃ j, ∃ hj : j < ref.length, lev c (ref.take j) p = best c ref p ∧ ref[j] = t := by
  unfold IsTarget at ht
  obtain ⟨j, hj, e⟩ := best_attained c ref (p ++ [t])
  rw [ht] at e
  cases j with
  | zero =>
    exfalso
    have h0 := best_le c ref p (Nat.zero_le _)
    simp only [List.take_zero] at e h0
    rw [lev_snoc_right_nil] at e
    linarith
  | succ j =>
    have hj' : j < ref.length := by omega
    rw [take_succ_eq_snoc ref j hj', lev_snoc] at e
    have h1 := row_lower c hi.le hd.le hs.le ref p t j (by omega)
    have h2 := best_le c ref p hj
    rw [take_succ_eq_snoc ref j hj'] at h2
    have h3 := best_le c ref p (Nat.le_of_lt hj')
    have h4 := subCost_nonneg c hs.le ref[j] t
    refine ⟨j, hj', ?_⟩
    rcases min_choice (min (lev c (ref.take j) (p ++ [t]) + c.del) (lev c (ref.take j ++ [ref[j]]) p + c.ins))
        (lev c (ref.take j) p + subCost c ref[j] t) with hm | hm
    · exfalso
      rw [hm] at e
      rcases min_choice (lev c (ref.take j) (p ++ [t]) + c.del) (lev c (ref.take j ++ [ref[j]]) p + c.ins)
        with hm2 | hm2
      · rw [hm2] at e; linarith
      · rw [hm2] at e; linarith
    · rw [hm] at e
      have hz : subCost c ref[j] t = 0 := by linarith
      constructor
      · linarith
      · by_contra hne
        simp only [subCost, hne, if_false] at hz
        linarith

end PdtVerif.OptCompletion

namespace PdtVerif.OptCompletion
open PdtVerif.Lev

/-! ## Part B: the `+inf`-carrying sweep agrees with the shared `stepRow` on the valid part -/

/-! The sequential ("sweep") form of the DP step on `ERat` rows — the loop in the code's comment
`for i: v[i] = min(v[i], v[i-1] + d)`; same shape as the shared `Lev.sweep`. Used only in proofs:
`stepRowDM_eq` shows the model's vectorised step equals it. -/

/-- Sequential sweep over the reference for one hypothesis token `y`: `diag = last[j]`,
`ups = last[j+1..]`, `left = new[j]`; emits `new[j+1..]`. Same shape as `Lev.sweep`, on `ERat`. -/
def sweepE (c : Costs) (y : Int) : List Int → ERat → List ERat → ERat → List ERat
  | x :: xs, diag, up :: rest, left =>
    let cell := emin (emin (eadd left c.del) (eadd up c.ins)) (eadd diag (subCost c x y))
    cell :: sweepE c y xs up rest cell
  | _, _, _, _ => []

def stepRowE (c : Costs) (ref : List Int) (y : Int) (row : List ERat) : List ERat :=
  match row with
  | [] => []
  | d0 :: rest => eadd d0 c.ins :: sweepE c y ref d0 rest (eadd d0 c.ins)


@[simp] theorem eadd_some (a q : Rat) : eadd (some a) q = some (a + q) := rfl
@[simp] theorem emin_some (a b : Rat) : emin (some a) (some b) = some (min a b) := rfl
@[simp] theorem emin_none_right (a : ERat) : emin a none = a := by cases a <;> rfl
@[simp] theorem emin_none_left (a : ERat) : emin none a = a := by cases a <;> rfl

theorem sweepE_map_some (c : Costs) (y : Int) (xs : List Int) (d : Rat) (ups : List Rat) (l : Rat) :
    sweepE c y xs (some d) (ups.map some) (some l) = (sweep c y xs d ups l).map some := by
  induction xs generalizing d ups l with
  | nil => simp [sweepE, sweep]
  | cons x xs ih =>
    cases ups with
    | nil => simp [sweepE, sweep]
    | cons up rest =>
      simp only [List.map_cons, sweepE, sweep, eadd_some, emin_some]
      rw [ih]

theorem stepRowE_map_some (c : Costs) (ref : List Int) (y : Int) (row : List Rat) :
    stepRowE c ref y (row.map some) = (stepRow c ref y row).map some := by
  cases row with
  | nil => simp [stepRowE, stepRow]
  | cons d0 rest =>
    simp only [List.map_cons, stepRowE, stepRow, eadd_some]
    rw [sweepE_map_some]

theorem sweepE_take (c : Costs) (y : Int) (n : Nat) (xs : List Int) (d : ERat) (ups : List ERat)
    (l : ERat) :
    (sweepE c y xs d ups l).take n = sweepE c y (xs.take n) d (ups.take n) l := by
  induction n generalizing xs d ups l with
  | zero => simp [sweepE]
  | succ n ih =>
    cases xs with
    | nil => simp [sweepE]
    | cons x xs =>
      cases ups with
      | nil => simp [sweepE]
      | cons up rest =>
        simp only [sweepE, List.take_succ_cons]
        rw [ih]

theorem stepRowE_take (c : Costs) (ref : List Int) (y : Int) (row : List ERat) (L : Nat) :
    (stepRowE c ref y row).take (L + 1) = stepRowE c (ref.take L) y (row.take (L + 1)) := by
  cases row with
  | nil => simp [stepRowE]
  | cons d0 rest =>
    simp only [stepRowE, List.take_succ_cons]
    rw [sweepE_take]

theorem sweepE_length (c : Costs) (y : Int) (xs : List Int) (d : ERat) (ups : List ERat) (l : ERat) :
    (sweepE c y xs d ups l).length = min xs.length ups.length := by
  induction xs generalizing d ups l with
  | nil => simp [sweepE]
  | cons x xs ih =>
    cases ups with
    | nil => simp [sweepE]
    | cons up rest => simp only [sweepE, List.length_cons, ih]; omega

theorem stepRowE_length (c : Costs) (ref : List Int) (y : Int) (row : List ERat)
    (h : row.length = ref.length + 1) : (stepRowE c ref y row).length = ref.length + 1 := by
  cases row with
  | nil => simp at h
  | cons d0 rest =>
    simp only [stepRowE, List.length_cons, sweepE_length]
    simp only [List.length_cons] at h
    omega

/-! ### the vectorised deletion equals the sequential sweep (A1, on rows with `+inf`) -/

/-- sequential form: `s' = min(s + d, v)` -/
def scanDel (d : Rat) : ERat → List ERat → List ERat
  | _, [] => []
  | s, v :: vs => emin (eadd s d) v :: scanDel d (emin (eadd s d) v) vs

theorem emin_assoc (a b c : ERat) : emin (emin a b) c = emin a (emin b c) := by
  cases a <;> cases b <;> cases c <;> simp [emin, min_assoc]

theorem eadd_emin (a b : ERat) (q : Rat) : eadd (emin a b) q = emin (eadd a q) (eadd b q) := by
  cases a <;> cases b <;> simp [emin, eadd, min_add_add_right]

theorem eadd_eadd (a : ERat) (p q : Rat) : eadd (eadd a p) q = eadd a (p + q) := by
  cases a <;> simp [eadd, add_assoc]

theorem eadd_zero (a : ERat) : eadd a 0 = a := by
  cases a <;> simp [eadd]

theorem sweepE_eq_scan (c : Costs) (y : Int) (xs : List Int) (diag : ERat) (ups : List ERat)
    (left : ERat) :
    sweepE c y xs diag ups left = scanDel c.del left (candTail c y xs diag ups) := by
  induction xs generalizing diag ups left with
  | nil => simp [sweepE, candTail, scanDel]
  | cons x xs ih =>
    cases ups with
    | nil => simp [sweepE, candTail, scanDel]
    | cons up rest =>
      simp only [sweepE, candTail, scanDel, emin_assoc]
      rw [ih]

theorem foldl_emin_map_eadd (l : List ERat) (q : Rat) (a : ERat) :
    (l.map (fun x => eadd x q)).foldl emin (eadd a q) = eadd (l.foldl emin a) q := by
  induction l generalizing a with
  | nil => rfl
  | cons b l ih =>
    simp only [List.map_cons, List.foldl_cons]
    rw [← eadd_emin, ih]

theorem delMatEntry_zero (d : Rat) (v : List ERat) : delMatEntry d v 0 = v.getD 0 none := by
  simp [delMatEntry, eadd_zero]

theorem delMatEntry_succ (d : Rat) (v : List ERat) (i : Nat) :
    delMatEntry d v (i + 1) = emin (eadd (delMatEntry d v i) d) (v.getD (i + 1) none) := by
  unfold delMatEntry
  rw [List.range_succ (n := i + 1), List.map_append, List.foldl_append]
  simp only [List.map_cons, List.map_nil, List.foldl_cons, List.foldl_nil, Nat.sub_self,
    Nat.cast_zero, mul_zero, eadd_zero]
  congr 1
  have : (none : ERat) = eadd none d := rfl
  rw [this, ← foldl_emin_map_eadd, List.map_map]
  congr 1
  apply List.map_congr_left
  intro j hj
  have hj' : j ≤ i := by simpa [Nat.lt_succ_iff] using hj
  simp only [Function.comp, eadd_eadd]
  congr 1
  have : i + 1 - j = (i - j) + 1 := by omega
  rw [this]; push_cast; ring

theorem scan_eq_delMat (d : Rat) (V : List ERat) (n : Nat) :
    ∀ i, i + 1 + n = V.length →
      scanDel d (delMatEntry d V i) (V.drop (i + 1))
        = (List.range' (i + 1) n).map (delMatEntry d V) := by
  induction n with
  | zero =>
    intro i hi
    rw [List.drop_eq_nil_of_le (by omega)]
    rfl
  | succ n ih =>
    intro i hi
    have hlt : i + 1 < V.length := by omega
    rw [List.drop_eq_getElem_cons hlt]
    simp only [scanDel, List.range'_succ, List.map_cons]
    have e : emin (eadd (delMatEntry d V i) d) V[i + 1] = delMatEntry d V (i + 1) := by
      rw [delMatEntry_succ, List.getD_eq_getElem?_getD, List.getElem?_eq_getElem hlt]; rfl
    rw [e, ih (i + 1) (by omega)]

theorem delMatMin_cons (d : Rat) (v0 : ERat) (vs : List ERat) :
    delMatMin d (v0 :: vs) = v0 :: scanDel d v0 vs := by
  unfold delMatMin
  rw [List.length_cons, List.range_eq_range', List.range'_succ, List.map_cons, delMatEntry_zero]
  have := scan_eq_delMat d (v0 :: vs) vs.length 0 (by simp; omega)
  rw [delMatEntry_zero] at this
  simp only [List.getD_cons_zero, Nat.zero_add, List.drop_succ_cons, List.drop_zero] at this
  rw [this]
  simp

/-- **The vectorised deletion `(del_mat + v).min(1)` is the sequential sweep** (the claim in the
code's comment), on rows that may contain `+inf`. -/
theorem stepRowDM_eq (c : Costs) (ref : List Int) (y : Int) (last : List ERat) :
    stepRowDM c ref y last = stepRowE c ref y last := by
  cases last with
  | nil => simp [stepRowDM, candRow, delMatMin, stepRowE]
  | cons d0 rest =>
    simp only [stepRowDM, candRow, stepRowE]
    rw [delMatMin_cons, sweepE_eq_scan]


theorem maskFill_length (L : Nat) (row : List ERat) : (maskFill L row).length = row.length := by
  simp only [maskFill, List.length_append, List.length_take, List.length_replicate]
  omega

theorem maskFill_take (L : Nat) (row : List ERat) :
    (maskFill L row).take (L + 1) = row.take (L + 1) := by
  unfold maskFill
  by_cases h : L + 1 ≤ row.length
  · exact List.take_left' (by simp; omega)
  · have : row.length - (L + 1) = 0 := by omega
    rw [this]
    simp [List.take_take]

theorem listMin_cons_min (a b : Rat) (l : List Rat) :
    listMin (min a b :: l) = min a (listMin (b :: l)) := by
  cases l with
  | nil => simp [listMin]
  | cons b' l => simp only [listMin]; exact min_assoc a b _

theorem foldl_min_eq_listMin (a : Rat) (l : List Rat) : l.foldl min a = listMin (a :: l) := by
  induction l generalizing a with
  | nil => simp [listMin]
  | cons b l ih =>
    simp only [List.foldl_cons]
    rw [ih, listMin_cons_min]
    simp [listMin]

theorem foldl_emin_some (a : Rat) (l : List Rat) :
    (l.map some).foldl emin (some a) = some (l.foldl min a) := by
  induction l generalizing a with
  | nil => rfl
  | cons b l ih => simp only [List.map_cons, List.foldl_cons, emin_some, ih]

theorem foldl_emin_replicate_none (x : ERat) (n : Nat) :
    (List.replicate n none).foldl emin x = x := by
  induction n with
  | zero => rfl
  | succ n ih => simp [List.replicate_succ, ih]

/-- `row.min(0)` of a row whose finite part is `l` and whose masked part is `+inf`. -/
theorem rowMinE_fin (l : List Rat) (hl : l ≠ []) (n : Nat) :
    rowMinE (l.map some ++ List.replicate n none) = some (listMin l) := by
  cases l with
  | nil => exact absurd rfl hl
  | cons a l =>
    simp only [rowMinE, List.map_cons, List.cons_append, List.foldl_cons, emin_none_left,
      List.foldl_append, foldl_emin_some, foldl_emin_replicate_none, foldl_min_eq_listMin]

end PdtVerif.OptCompletion

namespace PdtVerif.OptCompletion
open PdtVerif.Lev

/-! ## Part C: the loop of `_string_matching(return_mask=True)` -/

/-- Last prefix length whose DP row the loop computes (`not_done` holds up to here). -/
def lastK (excl : Bool) (hypLen : Nat) : Nat := if excl then hypLen - 1 else hypLen

theorem notDone_iff (excl : Bool) (hypLen k : Nat) (hk : 1 ≤ k) :
    notDone excl hypLen k = true ↔ k ≤ lastK excl hypLen := by
  unfold notDone lastK
  cases excl
  · simp
  · simp; omega

theorem lastK_le (excl : Bool) (hypLen : Nat) : lastK excl hypLen ≤ hypLen := by
  unfold lastK; cases excl <;> simp

/-- Invariant of the carried row before iteration `k + 1`. -/
def RowInv (c : Costs) (excl : Bool) (ref hyp : List Int) (refLen hypLen k : Nat)
    (row : List ERat) : Prop :=
  row.length = ref.length + 1 ∧
  row.take (refLen + 1)
    = (prefixDists c (ref.take refLen) (hyp.take (min k (lastK excl hypLen)))).map some

theorem getD_fin (l : List Rat) (n j : Nat) :
    (l.map some ++ List.replicate n (none : ERat)).getD j none = l[j]? := by
  rw [List.getD_eq_getElem?_getD]
  by_cases h : j < l.length
  · rw [List.getElem?_append_left (by simpa using h)]
    simp [h]
  · rw [List.getElem?_append_right (by simpa using h)]
    have : l[j]? = none := List.getElem?_eq_none (by omega)
    rw [this]
    cases hv : (List.replicate n (none : ERat))[j - (l.map some).length]? with
    | none => rfl
    | some v =>
      have := List.mem_of_getElem? hv
      simp only [List.mem_replicate] at this
      rw [this.2]; rfl

theorem prefixDists_getElem? (c : Costs) (ref p : List Int) (j : Nat) :
    (prefixDists c ref p)[j]? = if j ≤ ref.length then some (lev c (ref.take j) p) else none := by
  unfold prefixDists
  by_cases h : j ≤ ref.length
  · simp [h, Nat.lt_succ_of_le h]
  · simp [h]; omega

theorem rowInv_base (c : Costs) (excl : Bool) (ref hyp : List Int) (refLen hypLen : Nat)
    (hr : refLen ≤ ref.length) :
    RowInv c excl ref hyp refLen hypLen 0 ((row0 c ref).map some) := by
  refine ⟨by simp [row0], ?_⟩
  rw [← List.map_take]
  congr 1
  have h1 : (row0 c ref).take (refLen + 1) = row0 c (ref.take refLen) := by
    simp only [row0, ← List.map_take, List.take_range, List.length_take]
    rw [Nat.min_eq_left (by omega), Nat.min_eq_left hr]
  rw [h1, row0_eq, levRow_eq_prefixDists]
  simp

theorem costs_eta (c : Costs) : ({ c with ins := c.ins } : Costs) = c := by cases c; rfl

theorem take_pred_snoc (hyp : List Int) (k : Nat) (hk : 1 ≤ k) (hl : k ≤ hyp.length) :
    hyp.take (k - 1) ++ [hyp.getD (k - 1) 0] = hyp.take k := by
  obtain ⟨k', rfl⟩ : ∃ k', k = k' + 1 := ⟨k - 1, by omega⟩
  have h : k' < hyp.length := by omega
  simp only [Nat.add_sub_cancel]
  rw [List.take_succ_eq_append_getElem h, List.getD_eq_getElem?_getD, List.getElem?_eq_getElem h]
  rfl

/-- One live iteration (`not_done`): the invariant advances and `row_mask` marks exactly the
positions `j ≤ refLen` of the column of `hyp.take k` that carry its minimum. -/
theorem maskStep_live (c : Costs) (excl : Bool) (ref hyp : List Int) (refLen hypLen k : Nat)
    (row : List ERat) (hr : refLen ≤ ref.length) (hh : hypLen ≤ hyp.length) (hk : 1 ≤ k)
    (hlive : k ≤ lastK excl hypLen)
    (inv : RowInv c excl ref hyp refLen hypLen (k - 1) row) :
    RowInv c excl ref hyp refLen hypLen k (maskStep c excl ref hyp refLen hypLen k row).1 ∧
    ∀ j, j < ref.length →
      (((maskStep c excl ref hyp refLen hypLen k row).2.getD j false = true) ↔
        (j ≤ refLen ∧ lev c ((ref.take refLen).take j) (hyp.take k)
            = best c (ref.take refLen) (hyp.take k))) := by
  have hK := lastK_le excl hypLen
  have hnd : notDone excl hypLen k = true := (notDone_iff excl hypLen k hk).mpr hlive
  have hc : ({ c with ins := if k ≤ hypLen then c.ins else 0 } : Costs) = c := by
    rw [if_pos (by omega)]
  obtain ⟨hlen, htake⟩ := inv
  rw [Nat.min_eq_left (by omega)] at htake
  -- the valid part of the new row
  have hnew : (stepRowE c ref (hyp.getD (k - 1) 0) row).take (refLen + 1)
      = (prefixDists c (ref.take refLen) (hyp.take k)).map some := by
    rw [stepRowE_take, htake, stepRowE_map_some, ← levRow_eq_prefixDists, stepRow_levRow,
      take_pred_snoc hyp k hk (by omega), levRow_eq_prefixDists]
  have hlen' : (stepRowE c ref (hyp.getD (k - 1) 0) row).length = ref.length + 1 :=
    stepRowE_length c ref _ row hlen
  have hrow2 : maskFill refLen (stepRowE c ref (hyp.getD (k - 1) 0) row)
      = (prefixDists c (ref.take refLen) (hyp.take k)).map some
        ++ List.replicate (ref.length + 1 - (refLen + 1)) none := by
    unfold maskFill; rw [hnew, hlen']
  simp only [maskStep, hnd, hc, if_true, stepRowDM_eq]
  refine ⟨⟨by rw [maskFill_length]; exact hlen', ?_⟩, ?_⟩
  · rw [maskFill_take, hnew, Nat.min_eq_left hlive]
  · intro j hj
    rw [hrow2, rowMinE_fin _ (prefixDists_ne_nil _ _ _)]
    rw [List.getD_eq_getElem?_getD, List.getElem?_map, List.getElem?_range hj]
    simp only [Option.map_some, Option.getD_some, Bool.and_true, getD_fin, prefixDists_getElem?,
      List.length_take, Nat.min_eq_left hr]
    unfold best
    by_cases hjl : j ≤ refLen
    · simp [hjl]
    · simp [hjl]

/-- One frozen iteration (`not_done` false): nothing changes and nothing is marked. -/
theorem maskStep_done (c : Costs) (excl : Bool) (ref hyp : List Int) (refLen hypLen k : Nat)
    (row : List ERat) (hk : 1 ≤ k) (hdone : ¬ k ≤ lastK excl hypLen)
    (inv : RowInv c excl ref hyp refLen hypLen (k - 1) row) :
    RowInv c excl ref hyp refLen hypLen k (maskStep c excl ref hyp refLen hypLen k row).1 ∧
    ∀ j, (maskStep c excl ref hyp refLen hypLen k row).2.getD j false = false := by
  have hnd : notDone excl hypLen k = false := by
    rw [← Bool.not_eq_true, notDone_iff excl hypLen k hk]; exact hdone
  obtain ⟨hlen, htake⟩ := inv
  simp only [maskStep, hnd, Bool.false_eq_true, if_false, Bool.and_false]
  refine ⟨⟨by rw [maskFill_length]; exact hlen, ?_⟩, ?_⟩
  · rw [maskFill_take, htake, Nat.min_eq_right (by omega), Nat.min_eq_right (by omega)]
  · intro j
    rw [List.getD_eq_getElem?_getD]
    by_cases hj : j < ref.length
    · simp [hj]
    · rw [List.getElem?_eq_none (by simpa using hj)]; rfl

end PdtVerif.OptCompletion

namespace PdtVerif.OptCompletion
open PdtVerif.Lev

theorem maskLoop_spec (c : Costs) (excl : Bool) (ref hyp : List Int) (refLen hypLen : Nat)
    (hr : refLen ≤ ref.length) (hh : hypLen ≤ hyp.length) (n : Nat) :
    ∀ (k : Nat) (row : List ERat), 1 ≤ k → RowInv c excl ref hyp refLen hypLen (k - 1) row →
      ∀ i, i < n → ∀ j, j < ref.length →
        ((((maskLoop c excl ref hyp refLen hypLen n k row).getD i []).getD j false = true) ↔
          (k + i ≤ lastK excl hypLen ∧ j ≤ refLen ∧
            lev c ((ref.take refLen).take j) (hyp.take (k + i))
              = best c (ref.take refLen) (hyp.take (k + i)))) := by
  induction n with
  | zero => intro k row _ _ i hi; omega
  | succ n ih =>
    intro k row hk inv i hi j hj
    simp only [maskLoop]
    by_cases hlive : k ≤ lastK excl hypLen
    · obtain ⟨inv', hm⟩ := maskStep_live c excl ref hyp refLen hypLen k row hr hh hk hlive inv
      cases i with
      | zero =>
        simp only [List.getD_cons_zero, Nat.add_zero]
        rw [hm j hj]
        simp [hlive]
      | succ i =>
        simp only [List.getD_cons_succ]
        have := ih (k + 1) _ (by omega) (by simpa using inv') i (by omega) j hj
        rw [this]
        have e : k + 1 + i = k + (i + 1) := by omega
        rw [e]
    · obtain ⟨inv', hm⟩ := maskStep_done c excl ref hyp refLen hypLen k row hk hlive inv
      cases i with
      | zero =>
        simp only [List.getD_cons_zero, Nat.add_zero]
        rw [hm j]
        simp [hlive]
      | succ i =>
        simp only [List.getD_cons_succ]
        have := ih (k + 1) _ (by omega) (by simpa using inv') i (by omega) j hj
        rw [this]
        have e : k + 1 + i = k + (i + 1) := by omega
        rw [e]

theorem maskLoop_length (c : Costs) (excl : Bool) (ref hyp : List Int) (refLen hypLen : Nat)
    (n k : Nat) (row : List ERat) : (maskLoop c excl ref hyp refLen hypLen n k row).length = n := by
  induction n generalizing k row with
  | zero => rfl
  | succ n ih => simp [maskLoop, ih]

theorem andLt_getD (refLen : Nat) (m : List Bool) (j : Nat) :
    (andLt refLen m).getD j false = (m.getD j false && decide (j < refLen)) := by
  unfold andLt
  rw [List.getD_eq_getElem?_getD, List.getD_eq_getElem?_getD]
  by_cases hj : j < m.length
  · rw [List.getElem?_map, List.getElem?_range hj]
    simp [hj]
  · rw [List.getElem?_eq_none (by simpa using hj), List.getElem?_eq_none (by omega)]
    rfl

theorem getD_map_andLt (refLen : Nat) (ms : List (List Bool)) (k : Nat) :
    (ms.map (andLt refLen)).getD k [] = andLt refLen (ms.getD k []) := by
  rw [List.getD_eq_getElem?_getD, List.getD_eq_getElem?_getD, List.getElem?_map]
  cases ms[k]? <;> rfl

theorem best_nil (c : Costs) (hd : 0 ≤ c.del) (ref : List Int) : best c ref [] = 0 := by
  apply le_antisymm
  · have := best_le c ref [] (Nat.zero_le ref.length)
    simpa [lev_nil_right] using this
  · apply le_listMin (prefixDists_ne_nil _ _ _)
    intro a ha
    obtain ⟨j, _, rfl⟩ := mem_prefixDists.mp ha
    rw [lev_nil_right]
    exact mul_nonneg hd (by exact_mod_cast Nat.zero_le _)

/-- **What `_string_matching(return_mask=True)` returns for one column**: entry `(k, j)` is set
exactly when `j < refLen` is a position of the column of `hyp.take k` (against the cut reference)
that carries the column's minimum — for `k = 0` and for every `k` with `not_done`. -/
theorem colMasks_spec (c : Costs) (excl : Bool) (ref hyp : List Int) (refLen hypLen : Nat)
    (hdel : 0 < c.del) (hr : refLen ≤ ref.length) (hh : hypLen ≤ hyp.length)
    (k : Nat) (hk : k ≤ nIter excl hyp.length) (j : Nat) (hj : j < ref.length) :
    ((((colMasks c excl ref hyp refLen hypLen).getD k []).getD j false = true) ↔
      ((k = 0 ∨ k ≤ lastK excl hypLen) ∧ j < refLen ∧
        lev c ((ref.take refLen).take j) (hyp.take k) = best c (ref.take refLen) (hyp.take k))) := by
  unfold colMasks
  rw [getD_map_andLt]
  cases k with
  | zero =>
    simp only [List.getD_cons_zero, andLt_getD, mask0,
      List.take_zero, lev_nil_right, best_nil c hdel.le]
    rw [List.getD_eq_getElem?_getD, List.getElem?_map, List.getElem?_range hj]
    simp only [Option.map_some, Option.getD_some, Bool.and_eq_true, decide_eq_true_eq, true_or,
      true_and, List.length_take, Nat.min_eq_left hr]
    constructor
    · rintro ⟨⟨rfl, h0⟩, _⟩
      exact ⟨h0, by simp⟩
    · rintro ⟨hlt, hz⟩
      have hz' : (c.del) * ((min j refLen : Nat) : Rat) = 0 := hz
      rw [Nat.min_eq_left (by omega)] at hz'
      rcases mul_eq_zero.mp hz' with h | h
      · linarith
      · have : j = 0 := by exact_mod_cast h
        exact ⟨⟨this, by omega⟩, hlt⟩
  | succ i =>
    have hlen := maskLoop_length c excl ref hyp refLen hypLen (nIter excl hyp.length) 1
      ((row0 c ref).map some)
    have hi : i < nIter excl hyp.length := by omega
    simp only [List.getD_cons_succ, andLt_getD, Bool.and_eq_true, decide_eq_true_eq]
    have h := maskLoop_spec c excl ref hyp refLen hypLen hr hh (nIter excl hyp.length) 1
      ((row0 c ref).map some) (Nat.le_refl 1) (rowInv_base c excl ref hyp refLen hypLen hr) i hi j hj
    rw [h]
    have e : 1 + i = i + 1 := by omega
    rw [e]
    constructor
    · rintro ⟨⟨h1, _, h3⟩, h4⟩
      exact ⟨Or.inr h1, h4, h3⟩
    · rintro ⟨h1 | h1, h4, h3⟩
      · omega
      · exact ⟨⟨h1, by omega, h3⟩, h4⟩

end PdtVerif.OptCompletion

namespace PdtVerif.OptCompletion
open PdtVerif.Lev

/-! ## Part D: duplicate propagation, sort, neighbour comparison, select -/

theorem mem_insertBy (p q : Int × Bool) (l : List (Int × Bool)) :
    q ∈ insertBy p l ↔ q = p ∨ q ∈ l := by
  induction l with
  | nil => simp [insertBy]
  | cons r l ih =>
    simp only [insertBy]
    split
    · simp
    · simp only [List.mem_cons, ih]
      constructor
      · rintro (h | h | h)
        · exact Or.inr (Or.inl h)
        · exact Or.inl h
        · exact Or.inr (Or.inr h)
      · rintro (h | h | h)
        · exact Or.inr (Or.inl h)
        · exact Or.inl h
        · exact Or.inr (Or.inr h)

theorem mem_sortPairs (q : Int × Bool) (l : List (Int × Bool)) : q ∈ sortPairs l ↔ q ∈ l := by
  induction l with
  | nil => simp [sortPairs]
  | cons p l ih =>
    have : sortPairs (p :: l) = insertBy p (sortPairs l) := rfl
    rw [this, mem_insertBy, ih]
    simp

/-- Sorted by token (what `ref.sort(1)` guarantees). -/
def SortedFst (l : List (Int × Bool)) : Prop := l.Pairwise (fun a b => a.1 ≤ b.1)

theorem sortedFst_insertBy (p : Int × Bool) (l : List (Int × Bool)) (h : SortedFst l) :
    SortedFst (insertBy p l) := by
  induction l with
  | nil => simp [insertBy, SortedFst]
  | cons r l ih =>
    unfold SortedFst at h ih ⊢
    rw [List.pairwise_cons] at h
    simp only [insertBy]
    split
    · rename_i hle
      rw [List.pairwise_cons]
      refine ⟨?_, List.pairwise_cons.mpr h⟩
      intro b hb
      rcases List.mem_cons.mp hb with rfl | hb
      · exact hle
      · exact le_trans hle (h.1 b hb)
    · rename_i hle
      rw [List.pairwise_cons]
      refine ⟨?_, ih h.2⟩
      intro b hb
      rcases (mem_insertBy p b l).mp hb with rfl | hb
      · omega
      · exact h.1 b hb

theorem sortedFst_sortPairs (l : List (Int × Bool)) : SortedFst (sortPairs l) := by
  induction l with
  | nil => simp [sortPairs, SortedFst]
  | cons p l ih => exact sortedFst_insertBy p _ ih

/-- `dropDup` only clears flags: a selected token was flagged in the input. -/
theorem mem_select_dropDup_imp (l : List (Int × Bool)) (t : Int) :
    t ∈ select (dropDup l) → (t, true) ∈ l := by
  induction l with
  | nil => simp [dropDup, select]
  | cons p l ih =>
    cases l with
    | nil =>
      obtain ⟨a, b⟩ := p
      simp only [dropDup, select, List.mem_map, List.mem_filter, List.mem_singleton]
      rintro ⟨q, ⟨rfl, hb⟩, rfl⟩
      simp only at hb
      simp [hb]
    | cons q l =>
      obtain ⟨a, b⟩ := p
      simp only [dropDup]
      intro h
      have h' : t ∈ select [(a, b && (a != q.1))] ∨ t ∈ select (dropDup (q :: l)) := by
        simp only [select, List.filter_cons, List.mem_map] at h ⊢
        split at h
        · rename_i hflag
          obtain ⟨x, hx, rfl⟩ := h
          rcases List.mem_cons.mp hx with rfl | hx
          · left; exact ⟨_, by simp [hflag], rfl⟩
          · right; exact ⟨x, hx, rfl⟩
        · right; exact h
      rcases h' with h' | h'
      · simp only [select, List.mem_map, List.mem_filter, List.mem_singleton] at h'
        obtain ⟨x, ⟨rfl, hb⟩, rfl⟩ := h'
        simp only [Bool.and_eq_true] at hb
        simp [hb.1]
      · exact List.mem_cons_of_mem _ (ih h')

/-- With flags that depend only on the token, every flagged token survives `dropDup` (its last
copy is followed by a different token or by nothing). -/
theorem mem_select_dropDup_of (l : List (Int × Bool))
    (hcons : ∀ p ∈ l, ∀ q ∈ l, p.1 = q.1 → p.2 = q.2) (t : Int) :
    (t, true) ∈ l → t ∈ select (dropDup l) := by
  induction l with
  | nil => simp
  | cons p l ih =>
    cases l with
    | nil =>
      intro h
      simp only [List.mem_singleton] at h
      subst h
      simp [dropDup, select]
    | cons q l =>
      intro h
      have ih' := ih (fun a ha b hb => hcons a (List.mem_cons_of_mem _ ha) b (List.mem_cons_of_mem _ hb))
      simp only [dropDup, select, List.filter_cons]
      by_cases hpq : p.1 = q.1
      · -- p is dropped; its flag equals q's, so the token is still flagged further on
        have hq : (t, true) ∈ q :: l := by
          rcases List.mem_cons.mp h with rfl | h
          · have := hcons (t, true) List.mem_cons_self q (List.mem_cons_of_mem _ List.mem_cons_self) hpq
            have e : q = (t, true) := by
              obtain ⟨qa, qb⟩ := q
              simp only at hpq this
              simp [← hpq, ← this]
            rw [e]; exact List.mem_cons_self
          · exact h
        have := ih' hq
        simp only [select] at this
        simp [hpq, this]
      · rcases List.mem_cons.mp h with rfl | h
        · simp [hpq]
        · have := ih' h
          simp only [select] at this
          split
          · exact List.mem_map.mpr (by
              obtain ⟨x, hx, hx2⟩ := List.mem_map.mp this
              exact ⟨x, List.mem_cons_of_mem _ hx, hx2⟩)
          · exact this

/-- On a token-sorted list the selected tokens are strictly increasing (hence duplicate-free). -/
theorem pairwise_select_dropDup (l : List (Int × Bool)) (hs : SortedFst l) :
    (select (dropDup l)).Pairwise (· < ·) := by
  induction l with
  | nil => simp [dropDup, select]
  | cons p l ih =>
    cases l with
    | nil =>
      simp only [dropDup, select, List.filter_cons]
      split <;> simp
    | cons q l =>
      unfold SortedFst at hs
      rw [List.pairwise_cons] at hs
      have ih' := ih hs.2
      simp only [dropDup, select, List.filter_cons]
      split
      · rename_i hflag
        simp only [Bool.and_eq_true, bne_iff_ne, ne_eq] at hflag
        rw [List.map_cons, List.pairwise_cons]
        refine ⟨?_, ih'⟩
        intro t ht
        have hmem := mem_select_dropDup_imp (q :: l) t ht
        have h1 : p.1 ≤ q.1 := hs.1 q List.mem_cons_self
        have h2 : q.1 ≤ t := by
          rcases List.mem_cons.mp hmem with e | hmem
          · rw [← e]
          · have := hs.2
            rw [List.pairwise_cons] at this
            exact this.1 _ hmem
        omega
      · exact ih'

theorem zip_map_self {β : Type} (f : Int → β) (l : List Int) :
    l.zip (l.map f) = l.map (fun x => (x, f x)) := by
  induction l with
  | nil => rfl
  | cons a l ih => simp [ih]

theorem propagate_flag (ref : List Int) (mask : List Bool) (x : Int) :
    ((ref.zip mask).any (fun yb => yb.2 && (x == yb.1)) = true) ↔ (x, true) ∈ ref.zip mask := by
  simp only [List.any_eq_true, Bool.and_eq_true, beq_iff_eq]
  constructor
  · rintro ⟨⟨a, b⟩, hm, hb, rfl⟩
    simp only at hb
    subst hb
    exact hm
  · intro h
    exact ⟨(x, true), h, rfl, rfl⟩

/-- **`optimal_completion`'s mask → list pipeline**: the selected list is strictly increasing and
contains exactly the tokens sitting at a marked position. -/
theorem selectTargets_spec (ref : List Int) (mask : List Bool) :
    (selectTargets ref mask).Pairwise (· < ·) ∧
    ∀ t, t ∈ selectTargets ref mask ↔ (t, true) ∈ ref.zip mask := by
  unfold selectTargets propagate
  rw [zip_map_self]
  refine ⟨pairwise_select_dropDup _ (sortedFst_sortPairs _), ?_⟩
  intro t
  have hcons : ∀ p ∈ sortPairs (ref.map (fun x => (x, (ref.zip mask).any (fun yb => yb.2 && (x == yb.1))))),
      ∀ q ∈ sortPairs (ref.map (fun x => (x, (ref.zip mask).any (fun yb => yb.2 && (x == yb.1))))),
      p.1 = q.1 → p.2 = q.2 := by
    intro p hp q hq hpq
    rw [mem_sortPairs, List.mem_map] at hp hq
    obtain ⟨x, _, rfl⟩ := hp
    obtain ⟨y, _, rfl⟩ := hq
    simp only at hpq
    subst hpq
    rfl
  constructor
  · intro h
    have := mem_select_dropDup_imp _ t h
    rw [mem_sortPairs, List.mem_map] at this
    obtain ⟨x, _, hx⟩ := this
    simp only [Prod.mk.injEq] at hx
    obtain ⟨rfl, hf⟩ := hx
    exact (propagate_flag ref mask x).mp hf
  · intro h
    apply mem_select_dropDup_of _ hcons
    rw [mem_sortPairs, List.mem_map]
    refine ⟨t, (List.of_mem_zip h).1, ?_⟩
    simp only [Prod.mk.injEq, true_and]
    exact (propagate_flag ref mask t).mpr h

theorem mem_zip_iff_getD (ref : List Int) (mask : List Bool) (t : Int) :
    (t, true) ∈ ref.zip mask ↔ ∃ j, ∃ h : j < ref.length, mask.getD j false = true ∧ ref[j] = t := by
  rw [List.mem_iff_getElem?]
  constructor
  · rintro ⟨j, hj⟩
    rw [List.getElem?_zip_eq_some] at hj
    obtain ⟨h1, h2⟩ := hj
    obtain ⟨hlt, e⟩ := List.getElem?_eq_some_iff.mp h1
    exact ⟨j, hlt, by rw [List.getD_eq_getElem?_getD, h2]; rfl, e⟩
  · rintro ⟨j, hlt, hm, e⟩
    refine ⟨j, ?_⟩
    rw [List.getElem?_zip_eq_some]
    refine ⟨by rw [List.getElem?_eq_getElem hlt, e], ?_⟩
    rw [List.getD_eq_getElem?_getD] at hm
    cases hv : mask[j]? with
    | none => rw [hv] at hm; simp at hm
    | some b => rw [hv] at hm; simp at hm; rw [hm]

end PdtVerif.OptCompletion

namespace PdtVerif.OptCompletion
open PdtVerif.Lev

/-! ## Part E: scatter through the flat buffer; lengths; the uniform-cost shortcut; the loss cell -/

/-- `masked_select` into a flat buffer followed by `masked_scatter_` with `counts > arange(C)` gives
every row its own tokens, in order, followed by padding. -/
theorem scatterRows_eq (C : Nat) (pad : Int) (ls : List (List Int)) :
    scatterRows C pad (ls.map List.length) ls.flatten
      = ls.map (fun l => l ++ List.replicate (C - l.length) pad) := by
  induction ls with
  | nil => rfl
  | cons l ls ih =>
    simp only [List.map_cons, List.flatten_cons, scatterRows]
    rw [List.take_left' rfl, List.drop_left' rfl, ih]

theorem le_foldl_max (l : List Nat) (a : Nat) : a ≤ l.foldl max a ∧ ∀ n ∈ l, n ≤ l.foldl max a := by
  induction l generalizing a with
  | nil => simp
  | cons b l ih =>
    simp only [List.foldl_cons]
    obtain ⟨h1, h2⟩ := ih (max a b)
    refine ⟨by omega, ?_⟩
    intro n hn
    rcases List.mem_cons.mp hn with rfl | hn
    · omega
    · exact h2 n hn

theorem firstIdx_le (e : Int) (l : List Int) : firstIdx e l ≤ l.length := by
  induction l with
  | nil => simp [firstIdx]
  | cons x l ih => simp only [firstIdx]; split <;> simp <;> omega

theorem cutLen_le (eos : Option Int) (ie : Bool) (l : List Int) : cutLen eos ie l ≤ l.length := by
  unfold cutLen
  cases eos with
  | none => simp
  | some e =>
    have := firstIdx_le e l
    simp only
    split
    · split <;> omega
    · exact this

theorem colMasks_length (c : Costs) (excl : Bool) (ref hyp : List Int) (refLen hypLen : Nat) :
    (colMasks c excl ref hyp refLen hypLen).length = 1 + nIter excl hyp.length := by
  simp [colMasks, maskLoop_length]; omega

/-! ### uniform costs -/

theorem listMin_map_mul (κ : Rat) (hκ : 0 ≤ κ) (l : List Rat) (hl : l ≠ []) :
    listMin (l.map (κ * ·)) = κ * listMin l := by
  induction l with
  | nil => exact absurd rfl hl
  | cons a l ih =>
    cases l with
    | nil => simp [listMin]
    | cons b l =>
      have := ih (by simp)
      simp only [List.map_cons, listMin] at this ⊢
      rw [this, mul_min_of_nonneg _ _ hκ]

theorem best_uniform (κ : Rat) (hκ : 0 ≤ κ) (ref p : List Int) :
    best ⟨κ, κ, κ⟩ ref p = κ * best unitCosts ref p := by
  unfold best
  rw [← listMin_map_mul κ hκ _ (prefixDists_ne_nil _ _ _)]
  congr 1
  simp only [prefixDists, List.map_map]
  apply List.map_congr_left
  intro j _
  simp only [Function.comp]
  exact lev_uniform_scale κ hκ _ _

/-- The `ins == del == sub > 0` shortcut (unit costs) does not change which tokens are targets. -/
theorem isTarget_effCosts (c : Costs) (ref p : List Int) (t : Int) :
    IsTarget (effCosts c) ref p t ↔ IsTarget c ref p t := by
  unfold effCosts
  split
  · rename_i h
    obtain ⟨h1, h2, h3⟩ := h
    have hc : c = ⟨c.sub, c.sub, c.sub⟩ := by
      cases c; simp only at h1 h2 ⊢; subst h1; subst h2; rfl
    rw [hc]
    unfold IsTarget
    rw [best_uniform _ h3.le, best_uniform _ h3.le]
    constructor
    · intro h; rw [h]
    · intro h; exact mul_left_cancel₀ (ne_of_gt h3) h
  · rfl

theorem effCosts_pos (c : Costs) (hi : 0 < c.ins) (hd : 0 < c.del) (hs : 0 < c.sub) :
    0 < (effCosts c).ins ∧ 0 < (effCosts c).del ∧ 0 < (effCosts c).sub := by
  unfold effCosts
  split
  · simp [unitCosts]
  · exact ⟨hi, hd, hs⟩

/-! ### the loss cell -/

theorem filter_ne_padded (ignore : Int) (S : List Int) (n : Nat) (h : ignore ∉ S) :
    (S ++ List.replicate n ignore).filter (· ≠ ignore) = S := by
  rw [List.filter_append]
  have h1 : S.filter (· ≠ ignore) = S := by
    apply List.filter_eq_self.mpr
    intro a ha
    simp only [ne_eq, decide_not, Bool.not_eq_eq_eq_not, Bool.not_true, decide_eq_false_iff_not]
    rintro rfl; exact h ha
  have h2 : (List.replicate n ignore).filter (· ≠ ignore) = [] := by
    apply List.filter_eq_nil_iff.mpr
    intro a ha
    simp only [List.mem_replicate] at ha
    simp [ha.2]
  rw [h1, h2, List.append_nil]

theorem sum_terms_padded (ignore : Int) (w lsm : Int → Rat) (S : List Int) (n : Nat)
    (h : ignore ∉ S) :
    ((S ++ List.replicate n ignore).map (fun s => if s = ignore then 0 else -(w s * lsm s))).sum
      = -((S.map (fun s => w s * lsm s)).sum) := by
  rw [List.map_append, List.sum_append]
  have h2 : ((List.replicate n ignore).map (fun s => if s = ignore then (0 : Rat) else -(w s * lsm s))).sum
      = 0 := by
    induction n with
    | zero => rfl
    | succ n ih =>
      rw [List.replicate_succ, List.map_cons, List.sum_cons, ih]
      simp
  rw [h2, add_zero]
  induction S with
  | nil => simp
  | cons a S ih =>
    have ha : a ≠ ignore := by rintro rfl; exact h List.mem_cons_self
    have := ih (fun hm => h (List.mem_cons_of_mem _ hm))
    simp only [List.map_cons, List.sum_cons, ha, if_false, this]
    ring

end PdtVerif.OptCompletion

namespace PdtVerif.OptCompletion

/-- Row-major indexing of a flattened list of equally long blocks. -/
theorem getElem?_flatten_uniform {β : Type} (N : Nat) (L : List (List β))
    (hL : ∀ l ∈ L, l.length = N) (k n : Nat) (hn : n < N) :
    L.flatten[k * N + n]? = (L[k]?).bind (fun l => l[n]?) := by
  induction L generalizing k with
  | nil => simp
  | cons l L ih =>
    have hl : l.length = N := hL l List.mem_cons_self
    cases k with
    | zero =>
      simp only [List.flatten_cons, Nat.zero_mul, Nat.zero_add, List.getElem?_cons_zero,
        Option.bind_some]
      rw [List.getElem?_append_left (by omega)]
    | succ k =>
      simp only [List.flatten_cons, List.getElem?_cons_succ]
      rw [List.getElem?_append_right (by rw [hl, Nat.succ_mul]; omega)]
      have e : (k + 1) * N + n - l.length = k * N + n := by rw [hl, Nat.succ_mul]; omega
      rw [e]
      exact ih (fun l' hl' => hL l' (List.mem_cons_of_mem _ hl')) k

/-- Row `k·N + n` of the `(prefix, batch)`-ordered list is the list of column `n` for prefix `k`. -/
theorem rowsKN_getElem? (cfg : Cfg) (refs hyps : List (List Int)) (k n : Nat)
    (hk : k ≤ nIter cfg.excludeLast (hyps.headD []).length)
    (hn : n < (List.zipWith (colSelected cfg) refs hyps).length) :
    (rowsKN cfg refs hyps)[k * (List.zipWith (colSelected cfg) refs hyps).length + n]?
      = some (((List.zipWith (colSelected cfg) refs hyps)[n]).getD k []) := by
  unfold rowsKN
  simp only
  rw [getElem?_flatten_uniform (List.zipWith (colSelected cfg) refs hyps).length _ _ k n hn]
  · rw [List.getElem?_map, List.getElem?_range (by omega)]
    simp only [Option.map_some, Option.bind_some]
    rw [List.getElem?_map, List.getElem?_eq_getElem hn]
    rfl
  · intro l hl
    simp only [List.mem_map] at hl
    obtain ⟨_, _, rfl⟩ := hl
    simp

end PdtVerif.OptCompletion

namespace PdtVerif.OptCompletion

/-- Flags produced by `propagate` depend only on the token. -/
theorem propagate_consistent (ref : List Int) (mask : List Bool) (L : List (Int × Bool))
    (hL : ∀ q, q ∈ L → q ∈ ref.zip (propagate ref mask)) :
    ∀ p ∈ L, ∀ q ∈ L, p.1 = q.1 → p.2 = q.2 := by
  intro p hp q hq hpq
  have h1 := hL p hp
  have h2 := hL q hq
  unfold propagate at h1 h2
  rw [zip_map_self, List.mem_map] at h1 h2
  obtain ⟨x, _, rfl⟩ := h1
  obtain ⟨y, _, rfl⟩ := h2
  simp only at hpq
  subst hpq
  rfl

/-- `torch.sort` does not promise an order among equal tokens: ANY token-sorted rearrangement of
the (token, flag) pairs gives the same selected list as the model's stable insertion sort. -/
theorem select_any_sort (ref : List Int) (mask : List Bool) (L : List (Int × Bool))
    (hperm : L.Perm (ref.zip (propagate ref mask))) (hsorted : SortedFst L) :
    select (dropDup L) = selectTargets ref mask := by
  have hmemL : ∀ t, t ∈ select (dropDup L) ↔ (t, true) ∈ ref.zip (propagate ref mask) := by
    intro t
    have hcons := propagate_consistent ref mask L (fun q hq => hperm.mem_iff.mp hq)
    constructor
    · intro h; exact hperm.mem_iff.mp (mem_select_dropDup_imp L t h)
    · intro h; exact mem_select_dropDup_of L hcons t (hperm.mem_iff.mpr h)
  have hmemS : ∀ t, t ∈ selectTargets ref mask ↔ (t, true) ∈ ref.zip (propagate ref mask) := by
    intro t
    unfold selectTargets
    have hcons := propagate_consistent ref mask (sortPairs (ref.zip (propagate ref mask)))
      (fun q hq => (mem_sortPairs q _).mp hq)
    constructor
    · intro h; exact (mem_sortPairs _ _).mp (mem_select_dropDup_imp _ t h)
    · intro h; exact mem_select_dropDup_of _ hcons t ((mem_sortPairs _ _).mpr h)
  exact List.Pairwise.eq_of_mem_iff (pairwise_select_dropDup L hsorted)
    (selectTargets_spec ref mask).1 (fun t => (hmemL t).trans (hmemS t).symm)

end PdtVerif.OptCompletion

namespace PdtVerif.OptCompletion

/-! ## What the cut sequences are -/

theorem take_firstIdx (e : Int) (l : List Int) :
    l.take (firstIdx e l) = l.takeWhile (· != e) := by
  induction l with
  | nil => rfl
  | cons x l ih =>
    simp only [firstIdx]
    by_cases h : x = e
    · simp [h]
    · simp [h, ih]

theorem firstIdx_eq_length_iff (e : Int) (l : List Int) : firstIdx e l = l.length ↔ e ∉ l := by
  induction l with
  | nil => simp [firstIdx]
  | cons x l ih =>
    simp only [firstIdx]
    by_cases h : x = e
    · simp [h]
    · have : ¬ e = x := fun h' => h h'.symm
      simp [h, ih, this]

theorem take_firstIdx_succ (e : Int) (l : List Int) (h : e ∈ l) :
    l.take (firstIdx e l + 1) = l.takeWhile (· != e) ++ [e] := by
  induction l with
  | nil => simp at h
  | cons x l ih =>
    simp only [firstIdx]
    by_cases hx : x = e
    · simp [hx]
    · have : e ∈ l := by
        rcases List.mem_cons.mp h with h' | h'
        · exact absurd h'.symm hx
        · exact h'
      simp [hx, ih this]

/-- What the cut sequences are: everything before the first `eos`, plus that `eos` when
`include_eos` is set and an `eos` exists; the whole column when `eos` is unset or absent. -/
theorem cut_spec (eos : Option Int) (ie : Bool) (toks : List Int) :
    toks.take (cutLen eos ie toks) =
      match eos with
      | none => toks
      | some e => if ie = true ∧ e ∈ toks then toks.takeWhile (· != e) ++ [e]
                  else toks.takeWhile (· != e) := by
  cases eos with
  | none => simp [cutLen]
  | some e =>
    simp only [cutLen]
    by_cases hie : ie = true
    · by_cases hm : e ∈ toks
      · have : firstIdx e toks ≠ toks.length := fun h => (firstIdx_eq_length_iff e toks).mp h hm
        simp [hie, hm, this, take_firstIdx_succ e toks hm]
      · have : firstIdx e toks = toks.length := (firstIdx_eq_length_iff e toks).mpr hm
        simp only [hie, hm, this, if_true, and_false, if_false]
        rw [← this, take_firstIdx]
    · simp [hie, take_firstIdx]


end PdtVerif.OptCompletion
