import PdtVerif.Lemmas.PadChunkRounding
/-!
# Lemmas for C09, part 4 (single Mathlib modules): the executable binary floating-point rounding model
`roundBits p` (round to nearest, ties to even, `p` significant bits, unbounded exponent) satisfies `Rounding (2^p)`.
-/

namespace PdtVerif.PadChunk

theorem pow2_eq_zpow (s : Int) : pow2 s = (2 : Rat) ^ s := by
  unfold pow2
  split
  · rename_i h
    have : s = (s.toNat : Int) := (Int.toNat_of_nonneg h).symm
    conv_rhs => rw [this]
    rw [zpow_natCast]
    push_cast
    rfl
  · rename_i h
    have h' : 0 ≤ -s := by omega
    have : s = -((-s).toNat : Int) := by rw [Int.toNat_of_nonneg h']; omega
    conv_rhs => rw [this]
    rw [zpow_neg, zpow_natCast]
    push_cast
    rw [one_div]

/-- round half to even, to an integer (the `m'` of `roundBits`) -/
def rne (x : Rat) : Int :=
  if x - (x.floor : Rat) < 1 / 2 then x.floor
  else if 1 / 2 < x - (x.floor : Rat) then x.floor + 1
  else if x.floor % 2 = 0 then x.floor else x.floor + 1

theorem rne_ge_floor (x : Rat) : x.floor ≤ rne x := by
  unfold rne; split_ifs <;> omega

theorem rne_le_floor_succ (x : Rat) : rne x ≤ x.floor + 1 := by
  unfold rne; split_ifs <;> omega

theorem rne_intCast (n : Int) : rne (n : Rat) = n := by
  unfold rne
  simp

theorem rne_mono (x y : Rat) (h : x ≤ y) : rne x ≤ rne y := by
  have hf : x.floor ≤ y.floor := Rat.floor_monotone h
  rcases Int.lt_or_eq_of_le hf with hlt | heq
  · have := rne_le_floor_succ x
    have := rne_ge_floor y
    omega
  · unfold rne
    rw [heq]
    have hxy : x - (y.floor : Rat) ≤ y - (y.floor : Rat) := by linarith
    split_ifs <;> first | omega | (exfalso; linarith)

theorem rne_lt_of_lt_sub_half (x : Rat) (n : Int) (h : x < (n : Rat) - 1 / 2) : rne x < n := by
  have hfl : x.floor < n := Rat.floor_lt_iff.2 (by linarith)
  rcases Int.lt_or_eq_of_le (Int.lt_iff_add_one_le.1 hfl) with hlt | heq
  · have := rne_le_floor_succ x
    omega
  · have hfx : (x.floor : Rat) = (n : Rat) - 1 := by
      have : x.floor = n - 1 := by omega
      rw [this]; push_cast; ring
    unfold rne
    rw [if_pos (by rw [hfx]; linarith)]
    omega

/-! ### the binade of a positive rational -/

/-- the exponent `e` with `2^e ≤ q < 2^(e+1)`, computed as in `roundBits` -/
def binade (q : Rat) : Int :=
  if pow2 ((q.num.toNat.log2 : Int) - (q.den.log2 : Int)) ≤ q
  then (q.num.toNat.log2 : Int) - (q.den.log2 : Int)
  else (q.num.toNat.log2 : Int) - (q.den.log2 : Int) - 1

theorem two_zpow_pos (e : Int) : (0 : Rat) < 2 ^ e := zpow_pos (by norm_num) e

theorem two_zpow_le {a b : Int} (h : a ≤ b) : (2 : Rat) ^ a ≤ 2 ^ b := zpow_le_zpow_right₀ (by norm_num) h
theorem two_zpow_lt {a b : Int} (h : a < b) : (2 : Rat) ^ a < 2 ^ b := zpow_lt_zpow_right₀ (by norm_num) h

theorem two_zpow_lt_iff {a b : Int} : (2 : Rat) ^ a < 2 ^ b ↔ a < b := zpow_lt_zpow_iff_right₀ (by norm_num)

theorem binade_spec (q : Rat) (hq : 0 < q) : (2 : Rat) ^ binade q ≤ q ∧ q < 2 ^ (binade q + 1) := by
  have hnum : 0 < q.num := Rat.num_pos.2 hq
  have hden : q.den ≠ 0 := q.den_nz
  set a := q.num.toNat.log2 with ha
  set b := q.den.log2 with hb
  have hnn : q.num.toNat ≠ 0 := by omega
  have h1 : 2 ^ a ≤ q.num.toNat := Nat.log2_self_le hnn
  have h2 : q.num.toNat < 2 ^ (a + 1) := Nat.lt_log2_self
  have h3 : 2 ^ b ≤ q.den := Nat.log2_self_le hden
  have h4 : q.den < 2 ^ (b + 1) := Nat.lt_log2_self
  have hcast : ((q.num.toNat : Nat) : Rat) = (q.num : Rat) := by
    have : ((q.num.toNat : Nat) : Int) = q.num := Int.toNat_of_nonneg hnum.le
    exact_mod_cast congrArg (fun z : Int => (z : Rat)) this
  have hq' : q = (q.num.toNat : Rat) / (q.den : Rat) := by
    rw [hcast]; exact (Rat.num_div_den q).symm
  have hdpos : (0 : Rat) < (q.den : Rat) := by exact_mod_cast Nat.pos_of_ne_zero hden
  have r1 : ((2 : Rat) ^ a) ≤ (q.num.toNat : Rat) := by exact_mod_cast h1
  have r2 : (q.num.toNat : Rat) < (2 : Rat) ^ (a + 1) := by exact_mod_cast h2
  have r3 : ((2 : Rat) ^ b) ≤ (q.den : Rat) := by exact_mod_cast h3
  have r4 : (q.den : Rat) < (2 : Rat) ^ (b + 1) := by exact_mod_cast h4
  -- q < 2^(a - b + 1) and 2^(a - b - 1) < q
  have hup : q < (2 : Rat) ^ ((a : Int) - (b : Int) + 1) := by
    have e : (2 : Rat) ^ ((a : Int) - (b : Int) + 1) = (2 : Rat) ^ (a + 1) / 2 ^ b := by
      rw [show (a : Int) - (b : Int) + 1 = ((a + 1 : Nat) : Int) - ((b : Nat) : Int) by push_cast; ring,
        zpow_sub₀ (by norm_num), zpow_natCast, zpow_natCast]
    rw [e, hq', div_lt_div_iff₀ hdpos (by positivity)]
    have hbpos : (0 : Rat) < 2 ^ b := by positivity
    calc (q.num.toNat : Rat) * 2 ^ b < 2 ^ (a + 1) * 2 ^ b := by nlinarith
      _ ≤ 2 ^ (a + 1) * (q.den : Rat) := by
        have : (0 : Rat) < 2 ^ (a + 1) := by positivity
        nlinarith
  have hlo : (2 : Rat) ^ ((a : Int) - (b : Int) - 1) < q := by
    have e : (2 : Rat) ^ ((a : Int) - (b : Int) - 1) = (2 : Rat) ^ a / 2 ^ (b + 1) := by
      rw [show (a : Int) - (b : Int) - 1 = ((a : Nat) : Int) - ((b + 1 : Nat) : Int) by push_cast; ring,
        zpow_sub₀ (by norm_num), zpow_natCast, zpow_natCast]
    rw [e, hq', div_lt_div_iff₀ (by positivity) hdpos]
    have hapos : (0 : Rat) < 2 ^ a := by positivity
    calc (2 : Rat) ^ a * (q.den : Rat) < 2 ^ a * 2 ^ (b + 1) := by nlinarith
      _ ≤ (q.num.toNat : Rat) * 2 ^ (b + 1) := by
        have : (0 : Rat) < 2 ^ (b + 1) := by positivity
        nlinarith
  unfold binade
  rw [pow2_eq_zpow]
  split
  · rename_i h
    exact ⟨h, hup⟩
  · rename_i h
    refine ⟨hlo.le, ?_⟩
    have : (a : Int) - (b : Int) - 1 + 1 = (a : Int) - (b : Int) := by ring
    rw [this]
    exact lt_of_not_ge h

/-- the binade is determined by the two inequalities -/
theorem binade_unique (q : Rat) (hq : 0 < q) (e : Int) (h1 : (2 : Rat) ^ e ≤ q) (h2 : q < 2 ^ (e + 1)) :
    binade q = e := by
  obtain ⟨b1, b2⟩ := binade_spec q hq
  have l1 : e < binade q + 1 := two_zpow_lt_iff.1 (lt_of_le_of_lt h1 b2)
  have l2 : binade q < e + 1 := two_zpow_lt_iff.1 (lt_of_le_of_lt b1 h2)
  omega

/-! ### `roundBits` through `binade` and `rne` -/

theorem roundBits_nonpos (p : Nat) (q : Rat) (hq : q ≤ 0) : roundBits p q = q := by
  unfold roundBits
  rw [if_pos hq]

theorem roundBits_pos (p : Nat) (q : Rat) (hq : 0 < q) :
    roundBits p q = (rne (q * 2 ^ ((p : Int) - 1 - binade q)) : Rat) * 2 ^ (-((p : Int) - 1 - binade q)) := by
  unfold roundBits rne binade
  rw [if_neg (not_le.2 hq)]
  simp only [pow2_eq_zpow]

/-- integer powers of two as casts -/
theorem two_zpow_natCast (n : Nat) : (2 : Rat) ^ (n : Int) = (((2 ^ n : Nat) : Int) : Rat) := by
  rw [zpow_natCast]; push_cast; rfl

/-- the scaled value of a positive `q` lies in `[2^(p-1), 2^p)` -/
theorem scaled_range (p : Nat) (q : Rat) (hq : 0 < q) :
    (2 : Rat) ^ ((p : Int) - 1) ≤ q * 2 ^ ((p : Int) - 1 - binade q)
      ∧ q * 2 ^ ((p : Int) - 1 - binade q) < 2 ^ (p : Int) := by
  obtain ⟨b1, b2⟩ := binade_spec q hq
  have hs := two_zpow_pos ((p : Int) - 1 - binade q)
  constructor
  · have : (2 : Rat) ^ ((p : Int) - 1) = 2 ^ binade q * 2 ^ ((p : Int) - 1 - binade q) := by
      rw [← zpow_add₀ (by norm_num)]; congr 1; ring
    rw [this]
    exact mul_le_mul_of_nonneg_right b1 hs.le
  · have : (2 : Rat) ^ (p : Int) = 2 ^ (binade q + 1) * 2 ^ ((p : Int) - 1 - binade q) := by
      rw [← zpow_add₀ (by norm_num)]; congr 1; ring
    rw [this]
    exact mul_lt_mul_of_pos_right b2 hs

/-- the rounded significand is an integer in `[2^(p-1), 2^p]` -/
theorem rne_scaled_range (p : Nat) (hp : 1 ≤ p) (q : Rat) (hq : 0 < q) :
    ((2 ^ (p - 1) : Nat) : Int) ≤ rne (q * 2 ^ ((p : Int) - 1 - binade q))
      ∧ rne (q * 2 ^ ((p : Int) - 1 - binade q)) ≤ ((2 ^ p : Nat) : Int) := by
  obtain ⟨s1, s2⟩ := scaled_range p q hq
  have e1 : (2 : Rat) ^ ((p : Int) - 1) = (((2 ^ (p - 1) : Nat) : Int) : Rat) := by
    rw [← two_zpow_natCast]; congr 1; omega
  have e2 : (2 : Rat) ^ (p : Int) = (((2 ^ p : Nat) : Int) : Rat) := two_zpow_natCast p
  constructor
  · have := rne_mono _ _ (e1 ▸ s1)
    rwa [rne_intCast] at this
  · have := rne_mono _ _ (e2 ▸ s2).le
    rwa [rne_intCast] at this

/-- a positive rounded value lies in the closed binade of its argument -/
theorem roundBits_range (p : Nat) (hp : 1 ≤ p) (q : Rat) (hq : 0 < q) :
    (2 : Rat) ^ binade q ≤ roundBits p q ∧ roundBits p q ≤ 2 ^ (binade q + 1) := by
  obtain ⟨m1, m2⟩ := rne_scaled_range p hp q hq
  rw [roundBits_pos p q hq]
  have hs := two_zpow_pos (-((p : Int) - 1 - binade q))
  have e1 : (2 : Rat) ^ binade q = (((2 ^ (p - 1) : Nat) : Int) : Rat) * 2 ^ (-((p : Int) - 1 - binade q)) := by
    rw [← two_zpow_natCast, ← zpow_add₀ (by norm_num)]; congr 1
    have : ((p - 1 : Nat) : Int) = (p : Int) - 1 := by omega
    rw [this]; ring
  have e2 : (2 : Rat) ^ (binade q + 1) = (((2 ^ p : Nat) : Int) : Rat) * 2 ^ (-((p : Int) - 1 - binade q)) := by
    rw [← two_zpow_natCast, ← zpow_add₀ (by norm_num)]; congr 1; ring
  rw [e1, e2]
  constructor
  · exact mul_le_mul_of_nonneg_right (by exact_mod_cast m1) hs.le
  · exact mul_le_mul_of_nonneg_right (by exact_mod_cast m2) hs.le

theorem roundBits_pos_of_pos (p : Nat) (hp : 1 ≤ p) (q : Rat) (hq : 0 < q) : 0 < roundBits p q :=
  lt_of_lt_of_le (two_zpow_pos _) (roundBits_range p hp q hq).1

/-- a value whose scaling is an integer is returned unchanged -/
theorem roundBits_of_scaled_int (p : Nat) (q : Rat) (hq : 0 < q) (n : Int)
    (h : q * 2 ^ ((p : Int) - 1 - binade q) = (n : Rat)) : roundBits p q = q := by
  rw [roundBits_pos p q hq, h, rne_intCast, ← h, mul_assoc, ← zpow_add₀ (by norm_num)]
  simp

/-- representable numbers: `M * 2^t` with `2^(p-1) ≤ M < 2^p` -/
theorem roundBits_repr (p : Nat) (hp : 1 ≤ p) (M t : Int) (h1 : ((2 ^ (p - 1) : Nat) : Int) ≤ M)
    (h2 : M < ((2 ^ p : Nat) : Int)) :
    roundBits p ((M : Rat) * 2 ^ t) = (M : Rat) * 2 ^ t ∧ binade ((M : Rat) * 2 ^ t) = t + (p : Int) - 1 := by
  have hM : (0 : Rat) < (M : Rat) := by
    have : 0 < ((2 ^ (p - 1) : Nat) : Int) := by positivity
    exact_mod_cast lt_of_lt_of_le this h1
  have hq : (0 : Rat) < (M : Rat) * 2 ^ t := mul_pos hM (two_zpow_pos t)
  have hb : binade ((M : Rat) * 2 ^ t) = t + (p : Int) - 1 := by
    apply binade_unique _ hq
    · have : (2 : Rat) ^ (t + (p : Int) - 1) = (((2 ^ (p - 1) : Nat) : Int) : Rat) * 2 ^ t := by
        rw [← two_zpow_natCast, ← zpow_add₀ (by norm_num)]; congr 1
        have : ((p - 1 : Nat) : Int) = (p : Int) - 1 := by omega
        rw [this]; ring
      rw [this]
      exact mul_le_mul_of_nonneg_right (by exact_mod_cast h1) (two_zpow_pos t).le
    · have : (2 : Rat) ^ (t + (p : Int) - 1 + 1) = (((2 ^ p : Nat) : Int) : Rat) * 2 ^ t := by
        rw [← two_zpow_natCast, ← zpow_add₀ (by norm_num)]; congr 1; ring
      rw [this]
      exact mul_lt_mul_of_pos_right (by exact_mod_cast h2) (two_zpow_pos t)
  refine ⟨roundBits_of_scaled_int p _ hq M ?_, hb⟩
  rw [hb, mul_assoc, ← zpow_add₀ (by norm_num)]
  have : t + ((p : Int) - 1 - (t + (p : Int) - 1)) = 0 := by ring
  rw [this]; simp

/-- every positive rounded value is representable: `M * 2^t` with `2^(p-1) ≤ M < 2^p` -/
theorem roundBits_is_repr (p : Nat) (hp : 1 ≤ p) (q : Rat) (hq : 0 < q) :
    ∃ M t : Int, roundBits p q = (M : Rat) * 2 ^ t ∧ ((2 ^ (p - 1) : Nat) : Int) ≤ M ∧ M < ((2 ^ p : Nat) : Int) := by
  obtain ⟨m1, m2⟩ := rne_scaled_range p hp q hq
  rcases Int.lt_or_eq_of_le m2 with hlt | heq
  · exact ⟨_, _, roundBits_pos p q hq, m1, hlt⟩
  · refine ⟨((2 ^ (p - 1) : Nat) : Int), -((p : Int) - 1 - binade q) + 1, ?_, le_refl _, ?_⟩
    · rw [roundBits_pos p q hq, heq, ← two_zpow_natCast, ← two_zpow_natCast, ← zpow_add₀ (by norm_num),
        ← zpow_add₀ (by norm_num)]
      congr 1
      have : ((p - 1 : Nat) : Int) = (p : Int) - 1 := by omega
      rw [this]; ring
    · have : 2 ^ (p - 1) < 2 ^ p := Nat.pow_lt_pow_right (by norm_num) (by omega)
      exact_mod_cast this

/-! ### the four `Rounding` fields -/

theorem roundBits_mono (p : Nat) (hp : 1 ≤ p) (a b : Rat) (h : a ≤ b) : roundBits p a ≤ roundBits p b := by
  by_cases hb : b ≤ 0
  · rw [roundBits_nonpos p a (le_trans h hb), roundBits_nonpos p b hb]; exact h
  · have hb' : 0 < b := not_le.1 hb
    by_cases ha : a ≤ 0
    · rw [roundBits_nonpos p a ha]
      exact le_trans ha (roundBits_pos_of_pos p hp b hb').le
    · have ha' : 0 < a := not_le.1 ha
      obtain ⟨a1, a2⟩ := binade_spec a ha'
      obtain ⟨b1, b2⟩ := binade_spec b hb'
      have hle : binade a < binade b + 1 := two_zpow_lt_iff.1 (lt_of_le_of_lt (le_trans a1 h) b2)
      rcases Int.lt_or_eq_of_le (Int.lt_add_one_iff.1 hle) with hlt | heq
      · calc roundBits p a ≤ 2 ^ (binade a + 1) := (roundBits_range p hp a ha').2
          _ ≤ 2 ^ binade b := two_zpow_le (by omega)
          _ ≤ roundBits p b := (roundBits_range p hp b hb').1
      · rw [roundBits_pos p a ha', roundBits_pos p b hb', heq]
        have hs := two_zpow_pos ((p : Int) - 1 - binade b)
        have hr := rne_mono _ _ (mul_le_mul_of_nonneg_right h hs.le)
        exact mul_le_mul_of_nonneg_right (by exact_mod_cast hr) (two_zpow_pos _).le

theorem roundBits_idem (p : Nat) (hp : 1 ≤ p) (z : Rat) : roundBits p (roundBits p z) = roundBits p z := by
  by_cases hz : z ≤ 0
  · rw [roundBits_nonpos p z hz, roundBits_nonpos p z hz]
  · obtain ⟨M, t, h, h1, h2⟩ := roundBits_is_repr p hp z (not_le.1 hz)
    rw [h]
    exact (roundBits_repr p hp M t h1 h2).1

theorem roundBits_natCast (p : Nat) (hp : 1 ≤ p) (k : Nat) (hk : k ≤ 2 ^ p) : roundBits p (k : Rat) = (k : Rat) := by
  rcases Nat.eq_zero_or_pos k with rfl | hpos
  · exact roundBits_nonpos p _ (by simp)
  · have hq : (0 : Rat) < (k : Rat) := by exact_mod_cast hpos
    obtain ⟨b1, b2⟩ := binade_spec (k : Rat) hq
    -- 0 ≤ binade ≤ p
    have h0 : (0 : Int) < binade (k : Rat) + 1 := by
      apply two_zpow_lt_iff.1
      have : (1 : Rat) ≤ (k : Rat) := by exact_mod_cast hpos
      simpa using lt_of_le_of_lt this b2
    have hp' : binade (k : Rat) < (p : Int) + 1 := by
      apply two_zpow_lt_iff.1
      have : (k : Rat) ≤ 2 ^ ((p : Nat) : Int) := by rw [zpow_natCast]; exact_mod_cast hk
      exact lt_of_le_of_lt b1 (lt_of_le_of_lt this (two_zpow_lt (by omega)))
    rcases Int.lt_or_eq_of_le (Int.lt_add_one_iff.1 hp') with hlt | heq
    · -- the scaling exponent is a natural number
      obtain ⟨n, hn⟩ : ∃ n : Nat, (p : Int) - 1 - binade (k : Rat) = (n : Int) :=
        ⟨((p : Int) - 1 - binade (k : Rat)).toNat, by omega⟩
      apply roundBits_of_scaled_int p _ hq ((k * 2 ^ n : Nat) : Int)
      rw [hn, zpow_natCast]
      push_cast
      rfl
    · -- k = 2^p
      have hk2 : (2 : Rat) ^ (p : Int) ≤ (k : Rat) := heq ▸ b1
      have : (k : Rat) = 2 ^ (p : Int) := le_antisymm (by rw [zpow_natCast]; exact_mod_cast hk) hk2
      apply roundBits_of_scaled_int p _ hq ((2 ^ (p - 1) : Nat) : Int)
      rw [heq, this, ← zpow_add₀ (by norm_num), ← two_zpow_natCast]
      congr 1
      omega

/-- a representable `u` with `0 < u < 1` is at most `1 - 2^-p` -/
theorem repr_lt_one_le (p : Nat) (hp : 1 ≤ p) (u : Rat) (hu0 : 0 < u) (hu1 : u < 1) (hu : roundBits p u = u) :
    u ≤ 1 - 2 ^ (-(p : Int)) := by
  obtain ⟨b1, b2⟩ := binade_spec u hu0
  have hneg : binade u < 0 := by
    have : (2 : Rat) ^ binade u < 2 ^ (0 : Int) := by simpa using lt_of_le_of_lt b1 hu1
    exact two_zpow_lt_iff.1 this
  have hhalf : (2 : Rat) ^ (-(p : Int)) ≤ 1 / 2 := by
    have : (2 : Rat) ^ (-(p : Int)) ≤ 2 ^ (-1 : Int) := two_zpow_le (by omega)
    simpa using this
  rcases Int.lt_or_eq_of_le (Int.lt_iff_add_one_le.1 hneg) with hlt | heq
  · -- u < 1/2
    have : u < (2 : Rat) ^ (-1 : Int) := lt_of_lt_of_le b2 (two_zpow_le (by omega))
    have h2 : (2 : Rat) ^ (-1 : Int) = 1 / 2 := by simp
    rw [h2] at this
    linarith
  · -- binade u = -1: u = M * 2^-p with M < 2^p
    have hb : binade u = -1 := by omega
    have hu' := roundBits_pos p u hu0
    rw [hu, hb] at hu'
    have hexp : -((p : Int) - 1 - -1) = -(p : Int) := by ring
    rw [hexp] at hu'
    set M := rne (u * 2 ^ ((p : Int) - 1 - -1)) with hM
    have hpos := two_zpow_pos (-(p : Int))
    have hMlt : (M : Rat) < (((2 ^ p : Nat) : Int) : Rat) := by
      have h3 : (M : Rat) * 2 ^ (-(p : Int)) < 1 := hu' ▸ hu1
      have h4 : (1 : Rat) = (((2 ^ p : Nat) : Int) : Rat) * 2 ^ (-(p : Int)) := by
        rw [← two_zpow_natCast, ← zpow_add₀ (by norm_num)]; simp
      rw [h4] at h3
      exact lt_of_mul_lt_mul_right h3 hpos.le
    have hMle : M + 1 ≤ ((2 ^ p : Nat) : Int) := by
      have : M < ((2 ^ p : Nat) : Int) := by exact_mod_cast hMlt
      omega
    have hMle' : (M : Rat) ≤ (((2 ^ p : Nat) : Int) : Rat) - 1 := by
      have : ((M + 1 : Int) : Rat) ≤ (((2 ^ p : Nat) : Int) : Rat) := by exact_mod_cast hMle
      push_cast at this ⊢
      linarith
    have h5 : (((2 ^ p : Nat) : Int) : Rat) * 2 ^ (-(p : Int)) = 1 := by
      rw [← two_zpow_natCast, ← zpow_add₀ (by norm_num)]; simp
    calc u = (M : Rat) * 2 ^ (-(p : Int)) := hu'
      _ ≤ ((((2 ^ p : Nat) : Int) : Rat) - 1) * 2 ^ (-(p : Int)) := mul_le_mul_of_nonneg_right hMle' hpos.le
      _ = 1 - 2 ^ (-(p : Int)) := by rw [sub_mul, h5, one_mul]

theorem roundBits_mul_lt (p : Nat) (hp : 1 ≤ p) (z u : Rat) (ha : 1 ≤ roundBits p z) (hu0 : 0 ≤ u) (hu1 : u < 1)
    (hu : roundBits p u = u) : roundBits p (roundBits p z * u) < roundBits p z := by
  have hz : 0 < z := by
    by_contra hz
    rw [roundBits_nonpos p z (not_lt.1 hz)] at ha
    linarith [not_lt.1 hz]
  rcases eq_or_lt_of_le hu0 with rfl | hupos
  · rw [mul_zero, roundBits_nonpos p 0 (le_refl _)]; linarith
  obtain ⟨M, t, h, h1, h2⟩ := roundBits_is_repr p hp z hz
  have hule := repr_lt_one_le p hp u hupos hu1 hu
  rw [h] at ha ⊢
  have hMpos : (0 : Rat) < (M : Rat) := by
    have : 0 < ((2 ^ (p - 1) : Nat) : Int) := by positivity
    exact_mod_cast lt_of_lt_of_le this h1
  have htpos := two_zpow_pos t
  have hapos : (0 : Rat) < (M : Rat) * 2 ^ t := mul_pos hMpos htpos
  -- a * u ≤ w := a * (1 - 2^-p)
  have hw : (M : Rat) * 2 ^ t * u ≤ (M : Rat) * 2 ^ t * (1 - 2 ^ (-(p : Int))) :=
    mul_le_mul_of_nonneg_left hule hapos.le
  refine lt_of_le_of_lt (roundBits_mono p hp _ _ hw) ?_
  have hP : (((2 ^ p : Nat) : Int) : Rat) * 2 ^ (-(p : Int)) = 1 := by
    rw [← two_zpow_natCast, ← zpow_add₀ (by norm_num)]; simp
  have hpp := two_zpow_pos (-(p : Int))
  have hpow : (2 ^ p : Nat) = 2 * 2 ^ (p - 1) := by
    rw [← Nat.pow_succ']; congr 1; omega
  rcases Int.lt_or_eq_of_le h1 with hgt | heq
  · -- M > 2^(p-1): w stays in the binade of a, its scaled value lies in (M - 1, M - 1/2)
    have hwpos : (0 : Rat) < (M : Rat) * 2 ^ t * (1 - 2 ^ (-(p : Int))) := by
      apply mul_pos hapos
      have : (2 : Rat) ^ (-(p : Int)) ≤ 2 ^ (-1 : Int) := two_zpow_le (by omega)
      have h2' : (2 : Rat) ^ (-1 : Int) = 1 / 2 := by simp
      linarith
    -- M * 2^-p ∈ (1/2, 1)
    have hM1 : (M : Rat) * 2 ^ (-(p : Int)) < 1 := by
      rw [← hP]; exact mul_lt_mul_of_pos_right (by exact_mod_cast h2) hpp
    have hM2 : (1 : Rat) / 2 < (M : Rat) * 2 ^ (-(p : Int)) := by
      have hge : ((2 ^ (p - 1) : Nat) : Int) + 1 ≤ M := by omega
      have hge' : (((2 ^ (p - 1) : Nat) : Int) : Rat) + 1 ≤ (M : Rat) := by exact_mod_cast hge
      have hhalf : (((2 ^ (p - 1) : Nat) : Int) : Rat) * 2 ^ (-(p : Int)) = 1 / 2 := by
        have : (((2 ^ p : Nat) : Int) : Rat) = 2 * (((2 ^ (p - 1) : Nat) : Int) : Rat) := by
          rw [hpow]; push_cast; ring
        rw [this] at hP
        linarith
      calc (1 : Rat) / 2 < ((((2 ^ (p - 1) : Nat) : Int) : Rat) + 1) * 2 ^ (-(p : Int)) := by
            rw [add_mul, hhalf]; linarith
        _ ≤ (M : Rat) * 2 ^ (-(p : Int)) := mul_le_mul_of_nonneg_right hge' hpp.le
    have hbw : binade ((M : Rat) * 2 ^ t * (1 - 2 ^ (-(p : Int)))) = t + (p : Int) - 1 := by
      apply binade_unique _ hwpos
      · -- 2^(p-1) * 2^t ≤ w
        have e : (2 : Rat) ^ (t + (p : Int) - 1) = (((2 ^ (p - 1) : Nat) : Int) : Rat) * 2 ^ t := by
          rw [← two_zpow_natCast, ← zpow_add₀ (by norm_num)]; congr 1
          have : ((p - 1 : Nat) : Int) = (p : Int) - 1 := by omega
          rw [this]; ring
        rw [e]
        have : (((2 ^ (p - 1) : Nat) : Int) : Rat) ≤ (M : Rat) * (1 - 2 ^ (-(p : Int))) := by
          have hge : ((2 ^ (p - 1) : Nat) : Int) + 1 ≤ M := by omega
          have hge' : (((2 ^ (p - 1) : Nat) : Int) : Rat) + 1 ≤ (M : Rat) := by exact_mod_cast hge
          rw [mul_sub, mul_one]
          linarith
        calc (((2 ^ (p - 1) : Nat) : Int) : Rat) * 2 ^ t ≤ (M : Rat) * (1 - 2 ^ (-(p : Int))) * 2 ^ t :=
              mul_le_mul_of_nonneg_right this htpos.le
          _ = (M : Rat) * 2 ^ t * (1 - 2 ^ (-(p : Int))) := by ring
      · have e : (2 : Rat) ^ (t + (p : Int) - 1 + 1) = (((2 ^ p : Nat) : Int) : Rat) * 2 ^ t := by
          rw [← two_zpow_natCast, ← zpow_add₀ (by norm_num)]; congr 1; ring
        rw [e]
        have h3 : (M : Rat) * 2 ^ t * (1 - 2 ^ (-(p : Int))) < (M : Rat) * 2 ^ t := by nlinarith
        exact lt_trans h3 (mul_lt_mul_of_pos_right (by exact_mod_cast h2) htpos)
    rw [roundBits_pos p _ hwpos, hbw]
    have hexp : (p : Int) - 1 - (t + (p : Int) - 1) = -t := by ring
    rw [hexp, neg_neg]
    have hsc : (M : Rat) * 2 ^ t * (1 - 2 ^ (-(p : Int))) * 2 ^ (-t) = (M : Rat) - (M : Rat) * 2 ^ (-(p : Int)) := by
      have : (2 : Rat) ^ t * 2 ^ (-t) = 1 := by rw [← zpow_add₀ (by norm_num)]; simp
      calc (M : Rat) * 2 ^ t * (1 - 2 ^ (-(p : Int))) * 2 ^ (-t)
          = (M : Rat) * (1 - 2 ^ (-(p : Int))) * (2 ^ t * 2 ^ (-t)) := by ring
        _ = (M : Rat) - (M : Rat) * 2 ^ (-(p : Int)) := by rw [this]; ring
    rw [hsc]
    have hr : rne ((M : Rat) - (M : Rat) * 2 ^ (-(p : Int))) < M :=
      rne_lt_of_lt_sub_half _ M (by linarith)
    exact mul_lt_mul_of_pos_right (by exact_mod_cast hr) htpos
  · -- M = 2^(p-1): w = (2^p - 1) * 2^(t-1) is representable
    have hw' : (M : Rat) * 2 ^ t * (1 - 2 ^ (-(p : Int)))
        = ((((2 ^ p : Nat) : Int) - 1 : Int) : Rat) * 2 ^ (t - 1) := by
      have e1 : (2 : Rat) ^ (t - 1) = 2 ^ t * 2 ^ (-1 : Int) := by
        rw [← zpow_add₀ (by norm_num)]; congr 1
      have e2 : (2 : Rat) ^ (-1 : Int) = 1 / 2 := by simp
      have hMv : (M : Rat) = (((2 ^ (p - 1) : Nat) : Int) : Rat) := by rw [← heq]
      have hP2 : (((2 ^ p : Nat) : Int) : Rat) = 2 * (M : Rat) := by
        rw [hMv, hpow]; push_cast; ring
      have hMp : (M : Rat) * 2 ^ (-(p : Int)) = 1 / 2 := by
        rw [hP2] at hP; linarith
      have hP2' : (2 : Rat) ^ p = 2 * (M : Rat) := by
        have := hP2
        push_cast at this
        exact this
      rw [e1, e2]
      push_cast
      rw [hP2']
      have : (M : Rat) * 2 ^ t * (1 - 2 ^ (-(p : Int))) = (M : Rat) * 2 ^ t - (M : Rat) * 2 ^ (-(p : Int)) * 2 ^ t := by
        ring
      rw [this, hMp]
      ring
    have hrep := (roundBits_repr p hp (((2 ^ p : Nat) : Int) - 1) (t - 1) (by
      have : 2 ^ (p - 1) ≥ 1 := Nat.one_le_two_pow
      have h3 : ((2 ^ p : Nat) : Int) = 2 * ((2 ^ (p - 1) : Nat) : Int) := by rw [hpow]; push_cast; ring
      omega) (by omega)).1
    rw [hw', hrep, ← hw']
    have : (0 : Rat) < 2 ^ (-(p : Int)) := hpp
    nlinarith

/-- a number representable with `p` bits is representable with more bits (a float32 draw is a double) -/
theorem roundBits_repr_mono (p p' : Nat) (hp : 1 ≤ p) (hpp : p ≤ p') (u : Rat) (hu : roundBits p u = u) :
    roundBits p' u = u := by
  by_cases h0 : u ≤ 0
  · exact roundBits_nonpos p' u h0
  · obtain ⟨M, t, h, h1, h2⟩ := roundBits_is_repr p hp u (not_le.1 h0)
    rw [hu] at h
    obtain ⟨d, rfl⟩ : ∃ d, p' = p + d := ⟨p' - p, by omega⟩
    have e : u = ((M * ((2 ^ d : Nat) : Int) : Int) : Rat) * 2 ^ (t - (d : Int)) := by
      rw [h]
      push_cast
      have : (2 : Rat) ^ (t - (d : Int)) = 2 ^ t * 2 ^ (-(d : Int)) := by
        rw [← zpow_add₀ (by norm_num)]; congr 1
      have h2' : (2 : Rat) ^ d * 2 ^ (-(d : Int)) = 1 := by
        rw [← zpow_natCast, ← zpow_add₀ (by norm_num)]; simp
      rw [this]
      calc (M : Rat) * 2 ^ t = (M : Rat) * 2 ^ t * ((2 : Rat) ^ d * 2 ^ (-(d : Int))) := by rw [h2', mul_one]
        _ = (M : Rat) * 2 ^ d * (2 ^ t * 2 ^ (-(d : Int))) := by ring
    have hd : (0 : Int) < ((2 ^ d : Nat) : Int) := by positivity
    have k1 : ((2 ^ (p + d - 1) : Nat) : Int) ≤ M * ((2 ^ d : Nat) : Int) := by
      have : 2 ^ (p + d - 1) = 2 ^ (p - 1) * 2 ^ d := by
        rw [← Nat.pow_add]; congr 1; omega
      rw [this]; push_cast
      exact Int.mul_le_mul_of_nonneg_right (by exact_mod_cast h1) hd.le
    have k2 : M * ((2 ^ d : Nat) : Int) < ((2 ^ (p + d) : Nat) : Int) := by
      rw [Nat.pow_add]; push_cast
      exact Int.mul_lt_mul_of_pos_right (by exact_mod_cast h2) (by exact_mod_cast hd)
    rw [e]
    exact (roundBits_repr (p + d) (by omega) _ _ k1 k2).1

/-- **`roundBits p` is a `Rounding (2^p)`** for every precision `p ≥ 1`: the executable float32 (`p = 24`) and
float64 (`p = 53`) rounding models of the driver satisfy the hypotheses of `C09_shift_amount_rounded`. -/
theorem rounding_roundBits (p : Nat) (hp : 1 ≤ p) : Rounding (2 ^ p) (roundBits p) where
  mono := roundBits_mono p hp
  nat_exact := fun k hk => roundBits_natCast p hp k hk
  idem := roundBits_idem p hp
  mul_lt := roundBits_mul_lt p hp

/-! ## random_shift in double precision: the amounts are bounded, every request the layer can make is legal
(audit round E) -/

/-- the bound for the double-precision amount, with no hypothesis about rounding -/
theorem shiftAmountF64_bound (prop : Rat) (len : Nat) (u : Rat) (hp : 0 ≤ prop)
    (hB : prop * (len : Rat) ≤ ((2 ^ 53 : Nat) : Rat)) (hu0 : 0 ≤ u) (hu1 : u < 1)
    (hu : roundBits 24 u = u) :
    ((shiftAmountF64 prop len u : Nat) : Rat) ≤ prop * (len : Rat)
      ∧ (0 < prop * (len : Rat) → ((shiftAmountF64 prop len u : Nat) : Rat) < prop * (len : Rat)) :=
  shiftAmountR_le (2 ^ 53) (roundBits 53) (rounding_roundBits 53 (by norm_num)) prop len u hp hB
    hu0 hu1 (roundBits_repr_mono 24 53 (by norm_num) (by norm_num) u hu)

/-- with a proportion `≤ 1` and a non-empty sequence the double-precision amount is `< len`: the reflect
request `random_shift` makes is legal -/
theorem shiftAmountF64_lt_len (prop : Rat) (len : Nat) (u : Rat) (hp : 0 ≤ prop) (hp1 : prop ≤ 1)
    (hB : prop * (len : Rat) ≤ ((2 ^ 53 : Nat) : Rat))
    (hlen : 1 ≤ len) (hu0 : 0 ≤ u) (hu1 : u < 1) (hu : roundBits 24 u = u) :
    shiftAmountF64 prop len u < len := by
  have hl0 : (0 : Rat) ≤ (len : Rat) := Nat.cast_nonneg len
  have hle : prop * (len : Rat) ≤ (len : Rat) := by nlinarith
  obtain ⟨h1, h2⟩ := shiftAmountF64_bound prop len u hp hB hu0 hu1 hu
  have : ((shiftAmountF64 prop len u : Nat) : Rat) < (len : Rat) := by
    by_cases hpos : 0 < prop * (len : Rat)
    · exact lt_of_lt_of_le (h2 hpos) hle
    · have hz : prop * (len : Rat) = 0 := le_antisymm (not_lt.1 hpos) (mul_nonneg hp hl0)
      rw [hz] at h1
      have hl1 : (1 : Rat) ≤ (len : Rat) := by exact_mod_cast hlen
      linarith
  exact_mod_cast this

open PdtVerif.PadSlice in
/-- What the repaired `random_shift` may be asked (one row): rectangular input of time dimension `T`,
`len ≤ T`, `prop * len ≤ 2^53` on both sides, both draws float32 numbers in `[0, 1)` (what `torch.rand`
returns); replicate mode: a non-empty sequence; reflect mode: a non-empty sequence and proportions `≤ 1`
(what `RandomShift.__init__` enforces). NOTHING is assumed about the pad amounts. -/
def ShiftRow.Ok64 {α : Type} (mode : Mode) (T : Nat) (p0 p1 : Rat) (s : ShiftRow α) : Prop :=
  s.x.length = T ∧ s.len ≤ T
  ∧ p0 * (s.len : Rat) ≤ ((2 ^ 53 : Nat) : Rat) ∧ p1 * (s.len : Rat) ≤ ((2 ^ 53 : Nat) : Rat)
  ∧ (0 ≤ s.u0 ∧ s.u0 < 1 ∧ roundBits 24 s.u0 = s.u0) ∧ (0 ≤ s.u1 ∧ s.u1 < 1 ∧ roundBits 24 s.u1 = s.u1)
  ∧ (mode = .replicate → 1 ≤ s.len) ∧ (mode = .reflect → 1 ≤ s.len ∧ p0 ≤ 1 ∧ p1 ≤ 1)

open PdtVerif.PadSlice in
/-- … and then the `pad_variable` request the layer builds from the double-precision amounts is legal -/
theorem ShiftRow.Ok64.legal {α : Type} {mode : Mode} {T : Nat} {p0 p1 : Rat} {s : ShiftRow α}
    (hp0 : 0 ≤ p0) (hp1 : 0 ≤ p1) (h : s.Ok64 mode T p0 p1) :
    (s.toPadWith shiftAmountF64 p0 p1).Legal mode T := by
  obtain ⟨hx, hlen, hB0, hB1, ⟨hu00, hu01, hu0⟩, ⟨hu10, hu11, hu1⟩, hrep, hrefl⟩ := h
  refine ⟨hx, hlen, ?_⟩
  cases mode with
  | constant => rfl
  | replicate => exact decide_eq_true (hrep rfl)
  | reflect =>
    obtain ⟨h1, hq0, hq1⟩ := hrefl rfl
    simp only [ShiftRow.toPadWith, legalPad, Bool.and_eq_true]
    exact ⟨decide_eq_true (shiftAmountF64_lt_len p0 s.len s.u0 hp0 hq0 hB0 h1 hu00 hu01 hu0),
      decide_eq_true (shiftAmountF64_lt_len p1 s.len s.u1 hp1 hq1 hB1 h1 hu10 hu11 hu1)⟩

end PdtVerif.PadChunk
