import PdtVerif.Model.Slicing
import PdtVerif.Spec.SlicePolicy
/-!
# Helper lemmas for C10 (tensor primitives of the slicing model)

Boolean-mask indexing, batch flattening, `masked_scatter` row alignment, `arange` counting,
run boundaries. Core Lean only.
-/
namespace PdtVerif.Slicing
open PdtVerif.SlicePolicy

/-! ## boolean-mask indexing -/

theorem select_append {α} (l1 l2 : List α) (m1 m2 : List Bool) (h : l1.length = m1.length) :
    select (l1 ++ l2) (m1 ++ m2) = select l1 m1 ++ select l2 m2 := by
  induction l1 generalizing m1 with
  | nil =>
    cases m1 with
    | nil => simp [select]
    | cons b bs => simp at h
  | cons x xs ih =>
    cases m1 with
    | nil => simp at h
    | cons b bs =>
      simp only [List.length_cons, Nat.add_right_cancel_iff] at h
      simp only [List.cons_append, select, ih bs h]
      split <;> simp

theorem select_length_le {α} (l : List α) (m : List Bool) : (select l m).length ≤ l.length := by
  induction l generalizing m with
  | nil => cases m <;> simp [select]
  | cons x xs ih =>
    cases m with
    | nil => simp [select]
    | cons b bs =>
      simp only [select]
      split
      · simp only [List.length_cons]; have := ih bs; omega
      · have := ih bs; simp only [List.length_cons]; omega

/-- `x[mask]` where `mask[i] = p x[i] i`. -/
theorem select_zipWith_range' {α} (p : α → Nat → Bool) (l : List α) (s : Nat) :
    select l (List.zipWith p l (List.range' s l.length)) =
      ((l.zip (List.range' s l.length)).filter fun xi => p xi.1 xi.2).map (·.1) := by
  induction l generalizing s with
  | nil => simp [select]
  | cons x xs ih =>
    simp only [List.length_cons, List.range'_succ, List.zipWith_cons_cons, select, List.zip_cons_cons,
      List.filter_cons]
    split <;> simp [ih (s + 1)]

theorem splitLens_flatten {α} (ls : List (List α)) :
    splitLens (ls.map List.length) ls.flatten = ls := by
  induction ls with
  | nil => simp [splitLens]
  | cons l ls ih => simp [splitLens, ih]

theorem select_bound_filter {α} (q : α → Bool) (l : List α) (s b : Nat) :
    select l (List.zipWith (fun x i => decide (i < b) && q x) l (List.range' s l.length)) =
      (l.take (b - s)).filter q := by
  induction l generalizing s with
  | nil => simp [select]
  | cons x xs ih =>
    simp only [List.length_cons, List.range'_succ, List.zipWith_cons_cons, select]
    by_cases h : s < b
    · have hb : b - s = (b - (s + 1)) + 1 := by omega
      rw [hb, List.take_succ_cons, List.filter_cons, ih (s + 1)]
      simp [h]
    · have hb : b - s = 0 := by omega
      have hb' : b - (s + 1) = 0 := by omega
      have := ih (s + 1)
      rw [hb'] at this
      simp [h, hb, this]

theorem select_filter {α} (q : α → Bool) (l : List α) (s : Nat) :
    select l (List.zipWith (fun x (_ : Nat) => q x) l (List.range' s l.length)) = l.filter q := by
  induction l generalizing s with
  | nil => simp [select]
  | cons x xs ih =>
    simp only [List.length_cons, List.range'_succ, List.zipWith_cons_cons, select, List.filter_cons,
      ih (s + 1)]

theorem tokenMask_select (p : Bool) (toks : List Tok) (sl : Int × Int) (refLen : Option Int) :
    select toks (tokenMask p toks sl refLen) = tokensKept p toks sl (refLen.map Int.toNat) := by
  unfold tokenMask tokensKept
  rw [List.range_eq_range']
  cases refLen with
  | none =>
    simp only [Option.map_none]
    rw [← select_filter (fun tk => tokKnown tk && tokInSlice p sl tk) toks 0]
    congr 2
    funext tk r
    cases p <;> simp [tokKnown, tokInSlice, Bool.and_assoc]
  | some l =>
    simp only [Option.map_some]
    have := select_bound_filter (fun tk => tokKnown tk && tokInSlice p sl tk) toks 0 l.toNat
    rw [Nat.sub_zero] at this
    rw [← this]
    congr 2
    funext tk r
    have h : decide (l > (r : Int)) = decide (r < l.toNat) := decide_eq_decide.mpr (by omega)
    cases p <;> simp [tokKnown, tokInSlice, Bool.and_assoc, h]


theorem select_length {α} (l : List α) (m : List Bool) (h : l.length = m.length) :
    (select l m).length = (m.filter id).length := by
  induction l generalizing m with
  | nil => cases m <;> simp_all [select]
  | cons x xs ih =>
    cases m with
    | nil => simp at h
    | cons b bs =>
      simp only [List.length_cons, Nat.add_right_cancel_iff] at h
      cases b <;> simp [select, ih bs h]

theorem tokenMask_length (p : Bool) (toks : List Tok) (sl : Int × Int) (refLen : Option Int) :
    (tokenMask p toks sl refLen).length = toks.length := by
  simp [tokenMask]

/-- Batch-flattened boolean indexing is row-wise boolean indexing. -/
theorem select_flatten_rows {α} (rows : List (List α)) (g : Nat → List Bool)
    (hg : ∀ n, (g n).length = (rows.getD n []).length) :
    select rows.flatten ((List.range rows.length).map g).flatten =
      ((List.range rows.length).map fun n => select (rows.getD n []) (g n)).flatten := by
  induction rows generalizing g with
  | nil => simp [select]
  | cons r rs ih =>
    simp only [List.length_cons, List.range_succ_eq_map, List.map_cons, List.flatten_cons, List.map_map]
    have h0 : r.length = (g 0).length := by simpa using (hg 0).symm
    rw [select_append _ _ _ _ h0]
    have := ih (fun n => g (n + 1)) (fun n => by simpa using hg (n + 1))
    simp only [Function.comp_def, Nat.succ_eq_add_one]
    rw [this]
    simp

theorem zipWith_map_range {α β γ} (f : α → β → γ) (k : Nat → α) (sl : List β) (d : β) :
    List.zipWith f ((List.range sl.length).map k) sl =
      (List.range sl.length).map fun n => f (k n) (sl.getD n d) := by
  apply List.ext_getElem
  · simp
  · intro i h1 h2
    simp at h1
    simp [List.getD_eq_getElem?_getD, h1]

/-- **Master statement for token chunking**: the batch-flattened select / scatter of the code is,
row by row, the declarative filter; the only other thing the code does is `shiftTok`. -/
theorem chunkTokens_eq (p retain : Bool) (refs : List (List Tok)) (slices : List (Int × Int))
    (refLens : Option (List Int)) (hs : slices.length = refs.length) :
    chunkTokens p retain refs slices refLens =
      ((List.range refs.length).map fun n =>
          (tokensKept p (refs.getD n []) (slices.getD n (0, 0))
            (refLens.map fun l => (l.getD n 0).toNat)).map (shiftTok retain (slices.getD n (0, 0)).1),
       (List.range refs.length).map fun n =>
          (tokensKept p (refs.getD n []) (slices.getD n (0, 0))
            (refLens.map fun l => (l.getD n 0).toNat)).length) := by
  unfold chunkTokens
  simp only
  rw [select_flatten_rows refs _ (fun n => tokenMask_length _ _ _ _)]
  simp only [tokenMask_select, Option.map_map, Function.comp_def]
  have hlen : (List.map (fun m => (List.filter id m).length)
      (List.map (fun n => tokenMask p (refs.getD n []) (slices.getD n (0, 0))
        (refLens.map fun l => l.getD n 0)) (List.range refs.length))) =
      ((List.range refs.length).map fun n => tokensKept p (refs.getD n []) (slices.getD n (0, 0))
        (refLens.map fun l => (l.getD n 0).toNat)).map List.length := by
    simp only [List.map_map]
    apply List.map_congr_left
    intro n _
    simp only [Function.comp_def]
    rw [← select_length _ _ (tokenMask_length _ _ _ _).symm, tokenMask_select]
    simp only [Option.map_map, Function.comp_def]
  rw [hlen, splitLens_flatten]
  refine Prod.ext ?_ (by simp)
  simp only
  rw [← hs, zipWith_map_range _ _ slices (0, 0)]

/-! ## policy 'fixed' -/

theorem lt_ceilDiv (k n s : Nat) (hs : 0 < s) : k < (n + s - 1) / s ↔ k * s < n := by
  have h1 : k < (n + s - 1) / s ↔ k + 1 ≤ (n + s - 1) / s := Iff.rfl
  rw [h1, Nat.le_div_iff_mul_le hs, Nat.add_mul]
  omega

theorem filter_range_extend (a d : Nat) (P : Nat → Bool) :
    (List.range (a + d)).filter (fun k => decide (k < a) && P k) = (List.range a).filter P := by
  rw [List.range_eq_range', List.range_eq_range', ← List.range'_append (s := 0) (m := a) (n := d)]
  rw [List.filter_append]
  have h2 : (List.range' (0 + 1 * a) d).filter (fun k => decide (k < a) && P k) = [] := by
    rw [List.filter_eq_nil_iff]
    intro k hk
    have := (List.mem_range'_1.mp hk).1
    simp; omega
  rw [h2, List.append_nil]
  apply List.filter_congr
  intro k hk
  have := (List.mem_range'_1.mp hk).2
  simp; intro; omega

theorem filter_range_eq (a b : Nat) (P Q : Nat → Bool)
    (h : ∀ k, (k < a ∧ P k = true) ↔ (k < b ∧ Q k = true)) :
    (List.range a).filter P = (List.range b).filter Q := by
  have ha := filter_range_extend a (max a b - a) P
  have hb := filter_range_extend b (max a b - b) Q
  have e1 : a + (max a b - a) = max a b := by omega
  have e2 : b + (max a b - b) = max a b := by omega
  rw [e1] at ha
  rw [e2] at hb
  rw [← ha, ← hb]
  apply List.filter_congr
  intro k _
  have := h k
  rw [Bool.eq_iff_iff]
  simpa using this


theorem lt_ceilDiv_sub (k T h s : Nat) (hs : 0 < s) (hh : h < s) :
    k < (T + s - 1 - h) / s ↔ k * s + h < T := by
  by_cases hT : h ≤ T
  · have e : T + s - 1 - h = (T - h) + s - 1 := by omega
    rw [e, lt_ceilDiv _ _ _ hs]
    omega
  · have e : (T + s - 1 - h) / s = 0 := Nat.div_eq_of_lt (by omega)
    rw [e]
    omega

/-- The mid-point the validity mask of the code looks at. -/
def candMid (lobe : Nat) (wt : WinType) (vo : Bool) (s : Int) : Int :=
  if vo then s + fixedSize lobe wt - 1 else fixedMid lobe wt s

theorem fixedCands_spec (T lobe : Nat) (wt : WinType) (vo : Bool) :
    ∃ c, fixedCands T lobe wt vo = (List.range c).map (fun k =>
        ⟨fixedStart lobe wt vo k, fixedStart lobe wt vo k + fixedSize lobe wt,
          candMid lobe wt vo (fixedStart lobe wt vo k)⟩)
      ∧ ∀ k, k < c ↔ fixedKeep lobe wt vo T (fixedStart lobe wt vo k) = true := by
  have hdiv : (lobe + 1) / 2 < lobe + 1 := Nat.div_lt_self (by omega) (by omega)
  have hws : (2 * lobe + 1) / 2 = lobe := by omega
  cases wt <;> cases vo
  · -- symmetric, not valid
    refine ⟨(T + (lobe + 1) - 1 - (lobe + 1) / 2) / (lobe + 1), ?_, ?_⟩
    · simp [fixedCands, fixedStart, fixedOffset, fixedSize, candMid, fixedMid]
      intro k _
      refine ⟨?_, ?_⟩ <;> omega
    · intro k
      rw [lt_ceilDiv_sub _ _ _ _ (by omega) hdiv]
      simp only [fixedKeep, fixedMid, fixedStart, fixedOffset, Bool.false_eq_true, if_false,
        decide_eq_true_eq, hws]
      have : ((k * (lobe + 1) : Nat) : Int) = (k : Int) * ((lobe + 1 : Nat) : Int) := by simp
      omega
  · -- symmetric, valid
    refine ⟨(((max ((T : Int) - (2 * lobe + 1 : Nat) + 1) 0) - 0).toNat + (lobe + 1) - 1) / (lobe + 1), ?_, ?_⟩
    · simp [fixedCands, arange, fixedStart, fixedOffset, fixedSize, candMid]
    · intro k
      rw [lt_ceilDiv _ _ _ (by omega)]
      simp only [fixedKeep, fixedStart, fixedOffset, fixedSize, if_true, Bool.and_eq_true,
        decide_eq_true_eq]
      have : ((k * (lobe + 1) : Nat) : Int) = (k : Int) * ((lobe + 1 : Nat) : Int) := by simp
      omega
  · -- causal, not valid
    refine ⟨((((T : Int) - lobe) - (-(lobe : Int))).toNat + (lobe + 1) - 1) / (lobe + 1), ?_, ?_⟩
    · simp [fixedCands, arange, fixedStart, fixedOffset, fixedSize, candMid, fixedMid]
    · intro k
      rw [lt_ceilDiv _ _ _ (by omega)]
      simp only [fixedKeep, fixedMid, fixedStart, fixedOffset, Bool.false_eq_true, if_false,
        decide_eq_true_eq]
      have : ((k * (lobe + 1) : Nat) : Int) = (k : Int) * ((lobe + 1 : Nat) : Int) := by simp
      omega
  · -- causal, valid
    refine ⟨(((max ((T : Int) - lobe) 0) - 0).toNat + (lobe + 1) - 1) / (lobe + 1), ?_, ?_⟩
    · simp [fixedCands, arange, fixedStart, fixedOffset, fixedSize, candMid]
    · intro k
      rw [lt_ceilDiv _ _ _ (by omega)]
      simp only [fixedKeep, fixedStart, fixedOffset, fixedSize, if_true, Bool.and_eq_true,
        decide_eq_true_eq]
      have : ((k * (lobe + 1) : Nat) : Int) = (k : Int) * ((lobe + 1 : Nat) : Int) := by simp
      omega
  · -- future, not valid
    refine ⟨((((T : Int)) - 0).toNat + (lobe + 1) - 1) / (lobe + 1), ?_, ?_⟩
    · simp [fixedCands, arange, fixedStart, fixedOffset, fixedSize, candMid, fixedMid]
    · intro k
      rw [lt_ceilDiv _ _ _ (by omega)]
      simp only [fixedKeep, fixedMid, fixedStart, fixedOffset, Bool.false_eq_true, if_false,
        decide_eq_true_eq]
      have : ((k * (lobe + 1) : Nat) : Int) = (k : Int) * ((lobe + 1 : Nat) : Int) := by simp
      omega
  · -- future, valid
    refine ⟨(((max ((T : Int) - lobe) 0) - 0).toNat + (lobe + 1) - 1) / (lobe + 1), ?_, ?_⟩
    · simp [fixedCands, arange, fixedStart, fixedOffset, fixedSize, candMid]
    · intro k
      rw [lt_ceilDiv _ _ _ (by omega)]
      simp only [fixedKeep, fixedStart, fixedOffset, fixedSize, if_true, Bool.and_eq_true,
        decide_eq_true_eq]
      have : ((k * (lobe + 1) : Nat) : Int) = (k : Int) * ((lobe + 1 : Nat) : Int) := by simp
      omega


theorem fixedKeep_iff (lobe : Nat) (wt : WinType) (vo : Bool) (x : Nat) (s : Int) :
    fixedKeep lobe wt vo x s = true ↔ (vo = true → 0 ≤ s) ∧ candMid lobe wt vo s < x := by
  cases vo <;> simp [fixedKeep, candMid] <;> omega

/-- No candidate beyond index `len` is ever kept: the range in `SlicePolicy.fixedRow` loses nothing. -/
theorem fixedKeep_bound (lobe : Nat) (wt : WinType) (vo : Bool) (x k : Nat)
    (h : fixedKeep lobe wt vo x (fixedStart lobe wt vo k) = true) : k < x + 1 := by
  have hk : k ≤ k * (lobe + 1) := Nat.le_mul_of_pos_right k (by omega)
  have hc : ((k * (lobe + 1) : Nat) : Int) = (k : Int) * ((lobe + 1 : Nat) : Int) := by simp
  have hws : (2 * lobe + 1) / 2 = lobe := by omega
  cases wt <;> cases vo <;>
    simp only [fixedKeep, fixedMid, fixedStart, fixedOffset, fixedSize, Bool.false_eq_true, if_false,
      if_true, Bool.and_eq_true, decide_eq_true_eq, hws] at h <;> omega

theorem fixedRow_model (T lobe : Nat) (wt : WinType) (vo : Bool) (c : Nat)
    (hk : ∀ k, k < c ↔ fixedKeep lobe wt vo T (fixedStart lobe wt vo k) = true)
    (l : Nat) (hl : l ≤ T) :
    ((List.range c).filter fun k => decide ((l : Int) > candMid lobe wt vo (fixedStart lobe wt vo k))) =
      (List.range (l + 1)).filter fun k => fixedKeep lobe wt vo l (fixedStart lobe wt vo k) := by
  apply filter_range_eq
  intro k
  rw [hk k, decide_eq_true_eq]
  constructor
  · rintro ⟨h1, h2⟩
    have h3 : fixedKeep lobe wt vo l (fixedStart lobe wt vo k) = true := by
      rw [fixedKeep_iff] at h1 ⊢
      exact ⟨h1.1, by omega⟩
    exact ⟨fixedKeep_bound _ _ _ _ _ h3, h3⟩
  · rintro ⟨_, h3⟩
    rw [fixedKeep_iff] at h3 ⊢
    exact ⟨⟨h3.1, by omega⟩, by omega⟩

theorem fixedRow_model_none (T lobe : Nat) (wt : WinType) (vo : Bool) (c : Nat)
    (hk : ∀ k, k < c ↔ fixedKeep lobe wt vo T (fixedStart lobe wt vo k) = true) :
    List.range c =
      (List.range (T + 1)).filter fun k => fixedKeep lobe wt vo T (fixedStart lobe wt vo k) := by
  have : List.range c = (List.range c).filter fun _ => true := (List.filter_eq_self.mpr (fun _ _ => rfl)).symm
  rw [this]
  apply filter_range_eq
  intro k
  rw [hk k]
  constructor
  · rintro ⟨h1, _⟩
    exact ⟨fixedKeep_bound _ _ _ _ _ h1, h1⟩
  · rintro ⟨_, h3⟩
    exact ⟨h3, rfl⟩


theorem flatMap_congr_mem {α β} (l : List α) (f g : α → List β) (h : ∀ a ∈ l, f a = g a) :
    l.flatMap f = l.flatMap g := by
  rw [List.flatMap_def, List.flatMap_def, List.map_congr_left h]

theorem fixedBatch_given (T lobe : Nat) (wt : WinType) (vo : Bool) (lens : List Nat)
    (hl : ∀ l ∈ lens, l ≤ T) :
    fixedBatch lens.length T lobe wt vo (some (lens.map Int.ofNat)) = SlicePolicy.fixed lobe wt vo lens := by
  obtain ⟨c, hc, hk⟩ := fixedCands_spec T lobe wt vo
  unfold fixedBatch SlicePolicy.fixed labelRows fixedRow
  simp only [hc, List.filter_flatMap, List.map_flatMap, List.length_map]
  apply flatMap_congr_mem
  intro n hn
  have hn' : n < lens.length := by simpa using hn
  have hln : lens[n] ≤ T := hl _ (List.getElem_mem hn')
  simp only [List.filter_map, List.map_map, Function.comp_def, List.getD_eq_getElem?_getD,
    List.getElem?_map, List.getElem?_eq_getElem hn', Option.map_some, Option.getD_some]
  have := fixedRow_model T lobe wt vo c hk lens[n] hln
  simp only [candMid] at this
  simp only [Int.ofNat_eq_natCast, candMid]
  rw [this]

theorem fixedBatch_omitted (N T lobe : Nat) (wt : WinType) (vo : Bool) :
    fixedBatch N T lobe wt vo none = SlicePolicy.fixed lobe wt vo (List.replicate N T) := by
  obtain ⟨c, hc, hk⟩ := fixedCands_spec T lobe wt vo
  unfold fixedBatch SlicePolicy.fixed labelRows fixedRow
  simp only [hc, List.map_flatMap, List.length_map, List.length_replicate]
  apply flatMap_congr_mem
  intro n hn
  have hn' : n < N := by simpa using hn
  simp only [List.map_map, Function.comp_def, List.getD_eq_getElem?_getD,
    List.getElem?_map, List.getElem?_replicate, hn', if_true, Option.map_some, Option.getD_some]
  rw [← fixedRow_model_none T lobe wt vo c hk]

/-! ## policy 'ref' -/

theorem select_map_mask {α β} (X : List α) (f : α → β) (m : α → Bool) :
    select (X.map f) (X.map m) = (X.filter m).map f := by
  induction X with
  | nil => simp [select]
  | cons x xs ih =>
    simp only [List.map_cons, select, List.filter_cons, ih]
    split <;> simp

theorem mkWins_map {α} (Y : List α) (f1 f2 : α → Int) (f3 : α → Nat) :
    mkWins (Y.map f1) (Y.map f2) (Y.map f3) = Y.map fun y => ⟨f1 y, f2 y, f3 y⟩ := by
  induction Y with
  | nil => simp [mkWins]
  | cons y ys ih => simp [mkWins, ih]

theorem filterMap_ite {α β} (f : α → Option β) (q : α → Bool) (w : α → β)
    (h : ∀ x, f x = if q x then some (w x) else none) (l : List α) :
    l.filterMap f = (l.filter q).map w := by
  induction l with
  | nil => simp
  | cons x xs ih =>
    cases hq : q x <;> simp [h x, hq, ih]

theorem zipWith_filter_take {α β} (q : α → Bool) (w : α → β) (l : List α) (s b : Nat) :
    ((List.zipWith (fun x i => (decide (i < b) && q x, w x)) l (List.range' s l.length)).filter
        (·.1)).map (·.2) = ((l.take (b - s)).filter q).map w := by
  induction l generalizing s with
  | nil => simp
  | cons x xs ih =>
    simp only [List.length_cons, List.range'_succ, List.zipWith_cons_cons, List.filter_cons]
    by_cases h : s < b
    · have hb : b - s = (b - (s + 1)) + 1 := by omega
      rw [hb, List.take_succ_cons, List.filter_cons]
      by_cases hq : q x <;> simp [h, hq, ih (s + 1)]
    · have hb : b - s = 0 := by omega
      have hb' : b - (s + 1) = 0 := by omega
      have := ih (s + 1)
      rw [hb'] at this
      simp [h, hb, this]

/-- The per-token keep condition of the `'ref'` policy as the code computes it (without the
`t < in_len` part). -/
def refKeepCore (vo : Bool) (other s e s' e' : Int) : Bool :=
  (decide (s ≥ 0) && decide (e ≥ 0)) &&
    (if vo then decide (s' ≥ 0) && decide (e' ≤ other) else decide (e' > 0) && decide (s' < other)) &&
    decide (s' < e')

theorem refDecide_eq (vo : Bool) (other s e s' e' : Int) :
    refDecide vo other s e s' e' = if refKeepCore vo other s e s' e' then some (s', e') else none := by
  unfold refDecide refKeepCore
  cases vo
  · by_cases h1 : s < 0 ∨ e < 0
    · have : ¬ (0 ≤ s ∧ 0 ≤ e) := by omega
      simp [h1, this]
    · by_cases h2 : e' ≤ s'
      · have : ¬ s' < e' := by omega
        simp [h1, h2, this]
      · by_cases h3 : e' ≤ 0 ∨ other ≤ s'
        · have : ¬ (0 < e' ∧ s' < other) := by omega
          simp [h1, h2, h3, this]
        · have h1' : 0 ≤ s ∧ 0 ≤ e := by omega
          have h2' : s' < e' := by omega
          have h3' : 0 < e' ∧ s' < other := by omega
          simp [h1, h2, h3, h1', h2', h3']
  · by_cases h1 : s < 0 ∨ e < 0
    · have : ¬ (0 ≤ s ∧ 0 ≤ e) := by omega
      simp [h1, this]
    · by_cases h2 : e' ≤ s'
      · have : ¬ s' < e' := by omega
        simp [h1, h2, this]
      · by_cases h3 : s' < 0 ∨ other < e'
        · have : ¬ (0 ≤ s' ∧ e' ≤ other) := by omega
          simp [h1, h2, h3, this]
        · have h1' : 0 ≤ s ∧ 0 ≤ e := by omega
          have h2' : s' < e' := by omega
          have h3' : 0 ≤ s' ∧ e' ≤ other := by omega
          simp [h1, h2, h3, h1', h2', h3']

def padL (lobe : Nat) (wt : WinType) (tk : Tok) : Int := if wt.doLeft then tk.2.1 - lobe else tk.2.1
def padR (lobe : Nat) (wt : WinType) (tk : Tok) : Int := if wt.doRight then tk.2.2 + lobe else tk.2.2

def refKeep (lobe : Nat) (wt : WinType) (vo : Bool) (other : Int) (tk : Tok) : Bool :=
  refKeepCore vo other tk.2.1 tk.2.2 (padL lobe wt tk) (padR lobe wt tk)

theorem refWindow_eq (lobe : Nat) (wt : WinType) (vo : Bool) (other : Int) (tk : Tok) :
    refWindow lobe wt vo other tk =
      if refKeep lobe wt vo other tk then some (padL lobe wt tk, padR lobe wt tk) else none := by
  unfold refWindow refKeep padL padR
  exact refDecide_eq _ _ _ _ _ _


theorem refRowMask_length (lobe : Nat) (wt : WinType) (vo : Bool) (row : List Tok) (inLen other : Int) :
    (refRowMask lobe wt vo row inLen other).length = row.length := by
  simp [refRowMask]

/-- One row of the `(N, T)` grid, masked: the declarative per-token filter on the first `in_len`
tokens. -/
theorem refRow_model (lobe : Nat) (wt : WinType) (vo : Bool) (row : List Tok) (inLen other : Int) :
    ((refRowMask lobe wt vo row inLen other).filter (·.1)).map (·.2) =
      refRow lobe wt vo row inLen.toNat other := by
  unfold refRowMask refRow
  rw [filterMap_ite _ _ _ (refWindow_eq lobe wt vo other), List.range_eq_range']
  have := zipWith_filter_take (refKeep lobe wt vo other) (fun tk => (padL lobe wt tk, padR lobe wt tk))
    row 0 inLen.toNat
  rw [Nat.sub_zero] at this
  rw [← this]
  congr 3
  funext tk t
  have h : decide (inLen > (t : Int)) = decide (t < inLen.toNat) := decide_eq_decide.mpr (by omega)
  cases vo <;> simp only [refKeep, refKeepCore, padL, padR, h, Bool.and_assoc, Bool.false_eq_true, if_false, if_true, ge_iff_le, gt_iff_lt]
  all_goals rfl

theorem refBatch_rows (T lobe : Nat) (wt : WinType) (vo : Bool) (rows : List (List Tok))
    (inLens otherLens : Option (List Int)) (hrows : ∀ r ∈ rows, r.length = T) :
    refBatch T lobe wt vo rows inLens otherLens =
      (List.range rows.length).flatMap fun n =>
        ((refRowMask lobe wt vo (rows.getD n [])
            ((inLens.getD (List.replicate rows.length (T : Int))).getD n 0)
            ((match otherLens with
              | some o => o
              | none => List.zipWith refDefaultOther rows
                  (inLens.getD (List.replicate rows.length (T : Int)))).getD n 0)).filter (·.1)).map
          fun x => ⟨x.2.1, x.2.2, n⟩ := by
  unfold refBatch
  simp only
  generalize hG : (fun n => refRowMask lobe wt vo (rows.getD n [])
      ((inLens.getD (List.replicate rows.length (T : Int))).getD n 0)
      ((match otherLens with
        | some o => o
        | none => List.zipWith refDefaultOther rows
            (inLens.getD (List.replicate rows.length (T : Int)))).getD n 0)) = G
  have hGlen : ∀ n, n < rows.length → (G n).length = T := by
    intro n hn
    rw [← hG, refRowMask_length]
    apply hrows
    simp [List.getD_eq_getElem?_getD, List.getElem?_eq_getElem hn]
  let X := ((List.range rows.length).map fun n => (G n).map fun x => (x, n)).flatten
  have hmask : (List.map (fun x => List.map (fun x => x.1) x) (List.map G (List.range rows.length))).flatten
      = X.map (·.1.1) := by
    simp only [X, List.map_flatten, List.map_map, Function.comp_def]
  have hst : (List.map (fun x => List.map (fun x => x.2.1) x) (List.map G (List.range rows.length))).flatten
      = X.map (·.1.2.1) := by
    simp only [X, List.map_flatten, List.map_map, Function.comp_def]
  have hen : (List.map (fun x => List.map (fun x => x.2.2) x) (List.map G (List.range rows.length))).flatten
      = X.map (·.1.2.2) := by
    simp only [X, List.map_flatten, List.map_map, Function.comp_def]
  have hsrc : (List.map (fun n => List.replicate T n) (List.range rows.length)).flatten = X.map (·.2) := by
    simp only [X, List.map_flatten, List.map_map, Function.comp_def]
    congr 1
    apply List.map_congr_left
    intro n hn
    have hn' : n < rows.length := by simpa using hn
    rw [List.map_const', hGlen n hn']
  rw [hmask, hst, hen, hsrc, select_map_mask, select_map_mask, select_map_mask, mkWins_map]
  simp only [X, ← List.flatMap_def, List.filter_flatMap, List.map_flatMap, List.filter_map, List.map_map,
    Function.comp_def]
  rw [← hG]


/-- The lengths the specification is evaluated with. -/
def lensOf (T N : Nat) (inLens : Option (List Int)) : List Nat :=
  match inLens with
  | none => List.replicate N T
  | some l => l.map Int.toNat

def othersOf (N : Nat) (otherLens : Option (List Int)) : List (Option Int) :=
  match otherLens with
  | none => List.replicate N none
  | some o => o.map some

theorem getD_map_toNat (l : List Int) (n : Nat) : (l.map Int.toNat).getD n 0 = (l.getD n 0).toNat := by
  simp only [List.getD_eq_getElem?_getD, List.getElem?_map]
  cases l[n]? <;> simp

theorem lensOf_getD (T N : Nat) (inLens : Option (List Int)) (n : Nat) (hn : n < N) :
    (lensOf T N inLens).getD n 0 = ((inLens.getD (List.replicate N (T : Int))).getD n 0).toNat := by
  cases inLens with
  | none => simp [lensOf, List.getD_eq_getElem?_getD, List.getElem?_replicate, hn]
  | some l => simp only [lensOf, getD_map_toNat, Option.getD_some]

theorem refDefaultOther_eq (row : List Tok) (inLen : Int) (h0 : 0 ≤ inLen) (h1 : inLen ≤ row.length) :
    refDefaultOther row inLen = refOther row inLen.toNat := by
  unfold refDefaultOther refOther
  by_cases hz : inLen = 0
  · subst hz; simp
  · have hk : 0 < inLen.toNat := by omega
    have hk' : inLen.toNat ≤ row.length := by omega
    have e1 : (max (inLen - 1) 0).toNat = inLen.toNat - 1 := by omega
    have hlt : inLen.toNat - 1 < row.length := by omega
    simp only [beq_iff_eq, hz, if_false, e1, List.getLast?_eq_getElem?, List.length_take,
      Nat.min_eq_left hk', List.getElem?_take, List.getD_eq_getElem?_getD, List.getElem?_map]
    have : inLen.toNat - 1 < inLen.toNat := by omega
    simp [this, List.getElem?_eq_getElem hlt]

theorem C10_ref_aux (T lobe : Nat) (wt : WinType) (vo : Bool) (rows : List (List Tok))
    (inLens otherLens : Option (List Int)) (hrows : ∀ r ∈ rows, r.length = T)
    (hin : ∀ l, inLens = some l → l.length = rows.length ∧ ∀ x ∈ l, 0 ≤ x ∧ x ≤ (T : Int))
    (hother : ∀ o, otherLens = some o → o.length = rows.length) :
    refBatch T lobe wt vo rows inLens otherLens =
      SlicePolicy.ref lobe wt vo rows (lensOf T rows.length inLens) (othersOf rows.length otherLens) := by
  rw [refBatch_rows T lobe wt vo rows inLens otherLens hrows]
  unfold SlicePolicy.ref labelRows
  simp only [List.length_map, List.length_range]
  apply flatMap_congr_mem
  intro n hn
  have hn' : n < rows.length := by simpa using hn
  simp only [List.getD_eq_getElem?_getD, List.getElem?_map, List.getElem?_range hn', Option.map_some,
    Option.getD_some]
  have hL := lensOf_getD T rows.length inLens n hn'
  simp only [List.getD_eq_getElem?_getD] at hL
  rw [hL]
  have hrow : (rows[n]?.getD []) = rows[n] := by simp [List.getElem?_eq_getElem hn']
  have hrowlen : rows[n].length = T := hrows _ (List.getElem_mem hn')
  have hinLlen : (inLens.getD (List.replicate rows.length (T : Int))).length = rows.length := by
    cases inLens with
    | none => simp
    | some l => simpa using (hin l rfl).1
  have hnl : n < (inLens.getD (List.replicate rows.length (T : Int))).length := by omega
  have hiL0 : 0 ≤ (inLens.getD (List.replicate rows.length (T : Int)))[n] ∧
      (inLens.getD (List.replicate rows.length (T : Int)))[n] ≤ (T : Int) := by
    cases inLens with
    | none => simp
    | some l => exact (hin l rfl).2 _ (List.getElem_mem _)
  rw [hrow]
  simp only [List.getElem?_eq_getElem hnl, Option.getD_some]
  generalize hiLdef : (inLens.getD (List.replicate rows.length (T : Int)))[n] = iL at hiL0 ⊢
  have hoth : ((match otherLens with
        | some o => o
        | none => List.zipWith refDefaultOther rows (inLens.getD (List.replicate rows.length (T : Int))))[n]?.getD 0)
      = (((othersOf rows.length otherLens)[n]?.getD none).getD (refOther rows[n] iL.toNat)) := by
    cases otherLens with
    | some o =>
      have ho : n < o.length := by have := hother o rfl; omega
      simp [othersOf, List.getElem?_eq_getElem ho]
    | none =>
      simp only [othersOf, List.getElem?_replicate, hn', if_true, Option.getD_some, Option.getD_none,
        List.getElem?_zipWith, List.getElem?_eq_getElem hn', List.getElem?_eq_getElem hnl, hiLdef]
      rw [refDefaultOther_eq _ _ hiL0.1 (by omega)]
  rw [hoth, ← refRow_model, List.map_map]
  rfl

/-! ## valid-only windows of the declarative policies lie inside -/

theorem mem_labelRows (rows : List (List (Int × Int))) (w : Win) :
    w ∈ labelRows rows ↔ w.src < rows.length ∧ (w.start, w.stop) ∈ rows.getD w.src [] := by
  unfold labelRows
  simp only [List.mem_flatMap, List.mem_range, List.mem_map]
  constructor
  · rintro ⟨n, hn, p, hp, rfl⟩
    exact ⟨hn, hp⟩
  · rintro ⟨h1, h2⟩
    exact ⟨w.src, h1, (w.start, w.stop), h2, rfl⟩

theorem fixed_spec_inside (lobe : Nat) (wt : WinType) (lens : List Nat) (w : Win)
    (hw : w ∈ SlicePolicy.fixed lobe wt true lens) :
    w.src < lens.length ∧ Inside w (lens.getD w.src 0) := by
  unfold SlicePolicy.fixed at hw
  rw [mem_labelRows] at hw
  obtain ⟨h1, h2⟩ := hw
  have h1' : w.src < lens.length := by simpa using h1
  refine ⟨h1', ?_⟩
  simp only [List.getD_eq_getElem?_getD, List.getElem?_map, List.getElem?_eq_getElem h1', Option.map_some,
    Option.getD_some, fixedRow, List.mem_map, List.mem_filter] at h2 ⊢
  obtain ⟨k, ⟨_, hk⟩, hk2⟩ := h2
  simp only [fixedKeep, if_true, Bool.and_eq_true, decide_eq_true_eq] at hk
  have e1 : w.start = fixedStart lobe wt true k := by simpa using (congrArg Prod.fst hk2).symm
  have e2 : w.stop = fixedStart lobe wt true k + fixedSize lobe wt := by
    simpa using (congrArg Prod.snd hk2).symm
  have hs : 0 < fixedSize lobe wt := by cases wt <;> simp [fixedSize]
  unfold Inside
  omega

theorem refDecide_inside (other s e s' e' : Int) (p : Int × Int)
    (h : refDecide true other s e s' e' = some p) : 0 ≤ p.1 ∧ p.1 < p.2 ∧ p.2 ≤ other := by
  unfold refDecide at h
  simp only [if_true] at h
  split at h
  · cases h
  · split at h
    · cases h
    · split at h
      · cases h
      · cases h
        simp only
        omega

theorem ref_spec_inside (lobe : Nat) (wt : WinType) (rows : List (List Tok)) (inLens : List Nat)
    (others : List (Option Int)) (w : Win) (hw : w ∈ SlicePolicy.ref lobe wt true rows inLens others) :
    w.src < rows.length ∧
      Inside w ((others.getD w.src none).getD (refOther (rows.getD w.src []) (inLens.getD w.src 0))) := by
  unfold SlicePolicy.ref at hw
  rw [mem_labelRows] at hw
  obtain ⟨h1, h2⟩ := hw
  have h1' : w.src < rows.length := by simpa using h1
  refine ⟨h1', ?_⟩
  simp only [List.getD_eq_getElem?_getD, List.getElem?_map, List.getElem?_range h1', Option.map_some,
    Option.getD_some, refRow, List.mem_filterMap] at h2 ⊢
  obtain ⟨tk, _, htk⟩ := h2
  have := refDecide_inside _ _ _ _ _ _ htk
  unfold Inside
  exact this

/-! ## policy 'ali': the lobe index arithmetic -/

theorem select_map {α β} (f : α → β) (l : List α) (m : List Bool) :
    (select l m).map f = select (l.map f) m := by
  induction l generalizing m with
  | nil => cases m <;> simp [select]
  | cons x xs ih =>
    cases m with
    | nil => simp [select]
    | cons b bs => cases b <;> simp [select, ih]

theorem mkWins_select (a b : List Int) (c : List Nat) (m : List Bool) :
    mkWins (select a m) (select b m) (select c m) = select (mkWins a b c) m := by
  induction m generalizing a b c with
  | nil => cases a <;> cases b <;> cases c <;> simp [select, mkWins]
  | cons t ts ih =>
    cases a with
    | nil => simp [select, mkWins]
    | cons x xs =>
      cases b with
      | nil => cases t <;> simp [select, mkWins]
      | cons y ys =>
        cases c with
        | nil => cases t <;> simp [select, mkWins]
        | cons z zs => cases t <;> simp [select, mkWins, ih]

theorem mem_select {α} (l : List α) (m : List Bool) (x : α) (h : x ∈ select l m) :
    ∃ j : Nat, l[j]? = some x ∧ m[j]? = some true := by
  induction l generalizing m with
  | nil => cases m <;> simp [select] at h
  | cons y ys ih =>
    cases m with
    | nil => simp [select] at h
    | cons b bs =>
      cases b
      · simp only [select, Bool.false_eq_true, if_false] at h
        obtain ⟨j, h1, h2⟩ := ih bs h
        exact ⟨j + 1, by simpa using h1, by simpa using h2⟩
      · simp only [select, if_true, List.mem_cons] at h
        rcases h with h | h
        · exact ⟨0, by simp [h], by simp⟩
        · obtain ⟨j, h1, h2⟩ := ih bs h
          exact ⟨j + 1, by simpa using h1, by simpa using h2⟩

theorem getElem?_mkWins (a b : List Int) (c : List Nat) (j : Nat) (w : Win)
    (h : (mkWins a b c)[j]? = some w) :
    a[j]? = some w.start ∧ b[j]? = some w.stop ∧ c[j]? = some w.src := by
  induction a generalizing b c j with
  | nil => simp [mkWins] at h
  | cons x xs ih =>
    cases b with
    | nil => simp [mkWins] at h
    | cons y ys =>
      cases c with
      | nil => simp [mkWins] at h
      | cons z zs =>
        cases j with
        | zero =>
          simp only [mkWins, List.getElem?_cons_zero, Option.some.injEq] at h
          subst h; simp
        | succ j =>
          simp only [mkWins, List.getElem?_cons_succ] at h
          simpa using ih ys zs j h

/-- Well-formedness of the batch-flattened run lists: run `i` starts before run `j ≥ i` of the same
sequence ends, and no run ends beyond its sequence. -/
def RunsWf (len : Nat → Int) (sources starts ends : List Nat) : Prop :=
  ∀ (i j n a b : Nat), i ≤ j → sources[i]? = some n → sources[j]? = some n → starts[i]? = some a →
    ends[j]? = some b → (a : Int) < b ∧ (b : Int) ≤ len n

theorem aliLobe_valid_inside (len : Nat → Int) (lobe : Nat) (wt : WinType)
    (sources starts ends : List Nat) (hwf : RunsWf len sources starts ends) (w : Win)
    (hw : w ∈ aliLobe lobe wt true sources starts ends) : Inside w (len w.src) := by
  unfold aliLobe at hw
  split at hw
  · -- lobe = 0
    obtain ⟨j, hj⟩ := List.getElem?_of_mem hw
    obtain ⟨h1, h2, h3⟩ := getElem?_mkWins _ _ _ _ _ hj
    simp only [List.getElem?_map, Option.map_eq_some_iff] at h1 h2
    obtain ⟨a, ha, ha'⟩ := h1
    obtain ⟨b, hb, hb'⟩ := h2
    have := hwf j j w.src a b (Nat.le_refl _) h3 h3 ha hb
    unfold Inside
    simp only [Int.ofNat_eq_natCast] at ha' hb'
    omega
  · simp only [if_true] at hw
    rw [select_map, select_map, mkWins_select] at hw
    obtain ⟨j, hj, hm⟩ := mem_select _ _ _ hw
    obtain ⟨h1, h2, h3⟩ := getElem?_mkWins _ _ _ _ _ hj
    simp only [List.getElem?_map, Option.map_eq_some_iff, List.getElem?_take, List.getElem?_drop] at h1 h2 h3
    obtain ⟨a, ha, ha'⟩ := h1
    obtain ⟨b, hb, hb'⟩ := h2
    generalize (wt.doLeft.toNat + wt.doRight.toNat) * lobe = offs at *
    split at ha
    · rename_i hjk
      simp only [hjk, if_true] at h3
      simp only [List.getElem?_zipWith, List.getElem?_take, hjk, if_true, List.getElem?_drop, h3] at hm
      cases hs2 : sources[offs + j]? with
      | none => simp [hs2] at hm
      | some n2 =>
        simp only [hs2, Option.some.injEq, beq_iff_eq] at hm
        have := hwf j (offs + j) w.src a b (by omega) h3 (by rw [hs2, hm]) ha hb
        unfold Inside
        simp only [Int.ofNat_eq_natCast] at ha' hb'
        omega
    · cases ha

end PdtVerif.Slicing
