import PdtVerif.Model.Beam
import PdtVerif.Spec.Beam
/-!
# Helper lemmas for C04 (beam search)

Part 1: scores, `chain`, flat indexing of uniform nested lists, the shape of one new slot.
Part 2: the step invariant for one batch element.
Part 3: the batch step, the loop, `search`.
-/
namespace PdtVerif.Beam

/-! ## Scores -/

theorem Score.add_ne_none {a b : Score} (h : a.add b ≠ none) : a ≠ none ∧ b ≠ none := by
  cases a <;> cases b <;> simp_all [Score.add]

theorem Score.add_zero (a : Score) : a.add (some 0) = a := by
  cases a <;> simp [Score.add, Rat.add_zero]

theorem Score.le_none (a : Score) : Score.le none a = true := by
  cases a <;> rfl

/-! ## `chain` -/

theorem chainFrom_append (spec : List Int → List Score) (pre : List Int) (acc : Score)
    (q : List Int) (v : Int) :
    chainFrom spec pre acc (q ++ [v])
      = (chainFrom spec pre acc q).add (tokScore (spec (pre ++ q)) v) := by
  induction q generalizing pre acc with
  | nil => simp [chainFrom]
  | cons x q ih => simp [chainFrom, ih, List.append_assoc]

theorem chain_append (spec : List Int → List Score) (p : List Int) (v : Int) :
    chain spec (p ++ [v]) = (chain spec p).add (tokScore (spec p) v) := by
  simpa [chain] using chainFrom_append spec [] (some 0) p v

theorem chain_nil (spec : List Int → List Score) : chain spec [] = some 0 := rfl

/-! ## Flat indexing -/

theorem getElem?_flatMap_uniform {α β} (l : List α) (f : α → List β) (m : Nat)
    (hm : ∀ a ∈ l, (f a).length = m) (i j : Nat) (hj : j < m) :
    (l.flatMap f)[i * m + j]? = (l[i]?).bind fun a => (f a)[j]? := by
  induction l generalizing i with
  | nil => simp
  | cons a l ih =>
    have ha : (f a).length = m := hm a (by simp)
    have hl : ∀ b ∈ l, (f b).length = m := fun b hb => hm b (by simp [hb])
    cases i with
    | zero =>
      simp only [List.flatMap_cons, Nat.zero_mul, Nat.zero_add, List.getElem?_cons_zero,
        Option.bind_some]
      rw [List.getElem?_append_left (by omega)]
    | succ i =>
      simp only [List.flatMap_cons, List.getElem?_cons_succ]
      rw [List.getElem?_append_right (by rw [ha, Nat.succ_mul]; omega)]
      have : (i + 1) * m + j - (f a).length = i * m + j := by
        rw [ha, Nat.succ_mul]; omega
      rw [this]
      exact ih hl i

theorem length_flatMap_uniform {α β} (l : List α) (f : α → List β) (m : Nat)
    (hm : ∀ a ∈ l, (f a).length = m) : (l.flatMap f).length = l.length * m := by
  induction l with
  | nil => simp
  | cons a l ih =>
    have ha : (f a).length = m := hm a (by simp)
    have hl : ∀ b ∈ l, (f b).length = m := fun b hb => hm b (by simp [hb])
    simp [List.flatMap_cons, ih hl, ha, Nat.succ_mul]; omega

/-! ## Part 2 — one element, one step -/

variable {σ : Type}

/-- The assumed contract of the language model (after `log_softmax` and the hook):
`spec h` is the score row after history `h`; `Rep h st` says that `st` is a valid `prev` for
index `h.length` on any history tensor that starts with `h`. -/
structure LMOK (V : Nat) (lm : LM σ) (spec : List Int → List Score)
    (Rep : List Int → σ → Prop) : Prop where
  len : ∀ t col st, (lm.run t col st).1.length = V
  step : ∀ h st col, Rep h st → col.take h.length = h →
    (lm.run h.length col st).1 = spec h ∧ ∀ v, Rep (h ++ [v]) (lm.run h.length col st).2

/-- What the property demands of a usable slot. -/
structure SlotOK (cfg : Cfg) (spec : List Int → List Score) (s : Slot) : Prop where
  range : ∀ x ∈ s.path, 0 ≤ x ∧ x < (cfg.V : Int)
  score : s.score = chain spec s.path
  eos : EosOnlyLast cfg.eos s.path

/-- Invariant of a beam that does not depend on the step counter. -/
structure Static (cfg : Cfg) (spec : List Int → List Score) (S : Nat) (slots : List Slot) :
    Prop where
  colLen : ∀ s ∈ slots, s.col.length = S
  lenLe : ∀ s ∈ slots, s.len ≤ S
  ok : ∀ s ∈ slots, s.score ≠ none → SlotOK cfg spec s
  distinct : slots.Pairwise fun a b => a.score ≠ none → b.score ≠ none → a.path ≠ b.path
  sorted : SortedScores (slots.map (·.score))

/-- Invariant of a beam that is still being extended at step `t`. -/
def Live (cfg : Cfg) (Rep : List Int → σ → Prop) (t : Nat) (e : Elem σ) : Prop :=
  ∀ (k : Nat) s st, e.slots[k]? = some s → e.sts[k]? = some st → s.score ≠ none →
    s.len ≤ t ∧ (lastIsEos cfg.eos s = false → s.len = t ∧ Rep s.path st)

/-- Row `k` of `elemRows`. -/
def rowOf (cfg : Cfg) (lm : LM σ) (t : Nat) (s : Slot) (st : σ) : List Score × σ :=
  let r := lm.run t (s.col.map (clampTok cfg.V)) st
  (match cfg.eos with
    | some eo => if isEnded cfg.eos t s then eosRow cfg.V eo else r.1
    | none => r.1, r.2)

theorem elemRows_eq (cfg : Cfg) (lm : LM σ) (t : Nat) (e : Elem σ) :
    elemRows cfg lm t e = (e.slots.zip e.sts).map fun p => rowOf cfg lm t p.1 p.2 := rfl

theorem eosRow_length (V : Nat) (e : Int) : (eosRow V e).length = V := by simp [eosRow]

theorem rowOf_length {cfg : Cfg} {lm : LM σ} {spec Rep} (h : LMOK cfg.V lm spec Rep) (t s st) :
    (rowOf cfg lm t s st).1.length = cfg.V := by
  unfold rowOf
  cases cfg.eos with
  | none => simp [h.len]
  | some eo =>
    simp only
    split
    · exact eosRow_length _ _
    · exact h.len _ _ _

theorem zip_map_zip {α β γ δ} (l1 : List α) (l2 : List β) (f : α → γ) (g : α × β → δ) :
    (l1.map f).zip ((l1.zip l2).map g) = (l1.zip l2).map fun p => (f p.1, g p) := by
  induction l1 generalizing l2 with
  | nil => simp
  | cons a l1 ih =>
    cases l2 with
    | nil => simp
    | cons b l2 => simp [ih]

theorem cands_eq (cfg : Cfg) (lm : LM σ) (t : Nat) (e : Elem σ) :
    candidates (e.slots.map (clampSlot cfg.V)) ((elemRows cfg lm t e).map (·.1))
      = (e.slots.zip e.sts).flatMap fun p =>
          (rowOf cfg lm t p.1 p.2).1.map fun x => p.1.score.add x := by
  unfold candidates
  rw [elemRows_eq, List.map_map, zip_map_zip, List.flatMap_map]
  rfl

theorem flat_div {V : Nat} (k v : Nat) (hv : v < V) : (k * V + v) / V = k := by
  have hV : 0 < V := by omega
  rw [Nat.add_comm, Nat.add_mul_div_right _ _ hV, Nat.div_eq_of_lt hv, Nat.zero_add]

theorem flat_mod {V : Nat} (k v : Nat) (hv : v < V) : (k * V + v) % V = v := by
  rw [Nat.add_comm, Nat.add_mul_mod_self_right, Nat.mod_eq_of_lt hv]

/-- Shape of the slot `extend` builds (the `y_prev_lens` branch), stated on the stored column. -/
theorem extend_spec {V S : Nat} {grow : Bool} {slots : List Slot} {cands : List Score}
    {k v : Nat} (hv : v < V) {p : Slot} (hp : slots[k]? = some p)
    (hcol : p.col.length = S) (hlen : p.len ≤ S) (hg : p.len = S → grow = true) :
    let x := extend V S true grow slots cands (k * V + v)
    x.len = p.len + 1 ∧ x.col.length = (if grow then S + 1 else S) ∧
      x.col.take p.len = p.col.take p.len ∧ x.col[p.len]? = some (v : Int) ∧
      x.score = cands.getD (k * V + v) none := by
  intro x
  have hx : x = extend V S true grow slots cands (k * V + v) := rfl
  clear_value x
  unfold extend at hx
  rw [flat_div k v hv, flat_mod k v hv] at hx
  have hpd : slots.getD k Slot.dflt = p := by simp [List.getD_eq_getElem?_getD, hp]
  rw [hpd] at hx
  by_cases hS : S = 0
  · have hl0 : p.len = 0 := by omega
    have hgt : grow = true := hg (by omega)
    have hc0 : p.col = [] := List.eq_nil_of_length_eq_zero (by omega)
    simp only [hS, if_true] at hx
    subst hx
    simp [hl0, hgt, hS, hc0]
  · simp only [hS, if_false, Bool.not_true, Bool.false_eq_true] at hx
    subst hx
    cases grow with
    | true =>
      simp only [if_true]
      refine ⟨trivial, by simp [hcol], ?_, ?_, trivial⟩
      · rw [List.take_set, List.take_append_of_le_length (by omega)]
        exact List.set_eq_of_length_le (by simp; omega)
      · rw [List.getElem?_set]; simp; omega
    | false =>
      have hlt : p.len < S := by
        rcases Nat.lt_or_ge p.len S with h | h
        · exact h
        · exact absurd (hg (by omega)) (by simp)
      simp only [Bool.false_eq_true, if_false]
      refine ⟨trivial, by simp [hcol], ?_, ?_, trivial⟩
      · rw [List.take_set]
        exact List.set_eq_of_length_le (by simp; omega)
      · rw [List.getElem?_set]; simp; omega

def padSlot (S : Nat) (junk : Int) : Slot := ⟨List.replicate (S + 1) junk, 0, none⟩

/-- The slot `stepElem` produces for flat index `ind` (extension + length decrement). -/
def newSlot (cfg : Cfg) (t S : Nat) (grow : Bool) (slots : List Slot) (cands : List Score)
    (ind : Nat) : Slot :=
  let s := extend cfg.V S true grow (slots.map (clampSlot cfg.V)) cands ind
  if isEnded cfg.eos t (slots.getD (ind / cfg.V) Slot.dflt) then { s with len := s.len - 1 } else s

def candsOf (cfg : Cfg) (lm : LM σ) (t : Nat) (e : Elem σ) : List Score :=
  candidates (e.slots.map (clampSlot cfg.V)) ((elemRows cfg lm t e).map (·.1))

def kOf (cfg : Cfg) (e : Elem σ) : Nat := min cfg.width (e.slots.length * cfg.V)

theorem zip_map_same {α β γ} (l : List α) (f : α → β) (g : α → γ) :
    (l.map f).zip (l.map g) = l.map fun a => (f a, g a) := by
  induction l with
  | nil => rfl
  | cons a l ih => simp [ih]

theorem stepElem_eq (sel : Sel) (cfg : Cfg) (lm : LM σ) (t S : Nat) (grow : Bool) (e : Elem σ) :
    stepElem sel cfg lm t S grow e =
      ((sel (candsOf cfg lm t e) (kOf cfg e)).map (newSlot cfg t S grow e.slots (candsOf cfg lm t e))
          ++ List.replicate (cfg.width - kOf cfg e) (padSlot S cfg.junk),
        (sel (candsOf cfg lm t e) (kOf cfg e)).map (· / cfg.V)
          ++ List.replicate (cfg.width - kOf cfg e) 0,
        (elemRows cfg lm t e).map (·.2)) := by
  unfold stepElem advanceRow
  simp only [List.length_map]
  refine Prod.ext ?_ rfl
  simp only
  rw [List.zip_append (by simp), zip_map_same, List.zip_replicate', List.map_append, List.map_map,
    List.map_replicate]
  congr 1
  cases h : isEnded cfg.eos t (e.slots.getD 0 Slot.dflt) <;> simp [padSlot, kOf]

theorem clampTok_id {V : Nat} {x : Int} (h : 0 ≤ x ∧ x < (V : Int)) : clampTok V x = x := by
  unfold clampTok; omega

theorem Slot.path_length {s : Slot} (h : s.len ≤ s.col.length) : s.path.length = s.len := by
  simp [Slot.path, Nat.min_eq_left h]

theorem clampSlot_path {V : Nat} {p : Slot} (h : ∀ x ∈ p.path, 0 ≤ x ∧ x < (V : Int)) :
    (clampSlot V p).col.take p.len = p.path := by
  simp only [clampSlot, ← List.map_take]
  exact (List.map_congr_left fun x hx => clampTok_id (h x hx)).trans (List.map_id _)

theorem path_getLast? {s : Slot} (h : s.len ≤ s.col.length) (h0 : 0 < s.len) :
    s.path.getLast? = s.col[s.len - 1]? := by
  rw [List.getLast?_eq_getElem?, Slot.path_length h, Slot.path, List.getElem?_take]
  simp; omega

theorem not_mem_of_eosOnlyLast {eo : Int} {p : List Int} (h : eo ∉ p.dropLast)
    (hl : p.getLast? ≠ some eo) : eo ∉ p := by
  intro hm
  rcases List.eq_nil_or_concat p with hnil | ⟨q, x, rfl⟩
  · simp [hnil] at hm
  · simp at h hl hm
    rcases hm with hm | hm
    · exact h hm
    · exact hl hm.symm

theorem lastIsEos_some {eo : Int} {s : Slot} :
    lastIsEos (some eo) s = true ↔ 0 < s.len ∧ s.col[s.len - 1]? = some eo := by
  simp [lastIsEos]

theorem cands_get {cfg : Cfg} {lm : LM σ} {spec Rep} (hlm : LMOK cfg.V lm spec Rep) (t : Nat)
    (e : Elem σ) {k v : Nat} (hv : v < cfg.V) {p : Slot} {st : σ}
    (hp : e.slots[k]? = some p) (hs : e.sts[k]? = some st) :
    (candsOf cfg lm t e).getD (k * cfg.V + v) none
      = p.score.add ((rowOf cfg lm t p st).1.getD v none) := by
  have hz : (e.slots.zip e.sts)[k]? = some (p, st) := by
    rw [List.getElem?_zip_eq_some]; exact ⟨hp, hs⟩
  have hlen : v < (rowOf cfg lm t p st).1.length := by rw [rowOf_length hlm]; exact hv
  rw [List.getD_eq_getElem?_getD, candsOf, cands_eq,
    getElem?_flatMap_uniform _ _ cfg.V (fun a _ => by simp [rowOf_length hlm]) k v hv, hz]
  simp [List.getD_eq_getElem?_getD, List.getElem?_eq_getElem hlen]

theorem tokScore_nat (row : List Score) (v : Nat) : tokScore row (v : Int) = row.getD v none := by
  simp [tokScore]; omega

/-- Everything about one new slot. -/
theorem newSlot_spec {cfg : Cfg} {lm : LM σ} {spec Rep} (hlm : LMOK cfg.V lm spec Rep)
    {t S : Nat} {grow : Bool} {e : Elem σ}
    (hst : Static cfg spec S e.slots) (hlive : Live cfg Rep t e)
    (hg : ∀ s ∈ e.slots, s.len = S → grow = true)
    {k v : Nat} (hv : v < cfg.V) {p : Slot} {st : σ}
    (hp : e.slots[k]? = some p) (hs : e.sts[k]? = some st) :
    let ns := newSlot cfg t S grow e.slots (candsOf cfg lm t e) (k * cfg.V + v)
    ns.col.length = (if grow then S + 1 else S) ∧ ns.len ≤ (if grow then S + 1 else S) ∧
    ns.score = (candsOf cfg lm t e).getD (k * cfg.V + v) none ∧
    (ns.score ≠ none → p.score ≠ none ∧ SlotOK cfg spec ns ∧
      ((isEnded cfg.eos t p = true ∧ ns.path = p.path ∧ cfg.eos = some (v : Int) ∧
          lastIsEos cfg.eos ns = true ∧ ns.len ≤ t) ∨
        (isEnded cfg.eos t p = false ∧ ns.path = p.path ++ [(v : Int)] ∧ ns.len = t + 1 ∧
          p.path.length = t ∧ Rep ns.path (rowOf cfg lm t p st).2))) := by
  intro ns
  have hpm : p ∈ e.slots := List.mem_of_getElem? hp
  have hcol := hst.colLen p hpm
  have hlen := hst.lenLe p hpm
  have hcp : (e.slots.map (clampSlot cfg.V))[k]? = some (clampSlot cfg.V p) := by simp [hp]
  obtain ⟨x1, x2, x3, x4, x5⟩ := extend_spec (V := cfg.V) (S := S) (grow := grow)
    (cands := candsOf cfg lm t e) hv hcp (by simpa [clampSlot] using hcol)
    (by simpa [clampSlot] using hlen) (by simpa [clampSlot] using hg p hpm)
  have hns : ns = if isEnded cfg.eos t p then
      { extend cfg.V S true grow (e.slots.map (clampSlot cfg.V)) (candsOf cfg lm t e) (k * cfg.V + v)
          with len := (extend cfg.V S true grow (e.slots.map (clampSlot cfg.V))
            (candsOf cfg lm t e) (k * cfg.V + v)).len - 1 }
      else extend cfg.V S true grow (e.slots.map (clampSlot cfg.V)) (candsOf cfg lm t e)
        (k * cfg.V + v) := by
    show newSlot _ _ _ _ _ _ _ = _
    unfold newSlot
    simp only [flat_div k v hv, List.getD_eq_getElem?_getD, hp, Option.getD_some]
  clear_value ns
  generalize extend cfg.V S true grow (e.slots.map (clampSlot cfg.V)) (candsOf cfg lm t e)
    (k * cfg.V + v) = x at *
  simp only [clampSlot] at x1 x3 x4
  have hscore : ns.score = (candsOf cfg lm t e).getD (k * cfg.V + v) none := by
    rw [hns]; split <;> simp [x5]
  have hcl : ns.col = x.col := by rw [hns]; split <;> rfl
  have hlen' : ns.len = if isEnded cfg.eos t p then p.len else p.len + 1 := by
    rw [hns]; split <;> simp [x1]
  refine ⟨by rw [hcl, x2], ?_, hscore, ?_⟩
  · have hg' := hg p hpm
    rw [hlen']
    cases grow <;> cases isEnded cfg.eos t p <;> simp at hg' ⊢ <;> omega
  intro hfin
  rw [hscore, cands_get hlm t e hv hp hs] at hfin
  obtain ⟨hpf, hrow⟩ := Score.add_ne_none hfin
  have hpok := hst.ok p hpm hpf
  obtain ⟨hpt, hpl⟩ := hlive k p st hp hs hpf
  have hcpath : List.take p.len x.col = p.path := by
    rw [x3]; exact clampSlot_path hpok.range
  have hplen : p.path.length = p.len := Slot.path_length (by omega)
  refine ⟨hpf, ?_⟩
  cases hend : isEnded cfg.eos t p with
  | true =>
    simp only [hend, if_true] at hlen'
    have hpath : ns.path = p.path := by simp only [Slot.path, hcl, hlen', hcpath]
    simp only [isEnded, Bool.and_eq_true, bne_iff_ne, ne_eq] at hend
    obtain ⟨ht0, hlast⟩ := hend
    cases heos : cfg.eos with
    | none => simp [lastIsEos, heos] at hlast
    | some eo =>
      rw [heos] at hlast
      obtain ⟨hl0, hle⟩ := lastIsEos_some.mp hlast
      have hrow' : (rowOf cfg lm t p st).1 = eosRow cfg.V eo := by
        simp [rowOf, heos, isEnded, ht0, lastIsEos, hl0, hle]
      rw [hrow'] at hrow hfin
      have hve : (v : Int) = eo ∧ (eosRow cfg.V eo).getD v none = some 0 := by
        simp only [eosRow, List.getD_eq_getElem?_getD, List.getElem?_map, List.getElem?_range hv,
          Option.map_some, Option.getD_some] at hrow ⊢
        by_cases h : (v : Int) = eo <;> simp_all
      have hsc : ns.score = p.score := by
        rw [hscore, cands_get hlm t e hv hp hs, hrow', hve.2, Score.add_zero]
      refine ⟨⟨by rw [hpath]; exact hpok.range, by rw [hsc, hpath]; exact hpok.score,
        by rw [hpath]; exact hpok.eos⟩, Or.inl ⟨rfl, hpath, by rw [hve.1], ?_, by omega⟩⟩
      refine lastIsEos_some.mpr ⟨by omega, ?_⟩
      rw [hlen', hcl]
      have : (List.take p.len x.col)[p.len - 1]? = x.col[p.len - 1]? := by
        rw [List.getElem?_take]; simp; omega
      rw [← this, hcpath, Slot.path, List.getElem?_take]
      simp [hle]; omega
  | false =>
    simp only [hend, Bool.false_eq_true, if_false] at hlen'
    have hnl : lastIsEos cfg.eos p = false := by
      by_cases ht0 : t = 0
      · have : p.len = 0 := by omega
        cases heos : cfg.eos <;> simp [lastIsEos, this]
      · simpa [isEnded, ht0] using hend
    obtain ⟨hpt', hrep⟩ := hpl hnl
    have hpath : ns.path = p.path ++ [(v : Int)] := by
      simp only [Slot.path, hcl, hlen', List.take_add_one, hcpath, x4, Option.toList_some]
    have hrow' : (rowOf cfg lm t p st) = lm.run t (p.col.map (clampTok cfg.V)) st := by
      unfold rowOf
      cases heos : cfg.eos with
      | none => rfl
      | some eo => simp [← heos, hend]
    have hstep := hlm.step p.path st (p.col.map (clampTok cfg.V)) hrep (by
      rw [hplen]; exact clampSlot_path hpok.range)
    rw [hplen, hpt'] at hstep
    have hsc : ns.score = chain spec ns.path := by
      rw [hscore, cands_get hlm t e hv hp hs, hrow', hstep.1, hpath, chain_append, tokScore_nat,
        hpok.score]
    have hnoeos : ∀ eo, cfg.eos = some eo → eo ∉ p.path := by
      intro eo heo
      refine not_mem_of_eosOnlyLast (hpok.eos eo heo) ?_
      by_cases hl0 : 0 < p.len
      · rw [path_getLast? (by omega) hl0]
        intro hc
        rw [heo] at hnl
        have := lastIsEos_some.mpr ⟨hl0, hc⟩
        simp [this] at hnl
      · have : p.path = [] := by simp [Slot.path]; omega
        simp [this]
    refine ⟨⟨?_, hsc, ?_⟩, Or.inr ⟨rfl, hpath, by omega, by omega, ?_⟩⟩
    · intro y hy
      rw [hpath, List.mem_append, List.mem_singleton] at hy
      rcases hy with hy | hy
      · exact hpok.range y hy
      · subst hy; omega
    · intro eo heo
      rw [hpath, List.dropLast_concat]
      exact hnoeos eo heo
    · rw [hpath, hrow']; exact hstep.2 _

theorem distinct_idx {slots : List Slot}
    (h : slots.Pairwise fun a b => a.score ≠ none → b.score ≠ none → a.path ≠ b.path)
    {i j : Nat} {a b : Slot} (ha : slots[i]? = some a) (hb : slots[j]? = some b) (hij : i ≠ j)
    (fa : a.score ≠ none) (fb : b.score ≠ none) : a.path ≠ b.path := by
  rw [List.pairwise_iff_getElem] at h
  obtain ⟨hi, rfl⟩ := List.getElem?_eq_some_iff.mp ha
  obtain ⟨hj, rfl⟩ := List.getElem?_eq_some_iff.mp hb
  rcases Nat.lt_or_gt_of_ne hij with hlt | hgt
  · exact h i j hi hj hlt fa fb
  · exact fun heq => h j i hj hi hgt fb fa heq.symm

theorem ind_decomp {Kp V ind : Nat} (h : ind < Kp * V) :
    ∃ k v, k < Kp ∧ v < V ∧ ind = k * V + v := by
  have hV : 0 < V := by
    rcases Nat.eq_zero_or_pos V with h0 | h0
    · simp [h0] at h
    · exact h0
  refine ⟨ind / V, ind % V, ?_, Nat.mod_lt _ hV, ?_⟩
  · exact Nat.div_lt_of_lt_mul (by rwa [Nat.mul_comm] at h)
  · have := Nat.div_add_mod ind V
    rw [Nat.mul_comm] at this; omega

theorem candsOf_length {cfg : Cfg} {lm : LM σ} {spec Rep} (hlm : LMOK cfg.V lm spec Rep) (t : Nat)
    (e : Elem σ) (hlen : e.slots.length = e.sts.length) :
    (candsOf cfg lm t e).length = e.slots.length * cfg.V := by
  rw [candsOf, cands_eq, length_flatMap_uniform _ _ cfg.V (fun a _ => by simp [rowOf_length hlm])]
  simp [← hlen]

/-- Invariant preservation for one element that is still live. -/
theorem stepElem_inv {cfg : Cfg} {lm : LM σ} {spec Rep} {sel : Sel} (hsel : SelOK sel)
    (hlm : LMOK cfg.V lm spec Rep) {t S : Nat} {grow : Bool} {e : Elem σ}
    (hlen : e.slots.length = e.sts.length)
    (hst : Static cfg spec S e.slots) (hlive : Live cfg Rep t e)
    (hg : ∀ s ∈ e.slots, s.len = S → grow = true)
    (hK : grow = true ∨ cfg.width ≤ e.slots.length * cfg.V) (dflt : σ) :
    Static cfg spec (if grow then S + 1 else S) (stepElem sel cfg lm t S grow e).1 ∧
    Live cfg Rep (t + 1) ⟨(stepElem sel cfg lm t S grow e).1,
      (stepElem sel cfg lm t S grow e).2.1.map fun src =>
        (stepElem sel cfg lm t S grow e).2.2.getD src dflt⟩ ∧
    (stepElem sel cfg lm t S grow e).1.length = cfg.width ∧
    (stepElem sel cfg lm t S grow e).2.1.length = cfg.width := by
  rw [stepElem_eq]
  have hcl := candsOf_length hlm t e hlen
  have hKle : kOf cfg e ≤ (candsOf cfg lm t e).length := by rw [hcl]; exact Nat.min_le_right _ _
  have htop := hsel (candsOf cfg lm t e) (kOf cfg e) hKle
  generalize hinds : sel (candsOf cfg lm t e) (kOf cfg e) = inds at htop
  -- every selected index decomposes and has a source slot and state
  have hdec : ∀ ind ∈ inds, ∃ k v p st, v < cfg.V ∧ ind = k * cfg.V + v ∧
      e.slots[k]? = some p ∧ e.sts[k]? = some st := by
    intro ind hi
    have hb := htop.bound ind hi
    rw [hcl] at hb
    obtain ⟨k, v, hk, hv, rfl⟩ := ind_decomp hb
    exact ⟨k, v, e.slots[k], e.sts[k]'(by omega), hv, rfl, List.getElem?_eq_getElem hk,
      List.getElem?_eq_getElem (by omega)⟩
  have hrem : cfg.width - kOf cfg e ≠ 0 → grow = true := by
    intro h
    rcases hK with h' | h'
    · exact h'
    · exfalso; apply h; unfold kOf; rw [Nat.min_eq_left h']; omega
  have hscore : ∀ ind ∈ inds, (newSlot cfg t S grow e.slots (candsOf cfg lm t e) ind).score
      = (candsOf cfg lm t e).getD ind none := by
    intro ind hi
    obtain ⟨k, v, p, st, hv, rfl, hp, hs⟩ := hdec ind hi
    exact (newSlot_spec hlm hst hlive hg hv hp hs).2.2.1
  refine ⟨⟨?_, ?_, ?_, ?_, ?_⟩, ?_, ?_, ?_⟩
  · -- colLen
    intro s hs
    rw [List.mem_append] at hs
    rcases hs with hs | hs
    · obtain ⟨ind, hi, rfl⟩ := List.mem_map.mp hs
      obtain ⟨k, v, p, st, hv, rfl, hp, hs'⟩ := hdec ind hi
      exact (newSlot_spec hlm hst hlive hg hv hp hs').1
    · obtain ⟨hn, rfl⟩ := List.mem_replicate.mp hs
      simp [padSlot, hrem hn]
  · -- lenLe
    intro s hs
    rw [List.mem_append] at hs
    rcases hs with hs | hs
    · obtain ⟨ind, hi, rfl⟩ := List.mem_map.mp hs
      obtain ⟨k, v, p, st, hv, rfl, hp, hs'⟩ := hdec ind hi
      exact (newSlot_spec hlm hst hlive hg hv hp hs').2.1
    · obtain ⟨hn, rfl⟩ := List.mem_replicate.mp hs
      simp [padSlot]
  · -- ok
    intro s hs hf
    rw [List.mem_append] at hs
    rcases hs with hs | hs
    · obtain ⟨ind, hi, rfl⟩ := List.mem_map.mp hs
      obtain ⟨k, v, p, st, hv, rfl, hp, hs'⟩ := hdec ind hi
      exact ((newSlot_spec hlm hst hlive hg hv hp hs').2.2.2 hf).2.1
    · obtain ⟨hn, rfl⟩ := List.mem_replicate.mp hs
      simp [padSlot] at hf
  · -- distinct
    rw [List.pairwise_append]
    refine ⟨?_, ?_, ?_⟩
    · rw [List.pairwise_map]
      refine List.Pairwise.imp_of_mem ?_ (List.nodup_iff_pairwise_ne.mp htop.nodup)
      intro a b ha hb hab fa fb
      obtain ⟨ka, va, pa, sta, hva, rfl, hpa, hsa⟩ := hdec a ha
      obtain ⟨kb, vb, pb, stb, hvb, rfl, hpb, hsb⟩ := hdec b hb
      obtain ⟨fpa, -, ca⟩ := (newSlot_spec hlm hst hlive hg hva hpa hsa).2.2.2 fa
      obtain ⟨fpb, -, cb⟩ := (newSlot_spec hlm hst hlive hg hvb hpb hsb).2.2.2 fb
      have hlena := (newSlot_spec hlm hst hlive hg hva hpa hsa).2.1
      intro heq
      by_cases hk : ka = kb
      · subst hk
        have : pa = pb := by rw [hpa] at hpb; exact Option.some.inj hpb
        subst this
        have hne : va ≠ vb := fun h => hab (by rw [h])
        rcases ca with ⟨ea, pha, eva, -, -⟩ | ⟨ea, pha, -, -, -⟩ <;>
          rcases cb with ⟨eb, phb, evb, -, -⟩ | ⟨eb, phb, -, -, -⟩
        · rw [eva] at evb; exact hne (by simp at evb; omega)
        · rw [ea] at eb; simp at eb
        · rw [ea] at eb; simp at eb
        · rw [pha, phb] at heq
          have := List.append_inj_right' heq rfl
          simp at this; exact hne (by omega)
      · have hpp := distinct_idx hst.distinct hpa hpb hk fpa fpb
        rcases ca with ⟨ea, pha, eva, -, la⟩ | ⟨ea, pha, la, lpa, -⟩ <;>
          rcases cb with ⟨eb, phb, evb, -, lb⟩ | ⟨eb, phb, lb, lpb, -⟩
        · rw [pha, phb] at heq; exact hpp heq
        · have h1 : (newSlot cfg t S grow e.slots (candsOf cfg lm t e) (ka * cfg.V + va)).path.length
              ≤ t := Nat.le_trans (List.length_take_le _ _) la
          rw [heq, phb] at h1; simp at h1; omega
        · have h1 : (newSlot cfg t S grow e.slots (candsOf cfg lm t e) (kb * cfg.V + vb)).path.length
              ≤ t := Nat.le_trans (List.length_take_le _ _) lb
          rw [← heq, pha] at h1; simp at h1; omega
        · rw [pha, phb] at heq
          exact hpp (List.append_inj_left heq (by omega))
    · exact List.pairwise_of_forall_mem_list (by
        intro a ha b hb fa
        obtain ⟨-, rfl⟩ := List.mem_replicate.mp ha
        simp [padSlot] at fa)
    · intro a _ b hb _ fb
      obtain ⟨-, rfl⟩ := List.mem_replicate.mp hb
      simp [padSlot] at fb
  · -- sorted
    unfold SortedScores
    rw [List.map_append, List.pairwise_append]
    refine ⟨?_, ?_, ?_⟩
    · rw [List.pairwise_map, List.pairwise_map]
      refine List.Pairwise.imp_of_mem ?_ htop.sorted
      intro a b ha hb hab
      rw [hscore a ha, hscore b hb]; exact hab
    · rw [List.map_replicate]
      exact List.pairwise_replicate.mpr (Or.inr (by simp [padSlot, Score.le]))
    · intro a _ b hb
      rw [List.map_replicate] at hb
      obtain ⟨-, rfl⟩ := List.mem_replicate.mp hb
      simp [padSlot, Score.le_none]
  · -- Live
    intro j s st' hj hst' hf
    simp only at hj hst'
    have hjl : j < inds.length := by
      rcases Nat.lt_or_ge j inds.length with h | h
      · exact h
      · exfalso
        rw [List.getElem?_append_right (by simpa using h)] at hj
        have := List.mem_of_getElem? hj
        obtain ⟨-, rfl⟩ := List.mem_replicate.mp this
        simp [padSlot] at hf
    rw [List.getElem?_append_left (by simpa using hjl), List.getElem?_map,
      List.getElem?_eq_getElem hjl] at hj
    simp only [Option.map_some, Option.some.injEq] at hj
    rw [List.getElem?_map, List.getElem?_append_left (by simpa using hjl), List.getElem?_map,
      List.getElem?_eq_getElem hjl] at hst'
    simp only [Option.map_some, Option.some.injEq] at hst'
    obtain ⟨k, v, p, st, hv, hind, hp, hs⟩ := hdec inds[j] (List.getElem_mem hjl)
    rw [hind] at hj hst'
    rw [flat_div k v hv] at hst'
    have hz : (e.slots.zip e.sts)[k]? = some (p, st) := by
      rw [List.getElem?_zip_eq_some]; exact ⟨hp, hs⟩
    have hst2 : st' = (rowOf cfg lm t p st).2 := by
      rw [← hst', elemRows_eq, List.map_map, List.getD_eq_getElem?_getD, List.getElem?_map, hz]
      rfl
    subst hj
    obtain ⟨-, -, c⟩ := (newSlot_spec hlm hst hlive hg hv hp hs).2.2.2 hf
    rcases c with ⟨-, -, -, hl, hle⟩ | ⟨-, -, hl, -, hrep⟩
    · exact ⟨by omega, fun h => by rw [hl] at h; simp at h⟩
    · exact ⟨by omega, fun _ => ⟨hl, by rw [hst2]; exact hrep⟩⟩
  · simp [htop.length]
    unfold kOf; omega
  · simp [htop.length]
    unfold kOf; omega

/-! ## Part 3 — the batch step, the loop, `search` -/

theorem stepElem_len {cfg : Cfg} {lm : LM σ} {spec Rep} {sel : Sel} (hsel : SelOK sel)
    (hlm : LMOK cfg.V lm spec Rep) (t S : Nat) (grow : Bool) {e : Elem σ}
    (hlen : e.slots.length = e.sts.length) :
    (stepElem sel cfg lm t S grow e).1.length = cfg.width ∧
    (stepElem sel cfg lm t S grow e).2.1.length = cfg.width ∧
    (stepElem sel cfg lm t S grow e).2.2.length = e.slots.length ∧
    ∀ src ∈ (stepElem sel cfg lm t S grow e).2.1, src < max e.slots.length 1 := by
  rw [stepElem_eq]
  have hcl := candsOf_length hlm t e hlen
  have hKle : kOf cfg e ≤ (candsOf cfg lm t e).length := by rw [hcl]; exact Nat.min_le_right _ _
  have htop := hsel (candsOf cfg lm t e) (kOf cfg e) hKle
  refine ⟨?_, ?_, ?_, ?_⟩
  · simp [htop.length]; unfold kOf; omega
  · simp [htop.length]; unfold kOf; omega
  · simp [elemRows_eq, ← hlen]
  · intro src hs
    simp only at hs
    rw [List.mem_append] at hs
    rcases hs with hs | hs
    · obtain ⟨ind, hi, rfl⟩ := List.mem_map.mp hs
      have hb := htop.bound ind hi
      rw [hcl] at hb
      obtain ⟨k, v, hk, hv, rfl⟩ := ind_decomp hb
      rw [flat_div k v hv]; omega
    · obtain ⟨-, rfl⟩ := List.mem_replicate.mp hs
      omega

def freeze (pad : Int) (s : Slot) : Slot := { s with col := s.col ++ [pad] }

theorem freeze_path {pad : Int} {s : Slot} (h : s.len ≤ s.col.length) :
    (freeze pad s).path = s.path := by
  simp [freeze, Slot.path, List.take_append_of_le_length h]

theorem static_freeze {cfg : Cfg} {spec} {S : Nat} {slots : List Slot} (pad : Int)
    (h : Static cfg spec S slots) : Static cfg spec (S + 1) (slots.map (freeze pad)) := by
  have hp : ∀ s ∈ slots, (freeze pad s).path = s.path := fun s hs =>
    freeze_path (by rw [h.colLen s hs]; exact h.lenLe s hs)
  refine ⟨?_, ?_, ?_, ?_, ?_⟩
  · intro s hs
    obtain ⟨a, ha, rfl⟩ := List.mem_map.mp hs
    simp [freeze, h.colLen a ha]
  · intro s hs
    obtain ⟨a, ha, rfl⟩ := List.mem_map.mp hs
    have := h.lenLe a ha
    simp [freeze]; omega
  · intro s hs hf
    obtain ⟨a, ha, rfl⟩ := List.mem_map.mp hs
    have hok := h.ok a ha hf
    exact ⟨by rw [hp a ha]; exact hok.range, by rw [hp a ha]; exact hok.score,
      by rw [hp a ha]; exact hok.eos⟩
  · rw [List.pairwise_map]
    refine List.Pairwise.imp_of_mem ?_ h.distinct
    intro a b ha hb hab fa fb
    rw [hp a ha, hp b hb]; exact hab fa fb
  · unfold SortedScores
    rw [List.map_map]
    exact h.sorted

theorem lastIsEos_freeze {eos : Option Int} {pad : Int} {s : Slot} (h : s.len ≤ s.col.length) :
    lastIsEos eos (freeze pad s) = lastIsEos eos s := by
  cases eos with
  | none => rfl
  | some eo =>
    simp only [lastIsEos, freeze]
    by_cases h0 : 0 < s.len
    · have : (s.col ++ [pad])[s.len - 1]? = s.col[s.len - 1]? :=
        List.getElem?_append_left (by omega)
      rw [this]
      rfl
    · simp [h0]

theorem elemDone_zero (cfg : Cfg) (e : Elem σ) : elemDone cfg 0 e = false := by
  unfold elemDone; cases cfg.eos <;> simp

theorem done_ne_zero {cfg : Cfg} {t : Nat} {e : Elem σ} (h : elemDone cfg t e = true) : t ≠ 0 := by
  intro h0; subst h0; rw [elemDone_zero] at h; cases h

theorem done_freeze {cfg : Cfg} {t : Nat} {e : Elem σ} (pad : Int) (sts : List σ)
    (hl : ∀ s ∈ e.slots, s.len ≤ s.col.length) (h : elemDone cfg t e = true) :
    elemDone cfg (t + 1) ⟨e.slots.map (freeze pad), sts⟩ = true := by
  unfold elemDone at h ⊢
  cases heos : cfg.eos with
  | none => simp [heos] at h
  | some eo =>
    simp only [heos] at h ⊢
    have ht0 : t ≠ 0 := by
      intro h0; simp [h0] at h
    simp only [beq_iff_eq, ht0, if_false, Nat.add_eq_zero_iff, Nat.succ_ne_self, and_false] at h ⊢
    split at h
    · rw [if_pos (by assumption)]
      rw [List.all_eq_true] at h ⊢
      intro s hs
      obtain ⟨a, ha, rfl⟩ := List.mem_map.mp hs
      have := h a ha
      simp only [isEnded, lastIsEos_freeze (hl a ha)] at this ⊢
      simpa [ht0, freeze] using this
    · rw [if_neg (by assumption)]
      cases hsl : e.slots with
      | nil => simp [hsl] at h
      | cons a l =>
        simp only [hsl, List.head?_cons, Option.map_some, Option.getD_some, List.map_cons] at h ⊢
        have ha : a ∈ e.slots := by simp [hsl]
        simp only [isEnded, lastIsEos_freeze (hl a ha)] at h ⊢
        simpa [ht0] using h

theorem static_toWidth {cfg : Cfg} {spec} {S : Nat} {slots : List Slot} (sel : Sel)
    (h : Static cfg spec S slots) (hle : slots.length ≤ cfg.width) :
    Static cfg spec S (toWidth sel cfg.width S slots) := by
  unfold toWidth
  split
  · refine ⟨?_, ?_, ?_, ?_, ?_⟩
    · intro s hs
      rw [List.mem_append] at hs
      rcases hs with hs | hs
      · exact h.colLen s hs
      · obtain ⟨-, rfl⟩ := List.mem_replicate.mp hs; simp
    · intro s hs
      rw [List.mem_append] at hs
      rcases hs with hs | hs
      · exact h.lenLe s hs
      · obtain ⟨-, rfl⟩ := List.mem_replicate.mp hs; simp
    · intro s hs hf
      rw [List.mem_append] at hs
      rcases hs with hs | hs
      · exact h.ok s hs hf
      · obtain ⟨-, rfl⟩ := List.mem_replicate.mp hs; simp at hf
    · rw [List.pairwise_append]
      refine ⟨h.distinct, ?_, ?_⟩
      · exact List.pairwise_of_forall_mem_list (by
          intro a ha b hb fa
          obtain ⟨-, rfl⟩ := List.mem_replicate.mp ha
          simp at fa)
      · intro a _ b hb _ fb
        obtain ⟨-, rfl⟩ := List.mem_replicate.mp hb
        simp at fb
    · unfold SortedScores
      rw [List.map_append, List.pairwise_append]
      refine ⟨h.sorted, ?_, ?_⟩
      · rw [List.map_replicate]
        exact List.pairwise_replicate.mpr (Or.inr (by simp [Score.le]))
      · intro a _ b hb
        rw [List.map_replicate] at hb
        obtain ⟨-, rfl⟩ := List.mem_replicate.mp hb
        exact Score.le_none a
  · split
    · omega
    · exact h

theorem le_maxLen {rows : List (List Slot)} {r : List Slot} {s : Slot} (hr : r ∈ rows)
    (hs : s ∈ r) : s.len ≤ maxLen rows := by
  unfold maxLen
  have hmem : s ∈ rows.flatMap id := List.mem_flatMap.mpr ⟨r, hr, hs⟩
  generalize rows.flatMap id = l at hmem
  have key : ∀ (l : List Slot) (m : Nat), m ≤ l.foldl (fun m s => max m s.len) m ∧
      ∀ s ∈ l, s.len ≤ l.foldl (fun m s => max m s.len) m := by
    intro l
    induction l with
    | nil => intro m; simp
    | cons a l ih =>
      intro m
      simp only [List.foldl_cons, List.mem_cons]
      have h1 := ih (max m a.len)
      refine ⟨by omega, ?_⟩
      rintro s (rfl | hs)
      · omega
      · exact h1.2 s hs
  exact (key l 0).2 s hmem

/-- The loop invariant over the whole batch. -/
structure BInv (cfg : Cfg) (spec : List Int → List Score) (Rep : List Int → σ → Prop)
    (t S Kp : Nat) (elems : List (Elem σ)) : Prop where
  shape : (t = 0 ∧ S = 0 ∧ Kp = 1) ∨ (t ≠ 0 ∧ Kp = cfg.width)
  elem : ∀ e ∈ elems, e.slots.length = Kp ∧ e.sts.length = Kp ∧ Static cfg spec S e.slots ∧
    (elemDone cfg t e = false → Live cfg Rep t e)

theorem mem_zip_map {α β} {l : List α} {g : α → β} {a : α} {b : β}
    (h : (a, b) ∈ l.zip (l.map g)) : a ∈ l ∧ b = g a := by
  have : l.zip (l.map g) = l.map fun a => (a, g a) := by
    have := zip_map_same l id g
    simpa using this
  rw [this] at h
  obtain ⟨x, hx, heq⟩ := List.mem_map.mp h
  cases heq
  exact ⟨hx, rfl⟩

theorem stepBatch_inv {cfg : Cfg} {lm : LM σ} {spec Rep} {sel : Sel} (hsel : SelOK sel)
    (hlm : LMOK cfg.V lm spec Rep) (hV : 0 < cfg.V) (hw : 0 < cfg.width) (dflt : σ)
    {t S Kp : Nat} {elems : List (Elem σ)} (hinv : BInv cfg spec Rep t S Kp elems)
    {S' : Nat} {elems' : List (Elem σ)}
    (h : stepBatch sel cfg lm dflt t S Kp elems = .ok (S', elems')) :
    BInv cfg spec Rep (t + 1) S' cfg.width elems' := by
  unfold stepBatch at h
  simp only at h
  split at h
  · cases h
  split at h
  · cases h
  rename_i hnoerr
  simp only [Except.ok.injEq, Prod.mk.injEq] at h
  obtain ⟨hS', helems⟩ := h
  generalize hgrow : decide (S ≤ maxLen (elems.map (·.slots))) = grow at *
  have hKp : 0 < Kp := by rcases hinv.shape with ⟨-, -, h⟩ | ⟨-, h⟩ <;> omega
  refine ⟨Or.inr ⟨by omega, rfl⟩, ?_⟩
  intro e' he'
  rw [← helems] at he'
  obtain ⟨⟨⟨e, r⟩, n⟩, hmem, rfl⟩ := List.mem_map.mp he'
  obtain ⟨-, hn, hget⟩ := List.mem_zipIdx hmem
  simp only [Nat.zero_add, Nat.sub_zero] at hn hget
  have hzmem : (e, r) ∈ elems.zip (elems.map (stepElem sel cfg lm t S grow)) := by
    rw [hget]; exact List.getElem_mem _
  obtain ⟨he, hr⟩ := mem_zip_map hzmem
  obtain ⟨hsl, hstl, hstat, hlive⟩ := hinv.elem e he
  have hlen : e.slots.length = e.sts.length := by omega
  obtain ⟨l1, l2, l3, l4⟩ := stepElem_len hsel hlm t S grow hlen
  rw [← hr] at l1 l2 l3 l4
  simp only
  refine ⟨?_, by simp [l2], ?_⟩
  · split
    · rename_i hd
      have ht0 : t ≠ 0 := done_ne_zero hd
      have : Kp = cfg.width := by
        rcases hinv.shape with ⟨h, -⟩ | ⟨-, h⟩
        · exact absurd h ht0
        · exact h
      simp [toWidth, hsl, this]
    · exact l1
  · split
    · rename_i hd
      have ht0 : t ≠ 0 := done_ne_zero hd
      have hKw : Kp = cfg.width := by
        rcases hinv.shape with ⟨h, -⟩ | ⟨-, h⟩
        · exact absurd h ht0
        · exact h
      have hgt : grow = true := by
        cases hg : grow with
        | true => rfl
        | false =>
          exfalso; apply hnoerr
          rw [hg]
          simp only [Bool.not_false, Bool.and_true, List.any_eq_true]
          exact ⟨e, he, hd⟩
      have htw : toWidth sel cfg.width S e.slots = e.slots := by
        simp [toWidth, hsl, hKw]
      rw [htw]
      have hfz : (e.slots.map fun s => { s with col := s.col ++ [cfg.pad] })
          = e.slots.map (freeze cfg.pad) := rfl
      rw [hfz]
      refine ⟨?_, ?_⟩
      · rw [← hS', hgt]; exact static_freeze cfg.pad hstat
      · intro hnd
        have := done_freeze cfg.pad (r.2.1.map fun src => (List.flatMap (fun x => x.2.2)
            (elems.map (stepElem sel cfg lm t S grow))).getD (n * Kp + src) dflt)
          (fun s hs => by rw [hstat.colLen s hs]; exact hstat.lenLe s hs) hd
        rw [this] at hnd; cases hnd
    · rename_i hnd
      have hnd' : elemDone cfg t e = false := by simpa using hnd
      have hlv := hlive hnd'
      have hg : ∀ s ∈ e.slots, s.len = S → grow = true := by
        intro s hs hsl
        rw [← hgrow]
        have := le_maxLen (rows := elems.map (·.slots)) (List.mem_map.mpr ⟨e, he, rfl⟩) hs
        simp; omega
      have hK : grow = true ∨ cfg.width ≤ e.slots.length * cfg.V := by
        rcases hinv.shape with ⟨-, hS0, -⟩ | ⟨-, hk⟩
        · left; rw [← hgrow, hS0]; simp
        · right; rw [hsl, hk]; exact Nat.le_mul_of_pos_right _ hV
      obtain ⟨i1, i2, -, -⟩ := stepElem_inv hsel hlm hlen hstat hlv hg hK dflt
      rw [← hr] at i1 i2
      refine ⟨by rw [← hS']; exact i1, fun _ => ?_⟩
      -- the batch-flattened gather at `n * Kp + src` is the per-element gather
      have hsts : (r.2.1.map fun src => (List.flatMap (fun x => x.2.2)
            (elems.map (stepElem sel cfg lm t S grow))).getD (n * Kp + src) dflt)
          = r.2.1.map fun src => r.2.2.getD src dflt := by
        apply List.map_congr_left
        intro src hsrc
        have hsl' : src < Kp := by
          have := l4 src hsrc
          rw [hsl] at this; omega
        have hres : (elems.map (stepElem sel cfg lm t S grow))[n]? = some r := by
          have h1 : (elems.zip (elems.map (stepElem sel cfg lm t S grow)))[n]? = some (e, r) := by
            rw [List.getElem?_eq_getElem hn, hget]
          exact (List.getElem?_zip_eq_some.mp h1).2
        rw [List.getD_eq_getElem?_getD, List.getD_eq_getElem?_getD,
          getElem?_flatMap_uniform _ _ Kp ?_ n src hsl', hres]
        · rfl
        · intro x hx
          obtain ⟨e2, he2, rfl⟩ := List.mem_map.mp hx
          obtain ⟨hsl2, hstl2, -, -⟩ := hinv.elem e2 he2
          rw [(stepElem_len hsel hlm t S grow (by omega)).2.2.1, hsl2]
      rw [hsts]; exact i2

theorem loop_inv {cfg : Cfg} {lm : LM σ} {spec Rep} {sel : Sel} (hsel : SelOK sel)
    (hlm : LMOK cfg.V lm spec Rep) (hV : 0 < cfg.V) (hw : 0 < cfg.width) (dflt : σ)
    (fuel : Nat) {t S Kp : Nat} {elems : List (Elem σ)} (hinv : BInv cfg spec Rep t S Kp elems)
    {S' : Nat} {elems' : List (Elem σ)}
    (h : loop sel cfg lm dflt fuel t S Kp elems = .ok (S', elems')) :
    ∃ t' Kp', BInv cfg spec Rep t' S' Kp' elems' := by
  induction fuel generalizing t S Kp elems with
  | zero =>
    simp only [loop, Except.ok.injEq, Prod.mk.injEq] at h
    obtain ⟨rfl, rfl⟩ := h
    exact ⟨t, Kp, hinv⟩
  | succ fuel ih =>
    unfold loop at h
    split at h
    · simp only [Except.ok.injEq, Prod.mk.injEq] at h
      obtain ⟨rfl, rfl⟩ := h
      exact ⟨t, Kp, hinv⟩
    · split at h
      · cases h
      · rename_i S1 elems1 hstep
        exact ih (stepBatch_inv hsel hlm hV hw dflt hinv hstep) h

theorem init_inv {cfg : Cfg} {spec : List Int → List Score} {Rep : List Int → σ → Prop}
    {inits : List σ} (hinit : ∀ s ∈ inits, Rep [] s) :
    BInv cfg spec Rep 0 0 1 (inits.map initElem) := by
  refine ⟨Or.inl ⟨rfl, rfl, rfl⟩, ?_⟩
  intro e he
  obtain ⟨s0, hs0, rfl⟩ := List.mem_map.mp he
  refine ⟨rfl, rfl, ⟨?_, ?_, ?_, ?_, ?_⟩, ?_⟩
  · intro s hs; simp [initElem] at hs; subst hs; rfl
  · intro s hs; simp [initElem] at hs; subst hs; simp
  · intro s hs _
    simp [initElem] at hs; subst hs
    exact ⟨by simp [Slot.path], by simp [Slot.path, chain_nil], by
      intro e _; simp [Slot.path]⟩
  · simp [initElem]
  · simp [initElem, SortedScores]
  · intro _ k s st hk hst _
    simp only [initElem] at hk hst
    cases k with
    | zero =>
      simp at hk hst; subst hk; subst hst
      refine ⟨by simp, fun _ => ⟨rfl, by simpa [Slot.path] using hinit _ hs0⟩⟩
    | succ k => simp at hk

/-- What `search` guarantees for every returned beam. -/
theorem search_static {cfg : Cfg} {lm : LM σ} {spec Rep} {sel : Sel} (hsel : SelOK sel)
    (hlm : LMOK cfg.V lm spec Rep) (hV : 0 < cfg.V) (hw : 0 < cfg.width) (dflt : σ)
    {inits : List σ} (hinit : ∀ s ∈ inits, Rep [] s) {maxIters : Nat} {out : List (List Slot)}
    (h : search sel cfg lm dflt inits maxIters = .ok out) :
    ∀ beam ∈ out, ∃ S, Static cfg spec S beam ∧ beam.length = cfg.width := by
  unfold search at h
  split at h
  · cases h
  · rename_i S elems hloop
    simp only [Except.ok.injEq] at h
    obtain ⟨t', Kp', hinv⟩ := loop_inv hsel hlm hV hw dflt maxIters (init_inv hinit) hloop
    intro beam hb
    rw [← h] at hb
    obtain ⟨e, he, rfl⟩ := List.mem_map.mp hb
    obtain ⟨hsl, -, hstat, -⟩ := hinv.elem e he
    have hle : e.slots.length ≤ cfg.width := by
      rcases hinv.shape with ⟨-, -, hk⟩ | ⟨-, hk⟩ <;> omega
    refine ⟨S, static_toWidth sel hstat hle, ?_⟩
    unfold toWidth
    split
    · simp; omega
    · split
      · omega
      · omega

/-! ## The deterministic selections satisfy the `topk` contract -/

theorem Score.le_trans' {a b c : Score} (h1 : Score.le a b = true) (h2 : Score.le b c = true) :
    Score.le a c = true := by
  cases a <;> cases b <;> cases c <;> simp_all [Score.le]
  exact Rat.le_trans h1 h2

theorem Score.le_total' (a b : Score) : (Score.le a b || Score.le b a) = true := by
  cases a <;> cases b <;> simp [Score.le]
  exact Rat.le_total

/-- Any list that is a permutation of `c.zipIdx`, sorted by score descending, yields a valid
`topk` by taking the first `K` indices. -/
theorem isTopK_of_sorted_perm {c : List Score} {K : Nat} {L : List (Score × Nat)}
    (hperm : L.Perm c.zipIdx)
    (hsorted : L.Pairwise fun a b => Score.le b.1 a.1 = true) (hK : K ≤ c.length) :
    IsTopK c K ((L.map (·.2)).take K) := by
  have hmem : ∀ x ∈ L, x.2 < c.length ∧ c.getD x.2 none = x.1 := by
    intro x hx
    have hx' : (x.1, x.2) ∈ c.zipIdx 0 := by simpa using hperm.mem_iff.mp hx
    obtain ⟨-, h2, h3⟩ := List.mem_zipIdx hx'
    simp only [Nat.zero_add, Nat.sub_zero] at h2 h3
    refine ⟨h2, ?_⟩
    rw [List.getD_eq_getElem?_getD, List.getElem?_eq_getElem h2, h3]; rfl
  have hlen : L.length = c.length := by simpa using hperm.length_eq
  have hsnd : (L.map (·.2)).Perm (List.range c.length) := by
    have := hperm.map (·.2)
    rw [List.zipIdx_map_snd, List.range'_eq_map_range] at this
    simpa using this
  refine ⟨by simp [hlen, hK], ?_, ?_, ?_, ?_⟩
  · exact (List.take_sublist _ _).nodup (hsnd.nodup_iff.mpr List.nodup_range)
  · intro i hi
    have := List.mem_of_mem_take hi
    obtain ⟨x, hx, rfl⟩ := List.mem_map.mp this
    exact (hmem x hx).1
  · rw [← List.map_take, List.pairwise_map]
    refine List.Pairwise.imp_of_mem ?_ (hsorted.sublist (List.take_sublist K L))
    intro a b ha hb hab
    rw [(hmem a (List.mem_of_mem_take ha)).2, (hmem b (List.mem_of_mem_take hb)).2]
    exact hab
  · intro i hi j hj hnot
    rw [← List.map_take] at hi hnot
    obtain ⟨a, ha, rfl⟩ := List.mem_map.mp hi
    have hjm : j ∈ L.map (·.2) := hsnd.mem_iff.mpr (List.mem_range.mpr hj)
    obtain ⟨b, hb, rfl⟩ := List.mem_map.mp hjm
    have hbd : b ∈ L.drop K := by
      rw [← List.take_append_drop K L, List.mem_append] at hb
      rcases hb with hb | hb
      · exact absurd (List.mem_map.mpr ⟨b, hb, rfl⟩) hnot
      · exact hb
    have hsplit := hsorted
    rw [← List.take_append_drop K L, List.pairwise_append] at hsplit
    rw [(hmem a (List.mem_of_mem_take ha)).2, (hmem b (List.mem_of_mem_drop hbd)).2]
    exact hsplit.2.2 a ha b hbd

theorem selDet_ok : SelOK selDet := by
  intro c K hK
  unfold selDet
  exact isTopK_of_sorted_perm (List.mergeSort_perm _ _)
    (List.pairwise_mergeSort (le := fun (a b : Score × Nat) => Score.le b.1 a.1)
      (fun a b c h1 h2 => Score.le_trans' h2 h1)
      (fun (a b : Score × Nat) => Score.le_total' b.1 a.1) _) hK

theorem insBy_perm {α} (le : α → α → Bool) (a : α) (l : List α) : (insBy le a l).Perm (a :: l) := by
  induction l with
  | nil => exact List.Perm.refl _
  | cons b l ih =>
    simp only [insBy]
    split
    · exact List.Perm.refl _
    · exact ((List.Perm.cons b ih).trans (List.Perm.swap a b l))

theorem isort_perm {α} (le : α → α → Bool) (l : List α) : (isort le l).Perm l := by
  induction l with
  | nil => exact List.Perm.refl _
  | cons a l ih => exact (insBy_perm le a _).trans (List.Perm.cons a ih)

theorem insBy_pairwise {α} {le : α → α → Bool}
    (htrans : ∀ a b c, le a b = true → le b c = true → le a c = true)
    (htotal : ∀ a b, (le a b || le b a) = true) (a : α) {l : List α}
    (h : l.Pairwise fun x y => le x y = true) : (insBy le a l).Pairwise fun x y => le x y = true := by
  induction l with
  | nil => simp [insBy]
  | cons b l ih =>
    rw [List.pairwise_cons] at h
    simp only [insBy]
    split
    · rename_i hab
      rw [List.pairwise_cons]
      refine ⟨?_, List.pairwise_cons.mpr h⟩
      intro x hx
      rcases List.mem_cons.mp hx with rfl | hx
      · exact hab
      · exact htrans _ _ _ hab (h.1 x hx)
    · rename_i hab
      have hba : le b a = true := by
        have := htotal a b
        simp only [Bool.or_eq_true] at this
        rcases this with h' | h'
        · exact absurd h' hab
        · exact h'
      rw [List.pairwise_cons]
      refine ⟨?_, ih h.2⟩
      intro x hx
      have := (insBy_perm le a l).mem_iff.mp hx
      rcases List.mem_cons.mp this with rfl | hx'
      · exact hba
      · exact h.1 x hx'

theorem isort_pairwise {α} {le : α → α → Bool}
    (htrans : ∀ a b c, le a b = true → le b c = true → le a c = true)
    (htotal : ∀ a b, (le a b || le b a) = true) (l : List α) :
    (isort le l).Pairwise fun x y => le x y = true := by
  induction l with
  | nil => simp [isort]
  | cons a l ih => exact insBy_pairwise htrans htotal a ih

theorem selIns_ok : SelOK selIns := by
  intro c K hK
  unfold selIns
  exact isTopK_of_sorted_perm (isort_perm _ _)
    (isort_pairwise (le := fun (a b : Score × Nat) => Score.le b.1 a.1)
      (fun a b c h1 h2 => Score.le_trans' h2 h1)
      (fun (a b : Score × Nat) => Score.le_total' b.1 a.1) _) hK

end PdtVerif.Beam
