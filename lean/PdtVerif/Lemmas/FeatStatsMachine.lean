import PdtVerif.Lemmas.FeatStats
/-!
# Helper lemmas for C18: the module as a state machine, the directory command's groups,
and `mean_var_norm` with one of the two statistics omitted

* `meanVarNormCols_var`: whatever mean is in use, the variance handed to `sqrt` when `std` is
  omitted is the input's own biased variance;
* `store_accumulateAllCols`: `store` on the buffers of a list of chunks = the pooled statistics,
  or `none` below the documented minimum;
* `mvnRun_spec`: buffers / statistics after any sequence of calls;
* `cliLoop_spec`, `cliFinish_wrote`: the group table after the loop over the files is, group by
  group, the fold over that group's files only.
-/
namespace PdtVerif.FeatStats

/-! ## `mean_var_norm`: one statistic omitted -/

theorem meanVarNormCols_var (cols : List (List Rat)) (mean? std? : Option (List Rat))
    (sq : List Rat) (eps : Rat) (i : Nat) (hi : i < cols.length)
    (hm : i < (mean?.getD (cols.map mean)).length) :
    (meanVarNormCols cols mean? std? sq eps).2.1.getD i 0 = poolVar (cols.getD i []) := by
  simp only [meanVarNormCols]
  simp only [List.getD_eq_getElem?_getD, List.getElem?_map, List.getElem?_zipWith,
    List.getElem?_eq_getElem hi, List.getElem?_eq_getElem hm, Option.map_some, Option.getD_some,
    varCentral_eq_poolVar]
  rcases Nat.eq_zero_or_pos (cols[i]).length with h0 | h0
  · have : cols[i] = [] := List.length_eq_zero_iff.mp h0
    simp [this]
  · exact poolVar_shift _ _ h0

theorem meanVarNormCols_mean (cols : List (List Rat)) (mean? std? : Option (List Rat))
    (sq : List Rat) (eps : Rat) :
    (meanVarNormCols cols mean? std? sq eps).1 = mean?.getD (cols.map mean) := rfl

/-- `normCol` with another centre is a constant shift of `normCol` with the own mean. -/
theorem normCol_recentre (col : List Rat) (m μ s eps : Rat) :
    normCol col m s eps = (normCol col μ s eps).map (· - (m - μ) / max s eps) := by
  unfold normCol
  simp only [List.map_map]
  apply List.map_congr_left
  intro x _
  simp only [Function.comp]
  ring

/-! ## `store` on the buffers of a list of chunks -/

theorem framesOf_eq_totCount (chunks : List (List (List Rat))) : framesOf chunks = totCount chunks := rfl

theorem accumulateAllCols_snoc (pend : List (List (List Rat))) (c : List (List Rat)) :
    accumulateAllCols (pend ++ [c]) = some (accumulateCols (accumulateAllCols pend) c) := by
  simp [accumulateAllCols, List.foldl_append]

/-- Well-formed chunks: `X` coefficients each, every coefficient with the chunk's number of frames. -/
def ChunksOK (X : Nat) (chunks : List (List (List Rat))) : Prop :=
  ∀ c ∈ chunks, c.length = X ∧ ∀ i, i < X → (c.getD i []).length = (c.headD []).length

theorem ChunksOK.snoc {X : Nat} {pend : List (List (List Rat))} {c : List (List Rat)}
    (h : ChunksOK X pend) (hc : c.length = X ∧ ∀ i, i < X → (c.getD i []).length = (c.headD []).length) :
    ChunksOK X (pend ++ [c]) := by
  intro c' hc'
  rcases List.mem_append.mp hc' with h1 | h1
  · exact h c' h1
  · simp at h1; subst h1; exact hc

theorem chunksOK_nil (X : Nat) : ChunksOK X [] := by intro c hc; simp at hc

theorem store_accumulateAllCols (pend : List (List (List Rat))) (X : Nat) (bessel : Bool)
    (hok : ChunksOK X pend) :
    store (accumulateAllCols pend) bessel
      = if storeOk pend bessel then some (pooledStats pend bessel) else none := by
  cases hpe : pend with
  | nil => simp [accumulateAllCols, store, storeOk]
  | cons c cs =>
    rw [← hpe]
    have hne : pend ≠ [] := by rw [hpe]; simp
    obtain ⟨b, hb, b0, b1, b2, b3, b4⟩ := accumulateAllCols_spec pend X hne (fun c hc => (hok c hc).1)
    rw [hb]
    have hX : (pend.headD []).length = X := by
      rw [hpe]; exact (hok c (by rw [hpe]; simp)).1
    have hemp : pend.isEmpty = false := by rw [hpe]; rfl
    by_cases hcnt : b.count < (if bessel = true then 2 else 1)
    · have : storeOk pend bessel = false := by
        simp only [storeOk, hemp, Bool.not_false, Bool.true_and, decide_eq_false_iff_not, framesOf_eq_totCount,
          ← b0]
        omega
      simp [store, hcnt, this]
    · have hso : storeOk pend bessel = true := by
        simp only [storeOk, hemp, Bool.not_false, Bool.true_and, decide_eq_true_eq, framesOf_eq_totCount, ← b0]
        omega
      have hlen : ∀ i, i < X → b.count = (poolOf pend i).length := by
        intro i hi
        rw [b0]
        exact totCount_eq pend i (fun c hc => (hok c hc).2 i hi)
      have hsum : ∀ i (hi : i < X), b.sum[i]'(by omega) = (poolOf pend i).sum := by
        intro i hi
        have := b3 i hi
        rw [totOf_sum_eq] at this
        unfold poolOf
        rw [← this, List.getD_eq_getElem?_getD, List.getElem?_eq_getElem (by omega)]
        rfl
      have hsq : ∀ i (hi : i < X), b.sumsq[i]'(by omega) = sumSq (poolOf pend i) := by
        intro i hi
        have := b4 i hi
        rw [totOf_sumSq_eq] at this
        unfold poolOf
        rw [← this, List.getD_eq_getElem?_getD, List.getElem?_eq_getElem (by omega)]
        rfl
      have hmean : b.sum.map (· / (b.count : Rat)) = (List.range X).map (fun i => poolMean (poolOf pend i)) := by
        apply List.ext_getElem (by simp [b1])
        intro i h1 h2
        have hi : i < X := by simpa using h2
        simp only [List.getElem_map, List.getElem_range]
        rw [hsum i hi, hlen i hi]
        rfl
      have hraw : List.zipWith (fun q m => q / (b.count : Rat) - m * m) b.sumsq
            (b.sum.map (· / (b.count : Rat)))
          = (List.range X).map (fun i => poolVar (poolOf pend i)) := by
        apply List.ext_getElem (by simp [b1, b2])
        intro i h1 h2
        have hi : i < X := by simpa using h2
        simp only [List.getElem_zipWith, List.getElem_map, List.getElem_range]
        rw [hsum i hi, hsq i hi, hlen i hi]
        apply raw_var_eq_poolVar
        have := hlen i hi
        cases bessel <;> simp at hcnt <;> omega
      simp only [store, hcnt, if_false, hso, if_true, pooledStats, hX]
      rw [hraw, hmean]
      cases bessel with
      | false => simp
      | true =>
        simp only [if_true, Option.some.injEq, Prod.mk.injEq, true_and, List.map_map]
        apply List.map_congr_left
        intro i hi
        have hi : i < X := by simpa using hi
        simp only [Function.comp]
        have h2 : 2 ≤ (poolOf pend i).length := by
          have := hlen i hi
          simp at hcnt; omega
        rw [hlen i hi]
        exact poolVar_mul_bessel _ h2

/-! ## The state machine -/

theorem mvnRun_cons (s : MvnState) (op : MvnOp) (ops : List MvnOp) :
    mvnRun s (op :: ops) = mvnRun (mvnStep s op).1 ops := rfl

/-- Every `accumulate` call in `ops` hands over well-formed chunks. -/
def OpsOK (X : Nat) (ops : List MvnOp) : Prop :=
  ∀ c, MvnOp.accumulate c ∈ ops → c.length = X ∧ ∀ i, i < X → (c.getD i []).length = (c.headD []).length

theorem mvnRun_spec (X : Nat) (ops : List MvnOp) (pend : List (List (List Rat)))
    (cur : Option (List Rat × List Rat)) (hp : ChunksOK X pend) (ho : OpsOK X ops) :
    mvnRun ⟨accumulateAllCols pend, cur⟩ ops
      = ⟨accumulateAllCols (pendingSpec pend ops), statsSpec pend cur ops⟩ := by
  induction ops generalizing pend cur with
  | nil => rfl
  | cons op ops ih =>
    have ho' : OpsOK X ops := fun c hc => ho c (List.mem_cons_of_mem _ hc)
    rw [mvnRun_cons]
    cases op with
    | accumulate c =>
      have hc := ho c (by simp)
      simp only [mvnStep, pendingSpec, statsSpec]
      rw [← accumulateAllCols_snoc]
      exact ih (pend ++ [c]) cur (hp.snoc hc) ho'
    | store del bessel =>
      simp only [mvnStep, pendingSpec, statsSpec]
      rw [store_accumulateAllCols pend X bessel hp]
      by_cases hso : storeOk pend bessel = true
      · simp only [hso, if_true, Bool.and_true]
        cases del with
        | true =>
          simp only [if_true]
          exact ih [] _ (chunksOK_nil X) ho'
        | false =>
          simp only [Bool.false_eq_true, if_false]
          exact ih pend _ hp ho'
      · have hso' : storeOk pend bessel = false := by simpa using hso
        simp only [hso', Bool.false_eq_true, if_false, Bool.and_false]
        exact ih pend cur hp ho'

/-! ## The directory command -/

/-- The files of group `gid` (in directory order). -/
def groupFiles (m : Option (List (String × String))) (files : List (String × List (List Rat)))
    (gid : Option String) : List (String × List (List Rat)) :=
  files.filter (fun f => cliLookup m f.1 == some gid)

theorem cliLoop_spec (m : Option (List (String × String))) (files : List (String × List (List Rat)))
    (tbl t : List (Option String × Option Acc)) (h : cliLoop m tbl files = some t) :
    t = tbl.map (fun p => (p.1,
      (groupFiles m files p.1).foldl (fun st f => some (accumulateCols st f.2)) p.2)) := by
  induction files generalizing tbl with
  | nil =>
    simp only [cliLoop, Option.some.injEq] at h
    subst h
    simp [groupFiles]
  | cons f rest ih =>
    obtain ⟨id, cols⟩ := f
    simp only [cliLoop] at h
    cases hl : cliLookup m id with
    | none => rw [hl] at h; simp at h
    | some gid =>
      rw [hl] at h
      simp only at h
      rw [ih _ h, cliPut, List.map_map]
      apply List.map_congr_left
      intro p _
      simp only [Function.comp, groupFiles, List.filter_cons, hl]
      by_cases hg : p.1 = gid
      · simp [hg]
      · have : (some gid == some p.1) = false := by
          simp; exact fun h => hg h.symm
        simp [hg, this]

theorem cliLoop_none (m : Option (List (String × String))) (files : List (String × List (List Rat)))
    (tbl : List (Option String × Option Acc)) :
    cliLoop m tbl files = none ↔ ∃ f ∈ files, cliLookup m f.1 = none := by
  induction files generalizing tbl with
  | nil => simp [cliLoop]
  | cons f rest ih =>
    obtain ⟨id, cols⟩ := f
    simp only [cliLoop]
    cases hl : cliLookup m id with
    | none => simp [hl]
    | some gid => simp [hl, ih]

theorem cliFinish_wrote (bessel : Bool) (t : List (Option String × Option Acc))
    (l : List (Option String × (List Rat × List Rat))) (h : cliFinish bessel t = .wrote l) :
    ∀ g st, (g, st) ∈ l ↔ ∃ a, (g, some a) ∈ t ∧ store (some a) bessel = some st := by
  induction t generalizing l with
  | nil =>
    simp only [cliFinish, CliResult.wrote.injEq] at h
    subst h
    simp
  | cons p rest ih =>
    obtain ⟨gid, a?⟩ := p
    cases a? with
    | none =>
      simp only [cliFinish] at h
      by_cases hg : gid = none
      · simp [hg] at h
      · simp only [hg, if_false] at h
        intro g st
        rw [ih l h g st]
        simp
    | some a =>
      simp only [cliFinish] at h
      cases hs : store (some a) bessel with
      | none => rw [hs] at h; simp at h
      | some st0 =>
        rw [hs] at h
        cases hr : cliFinish bessel rest with
        | exit1 => rw [hr] at h; simp at h
        | raised => rw [hr] at h; simp at h
        | wrote l' =>
          rw [hr] at h
          simp only [CliResult.wrote.injEq] at h
          subst h
          intro g st
          simp only [List.mem_cons, Prod.mk.injEq, ih l' hr g st]
          constructor
          · rintro (⟨rfl, rfl⟩ | ⟨a', ha', hs'⟩)
            · exact ⟨a, Or.inl ⟨rfl, rfl⟩, hs⟩
            · exact ⟨a', Or.inr ha', hs'⟩
          · rintro ⟨a', (⟨rfl, ha'⟩ | ha'), hs'⟩
            · left
              have : a' = a := by simpa using ha'
              subst this
              rw [hs] at hs'
              exact ⟨rfl, by simpa using hs'.symm⟩
            · exact Or.inr ⟨a', ha', hs'⟩

theorem foldl_accumulate_some (cs : List (List (List Rat))) (a : Acc) :
    ∃ b, cs.foldl (fun st c => some (accumulateCols st c)) (some a) = some b := by
  induction cs generalizing a with
  | nil => exact ⟨a, rfl⟩
  | cons c cs ih => simpa [List.foldl_cons] using ih (accumulateCols (some a) c)

theorem accumulateAllCols_cons (c : List (List Rat)) (cs : List (List (List Rat))) :
    ∃ b, accumulateAllCols (c :: cs) = some b := by
  unfold accumulateAllCols
  rw [List.foldl_cons]
  exact foldl_accumulate_some cs _

theorem foldl_accumulate_files (fs : List (String × List (List Rat))) :
    fs.foldl (fun st f => some (accumulateCols st f.2)) none = accumulateAllCols (fs.map (·.2)) := by
  simp [accumulateAllCols, List.foldl_map]

/-! ## Pooled statistics do not depend on the order of the frames -/

theorem poolMean_perm {a b : List Rat} (h : a.Perm b) : poolMean a = poolMean b := by
  unfold poolMean; rw [h.sum_eq, h.length_eq]

theorem poolVar_perm {a b : List Rat} (h : a.Perm b) : poolVar a = poolVar b := by
  unfold poolVar
  rw [poolMean_perm h, (h.map _).sum_eq, h.length_eq]

theorem poolVarBessel_perm {a b : List Rat} (h : a.Perm b) : poolVarBessel a = poolVarBessel b := by
  unfold poolVarBessel
  rw [poolMean_perm h, (h.map _).sum_eq, h.length_eq]

theorem pooledStats_getD (chunks : List (List (List Rat))) (bessel : Bool) (i : Nat)
    (hi : i < (chunks.headD []).length) :
    (pooledStats chunks bessel).1.getD i 0 = poolMean (poolOf chunks i) ∧
    (pooledStats chunks bessel).2.getD i 0
      = (if bessel then poolVarBessel (poolOf chunks i) else poolVar (poolOf chunks i)) := by
  have hi' : i < (chunks.head?.getD []).length := by simpa [List.headD_eq_head?_getD] using hi
  simp [pooledStats, List.getD_eq_getElem?_getD, List.getElem?_map, List.getElem?_range hi']

theorem cliTable_snd (m : Option (List (String × String))) : ∀ p ∈ cliTable m, p.2 = none := by
  intro p hp
  cases m with
  | none => simp [cliTable] at hp; rw [hp]
  | some tbl =>
    simp only [cliTable, List.mem_map] at hp
    obtain ⟨g, _, rfl⟩ := hp
    rfl

theorem cliFinish_exit1 (bessel : Bool) (t : List (Option String × Option Acc))
    (h : cliFinish bessel t = .exit1) : (none, none) ∈ t := by
  induction t with
  | nil => simp [cliFinish] at h
  | cons p rest ih =>
    obtain ⟨gid, a?⟩ := p
    cases a? with
    | none =>
      simp only [cliFinish] at h
      by_cases hg : gid = none
      · simp [hg]
      · simp only [hg, if_false] at h
        exact List.mem_cons_of_mem _ (ih h)
    | some a =>
      simp only [cliFinish] at h
      cases hs : store (some a) bessel with
      | none => rw [hs] at h; simp at h
      | some st0 =>
        rw [hs] at h
        cases hr : cliFinish bessel rest with
        | exit1 => exact List.mem_cons_of_mem _ (ih hr)
        | raised => rw [hr] at h; simp at h
        | wrote l' => rw [hr] at h; simp at h

end PdtVerif.FeatStats
