import PdtVerif.Lemmas.Estimators
/-!
# C19 — the estimator OBJECT: assignments to attributes and repeated calls

Helper lemmas for `C19_life_*` (Properties/C19.lean).  The object model (`estRun`, `attrsAfter`,
`callsAt`, `isCall`, `directCall`, `imhCall`) is in `Model/Estimators.lean`.
-/
namespace PdtVerif.Estimators

section Generic
variable {A D R : Type}

/-- the invariant of a history: the state is the attribute values in force, the results are the calls
evaluated at the attribute values in force when they were made -/
theorem estRun_foldl (call : A → D → R) : ∀ (h : List (EstOp A D)) (a : A) (rs : List R),
    h.foldl (estStep call) (a, rs)
      = (attrsAfter a h, rs ++ (callsAt a h).map fun ad => call ad.1 ad.2) := by
  intro h
  induction h with
  | nil => intro a rs; simp [attrsAfter, callsAt]
  | cons op h ih =>
    intro a rs
    cases op with
    | set upd => simp only [List.foldl_cons, estStep, attrsAfter, callsAt, ih]
    | call d =>
      simp only [List.foldl_cons, estStep, attrsAfter, callsAt, ih, List.map_cons, List.append_assoc,
        List.singleton_append]

theorem estRun_eq (call : A → D → R) (a : A) (h : List (EstOp A D)) :
    estRun call a h = (attrsAfter a h, (callsAt a h).map fun ad => call ad.1 ad.2) := by
  simp [estRun, estRun_foldl]

theorem attrsAfter_append : ∀ (h1 h2 : List (EstOp A D)) (a : A),
    attrsAfter a (h1 ++ h2) = attrsAfter (attrsAfter a h1) h2 := by
  intro h1
  induction h1 with
  | nil => intro h2 a; rfl
  | cons op h1 ih => intro h2 a; cases op <;> simp [attrsAfter, ih]

theorem callsAt_append : ∀ (h1 h2 : List (EstOp A D)) (a : A),
    callsAt a (h1 ++ h2) = callsAt a h1 ++ callsAt (attrsAfter a h1) h2 := by
  intro h1
  induction h1 with
  | nil => intro h2 a; rfl
  | cons op h1 ih => intro h2 a; cases op <;> simp [attrsAfter, callsAt, ih]

/-- the call that ends a history returns what the call function gives at the attribute values in
force after the history -/
theorem estRun_last (call : A → D → R) (a : A) (h : List (EstOp A D)) (d : D) :
    (estRun call a (h ++ [.call d])).2.getLast? = some (call (attrsAfter a h) d) := by
  rw [estRun_eq, callsAt_append]
  simp [callsAt]

end Generic

/-! ## averages over the sample space under a change of point type -/
section Tuples
variable {α : Type} [Field α] {β γ : Type}

theorem tuples_map (g : β → γ) (Ω : List β) : ∀ N : Nat,
    tuples N (Ω.map g) = (tuples N Ω).map (List.map g) := by
  intro N
  induction N with
  | zero => simp [tuples]
  | succ n ih =>
    simp only [tuples, ih, List.flatMap_map, List.map_flatMap, List.map_map]
    congr 1

theorem weight_map (w : γ → α) (g : β → γ) (t : List β) :
    weight w (t.map g) = weight (fun b => w (g b)) t := by
  simp [weight, List.map_map, Function.comp_def]

/-- a sample space of `β`-points seen through `g : β → γ` -/
theorem meanOver_map (w : γ → α) (g : β → γ) (N : Nat) (Ω : List β) (G : List γ → Dual α) :
    meanOver w N (Ω.map g) G = meanOver (fun b => w (g b)) N Ω (fun t => G (t.map g)) := by
  simp only [meanOver, tuples_map, List.map_map, Function.comp_def, weight_map]

/-- two estimators that agree on every tuple of the sample space have the same average -/
theorem meanOver_congr (w : β → α) (N : Nat) (Ω : List β) (G G' : List β → Dual α)
    (h : ∀ t ∈ tuples N Ω, G t = G' t) : meanOver w N Ω G = meanOver w N Ω G' := by
  simp only [meanOver]
  congr 1
  apply List.map_congr_left
  intro t ht
  rw [h t ht]

end Tuples

section IS
variable {α σ : Type} [Field α]

/-- the two reads of `self.mc_samples` in one call agree: with `mc_samples` rows the divisor is the
number of rows -/
theorem isEstimateN_eq (ss : List (ISSample α)) : isEstimateN ss.length ss = isEstimate ss := rfl

/-- a call in the modelled mode on exactly `mc_samples` draws -/
theorem isCall_eq (a : ISAttrs α σ) (t : List σ) (hsn : a.selfNormalize = false)
    (hlog : a.isLog = false) (hl : t.length = a.mcSamples) (h0 : a.mcSamples ≠ 0) :
    isCall a t = some (isEstimate (t.map fun b => ⟨a.func b, a.density b, a.proposal b⟩)) := by
  have hN : (t.map fun b => (⟨a.func b, a.density b, a.proposal b⟩ : ISSample α)).length = a.mcSamples := by
    simp [hl]
  simp only [isCall, hsn, hlog, Bool.or_self, Bool.false_eq_true, if_false, hl, Nat.lt_irrefl, h0]
  rw [← hl, List.take_length, hl, ← hN, isEstimateN_eq]

theorem directCall_eq (a : DirectAttrs α σ) (t : List σ) (hlog : a.isLog = false)
    (hl : t.length = a.mcSamples) (h0 : a.mcSamples ≠ 0) (hcv : (a.cv.isSome && a.cvMean.isNone) = false) :
    directCall a t = some (directEstimate (t.map a.sample) a.cvMean) := by
  simp only [directCall, hlog, Bool.false_eq_true, if_false, hl, Nat.lt_irrefl, h0, hcv]
  rw [← hl, List.take_length]

/-- without a control variate `cv_mean` is not looked at (an object whose `cv` was taken away may
still carry its `cv_mean`) -/
theorem directEstimate_nocv (ss : List (DirectSample α)) (μ : Option (Dual α))
    (h : ∀ s ∈ ss, s.c = none) : directEstimate ss μ = directEstimate ss none := by
  have e : ss.map (directFb μ) = ss.map (directFb none) := by
    apply List.map_congr_left
    intro s hs
    simp [directFb, h s hs]
  simp only [directEstimate, e]

/-- the value of the call that ends a history (`0` if there is none / it is outside the modelled
mode) -/
def lastValue {A : Type} (r : A × List (Option (Dual α))) : Dual α := (r.2.getLast?.getD none).getD 0

end IS

end PdtVerif.Estimators
