import PdtVerif.Lemmas.SeqScorePacked
import PdtVerif.Lemmas.SeqScoreSupport
/-! The length bookkeeping of the `PackedSequence` path (core Lean only): for non-increasing
positive batch sizes, `pack_padded_sequence` re-derives the batch sizes from the lengths the code
computed from them, and "`i < batch_sizes[t]`" is "`t <` the length of sequence `i`". -/
namespace PdtVerif.SeqScore

/-- With non-increasing batch sizes the sequences still running at step `t` are those whose
length (the number of batch sizes above their index) exceeds `t`. -/
theorem lt_filter_length_iff (bs : List Nat) (hm : bs.Pairwise (fun a b => b ≤ a)) (n t : Nat) :
    t < (bs.filter (fun b => decide (n < b))).length ↔ n < bs.getD t 0 := by
  induction bs generalizing t with
  | nil => simp
  | cons b bs ih =>
    rw [List.pairwise_cons] at hm
    by_cases hb : n < b
    · cases t with
      | zero => simp [hb]
      | succ t =>
        have := ih hm.2 t
        simp [hb, this]
    · have hall : bs.filter (fun b => decide (n < b)) = [] := by
        rw [List.filter_eq_nil_iff]
        intro x hx
        have := hm.1 x hx
        simp only [decide_eq_true_eq]
        omega
      cases t with
      | zero => simp [hb, hall]
      | succ t =>
        have hle : bs[t]?.getD 0 ≤ n := by
          cases hget : bs[t]? with
          | none => simp
          | some x =>
            have := hm.1 x (List.mem_of_getElem? hget)
            simp only [Option.getD_some]
            omega
        simp [hb, hall, hle]

theorem count_range_lt (N k : Nat) :
    ((List.range N).filter (fun n => decide (n < k))).length = min N k := by
  induction N with
  | zero => simp
  | succ N ih =>
    rw [List.range_succ, List.filter_append, List.length_append, ih]
    by_cases h : N < k
    · simp [h]; omega
    · simp [h]; omega

/-- The length of the first (longest) sequence is the number of steps. -/
theorem lens_head (N : Nat) (bs : List Nat) (hpos : ∀ b ∈ bs, 0 < b) (hN : 0 < N) :
    (lensOfBatchSizes N bs).headD 0 = bs.length := by
  obtain ⟨M, rfl⟩ : ∃ M, N = M + 1 := ⟨N - 1, by omega⟩
  have hf : bs.filter (fun b => decide (0 < b)) = bs := by
    rw [List.filter_eq_self]
    intro b hb
    simpa using hpos b hb
  simp [lensOfBatchSizes, List.range_succ_eq_map, hf]

/-- **`hbs` for every valid `PackedSequence`**: batch sizes that are non-increasing, positive and
start at the number of sequences are reproduced by `pack_padded_sequence(hyp, lens)` from the
lengths `lens = (arange(N).unsqueeze(1) < batch_sizes).sum(1)`. -/
theorem batchSizes_roundtrip (N : Nat) (bs : List Nat) (hm : bs.Pairwise (fun a b => b ≤ a))
    (hpos : ∀ b ∈ bs, 0 < b) (hN : bs.head? = some N) :
    batchSizesOfLens (lensOfBatchSizes N bs) = bs := by
  obtain ⟨b0, rest, rfl⟩ : ∃ b r, bs = b :: r := by
    cases bs with
    | nil => simp at hN
    | cons b r => exact ⟨b, r, rfl⟩
  have hb0 : b0 = N := by simpa using hN
  subst hb0
  have hNpos : 0 < b0 := hpos b0 (by simp)
  unfold batchSizesOfLens
  rw [lens_head b0 (b0 :: rest) hpos hNpos]
  apply List.ext_getElem
  · simp
  · intro t h1 h2
    simp only [List.getElem_map, List.getElem_range, lensOfBatchSizes]
    rw [List.filter_map, List.length_map]
    have hcongr : (List.range b0).filter
          ((fun l => decide (t < l)) ∘ fun n => ((b0 :: rest).filter (fun b => decide (n < b))).length)
        = (List.range b0).filter (fun n => decide (n < (b0 :: rest).getD t 0)) := by
      apply List.filter_congr
      intro n _
      simp only [Function.comp]
      exact decide_eq_decide.2 (lt_filter_length_iff (b0 :: rest) hm n t)
    rw [hcongr, count_range_lt]
    have ht : t < (b0 :: rest).length := by simpa using h2
    have hget : (b0 :: rest).getD t 0 = (b0 :: rest)[t] := by
      simp [List.getD_eq_getElem?_getD, List.getElem?_eq_getElem ht]
    rw [hget]
    have hle : (b0 :: rest)[t] ≤ b0 := by
      cases t with
      | zero => simp
      | succ t =>
        rw [List.pairwise_cons] at hm
        exact hm.1 _ (by simp)
    omega

/-- The guard of the packed path (`pack_padded_sequence` raising on an empty batch, a zero length
or too few steps in `hyp`) does not fire for a valid `PackedSequence` and a `hyp` with at least as
many steps as the longest sequence. -/
theorem packed_guard (N T : Nat) (bs : List Nat) (hm : bs.Pairwise (fun a b => b ≤ a))
    (hpos : ∀ b ∈ bs, 0 < b) (hN : bs.head? = some N) (hT : bs.length ≤ T) :
    (decide (N = 0) || (lensOfBatchSizes N bs).any (· == 0) ||
      decide (T < (lensOfBatchSizes N bs).headD 0)) = false := by
  obtain ⟨b0, rest, rfl⟩ : ∃ b r, bs = b :: r := by
    cases bs with
    | nil => simp at hN
    | cons b r => exact ⟨b, r, rfl⟩
  have hb0 : b0 = N := by simpa using hN
  subst hb0
  have hNpos : 0 < b0 := hpos b0 (by simp)
  rw [lens_head b0 (b0 :: rest) hpos hNpos]
  have h1 : decide (b0 = 0) = false := decide_eq_false (by omega)
  have h3 : decide (T < (b0 :: rest).length) = false := decide_eq_false (Nat.not_lt.2 hT)
  have h2 : (lensOfBatchSizes b0 (b0 :: rest)).any (· == 0) = false := by
    rw [List.any_eq_false]
    intro l hl
    simp only [lensOfBatchSizes, List.mem_map, List.mem_range] at hl
    obtain ⟨n, hn, rfl⟩ := hl
    simp [hn]
  rw [h1, h2, h3]; rfl

/-- Sum of a row that is `0` from position `k` on. -/
theorem sum_range_cut (f : Nat → Rat) (n k : Nat) (hk : k ≤ n) :
    ((List.range n).map (fun t => if t < k then f t else 0)).sum = ((List.range k).map f).sum := by
  induction n with
  | zero =>
    have : k = 0 := by omega
    subst this; rfl
  | succ n ih =>
    rw [List.range_succ, List.map_append, rat_sum_append]
    by_cases hkn : k ≤ n
    · rw [ih hkn]
      have : ¬ n < k := by omega
      simp [this, Rat.add_zero]
    · have hkeq : k = n + 1 := by omega
      subst hkeq
      have hcong : (List.range n).map (fun t => if t < n + 1 then f t else 0) = (List.range n).map f := by
        apply List.map_congr_left
        intro t ht
        have : t < n + 1 := by have := List.mem_range.1 ht; omega
        simp [this]
      rw [hcong, List.range_succ, List.map_append, rat_sum_append]
      simp

/-- With non-increasing batch sizes, the steps at which sequence `i` is in the batch are its first
`len i` steps. -/
theorem sum_steps_eq (bs : List Nat) (hm : bs.Pairwise (fun a b => b ≤ a)) (i : Nat) (g : Nat → Rat) :
    ((bs.zipIdx).map (fun bt => if i < bt.1 then g bt.2 else 0)).sum
      = ((List.range (bs.filter (fun b => decide (i < b))).length).map g).sum := by
  have hform : (bs.zipIdx).map (fun bt => if i < bt.1 then g bt.2 else (0 : Rat))
      = (List.range bs.length).map
          (fun t => if t < (bs.filter (fun b => decide (i < b))).length then g t else 0) := by
    apply List.ext_getElem
    · simp
    · intro t h1 h2
      have ht : t < bs.length := by simpa using h1
      simp only [List.getElem_map, List.getElem_zipIdx, List.getElem_range, Nat.zero_add]
      have := lt_filter_length_iff bs hm i t
      have hget : bs.getD t 0 = bs[t] := by
        simp [List.getD_eq_getElem?_getD, List.getElem?_eq_getElem ht]
      rw [hget] at this
      by_cases h : i < bs[t]
      · simp [h, this.2 h]
      · have : ¬ t < (bs.filter (fun b => decide (i < b))).length := fun h' => h (this.1 h')
        simp [h, this]
  rw [hform]
  exact sum_range_cut g bs.length _ (List.length_filter_le _ _)

/-- The padded computation on the first `L` steps of one sequence (0 on out-of-vocabulary
tokens) is the spec's score of that sequence cut to `L` tokens (no `eos`). -/
theorem padded_cells_eq_spec (V L : Nat) (X : Nat → Nat → Rat) (h : Nat → Int) :
    ((List.range L).map (fun t => if oov V (h t) then (0 : Rat) else X t (h t).toNat)).sum
      = Spec.seqScore V none X ((List.range L).map h) := by
  have hsm := sum_masked_eq V X L ((List.range L).map h) 0
  have hL : (List.range L).map (fun t => if oov V (h t) then (0 : Rat) else X t (h t).toNat)
      = (((List.range L).map h).zipIdx 0).map
          (fun ht => if (oov V ht.1 || decide (L ≤ ht.2)) then (0 : Rat) else X ht.2 ht.1.toNat) := by
    apply List.ext_getElem
    · simp
    · intro t h1 h2
      have ht : t < L := by simpa using h1
      have : ¬ L ≤ t := by omega
      simp [this]
  rw [hL, hsm]
  unfold Spec.seqScore Spec.cutAtEos
  have : ((List.range L).map h).take (L - 0) = (List.range L).map h := by
    rw [List.take_of_length_le]; simp
  rw [this]

end PdtVerif.SeqScore
