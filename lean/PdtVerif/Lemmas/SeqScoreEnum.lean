import PdtVerif.Lemmas.SeqScoreFill
import PdtVerif.Lemmas.SeqScoreSupport
/-! `enumerate_support()` (all sequences → `fill_after_eos` → `torch.unique`) lists exactly the
rows of `Spec.support` (core Lean only). -/
namespace PdtVerif.SeqScore

/-! ### `lexLt` is a strict total order -/

theorem lexLt_irrefl (a : List Nat) : lexLt a a = false := by
  induction a with
  | nil => rfl
  | cons x xs ih => simp [lexLt, ih]

theorem lexLt_trans : ∀ (a b c : List Nat), lexLt a b = true → lexLt b c = true → lexLt a c = true
  | [], [], _, h, _ => by simp [lexLt] at h
  | [], _ :: _, [], _, h => by simp [lexLt] at h
  | [], _ :: _, _ :: _, _, _ => by simp [lexLt]
  | _ :: _, [], _, h, _ => by simp [lexLt] at h
  | _ :: _, _ :: _, [], _, h => by simp [lexLt] at h
  | x :: xs, y :: ys, z :: zs, h1, h2 => by
    simp only [lexLt, Bool.or_eq_true, decide_eq_true_eq, Bool.and_eq_true, beq_iff_eq] at h1 h2 ⊢
    rcases h1 with h1 | ⟨h1, h1'⟩ <;> rcases h2 with h2 | ⟨h2, h2'⟩
    · left; omega
    · left; omega
    · left; omega
    · right; exact ⟨by omega, lexLt_trans xs ys zs h1' h2'⟩

theorem lexLt_total : ∀ (a b : List Nat), a = b ∨ lexLt a b = true ∨ lexLt b a = true
  | [], [] => Or.inl rfl
  | [], _ :: _ => Or.inr (Or.inl rfl)
  | _ :: _, [] => Or.inr (Or.inr rfl)
  | x :: xs, y :: ys => by
    rcases Nat.lt_trichotomy x y with h | h | h
    · right; left; simp [lexLt, h]
    · subst h
      rcases lexLt_total xs ys with h' | h' | h'
      · left; rw [h']
      · right; left; simp [lexLt, h']
      · right; right; simp [lexLt, h']
    · right; right; simp [lexLt, h]

/-- Strictly increasing in the order `torch.unique(dim=0)` sorts by. -/
def SortedRows (l : List (List Nat)) : Prop := l.Pairwise (fun a b => lexLt a b = true)

/-! ### `torch.unique(dim=0)` -/

theorem mem_insertSorted (x a : List Nat) (l : List (List Nat)) :
    a ∈ insertSorted x l ↔ a = x ∨ a ∈ l := by
  induction l with
  | nil => simp [insertSorted]
  | cons y ys ih =>
    unfold insertSorted
    split
    · rename_i h
      have : x = y := by simpa using h
      subst this
      simp
    · split
      · simp
      · simp only [List.mem_cons, ih]
        exact or_left_comm

theorem sorted_insertSorted (x : List Nat) (l : List (List Nat)) (hs : SortedRows l) :
    SortedRows (insertSorted x l) := by
  induction l with
  | nil => simp [insertSorted, SortedRows]
  | cons y ys ih =>
    have hs' := List.pairwise_cons.1 hs
    unfold insertSorted
    split
    · exact hs
    · rename_i hne
      split
      · rename_i hlt
        refine List.pairwise_cons.2 ⟨?_, hs⟩
        intro a ha
        rcases List.mem_cons.1 ha with rfl | ha
        · exact hlt
        · exact lexLt_trans _ _ _ hlt (hs'.1 a ha)
      · rename_i hnlt
        have hyx : lexLt y x = true := by
          rcases lexLt_total x y with h | h | h
          · simp [h] at hne
          · exact absurd h hnlt
          · exact h
        refine List.pairwise_cons.2 ⟨?_, ih hs'.2⟩
        intro a ha
        rcases (mem_insertSorted x a ys).1 ha with rfl | ha
        · exact hyx
        · exact hs'.1 a ha

theorem mem_uniqueRows (l : List (List Nat)) (a : List Nat) : a ∈ uniqueRows l ↔ a ∈ l := by
  induction l with
  | nil => simp [uniqueRows]
  | cons x xs ih =>
    have : uniqueRows (x :: xs) = insertSorted x (uniqueRows xs) := rfl
    rw [this, mem_insertSorted, ih, List.mem_cons]

theorem sorted_uniqueRows (l : List (List Nat)) : SortedRows (uniqueRows l) := by
  induction l with
  | nil => simp [uniqueRows, SortedRows]
  | cons x xs ih =>
    have : uniqueRows (x :: xs) = insertSorted x (uniqueRows xs) := rfl
    rw [this]
    exact sorted_insertSorted x _ ih

/-- Two strictly sorted lists with the same members are equal. -/
theorem sorted_ext : ∀ (l1 l2 : List (List Nat)), SortedRows l1 → SortedRows l2 →
    (∀ a, a ∈ l1 ↔ a ∈ l2) → l1 = l2
  | [], [], _, _, _ => rfl
  | [], b :: l2, _, _, h => absurd ((h b).2 (by simp)) (by simp)
  | a :: l1, [], _, _, h => absurd ((h a).1 (by simp)) (by simp)
  | a :: l1, b :: l2, h1, h2, h => by
    have h1' := List.pairwise_cons.1 h1
    have h2' := List.pairwise_cons.1 h2
    have hab : a = b := by
      rcases List.mem_cons.1 ((h a).1 (by simp)) with h' | h'
      · exact h'
      · rcases List.mem_cons.1 ((h b).2 (by simp)) with h'' | h''
        · exact h''.symm
        · have := lexLt_trans _ _ _ (h2'.1 a h') (h1'.1 b h'')
          rw [lexLt_irrefl] at this
          cases this
    subst hab
    congr 1
    apply sorted_ext l1 l2 h1'.2 h2'.2
    intro c
    constructor
    · intro hc
      rcases List.mem_cons.1 ((h c).1 (List.mem_cons_of_mem _ hc)) with h' | h'
      · subst h'
        have := h1'.1 c hc
        rw [lexLt_irrefl] at this
        cases this
      · exact h'
    · intro hc
      rcases List.mem_cons.1 ((h c).2 (List.mem_cons_of_mem _ hc)) with h' | h'
      · subst h'
        have := h2'.1 c hc
        rw [lexLt_irrefl] at this
        cases this
      · exact h'

theorem SortedRows.nodup {l : List (List Nat)} (h : SortedRows l) : l.Nodup := by
  refine List.Pairwise.imp ?_ h
  intro a b hab heq
  subst heq
  rw [lexLt_irrefl] at hab
  cases hab

/-! ### `fillSpec` -/

theorem fillSpec_cons_eos (e : Nat) (r : List Nat) :
    Spec.fillSpec e (e :: r) = e :: List.replicate r.length e := by
  simp [Spec.fillSpec, List.idxOf_cons]

theorem fillSpec_cons_ne (e v : Nat) (r : List Nat) (h : v ≠ e) :
    Spec.fillSpec e (v :: r) = v :: Spec.fillSpec e r := by
  have hb : (v == e) = false := by simpa using h
  simp [Spec.fillSpec, List.idxOf_cons, hb]

theorem fillSpec_nil (e : Nat) : Spec.fillSpec e [] = [] := by simp [Spec.fillSpec]

theorem fillSpec_length (e : Nat) (r : List Nat) : (Spec.fillSpec e r).length = r.length := by
  induction r with
  | nil => simp [fillSpec_nil]
  | cons v r ih =>
    by_cases h : v = e
    · subst h; simp [fillSpec_cons_eos]
    · simp [fillSpec_cons_ne e v r h, ih]

theorem fillSpec_mem (e : Nat) (r : List Nat) (x : Nat) (hx : x ∈ Spec.fillSpec e r) : x ∈ r := by
  induction r with
  | nil => simp [fillSpec_nil] at hx
  | cons v r ih =>
    by_cases h : v = e
    · subst h
      rw [fillSpec_cons_eos] at hx
      rcases List.mem_cons.1 hx with h' | h'
      · simp [h']
      · have := (List.mem_replicate.1 h').2
        simp [this]
    · rw [fillSpec_cons_ne e v r h] at hx
      rcases List.mem_cons.1 hx with h' | h'
      · simp [h']
      · exact List.mem_cons_of_mem _ (ih h')

theorem fillSpec_idem (e : Nat) (r : List Nat) :
    Spec.fillSpec e (Spec.fillSpec e r) = Spec.fillSpec e r := by
  induction r with
  | nil => simp [fillSpec_nil]
  | cons v r ih =>
    by_cases h : v = e
    · subst h; simp [fillSpec_cons_eos]
    · rw [fillSpec_cons_ne e v r h, fillSpec_cons_ne e v _ h, ih]

/-! ### membership -/

/-- A row of the support: `T` in-vocabulary tokens with nothing but `eos` after the first `eos`. -/
def Canon (V : Nat) (eos : Option Nat) (T : Nat) (r : List Nat) : Prop :=
  r.length = T ∧ (∀ x ∈ r, x < V) ∧ ∀ e, eos = some e → Spec.fillSpec e r = r

theorem mem_support (V : Nat) (eos : Option Nat) :
    ∀ (T : Nat) (r : List Nat), r ∈ Spec.support V eos T ↔ Canon V eos T r
  | 0, r => by
    simp only [Spec.support, List.mem_singleton, Canon]
    constructor
    · rintro rfl
      exact ⟨rfl, by simp, fun e _ => fillSpec_nil e⟩
    · intro h
      exact List.eq_nil_of_length_eq_zero h.1
  | T + 1, r => by
    simp only [Spec.support, List.mem_flatMap, List.mem_range]
    constructor
    · rintro ⟨v, hv, hr⟩
      by_cases hve : some v = eos
      · simp only [hve, if_true, List.mem_singleton] at hr
        subst hr
        refine ⟨by simp, ?_, ?_⟩
        · intro x hx
          rcases List.mem_cons.1 hx with h | h
          · omega
          · have := (List.mem_replicate.1 h).2; omega
        · intro e he
          have : e = v := by rw [he] at hve; exact (Option.some.inj hve).symm
          subst this
          simp [fillSpec_cons_eos]
      · simp only [hve, if_false, List.mem_map] at hr
        obtain ⟨s, hs, rfl⟩ := hr
        obtain ⟨h1, h2, h3⟩ := (mem_support V eos T s).1 hs
        refine ⟨by simp [h1], ?_, ?_⟩
        · intro x hx
          rcases List.mem_cons.1 hx with h | h
          · omega
          · exact h2 x h
        · intro e he
          have hne : v ≠ e := fun h => hve (by rw [he, h])
          rw [fillSpec_cons_ne e v s hne, h3 e he]
    · rintro ⟨h1, h2, h3⟩
      cases r with
      | nil => simp at h1
      | cons v s =>
        have hlen : s.length = T := by simpa using h1
        refine ⟨v, h2 v (by simp), ?_⟩
        by_cases hve : some v = eos
        · simp only [hve, if_true, List.mem_singleton]
          have := h3 v hve.symm
          rw [fillSpec_cons_eos] at this
          have hs : s = List.replicate s.length v := (List.cons.inj this).2.symm
          rw [← hlen, ← hs]
        · simp only [hve, if_false, List.mem_map]
          refine ⟨s, (mem_support V eos T s).2 ⟨hlen, fun x hx => h2 x (List.mem_cons_of_mem _ hx), ?_⟩, rfl⟩
          intro e he
          have hne : v ≠ e := fun h => hve (by rw [he, h])
          have := h3 e he
          rw [fillSpec_cons_ne e v s hne] at this
          exact (List.cons.inj this).2

theorem mem_allSeqs (V : Nat) :
    ∀ (T : Nat) (r : List Nat), r ∈ allSeqs V T ↔ r.length = T ∧ ∀ x ∈ r, x < V
  | 0, r => by
    simp only [allSeqs, List.mem_singleton]
    constructor
    · rintro rfl; simp
    · intro h; exact List.eq_nil_of_length_eq_zero h.1
  | T + 1, r => by
    simp only [allSeqs, List.mem_flatMap, List.mem_range, List.mem_map]
    constructor
    · rintro ⟨v, hv, s, hs, rfl⟩
      obtain ⟨h1, h2⟩ := (mem_allSeqs V T s).1 hs
      refine ⟨by simp [h1], ?_⟩
      intro x hx
      rcases List.mem_append.1 hx with h | h
      · exact h2 x h
      · have : x = v := by simpa using h
        omega
    · rintro ⟨h1, h2⟩
      rcases List.eq_nil_or_concat r with h | ⟨s, v, h⟩
      · subst h; simp at h1
      · rw [List.concat_eq_append] at h
        subst h
        refine ⟨v, h2 v (by simp), s, (mem_allSeqs V T s).2 ⟨?_, ?_⟩, rfl⟩
        · simpa using h1
        · intro x hx; exact h2 x (by simp [hx])

theorem mem_filled (V T e : Nat) (r : List Nat) :
    r ∈ (allSeqs V T).map (fun s => fillAfterEos s e e) ↔ Canon V (some e) T r := by
  simp only [List.mem_map, fillAfterEos_eq_spec]
  constructor
  · rintro ⟨s, hs, rfl⟩
    obtain ⟨h1, h2⟩ := (mem_allSeqs V T s).1 hs
    refine ⟨by rw [fillSpec_length, h1], fun x hx => h2 x (fillSpec_mem e s x hx), ?_⟩
    intro e' he'
    cases he'
    exact fillSpec_idem e s
  · rintro ⟨h1, h2, h3⟩
    exact ⟨r, (mem_allSeqs V T r).2 ⟨h1, h2⟩, h3 e rfl⟩

/-- `enumerate_support()` and `Spec.support` have the same rows. -/
theorem mem_enumerateSupport (V T : Nat) (eos : Option Nat) (r : List Nat) :
    r ∈ enumerateSupport V T eos ↔ r ∈ Spec.support V eos T := by
  rw [mem_support]
  cases eos with
  | none =>
    simp only [enumerateSupport, mem_allSeqs, Canon]
    constructor
    · rintro ⟨h1, h2⟩; exact ⟨h1, h2, fun e he => by cases he⟩
    · rintro ⟨h1, h2, _⟩; exact ⟨h1, h2⟩
  | some e =>
    simp only [enumerateSupport, mem_uniqueRows, mem_filled]

/-! ### order -/

theorem head_of_mem_block (V : Nat) (eos : Option Nat) (T v : Nat) (x : List Nat)
    (hx : x ∈ (if some v = eos then [v :: List.replicate T v]
      else (Spec.support V eos T).map (fun s => v :: s))) : ∃ t, x = v :: t := by
  split at hx
  · exact ⟨_, List.mem_singleton.1 hx⟩
  · obtain ⟨s, _, rfl⟩ := List.mem_map.1 hx
    exact ⟨s, rfl⟩

theorem sorted_support (V : Nat) (eos : Option Nat) : ∀ T, SortedRows (Spec.support V eos T)
  | 0 => by simp [Spec.support, SortedRows]
  | T + 1 => by
    rw [Spec.support, SortedRows, List.pairwise_flatMap]
    constructor
    · intro v _
      split
      · simp
      · exact List.Pairwise.map _ (fun a b h => by simp [lexLt, h]) (sorted_support V eos T)
    · refine List.Pairwise.imp ?_ (List.pairwise_lt_range (n := V))
      intro v1 v2 hlt x hx y hy
      obtain ⟨t1, rfl⟩ := head_of_mem_block V eos T v1 x hx
      obtain ⟨t2, rfl⟩ := head_of_mem_block V eos T v2 y hy
      simp [lexLt, hlt]

/-- With `eos` set, `enumerate_support()` **is** the list `Spec.support` (lexicographic order of
`torch.unique`, no duplicates). -/
theorem enumerateSupport_eq (V T e : Nat) :
    enumerateSupport V T (some e) = Spec.support V (some e) T := by
  apply sorted_ext
  · exact sorted_uniqueRows _
  · exact sorted_support V (some e) T
  · intro a
    exact mem_enumerateSupport V T (some e) a

theorem nodup_allSeqs (V : Nat) : ∀ T, (allSeqs V T).Nodup
  | 0 => by simp [allSeqs]
  | T + 1 => by
    rw [allSeqs, List.Nodup, List.pairwise_flatMap]
    constructor
    · intro v _
      refine List.Pairwise.map _ ?_ (nodup_allSeqs V T)
      intro a b hab h
      exact hab (List.append_cancel_right h)
    · refine List.Pairwise.imp ?_ (List.nodup_range (n := V))
      intro v1 v2 hne x hx y hy hxy
      obtain ⟨s1, _, rfl⟩ := List.mem_map.1 hx
      obtain ⟨s2, _, h2⟩ := List.mem_map.1 hy
      have := List.append_inj' (h2.trans hxy.symm) rfl
      exact hne (by simpa using this.2.symm)

/-- `enumerate_support()` is a duplicate-free listing of `Spec.support` (for `eos` unset the
library's order differs: position 0 varies fastest). -/
theorem enumerateSupport_perm (V T : Nat) (eos : Option Nat) :
    (enumerateSupport V T eos).Perm (Spec.support V eos T) := by
  cases eos with
  | some e => rw [enumerateSupport_eq]
  | none =>
    apply (List.perm_ext_iff_of_nodup ?_ (sorted_support V none T).nodup).2
    · intro a; exact mem_enumerateSupport V T none a
    · exact nodup_allSeqs V T

theorem rat_sum_perm {l1 l2 : List Rat} (h : l1.Perm l2) : l1.sum = l2.sum := by
  induction h with
  | nil => rfl
  | cons x _ ih => simp [ih]
  | swap x y l =>
    simp only [List.sum_cons]
    rw [← Rat.add_assoc, ← Rat.add_assoc, Rat.add_comm y x]
  | trans _ _ ih1 ih2 => exact ih1.trans ih2

end PdtVerif.SeqScore
