import PdtVerif.Lemmas.NgramWindow
/-!
# Lemmas for C06, part 3: the memory layout of the history tensor

`calc_full_log_probs_chunked` is the only place that looks below the logical `(T, B)` view
of `hist`: it calls `contiguous()` and then `as_strided` with an absolute storage offset.
For every view (any storage, storage offset and strides) this reads exactly the logical
content: `fullChunkedView v = fullChunked v.rows`.
-/
namespace PdtVerif.NgramTrie

theorem View.rows_length (v : View) : v.rows.length = v.T := by simp [View.rows]

theorem View.rows_row_length (v : View) : ∀ r ∈ v.rows, r.length = v.B := by
  intro r hr
  simp only [View.rows, List.mem_map, List.mem_range] at hr
  obtain ⟨t, _, rfl⟩ := hr
  simp

theorem View.rows_getD (v : View) (t b : Nat) (ht : t < v.T) (hb : b < v.B) :
    (v.rows.getD t []).getD b 0 = v.get t b := by
  simp [View.rows, List.getD_eq_getElem?_getD, ht, hb]

/-- The strided windows only read the first `T*B` cells behind the starting offset. -/
theorem strided_congr (flat flat' : List Int) (B T Nm1 Trest t : Nat)
    (h : ∀ k, k < T * B → flat.getD k 0 = flat'.getD k 0)
    (hNt : Nm1 ≤ t) (hT : t + Trest ≤ T + 1) :
    strided flat B Nm1 Trest t = strided flat' B Nm1 Trest t := by
  unfold strided
  apply List.map_congr_left
  intro i hi
  apply List.map_congr_left
  intro j hj
  have hi' : i < Nm1 := List.mem_range.mp hi
  have hj' : j < Trest * B := List.mem_range.mp hj
  apply h
  have h1 : (t - Nm1 + i + Trest) * B ≤ T * B := Nat.mul_le_mul_right B (by omega)
  have h2 : (t - Nm1 + i + Trest) * B = B * (t - Nm1) + i * B + Trest * B := by
    rw [Nat.add_mul, Nat.add_mul, Nat.mul_comm (t - Nm1) B]
  omega

theorem chunkLoop_congr (b : Buffers) (V : Nat) (sos : Int) (B T Nm1 chunk : Nat)
    (hchunk : 1 ≤ chunk) (flat flat' : List Int)
    (h : ∀ k, k < T * B → flat.getD k 0 = flat'.getD k 0) :
    ∀ (fuel t : Nat), Nm1 ≤ t →
      chunkLoop b V sos B T Nm1 chunk flat fuel t = chunkLoop b V sos B T Nm1 chunk flat' fuel t := by
  intro fuel
  induction fuel with
  | zero => intro t _; rfl
  | succ fuel ih =>
    intro t hNt
    unfold chunkLoop
    by_cases ht : t < T + 1
    · rw [if_pos ht, if_pos ht]
      simp only
      rw [strided_congr flat flat' B T Nm1 _ t h hNt (by omega), ih (t + chunk) (by omega)]
    · rw [if_neg ht, if_neg ht]

/-- A view that torch considers contiguous stores element `[t, b]` at `off + t*B + b`. -/
theorem contig_cell (v : View) (hc : v.isContig = true) (k : Nat) (hk : k < v.T * v.B) :
    (v.storage.drop v.off).getD k 0 = v.rows.flatten.getD k 0 := by
  have hB : 0 < v.B := by
    rcases Nat.eq_zero_or_pos v.B with h | h
    · rw [h] at hk; simp at hk
    · exact h
  have hdm : v.B * (k / v.B) + k % v.B = k := Nat.div_add_mod k v.B
  have hb : k % v.B < v.B := Nat.mod_lt _ hB
  have ht : k / v.B < v.T := by
    rw [Nat.div_lt_iff_lt_mul hB]; exact hk
  have hk' : k = (k / v.B) * v.B + k % v.B := by rw [Nat.mul_comm]; exact hdm.symm
  have hne : ¬ (v.T * v.B = 0) := by omega
  simp only [View.isContig, if_neg hne, Bool.and_eq_true, Bool.or_eq_true, beq_iff_eq] at hc
  obtain ⟨hcB, hcT⟩ := hc
  conv => rhs; rw [hk']
  rw [flatten_getD v.B v.rows v.rows_row_length _ _ hb, View.rows_getD v _ _ ht hb]
  unfold View.get
  simp only [List.getD_eq_getElem?_getD, List.getElem?_drop]
  have hidx : v.off + k = v.off + k / v.B * v.sT + k % v.B * v.sB := by
    have e1 : k % v.B * v.sB = k % v.B := by
      rcases hcB with h1 | h1
      · have : k % v.B = 0 := by rw [h1]; exact Nat.mod_one k
        rw [this]; simp
      · rw [h1]; simp
    have e2 : k / v.B * v.sT = k / v.B * v.B := by
      rcases hcT with h1 | h1
      · have : k / v.B = 0 := by rw [h1] at ht; exact Nat.lt_one_iff.mp ht
        rw [this]; simp
      · rw [h1]
    rw [e1, e2]; omega
  rw [hidx]

/-- The row-major copy made by `contiguous()` has the same logical content. -/
theorem copy_rows (v : View) :
    (⟨v.rows.flatten, 0, v.B, 1, v.T, v.B⟩ : View).rows = v.rows := by
  unfold View.rows
  apply List.map_congr_left
  intro t ht
  apply List.map_congr_left
  intro bb hbb
  have ht' : t < v.T := List.mem_range.mp ht
  have hb' : bb < v.B := List.mem_range.mp hbb
  have := flatten_getD v.B v.rows v.rows_row_length t bb hb'
  rw [View.rows_getD v t bb ht' hb'] at this
  simp only [View.get, Nat.zero_add, Nat.mul_one]
  exact this

/-- **Layout independence of the chunked evaluation**: whatever storage, storage offset and
strides the `(T, B)` history view has, `calc_full_log_probs_chunked` computes what it
computes on the logical content. -/
theorem fullChunkedView_eq (b : Buffers) (V : Nat) (sos : Int) (v : View) (chunk : Nat)
    (hchunk : 1 ≤ chunk) :
    fullChunkedView b V sos v chunk = fullChunked b V sos v.B v.rows chunk := by
  unfold fullChunkedView fullChunked View.contiguous
  by_cases hc : v.isContig = true
  · simp only [hc, if_true, View.rows_length]
    congr 1
    exact chunkLoop_congr b V sos v.B v.T _ chunk hchunk _ _ (contig_cell v hc) _ _ (Nat.le_refl _)
  · simp only [hc, Bool.false_eq_true, if_false, copy_rows, View.rows_length, List.drop_zero]

end PdtVerif.NgramTrie
