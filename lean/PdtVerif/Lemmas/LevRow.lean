import PdtVerif.Model.LevRow
import PdtVerif.Lemmas.Levenshtein
/-!
# The sweep-form DP row is the row of Levenshtein distances of all reference prefixes

`dpRow_eq`: after consuming `hyp`, `row[j] = lev (ref.take j) hyp` for every `j ≤ |ref|`.
-/
set_option linter.unusedSectionVars false

namespace PdtVerif.Lev

variable {α : Type} [DecidableEq α]

/-- `lev (pre ++ xs.take (j+1)) h` for `j = 0..|xs|-1`. -/
def rowTail (c : Costs) (pre : List α) : List α → List α → List Rat
  | [], _ => []
  | x :: xs, h => lev c (pre ++ [x]) h :: rowTail c (pre ++ [x]) xs h

/-- The spec row: distances of every prefix of `ref` to `h`. -/
def levRow (c : Costs) (ref h : List α) : List Rat := lev c [] h :: rowTail c [] ref h

theorem rowTail_length (c : Costs) (pre xs h : List α) : (rowTail c pre xs h).length = xs.length := by
  induction xs generalizing pre with
  | nil => rfl
  | cons x xs ih => simp [rowTail, ih]

theorem levRow_length (c : Costs) (ref h : List α) : (levRow c ref h).length = ref.length + 1 := by
  simp [levRow, rowTail_length]

theorem rowTail_getElem? (c : Costs) (pre xs h : List α) (j : Nat) (hj : j < xs.length) :
    (rowTail c pre xs h)[j]? = some (lev c (pre ++ xs.take (j + 1)) h) := by
  induction xs generalizing pre j with
  | nil => simp at hj
  | cons x xs ih =>
    cases j with
    | zero => simp [rowTail]
    | succ j =>
      simp only [rowTail, List.getElem?_cons_succ]
      rw [ih (pre ++ [x]) j (by simpa using hj)]
      simp [List.take_succ_cons, List.append_assoc]

/-- Entry `j` of the spec row is the distance of the length-`j` prefix. -/
theorem levRow_getElem? (c : Costs) (ref h : List α) (j : Nat) (hj : j ≤ ref.length) :
    (levRow c ref h)[j]? = some (lev c (ref.take j) h) := by
  cases j with
  | zero => simp [levRow]
  | succ j =>
    simp only [levRow, List.getElem?_cons_succ]
    rw [rowTail_getElem? c [] ref h j (by omega)]
    simp

theorem sweep_rowTail (c : Costs) (y : α) (pre xs h : List α) :
    sweep c y xs (lev c pre h) (rowTail c pre xs h) (lev c pre (h ++ [y]))
      = rowTail c pre xs (h ++ [y]) := by
  induction xs generalizing pre with
  | nil => simp [sweep, rowTail]
  | cons x xs ih =>
    simp only [rowTail, sweep]
    rw [← lev_snoc c pre h x y, ih (pre ++ [x])]

/-- One step of the DP maps the spec row for `h` to the spec row for `h ++ [y]`. -/
theorem stepRow_levRow (c : Costs) (ref h : List α) (y : α) :
    stepRow c ref y (levRow c ref h) = levRow c ref (h ++ [y]) := by
  simp only [levRow, stepRow]
  rw [← lev_snoc_right_nil c h y, sweep_rowTail]

theorem row0_eq (c : Costs) (ref : List α) : row0 c ref = levRow c ref [] := by
  apply List.ext_getElem?
  intro j
  by_cases hj : j ≤ ref.length
  · rw [levRow_getElem? c ref [] j hj, lev_nil_right]
    simp [row0, Nat.lt_succ_of_le hj, Nat.min_eq_left hj]
  · have h1 : (row0 c ref).length ≤ j := by simp [row0]; omega
    have h2 : (levRow c ref []).length ≤ j := by rw [levRow_length]; omega
    rw [List.getElem?_eq_none h1, List.getElem?_eq_none h2]

/-- **The DP row is the row of prefix distances**, for every reference, hypothesis and costs. -/
theorem dpRow_eq (c : Costs) (ref hyp : List α) : dpRow c ref hyp = levRow c ref hyp := by
  unfold dpRow
  have : ∀ (h₀ : List α) (row : List Rat), row = levRow c ref h₀ →
      hyp.foldl (fun row y => stepRow c ref y row) row = levRow c ref (h₀ ++ hyp) := by
    induction hyp with
    | nil => intro h₀ row hr; simpa using hr
    | cons y hyp ih =>
      intro h₀ row hr
      simp only [List.foldl_cons]
      rw [ih (h₀ ++ [y]) _ (by rw [hr, stepRow_levRow])]
      simp
  simpa using this [] (row0 c ref) (row0_eq c ref)

/-- **The DP computes the weighted edit distance** (minimum over all edit scripts). -/
theorem dpDist_isLevDist (c : Costs) (ref hyp : List α) : IsLevDist c ref hyp (dpDist c ref hyp) := by
  unfold dpDist
  rw [dpRow_eq, List.getD_eq_getElem?_getD, levRow_getElem? c ref hyp ref.length (Nat.le_refl _)]
  simp only [List.take_length, Option.getD_some]
  exact lev_isLevDist c ref hyp

end PdtVerif.Lev
