import PdtVerif.Lemmas.OptCompletionRows
import PdtVerif.Model.OptCompletionBatch
/-!
# C03 — lemmas for the batch-level model: row-major indexing, transposition, layout, reductions
-/
namespace PdtVerif.OptCompletion
open PdtVerif.Lev

/-! ### row-major indexing -/

theorem length_flatten_uniform {β : Type} (N : Nat) (L : List (List β))
    (hL : ∀ l ∈ L, l.length = N) : L.flatten.length = L.length * N := by
  induction L with
  | nil => simp
  | cons l L ih =>
    rw [List.flatten_cons, List.length_append, hL l List.mem_cons_self,
      ih (fun l' h => hL l' (List.mem_cons_of_mem _ h)), List.length_cons, Nat.succ_mul]
    omega

theorem getD_flatten_uniform {β : Type} (N : Nat) (L : List (List β))
    (hL : ∀ l ∈ L, l.length = N) (k n : Nat) (hn : n < N) (d : β) :
    L.flatten.getD (k * N + n) d = (L.getD k []).getD n d := by
  rw [List.getD_eq_getElem?_getD, getElem?_flatten_uniform N L hL k n hn]
  by_cases hk : k < L.length
  · have e : L.getD k [] = L[k] := by
      rw [List.getD_eq_getElem?_getD, List.getElem?_eq_getElem hk]; rfl
    rw [List.getElem?_eq_getElem hk, e, List.getD_eq_getElem?_getD]
    rfl
  · have e : L.getD k [] = [] := by
      rw [List.getD_eq_getElem?_getD, List.getElem?_eq_none (by omega)]; rfl
    rw [List.getElem?_eq_none (by omega), e]
    rfl

theorem getD_map_range {β : Type} (f : Nat → β) (n i : Nat) (hi : i < n) (d : β) :
    ((List.range n).map f).getD i d = f i := by
  rw [List.getD_eq_getElem?_getD, List.getElem?_map, List.getElem?_range hi]
  rfl

theorem map_range_getD {β : Type} (l : List β) (n : Nat) (h : l.length = n) (d : β) :
    (List.range n).map (fun c => l.getD c d) = l := by
  apply List.ext_getElem
  · simp [h]
  · intro i h1 h2
    simp only [List.getElem_map, List.getElem_range]
    rw [List.getD_eq_getElem?_getD, List.getElem?_eq_getElem h2]
    rfl

theorem mul_add_lt {i c a b : Nat} (hi : i < a) (hc : c < b) : i * b + c < a * b := by
  have h1 : (i + 1) * b ≤ a * b := Nat.mul_le_mul_right b hi
  rw [Nat.succ_mul] at h1
  omega

/-! ### transposition -/

theorem Tens2.t_get {α : Type} (t : Tens2 α) (d : α) (i j : Nat) (hi : i < t.d0) (hj : j < t.d1) :
    (t.t d).get d j i = t.get d i j := by
  unfold Tens2.t Tens2.get
  simp only
  rw [getD_flatten_uniform t.d0 _ (by intro l hl; simp only [List.mem_map] at hl; obtain ⟨_, _, rfl⟩ := hl; simp)
    j i hi d, getD_map_range _ _ _ hj, getD_map_range _ _ _ hi]

theorem Tens3.transpose01_get {α : Type} (t : Tens3 α) (d : α) (i j c : Nat)
    (hi : i < t.d0) (hj : j < t.d1) (hc : c < t.d2) :
    (t.transpose01 d).get d j i c = t.get d i j c := by
  unfold Tens3.transpose01
  simp only [Tens3.get]
  have hidx : (j * t.d0 + i) * t.d2 + c = j * (t.d0 * t.d2) + (i * t.d2 + c) := by
    rw [Nat.add_mul, Nat.mul_assoc]; omega
  have hinner : ∀ j', (((List.range t.d0).map (fun i => (List.range t.d2).map
      (fun c => t.data.getD ((i * t.d1 + j') * t.d2 + c) d))).flatten).length = t.d0 * t.d2 := by
    intro j'
    rw [length_flatten_uniform t.d2 _ (by
      intro l hl; simp only [List.mem_map] at hl; obtain ⟨_, _, rfl⟩ := hl; simp)]
    simp
  rw [hidx, getD_flatten_uniform (t.d0 * t.d2) _ (by
      intro l hl; simp only [List.mem_map] at hl; obtain ⟨j', _, rfl⟩ := hl; exact hinner j')
    j (i * t.d2 + c) (mul_add_lt hi hc) d, getD_map_range _ _ _ hj,
    getD_flatten_uniform t.d2 _ (by
      intro l hl; simp only [List.mem_map] at hl; obtain ⟨_, _, rfl⟩ := hl; simp)
    i c hc d, getD_map_range _ _ _ hi, getD_map_range _ _ _ hc]

theorem Tens3.transpose01_vec {α : Type} (t : Tens3 α) (d : α) (i j : Nat)
    (hi : i < t.d0) (hj : j < t.d1) : (t.transpose01 d).vec d j i = t.vec d i j := by
  unfold Tens3.vec
  have h2 : (t.transpose01 d).d2 = t.d2 := rfl
  rw [h2]
  apply List.map_congr_left
  intro c hc
  exact Tens3.transpose01_get t d i j c hi hj (List.mem_range.mp hc)

end PdtVerif.OptCompletion

namespace PdtVerif.OptCompletion
open PdtVerif.Lev

/-! ### `batch_first`: the columns the per-column pipeline sees are the sequences of the call -/

theorem layout_d1 {α : Type} (bf : Bool) (t : Tens2 α) (d : α) :
    (if bf then t.t d else t).d1 = batchOf bf t := by cases bf <;> rfl

theorem layout_d0 {α : Type} (bf : Bool) (t : Tens2 α) (d : α) :
    (if bf then t.t d else t).d0 = seqLen bf t := by cases bf <;> rfl

theorem colsOf_layout (bf : Bool) (t : Tens2 Int) :
    colsOf (if bf then t.t 0 else t) = (List.range (batchOf bf t)).map (seqOf bf t) := by
  cases bf
  · rfl
  · simp only [if_true, colsOf, batchOf]
    have h1 : (t.t 0).d1 = t.d0 := rfl
    have h0 : (t.t 0).d0 = t.d1 := rfl
    rw [h1, h0]
    apply List.map_congr_left
    intro n hn
    apply List.map_congr_left
    intro i hi
    exact Tens2.t_get t 0 n i (List.mem_range.mp hn) (List.mem_range.mp hi)

theorem seqOf_length (bf : Bool) (t : Tens2 Int) (n : Nat) : (seqOf bf t n).length = seqLen bf t := by
  cases bf <;> simp [seqOf, seqLen]

/-- Rows of the scattered buffer: row `k·N + n` is the list of sequence `n` at prefix `k`, padded to
the common width. -/
theorem targetsBatch_row (cfg : Cfg) (refs hyps : List (List Int)) (k n : Nat)
    (hk : k ≤ nIter cfg.excludeLast (hyps.headD []).length)
    (hn : n < (List.zipWith (colSelected cfg) refs hyps).length) :
    ((List.zipWith (colSelected cfg) refs hyps)[n].getD k []).length ≤ (targetsBatch cfg refs hyps).1 ∧
    (targetsBatch cfg refs hyps).2[k * (List.zipWith (colSelected cfg) refs hyps).length + n]?
      = some ((List.zipWith (colSelected cfg) refs hyps)[n].getD k [] ++
          List.replicate ((targetsBatch cfg refs hyps).1
            - ((List.zipWith (colSelected cfg) refs hyps)[n].getD k []).length) cfg.padding) := by
  have hrow := rowsKN_getElem? cfg refs hyps k n hk hn
  have h2 : (targetsBatch cfg refs hyps).2
      = (rowsKN cfg refs hyps).map
          (fun l => l ++ List.replicate ((targetsBatch cfg refs hyps).1 - l.length) cfg.padding) := by
    simp only [targetsBatch]
    exact scatterRows_eq _ _ _
  constructor
  · simp only [targetsBatch]
    apply (le_foldl_max _ 0).2
    apply List.mem_map.mpr
    exact ⟨_, List.mem_of_getElem? hrow, rfl⟩
  · rw [h2, List.getElem?_map, hrow]
    rfl

theorem targetsBatch_width (cfg : Cfg) (refs hyps : List (List Int)) :
    ∀ row ∈ (targetsBatch cfg refs hyps).2, row.length = (targetsBatch cfg refs hyps).1 := by
  have h2 : (targetsBatch cfg refs hyps).2
      = (rowsKN cfg refs hyps).map
          (fun l => l ++ List.replicate ((targetsBatch cfg refs hyps).1 - l.length) cfg.padding) := by
    simp only [targetsBatch]
    exact scatterRows_eq _ _ _
  intro row hrow
  rw [h2, List.mem_map] at hrow
  obtain ⟨l, hl, rfl⟩ := hrow
  have : l.length ≤ (targetsBatch cfg refs hyps).1 := by
    simp only [targetsBatch]
    exact (le_foldl_max _ 0).2 _ (List.mem_map.mpr ⟨l, hl, rfl⟩)
  simp only [List.length_append, List.length_replicate]
  omega

/-- **Layout of `optimal_completion`'s result.** For a non-empty batch whose two tensors agree on
the batch size the call succeeds; the result has shape `(H', N, C)` — `(N, H', C)` under
`batch_first` —, and the vector at (prefix `k`, sequence `n`) is the target list of the `n`-th
reference/hypothesis pair (read off the input tensors in the layout of the call) at prefix `k`,
followed only by padding. -/
theorem optimalCompletionT_spec (cfg : Cfg) (bf : Bool) (ref hyp : Tens2 Int)
    (hN : batchOf bf ref = batchOf bf hyp) (hpos : 0 < batchOf bf ref) :
    ∃ out, optimalCompletionT cfg bf ref hyp = .ok out ∧
      out.d0 = (if bf then batchOf bf ref else 1 + nIter cfg.excludeLast (seqLen bf hyp)) ∧
      out.d1 = (if bf then 1 + nIter cfg.excludeLast (seqLen bf hyp) else batchOf bf ref) ∧
      ∀ k n, k ≤ nIter cfg.excludeLast (seqLen bf hyp) → n < batchOf bf ref →
        (targetList cfg bf ref hyp n k).length ≤ out.d2 ∧
        out.vec cfg.padding (if bf then n else k) (if bf then k else n)
          = targetList cfg bf ref hyp n k ++
              List.replicate (out.d2 - (targetList cfg bf ref hyp n k).length) cfg.padding := by
  -- facts about the columns the pipeline sees
  have hrefs : colsOf (if bf then ref.t 0 else ref)
      = (List.range (batchOf bf ref)).map (seqOf bf ref) := colsOf_layout bf ref
  have hhyps : colsOf (if bf then hyp.t 0 else hyp)
      = (List.range (batchOf bf ref)).map (seqOf bf hyp) := by
    rw [colsOf_layout bf hyp, ← hN]
  have hzl : (List.zipWith (colSelected cfg) ((List.range (batchOf bf ref)).map (seqOf bf ref))
      ((List.range (batchOf bf ref)).map (seqOf bf hyp))).length = batchOf bf ref := by simp
  have hhead : ((((List.range (batchOf bf ref)).map (seqOf bf hyp))).headD []).length = seqLen bf hyp := by
    obtain ⟨m, hm⟩ : ∃ m, batchOf bf ref = m + 1 := ⟨batchOf bf ref - 1, by omega⟩
    rw [hm, List.range_succ_eq_map]
    simp [seqOf_length]
  have hcol : ∀ n k (hn : n < (List.zipWith (colSelected cfg) ((List.range (batchOf bf ref)).map (seqOf bf ref))
      ((List.range (batchOf bf ref)).map (seqOf bf hyp))).length),
      (List.zipWith (colSelected cfg) ((List.range (batchOf bf ref)).map (seqOf bf ref))
        ((List.range (batchOf bf ref)).map (seqOf bf hyp)))[n].getD k [] = targetList cfg bf ref hyp n k := by
    intro n k hn
    simp [targetList]
  have hout : optimalCompletionT cfg bf ref hyp
      = .ok (if bf then
          (Tens3.mk (1 + nIter cfg.excludeLast (seqLen bf hyp)) (batchOf bf ref)
            (targetsBatch cfg ((List.range (batchOf bf ref)).map (seqOf bf ref))
              ((List.range (batchOf bf ref)).map (seqOf bf hyp))).1
            (targetsBatch cfg ((List.range (batchOf bf ref)).map (seqOf bf ref))
              ((List.range (batchOf bf ref)).map (seqOf bf hyp))).2.flatten).transpose01 cfg.padding
        else
          Tens3.mk (1 + nIter cfg.excludeLast (seqLen bf hyp)) (batchOf bf ref)
            (targetsBatch cfg ((List.range (batchOf bf ref)).map (seqOf bf ref))
              ((List.range (batchOf bf ref)).map (seqOf bf hyp))).1
            (targetsBatch cfg ((List.range (batchOf bf ref)).map (seqOf bf ref))
              ((List.range (batchOf bf ref)).map (seqOf bf hyp))).2.flatten) := by
    unfold optimalCompletionT
    simp only [hrefs, hhyps, layout_d0, layout_d1]
    rw [if_neg (fun h => h hN), if_neg (by omega)]
  generalize (List.range (batchOf bf ref)).map (seqOf bf ref) = refs at *
  generalize (List.range (batchOf bf ref)).map (seqOf bf hyp) = hyps at *
  have hwidth := targetsBatch_width cfg refs hyps
  have hrowAll := fun k n hk hn => targetsBatch_row cfg refs hyps k n hk hn
  generalize targetsBatch cfg refs hyps = tb at *
  -- rows of the un-transposed buffer
  have hbase : ∀ k n, k ≤ nIter cfg.excludeLast (seqLen bf hyp) → n < batchOf bf ref →
      (targetList cfg bf ref hyp n k).length ≤ tb.1 ∧
      (Tens3.mk (1 + nIter cfg.excludeLast (seqLen bf hyp)) (batchOf bf ref) tb.1 tb.2.flatten).vec
          cfg.padding k n
        = targetList cfg bf ref hyp n k ++
          List.replicate (tb.1 - (targetList cfg bf ref hyp n k).length) cfg.padding := by
    intro k n hk hn
    have hn' : n < (List.zipWith (colSelected cfg) refs hyps).length := by omega
    obtain ⟨hle, hrow⟩ := hrowAll k n (by rw [hhead]; exact hk) hn'
    rw [hcol n k hn'] at hrow hle
    rw [hzl] at hrow
    refine ⟨hle, ?_⟩
    have hvec : (Tens3.mk (1 + nIter cfg.excludeLast (seqLen bf hyp)) (batchOf bf ref) tb.1
          tb.2.flatten).vec cfg.padding k n
        = (List.range tb.1).map (fun c => (tb.2.getD (k * batchOf bf ref + n) []).getD c cfg.padding) := by
      simp only [Tens3.vec, Tens3.get]
      apply List.map_congr_left
      intro c hc
      exact getD_flatten_uniform tb.1 tb.2 hwidth (k * batchOf bf ref + n) c
        (List.mem_range.mp hc) cfg.padding
    rw [hvec]
    have hget : tb.2.getD (k * batchOf bf ref + n) [] = targetList cfg bf ref hyp n k ++
        List.replicate (tb.1 - (targetList cfg bf ref hyp n k).length) cfg.padding := by
      rw [List.getD_eq_getElem?_getD, hrow]; rfl
    rw [hget]
    apply map_range_getD
    simp only [List.length_append, List.length_replicate]
    omega
  refine ⟨_, hout, ?_, ?_, ?_⟩
  · cases bf <;> rfl
  · cases bf <;> rfl
  · intro k n hk hn
    obtain ⟨hle, hv⟩ := hbase k n hk hn
    cases bf
    · exact ⟨hle, hv⟩
    · refine ⟨hle, ?_⟩
      simp only [if_true]
      rw [Tens3.transpose01_vec _ cfg.padding k n (by show k < 1 + _; omega) hn]
      exact hv

end PdtVerif.OptCompletion

namespace PdtVerif.OptCompletion
open PdtVerif.Lev

/-! ### the loss: cells and reductions -/

theorem lossCell_padded (ignore : Int) (w lsm : Int → Rat) (S : List Int) (n : Nat)
    (h : ignore ∉ S) :
    lossCell ignore w lsm (S ++ List.replicate n ignore) = lossSpec w lsm S := by
  unfold lossCell lossSpec
  rw [filter_ne_padded ignore S n h, sum_terms_padded ignore w lsm S n h]
  by_cases hS : S = []
  · subst hS; simp
  · have : max S.length 1 = S.length := by
      have : 0 < S.length := List.length_pos_iff.mpr hS
      omega
    rw [if_neg hS, this]

theorem hasTarget_padded (ignore : Int) (S : List Int) (n : Nat) (h : ignore ∉ S) :
    hasTarget ignore (S ++ List.replicate n ignore) = !S.isEmpty := by
  unfold hasTarget
  cases S with
  | nil =>
    simp only [List.nil_append, List.isEmpty_nil, Bool.not_true]
    rw [List.any_eq_false]
    intro x hx
    simp only [List.mem_replicate] at hx
    simp [hx.2]
  | cons a S =>
    have ha : a ≠ ignore := by rintro rfl; exact h List.mem_cons_self
    simp [ha]

theorem sum_map_add_rat {β : Type} (l : List β) (f g : β → Rat) :
    (l.map (fun x => f x + g x)).sum = (l.map f).sum + (l.map g).sum := by
  induction l with
  | nil => simp
  | cons a l ih => simp only [List.map_cons, List.sum_cons, ih]; ring

theorem sum_map_zero_rat {β : Type} (l : List β) : (l.map (fun _ => (0 : Rat))).sum = 0 := by
  induction l with
  | nil => rfl
  | cons a l ih => rw [List.map_cons, List.sum_cons, ih]; ring

theorem sum_range_swap (A B : Nat) (g : Nat → Nat → Rat) :
    ((List.range A).map (fun a => ((List.range B).map (fun b => g a b)).sum)).sum
      = ((List.range B).map (fun b => ((List.range A).map (fun a => g a b)).sum)).sum := by
  induction A with
  | zero =>
    simp only [List.range_zero, List.map_nil, List.sum_nil]
    exact (sum_map_zero_rat _).symm
  | succ A ih =>
    simp only [List.range_succ, List.map_append, List.map_cons, List.map_nil, List.sum_append,
      List.sum_cons, List.sum_nil, add_zero]
    rw [ih, sum_map_add_rat]

theorem sum_flatten_range (A B : Nat) (g : Nat → Nat → Rat) :
    (((List.range A).map (fun a => (List.range B).map (fun b => g a b))).flatten).sum
      = ((List.range A).map (fun a => ((List.range B).map (fun b => g a b)).sum)).sum := by
  rw [List.sum_flatten, List.map_map]
  rfl

theorem lossNoneT_get (ignore : Int) (w : Int → Rat) (lsm : Tens3 Rat) (opt : Tens3 Int) (a b : Nat)
    (ha : a < opt.d0) (hb : b < opt.d1) :
    (lossNoneT ignore w lsm opt).get 0 a b
      = lossCell ignore w (lookup (lsm.vec 0 a b)) (opt.vec ignore a b) := by
  unfold lossNoneT Tens2.get
  simp only
  rw [getD_flatten_uniform opt.d1 _ (by
      intro l hl; simp only [List.mem_map] at hl; obtain ⟨_, _, rfl⟩ := hl; simp) a b hb 0,
    getD_map_range _ _ _ ha, getD_map_range _ _ _ hb]

theorem cfg_excl_eta (cfg : Cfg) (hex : cfg.excludeLast = true) :
    ({ cfg with excludeLast := true } : Cfg) = cfg := by
  cases cfg; simp only at hex; subst hex; rfl

end PdtVerif.OptCompletion

namespace PdtVerif.OptCompletion
open PdtVerif.Lev

theorem nIter_true (H : Nat) (hH : 0 < H) : 1 + nIter true H = H := by
  unfold nIter; simp; omega

/-- **The loss on whole tensors**: for a non-empty batch with at least one hypothesis position,
matching logits, an admissible eos and an `ignore_index` that is no target, the call succeeds for
every reduction and
* `none` is the matrix (in the layout of `hyp`) of the declarative cells `specCell`,
* `sum` is `lossSumSpec` of them,
* `mean` is `lossMeanSpec` of them — whichever dimension is the sequence dimension. -/
theorem hardOCDLossT_spec (cfg : Cfg) (hex : cfg.excludeLast = true) (bf : Bool) (w : Int → Rat)
    (lsm : Tens3 Rat) (ref hyp : Tens2 Int)
    (hN : batchOf bf ref = batchOf bf hyp) (hpos : 0 < batchOf bf ref) (hH : 0 < seqLen bf hyp)
    (hl0 : lsm.d0 = hyp.d0) (hl1 : lsm.d1 = hyp.d1)
    (heos : (cfg.includeEos && badEos cfg.eos cfg.padding lsm.d2) = false)
    (hign : ∀ n k, n < batchOf bf ref → cfg.padding ∉ targetList cfg bf ref hyp n k)
    (hcls : ∀ n k, n < batchOf bf ref → ∀ t ∈ targetList cfg bf ref hyp n k, 0 ≤ t ∧ t < (lsm.d2 : Int)) :
    (∃ L, hardOCDLossT cfg bf .none w lsm ref hyp = .ok (.matrix L) ∧ L.d0 = hyp.d0 ∧ L.d1 = hyp.d1 ∧
        ∀ k n, k < seqLen bf hyp → n < batchOf bf ref →
          L.get 0 (if bf then n else k) (if bf then k else n) = specCell cfg bf w lsm ref hyp k n) ∧
    hardOCDLossT cfg bf .sum w lsm ref hyp
      = .ok (.scalar (lossSumSpec (seqLen bf hyp) (batchOf bf ref) (specCell cfg bf w lsm ref hyp))) ∧
    hardOCDLossT cfg bf .mean w lsm ref hyp
      = .ok (.scalar (lossMeanSpec (seqLen bf hyp) (batchOf bf ref) (specCell cfg bf w lsm ref hyp)
          (specHas cfg bf ref hyp))) := by
  obtain ⟨out, hout, hd0, hd1, hrows⟩ := optimalCompletionT_spec cfg bf ref hyp hN hpos
  have hHp : 1 + nIter cfg.excludeLast (seqLen bf hyp) = seqLen bf hyp := by
    rw [hex]; exact nIter_true _ hH
  rw [hHp] at hd0 hd1
  have hcell : ∀ k n, k < seqLen bf hyp → n < batchOf bf ref →
      lossCell cfg.padding w (lookup (lsm.vec 0 (if bf then n else k) (if bf then k else n)))
        (out.vec cfg.padding (if bf then n else k) (if bf then k else n))
          = specCell cfg bf w lsm ref hyp k n
      ∧ hasT cfg.padding out (if bf then n else k) (if bf then k else n)
          = specHas cfg bf ref hyp k n := by
    intro k n hk hn
    have hk' : k ≤ nIter cfg.excludeLast (seqLen bf hyp) := by omega
    obtain ⟨_, hv⟩ := hrows k n hk' hn
    unfold hasT specCell specHas
    rw [hv]
    exact ⟨lossCell_padded _ _ _ _ _ (hign n k hn), hasTarget_padded _ _ _ (hign n k hn)⟩
  have hdims : out.d0 = lsm.d0 ∧ out.d1 = lsm.d1 := by
    rw [hl0, hl1, hd0, hd1]
    cases bf
    · exact ⟨rfl, hN⟩
    · exact ⟨hN, rfl⟩
  have hbt : badTarget cfg.padding lsm.d2 out = false := by
    by_contra hne
    rw [Bool.not_eq_false] at hne
    simp only [badTarget, List.any_eq_true, List.mem_range, Bool.and_eq_true, bne_iff_ne, ne_eq,
      Bool.or_eq_true, decide_eq_true_eq] at hne
    obtain ⟨a, ha, b, hb, t, ht, htp, hbad⟩ := hne
    rw [hd0] at ha
    rw [hd1] at hb
    have key : ∀ k n, k < seqLen bf hyp → n < batchOf bf ref →
        t ∈ out.vec cfg.padding (if bf then n else k) (if bf then k else n) → False := by
      intro k n hk hn hmem
      obtain ⟨_, hv⟩ := hrows k n (by omega) hn
      rw [hv, List.mem_append] at hmem
      rcases hmem with hmem | hmem
      · have := hcls n k hn t hmem
        omega
      · exact htp (List.eq_of_mem_replicate hmem)
    cases bf
    · exact key a b (by simpa using ha) (by simpa using hb) (by simpa using ht)
    · exact key b a (by simpa using hb) (by simpa using ha) (by simpa using ht)
  have hcall : ∀ red, hardOCDLossT cfg bf red w lsm ref hyp = .ok (match red with
      | .none => .matrix (lossNoneT cfg.padding w lsm out)
      | .sum => .scalar (lossSumT (lossNoneT cfg.padding w lsm out))
      | .mean => .scalar (lossMeanT bf cfg.padding (lossNoneT cfg.padding w lsm out) out)) := by
    intro red
    unfold hardOCDLossT
    rw [cfg_excl_eta cfg hex, hout]
    have c1 : ¬ (lsm.d0 ≠ hyp.d0 ∨ lsm.d1 ≠ hyp.d1) := by simp [hl0, hl1]
    rw [if_neg c1, heos]
    simp only [Bool.false_eq_true, if_false]
    rw [if_neg (by rw [hdims.1, hdims.2]; exact fun h => h rfl), hbt]
    simp only [Bool.false_eq_true, if_false]
    cases red <;> rfl
  refine ⟨⟨_, hcall .none, ?_, ?_, ?_⟩, ?_, ?_⟩
  · show out.d0 = hyp.d0
    rw [hdims.1, hl0]
  · show out.d1 = hyp.d1
    rw [hdims.2, hl1]
  · intro k n hk hn
    rw [lossNoneT_get _ _ _ _ _ _ (by rw [hd0]; cases bf <;> simpa using by assumption)
      (by rw [hd1]; cases bf <;> simpa using by assumption)]
    exact (hcell k n hk hn).1
  · rw [hcall .sum]
    show Except.ok (LossOut.scalar (lossSumT (lossNoneT cfg.padding w lsm out))) = _
    congr 2
    unfold lossSumT lossNoneT lossSumSpec
    simp only
    rw [sum_flatten_range, hd0, hd1]
    cases bf
    · simp only [Bool.false_eq_true, if_false] at hcell ⊢
      apply congrArg
      apply List.map_congr_left
      intro k hk
      apply congrArg
      apply List.map_congr_left
      intro n hn
      exact (hcell k n (List.mem_range.mp hk) (List.mem_range.mp hn)).1
    · simp only [if_true] at hcell ⊢
      rw [sum_range_swap]
      apply congrArg
      apply List.map_congr_left
      intro k hk
      apply congrArg
      apply List.map_congr_left
      intro n hn
      exact (hcell k n (List.mem_range.mp hk) (List.mem_range.mp hn)).1
  · rw [hcall .mean]
    show Except.ok (LossOut.scalar (lossMeanT bf cfg.padding (lossNoneT cfg.padding w lsm out) out)) = _
    congr 2
    unfold lossMeanT lossMeanSpec
    have hL0 : (lossNoneT cfg.padding w lsm out).d0 = out.d0 := rfl
    have hL1 : (lossNoneT cfg.padding w lsm out).d1 = out.d1 := rfl
    rw [hL0, hL1]
    cases bf
    · simp only [Bool.false_eq_true, if_false] at hcell hd0 hd1 ⊢
      rw [hd0, hd1]
      congr 2
      apply List.map_congr_left
      intro n hn
      have hn' := List.mem_range.mp hn
      congr 1
      · apply congrArg
        apply List.map_congr_left
        intro k hk
        have hk' := List.mem_range.mp hk
        rw [lossNoneT_get _ _ _ _ _ _ (by rw [hd0]; exact hk') (by rw [hd1]; exact hn')]
        exact (hcell k n hk' hn').1
      · congr 3
        apply List.filter_congr
        intro k hk
        exact (hcell k n (List.mem_range.mp hk) hn').2
    · simp only [if_true] at hcell hd0 hd1 ⊢
      rw [hd0, hd1]
      congr 2
      apply List.map_congr_left
      intro n hn
      have hn' := List.mem_range.mp hn
      congr 1
      · apply congrArg
        apply List.map_congr_left
        intro k hk
        have hk' := List.mem_range.mp hk
        rw [lossNoneT_get _ _ _ _ _ _ (by rw [hd0]; exact hn') (by rw [hd1]; exact hk')]
        exact (hcell k n hk' hn').1
      · congr 3
        apply List.filter_congr
        intro k hk
        exact (hcell k n (List.mem_range.mp hk) hn').2

/-- **A listed target that is no class index**: under the other preconditions of `hardOCDLossT_spec`, if
the target list of some place (prefix `k`, sequence `n`) holds a token `t ≠ ignore_index` outside
`[0, V)`, the model raises `IndexError` (the `Target … is out of bounds` of `cross_entropy`) for every
reduction — it does not return a number computed from a clamped class index. -/
theorem hardOCDLossT_rejects_target (cfg : Cfg) (hex : cfg.excludeLast = true) (bf : Bool) (red : Reduction)
    (w : Int → Rat) (lsm : Tens3 Rat) (ref hyp : Tens2 Int)
    (hN : batchOf bf ref = batchOf bf hyp) (hpos : 0 < batchOf bf ref) (hH : 0 < seqLen bf hyp)
    (hl0 : lsm.d0 = hyp.d0) (hl1 : lsm.d1 = hyp.d1)
    (heos : (cfg.includeEos && badEos cfg.eos cfg.padding lsm.d2) = false)
    (k n : Nat) (hk : k < seqLen bf hyp) (hn : n < batchOf bf ref) (t : Int)
    (ht : t ∈ targetList cfg bf ref hyp n k) (htp : t ≠ cfg.padding) (hbad : t < 0 ∨ (lsm.d2 : Int) ≤ t) :
    hardOCDLossT cfg bf red w lsm ref hyp = .error "IndexError" := by
  obtain ⟨out, hout, hd0, hd1, hrows⟩ := optimalCompletionT_spec cfg bf ref hyp hN hpos
  have hHp : 1 + nIter cfg.excludeLast (seqLen bf hyp) = seqLen bf hyp := by
    rw [hex]; exact nIter_true _ hH
  rw [hHp] at hd0 hd1
  have hdims : out.d0 = lsm.d0 ∧ out.d1 = lsm.d1 := by
    rw [hl0, hl1, hd0, hd1]
    cases bf
    · exact ⟨rfl, hN⟩
    · exact ⟨hN, rfl⟩
  have hbt : badTarget cfg.padding lsm.d2 out = true := by
    obtain ⟨_, hv⟩ := hrows k n (by omega) hn
    have hmem : t ∈ out.vec cfg.padding (if bf then n else k) (if bf then k else n) := by
      rw [hv]; exact List.mem_append_left _ ht
    simp only [badTarget, List.any_eq_true, List.mem_range, Bool.and_eq_true, bne_iff_ne, ne_eq,
      Bool.or_eq_true, decide_eq_true_eq]
    refine ⟨if bf then n else k, ?_, if bf then k else n, ?_, t, hmem, htp, hbad⟩
    · rw [hd0]; cases bf <;> simpa
    · rw [hd1]; cases bf <;> simpa
  unfold hardOCDLossT
  rw [cfg_excl_eta cfg hex, hout]
  have c1 : ¬ (lsm.d0 ≠ hyp.d0 ∨ lsm.d1 ≠ hyp.d1) := by simp [hl0, hl1]
  rw [if_neg c1, heos]
  simp only [Bool.false_eq_true, if_false]
  rw [if_neg (by rw [hdims.1, hdims.2]; exact fun h => h rfl), hbt]
  simp

end PdtVerif.OptCompletion
