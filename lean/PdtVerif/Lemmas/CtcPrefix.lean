import PdtVerif.Model.CtcPrefix
import Mathlib.Data.List.Basic
/-! Helper lemmas about the array model (`Model/CtcPrefix.lean`). -/
namespace PdtVerif.CtcPrefix

theorem getD_append_replicate {α} (l : List α) (n k : Nat) (x d : α) (h1 : l.length ≤ k)
    (h2 : k < l.length + n) : (l ++ List.replicate n x).getD k d = x := by
  rw [List.getD_eq_getElem?_getD, List.getElem?_append_right h1]
  have : k - l.length < n := by omega
  simp [List.getElem?_replicate, this]

theorem getB_replicate_false (n k : Nat) : getB (List.replicate n false) k = false := by
  unfold getB
  rw [List.getD_eq_getElem?_getD]
  by_cases h : k < n
  · simp [List.getElem?_replicate, h]
  · simp [List.getElem?_replicate, h]

/-- Slots beyond the candidates: masses `-inf`, length 0, prefix of nothing. -/
theorem advance_filler (fix : Bool) (V width : Nat) (ext : List (List XR)) (nonext : List XR)
    (blank : XR) (st : State) (sel : Option (List Nat)) (k : Nat)
    (hk1 : min width (st.nb.length * (V + 1)) ≤ k) (hk2 : k < width) :
    let o := (advance fix V width ext nonext blank st sel).st
    getX o.nb k = XR.negInf ∧ getX o.b k = XR.negInf ∧ getN o.lens k = 0 ∧
    (∀ k', get2B o.isPrefix k k' = false) := by
  simp only [advance]
  refine ⟨?_, ?_, ?_, ?_⟩
  · unfold getX
    apply getD_append_replicate
    · simpa using hk1
    · simp; omega
  · unfold getX
    apply getD_append_replicate
    · simpa using hk1
    · simp; omega
  · unfold getN
    apply getD_append_replicate
    · simpa using hk1
    · simp; omega
  · intro k'
    unfold get2B
    rw [getD_append_replicate]
    · exact getB_replicate_false _ _
    · simpa using hk1
    · simp; omega

/-! ### frames beyond the element's length -/

/-- lengths never exceed the time dimension, every token row has the time dimension's length -/
def LensOk (st : State) : Prop :=
  (∀ k, getN st.lens k ≤ st.tm1) ∧ (∀ k, k < st.y.length → (st.y.getD k []).length = st.tm1)

/-- all slot-indexed lists have `width` entries -/
def Sized (width : Nat) (st : State) : Prop :=
  st.nb.length = width ∧ st.b.length = width ∧ st.lens.length = width ∧ st.y.length = width

theorem lensOk_init : LensOk initState := by
  constructor
  · intro k
    match k with
    | 0 => simp [initState, getN]
    | k + 1 => simp [initState, getN]
  · intro k hk
    have : k = 0 := by simpa [initState] using hk
    subst this
    simp [initState]

theorem getD_map_range {α} (K : Nat) (g : Nat → α) (k : Nat) (d : α) (h : k < K) :
    ((List.range K).map g).getD k d = g k := by
  rw [List.getD_eq_getElem?_getD]
  simp [h]

theorem getD_append_left' {α} (l r : List α) (k : Nat) (d : α) (h : k < l.length) :
    (l ++ r).getD k d = l.getD k d := by
  rw [List.getD_eq_getElem?_getD, List.getD_eq_getElem?_getD, List.getElem?_append_left h]

theorem getD_ge {α} (l : List α) (k : Nat) (d : α) (h : l.length ≤ k) : l.getD k d = d := by
  rw [List.getD_eq_getElem?_getD, List.getElem?_eq_none h]; rfl

theorem ite01_le (c : Prop) [Decidable c] : (if c then (0 : Nat) else 1) ≤ 1 := by
  split <;> omega

theorem advance_sized (fix : Bool) (V width : Nat) (ext : List (List XR)) (nonext : List XR)
    (blank : XR) (st : State) (sel : Option (List Nat)) :
    Sized width (advance fix V width ext nonext blank st sel).st := by
  simp only [advance, Sized, List.length_append, List.length_map, List.length_range,
    List.length_replicate]
  omega

theorem advance_lensOk (fix : Bool) (V width : Nat) (ext : List (List XR)) (nonext : List XR)
    (blank : XR) (st : State) (sel : Option (List Nat)) (h : LensOk st) :
    LensOk (advance fix V width ext nonext blank st sel).st := by
  constructor
  · intro k
    simp only [advance]
    by_cases hk : k < min width (st.nb.length * (V + 1))
    · unfold getN
      rw [getD_append_left' _ _ _ _ (by simpa using hk), getD_map_range _ _ _ _ hk]
      have key : ∀ i, st.lens.getD i 0 ≤ st.tm1 := fun i => h.1 i
      rw [getD_map_range _ _ _ _ hk]
      exact Nat.add_le_add (key _) (ite01_le _)
    · unfold getN
      by_cases hk2 : k < width
      · rw [getD_append_replicate _ _ _ _ _ (by simpa using hk) (by simp; omega)]
        omega
      · rw [getD_ge _ _ _ (by simp; omega)]
        omega
  · intro k hk
    simp only [advance] at hk ⊢
    by_cases hk1 : k < min width (st.nb.length * (V + 1))
    · rw [getD_append_left' _ _ _ _ (by simpa using hk1), getD_map_range _ _ _ _ hk1]
      simp only [List.length_set, List.length_append, List.length_take, List.length_replicate,
        List.length_singleton]
      omega
    · rw [getD_append_replicate _ _ _ _ _ (by simpa using hk1) (by
        simp only [List.length_append, List.length_map, List.length_range, List.length_replicate] at hk
        simpa using hk)]
      simp

theorem expandTo_of_length {α} (width : Nat) (l : List α) (h : l.length = width) :
    expandTo width l = l := by
  match l, h with
  | [], _ => rfl
  | [a], h => simp at h; subst h; simp [expandTo]
  | _ :: _ :: _, _ => rfl

/-- `cur` carries the same masses and lengths as `st`, its token rows are those of `st`
followed by pad cells -/
def Rel (st cur : State) : Prop :=
  cur.nb = st.nb ∧ cur.b = st.b ∧ cur.lens = st.lens ∧
    ∃ n, cur.y = st.y.map (· ++ List.replicate n 0)

theorem rel_refl (st : State) : Rel st st := ⟨rfl, rfl, rfl, 0, by simp⟩

theorem loopStep_frozen (fix : Bool) (V width : Nat) (st cur : State) (f : FrameIn)
    (hs : Sized width cur) (hr : Rel st cur) :
    Sized width (loopStep fix V width false cur f).1 ∧ Rel st (loopStep fix V width false cur f).1 := by
  obtain ⟨h1, h2, h3, h4⟩ := hs
  obtain ⟨r1, r2, r3, n, r4⟩ := hr
  have e1 : expandTo width cur.y = cur.y := expandTo_of_length width _ h4
  have e2 : expandTo width cur.lens = cur.lens := expandTo_of_length width _ h3
  simp only [loopStep, Bool.false_eq_true, if_false, e1, e2, h1, Nat.sub_self, List.replicate_zero,
    List.append_nil]
  refine ⟨⟨h1, h2, h3, by simpa using h4⟩, r1, r2, r3, n + 1, ?_⟩
  rw [r4, List.map_map]
  apply List.map_congr_left
  intro row _
  simp [List.replicate_succ', List.append_assoc]

theorem loop_frozen (fix : Bool) (V width len : Nat) (st : State) :
    ∀ (fs : List FrameIn) (t : Nat) (cur : State), len ≤ t → Sized width cur → Rel st cur →
      Rel st (loop fix V width len t cur fs).1
  | [], _, cur, _, _, hr => by simpa [loop] using hr
  | f :: fs, t, cur, ht, hs, hr => by
    have hd : decide (t < len) = false := by simpa using ht
    simp only [loop, hd]
    obtain ⟨hs', hr'⟩ := loopStep_frozen fix V width st cur f hs hr
    exact loop_frozen fix V width len st fs (t + 1) _ (by omega) hs' hr'

theorem finish_rel (width : Nat) (st cur : State) (hs : Sized width st) (hl : LensOk st)
    (hr : Rel st cur) : finish width cur = finish width st := by
  obtain ⟨h1, _, h3, h4⟩ := hs
  obtain ⟨r1, r2, r3, n, r4⟩ := hr
  have hc : (st.nb.length == 1 && width != 1) = false := by
    rw [h1]; cases h : width == 1 <;> simp [bne, h]
  simp only [finish, r1, r2, r3, hc, Bool.false_eq_true, if_false]
  congr 1
  apply List.map_congr_left
  intro k hk
  have hk' : k < st.y.length := by
    rw [h4, ← h3]; simpa using hk
  rw [r4]
  have e : (st.y.map (· ++ List.replicate n 0)).getD k [] = st.y.getD k [] ++ List.replicate n 0 := by
    rw [List.getD_eq_getElem?_getD, List.getD_eq_getElem?_getD, List.getElem?_map,
      List.getElem?_eq_getElem hk']
    rfl
  rw [e]
  apply List.take_append_of_le_length
  rw [hl.2 k hk']
  exact hl.1 k

theorem loop_append (fix : Bool) (V width len : Nat) :
    ∀ (a b : List FrameIn) (t : Nat) (st : State),
      (loop fix V width len t st (a ++ b)).1
        = (loop fix V width len (t + a.length) (loop fix V width len t st a).1 b).1
  | [], b, t, st => by simp [loop]
  | f :: a, b, t, st => by
    simp only [List.cons_append, loop, List.length_cons]
    rw [loop_append fix V width len a b (t + 1)]
    have : t + 1 + a.length = t + (a.length + 1) := by omega
    rw [this]

/-- after at least one valid frame the state is sized and its lengths are in range -/
theorem loop_valid (fix : Bool) (V width len : Nat) :
    ∀ (a : List FrameIn) (t : Nat) (st : State), t + a.length ≤ len → LensOk st →
      LensOk (loop fix V width len t st a).1 ∧ (a ≠ [] → Sized width (loop fix V width len t st a).1)
  | [], _, st, _, hl => by simpa [loop] using hl
  | f :: a, t, st, ht, hl => by
    have hd : decide (t < len) = true := by simp at ht ⊢; omega
    have hstep : (loopStep fix V width true st f).1 = (advance fix V width f.ext f.nonext f.blank st f.sel).st := by
      simp [loopStep]
    simp only [loop, hd, hstep]
    have hl' := advance_lensOk fix V width f.ext f.nonext f.blank st f.sel hl
    have hs' := advance_sized fix V width f.ext f.nonext f.blank st f.sel
    obtain ⟨r1, r2⟩ := loop_valid fix V width len a (t + 1) _ (by simp at ht; omega) hl'
    refine ⟨r1, fun _ => ?_⟩
    by_cases ha : a = []
    · subst ha; simpa [loop] using hs'
    · exact r2 ha

/-- frames at or beyond the element's length do not change its result (at least one own frame) -/
theorem search_append_frozen (fix : Bool) (V width len : Nat) (own extra : List FrameIn)
    (hlen : own.length = len) (hne : own ≠ []) :
    (search fix V width len (own ++ extra)).1 = (search fix V width len own).1 := by
  have e : ∀ fr, (search fix V width len fr).1 = finish width (loop fix V width len 0 initState fr).1 := by
    intro fr; simp [search]
  rw [e, e, loop_append]
  obtain ⟨hl, hs⟩ := loop_valid fix V width len own 0 initState (by omega) lensOk_init
  apply finish_rel width _ _ (hs hne) hl
  exact loop_frozen fix V width len _ extra _ _ (by omega) (hs hne) (rel_refl _)

end PdtVerif.CtcPrefix
