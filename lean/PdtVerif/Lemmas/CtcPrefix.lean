import PdtVerif.Model.CtcPrefix
import Mathlib.Data.List.Basic
/-! Helper lemmas about the array model (`Model/CtcPrefix.lean`). -/
namespace PdtVerif.CtcPrefix

theorem getD_append_replicate {α} (l : List α) (n k : Nat) (x d : α) (h1 : l.length ≤ k)
    (h2 : k < l.length + n) : (l ++ List.replicate n x).getD k d = x := by
  rw [List.getD_eq_getElem?_getD, List.getElem?_append_right h1]
  have : k - l.length < n := by omega
  simp [List.getElem?_replicate, this]

theorem getB_replicate_false (n k : Nat) : getB (List.replicate n false) k = false := by
  unfold getB
  rw [List.getD_eq_getElem?_getD]
  by_cases h : k < n
  · simp [List.getElem?_replicate, h]
  · simp [List.getElem?_replicate, h]

/-- Slots beyond the candidates: masses `-inf`, length 0, prefix of nothing. -/
theorem advance_filler (fix : Bool) (V width : Nat) (ext : List (List XR)) (nonext : List XR)
    (blank : XR) (st : State) (sel : Option (List Nat)) (k : Nat)
    (hk1 : min width (st.nb.length * (V + 1)) ≤ k) (hk2 : k < width) :
    let o := (advance fix V width ext nonext blank st sel).st
    getX o.nb k = XR.negInf ∧ getX o.b k = XR.negInf ∧ getN o.lens k = 0 ∧
    (∀ k', get2B o.isPrefix k k' = false) := by
  simp only [advance]
  refine ⟨?_, ?_, ?_, ?_⟩
  · unfold getX
    apply getD_append_replicate
    · simpa using hk1
    · simp; omega
  · unfold getX
    apply getD_append_replicate
    · simpa using hk1
    · simp; omega
  · unfold getN
    apply getD_append_replicate
    · simpa using hk1
    · simp; omega
  · intro k'
    unfold get2B
    rw [getD_append_replicate]
    · exact getB_replicate_false _ _
    · simpa using hk1
    · simp; omega

/-! ### frames beyond the element's length -/

/-- lengths never exceed the time dimension, every token row has the time dimension's length -/
def LensOk (st : State) : Prop :=
  (∀ k, getN st.lens k ≤ st.tm1) ∧ (∀ k, k < st.y.length → (st.y.getD k []).length = st.tm1)

/-- all slot-indexed lists have `width` entries -/
def Sized (width : Nat) (st : State) : Prop :=
  st.nb.length = width ∧ st.b.length = width ∧ st.lens.length = width ∧ st.y.length = width

theorem lensOk_init : LensOk initState := by
  constructor
  · intro k
    match k with
    | 0 => simp [initState, getN]
    | k + 1 => simp [initState, getN]
  · intro k hk
    have : k = 0 := by simpa [initState] using hk
    subst this
    simp [initState]

theorem getD_map_range {α} (K : Nat) (g : Nat → α) (k : Nat) (d : α) (h : k < K) :
    ((List.range K).map g).getD k d = g k := by
  rw [List.getD_eq_getElem?_getD]
  simp [h]

theorem getD_append_left' {α} (l r : List α) (k : Nat) (d : α) (h : k < l.length) :
    (l ++ r).getD k d = l.getD k d := by
  rw [List.getD_eq_getElem?_getD, List.getD_eq_getElem?_getD, List.getElem?_append_left h]

theorem getD_ge {α} (l : List α) (k : Nat) (d : α) (h : l.length ≤ k) : l.getD k d = d := by
  rw [List.getD_eq_getElem?_getD, List.getElem?_eq_none h]; rfl

theorem ite01_le (c : Prop) [Decidable c] : (if c then (0 : Nat) else 1) ≤ 1 := by
  split <;> omega

theorem advance_sized (fix : Bool) (V width : Nat) (ext : List (List XR)) (nonext : List XR)
    (blank : XR) (st : State) (sel : Option (List Nat)) :
    Sized width (advance fix V width ext nonext blank st sel).st := by
  simp only [advance, Sized, List.length_append, List.length_map, List.length_range,
    List.length_replicate]
  omega

theorem advance_lensOk (fix : Bool) (V width : Nat) (ext : List (List XR)) (nonext : List XR)
    (blank : XR) (st : State) (sel : Option (List Nat)) (h : LensOk st) :
    LensOk (advance fix V width ext nonext blank st sel).st := by
  constructor
  · intro k
    simp only [advance]
    by_cases hk : k < min width (st.nb.length * (V + 1))
    · unfold getN
      rw [getD_append_left' _ _ _ _ (by simpa using hk), getD_map_range _ _ _ _ hk]
      have key : ∀ i, st.lens.getD i 0 ≤ st.tm1 := fun i => h.1 i
      rw [getD_map_range _ _ _ _ hk]
      exact Nat.add_le_add (key _) (ite01_le _)
    · unfold getN
      by_cases hk2 : k < width
      · rw [getD_append_replicate _ _ _ _ _ (by simpa using hk) (by simp; omega)]
        omega
      · rw [getD_ge _ _ _ (by simp; omega)]
        omega
  · intro k hk
    simp only [advance] at hk ⊢
    by_cases hk1 : k < min width (st.nb.length * (V + 1))
    · rw [getD_append_left' _ _ _ _ (by simpa using hk1), getD_map_range _ _ _ _ hk1]
      simp only [List.length_set, List.length_append, List.length_take, List.length_replicate,
        List.length_singleton]
      omega
    · rw [getD_append_replicate _ _ _ _ _ (by simpa using hk1) (by
        simp only [List.length_append, List.length_map, List.length_range, List.length_replicate] at hk
        simpa using hk)]
      simp

theorem expandTo_of_length {α} (width : Nat) (l : List α) (h : l.length = width) :
    expandTo width l = l := by
  match l, h with
  | [], _ => rfl
  | [a], h => simp at h; subst h; simp [expandTo]
  | _ :: _ :: _, _ => rfl

/-- `cur` carries the same masses and lengths as `st`, its token rows are those of `st`
followed by pad cells -/
def Rel (st cur : State) : Prop :=
  cur.nb = st.nb ∧ cur.b = st.b ∧ cur.lens = st.lens ∧
    ∃ n, cur.y = st.y.map (· ++ List.replicate n 0)

theorem rel_refl (st : State) : Rel st st := ⟨rfl, rfl, rfl, 0, by simp⟩

theorem loopStep_frozen (fix : Bool) (V width : Nat) (st cur : State) (f : FrameIn)
    (hs : Sized width cur) (hr : Rel st cur) :
    Sized width (loopStep fix V width false cur f).1 ∧ Rel st (loopStep fix V width false cur f).1 := by
  obtain ⟨h1, h2, h3, h4⟩ := hs
  obtain ⟨r1, r2, r3, n, r4⟩ := hr
  have e1 : expandTo width cur.y = cur.y := expandTo_of_length width _ h4
  have e2 : expandTo width cur.lens = cur.lens := expandTo_of_length width _ h3
  simp only [loopStep, Bool.false_eq_true, if_false, e1, e2, h1, Nat.sub_self, List.replicate_zero,
    List.append_nil]
  refine ⟨⟨h1, h2, h3, by simpa using h4⟩, r1, r2, r3, n + 1, ?_⟩
  rw [r4, List.map_map]
  apply List.map_congr_left
  intro row _
  simp [List.replicate_succ', List.append_assoc]

theorem loop_frozen (fix : Bool) (V width len : Nat) (st : State) :
    ∀ (fs : List FrameIn) (t : Nat) (cur : State), len ≤ t → Sized width cur → Rel st cur →
      Rel st (loop fix V width len t cur fs).1
  | [], _, cur, _, _, hr => by simpa [loop] using hr
  | f :: fs, t, cur, ht, hs, hr => by
    have hd : decide (t < len) = false := by simpa using ht
    simp only [loop, hd]
    obtain ⟨hs', hr'⟩ := loopStep_frozen fix V width st cur f hs hr
    exact loop_frozen fix V width len st fs (t + 1) _ (by omega) hs' hr'

theorem finish_rel (width : Nat) (st cur : State) (hs : Sized width st) (hl : LensOk st)
    (hr : Rel st cur) : finish width cur = finish width st := by
  obtain ⟨h1, _, h3, h4⟩ := hs
  obtain ⟨r1, r2, r3, n, r4⟩ := hr
  have hc : (st.nb.length == 1 && width != 1) = false := by
    rw [h1]; cases h : width == 1 <;> simp [bne, h]
  simp only [finish, r1, r2, r3, hc, Bool.false_eq_true, if_false]
  congr 1
  apply List.map_congr_left
  intro k hk
  have hk' : k < st.y.length := by
    rw [h4, ← h3]; simpa using hk
  rw [r4]
  have e : (st.y.map (· ++ List.replicate n 0)).getD k [] = st.y.getD k [] ++ List.replicate n 0 := by
    rw [List.getD_eq_getElem?_getD, List.getD_eq_getElem?_getD, List.getElem?_map,
      List.getElem?_eq_getElem hk']
    rfl
  rw [e]
  apply List.take_append_of_le_length
  rw [hl.2 k hk']
  exact hl.1 k

theorem loop_append (fix : Bool) (V width len : Nat) :
    ∀ (a b : List FrameIn) (t : Nat) (st : State),
      (loop fix V width len t st (a ++ b)).1
        = (loop fix V width len (t + a.length) (loop fix V width len t st a).1 b).1
  | [], b, t, st => by simp [loop]
  | f :: a, b, t, st => by
    simp only [List.cons_append, loop, List.length_cons]
    rw [loop_append fix V width len a b (t + 1)]
    have : t + 1 + a.length = t + (a.length + 1) := by omega
    rw [this]

/-- after at least one valid frame the state is sized and its lengths are in range -/
theorem loop_valid (fix : Bool) (V width len : Nat) :
    ∀ (a : List FrameIn) (t : Nat) (st : State), t + a.length ≤ len → LensOk st →
      LensOk (loop fix V width len t st a).1 ∧ (a ≠ [] → Sized width (loop fix V width len t st a).1)
  | [], _, st, _, hl => by simpa [loop] using hl
  | f :: a, t, st, ht, hl => by
    have hd : decide (t < len) = true := by simp at ht ⊢; omega
    have hstep : (loopStep fix V width true st f).1 = (advance fix V width f.ext f.nonext f.blank st f.sel).st := by
      simp [loopStep]
    simp only [loop, hd, hstep]
    have hl' := advance_lensOk fix V width f.ext f.nonext f.blank st f.sel hl
    have hs' := advance_sized fix V width f.ext f.nonext f.blank st f.sel
    obtain ⟨r1, r2⟩ := loop_valid fix V width len a (t + 1) _ (by simp at ht; omega) hl'
    refine ⟨r1, fun _ => ?_⟩
    by_cases ha : a = []
    · subst ha; simpa [loop] using hs'
    · exact r2 ha

/-- frames at or beyond the element's length do not change its result (at least one own frame) -/
theorem search_append_frozen (fix : Bool) (V width len : Nat) (own extra : List FrameIn)
    (hlen : own.length = len) (hne : own ≠ []) :
    (search fix V width len (own ++ extra)).1 = (search fix V width len own).1 := by
  have e : ∀ fr, (search fix V width len fr).1 = finish width (loop fix V width len 0 initState fr).1 := by
    intro fr; simp [search]
  rw [e, e, loop_append]
  obtain ⟨hl, hs⟩ := loop_valid fix V width len own 0 initState (by omega) lensOk_init
  apply finish_rel width _ _ (hs hne) hl
  exact loop_frozen fix V width len _ extra _ _ (by omega) (hs hne) (rel_refl _)


/-! ### never NaN (repaired code) -/

def XR.clean : XR → Bool
  | .fin _ => true
  | .negInf => true
  | _ => false

theorem fin_of_isFin {x : XR} (h : x.isFin = true) : ∃ q, x = .fin q := by
  cases x <;> simp [XR.isFin] at h ⊢

theorem clean_of_isFin {x : XR} (h : x.isFin = true) : x.clean = true := by
  cases x <;> simp [XR.isFin, XR.clean] at h ⊢

theorem add_isFin {x y : XR} (hx : x.isFin = true) (hy : y.isFin = true) : (x + y).isFin = true := by
  obtain ⟨a, rfl⟩ := fin_of_isFin hx
  obtain ⟨b, rfl⟩ := fin_of_isFin hy
  rfl

theorem mul_isFin {x y : XR} (hx : x.isFin = true) (hy : y.isFin = true) : (x * y).isFin = true := by
  obtain ⟨a, rfl⟩ := fin_of_isFin hx
  obtain ⟨b, rfl⟩ := fin_of_isFin hy
  rfl

theorem mulBool_isFin {x : XR} (hx : x.isFin = true) (b : Bool) : (XR.mulBool x b).isFin = true := by
  unfold XR.mulBool
  apply mul_isFin hx
  cases b <;> rfl

theorem getX_isFin (l : List XR) (h : ∀ x ∈ l, x.isFin = true) (i : Nat) : (getX l i).isFin = true := by
  unfold getX
  rw [List.getD_eq_getElem?_getD]
  by_cases hi : i < l.length
  · rw [List.getElem?_eq_getElem hi]; exact h _ (List.getElem_mem hi)
  · rw [List.getElem?_eq_none (by omega)]; rfl

theorem getX_clean (l : List XR) (h : ∀ x ∈ l, x.clean = true) (i : Nat) : (getX l i).clean = true := by
  unfold getX
  rw [List.getD_eq_getElem?_getD]
  by_cases hi : i < l.length
  · rw [List.getElem?_eq_getElem hi]; exact h _ (List.getElem_mem hi)
  · rw [List.getElem?_eq_none (by omega)]; rfl

theorem get2X_isFin (m : List (List XR)) (h : ∀ r ∈ m, ∀ x ∈ r, x.isFin = true) (i j : Nat) :
    (get2X m i j).isFin = true := by
  unfold get2X
  apply getX_isFin
  rw [List.getD_eq_getElem?_getD]
  by_cases hi : i < m.length
  · rw [List.getElem?_eq_getElem hi]; exact h _ (List.getElem_mem hi)
  · rw [List.getElem?_eq_none (by omega)]; intro x hx; simp at hx

theorem sum_isFin (l : List XR) (h : ∀ x ∈ l, x.isFin = true) : (XR.sum l).isFin = true := by
  unfold XR.sum
  have : ∀ (acc : XR), acc.isFin = true → (l.foldl XR.add acc).isFin = true := by
    induction l with
    | nil => intro acc ha; simpa using ha
    | cons a l ih =>
      intro acc ha
      simp only [List.foldl_cons]
      exact ih (fun x hx => h x (by simp [hx])) _ (add_isFin (x := acc) (y := a) ha (h a (by simp)))
  exact this _ rfl

/-- clean + clean total not -inf ⇒ both finite -/
theorem fin_of_tot {x y : XR} (hx : x.clean = true) (hy : y.clean = true) (h : (x + y).isNegInf = false) :
    x.isFin = true ∧ y.isFin = true := by
  cases x <;> cases y <;> first
    | exact ⟨rfl, rfl⟩
    | (exfalso; revert hx; simp [XR.clean]; done)
    | (exfalso; revert hy; simp [XR.clean]; done)
    | (exfalso; revert h; simp [XR.isNegInf, HAdd.hAdd, Add.add, XR.add]; done)

theorem getX_map_range (n : Nat) (g : Nat → XR) (k : Nat) (h : k < n) :
    getX ((List.range n).map g) k = g k := getD_map_range n g k _ h

theorem getB_map_range (n : Nat) (g : Nat → Bool) (k : Nat) (h : k < n) :
    getB ((List.range n).map g) k = g k := getD_map_range n g k _ h

theorem advance_clean (V width : Nat) (ext : List (List XR)) (nonext : List XR)
    (blank : XR) (st : State) (sel : Option (List Nat))
    (hnb : ∀ x ∈ st.nb, x.clean = true) (hb : ∀ x ∈ st.b, x.clean = true)
    (hext : ∀ r ∈ ext, ∀ x ∈ r, x.isFin = true) (hne : ∀ x ∈ nonext, x.isFin = true)
    (hbl : blank.isFin = true) :
    let o := (advance true V width ext nonext blank st sel).st
    (∀ x ∈ o.nb, x.clean = true) ∧ (∀ x ∈ o.b, x.clean = true) := by
  unfold advance
  extract_lets Kp ks vs K tm1 tot0 invalid inv nbP bP tot isP last nbExt0 bNon nbNon0 toMatch exact nbNon1 hasMatch nbExt nbNon flatExt cand sel' js ind isNon src extTok prefLens yNext lensNext nbNext bNext lastNext isPNext rem padRow
  have hinv : ∀ k, k < Kp → inv k = false → (getX st.nb k).isFin = true ∧ (getX st.b k).isFin = true := by
    intro k hk hi
    have e1 : inv k = (getX st.nb k + getX st.b k).isNegInf := by
      show getB invalid k = _
      simp only [invalid, ks]
      rw [getB_map_range _ _ _ hk]
      simp only [tot0, ks, Bool.true_and]
      rw [getX_map_range _ _ _ hk]
    rw [e1] at hi
    exact fin_of_tot (getX_clean _ hnb k) (getX_clean _ hb k) hi
  have F_nbP : ∀ x ∈ nbP, x.isFin = true := by
    intro x hx
    simp only [nbP, ks, List.mem_map, List.mem_range] at hx
    obtain ⟨k, hk, rfl⟩ := hx
    split
    · rfl
    · rename_i h; exact (hinv k hk (by simpa using h)).1
  have F_bP : ∀ x ∈ bP, x.isFin = true := by
    intro x hx
    simp only [bP, ks, List.mem_map, List.mem_range] at hx
    obtain ⟨k, hk, rfl⟩ := hx
    split
    · rfl
    · rename_i h; exact (hinv k hk (by simpa using h)).2
  have F_tot : ∀ x ∈ tot, x.isFin = true := by
    intro x hx
    simp only [tot, ks, List.mem_map, List.mem_range] at hx
    obtain ⟨k, hk, rfl⟩ := hx
    split
    · rfl
    · rename_i h
      simp only [tot0, ks]
      rw [getX_map_range _ _ _ hk]
      have := hinv k hk (by simpa using h)
      exact add_isFin this.1 this.2
  have F_nbExt0 : ∀ r ∈ nbExt0, ∀ x ∈ r, x.isFin = true := by
    intro r hr x hx
    simp only [nbExt0, ks, List.mem_map, List.mem_range] at hr
    obtain ⟨k, _, rfl⟩ := hr
    simp only [vs, List.mem_map, List.mem_range] at hx
    obtain ⟨v, _, rfl⟩ := hx
    apply mul_isFin _ (get2X_isFin ext hext _ _)
    apply add_isFin _ (getX_isFin bP F_bP _)
    split
    · rfl
    · exact getX_isFin nbP F_nbP _
  have F_bNon : ∀ x ∈ bNon, x.isFin = true := by
    intro x hx
    simp only [bNon, ks, List.mem_map, List.mem_range] at hx
    obtain ⟨k, _, rfl⟩ := hx
    exact mul_isFin (getX_isFin tot F_tot _) hbl
  have F_nbNon0 : ∀ x ∈ nbNon0, x.isFin = true := by
    intro x hx
    simp only [nbNon0, ks, List.mem_map, List.mem_range] at hx
    obtain ⟨k, _, rfl⟩ := hx
    exact mul_isFin (getX_isFin nbP F_nbP _) (getX_isFin nonext hne _)
  have F_nbNon1 : ∀ x ∈ nbNon1, x.isFin = true := by
    intro x hx
    simp only [nbNon1, ks, List.mem_map, List.mem_range] at hx
    obtain ⟨k', _, rfl⟩ := hx
    apply add_isFin (getX_isFin nbNon0 F_nbNon0 _)
    apply sum_isFin
    intro y hy
    simp only [List.mem_map, List.mem_range] at hy
    obtain ⟨k, _, rfl⟩ := hy
    split
    · exact get2X_isFin nbExt0 F_nbExt0 _ _
    · rfl
  have C_nbNon : ∀ x ∈ nbNon, x.clean = true := by
    intro x hx
    simp only [nbNon, ks, List.mem_map, List.mem_range] at hx
    obtain ⟨k, _, rfl⟩ := hx
    split
    · rfl
    · exact clean_of_isFin (getX_isFin nbNon1 F_nbNon1 _)
  have C_flat : ∀ x ∈ flatExt, x.clean = true := by
    intro x hx
    simp only [flatExt, List.mem_flatten] at hx
    obtain ⟨r, hr, hx⟩ := hx
    simp only [nbExt, ks, List.mem_map, List.mem_range] at hr
    obtain ⟨k, _, rfl⟩ := hr
    simp only [vs, List.mem_map, List.mem_range] at hx
    obtain ⟨v, _, rfl⟩ := hx
    split
    · rfl
    · exact clean_of_isFin (get2X_isFin nbExt0 F_nbExt0 _ _)
  constructor
  · intro x hx
    rcases List.mem_append.1 hx with hx | hx
    · simp only [nbNext, js, List.mem_map, List.mem_range] at hx
      obtain ⟨j, _, rfl⟩ := hx
      split
      · exact getX_clean nbNon C_nbNon _
      · exact getX_clean flatExt C_flat _
    · rw [List.eq_of_mem_replicate hx]; rfl
  · intro x hx
    rcases List.mem_append.1 hx with hx | hx
    · simp only [bNext, js, List.mem_map, List.mem_range] at hx
      obtain ⟨j, _, rfl⟩ := hx
      exact clean_of_isFin (mulBool_isFin (getX_isFin bNon F_bNon _) _)
    · rw [List.eq_of_mem_replicate hx]; rfl


theorem add_clean {x y : XR} (hx : x.clean = true) (hy : y.clean = true) : (x + y).clean = true := by
  cases x <;> cases y <;> first
    | rfl
    | (exfalso; revert hx; simp [XR.clean]; done)
    | (exfalso; revert hy; simp [XR.clean]; done)

/-- all probabilities handed to one call of the step function are finite numbers -/
def FrameFin (f : FrameIn) : Prop :=
  (∀ r ∈ f.ext, ∀ x ∈ r, x.isFin = true) ∧ (∀ x ∈ f.nonext, x.isFin = true) ∧ f.blank.isFin = true

def CleanState (st : State) : Prop := (∀ x ∈ st.nb, x.clean = true) ∧ (∀ x ∈ st.b, x.clean = true)

theorem loopStep_clean (V width : Nat) (valid : Bool) (st : State) (f : FrameIn) (hf : FrameFin f)
    (hc : CleanState st) : CleanState (loopStep true V width valid st f).1 := by
  cases valid with
  | true =>
    have : (loopStep true V width true st f).1 = (advance true V width f.ext f.nonext f.blank st f.sel).st := by
      simp [loopStep]
    rw [this]
    exact advance_clean V width f.ext f.nonext f.blank st f.sel hc.1 hc.2 hf.1 hf.2.1 hf.2.2
  | false =>
    simp only [loopStep, Bool.false_eq_true, if_false, CleanState]
    constructor
    · intro x hx
      rcases List.mem_append.1 hx with hx | hx
      · exact hc.1 x hx
      · rw [List.eq_of_mem_replicate hx]; rfl
    · intro x hx
      rcases List.mem_append.1 hx with hx | hx
      · exact hc.2 x hx
      · rw [List.eq_of_mem_replicate hx]; rfl

theorem loop_clean (V width len : Nat) :
    ∀ (fs : List FrameIn) (t : Nat) (st : State), (∀ f ∈ fs, FrameFin f) → CleanState st →
      CleanState (loop true V width len t st fs).1
  | [], _, st, _, hc => by simpa [loop] using hc
  | f :: fs, t, st, hf, hc => by
    simp only [loop]
    exact loop_clean V width len fs (t + 1) _ (fun g hg => hf g (by simp [hg]))
      (loopStep_clean V width _ st f (hf f (by simp)) hc)

theorem finish_clean (width : Nat) (st : State) (hc : CleanState st) :
    ∀ x ∈ (finish width st).probs, x.clean = true := by
  have base : ∀ x ∈ (List.range st.nb.length).map (fun k => getX st.nb k + getX st.b k), x.clean = true := by
    intro x hx
    simp only [List.mem_map, List.mem_range] at hx
    obtain ⟨k, _, rfl⟩ := hx
    exact add_clean (getX_clean _ hc.1 k) (getX_clean _ hc.2 k)
  intro x hx
  simp only [finish] at hx
  split at hx
  · rcases List.mem_append.1 hx with hx | hx
    · exact base x hx
    · rw [List.eq_of_mem_replicate hx]; rfl
  · exact base x hx

theorem search_clean (V width len : Nat) (frames : List FrameIn) (hf : ∀ f ∈ frames, FrameFin f) :
    ∀ x ∈ (search true V width len frames).1.probs, x.clean = true := by
  have e : (search true V width len frames).1 = finish width (loop true V width len 0 initState frames).1 := by
    simp [search]
  rw [e]
  apply finish_clean
  apply loop_clean V width len frames 0 initState hf
  constructor
  · intro x hx
    have : x = XR.zero := by simpa [initState] using hx
    rw [this]; rfl
  · intro x hx
    have : x = XR.one := by simpa [initState] using hx
    rw [this]; rfl


/-! ### order of the output (repaired code) -/

theorem mul_one' (x : XR) : x * XR.one = x := by
  cases x with
  | fin a => show XR.fin (a * 1) = XR.fin a; rw [Rat.mul_one]
  | negInf => show XR.infTimes false 1 = XR.negInf; decide +kernel
  | posInf => show XR.infTimes true 1 = XR.posInf; decide +kernel
  | nan => rfl

theorem add_fin_zero (x : XR) : x + XR.fin 0 = x := by
  cases x with
  | fin a => show XR.fin (a + 0) = XR.fin a; rw [Rat.add_zero]
  | negInf => rfl
  | posInf => rfl
  | nan => rfl

theorem fin_mul_zero {x : XR} (h : x.isFin = true) : XR.mulBool x false = XR.fin 0 := by
  obtain ⟨a, rfl⟩ := fin_of_isFin h
  show XR.fin (a * 0) = XR.fin 0
  rw [Rat.mul_zero]

theorem length_flatten_map_range {α} (n m : Nat) (g : Nat → Nat → α) :
    (((List.range n).map (fun k => (List.range m).map (g k))).flatten).length = n * m := by
  induction n with
  | zero => simp
  | succ n ih =>
    rw [List.range_succ, List.map_append, List.flatten_append, List.length_append, ih]
    simp [Nat.succ_mul]

theorem nonIncr_append_negInf (l : List XR) (n : Nat) (h : nonIncr l = true) :
    nonIncr (l ++ List.replicate n XR.negInf) = true := by
  induction l with
  | nil =>
    induction n with
    | zero => rfl
    | succ n ih =>
      cases n with
      | zero => rfl
      | succ n =>
        simp only [List.nil_append, List.replicate_succ] at ih ⊢
        simp only [nonIncr, XR.le, Bool.true_and]
        exact ih
  | cons a l ih =>
    cases l with
    | nil =>
      cases n with
      | zero => rfl
      | succ n =>
        have := ih rfl
        simp only [List.nil_append, List.replicate_succ, List.cons_append] at this ⊢
        simp only [nonIncr, this, Bool.and_true]
        cases a <;> rfl
    | cons b l =>
      simp only [nonIncr, Bool.and_eq_true] at h
      simp only [List.cons_append, nonIncr, Bool.and_eq_true]
      exact ⟨h.1, ih h.2⟩


/-- repaired step: the total mass of output slot `j` is the candidate total that `topk` selected for it -/
theorem advance_total (V width : Nat) (ext : List (List XR)) (nonext : List XR)
    (blank : XR) (st : State) (s : List Nat)
    (hnb : ∀ x ∈ st.nb, x.clean = true) (hb : ∀ x ∈ st.b, x.clean = true)
    (hbl : blank.isFin = true)
    (j : Nat) (hj : j < min width (st.nb.length * (V + 1)))
    (hs : getN s j < st.nb.length * V + st.nb.length) :
    let o := advance true V width ext nonext blank st (some s)
    getX o.st.nb j + getX o.st.b j = getX o.cand (getN s j) := by
  unfold advance
  extract_lets Kp ks vs K tm1 tot0 invalid inv nbP bP tot isP last nbExt0 bNon nbNon0 toMatch exact nbNon1 hasMatch nbExt nbNon flatExt cand sel' js ind isNon src extTok prefLens yNext lensNext nbNext bNext lastNext isPNext rem padRow
  have hinv : ∀ k, k < Kp → inv k = false → (getX st.nb k).isFin = true ∧ (getX st.b k).isFin = true := by
    intro k hk hi
    have e1 : inv k = (getX st.nb k + getX st.b k).isNegInf := by
      show getB invalid k = _
      simp only [invalid, ks]
      rw [getB_map_range _ _ _ hk]
      simp only [tot0, ks, Bool.true_and]
      rw [getX_map_range _ _ _ hk]
    rw [e1] at hi
    exact fin_of_tot (getX_clean _ hnb k) (getX_clean _ hb k) hi
  have F_tot : ∀ x ∈ tot, x.isFin = true := by
    intro x hx
    simp only [tot, ks, List.mem_map, List.mem_range] at hx
    obtain ⟨k, hk, rfl⟩ := hx
    split
    · rfl
    · rename_i h
      simp only [tot0, ks]
      rw [getX_map_range _ _ _ hk]
      have := hinv k hk (by simpa using h)
      exact add_isFin this.1 this.2
  have F_bNon : ∀ x ∈ bNon, x.isFin = true := by
    intro x hx
    simp only [bNon, ks, List.mem_map, List.mem_range] at hx
    obtain ⟨k, _, rfl⟩ := hx
    exact mul_isFin (getX_isFin tot F_tot _) hbl
  have hflat : flatExt.length = Kp * V := by
    simp only [flatExt, nbExt, ks, vs]
    exact length_flatten_map_range _ _ _
  have hjK : j < K := hj
  have hsel : sel' = s := rfl
  have hind : ind j = getN s j := by simp only [ind, hsel]
  show getX (nbNext ++ List.replicate rem XR.negInf) j + getX (bNext ++ List.replicate rem XR.negInf) j
      = getX cand (getN sel' j)
  have hnbL : nbNext.length = K := by simp [nbNext, js]
  have hbL : bNext.length = K := by simp [bNext, js]
  unfold getX
  rw [getD_append_left' _ _ _ _ (by omega), getD_append_left' _ _ _ _ (by omega)]
  simp only [nbNext, bNext, js]
  rw [getD_map_range _ _ _ _ hjK, getD_map_range _ _ _ _ hjK]
  have hisNon : getB isNon j = decide (Kp * V ≤ ind j) := by
    simp only [isNon, js]; exact getB_map_range _ _ _ hjK
  have hsrc : getN src j = if Kp * V ≤ ind j then ind j - Kp * V else ind j / V := by
    simp only [src, js]; exact getD_map_range _ _ _ _ hjK
  rw [hisNon, hsrc, hsel, ← hind]
  by_cases h : Kp * V ≤ ind j
  · -- non-extending candidate
    simp only [h, decide_true, if_true]
    have hs' : getN s j < Kp * V + Kp := hs
    have hk : ind j - Kp * V < Kp := by rw [hind]; omega
    have e : cand.getD (ind j) XR.zero = getX nbNon (ind j - Kp * V) + getX bNon (ind j - Kp * V) := by
      simp only [cand]
      rw [List.getD_eq_getElem?_getD, List.getElem?_append_right (by omega), hflat]
      simp only [ks]
      rw [← List.getD_eq_getElem?_getD]
      exact getD_map_range _ _ _ _ hk
    rw [e]
    show _ + (getX bNon (ind j - Kp * V)) * XR.one = _
    rw [mul_one']
  · -- extending candidate
    simp only [h, decide_false, if_false]
    have hlt : ind j < Kp * V := by omega
    have hmin : min (ind j) (Kp * V - 1) = ind j := by omega
    rw [hmin]
    rw [fin_mul_zero (getX_isFin bNon F_bNon _)]
    have e : cand.getD (ind j) XR.zero = flatExt.getD (ind j) XR.zero := by
      simp only [cand]
      exact getD_append_left' _ _ _ _ (by omega)
    rw [e]
    exact add_fin_zero _


theorem nonIncr_iff (l : List XR) :
    nonIncr l = true ↔ ∀ i, i + 1 < l.length → XR.le (getX l (i + 1)) (getX l i) = true := by
  induction l with
  | nil => simp [nonIncr]
  | cons a l ih =>
    cases l with
    | nil => simp [nonIncr]
    | cons b r =>
      simp only [nonIncr, Bool.and_eq_true, ih]
      constructor
      · rintro ⟨h1, h2⟩ i hi
        cases i with
        | zero => simpa [getX] using h1
        | succ i =>
          have := h2 i (by simp at hi ⊢; omega)
          simpa [getX] using this
      · intro h
        refine ⟨by simpa [getX] using h 0 (by simp), ?_⟩
        intro i hi
        have := h (i + 1) (by simp at hi ⊢; omega)
        simpa [getX] using this

theorem advance_cand_length (fix : Bool) (V width : Nat) (ext : List (List XR)) (nonext : List XR)
    (blank : XR) (st : State) (sel : Option (List Nat)) :
    (advance fix V width ext nonext blank st sel).cand.length = st.nb.length * V + st.nb.length := by
  unfold advance
  extract_lets Kp ks vs K tm1 tot0 invalid inv nbP bP tot isP last nbExt0 bNon nbNon0 toMatch exact nbNon1 hasMatch nbExt nbNon flatExt cand sel' js ind isNon src extTok prefLens yNext lensNext nbNext bNext lastNext isPNext rem padRow
  show cand.length = _
  have hflat : flatExt.length = Kp * V := by
    simp only [flatExt, nbExt, ks, vs]
    exact length_flatten_map_range _ _ _
  simp only [cand, List.length_append, hflat, ks, List.length_map, List.length_range]
  rfl

theorem advance_cand_sel_indep (fix : Bool) (V width : Nat) (ext : List (List XR)) (nonext : List XR)
    (blank : XR) (st : State) (sel sel2 : Option (List Nat)) :
    (advance fix V width ext nonext blank st sel).cand = (advance fix V width ext nonext blank st sel2).cand := rfl

/-- repaired step with a legitimate `topk` answer: the total masses of the output slots are
non-increasing along the beam (real prefixes first, `-inf` slots last). -/
theorem advance_sorted (V width : Nat) (ext : List (List XR)) (nonext : List XR)
    (blank : XR) (st : State) (s : List Nat)
    (hnb : ∀ x ∈ st.nb, x.clean = true) (hb : ∀ x ∈ st.b, x.clean = true)
    (hbl : blank.isFin = true)
    (hk : isTopK (advance true V width ext nonext blank st (some s)).cand
            (min width (st.nb.length * (V + 1))) s = true) :
    let o := advance true V width ext nonext blank st (some s)
    nonIncr ((List.range width).map (fun j => getX o.st.nb j + getX o.st.b j)) = true := by
  intro o
  have hcl := advance_cand_length true V width ext nonext blank st (some s)
  simp only [isTopK, Bool.and_eq_true, beq_iff_eq, List.all_eq_true, decide_eq_true_eq] at hk
  obtain ⟨⟨⟨⟨hlen, hlt⟩, _⟩, hni⟩, _⟩ := hk
  rw [nonIncr_iff] at hni ⊢
  intro i hi
  simp only [List.length_map, List.length_range] at hi
  have e0 : ∀ j, j < width → getX ((List.range width).map (fun j => getX o.st.nb j + getX o.st.b j)) j
      = getX o.st.nb j + getX o.st.b j := fun j hj => getX_map_range _ _ _ hj
  rw [e0 _ hi, e0 _ (by omega)]
  by_cases h1 : i + 1 < min width (st.nb.length * (V + 1))
  · have hsj : ∀ j, j < min width (st.nb.length * (V + 1)) → getN s j < st.nb.length * V + st.nb.length := by
      intro j hj
      rw [← hcl]
      have hjs : j < s.length := by omega
      have : getN s j = s[j] := by
        unfold getN; rw [List.getD_eq_getElem?_getD, List.getElem?_eq_getElem hjs]; rfl
      rw [this]
      exact hlt _ (List.getElem_mem hjs)
    have t1 := advance_total V width ext nonext blank st s hnb hb hbl (i + 1) h1 (hsj _ h1)
    have t0 := advance_total V width ext nonext blank st s hnb hb hbl i (by omega) (hsj _ (by omega))
    simp only at t1 t0
    rw [t1, t0]
    have := hni i (by simp; omega)
    have m : ∀ j, j < s.length → getX (s.map (getX o.cand)) j = getX o.cand (getN s j) := by
      intro j hj
      unfold getX getN
      rw [List.getD_eq_getElem?_getD, List.getD_eq_getElem?_getD (l := s), List.getElem?_map,
        List.getElem?_eq_getElem hj]
      rfl
    rw [m _ (by omega), m _ (by omega)] at this
    exact this
  · have hf := advance_filler true V width ext nonext blank st (some s) (i + 1) (by omega) hi
    simp only at hf
    rw [hf.1, hf.2.1]
    show XR.le XR.negInf _ = true
    cases (getX o.st.nb i + getX o.st.b i) <;> rfl


theorem finish_probs_of_sized (width : Nat) (st : State) (hs : Sized width st) :
    (finish width st).probs = (List.range width).map (fun k => getX st.nb k + getX st.b k) := by
  have hc : (width == 1 && width != 1) = false := by
    cases h : width == 1 <;> simp [bne, h]
  simp only [finish, hs.1, hc, Bool.false_eq_true, if_false]

/-- the module on an element all of whose frames are valid: the reported probabilities are
non-increasing, given that the last `topk` answer was legitimate -/
theorem search_sorted (V width : Nat) (fs : List FrameIn) (f : FrameIn) (s : List Nat)
    (hfs : ∀ g ∈ fs, FrameFin g) (hf : FrameFin f) (hsel : f.sel = some s)
    (hk : isTopK (advance true V width f.ext f.nonext f.blank
              (loop true V width (fs.length + 1) 0 initState fs).1 (some s)).cand
            (min width ((loop true V width (fs.length + 1) 0 initState fs).1.nb.length * (V + 1))) s = true) :
    nonIncr (search true V width (fs.length + 1) (fs ++ [f])).1.probs = true := by
  have e : (search true V width (fs.length + 1) (fs ++ [f])).1
      = finish width (loop true V width (fs.length + 1) 0 initState (fs ++ [f])).1 := by simp [search]
  rw [e, loop_append]
  have hc : CleanState (loop true V width (fs.length + 1) 0 initState fs).1 := by
    apply loop_clean V width _ fs 0 initState hfs
    constructor
    · intro x hx
      have : x = XR.zero := by simpa [initState] using hx
      rw [this]; rfl
    · intro x hx
      have : x = XR.one := by simpa [initState] using hx
      rw [this]; rfl
  have hd : decide (0 + fs.length < fs.length + 1) = true := by simp
  have hstep : (loop true V width (fs.length + 1) (0 + fs.length)
        (loop true V width (fs.length + 1) 0 initState fs).1 [f]).1
      = (advance true V width f.ext f.nonext f.blank
          (loop true V width (fs.length + 1) 0 initState fs).1 (some s)).st := by
    simp only [loop, hd, loopStep, if_true, hsel]
  rw [hstep, finish_probs_of_sized width _ (advance_sized true V width _ _ _ _ _)]
  exact advance_sorted V width f.ext f.nonext f.blank _ s hc.1 hc.2 hf.2.2 hk


/-! ### elements of length 0 -/

/-- the state after one frozen frame from the initial state -/
def frozenInit (width : Nat) (last : List Nat) (isP : List (List Bool)) : State :=
  { tm1 := 1, y := List.replicate width [0], lens := List.replicate width 0,
    nb := [XR.zero] ++ List.replicate (width - 1) XR.negInf,
    b := [XR.one] ++ List.replicate (width - 1) XR.negInf, last := last, isPrefix := isP }

theorem loopStep_init_frozen (fix : Bool) (V width : Nat) (f : FrameIn) :
    (loopStep fix V width false initState f).1
      = frozenInit width (advance fix V width f.ext f.nonext f.blank initState f.sel).st.last
          (advance fix V width f.ext f.nonext f.blank initState f.sel).st.isPrefix := by
  simp only [loopStep, Bool.false_eq_true, if_false, initState, expandTo, frozenInit,
    List.map_replicate, List.nil_append, List.length_singleton, List.singleton_append, Nat.zero_add]

theorem getN_replicate_zero (n k : Nat) : getN (List.replicate n 0) k = 0 := by
  unfold getN
  rw [List.getD_eq_getElem?_getD]
  by_cases h : k < n <;> simp [List.getElem?_replicate, h]

theorem finish_frozenInit (width : Nat) (hw : 0 < width) (last : List Nat) (isP : List (List Bool)) :
    finish width (frozenInit width last isP) = finish width initState := by
  by_cases h1 : width = 1
  · subst h1
    simp [finish, frozenInit, initState, getX, getN]
  · have hc : (width == 1 && width != 1) = false := by
      have : (width == 1) = false := by simpa using h1
      simp [this]
    have hc' : ((1 : Nat) == 1 && width != 1) = true := by
      have : (width != 1) = true := by simpa [bne] using h1
      simp [this]
    have hl : ([XR.zero] ++ List.replicate (width - 1) XR.negInf).length = width := by
      simp; omega
    simp only [finish, frozenInit, initState, hl, hc, hc', List.length_singleton, Bool.false_eq_true,
      if_false, if_true, expandTo, List.length_replicate, getN_replicate_zero, List.take_zero]
    congr 1
    apply List.ext_getElem
    · simp; omega
    · intro k hk1 hk2
      simp only [List.length_map, List.length_range] at hk1
      simp only [List.getElem_map, List.getElem_range]
      cases k with
      | zero => simp [getX]
      | succ k =>
        have hk : k < width - 1 := by omega
        simp [getX, List.getElem_append_right, hk]
        rfl

theorem sized_frozenInit (width : Nat) (hw : 0 < width) (last : List Nat) (isP : List (List Bool)) :
    Sized width (frozenInit width last isP) := by
  refine ⟨?_, ?_, ?_, ?_⟩ <;> simp [frozenInit] <;> omega

theorem lensOk_frozenInit (width : Nat) (last : List Nat) (isP : List (List Bool)) :
    LensOk (frozenInit width last isP) := by
  constructor
  · intro k
    simp only [frozenInit, getN_replicate_zero]
    omega
  · intro k hk
    simp only [frozenInit, List.length_replicate] at hk ⊢
    rw [List.getD_eq_getElem?_getD]
    simp [List.getElem?_replicate, hk]

/-- an element of length 0: whatever frames follow, the result is that of no frames at all -/
theorem search_len0 (fix : Bool) (V width : Nat) (hw : 0 < width) (extra : List FrameIn) :
    (search fix V width 0 extra).1 = (search fix V width 0 []).1 := by
  cases extra with
  | nil => rfl
  | cons f fs =>
    have e : ∀ fr, (search fix V width 0 fr).1 = finish width (loop fix V width 0 0 initState fr).1 := by
      intro fr; simp [search]
    rw [e, e]
    have hd : decide (0 < 0) = false := by simp
    simp only [loop, hd]
    rw [loopStep_init_frozen]
    rw [finish_rel width _ _ (sized_frozenInit width hw _ _) (lensOk_frozenInit width _ _)
      (loop_frozen fix V width 0 _ fs 1 _ (by omega) (sized_frozenInit width hw _ _) (rel_refl _))]
    exact finish_frozenInit width hw _ _

end PdtVerif.CtcPrefix
