import PdtVerif.Lemmas.Beam
/-!
# C04: the modelled search never raises (repaired finishing rule), and batching is transparent

Part 1: under the repaired finishing rule the history tensor grows at every step (`S = t`), so
neither `.error "lm index"` nor `.error "shape"` of `stepBatch` is reachable.
Part 2: one step of the batch is the per-element step `nextElem` mapped over the elements;
hence element `n` of a joint run is the single run on element `n`.
-/
namespace PdtVerif.Beam

variable {σ ι : Type}

/-- Every score row of the language model has a finite entry (true of anything that comes out
of `log_softmax` without NaN). -/
def SpecLive (V : Nat) (spec : List Int → List Score) : Prop :=
  ∀ h, ∃ v, v < V ∧ (spec h).getD v none ≠ none

/-- `eos` is set and `finish_all_paths=True`: an element is finished exactly when it has no
usable unfinished path left. -/
def Waits (cfg : Cfg) : Prop := cfg.eos.isSome = true ∧ cfg.finishAll = true

/-- An element that is not finished has a usable (finite score) unfinished path. -/
def Alive (cfg : Cfg) (t : Nat) (e : Elem σ) : Prop :=
  elemDone cfg t e = false →
    ∃ (k : Nat) (s : Slot), e.slots[k]? = some s ∧ s.score ≠ none ∧ isEnded cfg.eos t s = false

def HeadFin (slots : List Slot) : Prop := ∃ s, slots.head? = some s ∧ s.score ≠ none

/-- The loop invariant with `S = t`. Every batch element may follow its own distribution:
`spec i` / `Rep i` for some member `i` of a family (the language model conditions on batched
input through its state). -/
structure RInv (cfg : Cfg) (spec : ι → List Int → List Score) (Rep : ι → List Int → σ → Prop)
    (t Kp : Nat) (elems : List (Elem σ)) : Prop where
  shape : (t = 0 ∧ Kp = 1) ∨ (t ≠ 0 ∧ Kp = cfg.width)
  elem : ∀ e ∈ elems, ∃ i, e.slots.length = Kp ∧ e.sts.length = Kp ∧
    Static cfg (spec i) t e.slots ∧ (elemDone cfg t e = false → Live cfg (Rep i) t e)
  alive : ∀ e ∈ elems, Alive cfg t e
  head : ¬ Waits cfg → ∀ e ∈ elems, HeadFin e.slots

theorem isEnded_false_lastIsEos {cfg : Cfg} {t : Nat} {s : Slot} (hlen : s.len ≤ t)
    (h : isEnded cfg.eos t s = false) : lastIsEos cfg.eos s = false := by
  by_cases ht : t = 0
  · have : s.len = 0 := by omega
    cases heos : cfg.eos <;> simp [lastIsEos, this]
  · simpa [isEnded, ht] using h

/-- A live element holds a slot whose length is the step counter. -/
theorem exists_len_eq {cfg : Cfg} {spec : ι → List Int → List Score}
    {Rep : ι → List Int → σ → Prop} {t Kp : Nat} {elems : List (Elem σ)}
    (hinv : RInv cfg spec Rep t Kp elems) {e : Elem σ} (he : e ∈ elems)
    (hnd : elemDone cfg t e = false) :
    ∃ (i : ι) (k : Nat) (s : Slot) (st : σ), e.slots[k]? = some s ∧ e.sts[k]? = some st ∧
      s.score ≠ none ∧ isEnded cfg.eos t s = false ∧ s.len = t ∧ Rep i s.path st ∧
      e.slots.length = Kp ∧ e.sts.length = Kp ∧ Static cfg (spec i) t e.slots ∧
      Live cfg (Rep i) t e := by
  obtain ⟨k, s, hk, hf, hend⟩ := hinv.alive e he hnd
  obtain ⟨i, hsl, hstl, hstat, hlive⟩ := hinv.elem e he
  have hklt : k < e.slots.length := (List.getElem?_eq_some_iff.mp hk).1
  have hst : e.sts[k]? = some (e.sts[k]'(by omega)) := List.getElem?_eq_getElem (by omega)
  obtain ⟨hle, hrest⟩ := hlive hnd k s _ hk hst hf
  obtain ⟨hl, hrep⟩ := hrest (isEnded_false_lastIsEos hle hend)
  exact ⟨i, k, s, _, hk, hst, hf, hend, hl, hrep, hsl, hstl, hstat, hlive hnd⟩

theorem grow_true {cfg : Cfg} {spec : ι → List Int → List Score}
    {Rep : ι → List Int → σ → Prop} {t Kp : Nat} {elems : List (Elem σ)}
    (hinv : RInv cfg spec Rep t Kp elems) {e : Elem σ} (he : e ∈ elems)
    (hnd : elemDone cfg t e = false) :
    decide (t ≤ maxLen (elems.map (·.slots))) = true := by
  obtain ⟨-, k, s, st, hk, -, -, -, hl, -⟩ := exists_len_eq hinv he hnd
  have := le_maxLen (rows := elems.map (·.slots)) (List.mem_map.mpr ⟨e, he, rfl⟩)
    (List.mem_of_getElem? hk)
  simp; omega

/-! ## One batch step is the per-element step mapped over the elements -/

/-- What `stepBatch` does to one element when the history grows (`S = t`, `grow = true`). -/
def nextElem (sel : Sel) (cfg : Cfg) (lm : LM σ) (dflt : σ) (t : Nat) (e : Elem σ) : Elem σ :=
  { sts := (stepElem sel cfg lm t t true e).2.1.map fun src =>
      (stepElem sel cfg lm t t true e).2.2.getD src dflt
    slots :=
      if elemDone cfg t e then
        (toWidth sel cfg.width t e.slots).map fun s => { s with col := s.col ++ [cfg.pad] }
      else (stepElem sel cfg lm t t true e).1 }

theorem zipIdx_map_zip_map {α β γ} (l : List α) (h : α → β) (F : (α × β) × Nat → γ) :
    ((l.zip (l.map h)).zipIdx).map F = l.zipIdx.map fun p => F ((p.1, h p.1), p.2) := by
  have : l.zip (l.map h) = l.map fun a => (a, h a) := by
    have := zip_map_same l id h
    simpa using this
  rw [this, List.zipIdx_map, List.map_map]
  rfl

theorem map_eq_zipIdx_map {α γ} (l : List α) (g : α → γ) :
    l.map g = l.zipIdx.map fun p => g p.1 := by
  conv => lhs; rw [← List.zipIdx_map_fst 0 l]
  rw [List.map_map]
  rfl

theorem stepBatch_eq {cfg : Cfg} {lm : LM σ} {spec : ι → List Int → List Score}
    {Rep : ι → List Int → σ → Prop} {sel : Sel} (hsel : SelOK sel)
    (hlm : ∀ i, LMOK cfg.V lm (spec i) (Rep i)) (hw : 0 < cfg.width) (dflt : σ) {t Kp : Nat}
    {elems : List (Elem σ)}
    (hinv : RInv cfg spec Rep t Kp elems) (hex : ∃ e ∈ elems, elemDone cfg t e = false) :
    stepBatch sel cfg lm dflt t t Kp elems
      = .ok (t + 1, elems.map (nextElem sel cfg lm dflt t)) := by
  obtain ⟨e0, he0, hnd0⟩ := hex
  have hg := grow_true hinv he0 hnd0
  have hKp : 0 < Kp := by rcases hinv.shape with ⟨-, h⟩ | ⟨-, h⟩ <;> omega
  unfold stepBatch
  simp only [hg, Nat.lt_irrefl, decide_false, Bool.false_eq_true, if_false, Bool.not_true,
    Bool.and_false, if_true]
  congr 2
  rw [zipIdx_map_zip_map, map_eq_zipIdx_map elems (nextElem sel cfg lm dflt t)]
  apply List.map_congr_left
  rintro ⟨e, n⟩ hmem
  obtain ⟨-, hn, hget⟩ := List.mem_zipIdx hmem
  simp only [Nat.zero_add, Nat.sub_zero] at hn hget
  have he : e ∈ elems := by rw [hget]; exact List.getElem_mem _
  obtain ⟨i, hsl, hstl, -, -⟩ := hinv.elem e he
  obtain ⟨-, -, -, l4⟩ := stepElem_len hsel (hlm i) t t true (e := e) (by omega)
  simp only [nextElem]
  congr 1
  apply List.map_congr_left
  intro src hsrc
  have hsl' : src < Kp := by
    have := l4 src hsrc
    rw [hsl] at this; omega
  have hres : (elems.map (stepElem sel cfg lm t t true))[n]? = some (stepElem sel cfg lm t t true e) := by
    rw [List.getElem?_map, List.getElem?_eq_getElem hn, ← hget]; rfl
  rw [List.getD_eq_getElem?_getD, List.getD_eq_getElem?_getD,
    getElem?_flatMap_uniform _ _ Kp ?_ n src hsl', hres]
  · rfl
  · intro x hx
    obtain ⟨e2, he2, rfl⟩ := List.mem_map.mp hx
    obtain ⟨i2, hsl2, hstl2, -, -⟩ := hinv.elem e2 he2
    rw [(stepElem_len hsel (hlm i2) t t true (by omega)).2.2.1, hsl2]

/-! ## The invariant `RInv` is preserved -/

theorem Score.le_finite {a b : Score} (h : Score.le a b = true) (ha : a ≠ none) : b ≠ none := by
  cases a <;> cases b <;> simp_all [Score.le]

/-- If some candidate is finite, the best selected one is finite. -/
theorem top_finite {c : List Score} {K : Nat} {inds : List Nat} (htop : IsTopK c K inds)
    (hK : 0 < K) {j : Nat} (hj : j < c.length) (hf : c.getD j none ≠ none) :
    ∃ i0 rest, inds = i0 :: rest ∧ c.getD i0 none ≠ none := by
  have hlen := htop.length
  cases hinds : inds with
  | nil => rw [hinds] at hlen; simp at hlen; omega
  | cons i0 rest =>
    refine ⟨i0, rest, rfl, ?_⟩
    have hi0 : i0 ∈ inds := by rw [hinds]; simp
    by_cases hmem : j ∈ inds
    · rw [hinds] at hmem
      rcases List.mem_cons.mp hmem with rfl | hr
      · exact hf
      · have hs := htop.sorted
        rw [hinds, List.pairwise_cons] at hs
        exact Score.le_finite (hs.1 j hr) hf
    · exact Score.le_finite (htop.maximal i0 hi0 j hj hmem) hf

theorem rowOf_live {cfg : Cfg} {lm : LM σ} {spec Rep} (hlm : LMOK cfg.V lm spec Rep) {S t : Nat}
    {slots : List Slot} (hst : Static cfg spec S slots) {p : Slot} {st : σ} (hpm : p ∈ slots)
    (hf : p.score ≠ none) (hend : isEnded cfg.eos t p = false) (hl : p.len = t)
    (hrep : Rep p.path st) : (rowOf cfg lm t p st).1 = spec p.path := by
  have hpok := hst.ok p hpm hf
  have hcol := hst.colLen p hpm
  have hlen := hst.lenLe p hpm
  have hplen : p.path.length = p.len := Slot.path_length (by omega)
  have hrow' : (rowOf cfg lm t p st) = lm.run t (p.col.map (clampTok cfg.V)) st := by
    unfold rowOf
    cases heos : cfg.eos with
    | none => rfl
    | some eo => simp [← heos, hend]
  have hstep := hlm.step p.path st (p.col.map (clampTok cfg.V)) hrep (by
    rw [hplen]; exact clampSlot_path hpok.range)
  rw [hplen, hl] at hstep
  rw [hrow']; exact hstep.1

theorem flat_lt {Kp V k v : Nat} (hk : k < Kp) (hv : v < V) : k * V + v < Kp * V := by
  have h1 : (k + 1) * V ≤ Kp * V := Nat.mul_le_mul_right V hk
  rw [Nat.succ_mul] at h1
  omega

/-- A live element keeps a finite best slot when every score row has a finite entry. -/
theorem stepElem_headFin {cfg : Cfg} {lm : LM σ} {spec : ι → List Int → List Score}
    {Rep : ι → List Int → σ → Prop} {sel : Sel} (hsel : SelOK sel)
    (hlmi : ∀ i, LMOK cfg.V lm (spec i) (Rep i)) (hV : 0 < cfg.V) (hw : 0 < cfg.width) {t Kp : Nat}
    {elems : List (Elem σ)} (hinv : RInv cfg spec Rep t Kp elems) {e : Elem σ} (he : e ∈ elems)
    (hnd : elemDone cfg t e = false) (hL : ∀ i, SpecLive cfg.V (spec i)) :
    HeadFin (stepElem sel cfg lm t t true e).1 := by
  obtain ⟨i, k, p, st, hk, hst, hf, hend, hl, hrep, hsl, hstl, hstat, hlv⟩ :=
    exists_len_eq hinv he hnd
  have hlm := hlmi i
  have hKp : 0 < Kp := by rcases hinv.shape with ⟨-, h⟩ | ⟨-, h⟩ <;> omega
  have hlen : e.slots.length = e.sts.length := by omega
  obtain ⟨v, hv, hfin⟩ := hL i p.path
  have hpm : p ∈ e.slots := List.mem_of_getElem? hk
  have hklt : k < e.slots.length := (List.getElem?_eq_some_iff.mp hk).1
  have hcl := candsOf_length hlm t e hlen
  have hcand : (candsOf cfg lm t e).getD (k * cfg.V + v) none ≠ none := by
    rw [cands_get hlm t e hv hk hst, rowOf_live hlm hstat hpm hf hend hl hrep]
    cases hs : p.score with
    | none => exact absurd hs hf
    | some a =>
      cases hr : (spec i p.path).getD v none with
      | none => exact absurd hr hfin
      | some b => simp [Score.add]
  have hKle : kOf cfg e ≤ (candsOf cfg lm t e).length := by rw [hcl]; exact Nat.min_le_right _ _
  have htop := hsel (candsOf cfg lm t e) (kOf cfg e) hKle
  have hKpos : 0 < kOf cfg e := by
    unfold kOf
    have : 0 < e.slots.length * cfg.V := Nat.mul_pos (by omega) hV
    omega
  obtain ⟨i0, rest, hinds, hi0⟩ := top_finite htop hKpos (j := k * cfg.V + v)
    (by rw [hcl]; exact flat_lt hklt hv) hcand
  have hb := htop.bound i0 (by rw [hinds]; simp)
  rw [hcl] at hb
  obtain ⟨k0, v0, hk0, hv0, rfl⟩ := ind_decomp hb
  have hg : ∀ s ∈ e.slots, s.len = t → true = true := fun _ _ _ => rfl
  have hp0 : e.slots[k0]? = some e.slots[k0] := List.getElem?_eq_getElem hk0
  have hs0 : e.sts[k0]? = some (e.sts[k0]'(by omega)) := List.getElem?_eq_getElem (by omega)
  have hsc := (newSlot_spec hlm hstat hlv hg hv0 hp0 hs0).2.2.1
  rw [stepElem_eq, hinds]
  refine ⟨newSlot cfg t t true e.slots (candsOf cfg lm t e) (k0 * cfg.V + v0), by simp, ?_⟩
  rw [hsc]; exact hi0

theorem alive_of {cfg : Cfg} (hrule : cfg.waitNegInf = false) {t : Nat} (ht : t ≠ 0) (e : Elem σ)
    (h : Waits cfg ∨ HeadFin e.slots) : Alive cfg t e := by
  intro hnd
  cases heos : cfg.eos with
  | none =>
    rcases h with ⟨h1, -⟩ | ⟨s0, hs0, hf0⟩
    · simp [heos] at h1
    · refine ⟨0, s0, by rw [← List.head?_eq_getElem?]; exact hs0, hf0, ?_⟩
      simp [isEnded, lastIsEos]
  | some eo =>
    cases hfa : cfg.finishAll with
    | true =>
      unfold elemDone at hnd
      simp only [heos, beq_iff_eq, ht, if_false, hfa, if_true, hrule, Bool.not_false,
        Bool.true_and] at hnd
      rw [List.all_eq_false] at hnd
      obtain ⟨s, hs, hns⟩ := hnd
      obtain ⟨k, hk⟩ := List.getElem?_of_mem hs
      simp only [Bool.or_eq_true, not_or, Bool.not_eq_true] at hns
      refine ⟨k, s, hk, ?_, hns.1⟩
      intro hnone
      rw [hnone] at hns
      simp at hns
    | false =>
      rcases h with ⟨-, h2⟩ | ⟨s0, hs0, hf0⟩
      · rw [hfa] at h2; cases h2
      · refine ⟨0, s0, by rw [← List.head?_eq_getElem?]; exact hs0, hf0, ?_⟩
        unfold elemDone at hnd
        simp only [heos, beq_iff_eq, ht, if_false, hfa, Bool.false_eq_true, hs0, Option.map_some,
          Option.getD_some] at hnd
        exact hnd

theorem nextElems_rinv {cfg : Cfg} {lm : LM σ} {spec : ι → List Int → List Score}
    {Rep : ι → List Int → σ → Prop} {sel : Sel} (hsel : SelOK sel)
    (hlm : ∀ i, LMOK cfg.V lm (spec i) (Rep i)) (hV : 0 < cfg.V) (hw : 0 < cfg.width) (dflt : σ)
    (hrule : cfg.waitNegInf = false) (hL : Waits cfg ∨ ∀ i, SpecLive cfg.V (spec i)) {t Kp : Nat}
    {elems : List (Elem σ)} (hinv : RInv cfg spec Rep t Kp elems)
    (hex : ∃ e ∈ elems, elemDone cfg t e = false) :
    RInv cfg spec Rep (t + 1) cfg.width (elems.map (nextElem sel cfg lm dflt t)) := by
  obtain ⟨e0, he0, hnd0⟩ := hex
  have hfroz : ∀ e ∈ elems, elemDone cfg t e = true →
      toWidth sel cfg.width t e.slots = e.slots := by
    intro e he hd
    obtain ⟨i, hsl, -, -, -⟩ := hinv.elem e he
    have ht0 : t ≠ 0 := done_ne_zero hd
    have hKw : Kp = cfg.width := by
      rcases hinv.shape with ⟨h, -⟩ | ⟨-, h⟩
      · exact absurd h ht0
      · exact h
    simp [toWidth, hsl, hKw]
  have hhead : ∀ e ∈ elems, ¬ Waits cfg → HeadFin (nextElem sel cfg lm dflt t e).slots := by
    intro e he hnW
    have hSL : ∀ i, SpecLive cfg.V (spec i) := by
      rcases hL with h | h
      · exact absurd h hnW
      · exact h
    simp only [nextElem]
    split
    · rename_i hd
      rw [hfroz e he hd]
      obtain ⟨s0, hs0, hf0⟩ := hinv.head hnW e he
      exact ⟨{ s0 with col := s0.col ++ [cfg.pad] }, by rw [List.head?_map, hs0]; rfl, hf0⟩
    · rename_i hnd
      exact stepElem_headFin hsel hlm hV hw hinv he (by simpa using hnd) hSL
  refine ⟨Or.inr ⟨by omega, rfl⟩, ?_, ?_, ?_⟩
  · intro e' he'
    obtain ⟨e, he, rfl⟩ := List.mem_map.mp he'
    obtain ⟨i, hsl, hstl, hstat, hlive⟩ := hinv.elem e he
    have hlen : e.slots.length = e.sts.length := by omega
    obtain ⟨l1, l2, -, -⟩ := stepElem_len hsel (hlm i) t t true hlen
    refine ⟨i, ?_⟩
    cases hd : elemDone cfg t e with
    | true =>
      have hle : ∀ s ∈ e.slots, s.len ≤ s.col.length := fun s hs => by
        rw [hstat.colLen s hs]; exact hstat.lenLe s hs
      have hnx : nextElem sel cfg lm dflt t e
          = ⟨e.slots.map (freeze cfg.pad), (nextElem sel cfg lm dflt t e).sts⟩ := by
        simp only [nextElem, hd, if_true, hfroz e he hd]
        rfl
      have ht0 : t ≠ 0 := done_ne_zero hd
      have hKw : Kp = cfg.width := by
        rcases hinv.shape with ⟨h, -⟩ | ⟨-, h⟩
        · exact absurd h ht0
        · exact h
      have hd' := done_freeze cfg.pad (nextElem sel cfg lm dflt t e).sts hle hd
      rw [← hnx] at hd'
      refine ⟨?_, by simp [nextElem, l2], ?_, fun h => by rw [hd'] at h; cases h⟩
      · rw [hnx]; simp; omega
      · rw [hnx]; exact static_freeze cfg.pad hstat
    | false =>
      have hlv := hlive hd
      have hg : ∀ s ∈ e.slots, s.len = t → true = true := fun _ _ _ => rfl
      obtain ⟨i1, i2, -, -⟩ := stepElem_inv hsel (hlm i) hlen hstat hlv hg (Or.inl rfl) dflt
      simp only [if_true] at i1
      refine ⟨by simp [nextElem, hd, l1], by simp [nextElem, l2], by simpa [nextElem, hd] using i1, ?_⟩
      intro _
      simpa [nextElem, hd] using i2
  · intro e' he'
    obtain ⟨e, he, rfl⟩ := List.mem_map.mp he'
    apply alive_of hrule (by omega)
    by_cases hW : Waits cfg
    · exact Or.inl hW
    · exact Or.inr (hhead e he hW)
  · intro hnW e' he'
    obtain ⟨e, he, rfl⟩ := List.mem_map.mp he'
    exact hhead e he hnW

theorem init_rinv {cfg : Cfg} {spec : ι → List Int → List Score}
    {Rep : ι → List Int → σ → Prop} {inits : List σ} (hinit : ∀ s ∈ inits, ∃ i, Rep i [] s) :
    RInv cfg spec Rep 0 1 (inits.map initElem) := by
  refine ⟨Or.inl ⟨rfl, rfl⟩, ?_, ?_, ?_⟩
  · intro e he
    obtain ⟨s0, hs0, rfl⟩ := List.mem_map.mp he
    obtain ⟨i, hi⟩ := hinit s0 hs0
    have h1 : ∀ s ∈ [s0], Rep i [] s := by
      intro s hs; simp at hs; subst hs; exact hi
    have := (init_inv (cfg := cfg) (spec := spec i) h1).elem (initElem s0) (by simp)
    exact ⟨i, this⟩
  · intro e he _
    obtain ⟨s0, -, rfl⟩ := List.mem_map.mp he
    exact ⟨0, ⟨[], 0, some 0⟩, rfl, by simp, by simp [isEnded]⟩
  · intro _ e he
    obtain ⟨s0, -, rfl⟩ := List.mem_map.mp he
    exact ⟨⟨[], 0, some 0⟩, rfl, by simp⟩

/-! ## The loop never raises -/

/-- The exit test of the loop. -/
def allDone (cfg : Cfg) (t : Nat) (elems : List (Elem σ)) : Bool :=
  cfg.eos.isSome && t != 0 && elems.all (elemDone cfg t)

theorem exists_live {cfg : Cfg} {t : Nat} {elems : List (Elem σ)} (hne : elems ≠ [])
    (h : allDone cfg t elems = false) : ∃ e ∈ elems, elemDone cfg t e = false := by
  obtain ⟨e0, he0⟩ := List.exists_mem_of_ne_nil elems hne
  unfold allDone at h
  cases heos : cfg.eos with
  | none => exact ⟨e0, he0, by unfold elemDone; rw [heos]⟩
  | some eo =>
    by_cases ht : t = 0
    · subst ht; exact ⟨e0, he0, elemDone_zero cfg e0⟩
    · have hb : (t != 0) = true := by simpa using ht
      simp only [heos, Option.isSome_some, Bool.true_and, hb] at h
      obtain ⟨e, he, hd⟩ := List.all_eq_false.mp h
      exact ⟨e, he, by simpa using hd⟩

theorem loop_succ {cfg : Cfg} {lm : LM σ} {spec : ι → List Int → List Score}
    {Rep : ι → List Int → σ → Prop} {sel : Sel} (hsel : SelOK sel)
    (hlm : ∀ i, LMOK cfg.V lm (spec i) (Rep i)) (hw : 0 < cfg.width) (dflt : σ) (fuel : Nat) {t Kp : Nat}
    {elems : List (Elem σ)} (hinv : RInv cfg spec Rep t Kp elems) (hne : elems ≠ []) :
    loop sel cfg lm dflt (fuel + 1) t t Kp elems =
      if allDone cfg t elems then .ok (t, elems)
      else loop sel cfg lm dflt fuel (t + 1) (t + 1) cfg.width
        (elems.map (nextElem sel cfg lm dflt t)) := by
  rw [loop]
  unfold allDone
  split
  · rfl
  · rename_i hc
    have hex := exists_live hne (by unfold allDone; simpa using hc)
    rw [stepBatch_eq hsel hlm hw dflt hinv hex]

/-- **No error**: from a state satisfying the invariant the loop returns a value. -/
theorem loop_ok {cfg : Cfg} {lm : LM σ} {spec : ι → List Int → List Score}
    {Rep : ι → List Int → σ → Prop} {sel : Sel} (hsel : SelOK sel)
    (hlm : ∀ i, LMOK cfg.V lm (spec i) (Rep i)) (hV : 0 < cfg.V) (hw : 0 < cfg.width) (dflt : σ)
    (hrule : cfg.waitNegInf = false) (hL : Waits cfg ∨ ∀ i, SpecLive cfg.V (spec i)) (fuel : Nat)
    {t Kp : Nat} {elems : List (Elem σ)} (hinv : RInv cfg spec Rep t Kp elems) (hne : elems ≠ []) :
    ∃ t' Kp' elems', loop sel cfg lm dflt fuel t t Kp elems = .ok (t', elems') ∧
      RInv cfg spec Rep t' Kp' elems' ∧ elems'.length = elems.length ∧ t' ≤ t + fuel ∧
      (t' < t + fuel → allDone cfg t' elems' = true) := by
  induction fuel generalizing t Kp elems with
  | zero => exact ⟨t, Kp, elems, rfl, hinv, rfl, by omega, by omega⟩
  | succ fuel ih =>
    rw [loop_succ hsel hlm hw dflt fuel hinv hne]
    split
    · rename_i hc
      exact ⟨t, Kp, elems, rfl, hinv, rfl, by omega, fun _ => hc⟩
    · rename_i hc
      have hex := exists_live hne (by simpa using hc)
      have hinv' := nextElems_rinv hsel hlm hV hw dflt hrule hL hinv hex
      obtain ⟨t', Kp', elems', h1, h2, h3, h4, h5⟩ := ih hinv' (by simpa using hne)
      exact ⟨t', Kp', elems', h1, h2, by simpa using h3, by omega, fun h => h5 (by omega)⟩

/-! ## Batching is transparent -/

/-- What the property observes of a beam: counted tokens and score of every slot. -/
def beamView (slots : List Slot) : List (List Int × Score) := slots.map fun s => (s.path, s.score)

/-- The search of one element on its own clock: `nextElem` until the element is finished or
the step limit is reached. -/
def runElem (sel : Sel) (cfg : Cfg) (lm : LM σ) (dflt : σ) : Nat → Nat → Elem σ → Elem σ
  | 0, _, e => e
  | fuel + 1, t, e =>
    if cfg.eos.isSome && t != 0 && elemDone cfg t e then e
    else runElem sel cfg lm dflt fuel (t + 1) (nextElem sel cfg lm dflt t e)

theorem allDone_singleton (cfg : Cfg) (t : Nat) (e : Elem σ) :
    allDone cfg t [e] = (cfg.eos.isSome && t != 0 && elemDone cfg t e) := by
  simp [allDone]

/-- The loop on a single element is `runElem`. -/
theorem loop_single {cfg : Cfg} {lm : LM σ} {spec : ι → List Int → List Score}
    {Rep : ι → List Int → σ → Prop} {sel : Sel} (hsel : SelOK sel)
    (hlm : ∀ i, LMOK cfg.V lm (spec i) (Rep i)) (hV : 0 < cfg.V) (hw : 0 < cfg.width) (dflt : σ)
    (hrule : cfg.waitNegInf = false) (hL : Waits cfg ∨ ∀ i, SpecLive cfg.V (spec i)) (fuel : Nat)
    {t Kp : Nat} {e : Elem σ} (hinv : RInv cfg spec Rep t Kp [e]) :
    ∃ t', loop sel cfg lm dflt fuel t t Kp [e] = .ok (t', [runElem sel cfg lm dflt fuel t e]) := by
  induction fuel generalizing t Kp e with
  | zero => exact ⟨t, rfl⟩
  | succ fuel ih =>
    rw [loop_succ hsel hlm hw dflt fuel hinv (by simp), runElem, allDone_singleton]
    split
    · exact ⟨t, rfl⟩
    · rename_i hc
      have hex := exists_live (elems := [e]) (by simp)
        (by rw [allDone_singleton]; simpa using hc)
      have hinv' := nextElems_rinv hsel hlm hV hw dflt hrule hL hinv hex
      exact ih hinv'

/-- A finished element stays as it is under `runElem`. -/
theorem runElem_done (sel : Sel) {cfg : Cfg} (lm : LM σ) (dflt : σ) (fuel : Nat) {t : Nat}
    {e : Elem σ} (hd : elemDone cfg t e = true) : runElem sel cfg lm dflt fuel t e = e := by
  cases fuel with
  | zero => rfl
  | succ fuel =>
    have ht0 : t ≠ 0 := done_ne_zero hd
    have heos : cfg.eos.isSome = true := by
      unfold elemDone at hd
      cases h : cfg.eos with
      | none => simp [h] at hd
      | some eo => rfl
    rw [runElem]
    simp [heos, ht0, hd]

/-- In the joint run every element shows what its own run shows. -/
theorem loop_joint {cfg : Cfg} {lm : LM σ} {spec : ι → List Int → List Score}
    {Rep : ι → List Int → σ → Prop} {sel : Sel} (hsel : SelOK sel)
    (hlm : ∀ i, LMOK cfg.V lm (spec i) (Rep i)) (hV : 0 < cfg.V) (hw : 0 < cfg.width) (dflt : σ)
    (hrule : cfg.waitNegInf = false) (hL : Waits cfg ∨ ∀ i, SpecLive cfg.V (spec i)) (fuel : Nat)
    {t Kp : Nat} {elems : List (Elem σ)} (hinv : RInv cfg spec Rep t Kp elems) (hne : elems ≠ []) :
    ∃ t' elems', loop sel cfg lm dflt fuel t t Kp elems = .ok (t', elems') ∧
      elems'.map (fun e => beamView e.slots)
        = elems.map fun e => beamView (runElem sel cfg lm dflt fuel t e).slots := by
  induction fuel generalizing t Kp elems with
  | zero => exact ⟨t, elems, rfl, rfl⟩
  | succ fuel ih =>
    rw [loop_succ hsel hlm hw dflt fuel hinv hne]
    split
    · rename_i hc
      refine ⟨t, elems, rfl, ?_⟩
      apply List.map_congr_left
      intro e he
      unfold allDone at hc
      simp only [Bool.and_eq_true, List.all_eq_true] at hc
      rw [runElem_done sel lm dflt (fuel + 1) (hc.2 e he)]
    · rename_i hc
      have hex := exists_live hne (by simpa using hc)
      have hinv' := nextElems_rinv hsel hlm hV hw dflt hrule hL hinv hex
      obtain ⟨t', elems', h1, h2⟩ := ih hinv' (by simpa using hne)
      refine ⟨t', elems', h1, ?_⟩
      rw [h2, List.map_map]
      apply List.map_congr_left
      intro e he
      simp only [Function.comp]
      rw [runElem]
      split
      · -- `e` is finished while others go on: it is frozen
        rename_i hce
        simp only [Bool.and_eq_true] at hce
        have hd : elemDone cfg t e = true := hce.2
        have ht0 : t ≠ 0 := done_ne_zero hd
        obtain ⟨i, hsl, -, hstat, -⟩ := hinv.elem e he
        have hKw : Kp = cfg.width := by
          rcases hinv.shape with ⟨h, -⟩ | ⟨-, h⟩
          · exact absurd h ht0
          · exact h
        have htw : toWidth sel cfg.width t e.slots = e.slots := by simp [toWidth, hsl, hKw]
        have hle : ∀ s ∈ e.slots, s.len ≤ s.col.length := fun s hs => by
          rw [hstat.colLen s hs]; exact hstat.lenLe s hs
        have hnx : nextElem sel cfg lm dflt t e
            = ⟨e.slots.map (freeze cfg.pad), (nextElem sel cfg lm dflt t e).sts⟩ := by
          simp only [nextElem, hd, if_true, htw]
          rfl
        have hd' := done_freeze cfg.pad (nextElem sel cfg lm dflt t e).sts hle hd
        rw [← hnx] at hd'
        rw [runElem_done sel lm dflt fuel hd', hnx]
        simp only [beamView, List.map_map]
        apply List.map_congr_left
        intro s hs
        simp only [Function.comp, freeze_path (hle s hs)]
        rfl
      · rfl

theorem beamView_length (a : List Slot) : (beamView a).length = a.length := by simp [beamView]

theorem beamView_scores (a : List Slot) : (beamView a).map (·.2) = a.map (·.score) := by
  simp [beamView]

theorem beamView_getD (a : List Slot) (i : Nat) (d : Slot) :
    (d.path, d.score) = (d.path, d.score) →
    ((a.getD i d).path, (a.getD i d).score) = (beamView a).getD i (d.path, d.score) := by
  intro _
  simp only [List.getD_eq_getElem?_getD, beamView, List.getElem?_map]
  cases a[i]? <;> rfl

/-- `_to_width` shows the same for beams that show the same (whatever the history size). -/
theorem beamView_toWidth (sel : Sel) (w S1 S2 : Nat) {a b : List Slot}
    (h : beamView a = beamView b) :
    beamView (toWidth sel w S1 a) = beamView (toWidth sel w S2 b) := by
  have hlen : a.length = b.length := by
    rw [← beamView_length a, ← beamView_length b, h]
  have hsc : a.map (·.score) = b.map (·.score) := by
    rw [← beamView_scores a, ← beamView_scores b, h]
  unfold toWidth
  rw [← hlen]
  split
  · simp only [beamView, List.map_append, List.map_replicate] at h ⊢
    rw [h]
    simp [Slot.path]
  · split
    · rw [← hsc]
      simp only [beamView, List.map_map] at h ⊢
      apply List.map_congr_left
      intro i _
      have h1 := beamView_getD a i Slot.dflt rfl
      have h2 := beamView_getD b i Slot.dflt rfl
      simp only [Function.comp]
      rw [h1, h2]
      simp only [beamView]
      rw [h]
    · exact h

/-- **No error** at the level of `search`. -/
theorem search_ok {cfg : Cfg} {lm : LM σ} {spec : ι → List Int → List Score}
    {Rep : ι → List Int → σ → Prop} {sel : Sel} (hsel : SelOK sel)
    (hlm : ∀ i, LMOK cfg.V lm (spec i) (Rep i)) (hV : 0 < cfg.V) (hw : 0 < cfg.width) (dflt : σ)
    (hrule : cfg.waitNegInf = false) (hL : Waits cfg ∨ ∀ i, SpecLive cfg.V (spec i))
    {inits : List σ} (hinit : ∀ s ∈ inits, ∃ i, Rep i [] s) (hne : inits ≠ []) (maxIters : Nat) :
    ∃ out, search sel cfg lm dflt inits maxIters = .ok out := by
  obtain ⟨t', Kp', elems', h1, -⟩ := loop_ok hsel hlm hV hw dflt hrule hL maxIters
    (init_rinv (cfg := cfg) (spec := spec) hinit) (by simpa using hne)
  unfold search
  rw [h1]
  exact ⟨_, rfl⟩

/-- **Batch independence** at the level of `search`. -/
theorem search_batch {cfg : Cfg} {lm : LM σ} {spec : ι → List Int → List Score}
    {Rep : ι → List Int → σ → Prop} {sel : Sel} (hsel : SelOK sel)
    (hlm : ∀ i, LMOK cfg.V lm (spec i) (Rep i)) (hV : 0 < cfg.V) (hw : 0 < cfg.width) (dflt : σ)
    (hrule : cfg.waitNegInf = false) (hL : Waits cfg ∨ ∀ i, SpecLive cfg.V (spec i))
    {inits : List σ} (hinit : ∀ s ∈ inits, ∃ i, Rep i [] s) (maxIters : Nat) {out : List (List Slot)}
    (h : search sel cfg lm dflt inits maxIters = .ok out) (n : Nat) (s : σ)
    (hn : inits[n]? = some s) :
    ∃ beam beamN, search sel cfg lm dflt [s] maxIters = .ok [beam] ∧ out[n]? = some beamN ∧
      beamView beamN = beamView beam := by
  have hne : inits ≠ [] := by
    intro h0; rw [h0] at hn; simp at hn
  have hs : s ∈ inits := List.mem_of_getElem? hn
  obtain ⟨t', elems', h1, h2⟩ := loop_joint hsel hlm hV hw dflt hrule hL maxIters
    (init_rinv (cfg := cfg) (spec := spec) hinit) (by simpa using hne)
  have hinit1 : ∀ x ∈ [s], ∃ i, Rep i [] x := by
    intro x hx; simp at hx; subst hx; exact hinit _ hs
  obtain ⟨t1, h3⟩ := loop_single hsel hlm hV hw dflt hrule hL maxIters
    (init_rinv (cfg := cfg) (spec := spec) hinit1)
  unfold search at h ⊢
  rw [h1] at h
  simp only [Except.ok.injEq] at h
  simp only [List.map_cons, List.map_nil] at h3 ⊢
  rw [h3]
  have hidx := congrArg (fun l => l[n]?) h2
  simp only [List.getElem?_map, hn, Option.map_some] at hidx
  cases he : elems'[n]? with
  | none => rw [he] at hidx; simp at hidx
  | some e' =>
    rw [he] at hidx
    simp only [Option.map_some, Option.some.injEq] at hidx
    refine ⟨_, toWidth sel cfg.width t' e'.slots, rfl, ?_, beamView_toWidth sel cfg.width t' t1 hidx⟩
    rw [← h, List.getElem?_map, he]
    rfl

end PdtVerif.Beam
