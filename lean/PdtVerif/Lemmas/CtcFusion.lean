import PdtVerif.Model.CtcFusion
import PdtVerif.Lemmas.CtcRefine
/-! # C05: the module's language-model plumbing hands every real slot the fused scores of its own prefix

`GoodRun` (the hypothesis of `C05_refines` / `C05_module`) asks that `ext[k][v]` is the specification's
extension score of `v` after the prefix of real slot `k`.  Here that is *proved* for the model of the
module's LM plumbing (`Model/CtcFusion.lean`: `extract_by_src` / `mix_by_mask` routing), for every
language model that meets the state contract `LMC` (the shape of C04's `LMOK`). -/
namespace PdtVerif.CtcPrefix
open PdtVerif.Ctc (Frame)

variable {σ : Type}

/-- **State contract of the language model** (cf. `Beam.LMOK`): `spec h v` is the LM factor of token `v`
after the history `h`; `R h st` says that `st` is a valid `prev` for index `h.length` on any column that
starts with `h`.  Then one call yields the row of `h` and a state that is valid for every one-token
extension of `h`.  Rows are finite numbers whatever the state (outputs of `softmax` / `exp`). -/
structure LMC (V : Nat) (lm : LM σ) (spec : List Nat → Nat → Rat) (R : List Nat → σ → Prop) : Prop where
  fin : ∀ idx col st v, (getX (lm.run idx col st).1 v).isFin = true
  step : ∀ h st col, R h st → col.take h.length = h →
    (∀ v, v < V → getX (lm.run h.length col st).1 v = XR.fin (spec h v)) ∧
    ∀ v, R (h ++ [v]) (lm.run h.length col st).2

/-- source slot and "did not extend" flag of the output slots of a step -/
theorem advance_src (fix : Bool) (V width : Nat) (ext : List (List XR)) (nonext : List XR)
    (blank : XR) (st : State) (s : List Nat) (j : Nat)
    (hj : j < min width (st.nb.length * (V + 1))) :
    getN (advance fix V width ext nonext blank st (some s)).src j = srcOf st.nb.length V (getN s j) ∧
    getB (advance fix V width ext nonext blank st (some s)).isNon j = decide (st.nb.length * V ≤ getN s j) := by
  unfold advance
  extract_lets Kp ks vs K tm1 tot0 invalid inv nbP bP tot isP last nbExt0 bNon nbNon0 toMatch exact nbNon1 hasMatch nbExt nbNon flatExt cand sel' js ind isNon src extTok prefLens yNext lensNext nbNext bNext lastNext isPNext rem padRow
  have hjK : j < K := hj
  have hsl : src.length = K := by simp [src, js]
  have hil : isNon.length = K := by simp [isNon, js]
  constructor
  · show List.getD (src ++ List.replicate rem 0) j 0 = _
    rw [getD_append_left' _ _ _ _ (by omega)]
    simp only [src, js]
    rw [getD_map_range _ _ _ _ hjK]
    rfl
  · show List.getD (isNon ++ List.replicate rem false) j false = _
    rw [getD_append_left' _ _ _ _ (by omega)]
    simp only [isNon, js]
    rw [getD_map_range _ _ _ _ hjK]

theorem advance_src_length (fix : Bool) (V width : Nat) (ext : List (List XR)) (nonext : List XR)
    (blank : XR) (st : State) (sel : Option (List Nat)) :
    (advance fix V width ext nonext blank st sel).src.length = width := by
  unfold advance
  extract_lets Kp ks vs K tm1 tot0 invalid inv nbP bP tot isP last nbExt0 bNon nbNon0 toMatch exact nbNon1 hasMatch nbExt nbNon flatExt cand sel' js ind isNon src extTok prefLens yNext lensNext nbNext bNext lastNext isPNext rem padRow
  show (src ++ List.replicate rem 0).length = width
  simp only [List.length_append, src, js, List.length_map, List.length_range, List.length_replicate, rem]
  have : K ≤ width := Nat.min_le_left _ _
  omega

theorem fuse_fin (mix : Option Rat) (l t b : Rat) : fuse mix (.fin l) (.fin t) (.fin b) = .fin (fuseQ mix l t b) := rfl

theorem fuse_isFin (mix : Option Rat) {l t b : XR} (hl : l.isFin = true) (ht : t.isFin = true)
    (hb : b.isFin = true) : (fuse mix l t b).isFin = true := by
  obtain ⟨l, rfl⟩ := fin_of_isFin hl
  obtain ⟨t, rfl⟩ := fin_of_isFin ht
  obtain ⟨b, rfl⟩ := fin_of_isFin hb
  rfl

/-! ### the run -/

/-- a run of the module with a fused LM in which the token / blank probabilities are finite and those of
the specification frames, the specification's extension score is the fusion of the LM's factor for the
prefix, and every `topk` answer is legitimate -/
def LMGood (V width : Nat) (mix : Option Rat) (lm : LM σ) (dflt : σ) (spec : List Nat → Nat → Rat) :
    State × List σ → List AcIn → List Frame → Prop
  | _, [], [] => True
  | S, a :: as, f :: fs =>
    ∃ s, a.sel = some s ∧ a.blank = XR.fin f.blank ∧ (∀ v, v < V → getX a.nonext v = XR.fin (f.tok v)) ∧
      (∀ q v, f.ext q v = fuseQ mix (spec q v) (f.tok v) f.blank) ∧
      (∀ x ∈ a.nonext, x.isFin = true) ∧
      isTopK (advance true V width (lmExt V mix lm dflt a.nonext a.blank S.1 S.2) a.nonext a.blank S.1 (some s)).cand
        (min width (S.1.nb.length * (V + 1))) s = true ∧
      LMGood V width mix lm dflt spec (lmStep true V width mix lm dflt S a).1 as fs
  | _, _, _ => False

/-- every real slot carries an LM state that is valid for its own prefix -/
def StatesOK (R : List Nat → σ → Prop) (dflt : σ) (st : State) (sts : List σ) : Prop :=
  ∀ k, validB st k = true → R (preOf st k) (sts.getD k dflt)

section Step
variable {V : Nat} (hV : 0 < V) (width : Nat) (mix : Option Rat) {lm : LM σ} (dflt : σ)
  {spec : List Nat → Nat → Rat} {R : List Nat → σ → Prop} (hlm : LMC V lm spec R)
  {st : State} {sts : List σ} (h : WF V st) (hst : StatesOK R dflt st sts)
include hV hlm h hst

omit hV in
/-- the LM call of a real slot: the row of the slot's prefix, and a state valid for every extension -/
theorem lm_call {k : Nat} (hk : validB st k = true) :
    (∀ v, v < V → getX (lm.run (getN st.lens k) (st.y.getD k []) (sts.getD k dflt)).1 v
        = XR.fin (spec (preOf st k) v)) ∧
    ∀ v, R (preOf st k ++ [v]) (lm.run (getN st.lens k) (st.y.getD k []) (sts.getD k dflt)).2 := by
  have hl := preOf_length h hk
  have := hlm.step (preOf st k) (sts.getD k dflt) (st.y.getD k []) (hst k hk) (by rw [hl]; rfl)
  rw [hl] at this
  exact this

omit hV in
/-- **the extension probabilities handed to the step are the fused scores of each real slot's prefix** -/
theorem lm_frameLink {f : Frame} {nonext : List XR} {blank : XR}
    (hb : blank = XR.fin f.blank) (ht : ∀ v, v < V → getX nonext v = XR.fin (f.tok v))
    (hx : ∀ q v, f.ext q v = fuseQ mix (spec q v) (f.tok v) f.blank) :
    FrameLink V f (lmExt V mix lm dflt nonext blank st sts) nonext blank st := by
  refine ⟨hb, ht, ?_⟩
  intro k hk v hv
  have hlt := (validB_iff.1 hk).1
  unfold lmExt lmOuts
  rw [List.map_map]
  show get2X ((List.range st.nb.length).map (fun k => (List.range V).map (fun v =>
      fuse mix (getX (lm.run (getN st.lens k) (st.y.getD k []) (sts.getD k dflt)).1 v) (getX nonext v) blank))) k v = _
  rw [get2X_map_range2 _ _ _ _ _ hlt hv, (lm_call dflt hlm h hst hk).1 v hv, ht v hv, hb, fuse_fin, hx]

omit hV h hst in
/-- all of them are finite numbers (also the rows of slots without a prefix) -/
theorem lm_ext_fin {nonext : List XR} {blank : XR} (hb : blank.isFin = true)
    (hn : ∀ x ∈ nonext, x.isFin = true) :
    ∀ r ∈ lmExt V mix lm dflt nonext blank st sts, ∀ x ∈ r, x.isFin = true := by
  intro r hr x hx
  unfold lmExt at hr
  obtain ⟨o, ho, rfl⟩ := List.mem_map.1 hr
  obtain ⟨v, _, rfl⟩ := List.mem_map.1 hx
  unfold lmOuts at ho
  obtain ⟨k, _, rfl⟩ := List.mem_map.1 ho
  exact fuse_isFin mix (hlm.fin _ _ _ _) (getX_isFin _ hn v) hb

/-- **which state each slot gets**: after the step every real slot again carries a state valid for its
own prefix — the source's state if the prefix was not extended, the source's `in_next` if it was -/
theorem lm_states_step {f : Frame} {nonext : List XR} {blank : XR} (s : List Nat)
    (hb : blank = XR.fin f.blank) (ht : ∀ v, v < V → getX nonext v = XR.fin (f.tok v))
    (hx : ∀ q v, f.ext q v = fuseQ mix (spec q v) (f.tok v) f.blank)
    (hk : isTopK (advance true V width (lmExt V mix lm dflt nonext blank st sts) nonext blank st (some s)).cand
            (min width (st.nb.length * (V + 1))) s = true) :
    StatesOK R dflt (advance true V width (lmExt V mix lm dflt nonext blank st sts) nonext blank st (some s)).st
      (routeStates dflt sts (lmInNext lm dflt st sts)
        (advance true V width (lmExt V mix lm dflt nonext blank st sts) nonext blank st (some s)).src
        (advance true V width (lmExt V mix lm dflt nonext blank st sts) nonext blank st (some s)).isNon) := by
  intro j hv
  have hf := lm_frameLink mix dflt hlm h hst hb ht hx
  obtain ⟨hj, hs, hvk, hp⟩ := prov hV width h hf s hk j hv
  obtain ⟨esrc, enon⟩ := advance_src true V width (lmExt V mix lm dflt nonext blank st sts) nonext blank st s j hj
  have hjw : j < width := by omega
  have hkl := (validB_iff.1 hvk).1
  unfold routeStates
  rw [advance_src_length, getD_map_range _ _ _ _ hjw, esrc, enon]
  have hin : (lmInNext lm dflt st sts).getD (srcOf st.nb.length V (getN s j)) dflt
      = (lm.run (getN st.lens (srcOf st.nb.length V (getN s j)))
          (st.y.getD (srcOf st.nb.length V (getN s j)) [])
          (sts.getD (srcOf st.nb.length V (getN s j)) dflt)).2 := by
    unfold lmInNext lmOuts
    rw [List.map_map, getD_map_range _ _ _ _ hkl]
    rfl
  rcases hp with ⟨hi, hp⟩ | ⟨hi, hp, _⟩
  · rw [hp]
    simp only [hi, decide_true, if_true]
    exact hst _ hvk
  · rw [hp]
    have : ¬ st.nb.length * V ≤ getN s j := by omega
    simp only [this, decide_false, Bool.false_eq_true, if_false]
    rw [hin]
    exact (lm_call dflt hlm h hst hvk).2 _

end Step

/-- **the LM plumbing discharges the extension-score hypothesis of `C05_refines`**: a run of the module
with a fused language model that meets its state contract is a `GoodRun` for the specification frames
whose extension score after prefix `q` is the fusion of the LM's factor for `q`. -/
theorem lm_goodRun {V : Nat} (hV : 0 < V) (width : Nat) (mix : Option Rat) {lm : LM σ} (dflt : σ)
    {spec : List Nat → Nat → Rat} {R : List Nat → σ → Prop} (hlm : LMC V lm spec R) :
    ∀ (ins : List AcIn) (fs : List Frame) (S : State × List σ), WF V S.1 → StatesOK R dflt S.1 S.2 →
      LMGood V width mix lm dflt spec S ins fs →
      GoodRun V width S.1 (lmFrames V width mix lm dflt S ins) fs
  | [], [], _, _, _, _ => by simp [lmFrames, GoodRun]
  | [], _ :: _, _, _, _, hg => by simp [LMGood] at hg
  | _ :: _, [], _, _, _, hg => by simp [LMGood] at hg
  | a :: as, f :: fs, S, h, hst, hg => by
    obtain ⟨s, hsel, hb, ht, hx, hn, hk, hrest⟩ := hg
    have hf := lm_frameLink mix dflt hlm h hst hb ht hx
    have hbf : a.blank.isFin = true := by rw [hb]; rfl
    have hext := lm_ext_fin (st := S.1) (sts := S.2) mix dflt hlm hbf hn
    have hstep : (lmStep true V width mix lm dflt S a).1
        = ((advance true V width (lmExt V mix lm dflt a.nonext a.blank S.1 S.2) a.nonext a.blank S.1 (some s)).st,
           routeStates dflt S.2 (lmInNext lm dflt S.1 S.2)
            (advance true V width (lmExt V mix lm dflt a.nonext a.blank S.1 S.2) a.nonext a.blank S.1 (some s)).src
            (advance true V width (lmExt V mix lm dflt a.nonext a.blank S.1 S.2) a.nonext a.blank S.1 (some s)).isNon) := by
      simp only [lmStep, hsel]
    simp only [lmFrames, GoodRun]
    refine ⟨s, hsel, hf, hext, hn, hk, ?_⟩
    have ih := lm_goodRun hV width mix dflt hlm as fs (lmStep true V width mix lm dflt S a).1
    rw [hstep] at ih hrest ⊢
    exact ih (wf_advance hV width h hf s hk hext hn)
      (lm_states_step hV width mix dflt hlm h hst s hb ht hx hk) hrest

/-! ### a stateful language model that meets the contract (non-vacuity, any `V`, any scores) -/

/-- an LM whose state is the list of tokens it has consumed; the factor of `v` after history `h` is `F h v` -/
def histLM (V : Nat) (F : List Nat → Nat → Rat) : LM (List Nat) where
  run := fun idx col st =>
    let h := if idx = 0 then st else st ++ [col.getD (idx - 1) 0]
    ((List.range V).map (fun v => XR.fin (F h v)), h)

theorem histLM_ok (V : Nat) (F : List Nat → Nat → Rat) :
    LMC V (histLM V F) F (fun h st => st = h.dropLast) := by
  constructor
  · intro idx col st v
    show (getX ((List.range V).map _) v).isFin = true
    by_cases hv : v < V
    · rw [getX_map_range _ _ _ hv]; rfl
    · unfold getX; rw [getD_ge _ _ _ (by simp; omega)]; rfl
  · intro h st col hR hcol
    have hh : (if h.length = 0 then st else st ++ [col.getD (h.length - 1) 0]) = h := by
      subst hR
      by_cases h0 : h = []
      · subst h0; simp
      · have hl : h.length ≠ 0 := by simpa using h0
        rw [if_neg hl]
        have hpos : h.length - 1 < h.length := by omega
        have e : col.getD (h.length - 1) 0 = h.getLast h0 := by
          have hc : h.length ≤ col.length := by
            have := congrArg List.length hcol
            rw [List.length_take] at this
            omega
          rw [List.getLast_eq_getElem, List.getD_eq_getElem?_getD,
            List.getElem?_eq_getElem (by omega)]
          simp only [Option.getD_some]
          have : h[h.length - 1] = (col.take h.length)[h.length - 1]'(by rw [hcol]; exact hpos) := by
            congr 1 <;> simp [hcol]
          rw [this, List.getElem_take]
        rw [e, List.dropLast_append_getLast]
    constructor
    · intro v hv
      show getX ((List.range V).map _) v = _
      rw [getX_map_range _ _ _ hv, hh]
    · intro v
      show (if h.length = 0 then st else st ++ [col.getD (h.length - 1) 0]) = (h ++ [v]).dropLast
      rw [hh]; simp

end PdtVerif.CtcPrefix
