import PdtVerif.Spec.Recoverable
/-!
# Lemmas for C16: association-list files, frame reasoning for `exec`, the history file,
one update call by call, sessions and crash schedules
-/
namespace PdtVerif.Checkpoint

/-! ## files -/

theorem Files.get_del (fs : Files) (p q : Path) :
    (Files.del fs p).get q = if q = p then none else fs.get q := by
  induction fs with
  | nil => simp [Files.del, Files.get]
  | cons x fs ih =>
    obtain ⟨a, c⟩ := x
    by_cases hap : a = p
    · subst hap
      have : Files.del ((a, c) :: fs) a = Files.del fs a := by simp [Files.del]
      rw [this, ih]
      by_cases hq : q = a
      · simp [hq]
      · have : ¬ a = q := fun h => hq h.symm
        simp [hq, Files.get, this]
    · have : Files.del ((a, c) :: fs) p = (a, c) :: Files.del fs p := by
        simp [Files.del, hap]
      rw [this]
      by_cases haq : a = q
      · subst haq
        simp [Files.get, hap]
      · simp only [Files.get, haq, if_false]
        exact ih

theorem Files.get_set (fs : Files) (p q : Path) (c : Content) :
    (Files.set fs p c).get q = if q = p then some c else fs.get q := by
  unfold Files.set
  by_cases h : q = p
  · subst h; simp [Files.get]
  · have : ¬ p = q := fun h' => h h'.symm
    simp only [Files.get, this, if_false, h]
    rw [Files.get_del]; simp [h]

/-! ## which paths an operation can change -/

def touches : FsOp → Path → Prop
  | .mktemp t, q => q = .tmp t
  | .write t _, q => q = .tmp t
  | .replace t dst, q => q = .tmp t ∨ q = dst
  | .remove p, q => q = p
  | _, _ => False

def isHwrite : FsOp → Prop
  | .hwrite _ => True
  | _ => False

theorem exec1_get (d : Disk) (op : FsOp) (q : Path) (h : ¬ touches op q) :
    (exec1 d op).files.get q = d.files.get q := by
  cases op with
  | mkdirs => rfl
  | mktemp t => simp only [touches] at h; simp [exec1, Files.get_set, h]
  | write t c => simp only [touches] at h; simp [exec1, Files.get_set, h]
  | replace t dst =>
    simp only [touches, not_or] at h
    simp only [exec1]
    split
    · simp [Files.get_set, Files.get_del, h.1, h.2]
    · rfl
  | openAppend => rfl
  | hwrite l => rfl
  | remove p => simp only [touches] at h; simp [exec1, Files.get_del, h]

theorem parseCsv_getD (c : Option (List Line)) : parseCsv (some (c.getD [])) = parseCsv c := by
  cases c with
  | none => rfl
  | some l => rfl

theorem csvHealthy_getD (c : Option (List Line)) : csvHealthy (some (c.getD [])) = csvHealthy c := by
  cases c with
  | none => rfl
  | some l => rfl

theorem exec1_csv (d : Disk) (op : FsOp) (h : ¬ isHwrite op) :
    parseCsv (exec1 d op).csv = parseCsv d.csv ∧ csvHealthy (exec1 d op).csv = csvHealthy d.csv ∧
      (exec1 d op).csv.getD [] = d.csv.getD [] := by
  cases op with
  | hwrite l => exact absurd trivial h
  | openAppend => exact ⟨parseCsv_getD _, csvHealthy_getD _, rfl⟩
  | replace t dst => simp only [exec1]; split <;> exact ⟨rfl, rfl, rfl⟩
  | _ => exact ⟨rfl, rfl, rfl⟩

theorem exec_append (d : Disk) (a b : List FsOp) : exec d (a ++ b) = exec (exec d a) b := by
  simp [exec, List.foldl_append]

theorem exec_cons (d : Disk) (a : FsOp) (b : List FsOp) : exec d (a :: b) = exec (exec1 d a) b := rfl

theorem exec_nil (d : Disk) : exec d [] = d := rfl

/-- Frame for the files alone: operations that touch no path of `S` leave every file of `S`. -/
theorem exec_frame_files (S : Path → Prop) (ops : List FsOp) (d : Disk)
    (h : ∀ op ∈ ops, ∀ q, S q → ¬ touches op q) :
    ∀ q, S q → (exec d ops).files.get q = d.files.get q := by
  induction ops generalizing d with
  | nil => exact fun _ _ => rfl
  | cons op ops ih =>
    intro q hq
    rw [exec_cons, ih (exec1 d op) (fun op' hm => h op' (List.mem_cons_of_mem _ hm)) q hq,
      exec1_get d op q (h op (List.mem_cons_self ..) q hq)]

/-- Frame: operations that write no history line and touch no path of `S` leave the parsed
history, its health and every file of `S` as they were. -/
theorem exec_frame (S : Path → Prop) (ops : List FsOp) (d : Disk)
    (h : ∀ op ∈ ops, ¬ isHwrite op ∧ ∀ q, S q → ¬ touches op q) :
    parseCsv (exec d ops).csv = parseCsv d.csv ∧ csvHealthy (exec d ops).csv = csvHealthy d.csv ∧
      (exec d ops).csv.getD [] = d.csv.getD [] ∧
      ∀ q, S q → (exec d ops).files.get q = d.files.get q := by
  refine ⟨?_, ?_, ?_, exec_frame_files S ops d (fun op hm => (h op hm).2)⟩
  all_goals
    induction ops generalizing d with
    | nil => rfl
    | cons op ops ih =>
      have h1 := h op (List.mem_cons_self ..)
      have h2 : ∀ op' ∈ ops, ¬ isHwrite op' ∧ ∀ q, S q → ¬ touches op' q :=
        fun op' hm => h op' (List.mem_cons_of_mem _ hm)
      obtain ⟨a1, b1, c1⟩ := exec1_csv d op h1.1
      rw [exec_cons, ih (exec1 d op) h2]
      first | exact a1 | exact b1 | exact c1

theorem recorded_congr {d d' : Disk} (h : parseCsv d'.csv = parseCsv d.csv) : recorded d' = recorded d := by
  simp [recorded, h]

theorem mem_epochPaths (P : Params) (e : Nat) (q : Path) :
    q ∈ epochPaths P e ↔ e ≠ 0 ∧ (q = P.mpath e ∨ q = P.opath e) := by
  unfold epochPaths
  by_cases h : e = 0
  · simp [h]
  · simp [h]

/-- Loading epoch `e` looks at the two files of `e` only (at nothing when `e = 0`). -/
theorem loadState_congr (P : Params) {d d' : Disk} (e : Nat)
    (h : ∀ q ∈ epochPaths P e, d'.files.get q = d.files.get q) :
    loadState P d' e = loadState P d e := by
  unfold loadState
  by_cases he : e = 0
  · simp [he]
  · have hm := h (P.mpath e) ((mem_epochPaths P e _).2 ⟨he, Or.inl rfl⟩)
    have ho := h (P.opath e) ((mem_epochPaths P e _).2 ⟨he, Or.inr rfl⟩)
    simp [he, hm, ho]

/-! ## `Rec` with the number of recorded epochs named -/

theorem RecAt.rec {P : Params} {vals : List (Option Int)} {tr : Train} {d : Disk} {k : Nat}
    (h : RecAt P vals tr d k) : Rec P vals tr d := ⟨k, h⟩

theorem RecAt.unique {P : Params} {vals : List (Option Int)} {tr : Train} {d : Disk} {k k' : Nat}
    (h : RecAt P vals tr d k) (h' : recorded d = some k') : k' = k := by
  have := h.1; rw [h'] at this; exact Option.some.inj this

/-- The files `Rec` looks at when `k` epochs are recorded and `b` is the best of them. -/
def Prot (P : Params) (k b : Nat) (q : Path) : Prop :=
  q ∈ epochPaths P k ++ epochPaths P b

theorem RecAt_frame {P : Params} {vals : List (Option Int)} {tr : Train} {d : Disk} {k : Nat}
    (h : RecAt P vals tr d k) (ops : List FsOp)
    (hs : ∀ op ∈ ops, ¬ isHwrite op ∧ ∀ q, Prot P k (bestOf (vals.take k)) q → ¬ touches op q) :
    RecAt P vals tr (exec d ops) k := by
  obtain ⟨a, b, _, c⟩ := exec_frame (Prot P k (bestOf (vals.take k))) ops d hs
  obtain ⟨h1, h2, h3, h4, h5⟩ := h
  refine ⟨by rw [recorded_congr a]; exact h1, by rw [b]; exact h2, h3, ?_, ?_⟩
  · rw [loadState_congr P k (fun q hq => c q (List.mem_append_left _ hq))]; exact h4
  · rw [loadState_congr P _ (fun q hq => c q (List.mem_append_right _ hq))]; exact h5

/-! ## `get_best_epoch` -/

theorem bestSt_snoc (vals : List (Option Int)) (v : Option Int) :
    bestSt (vals ++ [v]) = bestStep (bestSt vals) v := by
  simp [bestSt, List.foldl_append]

theorem foldl_bestStep_n (vals : List (Option Int)) (s : BestSt) :
    (vals.foldl bestStep s).n = s.n + vals.length := by
  induction vals generalizing s with
  | nil => rfl
  | cons v vs ih =>
    rw [List.foldl_cons, ih]
    have : (bestStep s v).n = s.n + 1 := by
      unfold bestStep; split <;> (try split) <;> rfl
    rw [this, List.length_cons]; omega

theorem foldl_bestStep_minE (vals : List (Option Int)) (s : BestSt) (h : s.minE ≤ s.n) :
    (vals.foldl bestStep s).minE ≤ (vals.foldl bestStep s).n := by
  induction vals generalizing s with
  | nil => exact h
  | cons v vs ih =>
    rw [List.foldl_cons]
    apply ih
    unfold bestStep; split <;> (try split) <;> simp <;> omega

theorem bestSt_n (vals : List (Option Int)) : (bestSt vals).n = vals.length := by
  simp [bestSt, foldl_bestStep_n]

theorem bestSt_minE_le (vals : List (Option Int)) : (bestSt vals).minE ≤ vals.length := by
  have := foldl_bestStep_minE vals ⟨0, 0, none⟩ (Nat.le_refl _)
  rw [foldl_bestStep_n] at this
  simpa [bestSt] using this

theorem bestOf_le (vals : List (Option Int)) : bestOf vals ≤ vals.length := bestSt_minE_le vals

/-- Appending an epoch either keeps the best epoch or makes the new epoch the best. -/
theorem bestOf_snoc (vals : List (Option Int)) (v : Option Int) :
    bestOf (vals ++ [v]) = bestOf vals ∨ bestOf (vals ++ [v]) = vals.length + 1 := by
  unfold bestOf
  rw [bestSt_snoc]
  have hn := bestSt_n vals
  unfold bestStep
  split <;> (try split) <;> simp [hn]

theorem bestOf_take_succ (vals : List (Option Int)) (k : Nat) (hk : k < vals.length) :
    bestOf (vals.take (k + 1)) = bestOf (vals.take k) ∨ bestOf (vals.take (k + 1)) = k + 1 := by
  rw [← List.take_append_getElem hk]
  have := bestOf_snoc (vals.take k) vals[k]
  simpa [List.length_take, Nat.min_eq_left (Nat.le_of_lt hk)] using this

theorem bestOf_take_le (vals : List (Option Int)) (k : Nat) : bestOf (vals.take k) ≤ k := by
  have := bestOf_le (vals.take k)
  simp [List.length_take] at this
  omega

/-! ## the history file -/

theorem parseCsv_header (rest : List Line) : parseCsv (some (.header :: rest)) = rowsOf rest := rfl

theorem rowsOf_snoc (rest : List Line) (e : Nat) :
    rowsOf (rest ++ [.row e]) = (rowsOf rest).map (· ++ [e]) := by
  induction rest with
  | nil => rfl
  | cons l rest ih =>
    cases l with
    | header => rfl
    | torn => rfl
    | row x =>
      simp only [List.cons_append, rowsOf, ih]
      cases rowsOf rest <;> simp

/-- A torn data row at the end makes the constructor raise, whatever precedes it. -/
theorem rowsOf_snoc_torn (rest : List Line) : rowsOf (rest ++ [.torn]) = none := by
  induction rest with
  | nil => rfl
  | cons l rest ih =>
    cases l with
    | header => rfl
    | torn => rfl
    | row x => simp only [List.cons_append, rowsOf, ih]; rfl

/-! ## what `save` and `hist` do -/

theorem exec1_replace {d : Disk} {t : Nat} {dst : Path} {c : Content}
    (h : d.files.get (.tmp t) = some c) :
    exec1 d (.replace t dst) = { d with files := (d.files.del (.tmp t)).set dst c } := by
  simp [exec1, h]

theorem exec_saveOps (P : Params) (d0 d : Disk) (e : Nat) (s : St) :
    exec d (saveOps P d0 e s) =
      { d with files :=
          (((((((d.files.set (.tmp (freshTmp d0.files)) .empty).set (.tmp (freshTmp d0.files)) (.model s.1)).set
            (.tmp (freshTmp d0.files + 1)) .empty).set (.tmp (freshTmp d0.files + 1)) (.optim s.2)).del
            (.tmp (freshTmp d0.files))).set (P.mpath e) (.model s.1)).del
            (.tmp (freshTmp d0.files + 1))).set (P.opath e) (.optim s.2) } := by
  simp only [saveOps, exec, List.foldl_cons, List.foldl_nil]
  have h6 : exec1 (exec1 (exec1 (exec1 (exec1 (exec1 d .mkdirs) (.mktemp (freshTmp d0.files)))
          (.write (freshTmp d0.files) (.model s.1))) .mkdirs) (.mktemp (freshTmp d0.files + 1)))
          (.write (freshTmp d0.files + 1) (.optim s.2)) =
        { d with files := Files.set (Files.set (Files.set (Files.set d.files (.tmp (freshTmp d0.files)) .empty)
                        (.tmp (freshTmp d0.files)) (.model s.1)) (.tmp (freshTmp d0.files + 1)) .empty)
                        (.tmp (freshTmp d0.files + 1)) (.optim s.2) } := rfl
  rw [h6, exec1_replace (t := freshTmp d0.files) (c := .model s.1) (by simp [Files.get_set]),
    exec1_replace (t := freshTmp d0.files + 1) (c := .optim s.2)
      (by simp [Files.get_set, Files.get_del, Params.mpath])]

theorem exec_saveOps_get (P : Params) (d0 d : Disk) (e : Nat) (s : St) (q : Path) :
    (exec d (saveOps P d0 e s)).files.get q =
      if q = P.opath e then some (.optim s.2)
      else if q = P.mpath e then some (.model s.1)
      else if q = .tmp (freshTmp d0.files) ∨ q = .tmp (freshTmp d0.files + 1) then none
      else d.files.get q := by
  rw [exec_saveOps]
  simp only [Files.get_set, Files.get_del, Params.mpath, Params.opath]
  by_cases h1 : q = Path.optim (P.ko e)
  · simp [h1]
  · by_cases h2 : q = Path.model (P.km e)
    · simp [h2]
    · by_cases h3 : q = Path.tmp (freshTmp d0.files)
      · simp [h3]
      · by_cases h4 : q = Path.tmp (freshTmp d0.files + 1)
        · simp [h4]
        · simp [h1, h2, h3, h4]

theorem exec_saveOps_csv (P : Params) (d0 d : Disk) (e : Nat) (s : St) :
    (exec d (saveOps P d0 e s)).csv = d.csv := by
  rw [exec_saveOps]

theorem exec_histOps (Q : Quirks) (d0 d : Disk) (e : Nat) :
    exec d (histOps Q d0 e) = { d with csv := some (d.csv.getD [] ++ histLines Q d0 e) } := by
  unfold histOps histLines
  split <;> simp [exec, exec1]

theorem histOps_files (Q : Quirks) (d0 d : Disk) (e : Nat) (i : Nat) :
    (exec d ((histOps Q d0 e).take i)).files = d.files := by
  have : ∀ (ops : List FsOp) (d : Disk), (∀ op ∈ ops, op = .openAppend ∨ ∃ l, op = .hwrite l) →
      (exec d ops).files = d.files := by
    intro ops
    induction ops with
    | nil => intro d _; rfl
    | cons op ops ih =>
      intro d h
      rw [exec_cons, ih _ (fun op' hm => h op' (List.mem_cons_of_mem _ hm))]
      rcases h op (List.mem_cons_self ..) with rfl | ⟨l, rfl⟩ <;> rfl
  apply this
  intro op hop
  have hop := List.mem_of_mem_take hop
  simp only [histOps, List.mem_cons, List.mem_map] at hop
  rcases hop with rfl | ⟨l, _, rfl⟩
  · exact Or.inl rfl
  · exact Or.inr ⟨l, rfl⟩

theorem recorded_range {f : Files} {c : Option (List Line)} {k : Nat} (h : recorded ⟨f, c⟩ = some k) :
    parseCsv c = some (List.range' 1 k) := by
  unfold recorded at h
  simp only at h
  split at h
  · rename_i es hes
    split at h
    · rename_i heq
      have : es.length = k := Option.some.inj h
      rw [hes, heq, this]
    · cases h
  · cases h

theorem recorded_of_parse {f : Files} {c : Option (List Line)} {k : Nat}
    (h : parseCsv c = some (List.range' 1 k)) : recorded ⟨f, c⟩ = some k := by
  simp [recorded, h]

theorem recorded_after_hist {f f' : Files} {c : Option (List Line)} {k : Nat}
    (hr : recorded ⟨f, c⟩ = some k) (hh : csvHealthy c = true) :
    recorded ⟨f', some (c.getD [] ++ histLines Quirks.fixed ⟨f, c⟩ (k + 1))⟩ = some (k + 1) ∧
      csvHealthy (some (c.getD [] ++ histLines Quirks.fixed ⟨f, c⟩ (k + 1))) = true := by
  have hp := recorded_range hr
  have hrange : List.range' 1 (k + 1) = List.range' 1 k ++ [k + 1] := by
    rw [List.range'_concat]; simp [Nat.add_comm]
  match c, hp, hh with
  | none, hp, _ =>
    have hk : k = 0 := by
      cases k with
      | zero => rfl
      | succ n => simp [parseCsv, List.range'] at hp
    subst hk
    refine ⟨recorded_of_parse ?_, rfl⟩
    simp [histLines, writeHeader, parseCsv, rowsOf, List.range']
  | some [], hp, _ =>
    have hk : k = 0 := by
      cases k with
      | zero => rfl
      | succ n => simp [parseCsv, List.range'] at hp
    subst hk
    refine ⟨recorded_of_parse ?_, rfl⟩
    simp [histLines, writeHeader, Quirks.fixed, parseCsv, rowsOf, List.range']
  | some (.header :: rest), hp, _ =>
    refine ⟨recorded_of_parse ?_, rfl⟩
    simp only [Option.getD_some, histLines, writeHeader, List.cons_append, parseCsv_header] at hp ⊢
    simp only [Bool.false_eq_true, if_false]
    rw [rowsOf_snoc, hp, hrange]; rfl
  | some (.row _ :: _), _, hh => simp [csvHealthy] at hh
  | some (.torn :: _), _, hh => simp [csvHealthy] at hh

/-- Whether the header line is written depends on the history file being absent or empty. -/
theorem writeHeader_iff (d : Disk) : writeHeader Quirks.fixed d = true ↔ d.csv.getD [] = [] := by
  unfold writeHeader
  cases hc : d.csv with
  | none => simp
  | some l => cases l <;> simp [Quirks.fixed]

/-- The header line alone (interrupt between the two `writerow` calls of the first update). -/
theorem RecAt_hwrite_header {P : Params} {vals : List (Option Int)} {tr : Train} {d : Disk} {k : Nat}
    (h : RecAt P vals tr d k) (hc : d.csv.getD [] = []) :
    RecAt P vals tr (exec1 d (.hwrite .header)) k := by
  obtain ⟨h1, h2, h3, h4, h5⟩ := h
  have hk : k = 0 := by
    have hp := recorded_range (f := d.files) (c := d.csv) h1
    cases hcsv : d.csv with
    | none =>
      rw [hcsv] at hp
      cases k with
      | zero => rfl
      | succ n => simp [parseCsv, List.range'] at hp
    | some l =>
      rw [hcsv] at hc hp
      simp only [Option.getD_some] at hc
      subst hc
      cases k with
      | zero => rfl
      | succ n => simp [parseCsv, List.range'] at hp
  subst hk
  have hd : exec1 d (.hwrite .header) = { d with csv := some [Line.header] } := by
    simp [exec1, hc]
  rw [hd]
  exact ⟨rfl, rfl, h3, h4, h5⟩

/-! ## the plan of an update -/

/-- In the repaired tree `save_info_first` does not look at the disk. -/
theorem infoFirst_fixed (P : Params) (vals : List (Option Int)) (k : Nat) (d d' : Disk) :
    infoFirst Quirks.fixed P vals k d = infoFirst Quirks.fixed P vals k d' := by
  unfold infoFirst
  simp [Quirks.fixed]

theorem plan_safe {P : Params} {vals : List (Option Int)} {k : Nat} (hs : SafeAt P vals k) (d : Disk)
    (s : St) :
    planUpdate Quirks.fixed P vals k d s =
      .ok (saveOps P d (k + 1) s ++ histOps Quirks.fixed d (k + 1), cleanSet P vals k d) := by
  have h2 : infoFirst Quirks.fixed P vals k d = false := by
    rw [infoFirst_fixed P vals k d Disk.blank]; exact hs.2
  simp [planUpdate, mainOps, hs.1, h2]

/-- What is in the clean-up set. -/
theorem mem_cleanSet_iff (P : Params) (vals : List (Option Int)) (k : Nat) (d : Disk) (q : Path) :
    q ∈ cleanSet P vals k d ↔ (P.keepLB = true ∧ bestOf (vals.take (k + 1)) ≠ k ∧ present d q = true ∧
      q ≠ P.mpath (k + 1) ∧ q ≠ P.opath (k + 1) ∧
      (q = P.mpath k ∨ q = P.opath k ∨
        (bestOf (vals.take k) ≠ bestOf (vals.take (k + 1)) ∧
          (q = P.mpath (bestOf (vals.take k)) ∨ q = P.opath (bestOf (vals.take k)))))) := by
  unfold cleanSet
  simp only
  split
  · rename_i hc
    rw [List.mem_filter, List.mem_eraseDups, List.mem_filter, List.mem_append]
    constructor
    · rintro ⟨⟨hm, hne⟩, hp⟩
      simp only [ne_eq, decide_eq_true_eq] at hne
      refine ⟨hc.1, hc.2, hp, hne.1, hne.2, ?_⟩
      rcases hm with hm | hm
      · simp at hm
        rcases hm with hm | hm
        · exact Or.inl hm
        · exact Or.inr (Or.inl hm)
      · split at hm
        · rename_i hbb
          simp at hm
          exact Or.inr (Or.inr ⟨hbb, hm⟩)
        · cases hm
    · rintro ⟨_, _, hp, hn1, hn2, hm⟩
      refine ⟨⟨?_, by simp [hn1, hn2]⟩, hp⟩
      rcases hm with hm | hm | ⟨hbb, hm⟩
      · left; simp [hm]
      · left; simp [hm]
      · right; simp [hbb, hm]
  · rename_i hc
    constructor
    · intro h; cases h
    · rintro ⟨h1, h2, _⟩
      exact absurd ⟨h1, h2⟩ hc

/-- Formats with the epoch field are checkpoint-first for every metric history … -/
theorem Inj.safeAt {P : Params} (hi : Inj P) (vals : List (Option Int)) (k : Nat) : SafeAt P vals k := by
  have hlb : bestOf (vals.take k) ≠ k + 1 := by
    have := bestOf_take_le vals k; omega
  have hkm1 : ¬ P.km (k + 1) = P.km k := fun h => by have := hi.km _ _ h; omega
  have hko1 : ¬ P.ko (k + 1) = P.ko k := fun h => by have := hi.ko _ _ h; omega
  have hkm2 : ¬ P.km (k + 1) = P.km (bestOf (vals.take k)) := fun h => hlb (hi.km _ _ h).symm
  have hko2 : ¬ P.ko (k + 1) = P.ko (bestOf (vals.take k)) := fun h => hlb (hi.ko _ _ h).symm
  constructor
  · unfold refuses
    simp only [Bool.and_eq_false_imp, decide_eq_false_iff_not]
    rintro _ ⟨hne, h | h⟩
    · exact hne (hi.km _ _ h).symm
    · exact hne (hi.ko _ _ h).symm
  · unfold infoFirst
    simp only
    split
    · split
      · rfl
      · simp [hkm1, hko1, hkm2, hko2]
    · have : (List.range' 1 k).any (fun j => P.km j = P.km (k + 1) || P.ko j = P.ko (k + 1)) = false := by
        rw [List.any_eq_false]
        intro j hj
        rw [List.mem_range'_1] at hj
        have a : ¬ P.km j = P.km (k + 1) := fun h => by have := hi.km _ _ h; omega
        have b : ¬ P.ko j = P.ko (k + 1) := fun h => by have := hi.ko _ _ h; omega
        simp [a, b]
      simp [Quirks.fixed, this]

theorem Inj.safeFmt {P : Params} (hi : Inj P) (vals : List (Option Int)) : SafeFmt P vals :=
  fun k _ => hi.safeAt vals k

/-- … and never let the last and the best epoch share a name. -/
theorem Inj.sep {P : Params} (hi : Inj P) (vals : List (Option Int)) (k : Nat) : Sep P vals k :=
  fun _ hne => ⟨fun h => hne (hi.km _ _ h).symm, fun h => hne (hi.ko _ _ h).symm⟩

/-- An update that did not refuse leaves the last and the best epoch under different names. -/
theorem sep_of_not_refuses {P : Params} {vals : List (Option Int)} {k : Nat}
    (h : refuses P vals k = false) : Sep P vals (k + 1) := by
  intro hkeep hne
  unfold refuses at h
  simp only [hkeep, Bool.true_and, decide_eq_false_iff_not, not_and, not_or] at h
  exact h hne

theorem Sep_zero (P : Params) (vals : List (Option Int)) : Sep P vals 0 := by
  intro _ hne
  exact absurd (by simp [bestOf, bestSt]) hne

theorem SafeFmt.sep {P : Params} {vals : List (Option Int)} (hs : SafeFmt P vals) (k : Nat)
    (hk : k ≤ vals.length) : Sep P vals k := by
  cases k with
  | zero => exact Sep_zero P vals
  | succ k => exact sep_of_not_refuses (hs k (by omega)).1

/-! ## one update, call by call -/

/-- `save` followed by opening the history file: no history line, and only temp files and the two
new paths are touched. -/
theorem safe_save (P : Params) (d0 : Disk) (e : Nat) (s : St) :
    ∀ op ∈ saveOps P d0 e s ++ [FsOp.openAppend],
      ¬ isHwrite op ∧ ∀ q, touches op q → (q = P.mpath e ∨ q = P.opath e ∨ ∃ t, q = Path.tmp t) := by
  intro op hop
  simp only [saveOps, List.cons_append, List.nil_append, List.mem_cons,
    List.not_mem_nil, or_false] at hop
  rcases hop with h | h | h | h | h | h | h | h | h <;> subst h <;>
    simp only [isHwrite, touches, not_false_eq_true, true_and, false_imp_iff, implies_true]
  · intro q hq; exact Or.inr (Or.inr ⟨_, hq⟩)
  · intro q hq; exact Or.inr (Or.inr ⟨_, hq⟩)
  · intro q hq; exact Or.inr (Or.inr ⟨_, hq⟩)
  · intro q hq; exact Or.inr (Or.inr ⟨_, hq⟩)
  · intro q hq
    rcases hq with hq | hq
    · exact Or.inr (Or.inr ⟨_, hq⟩)
    · exact Or.inl hq
  · intro q hq
    rcases hq with hq | hq
    · exact Or.inr (Or.inr ⟨_, hq⟩)
    · exact Or.inr (Or.inl hq)

/-- Checkpoint-first: the new paths are not among the files `Rec` looks at before the update. -/
theorem new_not_prot {P : Params} {vals : List (Option Int)} {k : Nat} (hk : k < vals.length)
    (hs : SafeAt P vals k) {q : Path} (hq : Prot P k (bestOf (vals.take k)) q) :
    ¬ (q = P.mpath (k + 1) ∨ q = P.opath (k + 1) ∨ ∃ t, q = Path.tmp t) := by
  obtain ⟨hr, hif⟩ := hs
  have hb := bestOf_take_le vals k
  have hcb := bestOf_take_succ vals k hk
  -- the names of the new epoch differ from those of epoch `j` for `j = k` and `j = lastBest` (when ≥ 1)
  have key : ∀ j, j ≠ 0 → (j = k ∨ j = bestOf (vals.take k)) →
      P.km (k + 1) ≠ P.km j ∧ P.ko (k + 1) ≠ P.ko j := by
    intro j hj0 hj
    unfold refuses at hr
    unfold infoFirst at hif
    simp only at hr hif
    cases hkeep : P.keepLB with
    | true =>
      simp only [hkeep, Bool.true_and, decide_eq_false_iff_not, not_and, not_or, if_true] at hr hif
      split at hif
      · rename_i hck
        -- cur_best = k: then last_best = k as well
        have hlb : bestOf (vals.take k) = k := by
          rcases hcb with h | h
          · rw [← h]; exact hck
          · omega
        have hj' : j = k := by rcases hj with h | h <;> omega
        subst hj'
        have := hr (by omega)
        rw [hck] at this
        exact this
      · simp only [decide_eq_false_iff_not, not_or] at hif
        rcases hj with h | h <;> subst h
        · exact ⟨hif.1, hif.2.2.1⟩
        · exact ⟨hif.2.1, hif.2.2.2⟩
    | false =>
      simp only [hkeep, Bool.false_eq_true, if_false, Quirks.fixed] at hif
      rw [List.any_eq_false] at hif
      have hjk : j ≤ k := by rcases hj with h | h <;> omega
      have := hif j (by rw [List.mem_range'_1]; omega)
      simp only [Bool.or_eq_true, decide_eq_true_eq, not_or] at this
      exact ⟨fun h => this.1 h.symm, fun h => this.2 h.symm⟩
  simp only [Prot, List.mem_append, mem_epochPaths] at hq
  intro h
  rcases hq with ⟨h0, hq⟩ | ⟨h0, hq⟩
  · have := key k h0 (Or.inl rfl)
    rcases hq with rfl | rfl <;> rcases h with h | h | ⟨t, h⟩ <;>
      simp only [Params.mpath, Params.opath, Path.model.injEq, Path.optim.injEq, reduceCtorEq] at h
    · exact this.1 h.symm
    · exact this.2 h.symm
  · have := key _ h0 (Or.inr rfl)
    rcases hq with rfl | rfl <;> rcases h with h | h | ⟨t, h⟩ <;>
      simp only [Params.mpath, Params.opath, Path.model.injEq, Path.optim.injEq, reduceCtorEq] at h
    · exact this.1 h.symm
    · exact this.2 h.symm

theorem load_new_after_save (P : Params) (d0 d d' : Disk) (e : Nat) (s : St)
    (hd' : d'.files = (exec d (saveOps P d0 (e + 1) s)).files) :
    loadState P d' (e + 1) = some s := by
  simp only [loadState, hd', exec_saveOps_get, Params.mpath, Params.opath, Nat.add_one_ne_zero,
    if_false, if_true, reduceCtorEq]

/-- Everything before the data row is written: `save`, `open`, and (first update only) the header
line. `k` epochs stay recorded, last and best stay loadable. -/
theorem before_row {P : Params} {vals : List (Option Int)} {tr : Train} {d : Disk} {k : Nat}
    (hrec : RecAt P vals tr d k) (hk : k < vals.length) (hs : SafeAt P vals k) (s : St) (i : Nat)
    (hi : i < 8 + (histOps Quirks.fixed d (k + 1)).length) :
    RecAt P vals tr (exec d ((saveOps P d (k + 1) s ++ histOps Quirks.fixed d (k + 1)).take i)) k := by
  have hframe : ∀ j, RecAt P vals tr (exec d ((saveOps P d (k + 1) s ++ [FsOp.openAppend]).take j)) k := by
    intro j
    apply RecAt_frame hrec
    intro op hop
    have hsv := safe_save P d (k + 1) s op (List.mem_of_mem_take hop)
    exact ⟨hsv.1, fun q hq ht => new_not_prot hk hs hq (hsv.2 q ht)⟩
  have hlen : (saveOps P d (k + 1) s ++ [FsOp.openAppend]).length = 9 := by simp [saveOps]
  by_cases hwh : writeHeader Quirks.fixed d = true
  · have hh : histOps Quirks.fixed d (k + 1) = [.openAppend, .hwrite .header, .hwrite (.row (k + 1))] := by
      simp [histOps, histLines, hwh]
    rw [hh] at hi ⊢
    have hsplit : saveOps P d (k + 1) s ++ [FsOp.openAppend, .hwrite .header, .hwrite (.row (k + 1))] =
        (saveOps P d (k + 1) s ++ [FsOp.openAppend]) ++ [.hwrite .header, .hwrite (.row (k + 1))] := by
      simp
    rw [hsplit]
    by_cases h9 : i ≤ 9
    · rw [List.take_append_of_le_length (by omega)]
      exact hframe i
    · have hi10 : i = 10 := by simp at hi; omega
      subst hi10
      rw [List.take_append, List.take_of_length_le (by omega), hlen]
      simp only [Nat.reduceSub, List.take_succ_cons, List.take_zero]
      rw [exec_append, exec_cons, exec_nil]
      have h9' := hframe 9
      rw [List.take_of_length_le (by omega)] at h9'
      apply RecAt_hwrite_header h9'
      obtain ⟨_, _, hc, _⟩ := exec_frame (fun _ => False) (saveOps P d (k + 1) s ++ [FsOp.openAppend]) d
        (fun op hop => ⟨(safe_save P d (k + 1) s op hop).1, fun _ h => h.elim⟩)
      rw [hc]
      exact (writeHeader_iff d).1 hwh
  · have hh : histOps Quirks.fixed d (k + 1) = [.openAppend, .hwrite (.row (k + 1))] := by
      simp [histOps, histLines, hwh]
    rw [hh] at hi ⊢
    have hsplit : saveOps P d (k + 1) s ++ [FsOp.openAppend, .hwrite (.row (k + 1))] =
        (saveOps P d (k + 1) s ++ [FsOp.openAppend]) ++ [.hwrite (.row (k + 1))] := by
      simp
    rw [hsplit, List.take_append_of_le_length (by simp at hi; omega)]
    exact hframe i

/-- After the data row: `k+1` epochs are recorded; removals of the clean-up set (any part of it, in
any order, any number of them) do not touch what `Rec` looks at. -/
theorem after_row {P : Params} {vals : List (Option Int)} {tr : Train} {d : Disk} {k : Nat}
    (hrec : RecAt P vals tr d k) (hk : k < vals.length) (hs : SafeAt P vals k) (hsep : Sep P vals k)
    (cl' : List Path) (hcl : ∀ p ∈ cl', p ∈ cleanSet P vals k d) (m : Nat) :
    RecAt P vals tr (exec (exec d (saveOps P d (k + 1) (U tr (k + 1)) ++ histOps Quirks.fixed d (k + 1)))
      ((cl'.map FsOp.remove).take m)) (k + 1) := by
  have hb := bestOf_take_le vals k
  have hd10 : exec d (saveOps P d (k + 1) (U tr (k + 1)) ++ histOps Quirks.fixed d (k + 1)) =
      { exec d (saveOps P d (k + 1) (U tr (k + 1))) with
        csv := some (d.csv.getD [] ++ histLines Quirks.fixed d (k + 1)) } := by
    rw [exec_append, exec_histOps, exec_saveOps_csv]
  rw [hd10]
  obtain ⟨h1r, h2r, h3r, h4r, h5r⟩ := hrec
  obtain ⟨hr', hh'⟩ := recorded_after_hist (f := d.files)
    (f' := (exec d (saveOps P d (k + 1) (U tr (k + 1)))).files) (c := d.csv) (k := k) h1r h2r
  have hnew : ∀ d' : Disk, d'.files = (exec d (saveOps P d (k + 1) (U tr (k + 1)))).files →
      loadState P d' (k + 1) = some (U tr (k + 1)) :=
    fun d' hd' => load_new_after_save P d d d' k _ hd'
  -- the previous best is not overwritten by the save
  have hold : ∀ d' : Disk, d'.files = (exec d (saveOps P d (k + 1) (U tr (k + 1)))).files →
      loadState P d' (bestOf (vals.take k)) = loadState P d (bestOf (vals.take k)) := by
    intro d' hd'
    apply loadState_congr
    intro q hq
    have hnp := new_not_prot hk hs (q := q) (List.mem_append_right _ hq)
    simp only [not_or, not_exists] at hnp
    rw [hd', exec_saveOps_get, if_neg hnp.2.1, if_neg hnp.1,
      if_neg (by rintro (h | h); exact hnp.2.2 _ h; exact hnp.2.2 _ h)]
  have hrec10 : RecAt P vals tr
      { exec d (saveOps P d (k + 1) (U tr (k + 1))) with
        csv := some (d.csv.getD [] ++ histLines Quirks.fixed d (k + 1)) } (k + 1) := by
    refine ⟨hr', hh', hk, hnew _ rfl, ?_⟩
    rcases bestOf_take_succ vals k hk with hcb | hcb
    · rw [hcb]; exact (hold _ rfl).trans h5r
    · rw [hcb]; exact hnew _ rfl
  apply RecAt_frame hrec10
  intro op hop
  have hop' := List.mem_of_mem_take hop
  rw [List.mem_map] at hop'
  obtain ⟨p, hp, rfl⟩ := hop'
  obtain ⟨hkeep, hcb, _, hn1, hn2, hpc⟩ := (mem_cleanSet_iff P vals k d p).1 (hcl p hp)
  refine ⟨fun h => h, ?_⟩
  intro q hq ht
  simp only [touches] at ht
  subst ht
  simp only [Prot, List.mem_append, mem_epochPaths] at hq
  rcases hq with ⟨_, hq⟩ | ⟨hcb0, hq⟩
  · rcases hq with hq | hq
    · exact hn1 hq
    · exact hn2 hq
  · rcases bestOf_take_succ vals k hk with hcbe | hcbe
    · -- the best epoch did not change: it is not epoch `k`, so `Sep` keeps its names apart from `k`'s
      rw [hcbe] at hq hcb
      have hsep' := hsep hkeep (fun h => hcb h)
      rcases hpc with hpc | hpc | ⟨hne, _⟩
      · subst hpc
        rcases hq with hq | hq <;>
          simp only [Params.mpath, Params.opath, Path.model.injEq, reduceCtorEq] at hq
        exact hsep'.1 hq
      · subst hpc
        rcases hq with hq | hq <;>
          simp only [Params.mpath, Params.opath, Path.optim.injEq, reduceCtorEq] at hq
        exact hsep'.2 hq
      · exact hne hcbe.symm
    · rw [hcbe] at hq
      rcases hq with hq | hq
      · exact hn1 hq
      · exact hn2 hq

theorem step_main {P : Params} {vals : List (Option Int)} {tr : Train} {d : Disk} {k : Nat}
    (hrec : RecAt P vals tr d k) (hk : k < vals.length) (hs : SafeAt P vals k) (hsep : Sep P vals k)
    (cl' : List Path) (hcl : ∀ p ∈ cl', p ∈ cleanSet P vals k d) (i : Nat) :
    (i < 8 + (histOps Quirks.fixed d (k + 1)).length →
      RecAt P vals tr (exec d ((opsOf (saveOps P d (k + 1) (U tr (k + 1)) ++
        histOps Quirks.fixed d (k + 1)) cl').take i)) k) ∧
    (8 + (histOps Quirks.fixed d (k + 1)).length ≤ i →
      RecAt P vals tr (exec d ((opsOf (saveOps P d (k + 1) (U tr (k + 1)) ++
        histOps Quirks.fixed d (k + 1)) cl').take i)) (k + 1)) := by
  have hlen : (saveOps P d (k + 1) (U tr (k + 1)) ++ histOps Quirks.fixed d (k + 1)).length =
      8 + (histOps Quirks.fixed d (k + 1)).length := by simp [saveOps]; omega
  constructor
  · intro hi
    rw [opsOf, List.take_append_of_le_length (by omega)]
    exact before_row hrec hk hs _ i hi
  · intro hi
    rw [opsOf, List.take_append, List.take_of_length_le (by omega), exec_append]
    exact after_row hrec hk hs hsep cl' hcl _

theorem plan_of_safe {P : Params} {vals : List (Option Int)} {k : Nat} (hs : SafeAt P vals k) {d : Disk}
    {s : St} {main : List FsOp} {cl : List Path}
    (h : planUpdate Quirks.fixed P vals k d s = .ok (main, cl)) :
    main = saveOps P d (k + 1) s ++ histOps Quirks.fixed d (k + 1) ∧ cl = cleanSet P vals k d := by
  rw [plan_safe hs] at h
  injection h with h
  injection h with h1 h2
  exact ⟨h1.symm, h2.symm⟩

/-! ## a `torch.save` that stops half-way -/

theorem prot_not_tmp {P : Params} {k b : Nat} {q : Path} (hq : Prot P k b q) (t : Nat) : q ≠ .tmp t := by
  simp only [Prot, List.mem_append, mem_epochPaths] at hq
  rcases hq with ⟨_, hq | hq⟩ | ⟨_, hq | hq⟩ <;> subst hq <;> simp [Params.mpath, Params.opath]

theorem RecAt_write_tmp {P : Params} {vals : List (Option Int)} {tr : Train} {d : Disk} {k : Nat}
    (h : RecAt P vals tr d k) (t : Nat) (c : Content) : RecAt P vals tr (exec1 d (.write t c)) k := by
  have := RecAt_frame h [.write t c] (by
    intro op hop
    simp only [List.mem_cons, List.not_mem_nil, or_false] at hop
    subst hop
    exact ⟨fun h => h, fun q hq ht => prot_not_tmp hq t ht⟩)
  exact this

theorem tearW_some {op op' : FsOp} (h : tearW op = some op') : ∃ t, op' = .write t .torn := by
  cases op <;> simp [tearW] at h
  exact ⟨_, h.symm⟩

theorem tornDisk_tearW (d : Disk) (ops : List FsOp) (i : Nat) :
    tornDisk tearW d ops i = exec d (ops.take i) ∨
      ∃ t, tornDisk tearW d ops i = exec1 (exec d (ops.take i)) (.write t .torn) := by
  unfold tornDisk
  cases h : (ops[i]?).bind tearW with
  | none => exact Or.inl rfl
  | some op' =>
    rw [Option.bind_eq_some_iff] at h
    obtain ⟨op, _, h⟩ := h
    obtain ⟨t, rfl⟩ := tearW_some h
    exact Or.inr ⟨t, rfl⟩

theorem RecAt_tornW {P : Params} {vals : List (Option Int)} {tr : Train} {d : Disk} {k : Nat}
    {ops : List FsOp} {i : Nat} (h : RecAt P vals tr (exec d (ops.take i)) k) :
    RecAt P vals tr (tornDisk tearW d ops i) k := by
  rcases tornDisk_tearW d ops i with h' | ⟨t, h'⟩ <;> rw [h']
  · exact h
  · exact RecAt_write_tmp h t _

/-! ## exact directory contents after a complete crash-free update -/

theorem exec_removes_get (d : Disk) (cl : List Path) (q : Path) :
    (exec d (cl.map FsOp.remove)).files.get q = if q ∈ cl then none else d.files.get q := by
  induction cl generalizing d with
  | nil => simp [exec_nil]
  | cons p cl ih =>
    rw [List.map_cons, exec_cons, ih]
    simp only [exec1, Files.get_del, List.mem_cons]
    by_cases h1 : q ∈ cl
    · simp [h1]
    · by_cases h2 : q = p
      · simp [h2]
      · simp [h1, h2]

theorem exec_removes_csv (d : Disk) (cl : List Path) : (exec d (cl.map FsOp.remove)).csv = d.csv := by
  induction cl generalizing d with
  | nil => rfl
  | cons p cl ih => rw [List.map_cons, exec_cons, ih]; rfl

theorem exact_step {P : Params} (hi : Inj P) (hkeep : P.keepLB = true) {vals : List (Option Int)}
    {tr : Train} {d : Disk} {k : Nat} (hex : ExactLB P vals d k) (hk : k < vals.length)
    {main : List FsOp} {cl : List Path}
    (hplan : planUpdate Quirks.fixed P vals k d (U tr (k + 1)) = .ok (main, cl))
    (cl' : List Path) (hcl : ∀ p, p ∈ cl' ↔ p ∈ cl) :
    ExactLB P vals (exec d (opsOf main cl')) (k + 1) := by
  obtain ⟨hmain, hclq⟩ := plan_of_safe (hi.safeAt vals k) hplan
  subst hmain
  subst hclq
  have hb := bestOf_take_le vals k
  have hcb := bestOf_take_succ vals k hk
  intro q
  have hmem := mem_cleanSet_iff P vals k d q
  have hexq := hex q
  rw [← hcl q] at hmem
  have hfin : (exec d (opsOf (saveOps P d (k + 1) (U tr (k + 1)) ++ histOps Quirks.fixed d (k + 1)) cl')).files.get q
      = if q ∈ cl' then none else (exec d (saveOps P d (k + 1) (U tr (k + 1)))).files.get q := by
    rw [opsOf, List.append_assoc, exec_append, exec_append, exec_removes_get, exec_histOps]
  rw [hfin, exec_saveOps_get]
  simp only [List.mem_append, mem_epochPaths] at hexq ⊢
  simp only [present] at hmem
  generalize bestOf (vals.take k) = b at *
  generalize bestOf (vals.take (k + 1)) = cb at *
  have km_inj : ∀ a c, P.mpath a = P.mpath c ↔ a = c := fun a c =>
    ⟨fun h => hi.km _ _ (by simpa [Params.mpath] using h), fun h => by rw [h]⟩
  have ko_inj : ∀ a c, P.opath a = P.opath c ↔ a = c := fun a c =>
    ⟨fun h => hi.ko _ _ (by simpa [Params.opath] using h), fun h => by rw [h]⟩
  have mo : ∀ a c, P.mpath a ≠ P.opath c := fun a c => by simp [Params.mpath, Params.opath]
  have om : ∀ a c, P.opath a ≠ P.mpath c := fun a c => by simp [Params.mpath, Params.opath]
  have mt : ∀ a t, P.mpath a ≠ Path.tmp t := fun a c => by simp [Params.mpath]
  have ot : ∀ a t, P.opath a ≠ Path.tmp t := fun a c => by simp [Params.opath]
  grind

/-! ## keep everything: every recorded epoch stays loadable, crash or not -/

theorem load_old_after_save {P : Params} (hi : Inj P) (d0 d d' : Disk) (k : Nat) (s : St)
    (hd' : d'.files = (exec d (saveOps P d0 (k + 1) s)).files) (j : Nat) (hj : j ≤ k) :
    loadState P d' j = loadState P d j := by
  apply loadState_congr
  intro q hq
  rw [mem_epochPaths] at hq
  rw [hd', exec_saveOps_get]
  rcases hq.2 with rfl | rfl
  · have a : ¬ P.mpath j = P.opath (k + 1) := by simp [Params.mpath, Params.opath]
    have b : ¬ P.mpath j = P.mpath (k + 1) := by
      simp only [Params.mpath, Path.model.injEq]
      intro h; have := hi.km _ _ h; omega
    rw [if_neg a, if_neg b, if_neg (by simp [Params.mpath])]
  · have a : ¬ P.opath j = P.opath (k + 1) := by
      simp only [Params.opath, Path.optim.injEq]
      intro h; have := hi.ko _ _ h; omega
    have b : ¬ P.opath j = P.mpath (k + 1) := by simp [Params.mpath, Params.opath]
    rw [if_neg a, if_neg b, if_neg (by simp [Params.opath])]

theorem keepall_step {P : Params} (hi : Inj P) (hkeep : P.keepLB = false) {vals : List (Option Int)}
    {tr : Train} {d : Disk} {k : Nat} (hall : AllLoadable P tr d k) (i : Nat) :
    cleanSet P vals k d = [] ∧
      AllLoadable P tr (exec d ((saveOps P d (k + 1) (U tr (k + 1)) ++
        histOps Quirks.fixed d (k + 1)).take i)) k ∧
      (8 ≤ i → AllLoadable P tr (exec d ((saveOps P d (k + 1) (U tr (k + 1)) ++
        histOps Quirks.fixed d (k + 1)).take i)) (k + 1)) := by
  refine ⟨by simp [cleanSet, hkeep], ?_, ?_⟩
  · intro j hj1 hjk
    have hfr := exec_frame_files (fun q => ∃ j, j ≤ k ∧ (q = P.mpath j ∨ q = P.opath j))
      ((saveOps P d (k + 1) (U tr (k + 1)) ++ histOps Quirks.fixed d (k + 1)).take i) d (by
        intro op hop
        have hop := List.mem_of_mem_take hop
        rw [List.mem_append] at hop
        rcases hop with hop | hop
        · have hs := safe_save P d (k + 1) (U tr (k + 1)) op (List.mem_append_left _ hop)
          rintro q ⟨j', hj', hq⟩ ht
          have := hs.2 q ht
          simp only [Params.mpath, Params.opath] at hq this
          rcases hq with hq | hq <;> subst hq <;> rcases this with h | h | ⟨t, h⟩ <;>
            first
            | cases h
            | (injection h with h; first | (have := hi.km _ _ h; omega) | (have := hi.ko _ _ h; omega))
        · simp only [histOps, List.mem_cons, List.mem_map] at hop
          rcases hop with rfl | ⟨l, _, rfl⟩ <;> intro q _ ht <;> exact ht)
    rw [loadState_congr P j (fun q hq => hfr q ⟨j, hjk, ((mem_epochPaths P j q).1 hq).2⟩)]
    exact hall j hj1 hjk
  · intro h8
    have hlen : (saveOps P d (k + 1) (U tr (k + 1))).length = 8 := by simp [saveOps]
    have hfiles : (exec d ((saveOps P d (k + 1) (U tr (k + 1)) ++ histOps Quirks.fixed d (k + 1)).take i)).files =
        (exec d (saveOps P d (k + 1) (U tr (k + 1)))).files := by
      rw [List.take_append, List.take_of_length_le (by omega), exec_append, histOps_files]
    intro j hj1 hjk
    by_cases hj : j ≤ k
    · rw [load_old_after_save hi d d _ k _ hfiles j hj]
      exact hall j hj1 hj
    · have : j = k + 1 := by omega
      subst this
      exact load_new_after_save P d d _ k _ hfiles

/-! # Sessions, crash schedules, exactness, keep-everything (proofs of the property theorems) -/

/-! ## crash safety, call by call -/

/-- A checkpoint-first update never refuses. -/
theorem c16_never_refuses {P : Params} {vals : List (Option Int)} {k : Nat} (hs : SafeAt P vals k)
    (Q : Quirks) (d : Disk) (s : St) : ∃ main cl, planUpdate Q P vals k d s = .ok (main, cl) := by
  simp [planUpdate, hs.1]

/-- **Every single mutating call of every update preserves recoverability.** `d` is any disk on
which a new controller recovers (`Rec`: garbage allowed, so `d` may be the result of any number of
earlier crashes); the controller has `k` epochs recorded and saves the state `U tr (k+1)`; the
update is checkpoint-first (`SafeAt`) and the last and best epoch have different names (`Sep`);
the clean-up may run in any order and over any part `cl'` of the planned set; the process may be
killed after any number `i` of the mutating calls — each `f.write` of a history line is one. -/
theorem c16_rec_step {P : Params} (vals : List (Option Int)) (tr : Train) (d : Disk)
    (hrec : Rec P vals tr d) (k : Nat) (hk : recorded d = some k) (hlt : k < vals.length)
    (hs : SafeAt P vals k) (hsep : Sep P vals k)
    (main : List FsOp) (cl : List Path)
    (hplan : planUpdate Quirks.fixed P vals k d (tr.step (k + 1) (U tr k)) = .ok (main, cl))
    (cl' : List Path) (hcl : ∀ p ∈ cl', p ∈ cl) (i : Nat) :
    Rec P vals tr (exec d ((opsOf main cl').take i)) := by
  obtain ⟨k', hk'⟩ := hrec
  have hk' : RecAt P vals tr d k' := hk'
  have : k = k' := hk'.unique hk
  subst this
  obtain ⟨hm, hc⟩ := plan_of_safe hs hplan
  subst hm; subst hc
  have h := step_main hk' hlt hs hsep cl' hcl i
  by_cases h9 : i < 8 + (histOps Quirks.fixed d (k + 1)).length
  · exact (h.1 h9).rec
  · exact (h.2 (by omega)).rec

/-- The same when call `i` is executed half-way, PROVIDED it is not the write of a history row
(`hat`: a history line reaches the file whole or not at all): a torn `torch.save` is harmless. -/
theorem c16_rec_step_torn {P : Params} (vals : List (Option Int)) (tr : Train) (d : Disk)
    (hrec : Rec P vals tr d) (k : Nat) (hk : recorded d = some k) (hlt : k < vals.length)
    (hs : SafeAt P vals k) (hsep : Sep P vals k)
    (main : List FsOp) (cl : List Path)
    (hplan : planUpdate Quirks.fixed P vals k d (tr.step (k + 1) (U tr k)) = .ok (main, cl))
    (cl' : List Path) (hcl : ∀ p ∈ cl', p ∈ cl) (i : Nat)
    (hat : ∀ e, (opsOf main cl')[i]? ≠ some (.hwrite (.row e))) :
    Rec P vals tr (tornDisk tear d (opsOf main cl') i) := by
  have hbase := c16_rec_step vals tr d hrec k hk hlt hs hsep main cl hplan cl' hcl i
  unfold tornDisk
  cases hop : (opsOf main cl')[i]? with
  | none => simpa using hbase
  | some op =>
    have htear : tear op = tearW op := by
      cases op with
      | hwrite l =>
        cases l with
        | row e => exact absurd hop (hat e)
        | _ => rfl
      | _ => rfl
    simp only [Option.bind_some, htear]
    cases hw : tearW op with
    | none => exact hbase
    | some op' =>
      obtain ⟨t, rfl⟩ := tearW_some hw
      obtain ⟨k', hk'⟩ := hbase
      exact (RecAt_write_tmp hk' t _).rec

/-- The same for a complete update: afterwards `k+1` epochs are recorded. -/
theorem c16_rec_full {P : Params} (vals : List (Option Int)) (tr : Train) (d : Disk)
    (k : Nat) (hrec : RecAt P vals tr d k) (hlt : k < vals.length)
    (hs : SafeAt P vals k) (hsep : Sep P vals k)
    (main : List FsOp) (cl : List Path)
    (hplan : planUpdate Quirks.fixed P vals k d (tr.step (k + 1) (U tr k)) = .ok (main, cl))
    (cl' : List Path) (hcl : ∀ p ∈ cl', p ∈ cl) :
    RecAt P vals tr (exec d (opsOf main cl')) (k + 1) := by
  obtain ⟨hm, hc⟩ := plan_of_safe hs hplan
  subst hm; subst hc
  have h := step_main hrec hlt hs hsep cl' hcl
    ((opsOf (saveOps P d (k + 1) (U tr (k + 1)) ++ histOps Quirks.fixed d (k + 1)) cl').length + 11)
  rw [List.take_of_length_le (by omega)] at h
  refine h.2 ?_
  simp [histOps, histLines]
  split <;> simp <;> omega

/-! ## sessions: any sequence of crashes and restarts -/

theorem startSession_of_RecAt {P : Params} {vals : List (Option Int)} {tr : Train} {d : Disk} {k : Nat}
    (h : RecAt P vals tr d k) : startSession P d = some (k, U tr k) := by
  simp [startSession, h.1, h.2.2.2.1]

theorem updateFull_of_RecAt {P : Params} {vals : List (Option Int)} (hs : SafeFmt P vals) {tr : Train}
    {d : Disk} {k : Nat} (h : RecAt P vals tr d k) (hlt : k < vals.length) :
    ∃ d', updateFull Quirks.fixed P vals tr k (U tr k) d = .ok (d', U tr (k + 1)) ∧
      RecAt P vals tr d' (k + 1) := by
  have hp := plan_safe (hs k hlt) d (tr.step (k + 1) (U tr k))
  refine ⟨_, ?_, c16_rec_full vals tr d k h hlt (hs k hlt) (hs.sep k (by omega)) _ _ hp _ (fun _ h => h)⟩
  simp [updateFull, hp, U]

theorem runLoop_of_RecAt {P : Params} {vals : List (Option Int)} (hs : SafeFmt P vals) {tr : Train} :
    ∀ (fuel k : Nat) (d : Disk), RecAt P vals tr d k → k + fuel ≤ vals.length →
      ∃ d', runLoop Quirks.fixed P vals tr fuel k (U tr k) d = (k + fuel, U tr (k + fuel), d') ∧
        RecAt P vals tr d' (k + fuel) := by
  intro fuel
  induction fuel with
  | zero => intro k d h _; exact ⟨d, rfl, h⟩
  | succ f ih =>
    intro k d h hle
    obtain ⟨d1, hu, h1⟩ := updateFull_of_RecAt hs h (by omega)
    obtain ⟨d2, hr, h2⟩ := ih (k + 1) d1 h1 (by omega)
    refine ⟨d2, ?_, ?_⟩
    · simp only [runLoop, hu]
      rw [hr]
      have : k + 1 + f = k + (f + 1) := by omega
      rw [this]
    · have : k + 1 + f = k + (f + 1) := by omega
      rw [← this]; exact h2

/-- The update of a recoverable disk, killed anywhere (possibly inside a `torch.save`). -/
theorem updateCrashed_rec {P : Params} {vals : List (Option Int)} (hs : SafeFmt P vals) {tr : Train}
    {d : Disk} {k : Nat} (h : RecAt P vals tr d k) (hlt : k < vals.length) (i : Nat) (torn : Bool) :
    Rec P vals tr (updateCrashed Quirks.fixed P vals tr k (U tr k) d i torn) := by
  have hp := plan_safe (hs k hlt) d (tr.step (k + 1) (U tr k))
  simp only [updateCrashed, hp]
  obtain ⟨k', hk'⟩ := c16_rec_step vals tr d h.rec k h.1 hlt (hs k hlt) (hs.sep k (by omega)) _ _ hp _
    (fun _ h => h) i
  cases torn with
  | false => exact ⟨k', hk'⟩
  | true => exact (RecAt_tornW (show RecAt P vals tr _ k' from hk')).rec

/-- A session killed anywhere leaves a recoverable disk. -/
theorem c16_rec_crashSession {P : Params} (vals : List (Option Int)) (hs : SafeFmt P vals) (tr : Train)
    (d : Disk) (hrec : Rec P vals tr d) (j i : Nat) (torn : Bool) :
    Rec P vals tr (crashSession Quirks.fixed P vals tr d j i torn) := by
  obtain ⟨k, hk⟩ := hrec
  have hk : RecAt P vals tr d k := hk
  have hle : k + min j (vals.length - k) ≤ vals.length := by
    have := hk.2.2.1; omega
  obtain ⟨d', hr, h'⟩ := runLoop_of_RecAt hs (min j (vals.length - k)) k d hk hle
  simp only [crashSession, startSession_of_RecAt hk, hr]
  split
  · rename_i hlt
    exact updateCrashed_rec hs h' hlt i torn
  · exact h'.rec

theorem runToEnd_of_RecAt {P : Params} {vals : List (Option Int)} (hs : SafeFmt P vals) {tr : Train}
    {d : Disk} {k : Nat} (hk : RecAt P vals tr d k) :
    RecAt P vals tr (runToEnd Quirks.fixed P vals tr d) vals.length := by
  have hle : k + (vals.length - k) ≤ vals.length := by have := hk.2.2.1; omega
  obtain ⟨d', hr, h'⟩ := runLoop_of_RecAt hs (vals.length - k) k d hk hle
  simp only [runToEnd, startSession_of_RecAt hk, hr]
  have : k + (vals.length - k) = vals.length := by have := hk.2.2.1; omega
  rw [this] at h'
  exact h'

/-- The history file of a disk on which all `n ≥ 1` epochs are recorded. -/
theorem rowsOf_eq {rest : List Line} {es : List Nat} (h : rowsOf rest = some es) :
    rest = es.map Line.row := by
  induction rest generalizing es with
  | nil => simp [rowsOf] at h; subst h; rfl
  | cons l rest ih =>
    cases l with
    | header => simp [rowsOf] at h
    | torn => simp [rowsOf] at h
    | row x =>
      simp only [rowsOf, Option.map_eq_some_iff] at h
      obtain ⟨es', h1, h2⟩ := h
      subst h2
      rw [ih h1]; rfl

theorem csv_of_RecAt {P : Params} {vals : List (Option Int)} {tr : Train} {d : Disk} {n : Nat}
    (h : RecAt P vals tr d n) (hn : 0 < n) :
    d.csv = some (Line.header :: (List.range' 1 n).map Line.row) := by
  have hp := recorded_range (f := d.files) (c := d.csv) h.1
  have hh := h.2.1
  match hc : d.csv with
  | none =>
    rw [hc] at hp
    cases n with
    | zero => omega
    | succ m => simp [parseCsv, List.range'] at hp
  | some [] =>
    rw [hc] at hp
    cases n with
    | zero => omega
    | succ m => simp [parseCsv, List.range'] at hp
  | some (.header :: rest) =>
    rw [hc] at hp
    rw [parseCsv_header] at hp
    rw [rowsOf_eq hp]
  | some (.row _ :: _) => rw [hc] at hh; simp [csvHealthy] at hh
  | some (.torn :: _) => rw [hc] at hh; simp [csvHealthy] at hh

/-- **Resume.** Any number of sessions, each killed after any number of completed updates and any
number of mutating calls of the next one, followed by a session that runs to the end: the disk is
recoverable, all epochs are recorded, and the history file is the one of the uninterrupted run. -/
theorem c16_resume {P : Params} (vals : List (Option Int)) (hs : SafeFmt P vals) (tr : Train) (d : Disk)
    (hrec : Rec P vals tr d) (sched : List (Nat × Nat × Bool)) :
    RecAt P vals tr (faulty Quirks.fixed P vals tr d sched) vals.length := by
  induction sched generalizing d with
  | nil =>
    obtain ⟨k, hk⟩ := hrec
    have hk : RecAt P vals tr d k := hk
    exact runToEnd_of_RecAt hs hk
  | cons x rest ih =>
    obtain ⟨j, i, torn⟩ := x
    exact ih _ (c16_rec_crashSession vals hs tr d hrec j i torn)

theorem Rec_blank (P : Params) (vals : List (Option Int)) (tr : Train) : RecAt P vals tr Disk.blank 0 := by
  refine ⟨rfl, rfl, Nat.zero_le _, rfl, ?_⟩
  simp [bestOf, bestSt, loadState, U]

/-- The history file after any crash/restart sequence equals the uninterrupted run's. -/
theorem c16_resume_history {P : Params} (vals : List (Option Int)) (hs : SafeFmt P vals) (tr : Train)
    (hn : 0 < vals.length) (sched : List (Nat × Nat × Bool)) :
    (faulty Quirks.fixed P vals tr Disk.blank sched).csv =
      (runToEnd Quirks.fixed P vals tr Disk.blank).csv := by
  have a := c16_resume vals hs tr Disk.blank (Rec_blank P vals tr).rec sched
  have b := c16_resume vals hs tr Disk.blank (Rec_blank P vals tr).rec []
  rw [csv_of_RecAt a hn]
  have : faulty Quirks.fixed P vals tr Disk.blank [] = runToEnd Quirks.fixed P vals tr Disk.blank := rfl
  rw [this] at b
  rw [csv_of_RecAt b hn]

/-! ## exactness of the directory in crash-free runs (keep last and best only) -/

/-- One complete update, clean-up in any order: if the directory held exactly the files of the
last and best epoch before, it does so afterwards. -/
theorem c16_exact_step {P : Params} (hi : Inj P) (hkeep : P.keepLB = true) (vals : List (Option Int))
    (tr : Train) (d : Disk) (k : Nat) (hex : ExactLB P vals d k) (hk : k < vals.length)
    (main : List FsOp) (cl : List Path)
    (hplan : planUpdate Quirks.fixed P vals k d (tr.step (k + 1) (U tr k)) = .ok (main, cl))
    (cl' : List Path) (hcl : ∀ p, p ∈ cl' ↔ p ∈ cl) :
    ExactLB P vals (exec d (opsOf main cl')) (k + 1) :=
  exact_step hi hkeep hex hk (show planUpdate Quirks.fixed P vals k d (U tr (k + 1)) = _ from hplan) cl' hcl

theorem ExactLB_blank (P : Params) (vals : List (Option Int)) : ExactLB P vals Disk.blank 0 := by
  intro q
  simp [Disk.blank, Files.get, epochPaths, bestOf, bestSt]

theorem runLoop_exact {P : Params} (hi : Inj P) (hkeep : P.keepLB = true) {vals : List (Option Int)}
    {tr : Train} :
    ∀ (fuel k : Nat) (d : Disk), RecAt P vals tr d k → ExactLB P vals d k → k + fuel ≤ vals.length →
      ∃ d', runLoop Quirks.fixed P vals tr fuel k (U tr k) d = (k + fuel, U tr (k + fuel), d') ∧
        RecAt P vals tr d' (k + fuel) ∧ ExactLB P vals d' (k + fuel) := by
  intro fuel
  induction fuel with
  | zero => intro k d h he _; exact ⟨d, rfl, h, he⟩
  | succ f ih =>
    intro k d h he hle
    have hp := plan_safe (hi.safeAt vals k) d (tr.step (k + 1) (U tr k))
    have h1 := c16_rec_full vals tr d k h (by omega) (hi.safeAt vals k) (hi.sep vals k) _ _ hp _ (fun _ h => h)
    have he1 := c16_exact_step hi hkeep vals tr d k he (by omega) _ _ hp _ (fun _ => Iff.rfl)
    obtain ⟨d2, hr, h2, he2⟩ := ih (k + 1) _ h1 he1 (by omega)
    have hu : updateFull Quirks.fixed P vals tr k (U tr k) d =
        .ok (exec d (opsOf (saveOps P d (k + 1) (tr.step (k + 1) (U tr k)) ++ histOps Quirks.fixed d (k + 1))
          (cleanSet P vals k d)), U tr (k + 1)) := by
      simp [updateFull, hp, U]
    have e : k + 1 + f = k + (f + 1) := by omega
    refine ⟨d2, ?_, ?_, ?_⟩
    · simp only [runLoop, hu]; rw [hr, e]
    · rw [← e]; exact h2
    · rw [← e]; exact he2

/-- **Last-and-best only, no crash:** after every completed update `j` of a run that starts on an
empty directory, the directory holds exactly the files of the last and of the best epoch. -/
theorem c16_exact_nocrash {P : Params} (hi : Inj P) (hkeep : P.keepLB = true) (vals : List (Option Int))
    (tr : Train) (j : Nat) (hj : j ≤ vals.length) :
    ∃ d, runLoop Quirks.fixed P vals tr j 0 (U tr 0) Disk.blank = (j, U tr j, d) ∧
      ExactLB P vals d j ∧ RecAt P vals tr d j := by
  obtain ⟨d, h1, h2, h3⟩ := runLoop_exact hi hkeep j 0 Disk.blank (Rec_blank P vals tr) (ExactLB_blank P vals)
    (by omega)
  rw [Nat.zero_add] at h1 h2 h3
  exact ⟨d, h1, h3, h2⟩

/-! ## keep everything: every recorded epoch stays loadable — with or without crashes -/

/-- Every single mutating call of a keep-everything update preserves `RecAll`. -/
theorem c16_keepall_step {P : Params} (hi : Inj P) (hkeep : P.keepLB = false) (vals : List (Option Int))
    (tr : Train) (d : Disk) (k : Nat) (h : RecAll P vals tr d k) (hlt : k < vals.length)
    (main : List FsOp) (cl : List Path)
    (hplan : planUpdate Quirks.fixed P vals k d (tr.step (k + 1) (U tr k)) = .ok (main, cl)) (i : Nat) :
    ∃ k', RecAll P vals tr (exec d ((opsOf main cl).take i)) k' := by
  obtain ⟨hm, hc⟩ := plan_of_safe (hi.safeAt vals k) hplan
  subst hm; subst hc
  have a := step_main h.1 hlt (hi.safeAt vals k) (hi.sep vals k) _ (fun _ h => h) i
  have b := keepall_step (vals := vals) hi hkeep h.2 i
  rw [b.1] at a ⊢
  simp only [opsOf, List.map_nil, List.append_nil] at a ⊢
  by_cases h9 : i < 8 + (histOps Quirks.fixed d (k + 1)).length
  · exact ⟨k, a.1 h9, b.2.1⟩
  · exact ⟨k + 1, a.2 (by omega), b.2.2 (by omega)⟩

theorem keepall_full {P : Params} (hi : Inj P) (hkeep : P.keepLB = false) {vals : List (Option Int)}
    {tr : Train} {d : Disk} {k : Nat} (h : RecAll P vals tr d k) (hlt : k < vals.length) :
    RecAll P vals tr (exec d (opsOf (saveOps P d (k + 1) (tr.step (k + 1) (U tr k)) ++
      histOps Quirks.fixed d (k + 1)) (cleanSet P vals k d))) (k + 1) := by
  have hp := plan_safe (hi.safeAt vals k) d (tr.step (k + 1) (U tr k))
  have h1 := c16_rec_full vals tr d k h.1 hlt (hi.safeAt vals k) (hi.sep vals k) _ _ hp _ (fun _ h => h)
  refine ⟨h1, ?_⟩
  have b := keepall_step (vals := vals) hi hkeep h.2
    ((saveOps P d (k + 1) (U tr (k + 1)) ++ histOps Quirks.fixed d (k + 1)).length + 8)
  rw [List.take_of_length_le (by omega)] at b
  rw [b.1]
  simp only [opsOf, List.map_nil, List.append_nil]
  exact b.2.2 (by omega)

theorem runLoop_keepall {P : Params} (hi : Inj P) (hkeep : P.keepLB = false) {vals : List (Option Int)}
    {tr : Train} :
    ∀ (fuel k : Nat) (d : Disk), RecAll P vals tr d k → k + fuel ≤ vals.length →
      ∃ d', runLoop Quirks.fixed P vals tr fuel k (U tr k) d = (k + fuel, U tr (k + fuel), d') ∧
        RecAll P vals tr d' (k + fuel) := by
  intro fuel
  induction fuel with
  | zero => intro k d h _; exact ⟨d, rfl, h⟩
  | succ f ih =>
    intro k d h hle
    have hp := plan_safe (hi.safeAt vals k) d (tr.step (k + 1) (U tr k))
    obtain ⟨d2, hr, h2⟩ := ih (k + 1) _ (keepall_full hi hkeep h (by omega)) (by omega)
    have hu : updateFull Quirks.fixed P vals tr k (U tr k) d =
        .ok (exec d (opsOf (saveOps P d (k + 1) (tr.step (k + 1) (U tr k)) ++ histOps Quirks.fixed d (k + 1))
          (cleanSet P vals k d)), U tr (k + 1)) := by
      simp [updateFull, hp, U]
    have e : k + 1 + f = k + (f + 1) := by omega
    refine ⟨d2, ?_, ?_⟩
    · simp only [runLoop, hu]; rw [hr, e]
    · rw [← e]; exact h2

theorem RecAll_blank (P : Params) (vals : List (Option Int)) (tr : Train) : RecAll P vals tr Disk.blank 0 :=
  ⟨Rec_blank P vals tr, fun j h1 h0 => by omega⟩

theorem AllLoadable_write_tmp {P : Params} {tr : Train} {d : Disk} {k : Nat} (h : AllLoadable P tr d k)
    (t : Nat) (c : Content) : AllLoadable P tr (exec1 d (.write t c)) k := by
  intro j h1 hk
  rw [loadState_congr P j (fun q hq => exec1_get d (.write t c) q (by
    simp only [touches]
    rw [mem_epochPaths] at hq
    rcases hq.2 with rfl | rfl <;> simp [Params.mpath, Params.opath]))]
  exact h j h1 hk

/-- **Keep everything:** after any number of killed sessions and a final one that runs to the end,
every epoch `1..n` is loadable with exactly the state saved for it. -/
theorem c16_keepall_loadable {P : Params} (hi : Inj P) (hkeep : P.keepLB = false) (vals : List (Option Int))
    (tr : Train) (sched : List (Nat × Nat × Bool)) :
    AllLoadable P tr (faulty Quirks.fixed P vals tr Disk.blank sched) vals.length := by
  suffices h : ∀ (d : Disk) (k : Nat), RecAll P vals tr d k →
      RecAll P vals tr (faulty Quirks.fixed P vals tr d sched) vals.length from
    (h Disk.blank 0 (RecAll_blank P vals tr)).2
  induction sched with
  | nil =>
    intro d k hk
    have hle : k + (vals.length - k) ≤ vals.length := by have := hk.1.2.2.1; omega
    obtain ⟨d', hr, h'⟩ := runLoop_keepall hi hkeep (vals.length - k) k d hk hle
    have : k + (vals.length - k) = vals.length := by have := hk.1.2.2.1; omega
    rw [this] at h' hr
    simp only [faulty, runToEnd, startSession_of_RecAt hk.1, hr]
    exact h'
  | cons x rest ih =>
    intro d k hk
    obtain ⟨j, i, torn⟩ := x
    have hle : k + min j (vals.length - k) ≤ vals.length := by have := hk.1.2.2.1; omega
    obtain ⟨d', hr, h'⟩ := runLoop_keepall hi hkeep (min j (vals.length - k)) k d hk hle
    simp only [faulty, crashSession, startSession_of_RecAt hk.1, hr]
    split
    · rename_i hlt
      have hp := plan_safe (hi.safeAt vals (k + min j (vals.length - k))) d'
        (tr.step (k + min j (vals.length - k) + 1) (U tr (k + min j (vals.length - k))))
      obtain ⟨k', hk'⟩ := c16_keepall_step hi hkeep vals tr d' _ h' hlt _ _ hp i
      simp only [updateCrashed, hp]
      cases torn with
      | false => exact ih _ k' hk'
      | true =>
        simp only [if_true]
        rcases tornDisk_tearW d' (opsOf (saveOps P d' (k + min j (vals.length - k) + 1)
            (tr.step (k + min j (vals.length - k) + 1) (U tr (k + min j (vals.length - k)))) ++
            histOps Quirks.fixed d' (k + min j (vals.length - k) + 1))
            (cleanSet P vals (k + min j (vals.length - k)) d')) i with h'' | ⟨t, h''⟩ <;> rw [h'']
        · exact ih _ k' hk'
        · exact ih _ k' ⟨RecAt_write_tmp hk'.1 t _, AllLoadable_write_tmp hk'.2 t _⟩
    · exact ih _ _ h'


end PdtVerif.Checkpoint
