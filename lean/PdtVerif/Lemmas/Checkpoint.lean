import PdtVerif.Spec.Recoverable
/-!
# Lemmas for C16: association-list files, frame reasoning for `exec`, the history file
-/
namespace PdtVerif.Checkpoint

/-! ## files -/

theorem Files.get_del (fs : Files) (p q : Path) :
    (Files.del fs p).get q = if q = p then none else fs.get q := by
  induction fs with
  | nil => simp [Files.del, Files.get]
  | cons x fs ih =>
    obtain ⟨a, c⟩ := x
    by_cases hap : a = p
    · subst hap
      have : Files.del ((a, c) :: fs) a = Files.del fs a := by simp [Files.del]
      rw [this, ih]
      by_cases hq : q = a
      · simp [hq]
      · have : ¬ a = q := fun h => hq h.symm
        simp [hq, Files.get, this]
    · have : Files.del ((a, c) :: fs) p = (a, c) :: Files.del fs p := by
        simp [Files.del, hap]
      rw [this]
      by_cases haq : a = q
      · subst haq
        simp [Files.get, hap]
      · simp only [Files.get, haq, if_false]
        exact ih

theorem Files.get_set (fs : Files) (p q : Path) (c : Content) :
    (Files.set fs p c).get q = if q = p then some c else fs.get q := by
  unfold Files.set
  by_cases h : q = p
  · subst h; simp [Files.get]
  · have : ¬ p = q := fun h' => h h'.symm
    simp only [Files.get, this, if_false, h]
    rw [Files.get_del]; simp [h]

/-! ## which paths an operation can change -/

def touches : FsOp → Path → Prop
  | .mktemp t, q => q = .tmp t
  | .write t _, q => q = .tmp t
  | .replace t dst, q => q = .tmp t ∨ q = dst
  | .remove p, q => q = p
  | _, _ => False

def isFlush : FsOp → Prop
  | .flush _ => True
  | _ => False

theorem exec1_get (d : Disk) (op : FsOp) (q : Path) (h : ¬ touches op q) :
    (exec1 d op).files.get q = d.files.get q := by
  cases op with
  | mkdirs => rfl
  | mktemp t => simp only [touches] at h; simp [exec1, Files.get_set, h]
  | write t c => simp only [touches] at h; simp [exec1, Files.get_set, h]
  | replace t dst =>
    simp only [touches, not_or] at h
    simp only [exec1]
    split
    · simp [Files.get_set, Files.get_del, h.1, h.2]
    · rfl
  | openAppend => rfl
  | flush ls => rfl
  | remove p => simp only [touches] at h; simp [exec1, Files.get_del, h]

theorem parseCsv_getD (c : Option (List Line)) : parseCsv (some (c.getD [])) = parseCsv c := by
  cases c with
  | none => rfl
  | some l => rfl

theorem csvHealthy_getD (c : Option (List Line)) : csvHealthy (some (c.getD [])) = csvHealthy c := by
  cases c with
  | none => rfl
  | some l => rfl

theorem exec1_csv (d : Disk) (op : FsOp) (h : ¬ isFlush op) :
    parseCsv (exec1 d op).csv = parseCsv d.csv ∧ csvHealthy (exec1 d op).csv = csvHealthy d.csv := by
  cases op with
  | flush ls => exact absurd trivial h
  | openAppend => exact ⟨parseCsv_getD _, csvHealthy_getD _⟩
  | replace t dst => simp only [exec1]; split <;> exact ⟨rfl, rfl⟩
  | _ => exact ⟨rfl, rfl⟩

theorem exec_append (d : Disk) (a b : List FsOp) : exec d (a ++ b) = exec (exec d a) b := by
  simp [exec, List.foldl_append]

theorem exec_cons (d : Disk) (a : FsOp) (b : List FsOp) : exec d (a :: b) = exec (exec1 d a) b := rfl

theorem exec_nil (d : Disk) : exec d [] = d := rfl

/-- Frame: operations that are not `flush` and touch no path of `S` leave the parsed history, its
health and every file of `S` as they were. -/
theorem exec_frame (S : Path → Prop) (ops : List FsOp) (d : Disk)
    (h : ∀ op ∈ ops, ¬ isFlush op ∧ ∀ q, S q → ¬ touches op q) :
    parseCsv (exec d ops).csv = parseCsv d.csv ∧ csvHealthy (exec d ops).csv = csvHealthy d.csv ∧
      ∀ q, S q → (exec d ops).files.get q = d.files.get q := by
  induction ops generalizing d with
  | nil => exact ⟨rfl, rfl, fun _ _ => rfl⟩
  | cons op ops ih =>
    have h1 := h op (List.mem_cons_self ..)
    have h2 : ∀ op' ∈ ops, ¬ isFlush op' ∧ ∀ q, S q → ¬ touches op' q :=
      fun op' hm => h op' (List.mem_cons_of_mem _ hm)
    obtain ⟨a, b, c⟩ := ih (exec1 d op) h2
    obtain ⟨a1, b1⟩ := exec1_csv d op h1.1
    refine ⟨by rw [exec_cons, a, a1], by rw [exec_cons, b, b1], fun q hq => ?_⟩
    rw [exec_cons, c q hq, exec1_get d op q (h1.2 q hq)]

theorem recorded_congr {d d' : Disk} (h : parseCsv d'.csv = parseCsv d.csv) : recorded d' = recorded d := by
  simp [recorded, h]

theorem loadState_congr (P : Params) {d d' : Disk} (e : Nat)
    (hm : d'.files.get (P.mpath e) = d.files.get (P.mpath e))
    (ho : d'.files.get (P.opath e) = d.files.get (P.opath e)) :
    loadState P d' e = loadState P d e := by
  simp [loadState, hm, ho]

/-! ## `Rec` with the number of recorded epochs named -/

theorem RecAt.rec {P : Params} {vals : List (Option Int)} {tr : Train} {d : Disk} {k : Nat}
    (h : RecAt P vals tr d k) : Rec P vals tr d := ⟨k, h⟩

theorem RecAt.unique {P : Params} {vals : List (Option Int)} {tr : Train} {d : Disk} {k k' : Nat}
    (h : RecAt P vals tr d k) (h' : recorded d = some k') : k' = k := by
  have := h.1; rw [h'] at this; exact Option.some.inj this

/-- The files `Rec` looks at when `k` epochs are recorded and `b` is the best of them. -/
def Prot (P : Params) (k b : Nat) (q : Path) : Prop :=
  q = P.mpath k ∨ q = P.opath k ∨ q = P.mpath b ∨ q = P.opath b

theorem RecAt_frame {P : Params} {vals : List (Option Int)} {tr : Train} {d : Disk} {k : Nat}
    (h : RecAt P vals tr d k) (ops : List FsOp)
    (hs : ∀ op ∈ ops, ¬ isFlush op ∧ ∀ q, Prot P k (bestOf (vals.take k)) q → ¬ touches op q) :
    RecAt P vals tr (exec d ops) k := by
  obtain ⟨a, b, c⟩ := exec_frame (Prot P k (bestOf (vals.take k))) ops d hs
  obtain ⟨h1, h2, h3, h4, h5⟩ := h
  refine ⟨by rw [recorded_congr a]; exact h1, by rw [b]; exact h2, h3, ?_, ?_⟩
  · rw [loadState_congr P k (c _ (Or.inl rfl)) (c _ (Or.inr (Or.inl rfl)))]; exact h4
  · rw [loadState_congr P _ (c _ (Or.inr (Or.inr (Or.inl rfl)))) (c _ (Or.inr (Or.inr (Or.inr rfl))))]
    exact h5

/-! ## `get_best_epoch` -/

theorem bestSt_snoc (vals : List (Option Int)) (v : Option Int) :
    bestSt (vals ++ [v]) = bestStep (bestSt vals) v := by
  simp [bestSt, List.foldl_append]

theorem foldl_bestStep_n (vals : List (Option Int)) (s : BestSt) :
    (vals.foldl bestStep s).n = s.n + vals.length := by
  induction vals generalizing s with
  | nil => rfl
  | cons v vs ih =>
    rw [List.foldl_cons, ih]
    have : (bestStep s v).n = s.n + 1 := by
      unfold bestStep; split <;> (try split) <;> rfl
    rw [this, List.length_cons]; omega

theorem foldl_bestStep_minE (vals : List (Option Int)) (s : BestSt) (h : s.minE ≤ s.n) :
    (vals.foldl bestStep s).minE ≤ (vals.foldl bestStep s).n := by
  induction vals generalizing s with
  | nil => exact h
  | cons v vs ih =>
    rw [List.foldl_cons]
    apply ih
    unfold bestStep; split <;> (try split) <;> simp <;> omega

theorem bestSt_n (vals : List (Option Int)) : (bestSt vals).n = vals.length := by
  simp [bestSt, foldl_bestStep_n]

theorem bestSt_minE_le (vals : List (Option Int)) : (bestSt vals).minE ≤ vals.length := by
  have := foldl_bestStep_minE vals ⟨0, 0, none⟩ (Nat.le_refl _)
  rw [foldl_bestStep_n] at this
  simpa [bestSt] using this

theorem bestOf_le (vals : List (Option Int)) : bestOf vals ≤ vals.length := bestSt_minE_le vals

/-- Appending an epoch either keeps the best epoch or makes the new epoch the best. -/
theorem bestOf_snoc (vals : List (Option Int)) (v : Option Int) :
    bestOf (vals ++ [v]) = bestOf vals ∨ bestOf (vals ++ [v]) = vals.length + 1 := by
  unfold bestOf
  rw [bestSt_snoc]
  have hn := bestSt_n vals
  unfold bestStep
  split <;> (try split) <;> simp [hn]

theorem bestOf_take_succ (vals : List (Option Int)) (k : Nat) (hk : k < vals.length) :
    bestOf (vals.take (k + 1)) = bestOf (vals.take k) ∨ bestOf (vals.take (k + 1)) = k + 1 := by
  rw [← List.take_append_getElem hk]
  have := bestOf_snoc (vals.take k) vals[k]
  simpa [List.length_take, Nat.min_eq_left (Nat.le_of_lt hk)] using this

theorem bestOf_take_le (vals : List (Option Int)) (k : Nat) : bestOf (vals.take k) ≤ k := by
  have := bestOf_le (vals.take k)
  simp [List.length_take] at this
  omega

/-! ## the history file -/

theorem parseCsv_header (rest : List Line) : parseCsv (some (.header :: rest)) = rowsOf rest := rfl

theorem rowsOf_snoc (rest : List Line) (e : Nat) :
    rowsOf (rest ++ [.row e]) = (rowsOf rest).map (· ++ [e]) := by
  induction rest with
  | nil => rfl
  | cons l rest ih =>
    cases l with
    | header => rfl
    | row x =>
      simp only [List.cons_append, rowsOf, ih]
      cases rowsOf rest <;> simp

/-! ## what `save` and `hist` do -/

theorem exec1_replace {d : Disk} {t : Nat} {dst : Path} {c : Content}
    (h : d.files.get (.tmp t) = some c) :
    exec1 d (.replace t dst) = { d with files := (d.files.del (.tmp t)).set dst c } := by
  simp [exec1, h]

theorem exec_saveOps (P : Params) (d0 d : Disk) (e : Nat) (s : Nat × Nat) :
    exec d (saveOps P d0 e s) =
      { d with files :=
          (((((((d.files.set (.tmp (freshTmp d0.files)) .empty).set (.tmp (freshTmp d0.files)) (.model s.1)).set
            (.tmp (freshTmp d0.files + 1)) .empty).set (.tmp (freshTmp d0.files + 1)) (.optim s.2)).del
            (.tmp (freshTmp d0.files))).set (P.mpath e) (.model s.1)).del
            (.tmp (freshTmp d0.files + 1))).set (P.opath e) (.optim s.2) } := by
  simp only [saveOps, exec, List.foldl_cons, List.foldl_nil]
  have h6 : exec1 (exec1 (exec1 (exec1 (exec1 (exec1 d .mkdirs) (.mktemp (freshTmp d0.files)))
          (.write (freshTmp d0.files) (.model s.1))) .mkdirs) (.mktemp (freshTmp d0.files + 1)))
          (.write (freshTmp d0.files + 1) (.optim s.2)) =
        { d with files := Files.set (Files.set (Files.set (Files.set d.files (.tmp (freshTmp d0.files)) .empty)
                        (.tmp (freshTmp d0.files)) (.model s.1)) (.tmp (freshTmp d0.files + 1)) .empty)
                        (.tmp (freshTmp d0.files + 1)) (.optim s.2) } := rfl
  rw [h6, exec1_replace (t := freshTmp d0.files) (c := .model s.1) (by simp [Files.get_set]),
    exec1_replace (t := freshTmp d0.files + 1) (c := .optim s.2)
      (by simp [Files.get_set, Files.get_del, Params.mpath])]

theorem exec_saveOps_get (P : Params) (d0 d : Disk) (e : Nat) (s : Nat × Nat) (q : Path) :
    (exec d (saveOps P d0 e s)).files.get q =
      if q = P.opath e then some (.optim s.2)
      else if q = P.mpath e then some (.model s.1)
      else if q = .tmp (freshTmp d0.files) ∨ q = .tmp (freshTmp d0.files + 1) then none
      else d.files.get q := by
  rw [exec_saveOps]
  simp only [Files.get_set, Files.get_del, Params.mpath, Params.opath]
  by_cases h1 : q = Path.optim (P.ko e)
  · simp [h1]
  · by_cases h2 : q = Path.model (P.km e)
    · simp [h2]
    · by_cases h3 : q = Path.tmp (freshTmp d0.files)
      · simp [h3]
      · by_cases h4 : q = Path.tmp (freshTmp d0.files + 1)
        · simp [h4]
        · simp [h1, h2, h3, h4]

theorem exec_saveOps_csv (P : Params) (d0 d : Disk) (e : Nat) (s : Nat × Nat) :
    (exec d (saveOps P d0 e s)).csv = d.csv := by
  rw [exec_saveOps]

def histLines (Q : Quirks) (d0 : Disk) (e : Nat) : List Line :=
  if writeHeader Q d0 then [.header, .row e] else [.row e]

theorem exec_histOps (Q : Quirks) (d0 d : Disk) (e : Nat) :
    exec d (histOps Q d0 e) = { d with csv := some (d.csv.getD [] ++ histLines Q d0 e) } := by
  simp [histOps, exec, exec1, histLines]

theorem recorded_range {f : Files} {c : Option (List Line)} {k : Nat} (h : recorded ⟨f, c⟩ = some k) :
    parseCsv c = some (List.range' 1 k) := by
  unfold recorded at h
  simp only at h
  split at h
  · rename_i es hes
    split at h
    · rename_i heq
      have : es.length = k := Option.some.inj h
      rw [hes, heq, this]
    · cases h
  · cases h

theorem recorded_of_parse {f : Files} {c : Option (List Line)} {k : Nat}
    (h : parseCsv c = some (List.range' 1 k)) : recorded ⟨f, c⟩ = some k := by
  simp [recorded, h]

theorem recorded_after_hist {f f' : Files} {c : Option (List Line)} {k : Nat}
    (hr : recorded ⟨f, c⟩ = some k) (hh : csvHealthy c = true) :
    recorded ⟨f', some (c.getD [] ++ histLines Quirks.fixed ⟨f, c⟩ (k + 1))⟩ = some (k + 1) ∧
      csvHealthy (some (c.getD [] ++ histLines Quirks.fixed ⟨f, c⟩ (k + 1))) = true := by
  have hp := recorded_range hr
  have hrange : List.range' 1 (k + 1) = List.range' 1 k ++ [k + 1] := by
    rw [List.range'_concat]; simp [Nat.add_comm]
  match c, hp, hh with
  | none, hp, _ =>
    have hk : k = 0 := by
      cases k with
      | zero => rfl
      | succ n => simp [parseCsv, List.range'] at hp
    subst hk
    refine ⟨recorded_of_parse ?_, rfl⟩
    simp [histLines, writeHeader, parseCsv, rowsOf, List.range']
  | some [], hp, _ =>
    have hk : k = 0 := by
      cases k with
      | zero => rfl
      | succ n => simp [parseCsv, List.range'] at hp
    subst hk
    refine ⟨recorded_of_parse ?_, rfl⟩
    simp [histLines, writeHeader, Quirks.fixed, parseCsv, rowsOf, List.range']
  | some (.header :: rest), hp, _ =>
    refine ⟨recorded_of_parse ?_, rfl⟩
    simp only [Option.getD_some, histLines, writeHeader, List.cons_append, parseCsv_header] at hp ⊢
    simp only [Bool.false_eq_true, if_false]
    rw [rowsOf_snoc, hp, hrange]; rfl
  | some (.row _ :: _), _, hh => simp [csvHealthy] at hh

/-! ## the plan of an update when file names are injective in the epoch -/

theorem plan_inj {P : Params} (hi : Inj P) {vals : List (Option Int)} {k : Nat} {d : Disk}
    {s : Nat × Nat} {main : List FsOp} {cl : List Path}
    (h : planUpdate Quirks.fixed P vals k d s = .ok (main, cl)) :
    main = saveOps P d (k + 1) s ++ histOps Quirks.fixed d (k + 1) ∧
    ∀ p ∈ cl, P.keepLB = true ∧ bestOf (vals.take (k + 1)) ≠ k ∧ present d p = true ∧
      (p = P.mpath k ∨ p = P.opath k ∨
        (bestOf (vals.take k) ≠ bestOf (vals.take (k + 1)) ∧
          (p = P.mpath (bestOf (vals.take k)) ∨ p = P.opath (bestOf (vals.take k))))) := by
  have hlb : bestOf (vals.take k) ≠ k + 1 := by
    have := bestOf_take_le vals k; omega
  have hkm1 : ¬ P.km (k + 1) = P.km k := fun h => by have := hi.km _ _ h; omega
  have hko1 : ¬ P.ko (k + 1) = P.ko k := fun h => by have := hi.ko _ _ h; omega
  have hkm2 : ¬ P.km (k + 1) = P.km (bestOf (vals.take k)) := fun h => hlb (hi.km _ _ h).symm
  have hko2 : ¬ P.ko (k + 1) = P.ko (bestOf (vals.take k)) := fun h => hlb (hi.ko _ _ h).symm
  unfold planUpdate at h
  simp only at h
  split at h
  · rename_i hkeep
    split at h
    · cases h
    · split at h
      · injection h with h
        injection h with h1 h2
        subst h1; subst h2
        exact ⟨rfl, fun p hp => by cases hp⟩
      · rename_i hne hcb
        injection h with h
        injection h with h1 h2
        subst h2
        refine ⟨?_, ?_⟩
        · rw [← h1]; simp [hkm1, hko1, hkm2, hko2]
        · intro p hp
          rw [List.mem_filter] at hp
          obtain ⟨hp1, hp2⟩ := hp
          rw [List.mem_eraseDups, List.mem_filter] at hp1
          refine ⟨hkeep, hcb, hp2, ?_⟩
          have hp3 := hp1.1
          rw [List.mem_append] at hp3
          rcases hp3 with hp3 | hp3
          · simp at hp3
            rcases hp3 with hp3 | hp3
            · exact Or.inl hp3
            · exact Or.inr (Or.inl hp3)
          · split at hp3
            · rename_i hbb
              simp at hp3
              exact Or.inr (Or.inr ⟨hbb, hp3⟩)
            · cases hp3
  · injection h with h
    injection h with h1 h2
    subst h2
    refine ⟨?_, fun p hp => by cases hp⟩
    rw [← h1]
    have : (List.range' 1 k).any (fun j => P.km j = P.km (k + 1) || P.ko j = P.ko (k + 1)) = false := by
      rw [List.any_eq_false]
      intro j hj
      rw [List.mem_range'_1] at hj
      have a : ¬ P.km j = P.km (k + 1) := fun h => by have := hi.km _ _ h; omega
      have b : ¬ P.ko j = P.ko (k + 1) := fun h => by have := hi.ko _ _ h; omega
      simp [a, b]
    simp [Quirks.fixed, this]

/-! ## one update, operation by operation -/

theorem histOps_eq (Q : Quirks) (d : Disk) (e : Nat) :
    histOps Q d e = [.openAppend, .flush (histLines Q d e)] := rfl

/-- `save` followed by opening the history file: no flush, and only temp files and the two new
paths are touched. -/
theorem safe_save (P : Params) (d0 : Disk) (e : Nat) (s : Nat × Nat) :
    ∀ op ∈ saveOps P d0 e s ++ [FsOp.openAppend],
      ¬ isFlush op ∧ ∀ q, touches op q → (q = P.mpath e ∨ q = P.opath e ∨ ∃ t, q = Path.tmp t) := by
  intro op hop
  simp only [saveOps, List.cons_append, List.nil_append, List.mem_cons,
    List.not_mem_nil, or_false] at hop
  rcases hop with h | h | h | h | h | h | h | h | h <;> subst h <;>
    simp only [isFlush, touches, not_false_eq_true, true_and, false_imp_iff, implies_true]
  · intro q hq; exact Or.inr (Or.inr ⟨_, hq⟩)
  · intro q hq; exact Or.inr (Or.inr ⟨_, hq⟩)
  · intro q hq; exact Or.inr (Or.inr ⟨_, hq⟩)
  · intro q hq; exact Or.inr (Or.inr ⟨_, hq⟩)
  · intro q hq
    rcases hq with hq | hq
    · exact Or.inr (Or.inr ⟨_, hq⟩)
    · exact Or.inl hq
  · intro q hq
    rcases hq with hq | hq
    · exact Or.inr (Or.inr ⟨_, hq⟩)
    · exact Or.inr (Or.inl hq)

theorem prot_not_new {P : Params} (hi : Inj P) {k b : Nat} (hb : b ≤ k) {q : Path}
    (hq : Prot P k b q) : ¬ (q = P.mpath (k + 1) ∨ q = P.opath (k + 1) ∨ ∃ t, q = Path.tmp t) := by
  intro h
  simp only [Prot, Params.mpath, Params.opath] at hq h
  rcases hq with hq | hq | hq | hq <;> subst hq <;> rcases h with h | h | ⟨t, h⟩ <;>
    first
    | cases h
    | (injection h with h; first | (have := hi.km _ _ h; omega) | (have := hi.ko _ _ h; omega))

theorem step_main {P : Params} (hi : Inj P) {vals : List (Option Int)} {tr : Train} {d : Disk} {k : Nat}
    (hrec : RecAt P vals tr d k) (hk : k < vals.length) {main : List FsOp} {cl : List Path}
    (hplan : planUpdate Quirks.fixed P vals k d (U tr (k + 1)) = .ok (main, cl))
    (cl' : List Path) (hcl : ∀ p ∈ cl', p ∈ cl) (i : Nat) :
    (i ≤ 9 → RecAt P vals tr (exec d ((opsOf main cl').take i)) k) ∧
    (10 ≤ i → RecAt P vals tr (exec d ((opsOf main cl').take i)) (k + 1)) := by
  obtain ⟨hmain, hclp⟩ := plan_inj hi hplan
  subst hmain
  have hb := bestOf_take_le vals k
  have hops : opsOf (saveOps P d (k + 1) (U tr (k + 1)) ++ histOps Quirks.fixed d (k + 1)) cl' =
      (saveOps P d (k + 1) (U tr (k + 1)) ++ [FsOp.openAppend]) ++
        ([FsOp.flush (histLines Quirks.fixed d (k + 1))] ++ cl'.map FsOp.remove) := by
    simp [opsOf, histOps_eq]
  have hlen : (saveOps P d (k + 1) (U tr (k + 1)) ++ [FsOp.openAppend]).length = 9 := by
    simp [saveOps]
  rw [hops]
  constructor
  · intro hi9
    rw [List.take_append_of_le_length (by omega)]
    apply RecAt_frame hrec
    intro op hop
    have hs := safe_save P d (k + 1) (U tr (k + 1)) op (List.mem_of_mem_take hop)
    exact ⟨hs.1, fun q hq ht => prot_not_new hi hb hq (hs.2 q ht)⟩
  · intro hi10
    rw [List.take_append, List.take_of_length_le (by omega), hlen]
    have h1 : i - 9 = (i - 10) + 1 := by omega
    rw [h1, List.cons_append, List.nil_append, List.take_succ_cons]
    rw [exec_append, exec_append, exec_cons]
    -- the disk after save, open, flush
    have hd10 : exec1 (exec (exec d (saveOps P d (k + 1) (U tr (k + 1)))) [FsOp.openAppend])
        (FsOp.flush (histLines Quirks.fixed d (k + 1))) =
        { exec d (saveOps P d (k + 1) (U tr (k + 1))) with
          csv := some (d.csv.getD [] ++ histLines Quirks.fixed d (k + 1)) } := by
      have := exec_histOps Quirks.fixed d (exec d (saveOps P d (k + 1) (U tr (k + 1)))) (k + 1)
      rw [histOps_eq, exec_saveOps_csv] at this
      exact this
    rw [hd10]
    obtain ⟨h1r, h2r, h3r, h4r, h5r⟩ := hrec
    obtain ⟨hr', hh'⟩ := recorded_after_hist (f := d.files)
      (f' := (exec d (saveOps P d (k + 1) (U tr (k + 1)))).files) (c := d.csv) (k := k) h1r h2r
    -- loading the new epoch
    have hnew : ∀ d' : Disk, d'.files = (exec d (saveOps P d (k + 1) (U tr (k + 1)))).files →
        loadState P d' (k + 1) = some (U tr (k + 1)) := by
      intro d' hd'
      simp only [loadState, hd', exec_saveOps_get, Params.mpath, Params.opath, Nat.add_one_ne_zero,
        if_false, if_true, reduceCtorEq]
    have hold : ∀ d' : Disk, d'.files = (exec d (saveOps P d (k + 1) (U tr (k + 1)))).files →
        ∀ j, j ≤ k → loadState P d' j = loadState P d j := by
      intro d' hd' j hj
      apply loadState_congr
      · rw [hd', exec_saveOps_get]
        have a : ¬ P.mpath j = P.opath (k + 1) := by simp [Params.mpath, Params.opath]
        have b : ¬ P.mpath j = P.mpath (k + 1) := by
          simp only [Params.mpath, Path.model.injEq]
          intro h; have := hi.km _ _ h; omega
        rw [if_neg a, if_neg b, if_neg (by simp [Params.mpath])]
      · rw [hd', exec_saveOps_get]
        have a : ¬ P.opath j = P.opath (k + 1) := by
          simp only [Params.opath, Path.optim.injEq]
          intro h; have := hi.ko _ _ h; omega
        have b : ¬ P.opath j = P.mpath (k + 1) := by simp [Params.mpath, Params.opath]
        rw [if_neg a, if_neg b, if_neg (by simp [Params.opath])]
    have hrec10 : RecAt P vals tr
        { exec d (saveOps P d (k + 1) (U tr (k + 1))) with
          csv := some (d.csv.getD [] ++ histLines Quirks.fixed d (k + 1)) } (k + 1) := by
      refine ⟨hr', hh', hk, hnew _ rfl, ?_⟩
      rcases bestOf_take_succ vals k hk with hcb | hcb
      · rw [hcb]; exact (hold _ rfl _ hb).trans h5r
      · rw [hcb]; exact hnew _ rfl
    apply RecAt_frame hrec10
    intro op hop
    have hop' := List.mem_of_mem_take hop
    rw [List.mem_map] at hop'
    obtain ⟨p, hp, rfl⟩ := hop'
    obtain ⟨_, hcb, _, hpc⟩ := hclp p (hcl p hp)
    refine ⟨fun h => h, ?_⟩
    intro q hq ht
    simp only [touches] at ht
    subst ht
    have hlb1 : bestOf (vals.take k) ≠ k + 1 := by omega
    simp only [Prot, Params.mpath, Params.opath] at hq hpc
    rcases hpc with hpc | hpc | ⟨hne, hpc | hpc⟩ <;> subst hpc <;> rcases hq with hq | hq | hq | hq <;>
      first
      | cases hq
      | (injection hq with hq
         first
         | (have := hi.km _ _ hq; omega)
         | (have := hi.ko _ _ hq; omega))

/-! ## exact directory contents after a complete crash-free update -/

theorem exec_removes_get (d : Disk) (cl : List Path) (q : Path) :
    (exec d (cl.map FsOp.remove)).files.get q = if q ∈ cl then none else d.files.get q := by
  induction cl generalizing d with
  | nil => simp [exec_nil]
  | cons p cl ih =>
    rw [List.map_cons, exec_cons, ih]
    simp only [exec1, Files.get_del, List.mem_cons]
    by_cases h1 : q ∈ cl
    · simp [h1]
    · by_cases h2 : q = p
      · simp [h2]
      · simp [h1, h2]

theorem exec_removes_csv (d : Disk) (cl : List Path) : (exec d (cl.map FsOp.remove)).csv = d.csv := by
  induction cl generalizing d with
  | nil => rfl
  | cons p cl ih => rw [List.map_cons, exec_cons, ih]; rfl

/-- The clean-up set of a keep-last-and-best update, exactly. -/
theorem plan_cl_iff {P : Params} (hkeep : P.keepLB = true) {vals : List (Option Int)} {k : Nat} {d : Disk}
    {s : Nat × Nat} {main : List FsOp} {cl : List Path}
    (h : planUpdate Quirks.fixed P vals k d s = .ok (main, cl)) (q : Path) :
    q ∈ cl ↔ (bestOf (vals.take (k + 1)) ≠ k ∧ present d q = true ∧
      q ≠ P.mpath (k + 1) ∧ q ≠ P.opath (k + 1) ∧
      (q = P.mpath k ∨ q = P.opath k ∨
        (bestOf (vals.take k) ≠ bestOf (vals.take (k + 1)) ∧
          (q = P.mpath (bestOf (vals.take k)) ∨ q = P.opath (bestOf (vals.take k)))))) := by
  unfold planUpdate at h
  simp only [hkeep, if_true] at h
  split at h
  · cases h
  · split at h
    · rename_i hcb
      injection h with h
      injection h with h1 h2
      subst h2
      simp [hcb]
    · rename_i hcb
      injection h with h
      injection h with h1 h2
      subst h2
      rw [List.mem_filter, List.mem_eraseDups, List.mem_filter, List.mem_append]
      constructor
      · rintro ⟨⟨hm, hne⟩, hp⟩
        simp only [ne_eq, decide_eq_true_eq] at hne
        refine ⟨hcb, hp, hne.1, hne.2, ?_⟩
        rcases hm with hm | hm
        · simp at hm
          rcases hm with hm | hm
          · exact Or.inl hm
          · exact Or.inr (Or.inl hm)
        · split at hm
          · rename_i hbb
            simp at hm
            exact Or.inr (Or.inr ⟨hbb, hm⟩)
          · cases hm
      · rintro ⟨_, hp, hn1, hn2, hm⟩
        refine ⟨⟨?_, by simp [hn1, hn2]⟩, hp⟩
        rcases hm with hm | hm | ⟨hbb, hm⟩
        · left; simp [hm]
        · left; simp [hm]
        · right; simp [hbb, hm]

theorem mem_epochPaths (P : Params) (e : Nat) (q : Path) :
    q ∈ epochPaths P e ↔ e ≠ 0 ∧ (q = P.mpath e ∨ q = P.opath e) := by
  unfold epochPaths
  by_cases h : e = 0
  · simp [h]
  · simp [h]

theorem exact_step {P : Params} (hi : Inj P) (hkeep : P.keepLB = true) {vals : List (Option Int)}
    {tr : Train} {d : Disk} {k : Nat} (hex : ExactLB P vals d k) (hk : k < vals.length)
    {main : List FsOp} {cl : List Path}
    (hplan : planUpdate Quirks.fixed P vals k d (U tr (k + 1)) = .ok (main, cl))
    (cl' : List Path) (hcl : ∀ p, p ∈ cl' ↔ p ∈ cl) :
    ExactLB P vals (exec d (opsOf main cl')) (k + 1) := by
  obtain ⟨hmain, _⟩ := plan_inj hi hplan
  subst hmain
  have hb := bestOf_take_le vals k
  have hcb := bestOf_take_succ vals k hk
  intro q
  have hmem := plan_cl_iff hkeep hplan q
  have hexq := hex q
  rw [← hcl q] at hmem
  have hfin : (exec d (opsOf (saveOps P d (k + 1) (U tr (k + 1)) ++ histOps Quirks.fixed d (k + 1)) cl')).files.get q
      = if q ∈ cl' then none else (exec d (saveOps P d (k + 1) (U tr (k + 1)))).files.get q := by
    rw [opsOf, List.append_assoc, exec_append, exec_append, exec_removes_get, exec_histOps]
  rw [hfin, exec_saveOps_get]
  simp only [List.mem_append, mem_epochPaths] at hexq ⊢
  simp only [present] at hmem
  generalize bestOf (vals.take k) = b at *
  generalize bestOf (vals.take (k + 1)) = cb at *
  have km_inj : ∀ a c, P.mpath a = P.mpath c ↔ a = c := fun a c =>
    ⟨fun h => hi.km _ _ (by simpa [Params.mpath] using h), fun h => by rw [h]⟩
  have ko_inj : ∀ a c, P.opath a = P.opath c ↔ a = c := fun a c =>
    ⟨fun h => hi.ko _ _ (by simpa [Params.opath] using h), fun h => by rw [h]⟩
  have mo : ∀ a c, P.mpath a ≠ P.opath c := fun a c => by simp [Params.mpath, Params.opath]
  have om : ∀ a c, P.opath a ≠ P.mpath c := fun a c => by simp [Params.mpath, Params.opath]
  have mt : ∀ a t, P.mpath a ≠ Path.tmp t := fun a c => by simp [Params.mpath]
  have ot : ∀ a t, P.opath a ≠ Path.tmp t := fun a c => by simp [Params.opath]
  grind

/-! ## keep everything: every recorded epoch stays loadable, crash or not -/

theorem load_new_after_save (P : Params) (d0 d d' : Disk) (e : Nat) (s : Nat × Nat)
    (hd' : d'.files = (exec d (saveOps P d0 (e + 1) s)).files) :
    loadState P d' (e + 1) = some s := by
  simp only [loadState, hd', exec_saveOps_get, Params.mpath, Params.opath, Nat.add_one_ne_zero,
    if_false, if_true, reduceCtorEq]

theorem load_old_after_save {P : Params} (hi : Inj P) (d0 d d' : Disk) (k : Nat) (s : Nat × Nat)
    (hd' : d'.files = (exec d (saveOps P d0 (k + 1) s)).files) (j : Nat) (hj : j ≤ k) :
    loadState P d' j = loadState P d j := by
  apply loadState_congr
  · rw [hd', exec_saveOps_get]
    have a : ¬ P.mpath j = P.opath (k + 1) := by simp [Params.mpath, Params.opath]
    have b : ¬ P.mpath j = P.mpath (k + 1) := by
      simp only [Params.mpath, Path.model.injEq]
      intro h; have := hi.km _ _ h; omega
    rw [if_neg a, if_neg b, if_neg (by simp [Params.mpath])]
  · rw [hd', exec_saveOps_get]
    have a : ¬ P.opath j = P.opath (k + 1) := by
      simp only [Params.opath, Path.optim.injEq]
      intro h; have := hi.ko _ _ h; omega
    have b : ¬ P.opath j = P.mpath (k + 1) := by simp [Params.mpath, Params.opath]
    rw [if_neg a, if_neg b, if_neg (by simp [Params.opath])]

theorem keepall_step {P : Params} (hi : Inj P) (hkeep : P.keepLB = false) {vals : List (Option Int)}
    {tr : Train} {d : Disk} {k : Nat} (hall : AllLoadable P tr d k)
    {main : List FsOp} {cl : List Path}
    (hplan : planUpdate Quirks.fixed P vals k d (U tr (k + 1)) = .ok (main, cl)) (i : Nat) :
    cl = [] ∧ (i ≤ 9 → AllLoadable P tr (exec d ((opsOf main cl).take i)) k) ∧
      (10 ≤ i → AllLoadable P tr (exec d ((opsOf main cl).take i)) (k + 1)) := by
  obtain ⟨hmain, hclp⟩ := plan_inj hi hplan
  have hcl : cl = [] := by
    rw [List.eq_nil_iff_forall_not_mem]
    intro p hp
    have := (hclp p hp).1
    rw [hkeep] at this
    cases this
  subst hcl
  subst hmain
  refine ⟨rfl, ?_, ?_⟩
  · intro h9
    have hops : opsOf (saveOps P d (k + 1) (U tr (k + 1)) ++ histOps Quirks.fixed d (k + 1)) [] =
        (saveOps P d (k + 1) (U tr (k + 1)) ++ [FsOp.openAppend]) ++
          [FsOp.flush (histLines Quirks.fixed d (k + 1))] := by
      simp [opsOf, histOps_eq]
    have hlen : (saveOps P d (k + 1) (U tr (k + 1)) ++ [FsOp.openAppend]).length = 9 := by
      simp [saveOps]
    rw [hops, List.take_append_of_le_length (by omega)]
    intro j hj1 hjk
    have hfr := exec_frame (fun q => ∃ j, j ≤ k ∧ (q = P.mpath j ∨ q = P.opath j))
      ((saveOps P d (k + 1) (U tr (k + 1)) ++ [FsOp.openAppend]).take i) d (by
        intro op hop
        have hs := safe_save P d (k + 1) (U tr (k + 1)) op (List.mem_of_mem_take hop)
        refine ⟨hs.1, ?_⟩
        rintro q ⟨j', hj', hq⟩ ht
        have := hs.2 q ht
        simp only [Params.mpath, Params.opath] at hq this
        rcases hq with hq | hq <;> subst hq <;> rcases this with h | h | ⟨t, h⟩ <;>
          first
          | cases h
          | (injection h with h; first | (have := hi.km _ _ h; omega) | (have := hi.ko _ _ h; omega)))
    rw [loadState_congr P j (hfr.2.2 _ ⟨j, hjk, Or.inl rfl⟩) (hfr.2.2 _ ⟨j, hjk, Or.inr rfl⟩)]
    exact hall j hj1 hjk
  · intro h10
    have hlen : (opsOf (saveOps P d (k + 1) (U tr (k + 1)) ++ histOps Quirks.fixed d (k + 1)) []).length = 10 := by
      simp [opsOf, saveOps, histOps]
    rw [List.take_of_length_le (by omega)]
    have hfiles : (exec d (opsOf (saveOps P d (k + 1) (U tr (k + 1)) ++ histOps Quirks.fixed d (k + 1)) [])).files =
        (exec d (saveOps P d (k + 1) (U tr (k + 1)))).files := by
      simp only [opsOf, List.map_nil, List.append_nil]
      rw [exec_append, exec_histOps]
    intro j hj1 hjk
    by_cases hj : j ≤ k
    · rw [load_old_after_save hi d d _ k _ hfiles j hj]
      exact hall j hj1 hj
    · have : j = k + 1 := by omega
      subst this
      exact load_new_after_save P d d _ k _ hfiles

/-! # Sessions, crash schedules, exactness, keep-everything (proofs of the property theorems) -/

/-! ## crash safety, operation by operation -/

/-- With epoch-keyed names the update never refuses. -/
theorem c16_never_refuses {P : Params} (hi : Inj P) (Q : Quirks) (vals : List (Option Int)) (k : Nat)
    (d : Disk) (s : Nat × Nat) : ∃ main cl, planUpdate Q P vals k d s = .ok (main, cl) := by
  unfold planUpdate
  simp only
  split
  · split
    · rename_i h
      exfalso
      obtain ⟨hne, h | h⟩ := h
      · exact hne (hi.km _ _ h).symm
      · exact hne (hi.ko _ _ h).symm
    · split <;> exact ⟨_, _, rfl⟩
  · exact ⟨_, _, rfl⟩

/-- **Every single mutating call of every update preserves recoverability.** `d` is any disk on
which a new controller recovers (`Rec`: garbage allowed, so `d` may be the result of any number of
earlier crashes); the controller has `k` epochs recorded and saves the state `U tr (k+1)`; the
clean-up may run in any order and over any part `cl'` of the planned set; the process may be killed
after any number `i` of the mutating calls. -/
theorem c16_rec_step {P : Params} (hi : Inj P) (vals : List (Option Int)) (tr : Train) (d : Disk)
    (hrec : Rec P vals tr d) (k : Nat) (hk : recorded d = some k) (hlt : k < vals.length)
    (main : List FsOp) (cl : List Path)
    (hplan : planUpdate Quirks.fixed P vals k d (tr (k + 1) (U tr k)) = .ok (main, cl))
    (cl' : List Path) (hcl : ∀ p ∈ cl', p ∈ cl) (i : Nat) :
    Rec P vals tr (exec d ((opsOf main cl').take i)) := by
  obtain ⟨k', hk'⟩ := hrec
  have hk' : RecAt P vals tr d k' := hk'
  have : k = k' := hk'.unique hk
  subst this
  have h := step_main hi hk' hlt (show planUpdate Quirks.fixed P vals k d (U tr (k + 1)) = _ from hplan)
    cl' hcl i
  by_cases h9 : i ≤ 9
  · exact (h.1 h9).rec
  · exact (h.2 (by omega)).rec

/-- The same for a complete update: afterwards `k+1` epochs are recorded. -/
theorem c16_rec_full {P : Params} (hi : Inj P) (vals : List (Option Int)) (tr : Train) (d : Disk)
    (k : Nat) (hrec : RecAt P vals tr d k) (hlt : k < vals.length)
    (main : List FsOp) (cl : List Path)
    (hplan : planUpdate Quirks.fixed P vals k d (tr (k + 1) (U tr k)) = .ok (main, cl))
    (cl' : List Path) (hcl : ∀ p ∈ cl', p ∈ cl) :
    RecAt P vals tr (exec d (opsOf main cl')) (k + 1) := by
  have h := step_main hi hrec hlt (show planUpdate Quirks.fixed P vals k d (U tr (k + 1)) = _ from hplan)
    cl' hcl ((opsOf main cl').length + 10)
  rw [List.take_of_length_le (by omega)] at h
  exact h.2 (by omega)

/-! ## sessions: any sequence of crashes and restarts -/

theorem startSession_of_RecAt {P : Params} {vals : List (Option Int)} {tr : Train} {d : Disk} {k : Nat}
    (h : RecAt P vals tr d k) : startSession P d = some (k, U tr k) := by
  simp [startSession, h.1, h.2.2.2.1]

theorem updateFull_of_RecAt {P : Params} (hi : Inj P) {vals : List (Option Int)} {tr : Train} {d : Disk}
    {k : Nat} (h : RecAt P vals tr d k) (hlt : k < vals.length) :
    ∃ d', updateFull Quirks.fixed P vals tr k (U tr k) d = .ok (d', U tr (k + 1)) ∧
      RecAt P vals tr d' (k + 1) := by
  obtain ⟨main, cl, hp⟩ := c16_never_refuses hi Quirks.fixed vals k d (tr (k + 1) (U tr k))
  refine ⟨exec d (opsOf main cl), ?_, c16_rec_full hi vals tr d k h hlt main cl hp cl (fun _ h => h)⟩
  simp [updateFull, hp, U]

theorem runLoop_of_RecAt {P : Params} (hi : Inj P) {vals : List (Option Int)} {tr : Train} :
    ∀ (fuel k : Nat) (d : Disk), RecAt P vals tr d k → k + fuel ≤ vals.length →
      ∃ d', runLoop Quirks.fixed P vals tr fuel k (U tr k) d = (k + fuel, U tr (k + fuel), d') ∧
        RecAt P vals tr d' (k + fuel) := by
  intro fuel
  induction fuel with
  | zero => intro k d h _; exact ⟨d, rfl, h⟩
  | succ f ih =>
    intro k d h hle
    obtain ⟨d1, hu, h1⟩ := updateFull_of_RecAt hi h (by omega)
    obtain ⟨d2, hr, h2⟩ := ih (k + 1) d1 h1 (by omega)
    refine ⟨d2, ?_, ?_⟩
    · simp only [runLoop, hu]
      rw [hr]
      have : k + 1 + f = k + (f + 1) := by omega
      rw [this]
    · have : k + 1 + f = k + (f + 1) := by omega
      rw [← this]; exact h2

/-- A session killed anywhere leaves a recoverable disk. -/
theorem c16_rec_crashSession {P : Params} (hi : Inj P) (vals : List (Option Int)) (tr : Train) (d : Disk)
    (hrec : Rec P vals tr d) (j i : Nat) :
    Rec P vals tr (crashSession Quirks.fixed P vals tr d j i) := by
  obtain ⟨k, hk⟩ := hrec
  have hk : RecAt P vals tr d k := hk
  have hle : k + min j (vals.length - k) ≤ vals.length := by
    have := hk.2.2.1; omega
  obtain ⟨d', hr, h'⟩ := runLoop_of_RecAt hi (min j (vals.length - k)) k d hk hle
  simp only [crashSession, startSession_of_RecAt hk, hr]
  split
  · rename_i hlt
    obtain ⟨main, cl, hp⟩ := c16_never_refuses hi Quirks.fixed vals (k + min j (vals.length - k)) d'
      (tr (k + min j (vals.length - k) + 1) (U tr (k + min j (vals.length - k))))
    simp only [updateCrashed, hp]
    exact c16_rec_step hi vals tr d' h'.rec _ h'.1 hlt main cl hp cl (fun _ h => h) i
  · exact h'.rec

theorem runToEnd_of_RecAt {P : Params} (hi : Inj P) {vals : List (Option Int)} {tr : Train} {d : Disk}
    {k : Nat} (hk : RecAt P vals tr d k) :
    RecAt P vals tr (runToEnd Quirks.fixed P vals tr d) vals.length := by
  have hle : k + (vals.length - k) ≤ vals.length := by have := hk.2.2.1; omega
  obtain ⟨d', hr, h'⟩ := runLoop_of_RecAt hi (vals.length - k) k d hk hle
  simp only [runToEnd, startSession_of_RecAt hk, hr]
  have : k + (vals.length - k) = vals.length := by have := hk.2.2.1; omega
  rw [this] at h'
  exact h'

/-- The history file of a disk on which all `n ≥ 1` epochs are recorded. -/
theorem rowsOf_eq {rest : List Line} {es : List Nat} (h : rowsOf rest = some es) :
    rest = es.map Line.row := by
  induction rest generalizing es with
  | nil => simp [rowsOf] at h; subst h; rfl
  | cons l rest ih =>
    cases l with
    | header => simp [rowsOf] at h
    | row x =>
      simp only [rowsOf, Option.map_eq_some_iff] at h
      obtain ⟨es', h1, h2⟩ := h
      subst h2
      rw [ih h1]; rfl

theorem csv_of_RecAt {P : Params} {vals : List (Option Int)} {tr : Train} {d : Disk} {n : Nat}
    (h : RecAt P vals tr d n) (hn : 0 < n) :
    d.csv = some (Line.header :: (List.range' 1 n).map Line.row) := by
  have hp := recorded_range (f := d.files) (c := d.csv) h.1
  have hh := h.2.1
  match hc : d.csv with
  | none =>
    rw [hc] at hp
    cases n with
    | zero => omega
    | succ m => simp [parseCsv, List.range'] at hp
  | some [] =>
    rw [hc] at hp
    cases n with
    | zero => omega
    | succ m => simp [parseCsv, List.range'] at hp
  | some (.header :: rest) =>
    rw [hc] at hp
    rw [parseCsv_header] at hp
    rw [rowsOf_eq hp]
  | some (.row _ :: _) => rw [hc] at hh; simp [csvHealthy] at hh

/-- **Resume.** Any number of sessions, each killed after any number of completed updates and any
number of mutating calls of the next one, followed by a session that runs to the end: the disk is
recoverable, all epochs are recorded, and the history file is the one of the uninterrupted run. -/
theorem c16_resume {P : Params} (hi : Inj P) (vals : List (Option Int)) (tr : Train) (d : Disk)
    (hrec : Rec P vals tr d) (sched : List (Nat × Nat)) :
    RecAt P vals tr (faulty Quirks.fixed P vals tr d sched) vals.length := by
  induction sched generalizing d with
  | nil =>
    obtain ⟨k, hk⟩ := hrec
    have hk : RecAt P vals tr d k := hk
    exact runToEnd_of_RecAt hi hk
  | cons x rest ih =>
    obtain ⟨j, i⟩ := x
    exact ih _ (c16_rec_crashSession hi vals tr d hrec j i)

theorem Rec_blank (P : Params) (vals : List (Option Int)) (tr : Train) : RecAt P vals tr Disk.blank 0 := by
  refine ⟨rfl, rfl, Nat.zero_le _, rfl, ?_⟩
  simp [bestOf, bestSt, loadState, U]

/-- The history file after any crash/restart sequence equals the uninterrupted run's. -/
theorem c16_resume_history {P : Params} (hi : Inj P) (vals : List (Option Int)) (tr : Train)
    (hn : 0 < vals.length) (sched : List (Nat × Nat)) :
    (faulty Quirks.fixed P vals tr Disk.blank sched).csv =
      (runToEnd Quirks.fixed P vals tr Disk.blank).csv := by
  have a := c16_resume hi vals tr Disk.blank (Rec_blank P vals tr).rec sched
  have b := c16_resume hi vals tr Disk.blank (Rec_blank P vals tr).rec []
  rw [csv_of_RecAt a hn]
  have : faulty Quirks.fixed P vals tr Disk.blank [] = runToEnd Quirks.fixed P vals tr Disk.blank := rfl
  rw [this] at b
  rw [csv_of_RecAt b hn]

/-! ## exactness of the directory in crash-free runs (keep last and best only) -/

/-- One complete update, clean-up in any order: if the directory held exactly the files of the
last and best epoch before, it does so afterwards. -/
theorem c16_exact_step {P : Params} (hi : Inj P) (hkeep : P.keepLB = true) (vals : List (Option Int))
    (tr : Train) (d : Disk) (k : Nat) (hex : ExactLB P vals d k) (hk : k < vals.length)
    (main : List FsOp) (cl : List Path)
    (hplan : planUpdate Quirks.fixed P vals k d (tr (k + 1) (U tr k)) = .ok (main, cl))
    (cl' : List Path) (hcl : ∀ p, p ∈ cl' ↔ p ∈ cl) :
    ExactLB P vals (exec d (opsOf main cl')) (k + 1) :=
  exact_step hi hkeep hex hk (show planUpdate Quirks.fixed P vals k d (U tr (k + 1)) = _ from hplan) cl' hcl

theorem ExactLB_blank (P : Params) (vals : List (Option Int)) : ExactLB P vals Disk.blank 0 := by
  intro q
  simp [Disk.blank, Files.get, epochPaths, bestOf, bestSt]

theorem runLoop_exact {P : Params} (hi : Inj P) (hkeep : P.keepLB = true) {vals : List (Option Int)}
    {tr : Train} :
    ∀ (fuel k : Nat) (d : Disk), RecAt P vals tr d k → ExactLB P vals d k → k + fuel ≤ vals.length →
      ∃ d', runLoop Quirks.fixed P vals tr fuel k (U tr k) d = (k + fuel, U tr (k + fuel), d') ∧
        RecAt P vals tr d' (k + fuel) ∧ ExactLB P vals d' (k + fuel) := by
  intro fuel
  induction fuel with
  | zero => intro k d h he _; exact ⟨d, rfl, h, he⟩
  | succ f ih =>
    intro k d h he hle
    obtain ⟨main, cl, hp⟩ := c16_never_refuses hi Quirks.fixed vals k d (tr (k + 1) (U tr k))
    have h1 := c16_rec_full hi vals tr d k h (by omega) main cl hp cl (fun _ h => h)
    have he1 := c16_exact_step hi hkeep vals tr d k he (by omega) main cl hp cl (fun _ => Iff.rfl)
    obtain ⟨d2, hr, h2, he2⟩ := ih (k + 1) _ h1 he1 (by omega)
    have hu : updateFull Quirks.fixed P vals tr k (U tr k) d = .ok (exec d (opsOf main cl), U tr (k + 1)) := by
      simp [updateFull, hp, U]
    have e : k + 1 + f = k + (f + 1) := by omega
    refine ⟨d2, ?_, ?_, ?_⟩
    · simp only [runLoop, hu]; rw [hr, e]
    · rw [← e]; exact h2
    · rw [← e]; exact he2

/-- **Last-and-best only, no crash:** after every completed update `j` of a run that starts on an
empty directory, the directory holds exactly the files of the last and of the best epoch. -/
theorem c16_exact_nocrash {P : Params} (hi : Inj P) (hkeep : P.keepLB = true) (vals : List (Option Int))
    (tr : Train) (j : Nat) (hj : j ≤ vals.length) :
    ∃ d, runLoop Quirks.fixed P vals tr j 0 (U tr 0) Disk.blank = (j, U tr j, d) ∧
      ExactLB P vals d j ∧ RecAt P vals tr d j := by
  obtain ⟨d, h1, h2, h3⟩ := runLoop_exact hi hkeep j 0 Disk.blank (Rec_blank P vals tr) (ExactLB_blank P vals)
    (by omega)
  rw [Nat.zero_add] at h1 h2 h3
  exact ⟨d, h1, h3, h2⟩



/-! ## keep everything: every recorded epoch stays loadable — with or without crashes -/

/-- Every single mutating call of a keep-everything update preserves `RecAll`. -/
theorem c16_keepall_step {P : Params} (hi : Inj P) (hkeep : P.keepLB = false) (vals : List (Option Int))
    (tr : Train) (d : Disk) (k : Nat) (h : RecAll P vals tr d k) (hlt : k < vals.length)
    (main : List FsOp) (cl : List Path)
    (hplan : planUpdate Quirks.fixed P vals k d (tr (k + 1) (U tr k)) = .ok (main, cl)) (i : Nat) :
    ∃ k', RecAll P vals tr (exec d ((opsOf main cl).take i)) k' := by
  have hp : planUpdate Quirks.fixed P vals k d (U tr (k + 1)) = .ok (main, cl) := hplan
  have a := step_main hi h.1 hlt hp cl (fun _ h => h) i
  have b := keepall_step hi hkeep h.2 hp i
  by_cases h9 : i ≤ 9
  · exact ⟨k, a.1 h9, b.2.1 h9⟩
  · exact ⟨k + 1, a.2 (by omega), b.2.2 (by omega)⟩

theorem runLoop_keepall {P : Params} (hi : Inj P) (hkeep : P.keepLB = false) {vals : List (Option Int)}
    {tr : Train} :
    ∀ (fuel k : Nat) (d : Disk), RecAll P vals tr d k → k + fuel ≤ vals.length →
      ∃ d', runLoop Quirks.fixed P vals tr fuel k (U tr k) d = (k + fuel, U tr (k + fuel), d') ∧
        RecAll P vals tr d' (k + fuel) := by
  intro fuel
  induction fuel with
  | zero => intro k d h _; exact ⟨d, rfl, h⟩
  | succ f ih =>
    intro k d h hle
    obtain ⟨main, cl, hp⟩ := c16_never_refuses hi Quirks.fixed vals k d (tr (k + 1) (U tr k))
    have hp' : planUpdate Quirks.fixed P vals k d (U tr (k + 1)) = .ok (main, cl) := hp
    have h1 := c16_rec_full hi vals tr d k h.1 (by omega) main cl hp cl (fun _ h => h)
    have hb := keepall_step hi hkeep h.2 hp' ((opsOf main cl).length + 10)
    rw [List.take_of_length_le (by omega)] at hb
    obtain ⟨d2, hr, h2⟩ := ih (k + 1) _ ⟨h1, hb.2.2 (by omega)⟩ (by omega)
    have hu : updateFull Quirks.fixed P vals tr k (U tr k) d = .ok (exec d (opsOf main cl), U tr (k + 1)) := by
      simp [updateFull, hp, U]
    have e : k + 1 + f = k + (f + 1) := by omega
    refine ⟨d2, ?_, ?_⟩
    · simp only [runLoop, hu]; rw [hr, e]
    · rw [← e]; exact h2

theorem RecAll_blank (P : Params) (vals : List (Option Int)) (tr : Train) : RecAll P vals tr Disk.blank 0 :=
  ⟨Rec_blank P vals tr, fun j h1 h0 => by omega⟩

/-- **Keep everything:** after any number of killed sessions and a final one that runs to the end,
every epoch `1..n` is loadable with exactly the state saved for it. -/
theorem c16_keepall_loadable {P : Params} (hi : Inj P) (hkeep : P.keepLB = false) (vals : List (Option Int))
    (tr : Train) (sched : List (Nat × Nat)) :
    AllLoadable P tr (faulty Quirks.fixed P vals tr Disk.blank sched) vals.length := by
  suffices h : ∀ (d : Disk) (k : Nat), RecAll P vals tr d k →
      RecAll P vals tr (faulty Quirks.fixed P vals tr d sched) vals.length from
    (h Disk.blank 0 (RecAll_blank P vals tr)).2
  induction sched with
  | nil =>
    intro d k hk
    have hle : k + (vals.length - k) ≤ vals.length := by have := hk.1.2.2.1; omega
    obtain ⟨d', hr, h'⟩ := runLoop_keepall hi hkeep (vals.length - k) k d hk hle
    have : k + (vals.length - k) = vals.length := by have := hk.1.2.2.1; omega
    rw [this] at h' hr
    simp only [faulty, runToEnd, startSession_of_RecAt hk.1, hr]
    exact h'
  | cons x rest ih =>
    intro d k hk
    obtain ⟨j, i⟩ := x
    have hle : k + min j (vals.length - k) ≤ vals.length := by have := hk.1.2.2.1; omega
    obtain ⟨d', hr, h'⟩ := runLoop_keepall hi hkeep (min j (vals.length - k)) k d hk hle
    simp only [faulty, crashSession, startSession_of_RecAt hk.1, hr]
    split
    · rename_i hlt
      obtain ⟨main, cl, hp⟩ := c16_never_refuses hi Quirks.fixed vals (k + min j (vals.length - k)) d'
        (tr (k + min j (vals.length - k) + 1) (U tr (k + min j (vals.length - k))))
      obtain ⟨k', hk'⟩ := c16_keepall_step hi hkeep vals tr d' _ h' hlt main cl hp i
      simp only [updateCrashed, hp]
      exact ih _ k' hk'
    · exact ih _ _ h'

/-- In every state the colliding update can start from, it either refuses or — killed after its
second mutating call — leaves a history that names an epoch whose checkpoint paths still hold
the previous epoch's state: for formats without the epoch field no recoverable disk with `k ≥ 1`
recorded epochs survives every crash point of the next update, whatever the metrics. -/
theorem c16_collision_window (keep : Bool) (vals : List (Option Int)) (tr : Train) (d : Disk) (k : Nat)
    (hk1 : 1 ≤ k) (hrec : RecAt (constP keep) vals tr d k)
    (hU : U tr (k + 1) ≠ U tr k) :
    (∃ e, planUpdate Quirks.fixed (constP keep) vals k d (U tr (k + 1)) = .error e) ∨
    (∃ main cl, planUpdate Quirks.fixed (constP keep) vals k d (U tr (k + 1)) = .ok (main, cl) ∧
      ¬ Rec (constP keep) vals tr (exec d ((opsOf main cl).take 2))) := by
  have key : ∀ cl : List Path, ¬ Rec (constP keep) vals tr
      (exec d ((opsOf (histOps Quirks.fixed d (k + 1) ++ saveOps (constP keep) d (k + 1) (U tr (k + 1))) cl).take 2)) := by
    intro cl hr
    have ht : (opsOf (histOps Quirks.fixed d (k + 1) ++ saveOps (constP keep) d (k + 1) (U tr (k + 1))) cl).take 2
        = histOps Quirks.fixed d (k + 1) := by
      simp [opsOf, histOps_eq]
    rw [ht, exec_histOps] at hr
    obtain ⟨k', hk'⟩ := hr
    obtain ⟨h1, h2, h3, h4, h5⟩ := hrec
    obtain ⟨hr', _⟩ := recorded_after_hist (f := d.files) (f' := d.files) (c := d.csv) (k := k) h1 h2
    have hk'' : RecAt (constP keep) vals tr
        { d with csv := some (d.csv.getD [] ++ histLines Quirks.fixed d (k + 1)) } k' := hk'
    have hkk : k + 1 = k' := hk''.unique hr'
    subst hkk
    have hl := hk''.2.2.2.1
    have hsame : loadState (constP keep) { d with csv := some (d.csv.getD [] ++ histLines Quirks.fixed d (k + 1)) } (k + 1)
        = loadState (constP keep) d k := by
      have hk0 : k ≠ 0 := by omega
      simp [loadState, constP, Params.mpath, Params.opath, hk0]
    rw [hsame, h4] at hl
    exact hU (Option.some.inj hl).symm
  have hmain : ∀ main cl, planUpdate Quirks.fixed (constP keep) vals k d (U tr (k + 1)) = .ok (main, cl) →
      main = histOps Quirks.fixed d (k + 1) ++ saveOps (constP keep) d (k + 1) (U tr (k + 1)) := by
    intro main cl h
    have hnk : ¬ (k + 1 = k) := by omega
    unfold planUpdate at h
    simp only at h
    cases keep with
    | true =>
      simp only [constP, if_true, true_or, and_true, ne_eq] at h
      split at h
      · cases h
      · rename_i hcb
        have hcb : bestOf (vals.take (k + 1)) = k + 1 := Classical.not_not.mp hcb
        rw [hcb, if_neg hnk] at h
        injection h with h
        injection h with h1 h2
        exact h1.symm
    | false =>
      have hany : (List.range' 1 k).any (fun j => decide ((constP false).km j = (constP false).km (k + 1)) ||
          decide ((constP false).ko j = (constP false).ko (k + 1))) = true := by
        rw [List.any_eq_true]
        exact ⟨1, by rw [List.mem_range'_1]; omega, by simp [constP]⟩
      have hk : (constP false).keepLB = false := rfl
      simp only [hk, Bool.false_eq_true, if_false, Quirks.fixed, hany, if_true] at h
      injection h with h
      injection h with h1 h2
      exact h1.symm
  cases hp : planUpdate Quirks.fixed (constP keep) vals k d (U tr (k + 1)) with
  | error e => exact Or.inl ⟨e, rfl⟩
  | ok r =>
    obtain ⟨main, cl⟩ := r
    refine Or.inr ⟨main, cl, rfl, ?_⟩
    rw [hmain main cl hp]
    exact key cl


end PdtVerif.Checkpoint
