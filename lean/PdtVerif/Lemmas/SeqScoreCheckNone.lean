import PdtVerif.Lemmas.SeqScoreCheckMem
/-! `TokenSequenceConstraint.check` without a step limit (`max_iters = None`, stored as `inf`)
(core Lean only). -/
namespace PdtVerif.SeqScore

/-- Without a step limit a value is accepted exactly when `eos` is set and occurs in it, and
every token up to and including the first `eos` lies in the vocabulary. -/
theorem supportCheck_none_iff (V : Nat) (eos : Option Int) (value : List Int) :
    supportCheck V eos none value = true ↔
      (∃ e, eos = some e ∧ e ∈ value) ∧ ∀ x ∈ Spec.cutAtEos eos value, 0 ≤ x ∧ x < (V : Int) := by
  cases eos with
  | none => simp [supportCheck]
  | some e =>
    simp only [supportCheck, Spec.cutAtEos]
    rw [Bool.and_eq_true, all_filled, any_filled]
    simp only [List.all_eq_true, Bool.and_eq_true, decide_eq_true_eq, Bool.or_eq_true,
      List.any_eq_true, beq_iff_eq, Option.some.injEq, reduceCtorEq, decide_false,
      Bool.false_eq_true, or_false, and_true]
    constructor
    · rintro ⟨h1, x, hx, rfl⟩
      exact ⟨⟨x, rfl, hx⟩, h1⟩
    · rintro ⟨⟨e', he', hm⟩, h2⟩
      cases he'
      exact ⟨h2, e, hm, rfl⟩

/-- The check without a step limit is the check with the value's own length as the limit,
restricted to values that hold an `eos`. -/
theorem supportCheck_none_iff_own_length (V : Nat) (eos : Option Int) (value : List Int) :
    supportCheck V eos none value = true ↔
      (∃ e, eos = some e ∧ e ∈ value) ∧ supportCheck V eos (some value.length) value = true := by
  rw [supportCheck_none_iff, supportCheck_iff]
  constructor
  · rintro ⟨h1, h2⟩
    exact ⟨h1, Or.inl rfl, h2⟩
  · rintro ⟨h1, _, h2⟩
    exact ⟨h1, h2⟩

/-- On a row of natural-number tokens: accepted without a step limit ⇔ the row holds `eos` and,
with everything after its first `eos` replaced by `eos`, is a row of the support for the row's
own length. -/
theorem check_none_iff_mem (V : Nat) (eos : Option Nat) (r : List Nat) :
    supportCheck V (eos.map Int.ofNat) none (r.map Int.ofNat) = true ↔
      (∃ e, eos = some e ∧ e ∈ r) ∧ fillOpt eos r ∈ Spec.support V eos r.length := by
  rw [supportCheck_none_iff_own_length]
  have hlen : (r.map Int.ofNat).length = r.length := by simp
  rw [hlen, check_iff_mem]
  have hfl : (fillOpt eos r).length = r.length := by
    cases eos with
    | none => rfl
    | some e => exact fillSpec_length e r
  have hpad : padTo r.length (eos.getD 0) (fillOpt eos r) = fillOpt eos r := by
    simp [padTo, hfl]
  rw [hpad]
  constructor
  · rintro ⟨⟨e, he, hm⟩, _, h2⟩
    cases eos with
    | none => cases he
    | some e0 =>
      simp only [Option.map_some, Option.some.injEq] at he
      subst he
      exact ⟨⟨e0, rfl, (mem_map_ofNat r e0).1 hm⟩, h2⟩
  · rintro ⟨⟨e, he, hm⟩, h2⟩
    subst he
    exact ⟨⟨Int.ofNat e, rfl, (mem_map_ofNat r e).2 hm⟩, Or.inl rfl, h2⟩

end PdtVerif.SeqScore
