import PdtVerif.Lemmas.CtcRefine
/-! # C05: the model's `isTopK` (on candidate totals) gives the specification's `IsTopK` (on prefixes)

`isTopK cand K sel` is what the array model assumes of `torch.topk`: a legitimate answer on the
array of candidate totals.  `Ctc.IsTopK V f width bm keep` is what `C05_shape` assumes of the
survivors of the map recursion.  This file proves: on a well-formed state that stands for the map
`bm`, with the frame's probabilities, a legitimate `topk` answer makes the prefixes of the real
output slots a legitimate best-`width` choice among the candidate prefixes of `bm`
(`isTopK_to_spec`), hence a `GoodRun` of the array code is a `ValidRun` of the map recursion
(`goodRun_validRun`). -/
namespace PdtVerif.CtcPrefix
open PdtVerif.Ctc (Frame stepFn Beam beamStep beamRun beamInit cands candTotal IsTopK ValidRun)

/-! ### the candidate totals handed to `topk`, read through the mirror -/

theorem getN_replicate (n i k : Nat) (h : k < n) : getN (List.replicate n i) k = i := by
  unfold getN
  rw [List.getD_eq_getElem?_getD, List.getElem?_replicate]
  simp [h]

/-- every entry of `tot_probs_cand` (it does not depend on the selection): the non-extending
candidate of slot `k` sits at `Kp·V + k`, the extension of slot `k` by `v` at `k·V + v`. -/
theorem cand_at (V width : Nat) (hV : 0 < V) (hw : 0 < width) (ext : List (List XR)) (nonext : List XR)
    (blank : XR) (st : State) (sel : Option (List Nat))
    (hnb : ∀ x ∈ st.nb, x.clean = true) (hb : ∀ x ∈ st.b, x.clean = true) (hbl : blank.isFin = true)
    (i : Nat) (hi : i < st.nb.length * V + st.nb.length) :
    getX (advance true V width ext nonext blank st sel).cand i =
      if st.nb.length * V ≤ i then
        nbNonF V ext nonext st (i - st.nb.length * V) + bNonF blank st (i - st.nb.length * V)
      else nbExtF V ext st (i / V) (i % V) + XR.mulBool (bNonF blank st (i / V)) false := by
  have hKp : 0 < st.nb.length := by
    rcases Nat.eq_zero_or_pos st.nb.length with h | h
    · rw [h] at hi; simp at hi
    · exact h
  have hK : 0 < min width (st.nb.length * (V + 1)) := by
    have : 0 < st.nb.length * (V + 1) := Nat.mul_pos hKp (by omega)
    omega
  let s' := List.replicate (min width (st.nb.length * (V + 1))) i
  have hs0 : getN s' 0 = i := getN_replicate _ _ _ hK
  rw [advance_cand_sel_indep true V width ext nonext blank st sel (some s')]
  have ht := advance_total V width ext nonext blank st s' hnb hb hbl 0 hK (by rw [hs0]; exact hi)
  simp only at ht
  rw [hs0] at ht
  rw [← ht]
  obtain ⟨m1, m2⟩ := advance_masses V width hV ext nonext blank st s' 0 hK (by rw [hs0]; exact hi)
  rw [hs0] at m1 m2
  by_cases h : st.nb.length * V ≤ i
  · rw [if_pos h, (m1 h).1, (m1 h).2]
  · rw [if_neg h, (m2 (by omega)).1, (m2 (by omega)).2]

/-! ### the order `topk` uses -/

theorem XR.le_trans {a b c : XR} (h1 : XR.le a b = true) (h2 : XR.le b c = true) : XR.le a c = true := by
  cases a <;> cases b <;> cases c <;> simp_all [XR.le]
  exact Rat.le_trans h1 h2

theorem XR.le_fin_iff {a b : Rat} : XR.le (.fin a) (.fin b) = true ↔ a ≤ b := by simp [XR.le]

theorem XR.not_le_fin_negInf (a : Rat) : XR.le (.fin a) .negInf = false := rfl

/-- non-increasing along the list: every later entry is `≤` every earlier one -/
theorem nonIncr_pair (l : List XR) (h : nonIncr l = true) (i j : Nat) (hij : i ≤ j) (hj : j < l.length) :
    XR.le (getX l j) (getX l i) = true := by
  rw [nonIncr_iff] at h
  induction j with
  | zero =>
    have : i = 0 := by omega
    subst this
    cases (getX l 0) <;> simp [XR.le]
  | succ j ih =>
    by_cases he : i = j + 1
    · subst he
      cases (getX l (j + 1)) <;> simp [XR.le]
    · exact XR.le_trans (h j hj) (ih (by omega) (by omega))


theorem getN_eq_getElem (s : List Nat) (j : Nat) (h : j < s.length) : getN s j = s[j] := by
  unfold getN; rw [List.getD_eq_getElem?_getD, List.getElem?_eq_getElem h]; rfl

theorem contains_iff_getN (s : List Nat) (i : Nat) :
    s.contains i = true ↔ ∃ j, j < s.length ∧ getN s j = i := by
  rw [List.contains_iff_mem, List.mem_iff_getElem]
  constructor
  · rintro ⟨j, hj, e⟩; exact ⟨j, hj, by rw [getN_eq_getElem s j hj, e]⟩
  · rintro ⟨j, hj, e⟩; exact ⟨j, hj, by rw [← getN_eq_getElem s j hj, e]⟩

/-- everything `isTopK` says, in index form -/
theorem isTopK_all {cand : List XR} {K : Nat} {s : List Nat} (h : isTopK cand K s = true) :
    s.length = K ∧ (∀ j, j < K → getN s j < cand.length) ∧
    (∀ a b, a < K → b < K → getN s a = getN s b → a = b) ∧
    (∀ a b, a ≤ b → b < K → XR.le (getX cand (getN s b)) (getX cand (getN s a)) = true) ∧
    (∀ i, i < cand.length → (∃ j, j < K ∧ getN s j = i) ∨
        ∀ j, j < K → XR.le (getX cand i) (getX cand (getN s j)) = true) := by
  obtain ⟨hlen, hlt, hnd⟩ := isTopK_facts h
  simp only [isTopK, Bool.and_eq_true, beq_iff_eq, List.all_eq_true, decide_eq_true_eq] at h
  obtain ⟨⟨⟨⟨_, _⟩, _⟩, hni⟩, hbest⟩ := h
  refine ⟨hlen, hlt, hnd, ?_, ?_⟩
  · intro a b hab hb
    have m : ∀ j, j < s.length → getX (s.map (getX cand)) j = getX cand (getN s j) := by
      intro j hj
      unfold getX getN
      rw [List.getD_eq_getElem?_getD, List.getD_eq_getElem?_getD (l := s), List.getElem?_map,
        List.getElem?_eq_getElem hj]
      rfl
    have := nonIncr_pair (s.map (getX cand)) hni a b hab (by simp; omega)
    rw [m _ (by omega), m _ (by omega)] at this
    exact this
  · intro i hi
    have := hbest i (List.mem_range.2 hi)
    simp only [Bool.or_eq_true, List.all_eq_true] at this
    rcases this with hc | ha
    · left
      obtain ⟨j, hj, e⟩ := (contains_iff_getN s i).1 hc
      exact ⟨j, by omega, e⟩
    · right
      intro j hj
      have hjs : j < s.length := by omega
      have := ha (s[j]) (List.getElem_mem hjs)
      rw [getN_eq_getElem s j hjs]
      exact this


/-! ### candidate prefixes and their canonical candidate index -/

section Link
variable {V : Nat} (hV : 0 < V) (width : Nat) (hw : 0 < width) {f : Frame} {ext : List (List XR)}
  {nonext : List XR} {blank : XR} {st : State} (h : WF V st)
  (hf : FrameLink V f ext nonext blank st) {bm : Beam} (hr : Rep bm st)
include hV hw h hf hr

omit hV hw h hr in
theorem blank_isFin : blank.isFin = true := by rw [hf.blank]; rfl

/-- the non-extending candidate of a real slot carries the candidate total of its prefix -/
theorem cand_nonext (sel : Option (List Nat)) {k : Nat} (hk : validB st k = true) :
    getX (advance true V width ext nonext blank st sel).cand (st.nb.length * V + k)
      = XR.fin (candTotal V f bm (preOf st k)) := by
  have hlt := (validB_iff.1 hk).1
  have hinv := (validB_iff.1 hk).2
  have hget : bm.get = absGet st := funext hr.1
  rw [cand_at V width hV hw ext nonext blank st sel h.clean.1 h.clean.2
    (blank_isFin hf) _ (by omega), if_pos (by omega)]
  have : st.nb.length * V + k - st.nb.length * V = k := by omega
  rw [this]
  unfold nbNonF
  rw [hinv]
  simp only [Bool.false_eq_true, if_false]
  rw [nbNon1F_valid hV h hf hk, bNonF_valid h hf hk]
  unfold candTotal
  rw [hget, Ctc.stepFn_snd, absGet_valid h hk]
  rfl

/-- the extension candidate `(k, v)` of a real slot whose extended prefix is in no real slot
carries the candidate total of the extended prefix -/
theorem cand_ext (sel : Option (List Nat)) {k v : Nat} (hk : validB st k = true) (hv : v < V)
    (hfresh : ∀ k', validB st k' = true → preOf st k' ≠ preOf st k ++ [v]) :
    getX (advance true V width ext nonext blank st sel).cand (k * V + v)
      = XR.fin (candTotal V f bm (preOf st k ++ [v])) := by
  have hlt := (validB_iff.1 hk).1
  have hinv := (validB_iff.1 hk).2
  have hget : bm.get = absGet st := funext hr.1
  have hi : k * V + v < st.nb.length * V := by
    calc k * V + v < k * V + V := by omega
      _ = (k + 1) * V := by rw [Nat.succ_mul]
      _ ≤ st.nb.length * V := Nat.mul_le_mul_right V hlt
  rw [cand_at V width hV hw ext nonext blank st sel h.clean.1 h.clean.2
    (blank_isFin hf) _ (by omega), if_neg (by omega)]
  have e1 : (k * V + v) / V = k := by
    rw [Nat.add_comm, Nat.add_mul_div_right _ _ hV, Nat.div_eq_of_lt hv, Nat.zero_add]
  have e2 : (k * V + v) % V = v := by
    rw [Nat.add_comm, Nat.add_mul_mod_self_right, Nat.mod_eq_of_lt hv]
  rw [e1, e2]
  have hnm : hasMatchF V st k v = false := by
    cases hm : hasMatchF V st k v with
    | false => rfl
    | true =>
      obtain ⟨k', hk', he⟩ := (hasMatchF_iff h hk v).1 hm
      exact absurd he (hfresh k' hk')
  unfold nbExtF
  rw [hnm, hinv]
  simp only [Bool.or_self, Bool.false_eq_true, if_false]
  have hS : absGet st (preOf st k ++ [v]) = (0, 0) := absGet_none hfresh
  rw [nbExt0F_valid h hf hk hv, bNonF_valid h hf hk]
  unfold candTotal
  rw [hget, Ctc.stepFn_fst, Ctc.stepFn_snd, hS]
  have h1 : (preOf st k ++ [v]).getLast? = some v := by simp
  have h2 : (preOf st k ++ [v]).dropLast = preOf st k := by simp
  rw [h1]
  simp only [h2, hv, if_true, absGet_valid h hk, zero_mul, zero_add]
  show XR.fin _ + XR.fin _ * XR.fin 0 = _
  rw [fin_mul, fin_add]
  congr 1
  simp

/-- **canonical index**: every candidate prefix of the map has an entry of `tot_probs_cand` that
carries its candidate total and whose selection puts exactly that prefix into a real slot -/
theorem cand_canonical (s : List Nat) {p : List Nat} (hp : p ∈ cands V bm) :
    ∃ i, i < st.nb.length * V + st.nb.length ∧
      getX (advance true V width ext nonext blank st (some s)).cand i = XR.fin (candTotal V f bm p) ∧
      ∀ j, j < min width (st.nb.length * (V + 1)) → getN s j = i →
        validB (advance true V width ext nonext blank st (some s)).st j = true ∧
        preOf (advance true V width ext nonext blank st (some s)).st j = p := by
  have hsz := advance_sized true V width ext nonext blank st (some s)
  have hbl := blank_isFin hf
  -- a selected finite candidate makes its slot real
  have hreal : ∀ j i q, j < min width (st.nb.length * (V + 1)) → getN s j = i →
      i < st.nb.length * V + st.nb.length →
      getX (advance true V width ext nonext blank st (some s)).cand i = XR.fin q →
      validB (advance true V width ext nonext blank st (some s)).st j = true := by
    intro j i q hj hji hi hc
    have ht := advance_total V width ext nonext blank st s h.clean.1 h.clean.2 hbl j hj (by rw [hji]; exact hi)
    simp only at ht
    rw [hji, hc] at ht
    exact valid_of_total_fin (by rw [hsz.1]; omega) ht
  rw [Ctc.mem_cands] at hp
  by_cases hin : ∃ k, validB st k = true ∧ preOf st k = p
  · obtain ⟨k, hk, rfl⟩ := hin
    have hlt := (validB_iff.1 hk).1
    refine ⟨st.nb.length * V + k, by omega, cand_nonext hV width hw h hf hr _ hk, ?_⟩
    intro j hj hji
    refine ⟨hreal j _ _ hj hji (by omega) (cand_nonext hV width hw h hf hr _ hk), ?_⟩
    obtain ⟨p1, _⟩ := preOf_out true width ext nonext blank h s j hj (by rw [hji]; omega)
    have := p1 (by rw [hji]; omega) (by rw [hji]; simpa using hk)
    rw [this, hji]
    congr 1
    omega
  · have hnk : ∀ k', validB st k' = true → preOf st k' ≠ p := fun k' hk' he => hin ⟨k', hk', he⟩
    rcases hp with hp | ⟨q, hq, v, hv, rfl⟩
    · exact absurd ((hr.2 p).1 hp) hin
    · obtain ⟨k, hk, rfl⟩ := (hr.2 q).1 hq
      have hlt := (validB_iff.1 hk).1
      have hi : k * V + v < st.nb.length * V := by
        calc k * V + v < k * V + V := by omega
          _ = (k + 1) * V := by rw [Nat.succ_mul]
          _ ≤ st.nb.length * V := Nat.mul_le_mul_right V hlt
      have e1 : (k * V + v) / V = k := by
        rw [Nat.add_comm, Nat.add_mul_div_right _ _ hV, Nat.div_eq_of_lt hv, Nat.zero_add]
      have e2 : (k * V + v) % V = v := by
        rw [Nat.add_comm, Nat.add_mul_mod_self_right, Nat.mod_eq_of_lt hv]
      refine ⟨k * V + v, by omega, cand_ext hV width hw h hf hr _ hk hv hnk, ?_⟩
      intro j hj hji
      refine ⟨hreal j _ _ hj hji (by omega) (cand_ext hV width hw h hf hr _ hk hv hnk), ?_⟩
      obtain ⟨_, p2⟩ := preOf_out true width ext nonext blank h s j hj (by rw [hji]; omega)
      have := p2 (by rw [hji]; exact hi) (by rw [hji, e1]; exact hk)
      rw [this, hji, e1, e2]

end Link


/-! ### list facts -/

theorem nodup_eraseDups_aux : ∀ (n : Nat) (l : List (List Nat)), l.length ≤ n → l.eraseDups.Nodup
  | _, [], _ => by simp
  | 0, _ :: _, h => by simp at h
  | n + 1, a :: as, h => by
    rw [List.eraseDups_cons, List.nodup_cons]
    constructor
    · intro hm
      rw [List.mem_eraseDups, List.mem_filter] at hm
      simp at hm
    · apply nodup_eraseDups_aux n
      have := List.length_filter_le (fun b => !b == a) as
      simp at h
      omega

theorem nodup_eraseDups (l : List (List Nat)) : l.eraseDups.Nodup :=
  nodup_eraseDups_aux l.length l (Nat.le_refl _)

theorem nodup_of_nodupB : ∀ (s : List Nat), nodupB s = true → s.Nodup
  | [], _ => by simp
  | a :: r, h => by
    simp only [nodupB, Bool.and_eq_true, Bool.not_eq_true', List.contains_eq_mem, decide_eq_false_iff_not] at h
    exact List.nodup_cons.2 ⟨h.1, nodup_of_nodupB r h.2⟩

/-- a duplicate-free list of `K` indices below `K` contains every index below `K` -/
theorem mem_of_nodup_full (s : List Nat) (K : Nat) (hn : s.Nodup) (hl : s.length = K)
    (hlt : ∀ x ∈ s, x < K) (i : Nat) (hi : i < K) : i ∈ s := by
  by_contra hni
  have hsub : s ⊆ (List.range K).erase i := by
    intro x hx
    have hne : x ≠ i := fun e => hni (e ▸ hx)
    exact (List.mem_erase_of_ne hne).2 (List.mem_range.2 (hlt x hx))
  have := hn.length_le_of_subset hsub
  rw [List.length_erase_of_mem (List.mem_range.2 hi), List.length_range, hl] at this
  omega

/-! ### the link -/

section Link2
variable {V : Nat} (hV : 0 < V) (width : Nat) (hw : 0 < width) {f : Frame} {ext : List (List XR)}
  {nonext : List XR} {blank : XR} {st : State} (h : WF V st)
  (hf : FrameLink V f ext nonext blank st) {bm : Beam} (hr : Rep bm st) (s : List Nat)
  (hk : isTopK (advance true V width ext nonext blank st (some s)).cand
          (min width (st.nb.length * (V + 1))) s = true)
  (hext : ∀ r ∈ ext, ∀ x ∈ r, x.isFin = true) (hne : ∀ x ∈ nonext, x.isFin = true)
include hV hw h hf hr hk hext hne

omit hw hext hne in
/-- the total of a real output slot is the candidate total of its prefix -/
theorem out_total (j : Nat) (hv : validB (advance true V width ext nonext blank st (some s)).st j = true) :
    getX (advance true V width ext nonext blank st (some s)).st.nb j
      + getX (advance true V width ext nonext blank st (some s)).st.b j
      = XR.fin (candTotal V f bm (preOf (advance true V width ext nonext blank st (some s)).st j)) := by
  obtain ⟨hj, hs, _, _⟩ := prov hV width h hf s hk j hv
  obtain ⟨e1, e2, _⟩ := refine_step_values hV width h hf s j hj hs hv
  have hget : bm.get = absGet st := funext hr.1
  rw [e1, e2]
  unfold candTotal
  rw [hget]
  rfl

/-- **the model's `isTopK` gives the specification's `IsTopK`**: with a legitimate `topk` answer on
the candidate totals, the prefixes of the real output slots (in slot order) are a legitimate choice
of the best `width` candidate prefixes of the map the input state stands for. -/
theorem isTopK_to_spec :
    IsTopK V f width bm (validPrefixes (advance true V width ext nonext blank st (some s)).st) := by
  have hwf := wf_advance hV width h hf s hk hext hne
  have hsz := advance_sized true V width ext nonext blank st (some s)
  have hbl := blank_isFin hf
  have hcl := advance_cand_length true V width ext nonext blank st (some s)
  obtain ⟨hlen, hlt, hinj, hmono, hbest⟩ := isTopK_all hk
  rw [hcl] at hlt hbest
  -- the list of real slots
  have hpw : ((List.range (advance true V width ext nonext blank st (some s)).st.nb.length).filter
      (validB (advance true V width ext nonext blank st (some s)).st)).Pairwise (· < ·) :=
    List.pairwise_lt_range.filter _
  have hmemv : ∀ {j}, j ∈ (List.range (advance true V width ext nonext blank st (some s)).st.nb.length).filter
      (validB (advance true V width ext nonext blank st (some s)).st) →
      validB (advance true V width ext nonext blank st (some s)).st j = true := by
    intro j hj; exact (List.mem_filter.1 hj).2
  -- every real output prefix is a candidate
  have hcand : ∀ j, validB (advance true V width ext nonext blank st (some s)).st j = true →
      preOf (advance true V width ext nonext blank st (some s)).st j ∈ cands V bm := by
    intro j hv
    obtain ⟨_, _, hvk, hp⟩ := prov hV width h hf s hk j hv
    rw [Ctc.mem_cands]
    rcases hp with ⟨_, hp⟩ | ⟨_, hp, _⟩
    · exact Or.inl ((hr.2 _).2 ⟨_, hvk, hp.symm⟩)
    · exact Or.inr ⟨_, (hr.2 _).2 ⟨_, hvk, rfl⟩, _, Nat.mod_lt _ hV, hp⟩
  -- totals along the beam
  have hle : ∀ a b, a ≤ b → validB (advance true V width ext nonext blank st (some s)).st a = true →
      validB (advance true V width ext nonext blank st (some s)).st b = true →
      candTotal V f bm (preOf (advance true V width ext nonext blank st (some s)).st b)
        ≤ candTotal V f bm (preOf (advance true V width ext nonext blank st (some s)).st a) := by
    intro a b hab hva hvb
    have hbw : b < width := by rw [← hsz.1]; exact (validB_iff.1 hvb).1
    have hso := advance_sorted V width ext nonext blank st s h.clean.1 h.clean.2 hbl hk
    simp only at hso
    have := nonIncr_pair _ hso a b hab (by simp; exact hbw)
    rw [getX_map_range _ _ _ hbw, getX_map_range _ _ _ (by omega),
      out_total hV width h hf hr s hk a hva,
      out_total hV width h hf hr s hk b hvb] at this
    exact XR.le_fin_iff.1 this
  have hnodup : (validPrefixes (advance true V width ext nonext blank st (some s)).st).Nodup := by
    unfold validPrefixes
    rw [List.nodup_iff_pairwise_ne, List.pairwise_map]
    refine hpw.imp_of_mem ?_
    intro a b ha hb hab he
    have := hwf.dist a b (hmemv ha) (hmemv hb) he
    omega
  have hsub : ∀ p ∈ validPrefixes (advance true V width ext nonext blank st (some s)).st, p ∈ cands V bm := by
    intro p hp
    obtain ⟨j, hv, rfl⟩ := mem_validPrefixes.1 hp
    exact hcand j hv
  -- a candidate prefix that is not kept: its canonical candidate is not selected
  have hunsel : ∀ p ∈ cands V bm, p ∉ validPrefixes (advance true V width ext nonext blank st (some s)).st →
      ∀ j, j < min width (st.nb.length * (V + 1)) →
        XR.le (XR.fin (candTotal V f bm p))
          (getX (advance true V width ext nonext blank st (some s)).cand (getN s j)) = true := by
    intro p hp hnk
    obtain ⟨i, hi, hci, hsel⟩ := cand_canonical hV width hw h hf hr s hp
    rcases hbest i hi with ⟨j, hj, hji⟩ | hall
    · exfalso
      obtain ⟨hv, hpj⟩ := hsel j hj hji
      exact hnk (mem_validPrefixes.2 ⟨j, hv, hpj⟩)
    · intro j hj
      rw [← hci]
      exact hall j hj
  refine ⟨hnodup, hsub, ?_, ?_, ?_⟩
  · -- card
    have hD : ((cands V bm).eraseDups).Nodup := nodup_eraseDups _
    have h1 : (validPrefixes (advance true V width ext nonext blank st (some s)).st).length ≤ width := by
      unfold validPrefixes
      rw [List.length_map]
      exact Nat.le_trans (List.length_filter_le _ _) (by rw [List.length_range, hsz.1])
    have h2 : (validPrefixes (advance true V width ext nonext blank st (some s)).st).length
        ≤ ((cands V bm).eraseDups).length :=
      hnodup.length_le_of_subset (fun p hp => List.mem_eraseDups.2 (hsub p hp))
    by_contra hcard
    have hlt' : (validPrefixes (advance true V width ext nonext blank st (some s)).st).length
        < min width ((cands V bm).eraseDups).length := by omega
    -- a candidate prefix that is not kept
    have hex : ∃ p ∈ cands V bm, p ∉ validPrefixes (advance true V width ext nonext blank st (some s)).st := by
      by_contra hno
      have hall : (cands V bm).eraseDups ⊆ validPrefixes (advance true V width ext nonext blank st (some s)).st := by
        intro p hp
        by_contra hn
        exact hno ⟨p, List.mem_eraseDups.1 hp, hn⟩
      have := hD.length_le_of_subset hall
      omega
    -- a slot that holds no prefix
    have hinvslot : ∃ j, j < width ∧ validB (advance true V width ext nonext blank st (some s)).st j = false := by
      by_contra hno
      have hall : ∀ j ∈ List.range (advance true V width ext nonext blank st (some s)).st.nb.length,
          validB (advance true V width ext nonext blank st (some s)).st j = true := by
        intro j hj
        rw [List.mem_range, hsz.1] at hj
        cases hvj : validB (advance true V width ext nonext blank st (some s)).st j with
        | true => rfl
        | false => exact absurd ⟨j, hj, hvj⟩ hno
      have : (validPrefixes (advance true V width ext nonext blank st (some s)).st).length = width := by
        unfold validPrefixes
        rw [List.length_map, List.filter_eq_self.2 hall, List.length_range, hsz.1]
      omega
    obtain ⟨p, hp, hnk⟩ := hex
    obtain ⟨j, hjw, hvj⟩ := hinvslot
    have hall := hunsel p hp hnk
    obtain ⟨i, hi, hci, hsel⟩ := cand_canonical hV width hw h hf hr s hp
    by_cases hjK : j < min width (st.nb.length * (V + 1))
    · -- a selected candidate with total -inf, although a finite candidate was left out
      have ht := advance_total V width ext nonext blank st s h.clean.1 h.clean.2 hbl j hjK (hlt j hjK)
      simp only at ht
      have hneg : (getX (advance true V width ext nonext blank st (some s)).st.nb j
          + getX (advance true V width ext nonext blank st (some s)).st.b j).isNegInf = true := by
        have hjl : j < (advance true V width ext nonext blank st (some s)).st.nb.length := by rw [hsz.1]; exact hjw
        cases hinv : invF (advance true V width ext nonext blank st (some s)).st j with
        | false => rw [validB_iff.2 ⟨hjl, hinv⟩] at hvj; exact Bool.noConfusion hvj
        | true =>
          unfold invF at hinv
          simp only [Bool.and_eq_true, decide_eq_true_eq] at hinv
          exact hinv.2
      rw [ht] at hneg
      have := hall j hjK
      cases hc : getX (advance true V width ext nonext blank st (some s)).cand (getN s j) with
      | negInf => rw [hc] at this; exact Bool.noConfusion this
      | fin q => rw [hc] at hneg; exact Bool.noConfusion hneg
      | posInf => rw [hc] at hneg; exact Bool.noConfusion hneg
      | nan => rw [hc] at hneg; exact Bool.noConfusion hneg
    · -- the width exceeds the number of candidates: every candidate is selected
      have hKe : min width (st.nb.length * (V + 1)) = st.nb.length * V + st.nb.length := by
        have : st.nb.length * (V + 1) = st.nb.length * V + st.nb.length := by rw [Nat.mul_succ]
        omega
      have hsn : s.Nodup := by
        simp only [isTopK, Bool.and_eq_true] at hk
        exact nodup_of_nodupB s hk.1.1.2
      have hmem : i ∈ s := by
        apply mem_of_nodup_full s _ hsn (hlen.trans hKe) ?_ i hi
        intro x hx
        obtain ⟨j', hj', e⟩ := List.mem_iff_getElem.1 hx
        have := hlt j' (by omega)
        rw [getN_eq_getElem s j' hj', e] at this
        exact this
      obtain ⟨j', hj', e⟩ := List.mem_iff_getElem.1 hmem
      have hj'K : j' < min width (st.nb.length * (V + 1)) := by omega
      obtain ⟨hv, hpj⟩ := hsel j' hj'K (by rw [getN_eq_getElem s j' hj', e])
      exact hnk (mem_validPrefixes.2 ⟨j', hv, hpj⟩)
  · -- sorted
    unfold validPrefixes
    rw [List.pairwise_map]
    refine hpw.imp_of_mem ?_
    intro a b ha hb hab
    exact hle a b (by omega) (hmemv ha) (hmemv hb)
  · -- best
    intro p hp hnk q hq
    obtain ⟨j, hv, rfl⟩ := mem_validPrefixes.1 hq
    have hall := hunsel p hp hnk
    obtain ⟨hj, hs, _, _⟩ := prov hV width h hf s hk j hv
    have ht := advance_total V width ext nonext blank st s h.clean.1 h.clean.2 hbl j hj hs
    simp only at ht
    have := hall j hj
    rw [← ht, out_total hV width h hf hr s hk j hv] at this
    exact XR.le_fin_iff.1 this

end Link2

/-- **a good run of the array code is a valid run of the map recursion**: the survivors the array code
chooses at every frame (the prefixes of its real slots) are legitimate best-`width` choices. -/
theorem goodRun_validRun {V : Nat} (hV : 0 < V) (width : Nat) (hw : 0 < width) :
    ∀ (frames : List FrameIn) (fs : List Frame) (st : State) (bm : Beam),
      WF V st → Rep bm st → GoodRun V width st frames fs →
      ValidRun V width fs (keepsOf V width st frames) bm
  | [], [], _, _, _, _, _ => by simp [keepsOf, ValidRun]
  | [], _ :: _, _, _, _, _, hg => by simp [GoodRun] at hg
  | _ :: _, [], _, _, _, _, hg => by simp [GoodRun] at hg
  | fr :: frs, f :: fs, st, bm, h, hr, hg => by
    obtain ⟨s, hsel, hf, hext, hne, hk, hrest⟩ := hg
    simp only [keepsOf, hsel, ValidRun]
    exact ⟨isTopK_to_spec hV width hw h hf hr s hk hext hne,
      goodRun_validRun hV width hw frs fs _ _ (wf_advance hV width h hf s hk hext hne)
        (rep_step hV width h hf s hk hext hne hr) hrest⟩

end PdtVerif.CtcPrefix
