import PdtVerif.Lemmas.Checkpoint
/-!
# Lemmas for C16, second part: when is an update crash safe?

* history row first (`save_info_first`) ⇒ a crash right after the row leaves an unrecoverable disk
  (`c16_infofirst_window`), for every format pair; with `step_main` this gives the characterisation
  `c16_rec_step_iff`;
* formats without the epoch field (`constP`): `c16_collision_window`;
* formats that depend on a metric only (`metricP`): `metricP_safeAt_iff`, `metricP_safeFmt_iff`;
* a data row torn in the middle: `c16_torn_row`.
-/
namespace PdtVerif.Checkpoint

/-! ## history row first -/

theorem plan_infoFirst {P : Params} {vals : List (Option Int)} {k : Nat} {d : Disk}
    (hr : refuses P vals k = false) (hif : infoFirst Quirks.fixed P vals k d = true) (s : St) :
    planUpdate Quirks.fixed P vals k d s =
      .ok (histOps Quirks.fixed d (k + 1) ++ saveOps P d (k + 1) s, cleanSet P vals k d) := by
  simp [planUpdate, mainOps, hr, hif]

/-- When the history row is appended before the checkpoint is written, the disk right after the
row (`open`, [header,] row: the first `histOps.length` calls) names epoch `k+1` while the files
under its names are what they were: unless they already hold the state to be saved, a controller
started now does not get the parameters of the epoch it believes to be the last. -/
theorem c16_infofirst_window {P : Params} {vals : List (Option Int)} {tr : Train} {d : Disk} {k : Nat}
    (hrec : RecAt P vals tr d k) (hne : loadState P d (k + 1) ≠ some (U tr (k + 1)))
    (s : St) (cl : List Path) :
    ¬ Rec P vals tr (exec d ((opsOf (histOps Quirks.fixed d (k + 1) ++ saveOps P d (k + 1) s) cl).take
      (histOps Quirks.fixed d (k + 1)).length)) := by
  intro hr
  have ht : (opsOf (histOps Quirks.fixed d (k + 1) ++ saveOps P d (k + 1) s) cl).take
      (histOps Quirks.fixed d (k + 1)).length = histOps Quirks.fixed d (k + 1) := by
    rw [opsOf, List.append_assoc, List.take_left']
    rfl
  rw [ht, exec_histOps] at hr
  obtain ⟨k', hk'⟩ := hr
  obtain ⟨h1, h2, _, _, _⟩ := hrec
  obtain ⟨hr', _⟩ := recorded_after_hist (f := d.files) (f' := d.files) (c := d.csv) (k := k) h1 h2
  have hk'' : RecAt P vals tr
      { d with csv := some (d.csv.getD [] ++ histLines Quirks.fixed d (k + 1)) } k' := hk'
  have hkk : k + 1 = k' := hk''.unique hr'
  subst hkk
  exact hne hk''.2.2.2.1

/-- **Characterisation.** From a recoverable disk with `k` epochs recorded, for ANY pair of
file-name formats, an update that does not refuse and whose new paths do not already hold the
state to be saved keeps the disk recoverable at every crash point (every part and order of the
clean-up) **iff** it is checkpoint-first, i.e. iff the code's `save_info_first` is `False`. -/
theorem c16_rec_step_iff {P : Params} {vals : List (Option Int)} {tr : Train} {d : Disk} {k : Nat}
    (hrec : RecAt P vals tr d k) (hk : k < vals.length) (hr : refuses P vals k = false)
    (hsep : Sep P vals k) (hne : loadState P d (k + 1) ≠ some (U tr (k + 1))) :
    (∀ cl', (∀ p ∈ cl', p ∈ cleanSet P vals k d) → ∀ i,
        Rec P vals tr (exec d ((opsOf (mainOps Quirks.fixed P vals k d (U tr (k + 1))) cl').take i))) ↔
      infoFirst Quirks.fixed P vals k d = false := by
  constructor
  · intro h
    cases hif : infoFirst Quirks.fixed P vals k d with
    | false => rfl
    | true =>
      exfalso
      have := h [] (fun _ hp => by cases hp) (histOps Quirks.fixed d (k + 1)).length
      simp only [mainOps, hif, if_true] at this
      exact c16_infofirst_window hrec hne _ [] this
  · intro hif cl' hcl i
    have hs : SafeAt P vals k := ⟨hr, by rw [infoFirst_fixed P vals k Disk.blank d]; exact hif⟩
    have h := step_main hrec hk hs hsep cl' hcl i
    simp only [mainOps, hif, Bool.false_eq_true, if_false]
    by_cases h9 : i < 8 + (histOps Quirks.fixed d (k + 1)).length
    · exact (h.1 h9).rec
    · exact (h.2 (by omega)).rec

/-! ## formats without the epoch field -/

/-- In every state the colliding update can start from, it either refuses or — killed right after
the history row, its second mutating call — leaves a history that names an epoch whose checkpoint
paths still hold the previous epoch's state: for formats without the epoch field no recoverable
disk with `k ≥ 1` recorded epochs survives every crash point of the next update, whatever the
metrics. -/
theorem c16_collision_window (keep : Bool) (vals : List (Option Int)) (tr : Train) (d : Disk) (k : Nat)
    (hk1 : 1 ≤ k) (hrec : RecAt (constP keep) vals tr d k)
    (hU : U tr (k + 1) ≠ U tr k) :
    (∃ e, planUpdate Quirks.fixed (constP keep) vals k d (U tr (k + 1)) = .error e) ∨
    (∃ main cl, planUpdate Quirks.fixed (constP keep) vals k d (U tr (k + 1)) = .ok (main, cl) ∧
      ¬ Rec (constP keep) vals tr (exec d ((opsOf main cl).take 2))) := by
  cases hr : refuses (constP keep) vals k with
  | true => exact Or.inl ⟨.wouldOverwriteBest, by simp [planUpdate, hr]⟩
  | false =>
    have hk0 : k ≠ 0 := by omega
    have hif : infoFirst Quirks.fixed (constP keep) vals k d = true := by
      unfold infoFirst
      cases keep with
      | true =>
        have hcb : bestOf (vals.take (k + 1)) = k + 1 := by
          unfold refuses at hr
          simpa [constP] using hr
        simp [constP, hcb]
      | false =>
        have : (List.range' 1 k).any (fun j => decide ((constP false).km j = (constP false).km (k + 1)) ||
            decide ((constP false).ko j = (constP false).ko (k + 1))) = true := by
          rw [List.any_eq_true]
          exact ⟨1, by rw [List.mem_range'_1]; omega, by simp [constP]⟩
        simp [constP, Quirks.fixed] at this ⊢
        exact this
    have hlen : (histOps Quirks.fixed d (k + 1)).length = 2 := by
      have hwh : writeHeader Quirks.fixed d = false := by
        -- `k ≥ 1` rows are recorded: the file is not empty
        have hp := recorded_range (f := d.files) (c := d.csv) hrec.1
        unfold writeHeader
        cases hc : d.csv with
        | none =>
          rw [hc] at hp
          cases k with
          | zero => omega
          | succ n => simp [parseCsv, List.range'] at hp
        | some l =>
          cases l with
          | nil =>
            rw [hc] at hp
            cases k with
            | zero => omega
            | succ n => simp [parseCsv, List.range'] at hp
          | cons _ _ => rfl
      simp [histOps, histLines, hwh]
    refine Or.inr ⟨_, _, plan_infoFirst hr hif _, ?_⟩
    have hne : loadState (constP keep) d (k + 1) ≠ some (U tr (k + 1)) := by
      have hsame : loadState (constP keep) d (k + 1) = loadState (constP keep) d k := by
        simp [loadState, constP, Params.mpath, Params.opath, hk0]
      rw [hsame, hrec.2.2.2.1]
      exact fun h => hU (Option.some.inj h).symm
    have := c16_infofirst_window hrec hne (U tr (k + 1)) (cleanSet (constP keep) vals k d)
    rw [hlen] at this
    exact this

/-! ## a data row torn in the middle -/

theorem recorded_torn {X : Disk} {rest : List Line} (h : X.csv = some (Line.header :: rest ++ [Line.torn])) :
    recorded X = none := by
  simp [recorded, h, parseCsv, rowsOf_snoc_torn]

/-- The hypothesis "a history line reaches the file whole" of `c16_rec_step_torn` is needed: in a
checkpoint-first update of ANY recoverable disk the call with index `8 + histOps.length - 1` is
the write of the data row, and when it stops half-way every later controller raises while reading
the history (`recorded = none`), although both checkpoints are in place. -/
theorem c16_torn_row {P : Params} {vals : List (Option Int)} {tr : Train} {d : Disk} {k : Nat}
    (hrec : RecAt P vals tr d k) (s : St) (cl : List Path) :
    (opsOf (saveOps P d (k + 1) s ++ histOps Quirks.fixed d (k + 1)) cl)[8 +
        (histOps Quirks.fixed d (k + 1)).length - 1]? = some (.hwrite (.row (k + 1))) ∧
    recorded (tornDisk tear d (opsOf (saveOps P d (k + 1) s ++ histOps Quirks.fixed d (k + 1)) cl)
      (8 + (histOps Quirks.fixed d (k + 1)).length - 1)) = none := by
  have hsv : (exec d (saveOps P d (k + 1) s ++ [FsOp.openAppend])).csv.getD [] = d.csv.getD [] := by
    obtain ⟨_, _, hc, _⟩ := exec_frame (fun _ => False) (saveOps P d (k + 1) s ++ [FsOp.openAppend]) d
      (fun op hop => ⟨(safe_save P d (k + 1) s op hop).1, fun _ h => h.elim⟩)
    exact hc
  by_cases hwh : writeHeader Quirks.fixed d = true
  · have hh : histOps Quirks.fixed d (k + 1) = [.openAppend, .hwrite .header, .hwrite (.row (k + 1))] := by
      simp [histOps, histLines, hwh]
    have hops : opsOf (saveOps P d (k + 1) s ++ histOps Quirks.fixed d (k + 1)) cl =
        (saveOps P d (k + 1) s ++ [FsOp.openAppend]) ++ .hwrite .header :: .hwrite (.row (k + 1)) ::
          cl.map FsOp.remove := by
      simp [opsOf, hh]
    have hlen : (saveOps P d (k + 1) s ++ [FsOp.openAppend]).length = 9 := by simp [saveOps]
    rw [hops, hh]
    have hidx : 8 + [FsOp.openAppend, .hwrite .header, .hwrite (.row (k + 1))].length - 1 = 9 + 1 := rfl
    rw [hidx]
    have hget : ((saveOps P d (k + 1) s ++ [FsOp.openAppend]) ++ FsOp.hwrite .header ::
        .hwrite (.row (k + 1)) :: cl.map FsOp.remove)[9 + 1]? = some (.hwrite (.row (k + 1))) := by
      rw [List.getElem?_append_right (by omega), hlen]
      rfl
    refine ⟨hget, ?_⟩
    unfold tornDisk
    rw [hget]
    simp only [Option.bind_some, tear]
    rw [List.take_append, List.take_of_length_le (by omega), hlen]
    simp only [Nat.add_sub_cancel_left, List.take_succ_cons, List.take_zero]
    rw [exec_append, exec_cons, exec_nil]
    apply recorded_torn (rest := [])
    simp only [exec1, hsv, (writeHeader_iff d).1 hwh, Option.getD_some]
    rfl
  · have hh : histOps Quirks.fixed d (k + 1) = [.openAppend, .hwrite (.row (k + 1))] := by
      simp [histOps, histLines, hwh]
    have hops : opsOf (saveOps P d (k + 1) s ++ histOps Quirks.fixed d (k + 1)) cl =
        (saveOps P d (k + 1) s ++ [FsOp.openAppend]) ++ .hwrite (.row (k + 1)) :: cl.map FsOp.remove := by
      simp [opsOf, hh]
    have hlen : (saveOps P d (k + 1) s ++ [FsOp.openAppend]).length = 9 := by simp [saveOps]
    rw [hops, hh]
    have hidx : 8 + [FsOp.openAppend, .hwrite (.row (k + 1))].length - 1 = 9 + 0 := rfl
    rw [hidx]
    have hget : ((saveOps P d (k + 1) s ++ [FsOp.openAppend]) ++
        FsOp.hwrite (.row (k + 1)) :: cl.map FsOp.remove)[9 + 0]? = some (.hwrite (.row (k + 1))) := by
      rw [List.getElem?_append_right (by omega), hlen]
      rfl
    refine ⟨hget, ?_⟩
    unfold tornDisk
    rw [hget]
    simp only [Option.bind_some, tear]
    rw [List.take_append, List.take_of_length_le (by omega), hlen]
    simp only [Nat.add_zero, Nat.sub_self, List.take_zero, List.append_nil]
    -- the file is not empty and healthy: it starts with the header
    obtain ⟨rest, hcsv⟩ : ∃ rest, d.csv = some (Line.header :: rest) := by
      have hh2 := hrec.2.1
      unfold writeHeader at hwh
      cases hc : d.csv with
      | none => simp [hc] at hwh
      | some l =>
        cases l with
        | nil => simp [hc, Quirks.fixed] at hwh
        | cons x xs =>
          cases x with
          | header => exact ⟨xs, rfl⟩
          | row e => rw [hc] at hh2; simp [csvHealthy] at hh2
          | torn => rw [hc] at hh2; simp [csvHealthy] at hh2
    apply recorded_torn (rest := rest)
    simp only [exec1, hsv, hcsv, Option.getD_some]

/-! ## formats that depend on a metric only -/

theorem metricAt_succ (vals : List (Option Int)) (k : Nat) (hk : k < vals.length) :
    metricAt vals (k + 1) = vals[k] := by
  simp [metricAt, hk]

/-- Keep-last-and-best, names formatted from the metric (`g` injective = two metrics give the same
name only when they are equal): the update of epoch `k+1` is checkpoint-first iff (it is the new
best, or its metric is not the best one's) and (the best is epoch `k`, or its metric is neither
epoch `k`'s nor the previous best's). -/
theorem metricP_safeAt_iff (g : Option Int → Nat) (hg : ∀ a b, g a = g b → a = b)
    (vals : List (Option Int)) (k : Nat) :
    SafeAt (metricP true g vals) vals k ↔
      ((bestOf (vals.take (k + 1)) = k + 1 ∨
          metricAt vals (k + 1) ≠ metricAt vals (bestOf (vals.take (k + 1)))) ∧
        (bestOf (vals.take (k + 1)) = k ∨
          (metricAt vals (k + 1) ≠ metricAt vals k ∧
            metricAt vals (k + 1) ≠ metricAt vals (bestOf (vals.take k))))) := by
  have hgi : ∀ a b, g a = g b ↔ a = b := fun a b => ⟨hg a b, fun h => by rw [h]⟩
  unfold SafeAt refuses infoFirst
  simp only [metricP, Bool.true_and, decide_eq_false_iff_not, if_true, hgi, or_self, not_and]
  constructor
  · rintro ⟨h1, h2⟩
    refine ⟨?_, ?_⟩
    · by_cases hc : bestOf (vals.take (k + 1)) = k + 1
      · exact Or.inl hc
      · exact Or.inr (h1 hc)
    · split at h2
      · rename_i hc; exact Or.inl hc
      · simp only [decide_eq_false_iff_not, not_or] at h2
        exact Or.inr ⟨h2.1, h2.2.1⟩
  · rintro ⟨h1, h2⟩
    refine ⟨?_, ?_⟩
    · intro hc
      rcases h1 with h1 | h1
      · exact absurd h1 hc
      · exact h1
    · split
      · rfl
      · rename_i hc
        rcases h2 with h2 | h2
        · exact absurd h2 hc
        · simp [h2.1, h2.2]

/-! ### `get_best_epoch` keeps the first strict minimum -/

/-- What the running state of `get_best_epoch` knows after the first `k` epochs. -/
structure BestInv (vals : List (Option Int)) (k : Nat) : Prop where
  le : (bestSt (vals.take k)).minE ≤ k
  val : (bestSt (vals.take k)).minV = metricAt vals (bestSt (vals.take k)).minE
  low : ∀ j x, 1 ≤ j → j ≤ k → metricAt vals j = some x →
    ∃ m, (bestSt (vals.take k)).minV = some m ∧ m ≤ x

theorem bestSt_take_succ (vals : List (Option Int)) (k : Nat) (hk : k < vals.length) :
    bestSt (vals.take (k + 1)) = bestStep (bestSt (vals.take k)) vals[k] := by
  rw [← List.take_append_getElem hk, bestSt_snoc]

theorem bestSt_take_n (vals : List (Option Int)) (k : Nat) (hk : k ≤ vals.length) :
    (bestSt (vals.take k)).n = k := by
  rw [bestSt_n, List.length_take]; omega

theorem bestInv (vals : List (Option Int)) : ∀ k, k ≤ vals.length → BestInv vals k := by
  intro k
  induction k with
  | zero =>
    intro _
    refine ⟨Nat.le_refl _, ?_, fun j x h1 h0 => by omega⟩
    simp [bestSt, metricAt]
  | succ k ih =>
    intro hk
    have hk' : k < vals.length := by omega
    obtain ⟨hle, hval, hlow⟩ := ih (by omega)
    have hn := bestSt_take_n vals k (by omega)
    have hm := metricAt_succ vals k hk'
    have hstep := bestSt_take_succ vals k hk'
    -- the four branches of `bestStep`
    cases hv : vals[k] with
    | none =>
      have hs : bestSt (vals.take (k + 1)) =
          ⟨k + 1, (bestSt (vals.take k)).minE, (bestSt (vals.take k)).minV⟩ := by
        rw [hstep, hv]; simp [bestStep, hn]
      refine ⟨by rw [hs]; simp; omega, by rw [hs]; exact hval, ?_⟩
      intro j x h1 hj hx
      rw [hs]
      by_cases hjk : j ≤ k
      · exact hlow j x h1 hjk hx
      · have : j = k + 1 := by omega
        subst this
        rw [hm, hv] at hx; cases hx
    | some x =>
      cases hmv : (bestSt (vals.take k)).minV with
      | none =>
        have hs : bestSt (vals.take (k + 1)) = ⟨k + 1, k + 1, some x⟩ := by
          rw [hstep, hv]; simp [bestStep, hmv, hn]
        refine ⟨by rw [hs]; simp, by rw [hs]; simp [hm, hv], ?_⟩
        intro j y h1 hj hy
        rw [hs]
        by_cases hjk : j ≤ k
        · obtain ⟨m, hm', _⟩ := hlow j y h1 hjk hy
          rw [hmv] at hm'; cases hm'
        · have : j = k + 1 := by omega
          subst this
          rw [hm, hv] at hy
          exact ⟨x, rfl, by cases hy; exact Int.le_refl _⟩
      | some m =>
        by_cases hlt : x < m
        · have hs : bestSt (vals.take (k + 1)) = ⟨k + 1, k + 1, some x⟩ := by
            rw [hstep, hv]; simp [bestStep, hmv, hn, hlt]
          refine ⟨by rw [hs]; simp, by rw [hs]; simp [hm, hv], ?_⟩
          intro j y h1 hj hy
          rw [hs]
          by_cases hjk : j ≤ k
          · obtain ⟨m', hm', hle'⟩ := hlow j y h1 hjk hy
            rw [hmv] at hm'; cases hm'
            exact ⟨x, rfl, by omega⟩
          · have : j = k + 1 := by omega
            subst this
            rw [hm, hv] at hy
            exact ⟨x, rfl, by cases hy; exact Int.le_refl _⟩
        · have hs : bestSt (vals.take (k + 1)) = ⟨k + 1, (bestSt (vals.take k)).minE, some m⟩ := by
            rw [hstep, hv]; simp [bestStep, hmv, hn, hlt]
          refine ⟨by rw [hs]; simp; omega, by rw [hs]; simp; rw [← hmv]; exact hval, ?_⟩
          intro j y h1 hj hy
          rw [hs]
          by_cases hjk : j ≤ k
          · obtain ⟨m', hm', hle'⟩ := hlow j y h1 hjk hy
            rw [hmv] at hm'; cases hm'
            exact ⟨m, rfl, hle'⟩
          · have : j = k + 1 := by omega
            subst this
            rw [hm, hv] at hy
            cases hy
            exact ⟨m, rfl, by omega⟩

/-- A new best epoch has a metric different from the previous epoch's and the previous best's. -/
theorem newbest_metric_ne (vals : List (Option Int)) (k : Nat) (hk : k < vals.length)
    (hnb : bestOf (vals.take (k + 1)) = k + 1) :
    metricAt vals (k + 1) ≠ metricAt vals k ∧
      metricAt vals (k + 1) ≠ metricAt vals (bestOf (vals.take k)) := by
  obtain ⟨hle, hval, hlow⟩ := bestInv vals k (by omega)
  have hn := bestSt_take_n vals k (by omega)
  have hm := metricAt_succ vals k hk
  have hstep := bestSt_take_succ vals k hk
  unfold bestOf at hnb ⊢
  rw [hstep] at hnb
  -- only the "strictly smaller" branches of `bestStep` move `minE`
  cases hv : vals[k] with
  | none =>
    rw [hv] at hnb
    simp [bestStep] at hnb
    omega
  | some x =>
    rw [hv] at hnb hm
    have hk0 : ∀ y, metricAt vals k = some y → ∃ m, (bestSt (vals.take k)).minV = some m ∧ m ≤ y := by
      intro y hy
      by_cases h0 : k = 0
      · subst h0; simp [metricAt] at hy
      · exact hlow k y (by omega) (Nat.le_refl _) hy
    cases hmv : (bestSt (vals.take k)).minV with
    | none =>
      refine ⟨?_, by rw [← hval, hmv, hm]; simp⟩
      rw [hm]
      intro h
      obtain ⟨m, hm', _⟩ := hk0 x h.symm
      rw [hmv] at hm'; cases hm'
    | some m =>
      have hlt : x < m := by
        by_cases hlt : x < m
        · exact hlt
        · simp [bestStep, hmv, hlt] at hnb
          omega
      refine ⟨?_, by rw [← hval, hmv, hm]; intro h; cases h; omega⟩
      rw [hm]
      intro h
      obtain ⟨m', hm', hle'⟩ := hk0 x h.symm
      rw [hmv] at hm'; cases hm'
      omega

/-- **Names formatted from the metric, keep-last-and-best:** every update of the history is
checkpoint-first iff every epoch that is NOT a new best (a) has a metric different from the best
one's (otherwise the update refuses) and (b) — unless the best is the epoch just before it — a
metric different from that of the epoch just before it (otherwise the history row is written first
and a crash behind it leaves a wrong checkpoint under the recorded epoch). A new best epoch is
always safe. -/
theorem metricP_safeFmt_iff (g : Option Int → Nat) (hg : ∀ a b, g a = g b → a = b)
    (vals : List (Option Int)) :
    SafeFmt (metricP true g vals) vals ↔
      ∀ k, k < vals.length → bestOf (vals.take (k + 1)) ≠ k + 1 →
        metricAt vals (k + 1) ≠ metricAt vals (bestOf (vals.take k)) ∧
          (bestOf (vals.take k) = k ∨ metricAt vals (k + 1) ≠ metricAt vals k) := by
  constructor
  · intro h k hk hnb
    have hs := (metricP_safeAt_iff g hg vals k).1 (h k hk)
    have hcb : bestOf (vals.take (k + 1)) = bestOf (vals.take k) := by
      rcases bestOf_take_succ vals k hk with h | h
      · exact h
      · exact absurd h hnb
    rw [hcb] at hs
    refine ⟨?_, ?_⟩
    · rcases hs.1 with h1 | h1
      · exact absurd (hcb ▸ h1) hnb
      · exact h1
    · rcases hs.2 with h2 | h2
      · exact Or.inl h2
      · exact Or.inr h2.1
  · intro h k hk
    rw [metricP_safeAt_iff g hg vals k]
    by_cases hnb : bestOf (vals.take (k + 1)) = k + 1
    · have := newbest_metric_ne vals k hk hnb
      exact ⟨Or.inl hnb, Or.inr this⟩
    · have hcb : bestOf (vals.take (k + 1)) = bestOf (vals.take k) := by
        rcases bestOf_take_succ vals k hk with h | h
        · exact h
        · exact absurd h hnb
      obtain ⟨h1, h2⟩ := h k hk hnb
      rw [hcb]
      refine ⟨Or.inr h1, ?_⟩
      rcases h2 with h2 | h2
      · exact Or.inl h2
      · exact Or.inr ⟨h2, h1⟩

end PdtVerif.Checkpoint
