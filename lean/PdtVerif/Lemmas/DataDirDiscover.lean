import PdtVerif.Spec.WellFormed
/-!
# Helper lemmas for the utterance discovery (`discover`, `sortNames`, `stripName`)
-/
namespace PdtVerif.DataDir

theorem nameMatches_iff (pre suf x : FName) : nameMatches pre suf x = true ↔ Matches pre suf x := by
  simp [nameMatches, Matches]

theorem mem_uttsInDir (pre suf : FName) (files : List FName) (id : FName) :
    id ∈ uttsInDir pre suf files ↔ InDir pre suf files id := by
  simp only [uttsInDir, List.mem_map, List.mem_filter, InDir, IsFileOf, nameMatches_iff]
  constructor
  · rintro ⟨x, ⟨hx, hm⟩, rfl⟩; exact ⟨x, hx, hm, rfl⟩
  · rintro ⟨x, hx, hm, rfl⟩; exact ⟨x, ⟨hx, hm⟩, rfl⟩

theorem dirInUse_iff (pre suf : FName) (o : Option (List FName)) :
    dirInUse pre suf o = true ↔ DirUsed pre suf o := by
  cases o with
  | none => simp [dirInUse, DirUsed]
  | some files => simp [dirInUse, DirUsed, nameMatches_iff]

theorem mem_restrict (subset ids : List FName) (id : FName) :
    id ∈ restrict subset ids ↔ id ∈ ids ∧ (subset ≠ [] → id ∈ subset) := by
  unfold restrict
  cases subset with
  | nil => simp
  | cons a as => simp

theorem mem_findUttIds (pre suf : FName) (subset : List FName) (l : Listing) (id : FName) :
    id ∈ findUttIds pre suf subset l ↔ Discovered pre suf subset l id := by
  unfold findUttIds Discovered
  simp only
  have ha' := dirInUse_iff pre suf l.ali
  have hr' := dirInUse_iff pre suf l.ref
  cases ha : dirInUse pre suf l.ali <;> cases hr : dirInUse pre suf l.ref
  all_goals
    rw [ha] at ha'
    rw [hr] at hr'
    simp only [Bool.false_eq_true, false_iff, true_iff] at ha' hr'
    simp only [if_true, if_false, Bool.false_eq_true, List.mem_filter, List.contains_iff_mem,
      mem_restrict, mem_uttsInDir]
    constructor
    · intro h
      simp_all
    · intro h
      simp_all

/-! ### `sorted(set(...))` -/

theorem mem_insertName (x a : FName) (l : List FName) : a ∈ insertName x l ↔ a = x ∨ a ∈ l := by
  induction l with
  | nil => simp [insertName]
  | cons y ys ih =>
    unfold insertName
    split
    · simp
    · split
      · rename_i h; subst h; simp
      · simp only [List.mem_cons, ih]
        constructor
        · rintro (h | h | h) <;> simp [h]
        · rintro (h | h | h) <;> simp [h]

theorem mem_sortNames (a : FName) (l : List FName) : a ∈ sortNames l ↔ a ∈ l := by
  induction l with
  | nil => simp [sortNames]
  | cons x xs ih =>
    have : sortNames (x :: xs) = insertName x (sortNames xs) := rfl
    rw [this, mem_insertName, ih]
    simp

theorem fname_lt_of_not (x y : FName) (h1 : ¬ x < y) (h2 : x ≠ y) : y < x := by
  have hle : y ≤ x := List.not_lt.1 h1
  rcases List.le_iff_lt_or_eq.1 hle with h | h
  · exact h
  · exact absurd h.symm h2

theorem pairwise_insertName (x : FName) (l : List FName) (h : l.Pairwise (· < ·)) :
    (insertName x l).Pairwise (· < ·) := by
  induction l with
  | nil => simp [insertName]
  | cons y ys ih =>
    rw [List.pairwise_cons] at h
    unfold insertName
    split
    · rename_i hxy
      rw [List.pairwise_cons]
      refine ⟨?_, List.pairwise_cons.2 h⟩
      intro a ha
      rcases List.mem_cons.1 ha with rfl | ha
      · exact hxy
      · exact List.lt_trans hxy (h.1 a ha)
    · rename_i hxy
      split
      · exact List.pairwise_cons.2 h
      · rename_i hne
        rw [List.pairwise_cons]
        refine ⟨?_, ih h.2⟩
        intro a ha
        rcases (mem_insertName _ _ _).1 ha with rfl | ha
        · exact fname_lt_of_not _ _ hxy hne
        · exact h.1 a ha

theorem pairwise_sortNames (l : List FName) : (sortNames l).Pairwise (· < ·) := by
  induction l with
  | nil => simp [sortNames]
  | cons x xs ih => exact pairwise_insertName x _ ih

/-! ### `x[fpl:neg_fsl]` really is what lies between the prefix and the suffix -/

theorem stripName_append (pre suf m : FName) : stripName pre suf (pre ++ (m ++ suf)) = m := by
  unfold stripName
  rw [List.drop_left]
  have : (pre ++ (m ++ suf)).length - suf.length - pre.length = m.length := by
    simp only [List.length_append]; omega
  rw [this, List.take_left]

theorem stripName_fileOf (pre suf id : FName) : stripName pre suf (fileOf pre suf id) = id := by
  unfold fileOf
  rw [List.append_assoc]
  exact stripName_append _ _ _

theorem matches_fileOf (pre suf id : FName) : Matches pre suf (fileOf pre suf id) := by
  refine ⟨⟨id ++ suf, by simp [fileOf]⟩, ⟨pre ++ id, rfl⟩⟩

theorem fileOf_stripName (pre suf x : FName) (hm : Matches pre suf x)
    (hlen : pre.length + suf.length ≤ x.length) : fileOf pre suf (stripName pre suf x) = x := by
  obtain ⟨⟨t, ht⟩, ⟨s, hs⟩⟩ := hm
  subst ht
  -- x = pre ++ t = s ++ suf, and |t| ≥ |suf|: t = m ++ suf
  have hlt : suf.length ≤ t.length := by simp at hlen; omega
  have hsuf : suf <:+ t := by
    have h1 : suf <:+ pre ++ t := ⟨s, hs⟩
    have h2 : t <:+ pre ++ t := ⟨pre, rfl⟩
    exact List.suffix_of_suffix_length_le h1 h2 hlt
  obtain ⟨m, hm⟩ := hsuf
  subst hm
  rw [stripName_append]
  simp [fileOf, List.append_assoc]

end PdtVerif.DataDir
