import PdtVerif.Spec.WellFormed
/-!
# Helper lemmas for C12

Every block of the model succeeds exactly when the documented repair of its input satisfies the
block's share of the documented conditions, and then returns that repair.
-/
namespace PdtVerif.DataDir

instance {ε α} [DecidableEq ε] [DecidableEq α] : DecidableEq (Except ε α)
  | .ok a, .ok b => if h : a = b then isTrue (by rw [h]) else isFalse (by intro h'; cases h'; exact h rfl)
  | .error a, .error b =>
    if h : a = b then isTrue (by rw [h]) else isFalse (by intro h'; cases h'; exact h rfl)
  | .ok _, .error _ => isFalse (by intro h; cases h)
  | .error _, .ok _ => isFalse (by intro h; cases h)

theorem fixDev_ok (fix : Option Nat) (dev dev' : Device) :
    fixDev fix dev = .ok dev' ↔ dev' = repairDev fix dev ∧ dev' = .cpu := by
  cases dev <;> cases fix <;> simp [fixDev, repairDev] <;> (try (intro h; subst h; simp)) <;>
    (try (constructor <;> intro h <;> simp_all))

theorem fixLong_ok (fix : Option Nat) (dt dt' : DType) :
    fixLong fix dt = .ok dt' ↔ dt' = repairLong fix dt ∧ dt' = .i64 := by
  cases dt <;> cases fix <;> simp [fixLong, repairLong, DType.narrowInt] <;>
    (try (intro h; subst h; simp)) <;> (try (constructor <;> intro h <;> simp_all))

theorem checkAliData_ok (fix : Option Nat) (T : Nat) (a a' : AliData) :
    checkAliData fix T a = .ok a' ↔ a' = repairAliData fix T a ∧ a'.is1d ∧ a'.lenIs T := by
  cases a with
  | nd s fl => simp [checkAliData, repairAliData]; intro h; subst h; simp [AliData.is1d]
  | vec v =>
    cases fix with
    | none =>
      simp only [checkAliData, repairAliData]
      by_cases hT : v.length = T
      · rw [if_pos hT]
        simp only [Except.ok.injEq]
        constructor
        · intro h; subst h; simp [AliData.is1d, AliData.lenIs, hT]
        · intro h; exact h.1.symm
      · rw [if_neg hT]
        simp only [reduceCtorEq, false_iff]
        rintro ⟨rfl, -, h⟩; exact hT h
    | some k =>
      simp only [checkAliData, repairAliData]
      by_cases hT : v.length = T
      · rw [if_pos hT]
        have : ¬ (T < v.length ∧ v.length ≤ T + k) := by omega
        rw [if_neg this]
        simp only [Except.ok.injEq]
        constructor
        · intro h; subst h; simp [AliData.is1d, AliData.lenIs, hT]
        · intro h; exact h.1.symm
      · rw [if_neg hT]
        by_cases hk : T < v.length ∧ v.length ≤ T + k
        · rw [if_pos hk, if_pos hk]
          simp only [Except.ok.injEq]
          constructor
          · intro h; subst h
            simp only [AliData.is1d, AliData.lenIs, List.length_take, true_and]
            omega
          · intro h; exact h.1.symm
        · rw [if_neg hk, if_neg hk]
          simp only [reduceCtorEq, false_iff]
          rintro ⟨rfl, -, h⟩; exact hT h

/-- Alignment block. -/
theorem checkAli_ok (fix : Option Nat) (T : Nat) (a a' : Ali) :
    checkAli fix T a = .ok a' ↔
      a' = ⟨repairLong fix a.dtype, repairDev fix a.dev, repairAliData fix T a.data⟩
        ∧ a'.dev = .cpu ∧ a'.dtype = .i64 ∧ a'.data.is1d ∧ a'.data.lenIs T := by
  unfold checkAli
  constructor
  · intro h
    split at h
    · cases h
    · rename_i dev hdev
      split at h
      · cases h
      · rename_i dt hdt
        split at h
        · cases h
        · rename_i data hdata
          cases h
          obtain ⟨h1, h2⟩ := (fixDev_ok _ _ _).1 hdev
          obtain ⟨h3, h4⟩ := (fixLong_ok _ _ _).1 hdt
          obtain ⟨h5, h6, h7⟩ := (checkAliData_ok _ _ _ _).1 hdata
          refine ⟨?_, h2, h4, h6, h7⟩
          rw [← h1, ← h3, ← h5]
  · rintro ⟨rfl, h2, h4, h6, h7⟩
    have hdev := (fixDev_ok fix a.dev _).2 ⟨rfl, h2⟩
    have hdt := (fixLong_ok fix a.dtype _).2 ⟨rfl, h4⟩
    have hdata := (checkAliData_ok fix T a.data _).2 ⟨rfl, h6, h7⟩
    simp only [hdev, hdt, hdata]

/-- One reference token. -/
theorem fixRow_ok (fix : Option Nat) (T : Nat) (r r' : Row) :
    fixRow fix T r = .ok r' ↔ r' = repairRow fix T r ∧ RowOk T r' := by
  obtain ⟨tok, s, e⟩ := r
  cases fix with
  | none =>
    simp only [fixRow, repairRow, RowOk, Option.isSome_none, Bool.false_eq_true, if_false]
    constructor
    · intro h
      split at h
      · cases h; simp_all
      · split at h
        · cases h
        · split at h
          · cases h
          · split at h
            · cases h
            · cases h; refine ⟨rfl, Or.inr ?_⟩; dsimp only at *; omega
    · rintro ⟨rfl, h⟩
      dsimp only at h
      split
      · rfl
      · split
        · omega
        · split
          · omega
          · split
            · omega
            · rfl
  | some k =>
    simp only [fixRow, repairRow, RowOk, Option.isSome_some, if_true]
    constructor
    · intro h
      split at h
      · cases h
        rename_i h0
        have : ¬ ((s < 0 ∧ 0 ≤ e) ∨ (0 ≤ s ∧ e < 0)) := by omega
        rw [if_neg this]
        have : ¬ (0 ≤ s ∧ s ≤ e ∧ (T : Int) < e ∧ e ≤ (T : Int) + k ∧ s ≤ (T : Int)) := by omega
        rw [if_neg this]
        exact ⟨rfl, Or.inl h0⟩
      · rename_i h0
        split at h
        · cases h
          have : (s < 0 ∧ 0 ≤ e) ∨ (0 ≤ s ∧ e < 0) := by omega
          rw [if_pos this]
          refine ⟨rfl, Or.inl ?_⟩
          dsimp only; omega
        · rename_i h1
          have hn : ¬ ((s < 0 ∧ 0 ≤ e) ∨ (0 ≤ s ∧ e < 0)) := by omega
          rw [if_neg hn]
          split at h
          · cases h
          · rename_i h2
            split at h
            · rename_i h3
              split at h
              · rename_i h4
                cases h
                have : 0 ≤ s ∧ s ≤ e ∧ (T : Int) < e ∧ e ≤ (T : Int) + k ∧ s ≤ (T : Int) := by omega
                rw [if_pos this]
                refine ⟨rfl, Or.inr ?_⟩
                dsimp only; omega
              · cases h
            · cases h
              have : ¬ (0 ≤ s ∧ s ≤ e ∧ (T : Int) < e ∧ e ≤ (T : Int) + k ∧ s ≤ (T : Int)) := by omega
              rw [if_neg this]
              refine ⟨rfl, Or.inr ?_⟩
              dsimp only; omega
    · rintro ⟨rfl, h⟩
      by_cases h0 : (s < 0 ∧ 0 ≤ e) ∨ (0 ≤ s ∧ e < 0)
      · rw [if_pos h0]
        have : ¬ (s < 0 ∧ e < 0) := by omega
        rw [if_neg this]
        have : s < 0 ∨ e < 0 := by omega
        rw [if_pos this]
      · rw [if_neg h0] at h ⊢
        by_cases h1 : 0 ≤ s ∧ s ≤ e ∧ (T : Int) < e ∧ e ≤ (T : Int) + k ∧ s ≤ (T : Int)
        · rw [if_pos h1]
          have : ¬ (s < 0 ∧ e < 0) := by omega
          rw [if_neg this]
          have : ¬ (s < 0 ∨ e < 0) := by omega
          rw [if_neg this]
          have : ¬ (e < s) := by omega
          rw [if_neg this]
          have : (T : Int) < e := by omega
          rw [if_pos this]
          have : s ≤ (T : Int) ∧ e - (k : Int) ≤ (T : Int) := by omega
          rw [if_pos this]
        · rw [if_neg h1] at h ⊢
          dsimp only at h
          by_cases h2 : s < 0 ∧ e < 0
          · rw [if_pos h2]
          · rw [if_neg h2]
            have : ¬ (s < 0 ∨ e < 0) := by omega
            rw [if_neg this]
            have : ¬ (e < s) := by omega
            rw [if_neg this]
            have : ¬ ((T : Int) < e) := by omega
            rw [if_neg this]

/-- The row loop. -/
theorem fixRows_ok (fix : Option Nat) (T : Nat) (rs rs' : List Row) :
    fixRows fix T rs = .ok rs' ↔ rs' = rs.map (repairRow fix T) ∧ ∀ r ∈ rs', RowOk T r := by
  induction rs generalizing rs' with
  | nil => simp only [fixRows, Except.ok.injEq, List.map_nil]
           constructor
           · intro h; subst h; simp
           · intro h; exact h.1.symm
  | cons r rs ih =>
    simp only [fixRows, List.map_cons]
    constructor
    · intro h
      split at h
      · cases h
      · rename_i r1 hr
        split at h
        · cases h
        · rename_i rs1 hrs
          cases h
          obtain ⟨h1, h2⟩ := (fixRow_ok _ _ _ _).1 hr
          obtain ⟨h3, h4⟩ := (ih _).1 hrs
          refine ⟨by rw [h1, h3], ?_⟩
          intro x hx
          rcases List.mem_cons.1 hx with rfl | hx
          · exact h2
          · exact h4 _ hx
    · rintro ⟨rfl, h⟩
      have hr := (fixRow_ok fix T r _).2 ⟨rfl, h _ (List.mem_cons_self)⟩
      have hrs := (ih _).2 ⟨rfl, fun x hx => h x (List.mem_cons_of_mem _ hx)⟩
      simp only [hr, hrs]

/-- Dimensionality bookkeeping + boundary repairs. -/
theorem checkRefData_ok (fix : Option Nat) (T : Nat) (is2d is2d' : Option Bool) (rd rd' : RefData) :
    checkRefData fix T is2d rd = .ok (rd', is2d') ↔
      rd' = repairRefData fix T rd ∧ rd'.dimOk ∧ rd'.widthOk ∧ (∀ row ∈ rd'.rows, RowOk T row)
        ∧ (is2d = none ∨ is2d = some rd'.is2d) ∧ is2d' = some rd'.is2d := by
  cases rd with
  | nd s =>
    simp only [checkRefData, repairRefData, reduceCtorEq, false_iff]
    rintro ⟨rfl, h, -⟩; exact h
  | d2w r w =>
    simp only [checkRefData, repairRefData]
    constructor
    · intro h; split at h <;> cases h
    · rintro ⟨rfl, -, h, -⟩; exact absurd h (by simp [RefData.widthOk])
  | d1 toks =>
    simp only [checkRefData, repairRefData]
    constructor
    · intro h
      split at h
      · cases h
      · rename_i h0
        cases h
        refine ⟨rfl, trivial, trivial, by simp [RefData.rows], ?_, rfl⟩
        simp only [RefData.is2d]
        cases is2d with
        | none => exact Or.inl rfl
        | some b => cases b <;> simp_all
    · rintro ⟨rfl, -, -, -, h, rfl⟩
      simp only [RefData.is2d] at h ⊢
      have : ¬ (is2d = some true) := by rcases h with h | h <;> simp [h]
      rw [if_neg this]
  | d2 rows =>
    simp only [checkRefData, repairRefData]
    constructor
    · intro h
      split at h
      · cases h
      · rename_i h0
        split at h
        · cases h
        · rename_i rows' hrows
          cases h
          obtain ⟨h1, h2⟩ := (fixRows_ok _ _ _ _).1 hrows
          refine ⟨by rw [h1], trivial, trivial, h2, ?_, rfl⟩
          simp only [RefData.is2d]
          cases is2d with
          | none => exact Or.inl rfl
          | some b => cases b <;> simp_all
    · rintro ⟨rfl, -, -, h4, h, rfl⟩
      simp only [RefData.is2d] at h ⊢
      have : ¬ (is2d = some false) := by rcases h with h | h <;> simp [h]
      rw [if_neg this]
      have hrows := (fixRows_ok fix T rows _).2 ⟨rfl, h4⟩
      simp only [hrows]

/-- Reference block up to its save. -/
theorem checkRef_ok (fix : Option Nat) (T : Nat) (is2d is2d' : Option Bool) (r r' : Ref) :
    checkRef fix T is2d r = .ok (r', is2d') ↔
      r' = ⟨repairLong fix r.dtype, repairDev fix r.dev, repairRefData fix T r.data⟩
        ∧ r'.dev = .cpu ∧ r'.dtype = .i64 ∧ r'.data.dimOk ∧ r'.data.widthOk
        ∧ (∀ row ∈ r'.data.rows, RowOk T row)
        ∧ (is2d = none ∨ is2d = some r'.data.is2d) ∧ is2d' = some r'.data.is2d := by
  unfold checkRef
  constructor
  · intro h
    split at h
    · cases h
    · rename_i dev hdev
      split at h
      · cases h
      · rename_i dt hdt
        split at h
        · cases h
        · rename_i data i2 hdata
          cases h
          obtain ⟨h1, h2⟩ := (fixDev_ok _ _ _).1 hdev
          obtain ⟨h3, h4⟩ := (fixLong_ok _ _ _).1 hdt
          obtain ⟨h5, h6, h7, h8, h9, h10⟩ := (checkRefData_ok _ _ _ _ _ _).1 hdata
          refine ⟨?_, h2, h4, h6, h7, h8, h9, h10⟩
          rw [← h1, ← h3, ← h5]
  · rintro ⟨rfl, h2, h4, h6, h7, h8, h9, rfl⟩
    have hdev := (fixDev_ok fix r.dev _).2 ⟨rfl, h2⟩
    have hdt := (fixLong_ok fix r.dtype _).2 ⟨rfl, h4⟩
    have hdata := (checkRefData_ok fix T is2d _ r.data _).2 ⟨rfl, h6, h7, h8, h9, rfl⟩
    simp only [hdev, hdt, hdata]

/-- Feature block. -/
theorem checkFeat_ok (fix : Option Nat) (st st' : St) (f f' : Feat) :
    checkFeat fix st f = .ok (f', st') ↔
      f' = { f with dev := repairDev fix f.dev } ∧ f'.isTensor = true ∧ f'.dev = .cpu
        ∧ f'.dims.length = 2
        ∧ (st.featDtype = none ∨ st.featDtype = some f.dtype)
        ∧ (st.numFilts = none ∨ st.numFilts = f.dims[1]?)
        ∧ st' = { st with featDtype := some f.dtype
                          numFilts := match st.numFilts with
                            | none => f.dims[1]?
                            | some nf => some nf } := by
  unfold checkFeat
  constructor
  · intro h
    split at h
    · cases h
    · rename_i h0
      split at h
      · cases h
      · rename_i dev hdev
        obtain ⟨h1, h2⟩ := (fixDev_ok _ _ _).1 hdev
        have hT : f.isTensor = true := by
          cases hb : f.isTensor with
          | true => rfl
          | false => exact absurd (Or.inl hb) h0
        have hD : st.featDtype = none ∨ st.featDtype = some f.dtype := by
          by_cases hn : st.featDtype = none
          · exact Or.inl hn
          · by_cases hs : st.featDtype = some f.dtype
            · exact Or.inr hs
            · exact absurd (Or.inr ⟨hn, hs⟩) h0
        split at h
        · rename_i T F hdims
          split at h
          · rename_i hnf
            cases h
            refine ⟨by rw [h1], hT, h2, by rw [hdims]; rfl, hD, Or.inl hnf, ?_⟩
            simp [hnf, hdims]
          · rename_i nf hnf
            split at h
            · cases h
            · rename_i hF
              cases h
              have hF' : F = nf := by
                by_cases hh : F = nf
                · exact hh
                · exact absurd hh hF
              refine ⟨by rw [h1], hT, h2, by rw [hdims]; rfl, hD, Or.inr ?_, ?_⟩
              · simp [hnf, hdims, hF']
              · simp [hnf]
        · cases h
  · rintro ⟨rfl, hT, h2, hlen, hD, hN, rfl⟩
    dsimp only at hT h2 hlen
    have h0 : ¬ (f.isTensor = false ∨ st.featDtype ≠ none ∧ st.featDtype ≠ some f.dtype) := by
      rintro (h | ⟨h, h'⟩)
      · rw [hT] at h; cases h
      · rcases hD with hD | hD
        · exact h hD
        · exact h' hD
    rw [if_neg h0]
    have hdev := (fixDev_ok fix f.dev _).2 ⟨rfl, h2⟩
    simp only [hdev]
    match hdims : f.dims, hlen with
    | [T, F], _ =>
      simp only
      rcases hN with hN | hN
      · simp [hN]
      · rw [hdims] at hN
        simp only [List.getElem?_cons_succ, List.getElem?_cons_zero] at hN
        simp [hN]

theorem tokCheck_ok (r : Ref) : tokCheck r = .ok () ↔ ∀ t ∈ r.data.toks, 0 ≤ t := by
  unfold tokCheck
  split
  · rename_i h
    simp only [List.all_eq_true, decide_eq_true_eq] at h
    simp only [true_iff]
    exact h
  · rename_i h
    simp only [List.all_eq_true, decide_eq_true_eq] at h
    simp only [reduceCtorEq, false_iff]
    exact h

/-- Everything the validation demands of one utterance on its own. -/
def UttOk (u : Utt) : Prop :=
  (u.feat.isTensor = true ∧ u.feat.dev = .cpu ∧ u.feat.dims.length = 2)
  ∧ optAll (fun a => a.dev = .cpu ∧ a.dtype = .i64 ∧ a.data.is1d ∧ a.data.lenIs u.feat.T) u.ali
  ∧ optAll (fun r => r.dev = .cpu ∧ r.dtype = .i64 ∧ r.data.dimOk ∧ r.data.widthOk
      ∧ (∀ row ∈ r.data.rows, RowOk u.feat.T row) ∧ (∀ t ∈ r.data.toks, 0 ≤ t)) u.ref

/-- The utterance agrees with what the loop remembers of earlier utterances. -/
def St.compat (st : St) (u : Utt) : Prop :=
  (st.featDtype = none ∨ st.featDtype = some u.feat.dtype)
  ∧ (st.numFilts = none ∨ st.numFilts = u.feat.dims[1]?)
  ∧ optAll (fun r => st.refIs2d = none ∨ st.refIs2d = some r.data.is2d) u.ref

/-- What the loop remembers after the utterance. -/
def St.next (st : St) (u : Utt) : St :=
  { numFilts := match st.numFilts with
      | none => u.feat.dims[1]?
      | some nf => some nf
    refIs2d := match u.ref with
      | none => st.refIs2d
      | some r => some r.data.is2d
    featDtype := some u.feat.dtype }

/-- One iteration of the loop succeeds exactly when the repaired utterance is fine on its own and
agrees with the loop state; it then leaves that repaired utterance on disk. -/
theorem stepUtt_ok (fix : Option Nat) (st st' : St) (u u' : Utt) :
    stepUtt fix st u = (u', .ok st') ↔
      u' = repairUtt fix u ∧ UttOk u' ∧ st.compat u' ∧ st' = st.next u' := by
  obtain ⟨f, ali, ref⟩ := u
  constructor
  · intro h
    unfold stepUtt at h
    dsimp only at h
    split at h
    · cases h
    · rename_i f' st1 hf
      obtain ⟨hf1, hf2, hf3, hf4, hf5, hf6, hf7⟩ := (checkFeat_ok _ _ _ _ _).1 hf
      have hT : f'.T = f.T := by rw [hf1]; rfl
      have hdims : f'.dims = f.dims := by rw [hf1]
      have hdt : f'.dtype = f.dtype := by rw [hf1]
      cases ali with
      | none =>
        dsimp only at h
        cases ref with
        | none =>
          dsimp only at h
          cases h
          refine ⟨by simp [repairUtt, hf1], ⟨⟨hf2, hf3, hf4⟩, trivial, trivial⟩,
            ⟨by rw [hdt]; exact hf5, by rw [hdims]; exact hf6, trivial⟩, ?_⟩
          rw [hf7]; simp [St.next, hdims, hdt]
        | some r =>
          dsimp only at h
          split at h
          · cases h
          · rename_i r' i2 hr
            obtain ⟨hr1, hr2, hr3, hr4, hr5, hr6, hr7, hr8⟩ := (checkRef_ok _ _ _ _ _ _).1 hr
            split at h
            · cases h
            · rename_i htok
              cases h
              have htok' := (tokCheck_ok _).1 htok
              rw [hT] at hr1 hr6
              have hst1 : st1.refIs2d = st.refIs2d := by rw [hf7]
              refine ⟨by simp [repairUtt, hf1, hr1], ⟨⟨hf2, hf3, hf4⟩, trivial, ?_⟩,
                ⟨by rw [hdt]; exact hf5, by rw [hdims]; exact hf6, ?_⟩, ?_⟩
              · simp only [optAll]; rw [hT]; exact ⟨hr2, hr3, hr4, hr5, hr6, htok'⟩
              · simp only [optAll]; rw [← hst1]; exact hr7
              · rw [hf7, hr8]; simp [St.next, hdims, hdt]
      | some a =>
        dsimp only at h
        cases ha : checkAli fix f'.T a with
        | error e => rw [ha] at h; cases h
        | ok a' =>
          rw [ha] at h
          obtain ⟨ha1, ha2, ha3, ha4, ha5⟩ := (checkAli_ok _ _ _ _).1 ha
          rw [hT] at ha1 ha5
          simp only [Except.map] at h
          cases ref with
          | none =>
            dsimp only at h
            cases h
            refine ⟨by simp [repairUtt, hf1, ha1], ⟨⟨hf2, hf3, hf4⟩, ?_, trivial⟩,
              ⟨by rw [hdt]; exact hf5, by rw [hdims]; exact hf6, trivial⟩, ?_⟩
            · simp only [optAll]; rw [hT]; exact ⟨ha2, ha3, ha4, ha5⟩
            · rw [hf7]; simp [St.next, hdims, hdt]
          | some r =>
            dsimp only at h
            split at h
            · cases h
            · rename_i r' i2 hr
              obtain ⟨hr1, hr2, hr3, hr4, hr5, hr6, hr7, hr8⟩ := (checkRef_ok _ _ _ _ _ _).1 hr
              split at h
              · cases h
              · rename_i htok
                cases h
                have htok' := (tokCheck_ok _).1 htok
                rw [hT] at hr1 hr6
                have hst1 : st1.refIs2d = st.refIs2d := by rw [hf7]
                refine ⟨by simp [repairUtt, hf1, hr1, ha1], ⟨⟨hf2, hf3, hf4⟩, ?_, ?_⟩,
                  ⟨by rw [hdt]; exact hf5, by rw [hdims]; exact hf6, ?_⟩, ?_⟩
                · simp only [optAll]; rw [hT]; exact ⟨ha2, ha3, ha4, ha5⟩
                · simp only [optAll]; rw [hT]; exact ⟨hr2, hr3, hr4, hr5, hr6, htok'⟩
                · simp only [optAll]; rw [← hst1]; exact hr7
                · rw [hf7, hr8]; simp [St.next, hdims, hdt]
  · rintro ⟨rfl, ⟨⟨hf2, hf3, hf4⟩, hali, href⟩, ⟨hc1, hc2, hc3⟩, rfl⟩
    simp only [repairUtt] at hf2 hf3 hf4 hali href hc1 hc2 hc3
    have hf := (checkFeat_ok fix st _ f _).2 ⟨rfl, hf2, hf3, hf4, hc1, hc2, rfl⟩
    unfold stepUtt
    simp only [hf]
    have hT : ({ f with dev := repairDev fix f.dev } : Feat).T = f.T := rfl
    cases ali with
    | none =>
      cases ref with
      | none => simp [repairUtt, St.next]
      | some r =>
        simp only [Option.map_some, optAll] at href hc3
        obtain ⟨hr2, hr3, hr4, hr5, hr6, htok⟩ := href
        have hr := (checkRef_ok fix f.T st.refIs2d _ r _).2 ⟨rfl, hr2, hr3, hr4, hr5, hr6, hc3, rfl⟩
        have ht := (tokCheck_ok ⟨repairLong fix r.dtype, repairDev fix r.dev,
          repairRefData fix f.T r.data⟩).2 htok
        simp only [hT, hr, ht]
        simp [repairUtt, St.next]
    | some a =>
      simp only [Option.map_some, optAll] at hali
      obtain ⟨ha2, ha3, ha4, ha5⟩ := hali
      have ha := (checkAli_ok fix f.T a _).2 ⟨rfl, ha2, ha3, ha4, ha5⟩
      cases ref with
      | none => simp [hT, ha, Except.map, repairUtt, St.next]
      | some r =>
        simp only [Option.map_some, optAll] at href hc3
        obtain ⟨hr2, hr3, hr4, hr5, hr6, htok⟩ := href
        have hr := (checkRef_ok fix f.T st.refIs2d _ r _).2 ⟨rfl, hr2, hr3, hr4, hr5, hr6, hc3, rfl⟩
        have ht := (tokCheck_ok ⟨repairLong fix r.dtype, repairDev fix r.dev,
          repairRefData fix f.T r.data⟩).2 htok
        simp only [hT, ha, Except.map, hr, ht]
        simp [repairUtt, St.next]

/-- Every utterance is fine on its own and agrees with what the loop remembers when it gets there. -/
def Chain : St → Dir → Prop
  | _, [] => True
  | st, u :: us => UttOk u ∧ st.compat u ∧ Chain (st.next u) us

/-- The loop returns normally exactly when the repaired directory passes utterance by utterance,
and then the repaired directory is what is on disk. -/
theorem run_ok (fix : Option Nat) (st : St) (d d' : Dir) :
    run fix st d = (d', none) ↔ d' = d.map (repairUtt fix) ∧ Chain st d' := by
  induction d generalizing st d' with
  | nil =>
    simp only [run, List.map_nil, Prod.mk.injEq, and_true]
    constructor
    · intro h; subst h; exact ⟨rfl, trivial⟩
    · intro h; exact h.1.symm
  | cons u us ih =>
    unfold run
    cases hs : stepUtt fix st u with
    | mk u1 res =>
      cases res with
      | error e =>
        simp only [Prod.mk.injEq, reduceCtorEq, and_false, false_iff]
        rintro ⟨rfl, hc⟩
        simp only [List.map_cons, Chain] at hc
        have := (stepUtt_ok fix st _ u _).2 ⟨rfl, hc.1, hc.2.1, rfl⟩
        rw [this] at hs
        cases hs
      | ok st1 =>
        obtain ⟨h1, h2, h3, h4⟩ := (stepUtt_ok _ _ _ _ _).1 hs
        simp only [Prod.mk.injEq, List.map_cons]
        constructor
        · rintro ⟨rfl, hr⟩
          have hrun : run fix st1 us = ((run fix st1 us).1, none) := by rw [← hr]
          obtain ⟨h5, h6⟩ := (ih _ _).1 hrun
          refine ⟨by rw [h1, h5], ?_⟩
          simp only [Chain]
          rw [← h4]
          exact ⟨h2, h3, h6⟩
        · rintro ⟨rfl, hc⟩
          simp only [Chain] at hc
          rw [← h1, ← h4] at hc
          have := (ih st1 _).2 ⟨rfl, hc.2.2⟩
          rw [this, h1]
          exact ⟨rfl, rfl⟩

/-- The three things the loop compares across utterances, as pairwise statements. -/
def Pairwise3 (d : Dir) : Prop :=
  (∀ u ∈ d, ∀ v ∈ d, u.feat.dtype = v.feat.dtype)
  ∧ (∀ u ∈ d, ∀ v ∈ d, u.feat.dims[1]? = v.feat.dims[1]?)
  ∧ (∀ u ∈ d, ∀ v ∈ d, optAll (fun r => optAll (fun q => r.data.is2d = q.data.is2d) v.ref) u.ref)

theorem chain_iff (st : St) (d : Dir) :
    Chain st d ↔ (∀ u ∈ d, UttOk u ∧ st.compat u) ∧ Pairwise3 d := by
  induction d generalizing st with
  | nil => simp [Chain, Pairwise3]
  | cons u us ih =>
    simp only [Chain, ih]
    constructor
    · rintro ⟨hu, hc, hall, hp1, hp2, hp3⟩
      obtain ⟨hc1, hc2, hc3⟩ := hc
      have hF : ∃ F, u.feat.dims[1]? = some F := by
        have := hu.1.2.2
        match hd : u.feat.dims, this with
        | [a, b], _ => exact ⟨b, rfl⟩
      obtain ⟨F, hF⟩ := hF
      -- what the later utterances' compatibility with the new state means
      have key : ∀ v ∈ us, u.feat.dtype = v.feat.dtype ∧ u.feat.dims[1]? = v.feat.dims[1]?
          ∧ st.compat v
          ∧ optAll (fun r => optAll (fun q => r.data.is2d = q.data.is2d) v.ref) u.ref := by
        intro v hv
        obtain ⟨-, hv1, hv2, hv3⟩ := hall v hv
        simp only [St.next] at hv1 hv2 hv3
        have e1 : u.feat.dtype = v.feat.dtype := by
          rcases hv1 with h | h
          · cases h
          · exact Option.some.inj h
        have e2 : u.feat.dims[1]? = v.feat.dims[1]? := by
          rcases hc2 with h | h
          · rw [h] at hv2; simp only at hv2
            rcases hv2 with h' | h'
            · rw [hF] at h'; cases h'
            · exact h'
          · rw [h, hF] at hv2; simp only at hv2
            rcases hv2 with h' | h'
            · cases h'
            · rw [hF]; exact h'
        refine ⟨e1, e2, ⟨?_, ?_, ?_⟩, ?_⟩
        · rcases hc1 with h | h
          · exact Or.inl h
          · exact Or.inr (by rw [h, e1])
        · rcases hc2 with h | h
          · exact Or.inl h
          · exact Or.inr (by rw [h, e2])
        · cases hvr : v.ref with
          | none => trivial
          | some q =>
            rw [hvr] at hv3
            simp only [optAll] at hv3 ⊢
            cases hur : u.ref with
            | none => rw [hur] at hv3; exact hv3
            | some r =>
              rw [hur] at hv3 hc3
              simp only [optAll] at hc3
              simp only at hv3
              rcases hv3 with h | h
              · cases h
              · rcases hc3 with h' | h'
                · exact Or.inl h'
                · exact Or.inr (by rw [h', ← Option.some.inj h])
        · cases hur : u.ref with
          | none => trivial
          | some r =>
            cases hvr : v.ref with
            | none => trivial
            | some q =>
              rw [hur, hvr] at hv3
              simp only [optAll] at hv3 ⊢
              rcases hv3 with h | h
              · cases h
              · exact Option.some.inj h
      refine ⟨?_, ?_, ?_, ?_⟩
      · intro v hv
        rcases List.mem_cons.1 hv with ev | hv'
        · rw [ev]; exact ⟨hu, hc1, hc2, hc3⟩
        · exact ⟨(hall v hv').1, (key v hv').2.2.1⟩
      · intro a ha b hb
        rcases List.mem_cons.1 ha with ea | ha' <;> rcases List.mem_cons.1 hb with eb | hb'
        · rw [ea, eb]
        · rw [ea]; exact (key b hb').1
        · rw [eb]; exact (key a ha').1.symm
        · exact hp1 a ha' b hb'
      · intro a ha b hb
        rcases List.mem_cons.1 ha with ea | ha' <;> rcases List.mem_cons.1 hb with eb | hb'
        · rw [ea, eb]
        · rw [ea]; exact (key b hb').2.1
        · rw [eb]; exact (key a ha').2.1.symm
        · exact hp2 a ha' b hb'
      · intro a ha b hb
        rcases List.mem_cons.1 ha with ea | ha' <;> rcases List.mem_cons.1 hb with eb | hb'
        · rw [ea, eb]; cases u.ref <;> simp [optAll]
        · rw [ea]; exact (key b hb').2.2.2
        · rw [eb]
          have := (key a ha').2.2.2
          cases har : a.ref with
          | none => trivial
          | some r =>
            cases hur : u.ref with
            | none => trivial
            | some q =>
              rw [har, hur] at this
              simp only [optAll] at this ⊢
              exact this.symm
        · exact hp3 a ha' b hb'
    · rintro ⟨hall, hp1, hp2, hp3⟩
      have hu := hall u List.mem_cons_self
      have hus : u ∈ u :: us := List.mem_cons_self
      refine ⟨hu.1, hu.2, ?_, ?_, ?_, ?_⟩
      · intro v hv
        have hvs : v ∈ u :: us := List.mem_cons_of_mem _ hv
        obtain ⟨hvok, hv1, hv2, hv3⟩ := hall v hvs
        refine ⟨hvok, ?_, ?_, ?_⟩
        · simp only [St.next]
          exact Or.inr (by rw [hp1 u hus v hvs])
        · simp only [St.next]
          rcases hu.2.2.1 with h | h
          · rw [h]; simp only; exact Or.inr (hp2 u hus v hvs)
          · rcases hv2 with h' | h'
            · rw [h'] at h
              rw [h']; simp only; exact Or.inr (hp2 u hus v hvs)
            · have hF : ∃ F, u.feat.dims[1]? = some F := by
                have := hu.1.1.2.2
                match hd : u.feat.dims, this with
                | [a, b], _ => exact ⟨b, rfl⟩
              obtain ⟨F, hF⟩ := hF
              rw [h, hF]; simp only
              rw [← hF, hp2 u hus v hvs]; exact Or.inr rfl
        · cases hvr : v.ref with
          | none => trivial
          | some q =>
            rw [hvr] at hv3
            simp only [optAll, St.next] at hv3 ⊢
            cases hur : u.ref with
            | none => simp only; exact hv3
            | some r =>
              simp only
              have := hp3 u hus v hvs
              rw [hur, hvr] at this
              simp only [optAll] at this
              exact Or.inr (by rw [this])
      · intro a ha b hb; exact hp1 a (List.mem_cons_of_mem _ ha) b (List.mem_cons_of_mem _ hb)
      · intro a ha b hb; exact hp2 a (List.mem_cons_of_mem _ ha) b (List.mem_cons_of_mem _ hb)
      · intro a ha b hb; exact hp3 a (List.mem_cons_of_mem _ ha) b (List.mem_cons_of_mem _ hb)

theorem wf_iff (d : Dir) : WellFormed d ↔ (∀ u ∈ d, UttOk u) ∧ Pairwise3 d := by
  constructor
  · rintro ⟨⟨c1, c2a, c2b, c3, c4, c51, c52, c53, c61, c62a, c62b, c631, c632⟩, tn⟩
    refine ⟨?_, c2b, c4, c62a⟩
    intro u hu
    refine ⟨⟨c2a u hu, (c1 u hu).1, c3 u hu⟩, ?_, ?_⟩
    · have h1 := (c1 u hu).2.1; have h2 := c51 u hu; have h3 := c52 u hu; have h4 := c53 u hu
      cases hua : u.ali with
      | none => trivial
      | some a => rw [hua] at h1 h2 h3 h4; exact ⟨h1, h2, h3, h4⟩
    · have h1 := (c1 u hu).2.2; have h2 := c61 u hu; have h3 := c62b u hu; have h4 := c631 u hu
      have h5 := c632 u hu; have h6 := tn u hu
      cases hur : u.ref with
      | none => trivial
      | some r => rw [hur] at h1 h2 h3 h4 h5 h6; exact ⟨h1, h2, h3, h4, h5, h6⟩
  · rintro ⟨hall, hp1, hp2, hp3⟩
    have ali : ∀ u ∈ d, ∀ a, u.ali = some a →
        a.dev = .cpu ∧ a.dtype = .i64 ∧ a.data.is1d ∧ a.data.lenIs u.feat.T := by
      intro u hu a ha
      have := (hall u hu).2.1
      rw [ha] at this; exact this
    have ref : ∀ u ∈ d, ∀ r, u.ref = some r →
        r.dev = .cpu ∧ r.dtype = .i64 ∧ r.data.dimOk ∧ r.data.widthOk
          ∧ (∀ row ∈ r.data.rows, RowOk u.feat.T row) ∧ (∀ t ∈ r.data.toks, 0 ≤ t) := by
      intro u hu r hr
      have := (hall u hu).2.2
      rw [hr] at this; exact this
    have optA : ∀ (u : Utt) (p : Ali → Prop), (∀ a, u.ali = some a → p a) → optAll p u.ali := by
      intro u p h
      cases hua : u.ali with
      | none => trivial
      | some a => exact h a hua
    have optR : ∀ (u : Utt) (p : Ref → Prop), (∀ r, u.ref = some r → p r) → optAll p u.ref := by
      intro u p h
      cases hur : u.ref with
      | none => trivial
      | some r => exact h r hur
    refine ⟨⟨?_, ?_, hp1, ?_, hp2, ?_, ?_, ?_, ?_, hp3, ?_, ?_, ?_⟩, ?_⟩
    · intro u hu
      exact ⟨(hall u hu).1.2.1, optA u _ (fun a ha => (ali u hu a ha).1),
        optR u _ (fun r hr => (ref u hu r hr).1)⟩
    · intro u hu; exact (hall u hu).1.1
    · intro u hu; exact (hall u hu).1.2.2
    · intro u hu; exact optA u _ (fun a ha => (ali u hu a ha).2.1)
    · intro u hu; exact optA u _ (fun a ha => (ali u hu a ha).2.2.1)
    · intro u hu; exact optA u _ (fun a ha => (ali u hu a ha).2.2.2)
    · intro u hu; exact optR u _ (fun r hr => (ref u hu r hr).2.1)
    · intro u hu; exact optR u _ (fun r hr => (ref u hu r hr).2.2.1)
    · intro u hu; exact optR u _ (fun r hr => (ref u hu r hr).2.2.2.1)
    · intro u hu; exact optR u _ (fun r hr => (ref u hu r hr).2.2.2.2.1)
    · intro u hu; exact optR u _ (fun r hr => (ref u hu r hr).2.2.2.2.2)

theorem chain_init_iff (d : Dir) : Chain St.init d ↔ WellFormed d := by
  rw [chain_iff, wf_iff]
  constructor
  · rintro ⟨h, hp⟩; exact ⟨fun u hu => (h u hu).1, hp⟩
  · rintro ⟨h, hp⟩
    refine ⟨fun u hu => ⟨h u hu, Or.inl rfl, Or.inl rfl, ?_⟩, hp⟩
    cases u.ref with
    | none => trivial
    | some r => exact Or.inl rfl

/-! ### The repairs change nothing in what is already fine -/

theorem repairRow_of_ok (fix : Option Nat) (T : Nat) (r : Row) (h : RowOk T r) :
    repairRow fix T r = r := by
  obtain ⟨tok, s, e⟩ := r
  cases fix with
  | none => rfl
  | some k =>
    simp only [RowOk] at h
    simp only [repairRow]
    have h1 : ¬ ((s < 0 ∧ 0 ≤ e) ∨ (0 ≤ s ∧ e < 0)) := by omega
    have h2 : ¬ (0 ≤ s ∧ s ≤ e ∧ (T : Int) < e ∧ e ≤ (T : Int) + k ∧ s ≤ (T : Int)) := by omega
    rw [if_neg h1, if_neg h2]

theorem repairUtt_of_ok (fix : Option Nat) (u : Utt) (h : UttOk u) : repairUtt fix u = u := by
  obtain ⟨f, ali, ref⟩ := u
  obtain ⟨⟨-, hdev, -⟩, hali, href⟩ := h
  dsimp only at hdev hali href
  have hf : ({ f with dev := repairDev fix f.dev } : Feat) = f := by
    obtain ⟨a, b, c, e⟩ := f
    dsimp only at hdev
    subst hdev
    simp only [repairDev, ite_self]
  have ha : ali.map (fun a => (⟨repairLong fix a.dtype, repairDev fix a.dev,
      repairAliData fix f.T a.data⟩ : Ali)) = ali := by
    cases ali with
    | none => rfl
    | some a =>
      obtain ⟨dt, dev, data⟩ := a
      simp only [optAll] at hali
      obtain ⟨h1, h2, h3, h4⟩ := hali
      subst h1 h2
      simp only [Option.map_some, repairLong, repairDev, DType.narrowInt, Bool.false_eq_true,
        and_false, ite_self]
      congr
      cases data with
      | nd s fl => rfl
      | vec v =>
        simp only [AliData.lenIs] at h4
        cases fix with
        | none => rfl
        | some k =>
          simp only [repairAliData]
          have : ¬ (f.T < v.length ∧ v.length ≤ f.T + k) := by omega
          rw [if_neg this]
  have hr : ref.map (fun r => (⟨repairLong fix r.dtype, repairDev fix r.dev,
      repairRefData fix f.T r.data⟩ : Ref)) = ref := by
    cases ref with
    | none => rfl
    | some r =>
      obtain ⟨dt, dev, data⟩ := r
      simp only [optAll] at href
      obtain ⟨h1, h2, -, -, h5, -⟩ := href
      subst h1 h2
      simp only [Option.map_some, repairLong, repairDev, DType.narrowInt, Bool.false_eq_true,
        and_false, ite_self]
      congr
      cases data with
      | d2 rows =>
        simp only [repairRefData, RefData.rows] at h5 ⊢
        congr
        conv => rhs; rw [← List.map_id rows]
        apply List.map_congr_left
        intro row hrow
        exact repairRow_of_ok fix f.T row (h5 row hrow)
      | d1 t => rfl
      | d2w a b => rfl
      | nd s => rfl
  simp only [repairUtt, hf, ha, hr]

theorem repair_of_wf (fix : Option Nat) (d : Dir) (h : WellFormed d) : repair fix d = d := by
  have h' := ((wf_iff d).1 h).1
  unfold repair
  conv => rhs; rw [← List.map_id d]
  apply List.map_congr_left
  intro u hu
  exact repairUtt_of_ok fix u (h' u hu)

theorem repairUtt_none (u : Utt) : repairUtt none u = u := by
  obtain ⟨f, ali, ref⟩ := u
  have hrd : ∀ T (rd : RefData), repairRefData none T rd = rd := by
    intro T rd
    cases rd with
    | d2 rows =>
      simp only [repairRefData]
      congr
      conv => rhs; rw [← List.map_id rows]
      apply List.map_congr_left
      intro row _
      rfl
    | d1 t => rfl
    | d2w a b => rfl
    | nd s => rfl
  have had : ∀ T (ad : AliData), repairAliData none T ad = ad := by
    intro T ad; cases ad <;> rfl
  simp only [repairUtt, repairDev, repairLong, Option.isSome_none, Bool.false_eq_true, if_false,
    false_and, hrd, had]
  cases ali <;> cases ref <;> rfl

theorem repair_none (d : Dir) : repair none d = d := by
  unfold repair
  conv => rhs; rw [← List.map_id d]
  apply List.map_congr_left
  intro u _
  exact repairUtt_none u

/-- File by file, `u'` holds the file of `u` or its documented repair. -/
def FileWise (fix : Option Nat) (u u' : Utt) : Prop :=
  (u'.feat = u.feat ∨ u'.feat = (repairUtt fix u).feat)
  ∧ (u'.ali = u.ali ∨ u'.ali = (repairUtt fix u).ali)
  ∧ (u'.ref = u.ref ∨ u'.ref = (repairUtt fix u).ref)

/-- Whatever one iteration leaves on disk — raised or not — is, file by file, the original or
its documented repair. -/
theorem stepUtt_filewise (fix : Option Nat) (st : St) (u u' : Utt) (res : Except Err St)
    (h : stepUtt fix st u = (u', res)) : FileWise fix u u' := by
  obtain ⟨f, ali, ref⟩ := u
  unfold stepUtt at h
  dsimp only at h
  split at h
  · cases h; exact ⟨Or.inl rfl, Or.inl rfl, Or.inl rfl⟩
  · rename_i f' st1 hf
    have hf1 := ((checkFeat_ok _ _ _ _ _).1 hf).1
    have hT : f'.T = f.T := by rw [hf1]; rfl
    have hfeat : f' = (repairUtt fix ⟨f, ali, ref⟩).feat := by rw [hf1]; rfl
    cases ali with
    | none =>
      dsimp only at h
      cases ref with
      | none => dsimp only at h; cases h; exact ⟨Or.inr hfeat, Or.inl rfl, Or.inl rfl⟩
      | some r =>
        dsimp only at h
        split at h
        · cases h; exact ⟨Or.inr hfeat, Or.inl rfl, Or.inl rfl⟩
        · rename_i r' i2 hr
          have hr1 := ((checkRef_ok _ _ _ _ _ _).1 hr).1
          rw [hT] at hr1
          have href : some r' = (repairUtt fix ⟨f, none, some r⟩).ref := by rw [hr1]; rfl
          split at h <;> (cases h; exact ⟨Or.inr hfeat, Or.inl rfl, Or.inr href⟩)
    | some a =>
      dsimp only at h
      cases ha : checkAli fix f'.T a with
      | error e' =>
        rw [ha] at h; simp only [Except.map] at h; cases h
        exact ⟨Or.inr hfeat, Or.inl rfl, Or.inl rfl⟩
      | ok a' =>
        rw [ha] at h
        simp only [Except.map] at h
        have ha1 := ((checkAli_ok _ _ _ _).1 ha).1
        rw [hT] at ha1
        have hali : some a' = (repairUtt fix ⟨f, some a, ref⟩).ali := by rw [ha1]; rfl
        cases ref with
        | none => dsimp only at h; cases h; exact ⟨Or.inr hfeat, Or.inr hali, Or.inl rfl⟩
        | some r =>
          dsimp only at h
          split at h
          · cases h; exact ⟨Or.inr hfeat, Or.inr hali, Or.inl rfl⟩
          · rename_i r' i2 hr
            have hr1 := ((checkRef_ok _ _ _ _ _ _).1 hr).1
            rw [hT] at hr1
            have href : some r' = (repairUtt fix ⟨f, some a, some r⟩).ref := by rw [hr1]; rfl
            split at h <;> (cases h; exact ⟨Or.inr hfeat, Or.inr hali, Or.inr href⟩)

/-- A run that raises: everything before the offending utterance is repaired, everything after it
is untouched, the offending utterance is file-wise original-or-repaired. -/
theorem run_err (fix : Option Nat) (st : St) (d d' : Dir) (e : Err)
    (h : run fix st d = (d', some e)) :
    ∃ pre u post u', d = pre ++ u :: post ∧ d' = pre.map (repairUtt fix) ++ u' :: post
      ∧ FileWise fix u u' ∧ Chain st (pre.map (repairUtt fix)) := by
  induction d generalizing st d' with
  | nil => simp [run] at h
  | cons u us ih =>
    unfold run at h
    cases hs : stepUtt fix st u with
    | mk u1 res =>
      rw [hs] at h
      cases res with
      | error e1 =>
        simp only [Prod.mk.injEq, Option.some.injEq] at h
        obtain ⟨rfl, rfl⟩ := h
        exact ⟨[], u, us, u1, rfl, rfl, stepUtt_filewise _ _ _ _ _ hs, trivial⟩
      | ok st1 =>
        simp only [Prod.mk.injEq] at h
        obtain ⟨rfl, hr⟩ := h
        have hrun : run fix st1 us = ((run fix st1 us).1, some e) := by rw [← hr]
        obtain ⟨pre, v, post, v', h1, h2, h3, h4⟩ := ih _ _ hrun
        obtain ⟨g1, g2, g3, g4⟩ := (stepUtt_ok _ _ _ _ _).1 hs
        refine ⟨u :: pre, v, post, v', by rw [h1]; rfl, ?_, h3, ?_⟩
        · rw [h2, g1]; rfl
        · simp only [List.map_cons, Chain]
          rw [← g1, ← g4]
          exact ⟨g2, g3, h4⟩

/-- `FileWise` is reflexive: an untouched utterance is file-wise "the original". -/
theorem FileWise.refl (fix : Option Nat) (u : Utt) : FileWise fix u u :=
  ⟨Or.inl rfl, Or.inl rfl, Or.inl rfl⟩

/-- The fully repaired utterance is file-wise "the repair". -/
theorem FileWise.repaired (fix : Option Nat) (u : Utt) : FileWise fix u (repairUtt fix u) :=
  ⟨Or.inr rfl, Or.inr rfl, Or.inr rfl⟩

/-- Whatever a run leaves on disk — raised or not — is, utterance by utterance and file by file, the
original or its documented repair (same number of utterances, same order). -/
theorem run_filewise (fix : Option Nat) (st : St) (d : Dir) :
    (run fix st d).1.length = d.length
    ∧ ∀ (i : Nat) (u u' : Utt), d[i]? = some u → (run fix st d).1[i]? = some u' → FileWise fix u u' := by
  induction d generalizing st with
  | nil => exact ⟨rfl, fun i u u' h => by simp at h⟩
  | cons v vs ih =>
    unfold run
    cases hs : stepUtt fix st v with
    | mk v1 res =>
      have hfw := stepUtt_filewise _ _ _ _ _ hs
      cases res with
      | error e =>
        refine ⟨rfl, ?_⟩
        intro i u u' h1 h2
        cases i with
        | zero =>
          simp only [List.getElem?_cons_zero, Option.some.injEq] at h1 h2
          subst h1 h2; exact hfw
        | succ j =>
          simp only [List.getElem?_cons_succ] at h1 h2
          rw [h1] at h2; cases h2
          exact FileWise.refl _ _
      | ok st1 =>
        obtain ⟨ih1, ih2⟩ := ih st1
        refine ⟨by simp only [List.length_cons, ih1], ?_⟩
        intro i u u' h1 h2
        cases i with
        | zero =>
          simp only [List.getElem?_cons_zero, Option.some.injEq] at h1 h2
          subst h1 h2; exact hfw
        | succ j =>
          simp only [List.getElem?_cons_succ] at h1 h2
          exact ih2 j u u' h1 h2

/-- `run_err`, and the utterance it singles out is the offending one: the repaired prefix passes,
the repaired prefix followed by the repaired `u` does not. -/
theorem run_err_offender (fix : Option Nat) (st : St) (d d' : Dir) (e : Err)
    (h : run fix st d = (d', some e)) :
    ∃ pre u post u', d = pre ++ u :: post ∧ d' = pre.map (repairUtt fix) ++ u' :: post
      ∧ FileWise fix u u' ∧ Chain st (pre.map (repairUtt fix))
      ∧ ¬ Chain st ((pre ++ [u]).map (repairUtt fix)) := by
  induction d generalizing st d' with
  | nil => simp [run] at h
  | cons u us ih =>
    unfold run at h
    cases hs : stepUtt fix st u with
    | mk u1 res =>
      rw [hs] at h
      cases res with
      | error e1 =>
        simp only [Prod.mk.injEq, Option.some.injEq] at h
        obtain ⟨rfl, rfl⟩ := h
        refine ⟨[], u, us, u1, rfl, rfl, stepUtt_filewise _ _ _ _ _ hs, trivial, ?_⟩
        intro hc
        simp only [List.nil_append, List.map_cons, List.map_nil, Chain] at hc
        have := (stepUtt_ok fix st (st.next (repairUtt fix u)) u (repairUtt fix u)).2
          ⟨rfl, hc.1, hc.2.1, rfl⟩
        rw [hs] at this
        cases this
      | ok st1 =>
        simp only [Prod.mk.injEq] at h
        obtain ⟨rfl, hr⟩ := h
        have hrun : run fix st1 us = ((run fix st1 us).1, some e) := by rw [← hr]
        obtain ⟨pre, v, post, v', h1, h2, h3, h4, h5⟩ := ih _ _ hrun
        obtain ⟨g1, g2, g3, g4⟩ := (stepUtt_ok _ _ _ _ _).1 hs
        refine ⟨u :: pre, v, post, v', by rw [h1]; rfl, ?_, h3, ?_, ?_⟩
        · rw [h2, g1]; rfl
        · simp only [List.map_cons, Chain]
          rw [← g1, ← g4]
          exact ⟨g2, g3, h4⟩
        · intro hc
          simp only [List.cons_append, List.map_cons, Chain] at hc
          rw [← g1, ← g4] at hc
          exact h5 hc.2.2

/-- When the token loop of the report finishes, no token id was negative. -/
theorem refInfo_nonneg (info : Bool) (acc acc' : Acc) (rows : List Row)
    (h : refInfo info acc rows = .ok acc') : ∀ r ∈ rows, 0 ≤ r.tok := by
  induction rows generalizing acc with
  | nil => intro r hr; cases hr
  | cons x xs ih =>
    unfold refInfo at h
    split at h
    · cases h
    · rename_i hx
      intro r hr
      rcases List.mem_cons.1 hr with rfl | hr
      · omega
      · split at h
        · exact ih _ h r hr
        · exact ih _ h r hr

theorem refInfo_toks (info : Bool) (acc acc' : Acc) (rd : RefData) (rows : List Row)
    (hrows : rd.infoRows = some rows) (h : refInfo info acc rows = .ok acc') :
    ∀ t ∈ rd.toks, 0 ≤ t := by
  have hn := refInfo_nonneg _ _ _ _ h
  cases rd with
  | d1 t =>
    simp only [RefData.infoRows, Option.some.injEq] at hrows
    subst hrows
    intro x hx
    simp only [RefData.toks] at hx
    exact hn ⟨x, -1, -1⟩ (List.mem_map.2 ⟨x, hx, rfl⟩)
  | d2 rs =>
    simp only [RefData.infoRows, Option.some.injEq] at hrows
    subst hrows
    intro x hx
    simp only [RefData.toks, List.mem_map] at hx
    obtain ⟨r, hr, rfl⟩ := hx
    exact hn r hr
  | d2w a b => intro x hx; simp [RefData.toks] at hx
  | nd sh => intro x hx; simp [RefData.toks] at hx

/-! ### The info pass with validation switched on walks the same path as `run` -/

theorem infoStep_ok (fix : Option Nat) (st st' : St) (acc acc' : Acc) (u u' : Utt)
    (h : infoStep true fix st acc u = (u', .ok (st', acc'))) :
    stepUtt fix st u = (u', .ok st') := by
  obtain ⟨f, ali, ref⟩ := u
  unfold infoStep at h
  unfold stepUtt
  simp only [if_true] at h
  dsimp only at h ⊢
  cases hf : checkFeat fix st f with
  | error e => rw [hf] at h; cases h
  | ok p =>
    obtain ⟨f', st1⟩ := p
    rw [hf] at h
    dsimp only at h ⊢
    cases ali with
    | none =>
      dsimp only at h ⊢
      cases ref with
      | none => dsimp only at h ⊢; cases h; rfl
      | some r =>
        dsimp only at h ⊢
        cases hr : checkRef fix f'.T st1.refIs2d r with
        | error e => rw [hr] at h; cases h
        | ok q =>
          obtain ⟨r', i2⟩ := q
          rw [hr] at h
          dsimp only at h ⊢
          cases hrows : r'.data.infoRows with
          | none => rw [hrows] at h; cases h
          | some rows =>
            rw [hrows] at h
            dsimp only at h
            split at h
            · cases h
            · rename_i acc3 hri
              cases h
              have : tokCheck r' = .ok () := by
                rw [tokCheck_ok]
                exact refInfo_toks _ _ _ _ _ hrows hri
              rw [this]
    | some a =>
      dsimp only at h ⊢
      cases ha : checkAli fix f'.T a with
      | error e => rw [ha] at h; cases h
      | ok a' =>
        rw [ha] at h
        simp only [Except.map]
        dsimp only at h ⊢
        split at h
        · cases h
        · rename_i acc2 hai
          cases ref with
          | none => dsimp only at h ⊢; cases h; rfl
          | some r =>
            dsimp only at h ⊢
            cases hr : checkRef fix f'.T st1.refIs2d r with
            | error e => rw [hr] at h; cases h
            | ok q =>
              obtain ⟨r', i2⟩ := q
              rw [hr] at h
              dsimp only at h ⊢
              cases hrows : r'.data.infoRows with
              | none => rw [hrows] at h; cases h
              | some rows =>
                rw [hrows] at h
                dsimp only at h
                split at h
                · cases h
                · rename_i acc3 hri
                  cases h
                  have : tokCheck r' = .ok () := by
                    rw [tokCheck_ok]
                    exact refInfo_toks _ _ _ _ _ hrows hri
                  rw [this]

theorem infoLoop_ok (fix : Option Nat) (st : St) (acc acc' : Acc) (d d' : Dir)
    (h : infoLoop true fix st acc d = (d', .ok acc')) : run fix st d = (d', none) := by
  induction d generalizing st acc d' with
  | nil => simp only [infoLoop, Prod.mk.injEq] at h; rw [← h.1]; rfl
  | cons u us ih =>
    unfold infoLoop at h
    unfold run
    cases hs : infoStep true fix st acc u with
    | mk u1 res =>
      rw [hs] at h
      cases res with
      | error e => simp only [Prod.mk.injEq, reduceCtorEq, and_false] at h
      | ok p =>
        obtain ⟨st1, acc1⟩ := p
        simp only [Prod.mk.injEq] at h
        obtain ⟨rfl, hr⟩ := h
        rw [infoStep_ok _ _ _ _ _ _ _ hs]
        dsimp only
        have hrun : infoLoop true fix st1 acc1 us
            = ((infoLoop true fix st1 acc1 us).1, .ok acc') := by rw [← hr]
        rw [ih _ _ _ hrun]

/-! ### sos/eos stripping -/

theorem afterLast_of_none {α} (p : α → Bool) (l : List α) (h : ∀ a ∈ l, p a = false) :
    afterLast p l = l := by
  induction l with
  | nil => rfl
  | cons x xs ih =>
    have hx : p x = false := h x List.mem_cons_self
    have hxs : xs.any p = false := by
      rw [List.any_eq_false]
      intro a ha
      rw [h a (List.mem_cons_of_mem _ ha)]; simp
    simp [afterLast, hx, hxs]

theorem afterLast_cons {α} (p : α → Bool) (x : α) (l : List α) (hx : p x = true)
    (h : ∀ a ∈ l, p a = false) : afterLast p (x :: l) = l := by
  have hxs : l.any p = false := by
    rw [List.any_eq_false]
    intro a ha
    rw [h a ha]; simp
  simp [afterLast, hx, hxs]

theorem beforeFirst_of_none {α} (p : α → Bool) (l : List α) (h : ∀ a ∈ l, p a = false) :
    beforeFirst p l = l := by
  induction l with
  | nil => rfl
  | cons x xs ih =>
    have hx : p x = false := h x List.mem_cons_self
    simp [beforeFirst, hx, ih (fun a ha => h a (List.mem_cons_of_mem _ ha))]

theorem beforeFirst_append {α} (p : α → Bool) (l : List α) (y : α) (r : List α)
    (h : ∀ a ∈ l, p a = false) (hy : p y = true) : beforeFirst p (l ++ y :: r) = l := by
  induction l with
  | nil => simp [beforeFirst, hy]
  | cons x xs ih =>
    have hx : p x = false := h x List.mem_cons_self
    simp [beforeFirst, hx, ih (fun a ha => h a (List.mem_cons_of_mem _ ha))]

/-- Wrapping a symbol-free sequence in sos/eos and stripping again gives the sequence back. -/
theorem strip_wrap {α} (key : α → Int) (mk : Int → α) (hk : ∀ x, key (mk x) = x)
    (sos eos : Option Int) (l : List α)
    (h1 : ∀ s ∈ sos, ∀ a ∈ l, key a ≠ s) (h2 : ∀ e ∈ eos, ∀ a ∈ l, key a ≠ e)
    (h3 : ∀ s ∈ sos, ∀ e ∈ eos, s ≠ e) :
    stripOpt key sos eos ((sos.toList.map mk ++ l) ++ eos.toList.map mk) = l := by
  cases sos with
  | none =>
    cases eos with
    | none => simp [stripOpt]
    | some e =>
      simp only [stripOpt, Option.toList_none, List.map_nil, List.nil_append, Option.toList_some,
        List.map_cons]
      apply beforeFirst_append
      · intro a ha
        have := h2 e rfl a ha
        simp [this]
      · simp [hk]
  | some s =>
    cases eos with
    | none =>
      simp only [stripOpt, Option.toList_none, List.map_nil, List.append_nil, Option.toList_some,
        List.map_cons, List.cons_append, List.nil_append]
      apply afterLast_cons
      · simp [hk]
      · intro a ha
        have := h1 s rfl a ha
        simp [this]
    | some e =>
      simp only [stripOpt, Option.toList_some, List.map_cons, List.map_nil, List.cons_append,
        List.nil_append]
      have hse : s ≠ e := h3 s rfl e rfl
      rw [afterLast_cons]
      · apply beforeFirst_append
        · intro a ha
          have := h2 e rfl a ha
          simp [this]
        · simp [hk]
      · simp [hk]
      · intro a ha
        rcases List.mem_append.1 ha with ha | ha
        · have := h1 s rfl a ha
          simp [this]
        · simp only [List.mem_singleton] at ha
          subst ha
          simp [hk]
          exact fun h => hse h.symm

end PdtVerif.DataDir
