import PdtVerif.Lemmas.DataDir
/-!
# Helper lemmas for `C12_info`: the one-pass report equals the recount of the stored tensors

`_info_and_validate(info=True)` threads nine accumulators through the utterance loop (and, inside
an utterance, through the loop over `unique_consecutive` runs and the loop over reference tokens).
`Extends acc acc' d` says what a pass over the utterances `d` (as they are on disk afterwards)
adds to every accumulator, as a function of the stored tensors only.
-/
namespace PdtVerif.DataDir

/-! ### maxima -/

theorem foldl_max_push (l : List Int) (m x : Int) : l.foldl max (max m x) = max (l.foldl max m) x := by
  induction l generalizing m with
  | nil => rfl
  | cons y ys ih =>
    simp only [List.foldl_cons]
    rw [← ih, Int.max_assoc, Int.max_comm x y, ← Int.max_assoc]

theorem foldl_max_ge (l : List Int) (m : Int) : m ≤ l.foldl max m := by
  induction l generalizing m with
  | nil => exact Int.le_refl _
  | cons y ys ih =>
    simp only [List.foldl_cons]
    have := ih (max m y)
    omega

/-! ### `unique_consecutive` -/

theorem runsOf_eq_nil (v : List Int) : runsOf v = [] ↔ v = [] := by
  cases v with
  | nil => simp [runsOf]
  | cons x xs =>
    simp only [runsOf, reduceCtorEq, iff_false]
    split
    · split <;> simp
    · simp

/-- The first run carries the first value. -/
theorem runsOf_head (y : Int) (ys : List Int) : ∃ n rest, runsOf (y :: ys) = (y, n) :: rest := by
  simp only [runsOf]
  split
  · rename_i z n rest _
    by_cases h : y = z
    · subst h; exact ⟨n + 1, rest, by simp⟩
    · exact ⟨1, (z, n) :: rest, by simp [h]⟩
  · exact ⟨1, [], rfl⟩

theorem runsOf_cons_of (x y : Int) (n : Nat) (rest : List (Int × Nat)) (xs : List Int)
    (hr : runsOf xs = (y, n) :: rest) :
    runsOf (x :: xs) = if x = y then (y, n + 1) :: rest else (x, 1) :: (y, n) :: rest := by
  simp only [runsOf, hr]

theorem runsOf_single (x : Int) : runsOf [x] = [(x, 1)] := rfl

theorem runsOf_max (v : List Int) (m : Int) : ((runsOf v).map (·.1)).foldl max m = v.foldl max m := by
  induction v generalizing m with
  | nil => rfl
  | cons x xs ih =>
    cases xs with
    | nil => rfl
    | cons y ys =>
      obtain ⟨n, rest, hr⟩ := runsOf_head y ys
      have ih' := ih (max m x)
      rw [hr] at ih'
      rw [runsOf_cons_of x y n rest _ hr]
      by_cases h : x = y
      · subst h
        rw [if_pos rfl]
        simp only [List.map_cons, List.foldl_cons] at ih' ⊢
        rw [← ih', Int.max_assoc, Int.max_self]
      · rw [if_neg h]
        simp only [List.map_cons, List.foldl_cons] at ih' ⊢
        exact ih'

/-- The lengths of the runs of `i` add up to the number of occurrences of `i`. -/
theorem runsOf_count (v : List Int) (i : Int) :
    (((runsOf v).filter (fun p => decide (p.1 = i))).map (·.2)).sum = v.count i := by
  induction v with
  | nil => rfl
  | cons x xs ih =>
    cases xs with
    | nil =>
      rw [runsOf_single]
      by_cases h : x = i
      · simp [h]
      · simp [h]
    | cons y ys =>
      obtain ⟨n, rest, hr⟩ := runsOf_head y ys
      rw [hr] at ih
      rw [runsOf_cons_of x y n rest _ hr]
      by_cases h : x = y
      · subst h
        rw [if_pos rfl]
        by_cases hi : x = i
        · subst hi
          simp only [List.filter_cons, decide_true, if_true, List.map_cons, List.sum_cons,
            List.count_cons_self] at ih ⊢
          omega
        · simp only [List.filter_cons, hi, decide_false, Bool.false_eq_true, if_false] at ih ⊢
          rw [ih, List.count_cons (a := i) (b := x)]
          simp [hi]
      · rw [if_neg h]
        by_cases hi : x = i
        · subst hi
          rw [List.filter_cons, if_pos (by simp), List.map_cons, List.sum_cons, ih,
            List.count_cons_self]
          omega
        · rw [List.filter_cons, if_neg (by simpa using hi), ih, List.count_cons (a := i) (b := x)]
          simp [hi]

/-- The number of runs of `i` is the number of maximal runs of `i` (`segCount`). -/
theorem runsOf_segs (v : List Int) (i : Int) :
    ((runsOf v).filter (fun p => decide (p.1 = i))).length = segCount i v := by
  induction v with
  | nil => rfl
  | cons x xs ih =>
    cases xs with
    | nil =>
      rw [runsOf_single]
      simp only [segCount]
      by_cases h : x = i <;> simp [h]
    | cons y ys =>
      obtain ⟨n, rest, hr⟩ := runsOf_head y ys
      rw [hr] at ih
      rw [runsOf_cons_of x y n rest _ hr]
      have hseg : segCount i (x :: y :: ys) = (if x = i ∧ y ≠ i then 1 else 0) + segCount i (y :: ys) := rfl
      rw [hseg, ← ih]
      by_cases h : x = y
      · subst h
        rw [if_pos rfl]
        by_cases hi : x = i
        · subst hi; simp
        · simp [hi]
      · rw [if_neg h]
        by_cases hi : x = i
        · subst hi
          have : y ≠ x := fun h' => h h'.symm
          simp [this]
          omega
        · simp [hi]

/-! ### the loop over the runs -/

theorem aliInfo_spec (acc acc' : Acc) (runs : List (Int × Nat)) (h : aliInfo acc runs = .ok acc') :
    acc'.maxAli = (runs.map (·.1)).foldl max acc.maxAli
    ∧ (∀ i, acc'.counts i = acc.counts i + ((runs.filter (fun p => decide (p.1 = i))).map (·.2)).sum)
    ∧ (∀ i, acc'.segs i = acc.segs i + (runs.filter (fun p => decide (p.1 = i))).length)
    ∧ acc'.totalFrames = acc.totalFrames ∧ acc'.numFilts = acc.numFilts ∧ acc'.maxRef = acc.maxRef
    ∧ acc'.totalTokens = acc.totalTokens ∧ acc'.rcounts = acc.rcounts ∧ acc'.rsegs = acc.rsegs := by
  induction runs generalizing acc with
  | nil =>
    simp only [aliInfo, Except.ok.injEq] at h
    subst h
    simp
  | cons p ps ih =>
    obtain ⟨c, n⟩ := p
    unfold aliInfo at h
    split at h
    · cases h
    · obtain ⟨h1, h2, h3, h4, h5, h6, h7, h8, h9⟩ := ih _ h
      dsimp only at h1 h2 h3 h4 h5 h6 h7 h8 h9
      refine ⟨?_, ?_, ?_, h4, h5, h6, h7, h8, h9⟩
      · rw [h1]
        simp only [List.map_cons, List.foldl_cons]
        rw [Int.max_comm]
      · intro i
        rw [h2 i]
        by_cases hi : i = c
        · subst hi
          simp only [if_true, List.filter_cons, decide_true, List.map_cons, List.sum_cons]
          omega
        · have hi' : ¬ c = i := fun h => hi h.symm
          simp only [if_neg hi, List.filter_cons, hi', decide_false, Bool.false_eq_true, if_false]
      · intro i
        rw [h3 i]
        by_cases hi : i = c
        · subst hi
          simp only [if_true, List.filter_cons, decide_true, List.length_cons]
          omega
        · have hi' : ¬ c = i := fun h => hi h.symm
          simp only [if_neg hi, List.filter_cons, hi', decide_false, Bool.false_eq_true, if_false]

/-! ### the loop over the reference tokens -/

/-- One token of class `i`: the class's frame count so far (`0` if the class is new). -/
def rcStep (rc : Int) (r : Row) : Int :=
  if 0 ≤ rc ∧ r.s ≤ r.e ∧ 0 ≤ r.s then rc + r.e - r.s else -1

/-- `rcounts.get(i)` after the tokens `mine` of class `i`, starting from `o`. -/
def rcFold (o : Option Int) (mine : List Row) : Option Int :=
  mine.foldl (fun o r => some (rcStep (o.getD 0) r)) o

theorem rcFold_some (v : Int) (mine : List Row) : rcFold (some v) mine = some (mine.foldl rcStep v) := by
  induction mine generalizing v with
  | nil => rfl
  | cons r rs ih =>
    simp only [rcFold, List.foldl_cons, Option.getD_some]
    exact ih _

theorem rcFold_none (mine : List Row) :
    rcFold none mine = if mine = [] then none else some (mine.foldl rcStep 0) := by
  cases mine with
  | nil => rfl
  | cons r rs =>
    simp only [rcFold, List.foldl_cons, Option.getD_none, reduceCtorEq, if_false]
    exact rcFold_some _ _

theorem foldl_rcStep_neg (mine : List Row) : mine.foldl rcStep (-1) = -1 := by
  induction mine with
  | nil => rfl
  | cons r rs ih =>
    simp only [List.foldl_cons]
    have : rcStep (-1) r = -1 := by simp [rcStep]
    rw [this, ih]

theorem sumInt_cons (a : Int) (l : List Int) : sumInt (a :: l) = a + sumInt l := rfl

theorem sumInt_nonneg (l : List Int) (h : ∀ a ∈ l, 0 ≤ a) : 0 ≤ sumInt l := by
  induction l with
  | nil => exact Int.le_refl _
  | cons a as ih =>
    rw [sumInt_cons]
    have := h a (by simp)
    have := ih (fun b hb => h b (by simp [hb]))
    omega

/-- Closed form of the per-class frame count: the sum of the segment lengths if every token of the
class has boundaries in order, `-1` otherwise. -/
theorem foldl_rcStep (mine : List Row) (v : Int) (hv : 0 ≤ v) :
    mine.foldl rcStep v =
      if mine.all (fun r => decide (0 ≤ r.s ∧ r.s ≤ r.e)) then v + sumInt (mine.map fun r => r.e - r.s)
      else -1 := by
  induction mine generalizing v with
  | nil => simp [sumInt]
  | cons r rs ih =>
    simp only [List.foldl_cons, List.all_cons, List.map_cons, sumInt_cons]
    by_cases hr : 0 ≤ r.s ∧ r.s ≤ r.e
    · have h1 : rcStep v r = v + r.e - r.s := by
        simp only [rcStep]
        rw [if_pos ⟨hv, hr.2, hr.1⟩]
      rw [h1, ih _ (by omega)]
      simp only [hr, and_self, decide_true, Bool.true_and]
      split
      · omega
      · rfl
    · have h1 : rcStep v r = -1 := by
        simp only [rcStep]
        rw [if_neg (by omega)]
      rw [h1, foldl_rcStep_neg]
      simp [hr]

/-- `rcounts.get(i, -1)` at the end is `rcountOf`. -/
theorem rcFold_getD (rows : List Row) (i : Int) :
    (rcFold none (rows.filter (fun r => decide (r.tok = i)))).getD (-1) = rcountOf rows i := by
  rw [rcFold_none]
  unfold rcountOf
  simp only
  split
  · rename_i h
    simp [h]
  · rename_i h
    rw [foldl_rcStep _ 0 (Int.le_refl _)]
    simp only [Option.getD_some, ne_eq, h, not_false_eq_true, true_and, Int.zero_add]

theorem refInfo_spec (acc acc' : Acc) (rows : List Row) (h : refInfo true acc rows = .ok acc') :
    acc'.maxRef = (rows.map (·.tok)).foldl max acc.maxRef
    ∧ (∀ n, acc.totalTokens = some n → acc'.totalTokens = some (n + rows.length))
    ∧ (∀ i, acc'.rcounts i = rcFold (acc.rcounts i) (rows.filter (fun r => decide (r.tok = i))))
    ∧ (∀ i, acc'.rsegs i = acc.rsegs i + (rows.filter (fun r => decide (r.tok = i))).length)
    ∧ acc'.totalFrames = acc.totalFrames ∧ acc'.numFilts = acc.numFilts ∧ acc'.maxAli = acc.maxAli
    ∧ acc'.counts = acc.counts ∧ acc'.segs = acc.segs := by
  induction rows generalizing acc with
  | nil =>
    simp only [refInfo, Except.ok.injEq] at h
    subst h
    simp [rcFold]
  | cons r rs ih =>
    unfold refInfo at h
    split at h
    · cases h
    · simp only [if_true] at h
      obtain ⟨h1, h2, h3, h4, h5, h6, h7, h8, h9⟩ := ih _ h
      dsimp only at h1 h2 h3 h4 h5 h6 h7 h8 h9
      refine ⟨?_, ?_, ?_, ?_, h5, h6, h7, h8, h9⟩
      · rw [h1]; rfl
      · intro n hn
        rw [h2 (n + 1) (by rw [hn]; rfl)]
        simp only [List.length_cons]
        congr 1
        omega
      · intro i
        rw [h3 i]
        by_cases hi : i = r.tok
        · subst hi
          simp only [if_true, List.filter_cons, decide_true]
          simp only [rcFold, List.foldl_cons]
          rfl
        · have hi' : ¬ r.tok = i := fun h => hi h.symm
          simp only [if_neg hi, List.filter_cons, hi', decide_false, Bool.false_eq_true, if_false]
      · intro i
        rw [h4 i]
        by_cases hi : i = r.tok
        · subst hi
          simp only [if_true, List.filter_cons, decide_true, List.length_cons]
          omega
        · have hi' : ¬ r.tok = i := fun h => hi h.symm
          simp only [if_neg hi, List.filter_cons, hi', decide_false, Bool.false_eq_true, if_false]

/-! ### one utterance -/

/-- What the pass over one utterance (as it is on disk afterwards) adds to the accumulators. -/
structure StepAdds (acc acc' : Acc) (u : Utt) : Prop where
  frames : acc'.totalFrames = acc.totalFrames + u.feat.T
  filts : acc'.numFilts = u.feat.dims[1]?
  maxAli : acc'.maxAli = u.aliVals.foldl max acc.maxAli
  maxRef : acc'.maxRef = (u.refRows.map (·.tok)).foldl max acc.maxRef
  tokens : acc'.totalTokens =
    if u.ref.isSome then some (acc.totalTokens.getD 0 + u.refRows.length) else acc.totalTokens
  counts : ∀ i, acc'.counts i = acc.counts i + u.aliVals.count i
  segs : ∀ i, acc'.segs i = acc.segs i + segCount i u.aliVals
  rcounts : ∀ i, acc'.rcounts i = rcFold (acc.rcounts i) (u.refRows.filter (fun r => decide (r.tok = i)))
  rsegs : ∀ i, acc'.rsegs i = acc.rsegs i + (u.refRows.filter (fun r => decide (r.tok = i))).length


def AliPart (acc1 acc2 : Acc) : Option Ali → Prop
  | none => acc2 = acc1
  | some a' => aliInfo acc1 (runsOf a'.data.flat) = .ok acc2

def RefPart (acc2 acc3 : Acc) : Option Ref → Prop
  | none => acc3 = acc2
  | some r' => ∃ rows, r'.data.infoRows = some rows ∧
      refInfo true { acc2 with totalTokens := some (acc2.totalTokens.getD 0) } rows = .ok acc3

theorem stepAdds_of_parts (acc acc2 acc3 : Acc) (f' : Feat) (ali' : Option Ali) (ref' : Option Ref)
    (h2 : AliPart { acc with numFilts := f'.dims[1]?, totalFrames := acc.totalFrames + f'.T } acc2 ali')
    (h3 : RefPart acc2 acc3 ref') : StepAdds acc acc3 ⟨f', ali', ref'⟩ := by
  -- the alignment part
  have ha : acc2.maxAli = (Utt.aliVals ⟨f', ali', ref'⟩).foldl max acc.maxAli
      ∧ (∀ i, acc2.counts i = acc.counts i + (Utt.aliVals ⟨f', ali', ref'⟩).count i)
      ∧ (∀ i, acc2.segs i = acc.segs i + segCount i (Utt.aliVals ⟨f', ali', ref'⟩))
      ∧ acc2.totalFrames = acc.totalFrames + f'.T ∧ acc2.numFilts = f'.dims[1]?
      ∧ acc2.maxRef = acc.maxRef ∧ acc2.totalTokens = acc.totalTokens ∧ acc2.rcounts = acc.rcounts
      ∧ acc2.rsegs = acc.rsegs := by
    cases ali' with
    | none =>
      simp only [AliPart] at h2
      subst h2
      simp [Utt.aliVals, segCount]
    | some a' =>
      have hai : aliInfo _ (runsOf a'.data.flat) = .ok acc2 := h2
      obtain ⟨g1, g2, g3, g4, g5, g6, g7, g8, g9⟩ := aliInfo_spec _ _ _ hai
      dsimp only at g1 g2 g3 g4 g5 g6 g7 g8 g9
      refine ⟨?_, ?_, ?_, g4, g5, g6, g7, g8, g9⟩
      · rw [g1, runsOf_max]; rfl
      · intro i; rw [g2 i, runsOf_count]; rfl
      · intro i; rw [g3 i, runsOf_segs]; rfl
  obtain ⟨a1, a2, a3, a4, a5, a6, a7, a8, a9⟩ := ha
  cases ref' with
  | none =>
    simp only [RefPart] at h3
    subst h3
    exact ⟨a4, a5, a1, by simpa [Utt.refRows] using a6, by simpa using a7, a2, a3,
      by intro i; simp [Utt.refRows, rcFold, a8], by intro i; simp [Utt.refRows, a9]⟩
  | some r' =>
    obtain ⟨rows, hrows, hri⟩ := h3
    obtain ⟨g1, g2, g3, g4, g5, g6, g7, g8, g9⟩ := refInfo_spec _ _ _ hri
    dsimp only at g1 g2 g3 g4 g5 g6 g7 g8 g9
    have hrr : Utt.refRows ⟨f', ali', some r'⟩ = rows := by simp [Utt.refRows, hrows]
    refine ⟨by rw [g5, a4], by rw [g6, a5], by rw [g7, a1], by rw [hrr, g1, a6], ?_,
      by intro i; rw [g8, a2], by intro i; rw [g9, a3], by intro i; rw [hrr, g3 i, a8],
      by intro i; rw [hrr, g4 i, a9]⟩
    rw [hrr, g2 _ rfl, a7]
    rfl


theorem infoStep_adds (validate : Bool) (fix : Option Nat) (st st' : St) (acc acc' : Acc) (u u' : Utt)
    (h : infoStep validate fix st acc u = (u', .ok (st', acc'))) : StepAdds acc acc' u' := by
  obtain ⟨f, ali, ref⟩ := u
  unfold infoStep at h
  dsimp only at h
  split at h
  · cases h
  · rename_i f' st1 hf
    cases ali with
    | none =>
      dsimp only at h
      cases ref with
      | none =>
        dsimp only at h
        cases h
        exact stepAdds_of_parts _ _ _ _ _ _ rfl rfl
      | some r =>
        dsimp only at h
        split at h
        · cases h
        · rename_i r' i2 hr
          split at h
          · cases h
          · rename_i rows hrows
            split at h
            · cases h
            · rename_i acc3 hri
              cases h
              exact stepAdds_of_parts _ _ _ _ _ _ rfl ⟨rows, hrows, hri⟩
    | some a =>
      dsimp only at h
      split at h
      · cases h
      · rename_i a' acc1 hac
        split at hac
        · cases hac
        · rename_i a2 hca
          cases hac
          dsimp only at h
          split at h
          · cases h
          · rename_i acc2 hai
            have hpart : AliPart { acc with numFilts := f'.dims[1]?, totalFrames := acc.totalFrames + f'.T }
                acc2 (some a2) := hai
            cases ref with
            | none =>
              dsimp only at h
              cases h
              exact stepAdds_of_parts _ _ _ _ _ _ hpart rfl
            | some r =>
              dsimp only at h
              split at h
              · cases h
              · rename_i r' i2 hr
                split at h
                · cases h
                · rename_i rows hrows
                  split at h
                  · cases h
                  · rename_i acc3 hri
                    cases h
                    exact stepAdds_of_parts _ _ _ _ _ _ hpart ⟨rows, hrows, hri⟩

/-- What a pass over the utterances `d` (as they are on disk afterwards) adds to the accumulators. -/
structure Extends (acc acc' : Acc) (d : Dir) : Prop where
  frames : acc'.totalFrames = acc.totalFrames + (d.map (·.feat.T)).sum
  filts : acc'.numFilts = match d.getLast? with
    | some u => u.feat.dims[1]?
    | none => acc.numFilts
  maxAli : acc'.maxAli = (d.flatMap Utt.aliVals).foldl max acc.maxAli
  maxRef : acc'.maxRef = ((d.flatMap Utt.refRows).map (·.tok)).foldl max acc.maxRef
  tokens : acc'.totalTokens =
    if d.any (fun u => u.ref.isSome) then some (acc.totalTokens.getD 0 + (d.flatMap Utt.refRows).length)
    else acc.totalTokens
  counts : ∀ i, acc'.counts i = acc.counts i + (d.flatMap Utt.aliVals).count i
  segs : ∀ i, acc'.segs i = acc.segs i + (d.map fun u => segCount i u.aliVals).sum
  rcounts : ∀ i, acc'.rcounts i
    = rcFold (acc.rcounts i) ((d.flatMap Utt.refRows).filter (fun r => decide (r.tok = i)))
  rsegs : ∀ i, acc'.rsegs i
    = acc.rsegs i + ((d.flatMap Utt.refRows).filter (fun r => decide (r.tok = i))).length

theorem Extends.nil (acc : Acc) : Extends acc acc [] := by
  constructor <;> simp [rcFold]

theorem rcFold_append (o : Option Int) (a b : List Row) : rcFold o (a ++ b) = rcFold (rcFold o a) b := by
  simp [rcFold, List.foldl_append]

theorem refRows_nil_of_no_ref (d : Dir) (h : ∀ u ∈ d, u.ref = none) : d.flatMap Utt.refRows = [] := by
  induction d with
  | nil => rfl
  | cons u us ih =>
    have hu : u.refRows = [] := by simp [Utt.refRows, h u (by simp)]
    simp only [List.flatMap_cons, hu, List.nil_append]
    exact ih (fun v hv => h v (by simp [hv]))

theorem Extends.cons (acc acc1 acc' : Acc) (u : Utt) (d : Dir) (h1 : StepAdds acc acc1 u)
    (h2 : Extends acc1 acc' d) : Extends acc acc' (u :: d) := by
  constructor
  · rw [h2.frames, h1.frames]; simp only [List.map_cons, List.sum_cons]; omega
  · rw [h2.filts]
    cases d with
    | nil => simp [h1.filts]
    | cons v vs =>
      rw [List.getLast?_cons_cons]
      cases hg : (v :: vs).getLast? with
      | none => simp at hg
      | some w => rfl
  · rw [h2.maxAli, h1.maxAli]; simp only [List.flatMap_cons, List.foldl_append]
  · rw [h2.maxRef, h1.maxRef]; simp only [List.flatMap_cons, List.map_append, List.foldl_append]
  · rw [h2.tokens, h1.tokens]
    simp only [List.any_cons, List.flatMap_cons, List.length_append]
    cases hr : u.ref with
    | none =>
      have : u.refRows = [] := by simp [Utt.refRows, hr]
      simp [this]
    | some r =>
      simp only [Option.isSome_some, if_true, Bool.true_or, Option.getD_some]
      split
      · congr 1; omega
      · rename_i hno
        rw [refRows_nil_of_no_ref d (by simpa using hno)]
        simp
  · intro i; rw [h2.counts, h1.counts]; simp only [List.flatMap_cons, List.count_append]; omega
  · intro i; rw [h2.segs, h1.segs]; simp only [List.map_cons, List.sum_cons]; omega
  · intro i; rw [h2.rcounts, h1.rcounts]; simp only [List.flatMap_cons, List.filter_append, rcFold_append]
  · intro i; rw [h2.rsegs, h1.rsegs]
    simp only [List.flatMap_cons, List.filter_append, List.length_append]; omega

theorem infoLoop_extends (validate : Bool) (fix : Option Nat) (st : St) (acc acc' : Acc) (d d' : Dir)
    (h : infoLoop validate fix st acc d = (d', .ok acc')) : Extends acc acc' d' ∧ d'.length = d.length := by
  induction d generalizing st acc d' with
  | nil =>
    simp only [infoLoop, Prod.mk.injEq, Except.ok.injEq] at h
    obtain ⟨rfl, rfl⟩ := h
    exact ⟨Extends.nil _, rfl⟩
  | cons u us ih =>
    unfold infoLoop at h
    cases hs : infoStep validate fix st acc u with
    | mk u1 res =>
      rw [hs] at h
      cases res with
      | error e => simp only [Prod.mk.injEq, reduceCtorEq, and_false] at h
      | ok p =>
        obtain ⟨st1, acc1⟩ := p
        simp only [Prod.mk.injEq] at h
        obtain ⟨rfl, hr⟩ := h
        have hrun : infoLoop validate fix st1 acc1 us
            = ((infoLoop validate fix st1 acc1 us).1, .ok acc') := by rw [← hr]
        obtain ⟨e1, e2⟩ := ih _ _ _ hrun
        exact ⟨Extends.cons _ _ _ _ _ (infoStep_adds _ _ _ _ _ _ _ _ hs) e1, by simp [e2]⟩


/-- The shape shared by the one-pass report and the recount. -/
def reportOf (n tf ma mr tt : Int) (nf : List (String × Int)) (c s rc rs : Int → Int) :
    List (String × Int) :=
  [("num_utterances", n), ("total_frames", tf), ("max_ali_class", ma), ("max_ref_class", mr),
   ("total_tokens", tt)] ++ nf ++ classKeys "count_" "segs_" ma c s ++ classKeys "rcount_" "rsegs_" mr rc rs

theorem report_eq (n : Nat) (a : Acc) :
    report n a = reportOf n a.totalFrames a.maxAli a.maxRef
      (match a.totalTokens with
        | some n => (n : Int)
        | none => -1)
      (a.numFilts.toList.map fun (F : Nat) => ("num_filts", (F : Int)))
      (fun i => a.counts i) (fun i => a.segs i) (fun i => (a.rcounts i).getD (-1)) (fun i => a.rsegs i) := rfl

theorem recount_eq (d : Dir) :
    recount d = reportOf d.length ((d.map (·.feat.T)).sum : Nat) (maxOr (-1) (d.flatMap Utt.aliVals))
      (maxOr (-1) ((d.flatMap Utt.refRows).map (·.tok)))
      (if d.any (fun u => u.ref.isSome) then ((d.flatMap Utt.refRows).length : Int) else -1)
      (match d.getLast? with
        | some u => (u.feat.dims[1]?).toList.map fun (F : Nat) => ("num_filts", (F : Int))
        | none => [])
      (fun i => ((d.flatMap Utt.aliVals).count i : Int))
      (fun i => (((d.map fun u => segCount i u.aliVals).sum : Nat) : Int))
      (rcountOf (d.flatMap Utt.refRows))
      (fun i => (((d.flatMap Utt.refRows).filter (fun r => r.tok = i)).length : Int)) := rfl

/-- The one-pass report of a pass that went through is the recount of what it left on disk. -/
theorem report_eq_recount (validate : Bool) (fix : Option Nat) (d d' : Dir) (acc : Acc)
    (h : infoRun validate fix d = (d', .ok acc)) : report d.length acc = recount d' := by
  unfold infoRun at h
  obtain ⟨e, hl⟩ := infoLoop_extends _ _ _ _ _ _ _ h
  rw [report_eq, recount_eq, hl]
  have e1 : acc.totalFrames = (d'.map (·.feat.T)).sum := by
    rw [e.frames]; exact Nat.zero_add _
  have e2 : (acc.numFilts.toList.map fun (F : Nat) => ("num_filts", (F : Int)))
      = (match d'.getLast? with
        | some u => (u.feat.dims[1]?).toList.map fun (F : Nat) => ("num_filts", (F : Int))
        | none => []) := by
    rw [e.filts]
    cases d'.getLast? <;> rfl
  have e3 : acc.maxAli = maxOr (-1) (d'.flatMap Utt.aliVals) := e.maxAli
  have e4 : acc.maxRef = maxOr (-1) ((d'.flatMap Utt.refRows).map (·.tok)) := e.maxRef
  have e5 : (match acc.totalTokens with
        | some n => (n : Int)
        | none => -1)
      = if d'.any (fun u => u.ref.isSome) then ((d'.flatMap Utt.refRows).length : Int) else -1 := by
    rw [e.tokens]
    split
    · rename_i n hn
      split at hn
      · rename_i hany
        rw [if_pos hany]
        simp only [Option.some.injEq] at hn
        rw [← hn]
        simp
      · cases hn
    · rename_i hn
      split at hn
      · cases hn
      · rename_i hany
        rw [if_neg hany]
  have e6 : (fun i => ((acc.counts i : Nat) : Int)) = fun i => (((d'.flatMap Utt.aliVals).count i : Nat) : Int) := by
    funext i; rw [e.counts]; simp
  have e7 : (fun i => ((acc.segs i : Nat) : Int))
      = fun i => (((d'.map fun u => segCount i u.aliVals).sum : Nat) : Int) := by
    funext i; rw [e.segs]; simp
  have e8 : (fun i => (acc.rcounts i).getD (-1)) = rcountOf (d'.flatMap Utt.refRows) := by
    funext i; rw [e.rcounts]; exact rcFold_getD _ _
  have e9 : (fun i => ((acc.rsegs i : Nat) : Int))
      = fun i => ((((d'.flatMap Utt.refRows).filter (fun r => r.tok = i)).length : Nat) : Int) := by
    funext i; rw [e.rsegs]; simp
  rw [e1, e2, e3, e4, e5, e6, e7, e8, e9]


/-! ### `sorted(info_dict.items())` -/

theorem perm_insertLine (x : String × Int) (l : List (String × Int)) : (insertLine x l).Perm (x :: l) := by
  induction l with
  | nil => exact List.Perm.refl _
  | cons y ys ih =>
    unfold insertLine
    split
    · exact List.Perm.refl _
    · exact ((List.Perm.cons y ih).trans (List.Perm.swap x y ys))

theorem perm_sortLines (l : List (String × Int)) : (sortLines l).Perm l := by
  induction l with
  | nil => exact List.Perm.refl _
  | cons x xs ih =>
    have : sortLines (x :: xs) = insertLine x (sortLines xs) := rfl
    rw [this]
    exact (perm_insertLine x _).trans (List.Perm.cons x ih)

theorem pairwise_insertLine (x : String × Int) (l : List (String × Int))
    (h : l.Pairwise (fun a b => a.1 ≤ b.1)) : (insertLine x l).Pairwise (fun a b => a.1 ≤ b.1) := by
  induction l with
  | nil => simp [insertLine]
  | cons y ys ih =>
    rw [List.pairwise_cons] at h
    unfold insertLine
    split
    · rename_i hxy
      rw [List.pairwise_cons]
      refine ⟨?_, List.pairwise_cons.2 h⟩
      intro a ha
      rcases List.mem_cons.1 ha with rfl | ha
      · exact String.not_lt.1 (String.lt_asymm hxy)
      · exact String.le_trans (String.not_lt.1 (String.lt_asymm hxy)) (h.1 a ha)
    · rename_i hxy
      rw [List.pairwise_cons]
      refine ⟨?_, ih h.2⟩
      intro a ha
      rcases List.mem_cons.1 ((perm_insertLine x ys).mem_iff.1 ha) with rfl | ha
      · exact String.not_lt.1 hxy
      · exact h.1 a ha

/-- The lines come out ordered by key. -/
theorem pairwise_sortLines (l : List (String × Int)) : (sortLines l).Pairwise (fun a b => a.1 ≤ b.1) := by
  induction l with
  | nil => simp [sortLines]
  | cons x xs ih => exact pairwise_insertLine x _ ih

/-! ### the pass without validation never writes -/

theorem infoStep_plain_fst (fix : Option Nat) (st : St) (acc : Acc) (u : Utt) :
    (infoStep false fix st acc u).1 = u := by
  obtain ⟨f, ali, ref⟩ := u
  unfold infoStep
  simp only [Bool.false_eq_true, if_false]
  split
  · rfl
  · rename_i f' st1 hf
    have hf' : f' = f := by
      split at hf
      · cases hf; rfl
      · cases hf
    subst hf'
    cases ali with
    | none =>
      dsimp only
      cases ref with
      | none => rfl
      | some r =>
        dsimp only
        split
        · rfl
        · split <;> rfl
    | some a =>
      dsimp only
      split
      · rfl
      · cases ref with
        | none => rfl
        | some r =>
          dsimp only
          split
          · rfl
          · split <;> rfl

theorem infoLoop_plain_fst (fix : Option Nat) (st : St) (acc : Acc) (d : Dir) :
    (infoLoop false fix st acc d).1 = d := by
  induction d generalizing st acc with
  | nil => rfl
  | cons u us ih =>
    unfold infoLoop
    have h := infoStep_plain_fst fix st acc u
    cases hs : infoStep false fix st acc u with
    | mk u1 res =>
      rw [hs] at h
      dsimp only at h
      subst h
      cases res with
      | error e => rfl
      | ok p => simp only; rw [ih]

end PdtVerif.DataDir
