import PdtVerif.Model.SeqScoreCache
/-! The cache of `SequentialLanguageModelDistribution` is transparent (core Lean only). -/
namespace PdtVerif.SeqScore

variable {Value Scores : Type}

/-- Every `sample` of the sequence that drew something reports, for the values it drew, the
scores `log_prob` computes for them (for one walk this is `C07_walk`), and `log_prob` does not
raise on what was drawn. -/
def SamplesScored (cfg : DistCfg Value Scores) : List (DistOp Value Scores) → Prop
  | [] => True
  | .sample e d w :: ops => (e = false → w = cfg.score d ∧ cfg.raises d = false) ∧
      SamplesScored cfg ops
  | .logProb _ :: ops => SamplesScored cfg ops
  | .clearCache :: ops => SamplesScored cfg ops

/-- The invariant: a cached value is cached together with its own scores (and scoring it does
not raise). -/
def CacheOk (cfg : DistCfg Value Scores) (st : DistCache Value Scores) : Prop :=
  ∀ c, st.samples = some c → st.logProbs = some (cfg.score c) ∧ cfg.raises c = false

theorem cacheOk_empty (cfg : DistCfg Value Scores) : CacheOk cfg DistCache.empty := by
  intro c h
  simp [DistCache.empty] at h

theorem cacheOk_sample (cfg : DistCfg Value Scores) (st : DistCache Value Scores) (e : Bool)
    (d : Value) (w : Scores) (hst : CacheOk cfg st)
    (hw : e = false → w = cfg.score d ∧ cfg.raises d = false) :
    CacheOk cfg (sampleStep cfg st e d w) := by
  unfold sampleStep
  split
  · exact hst
  · next he =>
    split
    · intro c hc
      have hd : d = c := by simpa using hc
      subst hd
      have := hw (by simpa using he)
      simp [this.1, this.2]
    · exact hst

/-- The call does not reach a raising scorer: the value is rejected by validation, or it is the
empty sample, or scoring it does not raise. -/
def Scorable (cfg : DistCfg Value Scores) (v : Value) : Prop :=
  (validating cfg.validateArgs && !cfg.valid v) = true ∨ cfg.isEmpty v = true ∨
    cfg.raises v = false

/-- One `log_prob` from a consistent cache answers as the reference and leaves a consistent
cache — for the repaired write order always, for the pinned one (`_samples_cache` written before
scoring) when caching is off or the call does not reach a raising scorer. -/
theorem logProbStep_ref [DecidableEq Value] (pinned : Bool) (cfg : DistCfg Value Scores)
    (st : DistCache Value Scores) (v : Value) (hst : CacheOk cfg st)
    (hp : pinned = true → cfg.cacheSamples = true → Scorable cfg v) :
    (logProbStep pinned cfg st v).1 = refLogProb cfg v ∧
      CacheOk cfg (logProbStep pinned cfg st v).2 := by
  unfold logProbStep refLogProb
  cases h1 : (validating cfg.validateArgs && !cfg.valid v)
  · cases h2 : cfg.isEmpty v
    · cases h3 : (cfg.cacheSamples && decide (st.samples = some v))
      · cases h5 : cfg.raises v
        · cases h4 : cfg.cacheSamples
          · simp only [Bool.false_eq_true, if_false]
            exact ⟨by first | rfl | trivial, hst⟩
          · simp only [Bool.false_eq_true, if_false, if_true]
            refine ⟨by first | rfl | trivial, ?_⟩
            intro c hc
            have hd : v = c := by simpa using hc
            subst hd
            exact ⟨rfl, h5⟩
        · simp only [Bool.false_eq_true, if_false, if_true]
          refine ⟨by first | rfl | trivial, ?_⟩
          cases hpc : (pinned && cfg.cacheSamples)
          · simpa using hst
          · simp only [Bool.and_eq_true] at hpc
            rcases hp hpc.1 hpc.2 with h | h | h
            · rw [h1] at h; cases h
            · rw [h2] at h; cases h
            · rw [h5] at h; cases h
      · have hs : st.samples = some v := by
          simp only [Bool.and_eq_true, decide_eq_true_eq] at h3
          exact h3.2
        simp only [Bool.false_eq_true, if_false, if_true]
        rw [(hst v hs).1, (hst v hs).2]
        exact ⟨by first | rfl | trivial, hst⟩
    · simp only [Bool.false_eq_true, if_false, if_true]
      exact ⟨by first | rfl | trivial, hst⟩
  · simp only [if_true]
    exact ⟨by first | rfl | trivial, hst⟩

/-- **The cache is transparent**: from any state that satisfies the invariant, every `log_prob`
of a sequence of `sample` / `log_prob` / `clear_cache` calls returns what a distribution that
never caches returns. With the pinned write order this needs: caching off, or no `log_prob` of
the sequence reaches a raising scorer. -/
theorem runDist_eq_ref [DecidableEq Value] (pinned : Bool) (cfg : DistCfg Value Scores) :
    ∀ (ops : List (DistOp Value Scores)) (st : DistCache Value Scores),
      CacheOk cfg st → SamplesScored cfg ops →
      (pinned = true → cfg.cacheSamples = true → ∀ v ∈ logProbArgs ops, Scorable cfg v) →
      runDist pinned cfg st ops = (logProbArgs ops).map (refLogProb cfg)
  | [], _, _, _, _ => rfl
  | .sample e d w :: ops, st, hst, hs, hp => by
    simp only [runDist, logProbArgs]
    exact runDist_eq_ref pinned cfg ops _ (cacheOk_sample cfg st e d w hst hs.1) hs.2
      (by simpa [logProbArgs] using hp)
  | .logProb v :: ops, st, hst, hs, hp => by
    simp only [runDist, logProbArgs, List.map_cons]
    have h := logProbStep_ref pinned cfg st v hst
      (fun h1 h2 => hp h1 h2 v (by simp [logProbArgs]))
    rw [h.1, runDist_eq_ref pinned cfg ops _ h.2 hs
      (fun h1 h2 w hw => hp h1 h2 w (by simp [logProbArgs, hw]))]
  | .clearCache :: ops, st, _, hs, hp => by
    simp only [runDist, logProbArgs]
    exact runDist_eq_ref pinned cfg ops _ (cacheOk_empty cfg) hs
      (by simpa [logProbArgs] using hp)

theorem refLogProb_error_iff (cfg : DistCfg Value Scores) (v : Value) (e : DistErr) :
    refLogProb cfg v = .error e ↔
      (e = .valueError ∧ cfg.validateArgs ≠ some false ∧ cfg.valid v = false) ∨
      (e = .scoring ∧ (cfg.validateArgs = some false ∨ cfg.valid v = true) ∧
        cfg.isEmpty v = false ∧ cfg.raises v = true) := by
  unfold refLogProb validating
  cases hva : cfg.validateArgs with
  | none =>
    cases hv : cfg.valid v <;> cases hemp : cfg.isEmpty v <;> cases hr : cfg.raises v <;>
      cases e <;> simp
  | some b =>
    cases b <;> cases hv : cfg.valid v <;> cases hemp : cfg.isEmpty v <;>
      cases hr : cfg.raises v <;> cases e <;> simp

end PdtVerif.SeqScore
