import PdtVerif.Model.SeqScoreCache
/-! The cache of `SequentialLanguageModelDistribution` is transparent (core Lean only). -/
namespace PdtVerif.SeqScore

variable {Value Scores : Type}

/-- Every `sample` of the sequence that drew something reports, for the values it drew, the
scores `log_prob` computes for them (for one walk this is `C07_walk`), and `log_prob` does not
raise on what was drawn. -/
def SamplesScored (cfg : DistCfg Value Scores) : List (DistOp Value Scores) → Prop
  | [] => True
  | .sample e d w :: ops => (e = false → w = cfg.score d ∧ cfg.raises d = false) ∧
      SamplesScored cfg ops
  | .logProb _ :: ops => SamplesScored cfg ops
  | .clearCache :: ops => SamplesScored cfg ops

/-- The invariant: a cached value is cached together with its own scores (and scoring it does
not raise). -/
def CacheOk (cfg : DistCfg Value Scores) (st : DistCache Value Scores) : Prop :=
  ∀ c, st.samples = some c → st.logProbs = some (cfg.score c) ∧ cfg.raises c = false

theorem cacheOk_empty (cfg : DistCfg Value Scores) : CacheOk cfg DistCache.empty := by
  intro c h
  simp [DistCache.empty] at h

theorem cacheOk_sample (cfg : DistCfg Value Scores) (st : DistCache Value Scores) (e : Bool)
    (d : Value) (w : Scores) (hst : CacheOk cfg st)
    (hw : e = false → w = cfg.score d ∧ cfg.raises d = false) :
    CacheOk cfg (sampleStep cfg st e d w) := by
  unfold sampleStep
  split
  · exact hst
  · next he =>
    split
    · intro c hc
      have hd : d = c := by simpa using hc
      subst hd
      have := hw (by simpa using he)
      simp [this.1, this.2]
    · exact hst

/-- The call does not reach a raising scorer: the value is rejected by validation, or it is the
empty sample, or scoring it does not raise. -/
def Scorable (cfg : DistCfg Value Scores) (v : Value) : Prop :=
  (validating cfg.validateArgs && !cfg.valid v) = true ∨ cfg.isEmpty v = true ∨
    cfg.raises v = false

/-- One `log_prob` from a consistent cache answers as the reference and leaves a consistent
cache — for the repaired write order always, for the pinned one (`_samples_cache` written before
scoring) when caching is off or the call does not reach a raising scorer. -/
theorem logProbStep_ref [DecidableEq Value] (pinned : Bool) (cfg : DistCfg Value Scores)
    (st : DistCache Value Scores) (v : Value) (hst : CacheOk cfg st)
    (hp : pinned = true → cfg.cacheSamples = true → Scorable cfg v) :
    (logProbStep pinned cfg st v).1 = refLogProb cfg v ∧
      CacheOk cfg (logProbStep pinned cfg st v).2 := by
  unfold logProbStep refLogProb
  cases h1 : (validating cfg.validateArgs && !cfg.valid v)
  · cases h2 : cfg.isEmpty v
    · cases h3 : (cfg.cacheSamples && decide (st.samples = some v))
      · cases h5 : cfg.raises v
        · cases h4 : cfg.cacheSamples
          · simp only [Bool.false_eq_true, if_false]
            exact ⟨by first | rfl | trivial, hst⟩
          · simp only [Bool.false_eq_true, if_false, if_true]
            refine ⟨by first | rfl | trivial, ?_⟩
            intro c hc
            have hd : v = c := by simpa using hc
            subst hd
            exact ⟨rfl, h5⟩
        · simp only [Bool.false_eq_true, if_false, if_true]
          refine ⟨by first | rfl | trivial, ?_⟩
          cases hpc : (pinned && cfg.cacheSamples)
          · simpa using hst
          · simp only [Bool.and_eq_true] at hpc
            rcases hp hpc.1 hpc.2 with h | h | h
            · rw [h1] at h; cases h
            · rw [h2] at h; cases h
            · rw [h5] at h; cases h
      · have hs : st.samples = some v := by
          simp only [Bool.and_eq_true, decide_eq_true_eq] at h3
          exact h3.2
        simp only [Bool.false_eq_true, if_false, if_true]
        rw [(hst v hs).1, (hst v hs).2]
        exact ⟨by first | rfl | trivial, hst⟩
    · simp only [Bool.false_eq_true, if_false, if_true]
      exact ⟨by first | rfl | trivial, hst⟩
  · simp only [if_true]
    exact ⟨by first | rfl | trivial, hst⟩

/-- **The cache is transparent**: from any state that satisfies the invariant, every `log_prob`
of a sequence of `sample` / `log_prob` / `clear_cache` calls returns what a distribution that
never caches returns. With the pinned write order this needs: caching off, or no `log_prob` of
the sequence reaches a raising scorer. -/
theorem runDist_eq_ref [DecidableEq Value] (pinned : Bool) (cfg : DistCfg Value Scores) :
    ∀ (ops : List (DistOp Value Scores)) (st : DistCache Value Scores),
      CacheOk cfg st → SamplesScored cfg ops →
      (pinned = true → cfg.cacheSamples = true → ∀ v ∈ logProbArgs ops, Scorable cfg v) →
      runDist pinned cfg st ops = (logProbArgs ops).map (refLogProb cfg)
  | [], _, _, _, _ => rfl
  | .sample e d w :: ops, st, hst, hs, hp => by
    simp only [runDist, logProbArgs]
    exact runDist_eq_ref pinned cfg ops _ (cacheOk_sample cfg st e d w hst hs.1) hs.2
      (by simpa [logProbArgs] using hp)
  | .logProb v :: ops, st, hst, hs, hp => by
    simp only [runDist, logProbArgs, List.map_cons]
    have h := logProbStep_ref pinned cfg st v hst
      (fun h1 h2 => hp h1 h2 v (by simp [logProbArgs]))
    rw [h.1, runDist_eq_ref pinned cfg ops _ h.2 hs
      (fun h1 h2 w hw => hp h1 h2 w (by simp [logProbArgs, hw]))]
  | .clearCache :: ops, st, _, hs, hp => by
    simp only [runDist, logProbArgs]
    exact runDist_eq_ref pinned cfg ops _ (cacheOk_empty cfg) hs
      (by simpa [logProbArgs] using hp)

theorem refLogProb_error_iff (cfg : DistCfg Value Scores) (v : Value) (e : DistErr) :
    refLogProb cfg v = .error e ↔
      (e = .valueError ∧ cfg.validateArgs ≠ some false ∧ cfg.valid v = false) ∨
      (e = .scoring ∧ (cfg.validateArgs = some false ∨ cfg.valid v = true) ∧
        cfg.isEmpty v = false ∧ cfg.raises v = true) := by
  unfold refLogProb validating
  cases hva : cfg.validateArgs with
  | none =>
    cases hv : cfg.valid v <;> cases hemp : cfg.isEmpty v <;> cases hr : cfg.raises v <;>
      cases e <;> simp
  | some b =>
    cases b <;> cases hv : cfg.valid v <;> cases hemp : cfg.isEmpty v <;>
      cases hr : cfg.raises v <;> cases e <;> simp

/-! ## The caller's tensors: the aliasing object without in-place edits is the value store -/

/-- The script never edits a tensor in place: every `sample` / `setValue` names a tensor number
that is not in use, and there is no `editScores`. -/
def NoInPlace : List (Nat × Value) → List (CallOp Value Scores) → Prop
  | _, [] => True
  | heap, .sample r _ d _ :: ops => heap.lookup r = none ∧ NoInPlace ((r, d) :: heap) ops
  | heap, .setValue r v :: ops => heap.lookup r = none ∧ NoInPlace ((r, v) :: heap) ops
  | heap, .logProb _ :: ops => NoInPlace heap ops
  | _, .editScores _ _ :: _ => False
  | heap, .clearCache :: ops => NoInPlace heap ops

/-- The cache of the aliasing object read as a value store: what its pointers point to now. -/
def absCache (st : AliasState Value Scores) : DistCache Value Scores :=
  ⟨st.samples.bind fun c => st.heap.lookup c, st.logProbs.map (·.2)⟩

/-- `_samples_cache` points to a tensor the caller holds. -/
def AliasWF (st : AliasState Value Scores) : Prop :=
  ∀ c, st.samples = some c → st.heap.lookup c ≠ none

theorem lookup_cons_of_fresh (heap : List (Nat × Value)) (r : Nat) (v : Value)
    (samples : Option Nat) (hr : heap.lookup r = none)
    (hwf : ∀ c, samples = some c → heap.lookup c ≠ none) :
    (samples.bind fun c => ((r, v) :: heap).lookup c) = samples.bind fun c => heap.lookup c := by
  cases samples with
  | none => rfl
  | some c =>
    have hc := hwf c rfl
    have hne : (c == r) = false := by
      cases h : c == r
      · rfl
      · have : c = r := by simpa using h
        subst this
        exact absurd hr hc
    simp [List.lookup_cons, hne]

theorem wf_cons (heap : List (Nat × Value)) (r : Nat) (v : Value) (samples : Option Nat)
    (hwf : ∀ c, samples = some c → heap.lookup c ≠ none) :
    ∀ c, samples = some c → ((r, v) :: heap).lookup c ≠ none := by
  intro c hc
  rw [List.lookup_cons]
  cases h : c == r
  · simpa using hwf c hc
  · simp

/-- Without in-place edits the aliasing object and the value store answer alike (simulation). -/
theorem runAliased_eq_runDist [DecidableEq Value] (cfg : DistCfg Value Scores) :
    ∀ (ops : List (CallOp Value Scores)) (st : AliasState Value Scores),
      AliasWF st → NoInPlace st.heap ops →
      runAliased cfg st ops = runDist false cfg (absCache st) (resolveCalls st.heap ops)
  | [], _, _, _ => rfl
  | .sample r e d w :: ops, st, hwf, hn => by
    obtain ⟨hr, hn⟩ := hn
    simp only [runAliased, resolveCalls, runDist, sampleStep]
    cases he : e
    · cases hc : cfg.cacheSamples
      · simp only [Bool.false_or, Bool.not_false, if_true, Bool.false_eq_true, if_false]
        have := runAliased_eq_runDist cfg ops { st with heap := (r, d) :: st.heap }
          (wf_cons st.heap r d st.samples hwf) hn
        rw [this]
        congr 1
        simp only [absCache]
        rw [lookup_cons_of_fresh st.heap r d st.samples hr hwf]
      · simp only [Bool.false_or, Bool.not_true, Bool.false_eq_true, if_false, if_true]
        have := runAliased_eq_runDist cfg ops
          { st with heap := (r, d) :: st.heap, samples := some r,
                    logProbs := some (st.nextId, w), nextId := st.nextId + 1 }
          (by intro c hc; simp only [Option.some.injEq] at hc; subst hc; simp) hn
        rw [this]
        congr 1
        simp [absCache, List.lookup_cons]
    · simp only [Bool.true_or, if_true]
      have := runAliased_eq_runDist cfg ops { st with heap := (r, d) :: st.heap }
        (wf_cons st.heap r d st.samples hwf) hn
      rw [this]
      congr 1
      simp only [absCache]
      rw [lookup_cons_of_fresh st.heap r d st.samples hr hwf]
  | .setValue r v :: ops, st, hwf, hn => by
    obtain ⟨hr, hn⟩ := hn
    simp only [runAliased, resolveCalls]
    have := runAliased_eq_runDist cfg ops { st with heap := (r, v) :: st.heap }
      (wf_cons st.heap r v st.samples hwf) hn
    rw [this]
    congr 1
    simp only [absCache]
    rw [lookup_cons_of_fresh st.heap r v st.samples hr hwf]
  | .logProb r :: ops, st, hwf, hn => by
    simp only [runAliased, resolveCalls]
    cases hl : st.heap.lookup r with
    | none => exact runAliased_eq_runDist cfg ops st hwf hn
    | some v =>
      simp only [runDist]
      have key : (aliasLogProb cfg st v r).1 = (logProbStep false cfg (absCache st) v).1 ∧
          absCache (aliasLogProb cfg st v r).2 = (logProbStep false cfg (absCache st) v).2 ∧
          (aliasLogProb cfg st v r).2.heap = st.heap ∧ AliasWF (aliasLogProb cfg st v r).2 := by
        have habs : (absCache st).samples = st.samples.bind fun c => st.heap.lookup c := rfl
        cases h1 : (validating cfg.validateArgs && !cfg.valid v)
        · cases h2 : cfg.isEmpty v
          · cases h4 : cfg.cacheSamples
            · cases h5 : cfg.raises v
              · refine ⟨?_, ?_, ?_, ?_⟩ <;>
                  simp only [aliasLogProb, logProbStep, habs, h1, h2, h4, h5, Bool.false_and,
                    Bool.false_eq_true, if_false]
                · rfl
                · exact hwf
              · refine ⟨?_, ?_, ?_, ?_⟩ <;>
                  simp only [aliasLogProb, logProbStep, habs, h1, h2, h4, h5, Bool.false_and,
                    Bool.false_eq_true, if_false, if_true]
                · rfl
                · exact hwf
            · cases hd : decide ((st.samples.bind fun c => st.heap.lookup c) = some v)
              · cases h5 : cfg.raises v
                · refine ⟨?_, ?_, ?_, ?_⟩ <;>
                    simp only [aliasLogProb, logProbStep, habs, h1, h2, h4, h5, hd, Bool.true_and,
                      Bool.false_eq_true, if_false, if_true]
                  · simp [absCache, hl]
                  · intro c hc
                    simp only [Option.some.injEq] at hc
                    subst hc
                    simp [hl]
                · refine ⟨?_, ?_, ?_, ?_⟩ <;>
                    simp only [aliasLogProb, logProbStep, habs, h1, h2, h4, h5, hd, Bool.true_and,
                      Bool.false_eq_true, if_false, if_true]
                  · rfl
                  · exact hwf
              · cases hlp : st.logProbs with
                | none =>
                  have hal : (absCache st).logProbs = none := by simp [absCache, hlp]
                  refine ⟨?_, ?_, ?_, ?_⟩ <;>
                    simp only [aliasLogProb, logProbStep, habs, hal, hlp, h1, h2, h4, hd,
                      Bool.true_and, Bool.false_eq_true, if_false, if_true]
                  · simp [absCache, hlp]
                  · exact hwf
                | some il =>
                  have hal : (absCache st).logProbs = some il.2 := by simp [absCache, hlp]
                  refine ⟨?_, ?_, ?_, ?_⟩ <;>
                    simp only [aliasLogProb, logProbStep, habs, hal, hlp, h1, h2, h4, hd,
                      Bool.true_and, Bool.false_eq_true, if_false, if_true]
                  · simp [absCache, hlp]
                  · exact hwf
          · refine ⟨?_, ?_, ?_, ?_⟩ <;>
              simp only [aliasLogProb, logProbStep, habs, h1, h2, Bool.false_eq_true, if_false, if_true]
            · rfl
            · exact hwf
        · refine ⟨?_, ?_, ?_, ?_⟩ <;>
            simp only [aliasLogProb, logProbStep, habs, h1, if_true]
          · rfl
          · exact hwf
      obtain ⟨k1, k2, k3, k4⟩ := key
      rw [k1, runAliased_eq_runDist cfg ops _ k4 (by rw [k3]; exact hn), k2, k3]
  | .editScores _ _ :: _, _, _, hn => by cases hn
  | .clearCache :: ops, st, _, hn => by
    simp only [runAliased, resolveCalls, runDist]
    have := runAliased_eq_runDist cfg ops { st with samples := none, logProbs := none }
      (by intro c hc; cases hc) hn
    rw [this]
    rfl

end PdtVerif.SeqScore
