import PdtVerif.Model.SeqScoreCache
/-! The cache of `SequentialLanguageModelDistribution` is transparent (core Lean only). -/
namespace PdtVerif.SeqScore

variable {Value Scores : Type}

/-- Every `sample` of the sequence that drew something reports, for the values it drew, the
scores `log_prob` computes for them (for one walk this is `C07_walk`). -/
def SamplesScored (cfg : DistCfg Value Scores) : List (DistOp Value Scores) → Prop
  | [] => True
  | .sample e d w :: ops => (e = false → w = cfg.score d) ∧ SamplesScored cfg ops
  | .logProb _ :: ops => SamplesScored cfg ops
  | .clearCache :: ops => SamplesScored cfg ops

/-- The invariant: a cached value is cached together with its own scores. -/
def CacheOk (cfg : DistCfg Value Scores) (st : DistCache Value Scores) : Prop :=
  ∀ c, st.samples = some c → st.logProbs = some (cfg.score c)

theorem cacheOk_empty (cfg : DistCfg Value Scores) : CacheOk cfg DistCache.empty := by
  intro c h
  simp [DistCache.empty] at h

theorem cacheOk_sample (cfg : DistCfg Value Scores) (st : DistCache Value Scores) (e : Bool)
    (d : Value) (w : Scores) (hst : CacheOk cfg st) (hw : e = false → w = cfg.score d) :
    CacheOk cfg (sampleStep cfg st e d w) := by
  unfold sampleStep
  split
  · exact hst
  · next he =>
    split
    · intro c hc
      have hd : d = c := by simpa using hc
      subst hd
      simp [hw (by simpa using he)]
    · exact hst

theorem logProbStep_ref [DecidableEq Value] (cfg : DistCfg Value Scores)
    (st : DistCache Value Scores) (v : Value) (hst : CacheOk cfg st) :
    (logProbStep cfg st v).1 = refLogProb cfg v ∧ CacheOk cfg (logProbStep cfg st v).2 := by
  unfold logProbStep refLogProb
  cases h1 : (validating cfg.validateArgs && !cfg.valid v)
  · cases h2 : cfg.isEmpty v
    · cases h3 : (cfg.cacheSamples && decide (st.samples = some v))
      · cases h4 : cfg.cacheSamples
        · simp only [Bool.false_eq_true, if_false]
          exact ⟨by first | rfl | trivial, hst⟩
        · simp only [Bool.false_eq_true, if_false, if_true]
          refine ⟨by first | rfl | trivial, ?_⟩
          intro c hc
          have hd : v = c := by simpa using hc
          subst hd
          rfl
      · have hs : st.samples = some v := by
          simp only [Bool.and_eq_true, decide_eq_true_eq] at h3
          exact h3.2
        simp only [Bool.false_eq_true, if_false, if_true]
        rw [hst v hs]
        exact ⟨by first | rfl | trivial, hst⟩
    · simp only [Bool.false_eq_true, if_false, if_true]
      exact ⟨by first | rfl | trivial, hst⟩
  · simp only [if_true]
    exact ⟨by first | rfl | trivial, hst⟩

/-- **The cache is transparent**: from any state that satisfies the invariant, every `log_prob`
of a sequence of `sample` / `log_prob` / `clear_cache` calls returns what a distribution that
never caches returns. -/
theorem runDist_eq_ref [DecidableEq Value] (cfg : DistCfg Value Scores) :
    ∀ (ops : List (DistOp Value Scores)) (st : DistCache Value Scores),
      CacheOk cfg st → SamplesScored cfg ops →
      runDist cfg st ops = (logProbArgs ops).map (refLogProb cfg)
  | [], _, _, _ => rfl
  | .sample e d w :: ops, st, hst, hs => by
    simp only [runDist, logProbArgs]
    exact runDist_eq_ref cfg ops _ (cacheOk_sample cfg st e d w hst hs.1) hs.2
  | .logProb v :: ops, st, hst, hs => by
    simp only [runDist, logProbArgs, List.map_cons]
    have h := logProbStep_ref cfg st v hst
    rw [h.1, runDist_eq_ref cfg ops _ h.2 hs]
  | .clearCache :: ops, st, _, hs => by
    simp only [runDist, logProbArgs]
    exact runDist_eq_ref cfg ops _ (cacheOk_empty cfg) hs

theorem refLogProb_error_iff (cfg : DistCfg Value Scores) (v : Value) (e : DistErr) :
    refLogProb cfg v = .error e ↔
      e = .valueError ∧ cfg.validateArgs ≠ some false ∧ cfg.valid v = false := by
  unfold refLogProb validating
  cases hva : cfg.validateArgs with
  | none =>
    cases hv : cfg.valid v <;> cases hemp : cfg.isEmpty v <;> cases e <;> simp
  | some b =>
    cases b <;> cases hv : cfg.valid v <;> cases hemp : cfg.isEmpty v <;> cases e <;> simp

end PdtVerif.SeqScore
