import PdtVerif.Model.StringMatch
import PdtVerif.Lemmas.LevRow
/-!
# Lemmas for C01: the vectorised `_string_matching` row update is the textbook one

* `delmat_eq_sweep` — `(del_mat + v).min(1)` equals the sequential loop
  `v[i] = min(v[i], v[i-1] + d)` (the claim in the code's own comment; DESIGN appendix A1);
* `step_eq_stepRow` — hence one un-frozen loop iteration is `Lev.stepRow` on the padded row;
* `scanRows_getElem?` — the rows of the loop with the `not_done` freeze;
* `finalRow_eq`, `readRow_levRow` — the frozen final row read at `ref_lens`;
* `shortcut_scale` — the uniform-cost shortcut changes nothing;
* `editDistance_eq`, `prefixEditDistances_eq` — closed forms in terms of the cut sequences.
-/
set_option linter.unusedSectionVars false

namespace PdtVerif.StringMatch
open PdtVerif.Lev

variable {α : Type} [DecidableEq α]

/-! ### `delmat_eq_sweep` -/

theorem foldl_min_add (g g' : Nat → Rat) (d : Rat) (hg : ∀ j, g' j = g j + d) (a : Rat)
    (l : List Nat) :
    (l.foldl (fun acc j => min acc (g j)) a) + d = l.foldl (fun acc j => min acc (g' j)) (a + d) := by
  induction l generalizing a with
  | nil => rfl
  | cons j l ih => simp only [List.foldl_cons]; rw [ih, hg, min_add_add_right]

theorem foldl_min_init (g : Nat → Rat) (a b : Rat) (l : List Nat) :
    l.foldl (fun acc j => min acc (g j)) (min a b)
      = min a (l.foldl (fun acc j => min acc (g j)) b) := by
  induction l generalizing b with
  | nil => rfl
  | cons j l ih => simp only [List.foldl_cons]; rw [min_assoc, ih]

/-- The value the sequential loop leaves in cell `i`. -/
def sweepVal (d : Rat) (v : List Rat) : Nat → Rat
  | 0 => v.getD 0 0
  | i + 1 => min (v.getD (i + 1) 0) (sweepVal d v i + d)

theorem delMatEntry_zero (d : Rat) (v : List Rat) : delMatEntry d v 0 = v.getD 0 0 := by
  simp [delMatEntry]

theorem delMatEntry_succ (d : Rat) (v : List Rat) (i : Nat) :
    delMatEntry d v (i + 1) = min (v.getD (i + 1) 0) (delMatEntry d v i + d) := by
  unfold delMatEntry
  rw [List.range_succ, List.foldl_append, List.foldl_cons, List.foldl_nil]
  rw [foldl_min_add (fun j => ((i : Rat) * d - (j : Rat) * d) + v.getD j 0)
    (fun j => (((i + 1 : Nat) : Rat) * d - (j : Rat) * d) + v.getD j 0) d
    (by intro j; push_cast; ring)]
  have e1 : (((i + 1 : Nat) : Rat) * d - ((i + 1 : Nat) : Rat) * d) + v.getD (i + 1) 0
      = v.getD (i + 1) 0 := by ring
  have e2 : (((i + 1 : Nat) : Rat) * d - (i : Rat) * d) + v.getD i 0
      = ((i : Rat) * d - (i : Rat) * d + v.getD i 0) + d := by push_cast; ring
  rw [e1, e2]
  rw [min_comm (List.foldl _ _ _) _, ← foldl_min_init, min_comm, foldl_min_init]

theorem delMatEntry_eq_sweepVal (d : Rat) (v : List Rat) (i : Nat) :
    delMatEntry d v i = sweepVal d v i := by
  induction i with
  | zero => simp [delMatEntry_zero, sweepVal]
  | succ i ih => rw [delMatEntry_succ, ih, sweepVal]

/-- Cell `i` of the sequential loop started with running value `s`. -/
def auxVal (d : Rat) (s : Rat) (xs : List Rat) : Nat → Rat
  | 0 => min (xs.getD 0 0) (s + d)
  | i + 1 => min (xs.getD (i + 1) 0) (auxVal d s xs i + d)

theorem auxVal_cons (d s x : Rat) (xs : List Rat) (i : Nat) :
    auxVal d s (x :: xs) (i + 1) = auxVal d (min x (s + d)) xs i := by
  induction i with
  | zero => simp [auxVal]
  | succ i ih => rw [auxVal, ih]; simp [auxVal]

theorem seqSweepAux_length (d s : Rat) (xs : List Rat) : (seqSweepAux d s xs).length = xs.length := by
  induction xs generalizing s with
  | nil => rfl
  | cons x xs ih => simp [seqSweepAux, ih]

theorem seqSweepAux_getElem? (d s : Rat) (xs : List Rat) (i : Nat) (hi : i < xs.length) :
    (seqSweepAux d s xs)[i]? = some (auxVal d s xs i) := by
  induction xs generalizing s i with
  | nil => simp at hi
  | cons x xs ih =>
    cases i with
    | zero => simp [seqSweepAux, auxVal]
    | succ i =>
      simp only [seqSweepAux, List.getElem?_cons_succ]
      rw [ih _ i (by simpa using hi), auxVal_cons]

theorem sweepVal_cons (d v0 : Rat) (vs : List Rat) (i : Nat) :
    sweepVal d (v0 :: vs) (i + 1) = auxVal d v0 vs i := by
  induction i with
  | zero => simp [sweepVal, auxVal, min_comm]
  | succ i ih => rw [sweepVal, ih]; simp [auxVal]

theorem seqSweep_length (d : Rat) (v : List Rat) : (seqSweep d v).length = v.length := by
  cases v <;> simp [seqSweep, seqSweepAux_length]

theorem seqSweep_getElem? (d : Rat) (v : List Rat) (i : Nat) (hi : i < v.length) :
    (seqSweep d v)[i]? = some (sweepVal d v i) := by
  cases v with
  | nil => simp at hi
  | cons v0 vs =>
    cases i with
    | zero => simp [seqSweep, sweepVal]
    | succ i =>
      simp only [seqSweep, List.getElem?_cons_succ]
      rw [seqSweepAux_getElem? d v0 vs i (by simpa using hi), sweepVal_cons]

/-- **`delmat_eq_sweep`**: for every row `v` and every `d` (no sign condition),
`(del_mat + v).min(1)` — entry `i` is `min_{j ≤ i} (v[j] + (i·d − j·d))` — equals the
sequential sweep `v[i] = min(v[i], v[i-1] + d)`. -/
theorem delmat_eq_sweep (d : Rat) (v : List Rat) : delMatStep d v = seqSweep d v := by
  apply List.ext_getElem?
  intro i
  by_cases hi : i < v.length
  · rw [seqSweep_getElem? d v i hi]
    simp [delMatStep, hi, delMatEntry_eq_sweepVal]
  · have h1 : (delMatStep d v).length ≤ i := by simp [delMatStep]; omega
    have h2 : (seqSweep d v).length ≤ i := by rw [seqSweep_length]; omega
    rw [List.getElem?_eq_none h1, List.getElem?_eq_none h2]

/-! ### One loop iteration is `Lev.stepRow` -/

theorem sub_mul_ite (c : Costs) (x y : α) :
    c.sub * (if x = y then (0 : Rat) else 1) = subCost c x y := by
  unfold subCost; split <;> simp

theorem seqSweepAux_cand (c : Costs) (y : α) (ref : List α) (d0 : Rat) (rest : List Rat) (left : Rat) :
    seqSweepAux c.del left
        (List.zipWith min (rest.map (fun d => d + c.ins * 1)) (subRow c y ref (d0 :: rest)))
      = sweep c y ref d0 rest left := by
  induction ref generalizing d0 rest left with
  | nil => simp [subRow, seqSweepAux, sweep]
  | cons x xs ih =>
    cases rest with
    | nil => simp [seqSweepAux, sweep]
    | cons up rest' =>
      have hs : subRow c y (x :: xs) (d0 :: up :: rest')
          = (d0 + subCost c x y) :: subRow c y xs (up :: rest') := by
        simp [subRow, subCost]
      rw [hs]
      simp only [List.map_cons, List.zipWith_cons_cons, seqSweepAux, sweep, mul_one]
      have hc : min (min (up + c.ins) (d0 + subCost c x y)) (left + c.del)
          = min (min (left + c.del) (up + c.ins)) (d0 + subCost c x y) := by
        rw [min_comm, min_assoc]
      rw [hc]
      congr 1
      have := ih up rest' (min (min (left + c.del) (up + c.ins)) (d0 + subCost c x y))
      simpa only [mul_one] using this

/-- With `ins_mask = 1` the vectorised update (`candRow` then `delMatStep`) is exactly the
shared sequential row step `Lev.stepRow` — on any row, over the full padded reference. -/
theorem step_eq_stepRow (c : Costs) (y : α) (ref : List α) (last : List Rat) :
    delMatStep c.del (candRow c 1 y ref last) = stepRow c ref y last := by
  rw [delmat_eq_sweep]
  cases last with
  | nil => simp [candRow, seqSweep, stepRow]
  | cons d0 rest =>
    simp only [candRow, List.map_cons, seqSweep, stepRow]
    rw [seqSweepAux_cand]
    simp

/-! ### The loop with its `not_done` freeze -/

theorem stepCol_notDone (c : Costs) (ref : List α) (hypLen : Nat) (excl : Bool) (idx : Nat) (y : α)
    (last : List Rat) (h : idx < hypLen + exclOff excl) :
    stepCol c ref hypLen excl idx y last = stepRow c ref y last := by
  have h1 : ((idx : Int) - (if excl then 0 else 1) < (hypLen : Int)) := by
    cases excl <;> simp [exclOff] at h ⊢ <;> omega
  have h2 : hypLen ≥ idx := by cases excl <;> simp [exclOff] at h <;> omega
  unfold stepCol
  simp only [h1, decide_true, if_true, if_pos h2]
  exact step_eq_stepRow c y ref last

theorem stepCol_done (c : Costs) (ref : List α) (hypLen : Nat) (excl : Bool) (idx : Nat) (y : α)
    (last : List Rat) (h : ¬ idx < hypLen + exclOff excl) :
    stepCol c ref hypLen excl idx y last = last := by
  have h1 : ¬ ((idx : Int) - (if excl then 0 else 1) < (hypLen : Int)) := by
    cases excl <;> simp [exclOff] at h ⊢ <;> omega
  unfold stepCol
  simp only [h1, decide_false, Bool.false_eq_true, if_false]

theorem scanRows_length (c : Costs) (ref : List α) (hypLen : Nat) (excl : Bool) (idx : Nat)
    (ys : List α) (row : List Rat) : (scanRows c ref hypLen excl idx ys row).length = ys.length := by
  induction ys generalizing idx row with
  | nil => rfl
  | cons y ys ih => simp [scanRows, ih]

/-- Row `i` of the loop: the sequential DP over the first `min (i+1) m` remaining tokens, where
`m = hypLen + (0 if exclude_last else 1) - idx` is the number of iterations that are not frozen. -/
theorem scanRows_getElem? (c : Costs) (ref : List α) (hypLen : Nat) (excl : Bool) (idx : Nat)
    (ys : List α) (row : List Rat) (i : Nat) (hi : i < ys.length) :
    (scanRows c ref hypLen excl idx ys row)[i]?
      = some ((ys.take (min (i + 1) (hypLen + exclOff excl - idx))).foldl
          (fun r y => stepRow c ref y r) row) := by
  induction ys generalizing idx row i with
  | nil => simp at hi
  | cons y ys ih =>
    by_cases hnd : idx < hypLen + exclOff excl
    · cases i with
      | zero =>
        have : min (0 + 1) (hypLen + exclOff excl - idx) = 1 := by omega
        simp [scanRows, stepCol_notDone _ _ _ _ _ _ _ hnd, this]
      | succ i =>
        have : min (i + 1 + 1) (hypLen + exclOff excl - idx)
            = min (i + 1) (hypLen + exclOff excl - (idx + 1)) + 1 := by omega
        simp only [scanRows, List.getElem?_cons_succ]
        rw [ih (idx + 1) _ i (by simpa using hi), this, stepCol_notDone _ _ _ _ _ _ _ hnd]
        simp
    · have hz : hypLen + exclOff excl - idx = 0 := by omega
      cases i with
      | zero => simp [scanRows, stepCol_done _ _ _ _ _ _ _ hnd, hz]
      | succ i =>
        have hz' : hypLen + exclOff excl - (idx + 1) = 0 := by omega
        simp only [scanRows, List.getElem?_cons_succ]
        rw [ih (idx + 1) _ i (by simpa using hi), stepCol_done _ _ _ _ _ _ _ hnd, hz, hz']
        simp

theorem foldl_stepRow_levRow (c : Costs) (ref : List α) (h : List α) :
    h.foldl (fun r y => stepRow c ref y r) (row0 c ref) = levRow c ref h := by
  have := dpRow_eq c ref h
  unfold dpRow at this
  exact this

/-- Rows of the whole loop: row `i` (after iteration `hyp_idx = i+1`) is the row of prefix
distances of the padded reference against the first `min (i+1) (hypLen + e - 1)` hypothesis
tokens. -/
theorem loopRows_getElem? (c : Costs) (ref hyp : List α) (hypLen : Nat) (excl : Bool)
    (hl : hypLen ≤ hyp.length) (i : Nat) (hi : i + 1 < hyp.length + exclOff excl) :
    (loopRows c ref hyp hypLen excl)[i]?
      = some (levRow c ref (hyp.take (min (i + 1) (hypLen + exclOff excl - 1)))) := by
  unfold loopRows
  have hx : hyp.length - (if excl then 1 else 0) = hyp.length + exclOff excl - 1 := by
    cases excl <;> simp [exclOff]
  rw [hx, scanRows_getElem? _ _ _ _ _ _ _ _ (by rw [List.length_take]; omega)]
  rw [List.take_take, foldl_stepRow_levRow]
  congr 3
  cases excl <;> simp [exclOff] at hi ⊢ <;> omega

theorem loopRows_length (c : Costs) (ref hyp : List α) (hypLen : Nat) (excl : Bool) :
    (loopRows c ref hyp hypLen excl).length = hyp.length + exclOff excl - 1 := by
  unfold loopRows
  rw [scanRows_length, List.length_take]
  cases excl <;> simp [exclOff]

/-- The frozen final row of the scalar branch. -/
theorem finalRow_eq (c : Costs) (ref hyp : List α) (hypLen : Nat) (hl : hypLen ≤ hyp.length) :
    (loopRows c ref hyp hypLen false).getLast?.getD (row0 c ref) = levRow c ref (hyp.take hypLen) := by
  by_cases hH : hyp.length = 0
  · have : hyp = [] := List.eq_nil_of_length_eq_zero hH
    subst this
    simp [loopRows, scanRows, row0_eq]
  · rw [List.getLast?_eq_getElem?, loopRows_length]
    have e1 : exclOff false = 1 := rfl
    rw [e1, loopRows_getElem? c ref hyp hypLen false hl (hyp.length + 1 - 1 - 1) (by rw [e1]; omega)]
    have : min (hyp.length + 1 - 1 - 1 + 1) (hypLen + exclOff false - 1) = hypLen := by rw [e1]; omega
    rw [this]
    rfl

theorem readRow_levRow (c : Costs) (ref h : List α) (n : Nat) (hn : n ≤ ref.length) :
    readRow n (levRow c ref h) = lev c (ref.take n) h := by
  unfold readRow
  rw [List.getD_eq_getElem?_getD, levRow_getElem? c ref h n hn]
  rfl

/-! ### Lengths, the cut, the shortcut -/

theorem firstEos_le (e : α) (l : List α) : firstEos e l ≤ l.length := by
  induction l with
  | nil => simp [firstEos]
  | cons x xs ih => simp only [firstEos]; split <;> simp <;> omega

theorem seqLen_le (eos : Option α) (inc : Bool) (l : List α) : seqLen eos inc l ≤ l.length := by
  unfold seqLen
  cases eos with
  | none => simp
  | some e =>
    have := firstEos_le e l
    simp only
    split
    · split <;> omega
    · exact this

theorem cut_length (eos : Option α) (inc : Bool) (l : List α) :
    (cut eos inc l).length = seqLen eos inc l := by
  unfold cut
  rw [List.length_take]
  exact Nat.min_eq_left (seqLen_le eos inc l)

/-- The uniform-cost shortcut changes nothing: unit-cost distance times `mult` is the
distance under the given costs. -/
theorem shortcut_scale (c : Costs) (r h : List α) :
    lev (shortcut c).1 r h * (shortcut c).2 = lev c r h := by
  unfold shortcut
  split
  · rename_i hc
    obtain ⟨h1, h2, h3⟩ := hc
    have : c = ⟨c.ins, c.ins, c.ins⟩ := by
      cases c; simp only at h1 h2; subst h1; subst h2; rfl
    have hk : 0 ≤ c.ins := by rw [h1, h2]; exact le_of_lt h3
    simp only
    rw [this, lev_uniform_scale c.ins hk]
    ring
  · simp

/-! ### Closed forms of the model in terms of the cut sequences -/

/-- What `editDistance` returns, as a function of the cut sequences only. The inner
`if` is the code's substitute for the division by zero (empty reference under `norm`). -/
def cutDistance (c : Costs) (norm : Bool) (r' h' : List α) : Rat :=
  if norm then
    (if r'.length = 0 then (if h'.length > 0 then 1 else 0) else lev c r' h' / (r'.length : Rat))
  else lev c r' h'

theorem editDistance_eq (c : Costs) (eos : Option α) (inc norm : Bool) (ref hyp : List α) :
    editDistance c eos inc norm ref hyp
      = cutDistance c norm (cut eos inc ref) (cut eos inc hyp) := by
  unfold editDistance cutDistance
  simp only [cut_length]
  rw [finalRow_eq _ _ _ _ (seqLen_le eos inc hyp), readRow_levRow _ _ _ _ (seqLen_le eos inc ref),
    shortcut_scale]
  rfl

/-- Entry `k` of what `prefixEditDistances` returns, as a function of the cut sequences only. -/
def cutPrefixEntry (c : Costs) (norm excl : Bool) (padding : Int) (r' h' : List α) (k : Nat) : Rat :=
  if k ≥ h'.length + exclOff excl then (padding : Rat)
  else if norm then
    (if r'.length = 0 then (if k > 0 then 1 else 0) else lev c r' (h'.take k) / (r'.length : Rat))
  else lev c r' (h'.take k)

theorem exclOff_eq (excl : Bool) : (if excl then 0 else 1) = exclOff excl := rfl

theorem prefixRaw_length (c : Costs) (ref hyp : List α) (refLen hypLen : Nat) (excl : Bool) :
    (prefixRaw c ref hyp refLen hypLen excl).length = hyp.length + exclOff excl := by
  unfold prefixRaw
  split
  · simp; omega
  · simp [loopRows_length]; omega

theorem prefixRaw_getElem? (c : Costs) (ref hyp : List α) (refLen hypLen : Nat) (excl : Bool)
    (hr : refLen ≤ ref.length) (hl : hypLen ≤ hyp.length) (k : Nat)
    (hk : k < hyp.length + exclOff excl) :
    (prefixRaw c ref hyp refLen hypLen excl)[k]?
      = some (lev c (ref.take refLen) (hyp.take (min k (hypLen + exclOff excl - 1)))) := by
  unfold prefixRaw
  have hn : ¬ (hyp.length + exclOff excl = 0) := by omega
  rw [if_neg hn]
  cases k with
  | zero =>
    simp [lev_nil_right, Nat.min_eq_left hr, mul_comm]
  | succ i =>
    rw [List.getElem?_cons_succ, List.getElem?_map, loopRows_getElem? c ref hyp hypLen excl hl i hk]
    simp [readRow_levRow _ _ _ _ hr]

theorem prefixEditDistances_length (c : Costs) (eos : Option α) (inc norm excl : Bool) (padding : Int)
    (ref hyp : List α) :
    (prefixEditDistances c eos inc norm excl padding ref hyp).length = hyp.length + exclOff excl := by
  unfold prefixEditDistances
  cases norm <;>
    simp only [List.length_mapIdx, List.length_map, if_true, Bool.false_eq_true, if_false,
      prefixRaw_length]

theorem prefixEditDistances_eq (c : Costs) (eos : Option α) (inc norm excl : Bool) (padding : Int)
    (ref hyp : List α) :
    prefixEditDistances c eos inc norm excl padding ref hyp
      = (List.range (hyp.length + exclOff excl)).map
          (cutPrefixEntry c norm excl padding (cut eos inc ref) (cut eos inc hyp)) := by
  apply List.ext_getElem?
  intro k
  by_cases hk : k < hyp.length + exclOff excl
  · have hr := seqLen_le eos inc ref
    have hl := seqLen_le eos inc hyp
    have hraw := prefixRaw_getElem? (shortcut c).1 ref hyp (seqLen eos inc ref) (seqLen eos inc hyp)
      excl hr hl k hk
    rw [List.getElem?_map, List.getElem?_range hk]
    unfold prefixEditDistances cutPrefixEntry
    simp only [cut_length, Option.map_some]
    by_cases hpad : k ≥ seqLen eos inc hyp + exclOff excl
    · cases norm
      all_goals
        simp only [List.getElem?_mapIdx, List.getElem?_map, hraw, Option.map_some, exclOff_eq,
          if_true, Bool.false_eq_true, if_false]
        simp only [if_pos hpad]
    · have hmin : min k (seqLen eos inc hyp + exclOff excl - 1) = k := by omega
      have htake : (cut eos inc hyp).take k = hyp.take k := by
        unfold cut; rw [List.take_take]; congr 1
        cases excl <;> simp [exclOff] at hpad ⊢ <;> omega
      rw [hmin] at hraw
      cases norm
      all_goals
        simp only [List.getElem?_mapIdx, List.getElem?_map, hraw, Option.map_some, exclOff_eq,
          if_true, Bool.false_eq_true, if_false, htake, shortcut_scale]
        simp only [if_neg hpad]
        rfl
  · have h1 : (prefixEditDistances c eos inc norm excl padding ref hyp).length ≤ k := by
      rw [prefixEditDistances_length]; omega
    rw [List.getElem?_eq_none h1, List.getElem?_eq_none (by simp; omega)]

/-! ### The padded row only looks left -/

/-- Entries `j ≤ n` of the DP row over the padded reference are the entries of the DP row over
the reference cut to `n` tokens: cell `j` never reads reference tokens at positions `≥ j`, so
whatever sits after the cut (the eos, garbage, padding) cannot reach `row[refLen]`. -/
theorem dpRow_take (c : Costs) (ref h : List α) (n j : Nat) (hj : j ≤ n) (hn : n ≤ ref.length) :
    (dpRow c ref h)[j]? = (dpRow c (ref.take n) h)[j]? := by
  rw [dpRow_eq, dpRow_eq, levRow_getElem? c ref h j (by omega),
    levRow_getElem? c (ref.take n) h j (by rw [List.length_take]; omega), List.take_take,
    Nat.min_eq_left hj]

end PdtVerif.StringMatch
