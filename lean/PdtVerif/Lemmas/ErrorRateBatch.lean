import PdtVerif.Lemmas.ErrorRate
/-!
# Batch level of C02: columns are independent, `batch_first` is a transposition

`errorRateBatch` / `prefixErrorRatesBatch` (Model/ErrorRate.lean) are what the driver evaluates
for a whole batch tensor. Here: entry `n` of the result is the per-sequence function applied to
sequence `n` of the two tensors (`column`), in both layouts; the result of the batch-first
layout is the transposed result of the sequence-first layout on the transposed tensors.
-/
set_option linter.unusedSectionVars false
set_option linter.unusedVariables false

namespace PdtVerif.ErrorRate
open PdtVerif.Lev

variable {α : Type} [DecidableEq α]

/-- The batch dimension has size `N` (only the batch-first layout stores it as the outer
length; in the sequence-first layout every row is read with a default, so nothing is needed). -/
def BatchShaped (bf : Bool) (N : Nat) (t : List (List α)) : Prop := bf = true → t.length = N

theorem toColumns_length (bf : Bool) (N : Nat) (t : List (List α)) (d : α)
    (hs : BatchShaped bf N t) : (toColumns bf N t d).length = N := by
  cases bf with
  | true => simpa [toColumns] using hs rfl
  | false => simp [toColumns]

theorem toColumns_getElem? (bf : Bool) (N : Nat) (t : List (List α)) (d : α)
    (hs : BatchShaped bf N t) (n : Nat) (hn : n < N) :
    (toColumns bf N t d)[n]? = some (column bf t n d) := by
  cases bf with
  | true =>
    have hl : t.length = N := hs rfl
    have hn' : n < t.length := by omega
    simp [toColumns, column, List.getD_eq_getElem?_getD, List.getElem?_eq_getElem hn']
  | false =>
    simp only [toColumns, column, Bool.false_eq_true, if_false]
    rw [List.getElem?_map, List.getElem?_range hn]
    rfl

theorem column_length_seqFirst (t : List (List α)) (n : Nat) (d : α) :
    (column false t n d).length = t.length := by
  simp [column]

/-- `toColumns` in the sequence-first layout is the transposition. -/
theorem toColumns_false_eq_transpose (N : Nat) (t : List (List α)) (d : α) :
    toColumns false N t d = transpose N t d := rfl

/-- Sequence `n` of the transposed tensor is sequence `n` of the tensor. -/
theorem column_transpose (N : Nat) (t : List (List α)) (d : α) (n : Nat) (hn : n < N) :
    column true (transpose N t d) n d = column false t n d := by
  simp only [column, transpose, if_true, Bool.false_eq_true, if_false]
  rw [List.getD_eq_getElem?_getD, List.getElem?_map, List.getElem?_range hn]
  rfl

/-- `transpose` really swaps the two indices. -/
theorem transpose_getElem? (N : Nat) (t : List (List α)) (d : α) (hw : ∀ row ∈ t, row.length = N)
    (n l : Nat) (hn : n < N) :
    ((transpose N t d)[n]?).bind (fun seq => seq[l]?) = (t[l]?).bind (fun row => row[n]?) := by
  simp only [transpose]
  rw [List.getElem?_map, List.getElem?_range hn]
  simp only [Option.map_some, Option.bind_some, List.getElem?_map]
  cases h : t[l]? with
  | none => simp
  | some row =>
    have hmem : row ∈ t := List.mem_of_getElem? h
    have hr : n < row.length := by rw [hw row hmem]; exact hn
    simp [List.getD_eq_getElem?_getD, List.getElem?_eq_getElem hr]

/-! ## `error_rate` -/

theorem errorRateBatch_length (cfg : Config α) (bf : Bool) (N : Nat) (ref hyp : List (List α))
    (d : α) (hr : BatchShaped bf N ref) (hh : BatchShaped bf N hyp) :
    (errorRateBatch cfg bf N ref hyp d).length = N := by
  simp [errorRateBatch, toColumns_length bf N _ d hr, toColumns_length bf N _ d hh]

theorem errorRateBatch_getElem? (cfg : Config α) (bf : Bool) (N : Nat) (ref hyp : List (List α))
    (d : α) (hr : BatchShaped bf N ref) (hh : BatchShaped bf N hyp) (n : Nat) (hn : n < N) :
    (errorRateBatch cfg bf N ref hyp d)[n]?
      = some (errorRateCol cfg (column bf ref n d) (column bf hyp n d)) :=
  getElem?_zipWith_some _ _ _ _ _ _ (toColumns_getElem? bf N ref d hr n hn)
    (toColumns_getElem? bf N hyp d hh n hn)

/-! ## `prefix_error_rates` -/

theorem prefixErrorRatesCol_length (cfg : Config α) (ref hyp : List α) :
    (prefixErrorRatesCol cfg ref hyp).length = prefixRows hyp.length cfg.excludeLast := by
  simp [prefixErrorRatesCol]

/-- Every sequence of the hypothesis tensor has the length of the sequence dimension. -/
def SeqShaped (bf : Bool) (t : List (List α)) : Prop :=
  bf = true → ∀ row ∈ t, row.length = seqDim true t

theorem column_length (bf : Bool) (N : Nat) (t : List (List α)) (d : α)
    (hs : BatchShaped bf N t) (hq : SeqShaped bf t) (n : Nat) (hn : n < N) :
    (column bf t n d).length = seqDim bf t := by
  cases bf with
  | false => simp [column, seqDim]
  | true =>
    have hl : t.length = N := hs rfl
    have hn' : n < t.length := by omega
    have : column true t n d = t[n] := by
      simp [column, List.getD_eq_getElem?_getD, List.getElem?_eq_getElem hn']
    rw [this]
    exact hq rfl _ (List.getElem_mem hn')

/-- **Entry `(n, k)` of the batch table** is entry `k` of the per-sequence table of sequence `n`,
in both layouts. -/
theorem prefixErrorRatesBatch_entry (cfg : Config α) (bf : Bool) (N : Nat)
    (ref hyp : List (List α)) (d : α)
    (hr : BatchShaped bf N ref) (hh : BatchShaped bf N hyp) (hq : SeqShaped bf hyp)
    (n k : Nat) (hn : n < N) (hk : k < prefixRows (seqDim bf hyp) cfg.excludeLast) :
    entry bf (prefixErrorRatesBatch cfg bf N ref hyp d) n k
      = (prefixErrorRatesCol cfg (column bf ref n d) (column bf hyp n d))[k]? := by
  have hcol : (List.zipWith (prefixErrorRatesCol cfg) (toColumns bf N ref d) (toColumns bf N hyp d))[n]?
      = some (prefixErrorRatesCol cfg (column bf ref n d) (column bf hyp n d)) :=
    getElem?_zipWith_some _ _ _ _ _ _ (toColumns_getElem? bf N ref d hr n hn)
      (toColumns_getElem? bf N hyp d hh n hn)
  cases bf with
  | true =>
    simp only [entry, prefixErrorRatesBatch, fromColumns, if_true]
    rw [hcol]
    rfl
  | false =>
    simp only [entry, prefixErrorRatesBatch, fromColumns, Bool.false_eq_true, if_false]
    rw [List.getElem?_map, List.getElem?_range hk]
    simp only [Option.map_some, Option.bind_some, List.getElem?_map]
    rw [hcol]
    simp only [Option.map_some]
    have hlen : k < (prefixErrorRatesCol cfg (column false ref n d) (column false hyp n d)).length := by
      rw [prefixErrorRatesCol_length, column_length false N hyp d hh hq n hn]
      exact hk
    rw [List.getD_eq_getElem?_getD, List.getElem?_eq_getElem hlen]
    rfl

/-! ## Argument validation -/

theorem checkPairShapes_iff (bf : Bool) (ref hyp : List Nat) (N R H : Nat) :
    checkPairShapes bf ref hyp = some (N, R, H) ↔
      ref = (if bf then [N, R] else [R, N]) ∧ hyp = (if bf then [N, H] else [H, N]) := by
  unfold checkPairShapes
  constructor
  · intro h
    split at h
    · cases bf <;> simp_all
    · simp at h
  · rintro ⟨rfl, rfl⟩
    cases bf <;> simp

theorem checkMerShapes_iff (bf : Bool) (lp ref hyp : List Nat) (red : String) (N M R H : Nat) :
    checkMerShapes bf lp ref hyp red = some (N, M, R, H) ↔
      lp = [N, M] ∧ hyp = (if bf then [N, M, H] else [H, N, M]) ∧
      (ref = (if bf then [N, R] else [R, N]) ∨ ref = (if bf then [N, M, R] else [R, N, M])) ∧
      2 ≤ M ∧ (red = "mean" ∨ red = "sum" ∨ red = "none") := by
  unfold checkMerShapes
  constructor
  · intro h
    cases bf <;> simp only [Bool.false_eq_true, if_false, if_true] at h ⊢ <;>
      (split at h <;> [skip; (simp at h)]) <;>
      (split at h <;> [skip; (simp at h)]) <;>
      (split at h <;> [skip; (simp at h)]) <;>
      rename_i hR hc <;>
      (split at hR <;> [(split at hR <;> [skip; (simp at hR)]); (split at hR <;> [skip; (simp at hR)]); (simp at hR)]) <;>
      simp_all
  · rintro ⟨rfl, rfl, (rfl | rfl), hM, hred⟩ <;> cases bf <;> simp [hM, hred]
end PdtVerif.ErrorRate
