import PdtVerif.Model.Controller
import PdtVerif.Spec.TrainingRules
/-!
# Helper lemmas for C15: the simulation between the controller model and the stated rules
-/
namespace PdtVerif.Controller
open PdtVerif.TrainingRules

/-! ## lookups -/

theorem getInfo_ok {h : List Row} {n : Nat} {r : Row} (hr : h[n]? = some r) :
    getInfo h (n : Int) = .ok r := by
  unfold getInfo
  have : ¬ ((n : Int) < 0) := by omega
  simp [this, hr]

theorem getInfo_ok' {h : List Row} {i : Int} {n : Nat} {r : Row} (hi : i = (n : Int))
    (hr : h[n]? = some r) : getInfo h i = .ok r := by
  subst hi; exact getInfo_ok hr

/-- the comparison of the code, `max(ref - v, 0) < thr`, is "criterion enabled and `ref - v < thr`" -/
theorem failing_eq (P : Params) {thr : Rat} (hthr : 0 ≤ thr) (ref : Option Rat) (v : Rat) :
    failing P thr ref v = undercutFails P thr ref v := by
  unfold failing undercutFails
  cases ref with
  | none => rfl
  | some r =>
    simp only
    have : (max (P.rnd (r - v)) 0 < thr) ↔ (thr ≠ 0 ∧ P.rnd (r - v) < thr) := by
      rw [Rat.max_def]; split <;> grind
    simp only [this]

/-! ## one criterion: countdown state of the code vs. (reference, failures, wait) of the rules -/

/-- The stored countdowns `(resume, cd)` of the row of epoch `epoch` encode the rule state `c`, and
the history holds the reference value at the reference epoch. -/
structure CritInv (pat : Nat) (hist : List Row) (epoch : Nat) (resume cd : Int) (c : Crit) : Prop where
  wait : resume = (c.wait : Int)
  cd : cd = (pat : Int) - (c.fails : Int)
  le : c.fails ≤ pat
  refE : c.refEpoch + c.fails = epoch
  ref : ∃ r, hist[c.refEpoch]? = some r ∧ r.val = c.ref
  waitFails : c.wait ≠ 0 → c.fails = 0

/-- early-stopping branch, while early stopping has not fired yet -/
theorem esUpdate_next (P : Params) (hthr : 0 ≤ P.esThr) (resume cd : Int) (c : Crit) (e : Nat) (v : Rat)
    (refv : Option Rat)
    (hw : resume = (c.wait : Int)) (hcd : cd = (P.esPat : Int) - (c.fails : Int))
    (hlive : c.fails < P.esPat) (hwf : c.wait ≠ 0 → c.fails = 0) (href : refv = c.ref) :
    esUpdate P resume cd (failing P P.esThr refv v)
      = (((c.next P P.esThr e v).wait : Int), (P.esPat : Int) - ((c.next P P.esThr e v).fails : Int)) := by
  subst href
  rw [failing_eq P hthr]
  unfold esUpdate Crit.next
  by_cases h1 : c.wait = 0
  · have hr : resume = 0 := by omega
    by_cases h2 : undercutFails P P.esThr c.ref v = true
    · simp [h1, hr, h2]; omega
    · simp [h1, hr, h2]
  · have hr : resume ≠ 0 := by omega
    have := hwf h1
    simp [h1, hr]
    omega

theorem next_facts (P : Params) (thr : Rat) (c : Crit) (e : Nat) (v : Rat) (pat : Nat)
    (hle : c.fails < pat) (hrefE : c.refEpoch + c.fails + 1 = e) (_hwf : c.wait ≠ 0 → c.fails = 0) :
    let c' := c.next P thr e v
    c'.fails ≤ pat ∧ c'.refEpoch + c'.fails = e ∧ (c'.wait ≠ 0 → c'.fails = 0) ∧
    ((c'.refEpoch = e ∧ c'.ref = some v) ∨ (c'.refEpoch = c.refEpoch ∧ c'.ref = c.ref ∧ c'.refEpoch < e)) := by
  unfold Crit.next
  by_cases h1 : c.wait = 0
  · by_cases h2 : undercutFails P thr c.ref v = true
    · simp [h1, h2]; omega
    · simp [h1, h2]
  · simp [h1]

/-- learning-rate branch vs. the rules (no side condition beyond the invariant) -/
theorem rlrUpdate_spec (P : Params) (hthr : 0 ≤ P.rlrThr) (resume cd : Int) (T : SpecState) (v lr : Rat)
    (refv : Option Rat)
    (hw : resume = (T.rlr.wait : Int)) (hcd : cd = (P.rlrPat : Int) - (T.rlr.fails : Int))
    (hlt : T.rlr.fails < P.rlrPat) (hwf : T.rlr.wait ≠ 0 → T.rlr.fails = 0)
    (hrefE : T.rlr.refEpoch + T.rlr.fails = T.epoch)
    (href : refv = T.rlr.ref) (hlr : lr = T.lr) :
    let r := rlrUpdate P resume cd (failing P P.rlrThr refv v) lr
    let sp := specStep P T v
    r.resume = (sp.1.rlr.wait : Int) ∧ r.cd = (P.rlrPat : Int) - (sp.1.rlr.fails : Int) ∧
    r.lr = sp.1.lr ∧ sp.2.lr = sp.1.lr ∧
    r.setLr = (if sp.2.reduce then some sp.2.lr else none) ∧
    sp.1.groups = (match r.setLr with | some x => T.groups.map (fun _ => x) | none => T.groups) ∧
    sp.1.rlr.fails < P.rlrPat ∧ sp.1.rlr.refEpoch + sp.1.rlr.fails = T.epoch + 1 ∧
    (sp.1.rlr.wait ≠ 0 → sp.1.rlr.fails = 0) ∧
    ((sp.1.rlr.refEpoch = T.epoch + 1 ∧ sp.1.rlr.ref = some v) ∨
      (sp.1.rlr.refEpoch = T.rlr.refEpoch ∧ sp.1.rlr.ref = T.rlr.ref ∧ sp.1.rlr.refEpoch < T.epoch + 1)) ∧
    (sp.2.reduce = true → sp.2.fire = true) ∧
    (sp.2.fire = true ↔ (T.rlr.wait = 0 ∧ undercutFails P P.rlrThr T.rlr.ref v = true ∧
        P.rlrPat ≤ T.rlr.fails + 1)) := by
  subst href hlr
  rw [failing_eq P hthr]
  unfold rlrUpdate specStep Crit.next
  by_cases h1 : T.rlr.wait = 0
  · have hr : resume = 0 := by omega
    by_cases h2 : undercutFails P P.rlrThr T.rlr.ref v = true
    · by_cases h3 : P.rlrPat ≤ T.rlr.fails + 1
      · have hc : cd - 1 = 0 := by omega
        by_cases h4 : P.rlrEps < P.rnd (T.lr - P.rnd (T.lr * P.rlrFactor))
        · simp [h1, hr, h2, h3, hc, h4]; omega
        · simp [h1, hr, h2, h3, hc, h4]; omega
      · have hc : ¬ (cd - 1 = 0) := by omega
        simp [h1, hr, h2, h3, hc]; omega
    · simp [h1, hr, h2]; omega
  · have hr : resume ≠ 0 := by omega
    have := hwf h1
    simp [h1, hr]
    omega

/-- early-stopping countdown stays inside `[0, patience]` and never runs ahead of the epoch count:
enough for the reference lookup to succeed on every history, stopped or not -/
theorem esUpdate_weak (P : Params) (resume cd : Int) (f : Bool) (e : Nat)
    (h0 : 0 ≤ cd) (h1 : cd ≤ P.esPat) (h2 : (P.esPat : Int) - cd ≤ e) :
    0 ≤ (esUpdate P resume cd f).2 ∧ (esUpdate P resume cd f).2 ≤ P.esPat ∧
    (P.esPat : Int) - (esUpdate P resume cd f).2 ≤ (e + 1 : Nat) := by
  unfold esUpdate
  split
  · simp; omega
  · split
    · split <;> simp <;> omega
    · simp; omega

theorem budgetCont_eq (P : Params) (e : Nat) : budgetCont P e = !budgetReached P e := by
  unfold budgetCont budgetReached
  cases P.numEpochs with
  | none => rfl
  | some n =>
    by_cases h : n = 0
    · simp [h]
    · by_cases h2 : e < n
      · simp [h, h2]
      · simp [h, h2]; omega

/-! ## the simulation invariant -/

/-- Holds along every run (stopped or not): learning-rate part + enough of the early-stopping
part for the lookups. `T` is the state of the rules after the same epochs. -/
structure InvU (P : Params) (S : State) (T : SpecState) : Prop where
  len : S.hist.length = T.epoch + 1
  groups : S.groups = T.groups
  last : ∃ L, S.hist[T.epoch]? = some L ∧
    CritInv P.rlrPat S.hist T.epoch L.rlrResume L.rlrCd T.rlr ∧ T.rlr.fails < P.rlrPat ∧
    L.lr.getD P.optDefault = T.lr ∧ 0 ≤ L.esCd ∧ L.esCd ≤ P.esPat ∧
    (P.esPat : Int) - L.esCd ≤ T.epoch

/-- Early-stopping part; holds until early stopping has fired. -/
structure InvEs (P : Params) (S : State) (T : SpecState) : Prop where
  last : ∃ L, S.hist[T.epoch]? = some L ∧
    CritInv P.esPat S.hist T.epoch L.esResume L.esCd T.es

theorem init_invU (P : Params) (hP : P.WF) (g : List Rat) : InvU P (init P g) (specInit P g) := by
  refine ⟨by simp [init, specInit], by simp only [init, specInit]; cases P.initLr <;> rfl, ?_⟩
  refine ⟨row0 P, by simp [init, specInit], ?_, ?_, ?_, ?_, ?_, ?_⟩
  · refine ⟨by simp [row0, specInit], by simp [row0, specInit], by simp [specInit],
      by simp [specInit], ⟨row0 P, by simp [init, specInit], by simp [row0, specInit]⟩,
      by simp [specInit]⟩
  · have := hP.rlrPat; simp [specInit]; omega
  · simp [row0, specInit]
  · simp [row0]
  · simp [row0]
  · simp [row0, specInit]

theorem init_invEs (P : Params) (g : List Rat) : InvEs P (init P g) (specInit P g) := by
  refine ⟨row0 P, by simp [init, specInit], ?_⟩
  refine ⟨by simp [row0, specInit], by simp [row0, specInit], by simp [specInit],
      by simp [specInit], ⟨row0 P, by simp [init, specInit], by simp [row0, specInit]⟩,
      by simp [specInit]⟩

/-- Under the invariant the three lookups of `update_for_epoch` succeed (no `KeyError`). -/
theorem step_core {P : Params} {S : State} {T : SpecState} (hU : InvU P S T) (tr v : Rat) :
    ∃ L esInfo rlrInfo, S.hist[T.epoch]? = some L ∧
      0 ≤ esEpochOf P (T.epoch + 1) L ∧ esEpochOf P (T.epoch + 1) L ≤ T.epoch ∧
      S.hist[(esEpochOf P (T.epoch + 1) L).toNat]? = some esInfo ∧
      S.hist[T.rlr.refEpoch]? = some rlrInfo ∧ rlrInfo.val = T.rlr.ref ∧
      step P S tr v = .ok (stepCore P S (T.epoch + 1) L esInfo rlrInfo tr v) := by
  obtain ⟨hlen, _, L, hL, hrlr, hlt, hlr, h0, h1, h2⟩ := hU
  obtain ⟨rlrInfo, hri, hrv⟩ := hrlr.ref
  have hes0 : 0 ≤ esEpochOf P (T.epoch + 1) L := by unfold esEpochOf; omega
  have hes1 : esEpochOf P (T.epoch + 1) L ≤ T.epoch := by unfold esEpochOf; omega
  have hk : (esEpochOf P (T.epoch + 1) L).toNat < S.hist.length := by omega
  refine ⟨L, S.hist[(esEpochOf P (T.epoch + 1) L).toNat], rlrInfo, hL, hes0, hes1,
    List.getElem?_eq_getElem hk, hri, hrv, ?_⟩
  unfold step
  have e1 : getInfo S.hist ((S.hist.length : Int) - 1) = .ok L :=
    getInfo_ok' (by omega) hL
  have e2 : getInfo S.hist (esEpochOf P S.hist.length L) = .ok S.hist[(esEpochOf P (T.epoch + 1) L).toNat] := by
    rw [hlen]
    exact getInfo_ok' (by omega) (List.getElem?_eq_getElem hk)
  have e3 : getInfo S.hist (rlrEpochOf P S.hist.length L) = .ok rlrInfo := by
    apply getInfo_ok' _ hri
    have := hrlr.cd; have := hrlr.refE
    unfold rlrEpochOf; omega
  rw [hlen] at e1 e2 e3
  simp only [hlen, e1, e2, e3]

theorem specStep_epoch (P : Params) (T : SpecState) (v : Rat) :
    (specStep P T v).1.epoch = T.epoch + 1 := rfl

theorem specStep_es (P : Params) (T : SpecState) (v : Rat) :
    (specStep P T v).1.es = T.es.next P P.esThr (T.epoch + 1) v := rfl

/-- What one call does, as seen from the rules — learning-rate side, any history. -/
structure StepU (P : Params) (S : State) (T : SpecState) (tr v : Rat) (S' : State) (o : Out) : Prop where
  inv : InvU P S' (specStep P T v).1
  setLr : o.setLr = (if (specStep P T v).2.reduce then some (specStep P T v).2.lr else none)
  rowLr : o.row.lr = some (specStep P T v).2.lr
  hist : S'.hist = S.hist ++ [o.row]
  epoch : o.row.epoch = T.epoch + 1
  val : o.row.val = some v
  train : o.row.train = some tr

theorem step_invU {P : Params} (hP : P.WF) {S : State} {T : SpecState} (hU : InvU P S T) (tr v : Rat) :
    ∃ S' o, step P S tr v = .ok (S', o) ∧ StepU P S T tr v S' o := by
  obtain ⟨L, esInfo, rlrInfo, hL, hes0, hes1, hesI, hri, hrv, hstep⟩ := step_core hU tr v
  obtain ⟨hlen, hgr, L', hL', hrlr, hlt, hlr, h0, h1, h2⟩ := hU
  have : L' = L := by rw [hL] at hL'; exact (Option.some.inj hL').symm
  subst this
  refine ⟨_, _, hstep, ?_⟩
  have R := rlrUpdate_spec P hP.rlrThr L'.rlrResume L'.rlrCd T v (L'.lr.getD P.optDefault) rlrInfo.val
    hrlr.wait hrlr.cd hlt hrlr.waitFails hrlr.refE hrv hlr
  have W := esUpdate_weak P L'.esResume L'.esCd (failing P P.esThr esInfo.val v) T.epoch h0 h1 h2
  simp only at R
  obtain ⟨r1, r2, r3, r4, r5, r6, r7, r8, r9, r10, _, _⟩ := R
  have hlen' : (S.hist ++ [(stepCore P S (T.epoch + 1) L' esInfo rlrInfo tr v).2.row]).length
      = T.epoch + 1 + 1 := by simp [hlen]
  have hlast : ∀ row : Row, (S.hist ++ [row])[T.epoch + 1]? = some row := by
    intro row
    rw [List.getElem?_append_right (by omega)]
    simp [hlen]
  refine ⟨⟨?_, ?_, ?_⟩, ?_, ?_, rfl, rfl, rfl, rfl⟩
  · simpa [stepCore, specStep_epoch] using hlen
  · simp only [hgr]; exact r6.symm
  · refine ⟨(stepCore P S (T.epoch + 1) L' esInfo rlrInfo tr v).2.row, ?_, ?_, r7, ?_, W.1, W.2.1, ?_⟩
    · simp only [stepCore, specStep_epoch]; exact hlast _
    · refine ⟨r1, r2, Nat.le_of_lt r7, r8, ?_, r9⟩
      rcases r10 with ⟨ha, hb⟩ | ⟨ha, hb, hc⟩
      · refine ⟨(stepCore P S (T.epoch + 1) L' esInfo rlrInfo tr v).2.row, ?_, ?_⟩
        · rw [ha]; simp only [stepCore]; exact hlast _
        · rw [hb]; rfl
      · refine ⟨rlrInfo, ?_, ?_⟩
        · show (S.hist ++ _)[_]? = _
          rw [List.getElem?_append_left (by omega), ha]; exact hri
        · rw [hb]; exact hrv
    · simp only [stepCore, Option.getD_some]; exact r3
    · simp only [specStep_epoch]; exact W.2.2
  · exact r5
  · show some _ = _
    rw [r4, ← r3]

/-- The reference epoch recovered by `epoch - patience + countdown - 1` is the epoch at which the
patience count was last reset (early stopping, while it has not fired). -/
theorem esEpochOf_eq {P : Params} {S : State} {T : SpecState} (hE : InvEs P S T) {L : Row}
    (hL : S.hist[T.epoch]? = some L) : esEpochOf P (T.epoch + 1) L = (T.es.refEpoch : Int) := by
  obtain ⟨L', hL', hes⟩ := hE
  have : L' = L := by rw [hL] at hL'; exact (Option.some.inj hL').symm
  subst this
  have := hes.cd; have := hes.refE
  unfold esEpochOf; omega

/-- same for the learning-rate criterion (always) -/
theorem rlrEpochOf_eq {P : Params} {S : State} {T : SpecState} (hU : InvU P S T) {L : Row}
    (hL : S.hist[T.epoch]? = some L) : rlrEpochOf P (T.epoch + 1) L = (T.rlr.refEpoch : Int) := by
  obtain ⟨_, _, L', hL', hrlr, _⟩ := hU
  have : L' = L := by rw [hL] at hL'; exact (Option.some.inj hL').symm
  subst this
  have := hrlr.cd; have := hrlr.refE
  unfold rlrEpochOf; omega

/-- What one call does, as seen from the rules — early-stopping side, while it has not fired. -/
theorem step_invEs {P : Params} (hP : P.WF) {S : State} {T : SpecState} (hU : InvU P S T)
    (hE : InvEs P S T) (hlive : T.es.fails < P.esPat) (tr v : Rat) {S' : State} {o : Out}
    (hs : step P S tr v = .ok (S', o)) :
    InvEs P S' (specStep P T v).1 ∧ o.cont = !(specStep P T v).2.stop := by
  obtain ⟨L, esInfo, rlrInfo, hL, hes0, hes1, hesI, hri, hrv, hstep⟩ := step_core hU tr v
  have hidx := esEpochOf_eq hE hL
  obtain ⟨L', hL', hes⟩ := hE
  have : L' = L := by rw [hL] at hL'; exact (Option.some.inj hL').symm
  subst this
  have hlen := hU.len
  rw [hstep] at hs
  have hs' := Except.ok.inj hs
  have hS : S' = (stepCore P S (T.epoch + 1) L' esInfo rlrInfo tr v).1 := by rw [hs']
  have ho : o = (stepCore P S (T.epoch + 1) L' esInfo rlrInfo tr v).2 := by rw [hs']
  -- the looked-up reference row holds the reference value of the rules
  obtain ⟨rr, hrr, hrrv⟩ := hes.ref
  have hesv : esInfo.val = T.es.ref := by
    have : (esEpochOf P (T.epoch + 1) L').toNat = T.es.refEpoch := by omega
    rw [this, hrr] at hesI
    rw [← Option.some.inj hesI]; exact hrrv
  have E := esUpdate_next P hP.esThr L'.esResume L'.esCd T.es (T.epoch + 1) v esInfo.val
    hes.wait hes.cd hlive hes.waitFails hesv
  have N := next_facts P P.esThr T.es (T.epoch + 1) v P.esPat hlive (by have := hes.refE; omega)
    hes.waitFails
  simp only at N
  obtain ⟨n1, n2, n3, n4⟩ := N
  have hlast : ∀ row : Row, (S.hist ++ [row])[T.epoch + 1]? = some row := by
    intro row
    rw [List.getElem?_append_right (by omega)]
    simp [hlen]
  refine ⟨⟨(stepCore P S (T.epoch + 1) L' esInfo rlrInfo tr v).2.row, ?_, ?_⟩, ?_⟩
  · rw [hS]; simp only [stepCore, specStep_epoch]; exact hlast _
  · rw [hS, specStep_es, specStep_epoch]
    refine ⟨?_, ?_, n1, n2, ?_, n3⟩
    · simp only [stepCore]; rw [E]
    · simp only [stepCore]; rw [E]
    · rcases n4 with ⟨ha, hb⟩ | ⟨ha, hb, hc⟩
      · refine ⟨(stepCore P S (T.epoch + 1) L' esInfo rlrInfo tr v).2.row, ?_, ?_⟩
        · rw [ha]; simp only [stepCore]; exact hlast _
        · rw [hb]; rfl
      · refine ⟨rr, ?_, ?_⟩
        · simp only [stepCore]
          rw [List.getElem?_append_left (by omega), ha]; exact hrr
        · rw [hb]; exact hrrv
  · rw [ho]
    simp only [stepCore, E, SpecOut.stop, specStep, budgetCont_eq]
    have hfe : (T.es.next P P.esThr (T.epoch + 1) v).fails ≤ P.esPat := n1
    by_cases hthr : P.esThr = 0
    · simp [hthr]
    · by_cases hz : P.esPat ≤ (T.es.next P P.esThr (T.epoch + 1) v).fails
      · have : (P.esPat : Int) - ((T.es.next P P.esThr (T.epoch + 1) v).fails : Int) = 0 := by omega
        simp [hthr, hz, this]
      · have : ¬ ((P.esPat : Int) - ((T.es.next P P.esThr (T.epoch + 1) v).fails : Int) = 0) := by omega
        simp [hthr, hz, this]

/-! ## whole runs -/

theorem specRun_cons (P : Params) (T : SpecState) (v : Rat) (vs : List Rat) :
    specRun P T (v :: vs) = ((specRun P (specStep P T v).1 vs).1,
      (specStep P T v).2 :: (specRun P (specStep P T v).1 vs).2) := rfl

theorem run_cons_ok {P : Params} {S S' S'' : State} {m : Rat × Rat} {ms : List (Rat × Rat)} {o : Out}
    {os : List Out} (h1 : step P S m.1 m.2 = .ok (S', o)) (h2 : run P S' ms = .ok (S'', os)) :
    run P S (m :: ms) = .ok (S'', o :: os) := by
  simp [run, h1, h2]

/-- the learning-rate view of an output of the rules -/
def lrAction (o : SpecOut) : Option Rat := if o.reduce then some o.lr else none

theorem run_simU {P : Params} (hP : P.WF) : ∀ (ms : List (Rat × Rat)) (S : State) (T : SpecState),
    InvU P S T →
    ∃ S' outs, run P S ms = .ok (S', outs) ∧
      InvU P S' (specRun P T (ms.map (·.2))).1 ∧
      outs.map (·.setLr) = (specRun P T (ms.map (·.2))).2.map lrAction ∧
      outs.map (·.row.lr) = (specRun P T (ms.map (·.2))).2.map (fun o => some o.lr) ∧
      outs.map (·.row.val) = ms.map (fun m => some m.2) ∧
      outs.map (·.row.train) = ms.map (fun m => some m.1) ∧
      S'.hist = S.hist ++ outs.map (·.row) := by
  intro ms
  induction ms with
  | nil => intro S T h; exact ⟨S, [], rfl, h, rfl, rfl, rfl, rfl, by simp⟩
  | cons m ms ih =>
    intro S T h
    obtain ⟨S1, o, hs, hU⟩ := step_invU hP h m.1 m.2
    obtain ⟨S2, os, hr, hI, h1, h2, h3, h4, h5⟩ := ih S1 (specStep P T m.2).1 hU.inv
    refine ⟨S2, o :: os, run_cons_ok hs hr, ?_, ?_, ?_, ?_, ?_, ?_⟩
    · simpa [specRun_cons] using hI
    · simp only [List.map_cons, specRun_cons, h1, hU.setLr, lrAction]
    · simp only [List.map_cons, specRun_cons, h2, hU.rowLr]
    · simp only [List.map_cons, h3, hU.val]
    · simp only [List.map_cons, h4, hU.train]
    · rw [h5, hU.hist]; simp

theorem run_simEs {P : Params} (hP : P.WF) : ∀ (ms : List (Rat × Rat)) (S : State) (T : SpecState),
    InvU P S T → InvEs P S T → liveRun P T (ms.map (·.2)) →
    ∀ S' outs, run P S ms = .ok (S', outs) →
      InvEs P S' (specRun P T (ms.map (·.2))).1 ∧
      outs.map (·.cont) = (specRun P T (ms.map (·.2))).2.map (fun o => !o.stop) := by
  intro ms
  induction ms with
  | nil =>
    intro S T _ hE _ S' outs hr
    simp only [run, Except.ok.injEq, Prod.mk.injEq] at hr
    obtain ⟨rfl, rfl⟩ := hr
    exact ⟨hE, rfl⟩
  | cons m ms ih =>
    intro S T hU hE hl S' outs hr
    obtain ⟨S1, o, hs, hSU⟩ := step_invU hP hU m.1 m.2
    obtain ⟨S2, os, hr2, _⟩ := run_simU hP ms S1 (specStep P T m.2).1 hSU.inv
    have hrr := run_cons_ok hs hr2
    rw [hrr] at hr
    simp only [Except.ok.injEq, Prod.mk.injEq] at hr
    obtain ⟨rfl, rfl⟩ := hr
    simp only [List.map_cons, liveRun] at hl
    obtain ⟨hE1, hc⟩ := step_invEs hP hU hE hl.1 m.1 m.2 hs
    obtain ⟨hE2, hcs⟩ := ih S1 (specStep P T m.2).1 hSU.inv hE1 hl.2 S2 os hr2
    refine ⟨by simpa [specRun_cons] using hE2, ?_⟩
    simp only [List.map_cons, specRun_cons, hc, hcs]

/-! ## restarts -/

theorem step_ok_core {P : Params} {S S' : State} {tr v : Rat} {o : Out}
    (h : step P S tr v = .ok (S', o)) :
    ∃ info esInfo rlrInfo, getInfo S.hist ((S.hist.length : Int) - 1) = .ok info ∧
      getInfo S.hist (esEpochOf P S.hist.length info) = .ok esInfo ∧
      getInfo S.hist (rlrEpochOf P S.hist.length info) = .ok rlrInfo ∧
      (S', o) = stepCore P S S.hist.length info esInfo rlrInfo tr v := by
  unfold step at h
  simp only at h
  split at h
  · cases h
  rename_i _ info h1
  split at h
  · cases h
  rename_i _ esInfo h2
  split at h
  · cases h
  rename_i _ rlrInfo h3
  exact ⟨info, esInfo, rlrInfo, h1, h2, h3, (Except.ok.inj h).symm⟩

theorem step_hist {P : Params} {S S' : State} {tr v : Rat} {o : Out}
    (h : step P S tr v = .ok (S', o)) :
    S'.hist = S.hist ++ [o.row] ∧ o.row.train = some tr ∧ o.row.val = some v := by
  obtain ⟨info, esInfo, rlrInfo, _, _, _, hc⟩ := step_ok_core h
  have hS : S' = (stepCore P S S.hist.length info esInfo rlrInfo tr v).1 := by rw [← hc]
  have ho : o = (stepCore P S S.hist.length info esInfo rlrInfo tr v).2 := by rw [← hc]
  subst hS ho
  exact ⟨rfl, rfl, rfl⟩

/-- a row that the file reproduces exactly: its three float columns are on the printed grid -/
def RowOnGrid (P : Params) (r : Row) : Prop := rtRow P r = r

theorem restart_eq {P : Params} {S : State} {rows : List Row} (h0 : S.hist = row0 P :: rows)
    (hg : ∀ r ∈ rows, RowOnGrid P r) : restart P S = S := by
  unfold restart
  rw [h0]
  simp only [List.drop_succ_cons, List.drop_zero]
  have : rows.map (rtRow P) = rows := by
    conv => rhs; rw [← List.map_id rows]
    exact List.map_congr_left (fun r hr => hg r hr)
  rw [this, ← h0]

/-- the history with the learning-rate column blanked -/
def eraseLr (r : Row) : Row := { r with lr := none }

/-- two states whose histories agree in every column except `lr` -/
def LrEq (S S' : State) : Prop := S.hist.map eraseLr = S'.hist.map eraseLr

theorem getInfo_lrEq {S S' : State} (h : LrEq S S') {i : Int} {r : Row}
    (hr : getInfo S.hist i = .ok r) : ∃ r', getInfo S'.hist i = .ok r' ∧ eraseLr r' = eraseLr r := by
  unfold getInfo at hr ⊢
  by_cases hi : i < 0
  · simp [hi] at hr
  · simp only [hi, if_false] at hr ⊢
    have hk := congrArg (fun l => l[i.toNat]?) h
    simp only [List.getElem?_map] at hk
    cases h1 : S.hist[i.toNat]? with
    | none => simp [h1] at hr
    | some a =>
      simp only [h1] at hr
      cases hr
      rw [h1] at hk
      cases h2 : S'.hist[i.toNat]? with
      | none => simp [h2] at hk
      | some b =>
        rw [h2] at hk
        simp only [Option.map_some, Option.some.injEq] at hk
        exact ⟨b, rfl, hk.symm⟩

theorem eraseLr_fields {a b : Row} (h : eraseLr a = eraseLr b) :
    a.epoch = b.epoch ∧ a.esResume = b.esResume ∧ a.esCd = b.esCd ∧ a.rlrResume = b.rlrResume ∧
    a.rlrCd = b.rlrCd ∧ a.train = b.train ∧ a.val = b.val := by
  unfold eraseLr at h
  cases a; cases b
  simp only [Row.mk.injEq] at h
  simp_all

theorem rlrUpdate_indep (P : Params) (a b : Int) (f : Bool) (lr lr' : Rat) :
    (rlrUpdate P a b f lr).resume = (rlrUpdate P a b f lr').resume ∧
    (rlrUpdate P a b f lr).cd = (rlrUpdate P a b f lr').cd := by
  unfold rlrUpdate
  by_cases h1 : a ≠ 0
  · simp [h1]
  · by_cases h2 : f = true
    · by_cases h3 : b - 1 = 0
      · by_cases h4 : P.rlrEps < P.rnd (lr - P.rnd (lr * P.rlrFactor)) <;>
          by_cases h5 : P.rlrEps < P.rnd (lr' - P.rnd (lr' * P.rlrFactor)) <;>
          simp [h1, h2, h3, h4, h5]
      · simp [h1, h2, h3]
    · simp [h1, h2]

/-- decisions, countdowns and metric columns of one update do not depend on the `lr` column -/
theorem step_lrEq {P : Params} {S R S1 : State} {tr v : Rat} {o : Out} (h : LrEq S R)
    (hs : step P S tr v = .ok (S1, o)) :
    ∃ R1 o', step P R tr v = .ok (R1, o') ∧ LrEq S1 R1 ∧ o'.cont = o.cont ∧
      eraseLr o'.row = eraseLr o.row := by
  obtain ⟨info, esInfo, rlrInfo, h1, h2, h3, hc⟩ := step_ok_core hs
  have hlen : S.hist.length = R.hist.length := by
    have := congrArg List.length h; simpa using this
  obtain ⟨info', g1, e1⟩ := getInfo_lrEq h h1
  obtain ⟨esInfo', g2, e2⟩ := getInfo_lrEq h h2
  obtain ⟨rlrInfo', g3, e3⟩ := getInfo_lrEq h h3
  obtain ⟨_, i2, i3, i4, i5, _, _⟩ := eraseLr_fields e1
  obtain ⟨_, _, _, _, _, _, ev⟩ := eraseLr_fields e2
  obtain ⟨_, _, _, _, _, _, rv⟩ := eraseLr_fields e3
  have hS : S1 = (stepCore P S S.hist.length info esInfo rlrInfo tr v).1 := by rw [← hc]
  have ho : o = (stepCore P S S.hist.length info esInfo rlrInfo tr v).2 := by rw [← hc]
  have hes : esEpochOf P R.hist.length info' = esEpochOf P S.hist.length info := by
    unfold esEpochOf; rw [i3, hlen]
  have hrl : rlrEpochOf P R.hist.length info' = rlrEpochOf P S.hist.length info := by
    unfold rlrEpochOf; rw [i5, hlen]
  refine ⟨(stepCore P R R.hist.length info' esInfo' rlrInfo' tr v).1,
    (stepCore P R R.hist.length info' esInfo' rlrInfo' tr v).2, ?_, ?_, ?_, ?_⟩
  · unfold step
    simp only [← hlen] at g1 ⊢
    rw [hlen] at g1
    simp only [hlen, g1]
    rw [← hlen] at *
    simp only [hes, hrl, g2, g3]
  · have I := rlrUpdate_indep P info.rlrResume info.rlrCd (failing P P.rlrThr rlrInfo.val v)
      (info.lr.getD P.optDefault) (info'.lr.getD P.optDefault)
    subst hS
    unfold LrEq at h ⊢
    simp only [stepCore, List.map_append, h, List.map_cons, List.map_nil, eraseLr, i2, i3, i4, i5,
      ev, rv, hlen, I.1, I.2]
  · subst ho
    simp only [stepCore, i2, i3, ev, hlen]
  · have I := rlrUpdate_indep P info.rlrResume info.rlrCd (failing P P.rlrThr rlrInfo.val v)
      (info.lr.getD P.optDefault) (info'.lr.getD P.optDefault)
    subst ho
    simp only [stepCore, eraseLr, i2, i3, i4, i5, ev, rv, hlen, I.1, I.2]

theorem run_cons_inv {P : Params} {S S'' : State} {m : Rat × Rat} {ms : List (Rat × Rat)}
    {outs : List Out} (h : run P S (m :: ms) = .ok (S'', outs)) :
    ∃ S' o os, step P S m.1 m.2 = .ok (S', o) ∧ run P S' ms = .ok (S'', os) ∧ outs = o :: os := by
  unfold run at h
  split at h
  · cases h
  rename_i S' o h1
  split at h
  · cases h
  rename_i S2 os h2
  simp only [Except.ok.injEq, Prod.mk.injEq] at h
  exact ⟨S', o, os, h1, by rw [h2, h.1], h.2.symm⟩

theorem runR_cons_ok {P : Params} {S S' S'' : State} {m : Rat × Rat} {ms : List (Rat × Rat)} {o : Out}
    {os : List Out} {fl : List Bool} (h1 : step P S m.1 m.2 = .ok (S', o))
    (h2 : runR P (if fl.headD false then restart P S' else S') ms fl.tail = .ok (S'', os)) :
    runR P S (m :: ms) fl = .ok (S'', o :: os) := by
  unfold runR
  simp only [h1]
  rw [h2]

/-- with every written row on the printed grid, restarting (after any subset of epochs) changes
nothing at all -/
theorem runR_eq_run_of_grid {P : Params} : ∀ (ms : List (Rat × Rat)) (fl : List Bool) (S0 S : State)
    (rows : List Row) (outs : List Out),
    S0.hist = row0 P :: rows → (∀ r ∈ rows, RowOnGrid P r) →
    run P S0 ms = .ok (S, outs) → (∀ o ∈ outs, RowOnGrid P o.row) →
    runR P S0 ms fl = .ok (S, outs) := by
  intro ms
  induction ms with
  | nil =>
    intro fl S0 S rows outs _ _ hr _
    simpa [run, runR] using hr
  | cons m ms ih =>
    intro fl S0 S rows outs h0 hg hr hog
    obtain ⟨S1, o, os, hs, hr1, rfl⟩ := run_cons_inv hr
    have hh := (step_hist hs).1
    have h1 : S1.hist = row0 P :: (rows ++ [o.row]) := by rw [hh, h0]; rfl
    have hg1 : ∀ r ∈ rows ++ [o.row], RowOnGrid P r := by
      intro r hr
      rcases List.mem_append.1 hr with h | h
      · exact hg r h
      · have : r = o.row := by simpa using h
        subst this; exact hog o (by simp)
    have hre : (if fl.headD false then restart P S1 else S1) = S1 := by
      split
      · exact restart_eq h1 hg1
      · rfl
    apply runR_cons_ok hs
    rw [hre]
    exact ih fl.tail S1 S _ os h1 hg1 hr1 (fun o' ho' => hog o' (by simp [ho']))

/-- the two metric columns of a row are on the printed grid -/
def MetOnGrid (P : Params) (r : Row) : Prop :=
  r.train.map (rt P) = r.train ∧ r.val.map (rt P) = r.val

/-- row 0 is the parameter row (up to `lr`), all other rows have their metrics on the grid -/
def HeadOK (P : Params) (R : State) : Prop :=
  ∃ r0 rows, R.hist = r0 :: rows ∧ eraseLr r0 = eraseLr (row0 P) ∧ ∀ r ∈ rows, MetOnGrid P r

theorem restart_lrEq {P : Params} {R : State} (h : HeadOK P R) :
    LrEq (restart P R) R ∧ HeadOK P (restart P R) := by
  obtain ⟨r0, rows, h0, he, hm⟩ := h
  have hrt : ∀ r ∈ rows, eraseLr (rtRow P r) = eraseLr r := by
    intro r hr
    obtain ⟨a, b⟩ := hm r hr
    simp only [eraseLr, rtRow, a, b]
  constructor
  · unfold LrEq restart
    rw [h0]
    simp only [List.drop_succ_cons, List.drop_zero, List.map_cons, List.map_map, he]
    congr 1
    exact List.map_congr_left (fun r hr => by simpa using hrt r hr)
  · refine ⟨row0 P, rows.map (rtRow P), ?_, rfl, ?_⟩
    · unfold restart; rw [h0]; rfl
    · intro r' hr'
      obtain ⟨r, hr, rfl⟩ := List.mem_map.1 hr'
      obtain ⟨a, b⟩ := hm r hr
      unfold MetOnGrid
      simp only [rtRow, a, b, and_self]

/-- **restart, decisions**: whatever the learning rates are, restarting after any subset of epochs
leaves every decision, countdown and metric column unchanged (metrics on the printed grid). -/
theorem runR_decisions {P : Params} : ∀ (ms : List (Rat × Rat)) (fl : List Bool) (S R S' : State)
    (outs : List Out),
    LrEq S R → HeadOK P R → (∀ m ∈ ms, rt P m.1 = m.1 ∧ rt P m.2 = m.2) →
    run P S ms = .ok (S', outs) →
    ∃ R' outs', runR P R ms fl = .ok (R', outs') ∧ LrEq S' R' ∧
      outs'.map (·.cont) = outs.map (·.cont) ∧
      outs'.map (fun o => eraseLr o.row) = outs.map (fun o => eraseLr o.row) := by
  intro ms
  induction ms with
  | nil =>
    intro fl S R S' outs hl _ _ hr
    simp only [run, Except.ok.injEq, Prod.mk.injEq] at hr
    obtain ⟨rfl, rfl⟩ := hr
    exact ⟨R, [], rfl, hl, rfl, rfl⟩
  | cons m ms ih =>
    intro fl S R S' outs hl hh hg hr
    obtain ⟨S1, o, os, hs, hr1, rfl⟩ := run_cons_inv hr
    obtain ⟨R1, o', hs', hl1, hc, he⟩ := step_lrEq hl hs
    have hgm := hg m (by simp)
    have hh1 : HeadOK P R1 := by
      obtain ⟨r0, rows, h0, he0, hm⟩ := hh
      obtain ⟨hhist, htr, hv⟩ := step_hist hs'
      refine ⟨r0, rows ++ [o'.row], by rw [hhist, h0]; rfl, he0, ?_⟩
      intro r hr
      rcases List.mem_append.1 hr with h | h
      · exact hm r h
      · have : r = o'.row := by simpa using h
        subst this
        unfold MetOnGrid
        rw [htr, hv]
        simp only [Option.map_some, hgm.1, hgm.2, and_self]
    have hl2 : LrEq S1 (if fl.headD false then restart P R1 else R1) ∧
        HeadOK P (if fl.headD false then restart P R1 else R1) := by
      split
      · obtain ⟨a, b⟩ := restart_lrEq hh1
        exact ⟨by unfold LrEq at *; rw [hl1, a], b⟩
      · exact ⟨hl1, hh1⟩
    obtain ⟨R2, os', hr2, hl3, hcs, hes⟩ :=
      ih fl.tail S1 _ S' os hl2.1 hl2.2 (fun m' hm' => hg m' (by simp [hm'])) hr1
    refine ⟨R2, o' :: os', runR_cons_ok hs' hr2, hl3, ?_, ?_⟩
    · simp only [List.map_cons, hc, hcs]
    · simp only [List.map_cons, he, hes]

/-! ## what the state of the rules means in terms of the raw metric sequence -/

/-- `c` summarises the validation metrics `vs` (epochs `1..vs.length`) correctly: the reference is
the metric of epoch `refEpoch` (nothing for epoch 0), every later epoch failed to undercut it by
the threshold, and `fails` counts exactly those epochs. -/
structure Window (P : Params) (thr : Rat) (vs : List Rat) (c : Crit) : Prop where
  count : c.refEpoch + c.fails = vs.length
  ref : c.ref = if c.refEpoch = 0 then none else vs[c.refEpoch - 1]?
  failed : ∀ j, c.refEpoch < j → j ≤ vs.length →
    ∃ x, vs[j - 1]? = some x ∧ undercutFails P thr c.ref x = true

theorem window_reset (P : Params) (thr : Rat) (vs : List Rat) (v : Rat) (w : Nat) :
    Window P thr (vs ++ [v]) { refEpoch := vs.length + 1, ref := some v, fails := 0, wait := w } := by
  refine ⟨by simp, by simp, ?_⟩
  intro j h1 h2
  simp only [List.length_append, List.length_cons, List.length_nil] at h1 h2
  omega

theorem window_fail (P : Params) (thr : Rat) (vs : List Rat) (v : Rat) (c : Crit)
    (h : Window P thr vs c) (hf : undercutFails P thr c.ref v = true) :
    Window P thr (vs ++ [v]) { c with fails := c.fails + 1 } := by
  obtain ⟨h1, h2, h3⟩ := h
  refine ⟨by simp; omega, ?_, ?_⟩
  · simp only [h2]
    split
    · rfl
    · rw [List.getElem?_append_left (by omega)]
  · intro j hj1 hj2
    simp only [List.length_append, List.length_cons, List.length_nil] at hj2
    by_cases hj : j ≤ vs.length
    · obtain ⟨x, hx, hxf⟩ := h3 j hj1 hj
      exact ⟨x, by rw [List.getElem?_append_left (by omega)]; exact hx, hxf⟩
    · have : j = vs.length + 1 := by omega
      subst this
      exact ⟨v, by simp, hf⟩

theorem window_next (P : Params) (thr : Rat) (vs : List Rat) (v : Rat) (c : Crit)
    (h : Window P thr vs c) : Window P thr (vs ++ [v]) (c.next P thr (vs.length + 1) v) := by
  unfold Crit.next
  split
  · exact window_reset P thr vs v _
  · split
    · rename_i hf; exact window_fail P thr vs v c h hf
    · exact window_reset P thr vs v _

theorem window_specStep (P : Params) (pre : List Rat) (T : SpecState) (v : Rat)
    (he : T.epoch = pre.length)
    (h1 : Window P P.esThr pre T.es) (h2 : Window P P.rlrThr pre T.rlr) :
    Window P P.esThr (pre ++ [v]) (specStep P T v).1.es ∧
    Window P P.rlrThr (pre ++ [v]) (specStep P T v).1.rlr := by
  constructor
  · rw [specStep_es, he]; exact window_next P _ pre v _ h1
  · simp only [specStep, he]
    split
    · exact window_reset P _ pre v _
    · exact window_next P _ pre v _ h2

theorem window_specRun (P : Params) : ∀ (vs pre : List Rat) (T : SpecState),
    T.epoch = pre.length → Window P P.esThr pre T.es → Window P P.rlrThr pre T.rlr →
    Window P P.esThr (pre ++ vs) (specRun P T vs).1.es ∧
    Window P P.rlrThr (pre ++ vs) (specRun P T vs).1.rlr := by
  intro vs
  induction vs with
  | nil => intro pre T _ h1 h2; simpa [specRun] using ⟨h1, h2⟩
  | cons v vs ih =>
    intro pre T he h1 h2
    obtain ⟨a, b⟩ := window_specStep P pre T v he h1 h2
    have := ih (pre ++ [v]) (specStep P T v).1 (by simp [specStep_epoch, he]) a b
    simpa [specRun_cons] using this

/-! ## the integer columns as text: `"{:0wd}".format` then `int(...)` -/

/-- one step of `parseNat` -/
def pf (acc : Option Nat) (c : Char) : Option Nat :=
  match acc with
  | none => none
  | some a => if '0' ≤ c ∧ c ≤ '9' then some (10 * a + (c.toNat - 48)) else none

theorem parseNat_eq (cs : List Char) : parseNat cs = cs.foldl pf (some 0) := rfl

theorem digitChar_ok : ∀ d, d < 10 →
    ('0' ≤ digitChar d ∧ digitChar d ≤ '9') ∧ (digitChar d).toNat - 48 = d := by decide

theorem pf_digit (a d : Nat) (hd : d < 10) : pf (some a) (digitChar d) = some (10 * a + d) := by
  obtain ⟨h1, h2⟩ := digitChar_ok d hd
  simp only [pf, h1, h2, and_self, if_true]

theorem digitsAux_acc : ∀ (f n : Nat) (acc : List Char),
    digitsAux f n acc = digitsAux f n [] ++ acc := by
  intro f
  induction f with
  | zero => intro n acc; simp [digitsAux]
  | succ f ih =>
    intro n acc
    unfold digitsAux
    split
    · simp
    · rw [ih (n / 10) (digitChar (n % 10) :: acc), ih (n / 10) [digitChar (n % 10)]]
      simp

theorem digitsAux_val : ∀ (f n : Nat), n < 10 ^ f → ∀ a,
    ∃ k, (digitsAux f n []).foldl pf (some a) = some (a * 10 ^ k + n) := by
  intro f
  induction f with
  | zero =>
    intro n hn a
    have : n = 0 := by simpa using hn
    subst this
    exact ⟨0, by simp [digitsAux]⟩
  | succ f ih =>
    intro n hn a
    unfold digitsAux
    split
    · rename_i h
      exact ⟨1, by simp only [List.foldl_cons, List.foldl_nil, pf_digit a n h]; congr 1; omega⟩
    · rename_i h
      rw [digitsAux_acc]
      have hn' : n / 10 < 10 ^ f := by
        rw [Nat.div_lt_iff_lt_mul (by decide)]
        rw [Nat.pow_succ] at hn; exact hn
      obtain ⟨k, hk⟩ := ih (n / 10) hn' a
      refine ⟨k + 1, ?_⟩
      rw [List.foldl_append, hk]
      simp only [List.foldl_cons, List.foldl_nil, pf_digit _ _ (Nat.mod_lt n (by decide))]
      congr 1
      rw [Nat.pow_succ]
      have := Nat.div_add_mod n 10
      rw [Nat.mul_add, ← Nat.mul_assoc, Nat.mul_comm 10 a, Nat.mul_assoc a, Nat.mul_comm 10 (10 ^ k)]
      omega

theorem parse_natDigits (n : Nat) : (natDigits n).foldl pf (some 0) = some n := by
  unfold natDigits
  obtain ⟨k, hk⟩ := digitsAux_val (n + 1) n
    (Nat.lt_of_lt_of_le (Nat.lt_pow_self (by decide : 1 < 10)) (Nat.pow_le_pow_right (by decide) (by omega))) 0
  rw [hk]; simp

theorem parse_zeros (k : Nat) : (List.replicate k '0').foldl pf (some 0) = some 0 := by
  induction k with
  | zero => rfl
  | succ k ih =>
    rw [List.replicate_succ, List.foldl_cons]
    have : pf (some 0) '0' = some 0 := by decide
    rw [this]; exact ih

/-! ## what a restarted run computes exactly: the rules with the rate re-read from the file -/

/-- the rules' state after the controller was rebuilt from the history file: the only thing that
changes is the current rate, which is now the printed-and-reparsed value -/
def reread (P : Params) (T : SpecState) : SpecState := { T with lr := rt P T.lr }

/-- the rules, with the rate re-read from the file after every flagged epoch -/
def specRunR (P : Params) : SpecState → List Rat → List Bool → SpecState × List SpecOut
  | T, [], _ => (T, [])
  | T, v :: vs, fl =>
    let T1 := if fl.headD false then reread P (specStep P T v).1 else (specStep P T v).1
    ((specRunR P T1 vs fl.tail).1, (specStep P T v).2 :: (specRunR P T1 vs fl.tail).2)

/-- history as a restarted controller sees it: row 0 is the parameter row, every later row has a
rate, and every validation metric is on the printed grid -/
structure FileOK (P : Params) (R : State) : Prop where
  head : R.hist[0]? = some (row0 P)
  lrSome : ∀ (i : Nat) (r : Row), 1 ≤ i → R.hist[i]? = some r → ∃ x, r.lr = some x
  valGrid : ∀ (i : Nat) (r : Row), R.hist[i]? = some r → r.val.map (rt P) = r.val

theorem restart_getElem {P : Params} {R : State} (_hf : FileOK P R) (i : Nat) (r : Row)
    (h : R.hist[i]? = some r) :
    (restart P R).hist[i]? = some (if i = 0 then row0 P else rtRow P r) := by
  unfold restart
  cases i with
  | zero => simp
  | succ k =>
    simp only [List.getElem?_cons_succ, List.getElem?_map, List.getElem?_drop]
    rw [Nat.add_comm 1 k, h]
    simp

theorem restart_length {P : Params} {R : State} (hf : FileOK P R) :
    (restart P R).hist.length = R.hist.length := by
  have h0 := hf.head
  unfold restart
  cases hh : R.hist with
  | nil => rw [hh] at h0; simp at h0
  | cons a l => simp

theorem restart_invU {P : Params} {R : State} {T : SpecState} (hU : InvU P R T) (hf : FileOK P R)
    (he : 1 ≤ T.epoch) : InvU P (restart P R) (reread P T) ∧ FileOK P (restart P R) := by
  obtain ⟨hlen, hgr, L, hL, hrlr, hlt, hlr, h0, h1, h2⟩ := hU
  have hne : ¬ (T.epoch = 0) := by omega
  constructor
  · refine ⟨by rw [restart_length hf]; exact hlen, hgr, rtRow P L, ?_, ?_, hlt, ?_, h0, h1, h2⟩
    · have := restart_getElem hf T.epoch L hL
      simpa [hne, reread] using this
    · obtain ⟨w, c, l, re, ⟨r, hr, hrv⟩, wf⟩ := hrlr
      refine ⟨w, c, l, re, ?_, wf⟩
      have := restart_getElem hf _ r hr
      by_cases hz : T.rlr.refEpoch = 0
      · refine ⟨row0 P, by simpa [hz, reread] using this, ?_⟩
        have : r = row0 P := by
          have h0' := hf.head; rw [hz] at hr; rw [hr] at h0'; exact Option.some.inj h0'
        show (row0 P).val = T.rlr.ref
        rw [← hrv, this]
      · refine ⟨rtRow P r, by simpa [hz, reread] using this, ?_⟩
        show (rtRow P r).val = T.rlr.ref
        rw [← hrv]; exact hf.valGrid _ r hr
    · obtain ⟨x, hx⟩ := hf.lrSome T.epoch L he hL
      simp only [rtRow, hx, Option.map_some, Option.getD_some, reread]
      rw [hx] at hlr; simp only [Option.getD_some] at hlr
      rw [hlr]
  · refine ⟨by simp [restart], ?_, ?_⟩
    · intro i r hi hr
      have hlen' := restart_length hf
      have hi' : i < R.hist.length := by
        have := (List.getElem?_eq_some_iff.1 hr).1; omega
      have hr0 := List.getElem?_eq_getElem hi'
      have := restart_getElem hf i _ hr0
      rw [hr] at this
      have hne' : ¬ (i = 0) := by omega
      simp only [hne', if_false, Option.some.injEq] at this
      obtain ⟨x, hx⟩ := hf.lrSome i _ hi hr0
      exact ⟨rt P x, by rw [this]; simp [rtRow, hx]⟩
    · intro i r hr
      have hlen' := restart_length hf
      have hi' : i < R.hist.length := by
        have := (List.getElem?_eq_some_iff.1 hr).1; omega
      have hr0 := List.getElem?_eq_getElem hi'
      have := restart_getElem hf i _ hr0
      rw [hr] at this
      have hv := hf.valGrid i _ hr0
      by_cases hz : i = 0
      · simp only [hz, if_true, Option.some.injEq] at this
        rw [this]; rfl
      · simp only [hz, if_false, Option.some.injEq] at this
        rw [this]
        show ((R.hist[i]).val.map (rt P)).map (rt P) = (R.hist[i]).val.map (rt P)
        rw [hv, hv]

theorem step_fileOK {P : Params} {R R1 : State} {tr v : Rat} {o : Out} (hf : FileOK P R)
    (hv : rt P v = v) (hs : step P R tr v = .ok (R1, o)) (hlr : ∃ x, o.row.lr = some x) :
    FileOK P R1 := by
  obtain ⟨hh, _, hval⟩ := step_hist hs
  have hpos : 0 < R.hist.length := by
    have := (List.getElem?_eq_some_iff.1 hf.head).1; exact this
  refine ⟨?_, ?_, ?_⟩
  · rw [hh, List.getElem?_append_left hpos]; exact hf.head
  · intro i r hi hr
    rw [hh] at hr
    by_cases hlt : i < R.hist.length
    · rw [List.getElem?_append_left hlt] at hr; exact hf.lrSome i r hi hr
    · rw [List.getElem?_append_right (by omega)] at hr
      have : r = o.row := by
        cases hk : i - R.hist.length with
        | zero => rw [hk] at hr; simpa using hr.symm
        | succ k => rw [hk] at hr; simp at hr
      rw [this]; exact hlr
  · intro i r hr
    rw [hh] at hr
    by_cases hlt : i < R.hist.length
    · rw [List.getElem?_append_left hlt] at hr; exact hf.valGrid i r hr
    · rw [List.getElem?_append_right (by omega)] at hr
      have : r = o.row := by
        cases hk : i - R.hist.length with
        | zero => rw [hk] at hr; simpa using hr.symm
        | succ k => rw [hk] at hr; simp at hr
      rw [this, hval]; simp [hv]

/-- a restarted run is the rules with the rate re-read at every restart — nothing else changes -/
theorem runR_simU {P : Params} (hP : P.WF) : ∀ (ms : List (Rat × Rat)) (fl : List Bool) (R : State)
    (T : SpecState), InvU P R T → FileOK P R → (∀ m ∈ ms, rt P m.2 = m.2) →
    ∃ R' outs, runR P R ms fl = .ok (R', outs) ∧
      InvU P R' (specRunR P T (ms.map (·.2)) fl).1 ∧
      outs.map (·.setLr) = (specRunR P T (ms.map (·.2)) fl).2.map lrAction ∧
      outs.map (·.row.lr) = (specRunR P T (ms.map (·.2)) fl).2.map (fun o => some o.lr) := by
  intro ms
  induction ms with
  | nil => intro fl R T h _ _; exact ⟨R, [], rfl, h, rfl, rfl⟩
  | cons m ms ih =>
    intro fl R T h hf hg
    obtain ⟨R1, o, hs, hU⟩ := step_invU hP h m.1 m.2
    have hf1 : FileOK P R1 := step_fileOK hf (hg m (by simp)) hs ⟨_, hU.rowLr⟩
    have hstate : InvU P (if fl.headD false then restart P R1 else R1)
        (if fl.headD false then reread P (specStep P T m.2).1 else (specStep P T m.2).1) ∧
        FileOK P (if fl.headD false then restart P R1 else R1) := by
      split
      · exact restart_invU hU.inv hf1 (by simp [specStep_epoch])
      · exact ⟨hU.inv, hf1⟩
    obtain ⟨R2, os, hr, hI, h1, h2⟩ := ih fl.tail _ _ hstate.1 hstate.2
      (fun m' hm' => hg m' (by simp [hm']))
    refine ⟨R2, o :: os, runR_cons_ok hs hr, ?_, ?_, ?_⟩
    · simpa [specRunR] using hI
    · simp only [List.map_cons, specRunR, h1, hU.setLr, lrAction]
    · simp only [List.map_cons, specRunR, h2, hU.rowLr]

end PdtVerif.Controller
