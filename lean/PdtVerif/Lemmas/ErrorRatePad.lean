import PdtVerif.Lemmas.ErrorRate
/-!
# Size independence: the result depends on the padded columns only through their transcripts

* `sweepF_append_take`, `stepPair_append_take`, `tableRow_append_take` — the paired
  (cost, mistakes) table is *causal* in the reference: columns `0..j` of every row depend only
  on the first `j` reference tokens (so whatever follows the reference's length — an eos, filler,
  more padding rows — never reaches the cell that `gather(0, ref_lens)` reads, tie-breaking
  included);
* `valueAt_take` — the same for the value read at `refLen`, both branches;
* `errorRateCol_congr_cut`, `prefixErrorRatesCol_congr_cut` — two calls whose `norm` and costs agree and
  whose columns name the same transcripts give the same result (any two padded sizes, any two
  eos conventions);
* `cut_append_of_mem`, `cut_append_eos` — appending anything behind a column that contains its
  eos, resp. eos + anything behind a column without one (`include_eos = false`), does not change
  the transcript.
-/
set_option linter.unusedSectionVars false
set_option linter.unusedVariables false

namespace PdtVerif.ErrorRate
open PdtVerif.Lev

variable {α : Type} [DecidableEq α]

/-! ## the table is causal in the reference -/

theorem sweepF_append_take (c : Costs) (y : α) (m : Bool) (xs s : List α) (diag : Cell)
    (ups : List Cell) (left : Cell) :
    (sweepF c y m (xs ++ s) diag ups left).take xs.length
      = sweepF c y m xs diag (ups.take xs.length) left := by
  induction xs generalizing diag ups left with
  | nil => simp [sweepF]
  | cons x xs ih =>
    cases ups with
    | nil => simp [sweepF]
    | cons up rest =>
      simp only [List.cons_append, sweepF, List.length_cons, List.take_succ_cons]
      rw [ih]

theorem stepPair_append_take (c : Costs) (r s : List α) (y : α) (m : Bool) (row : List Cell) :
    (stepPair c (r ++ s) y m row).take (r.length + 1)
      = stepPair c r y m (row.take (r.length + 1)) := by
  cases row with
  | nil => simp [stepPair, phase1, delSweep]
  | cons d0 rest =>
    rw [stepPair_cons, List.take_succ_cons, List.take_succ_cons, stepPair_cons, sweepF_append_take]

theorem row0P_take (c : Costs) (n k : Nat) (h : k ≤ n) :
    (row0P c n).take (k + 1) = row0P c k := by
  unfold row0P
  rw [← List.map_take, List.take_range, Nat.min_eq_left (by omega)]

theorem foldl_stepPair_append_take (c : Costs) (r s h : List α) (row : List Cell) :
    (h.foldl (fun row y => stepPair c (r ++ s) y true row) row).take (r.length + 1)
      = h.foldl (fun row y => stepPair c r y true row) (row.take (r.length + 1)) := by
  induction h generalizing row with
  | nil => rfl
  | cons y h ih =>
    simp only [List.foldl_cons]
    rw [ih, stepPair_append_take]

/-- Columns `0..|r|` of the table over the reference `r ++ s` are the table over `r`. -/
theorem tableRow_append_take (c : Costs) (r s h : List α) :
    (tableRow c (r ++ s) h).take (r.length + 1) = tableRow c r h := by
  unfold tableRow
  rw [foldl_stepPair_append_take, row0P_take c _ _ (by simp)]

theorem getD_take_succ {β : Type} (l : List β) (j : Nat) (d : β) :
    (l.take (j + 1)).getD j d = l.getD j d := by
  simp [List.getD_eq_getElem?_getD]

/-- The value read at `refLen` only depends on the first `refLen` reference tokens. -/
theorem valueAt_take (c : Costs) (ref : List α) (refLen : Nat) (hr : refLen ≤ ref.length)
    (h : List α) :
    valueAt c ref refLen h = valueAt c (ref.take refLen) refLen h := by
  have hl : (ref.take refLen).length = refLen := by simp [Nat.min_eq_left hr]
  unfold valueAt
  split
  · rw [List.getD_eq_getElem?_getD, levRow_getElem? unitCosts ref h refLen hr,
      List.getD_eq_getElem?_getD, levRow_getElem? unitCosts (ref.take refLen) h refLen (by omega),
      List.take_take, Nat.min_self]
  · have hsplit : ref = ref.take refLen ++ ref.drop refLen := (List.take_append_drop _ _).symm
    have := tableRow_append_take c (ref.take refLen) (ref.drop refLen) h
    rw [← hsplit, hl] at this
    rw [← getD_take_succ (tableRow c ref h), this]

/-! ## the result is a function of the transcripts -/

theorem errorRateCol_congr_cut (cfg₁ cfg₂ : Config α) (ref₁ ref₂ hyp₁ hyp₂ : List α)
    (hn : cfg₁.norm = cfg₂.norm) (hc : cfg₁.costs = cfg₂.costs)
    (hr : cut cfg₁.eos cfg₁.includeEos ref₁ = cut cfg₂.eos cfg₂.includeEos ref₂)
    (hh : cut cfg₁.eos cfg₁.includeEos hyp₁ = cut cfg₂.eos cfg₂.includeEos hyp₂) :
    errorRateCol cfg₁ ref₁ hyp₁ = errorRateCol cfg₂ ref₂ hyp₂ := by
  rw [errorRateCol_eq, errorRateCol_eq,
    valueAt_take _ ref₁ _ (seqLen_le _ _ _), valueAt_take _ ref₂ _ (seqLen_le _ _ _),
    ← cut_eq_take, ← cut_eq_take, ← cut_eq_take, ← cut_eq_take,
    ← cut_length cfg₁.eos cfg₁.includeEos ref₁, ← cut_length cfg₁.eos cfg₁.includeEos hyp₁,
    ← cut_length cfg₂.eos cfg₂.includeEos ref₂, ← cut_length cfg₂.eos cfg₂.includeEos hyp₂,
    hn, hc, hr, hh]

theorem prefixErrorRatesCol_congr_cut (cfg₁ cfg₂ : Config α) (ref₁ ref₂ hyp₁ hyp₂ : List α)
    (hn : cfg₁.norm = cfg₂.norm) (hc : cfg₁.costs = cfg₂.costs)
    (hx : cfg₁.excludeLast = cfg₂.excludeLast)
    (hr : cut cfg₁.eos cfg₁.includeEos ref₁ = cut cfg₂.eos cfg₂.includeEos ref₂)
    (hh : cut cfg₁.eos cfg₁.includeEos hyp₁ = cut cfg₂.eos cfg₂.includeEos hyp₂)
    (k : Nat)
    (hk : k < (cut cfg₁.eos cfg₁.includeEos hyp₁).length + (if cfg₁.excludeLast then 0 else 1)) :
    (prefixErrorRatesCol cfg₁ ref₁ hyp₁)[k]? = (prefixErrorRatesCol cfg₂ ref₂ hyp₂)[k]? := by
  have hk₂ : k < (cut cfg₂.eos cfg₂.includeEos hyp₂).length + (if cfg₂.excludeLast then 0 else 1) := by
    rw [← hh, ← hx]; exact hk
  have key : ∀ (cfg : Config α) (ref hyp : List α),
      k < (cut cfg.eos cfg.includeEos hyp).length + (if cfg.excludeLast then 0 else 1) →
      (prefixErrorRatesCol cfg ref hyp)[k]?
        = some (normPrefix cfg.norm (cut cfg.eos cfg.includeEos ref).length k
            (valueAt cfg.costs (cut cfg.eos cfg.includeEos ref) (cut cfg.eos cfg.includeEos ref).length
              ((cut cfg.eos cfg.includeEos hyp).take k))) := by
    intro cfg ref hyp hk
    rw [cut_length] at hk
    have hle := seqLen_le cfg.eos cfg.includeEos hyp
    have hrows : k < prefixRows hyp.length cfg.excludeLast := by
      unfold prefixRows; omega
    have hkle : k ≤ seqLen cfg.eos cfg.includeEos hyp := by
      by_cases hxx : cfg.excludeLast = true
      · rw [if_pos hxx] at hk; omega
      · rw [if_neg hxx] at hk; omega
    rw [prefixErrorRatesCol_eq, List.getElem?_map, List.getElem?_range hrows]
    simp only [Option.map_some]
    rw [if_neg (by omega), valueAt_take _ ref _ (seqLen_le _ _ _), ← cut_eq_take, cut_length,
      cut_eq_take cfg.eos cfg.includeEos hyp, List.take_take, Nat.min_eq_left hkle]
  rw [key cfg₁ ref₁ hyp₁ hk, key cfg₂ ref₂ hyp₂ hk₂, hn, hc, hr, hh]

/-! ## what appending does to the transcript -/

theorem firstEos_append_of_mem (e : α) (l p : List α) (h : e ∈ l) :
    firstEos e (l ++ p) = firstEos e l := by
  induction l with
  | nil => simp at h
  | cons t ts ih =>
    by_cases hte : t = e
    · simp [firstEos, hte]
    · have : e ∈ ts := by
        rcases List.mem_cons.1 h with h' | h'
        · exact absurd h'.symm hte
        · exact h'
      simp [firstEos, hte, ih this]

/-- Anything appended behind a column that contains its eos is invisible. -/
theorem cut_append_of_mem (e : α) (inc : Bool) (l p : List α) (h : e ∈ l) :
    cut (some e) inc (l ++ p) = cut (some e) inc l := by
  have hlt := (firstEos_lt_iff e l).2 h
  have hs : seqLen (some e) inc (l ++ p) = seqLen (some e) inc l := by
    simp only [seqLen, firstEos_append_of_mem e l p h, List.length_append]
    cases inc
    · simp
    · have h1 : firstEos e l ≠ l.length + p.length := by omega
      have h2 : firstEos e l ≠ l.length := by omega
      simp [h1, h2]
  have hle : seqLen (some e) inc l ≤ l.length := seqLen_le _ _ _
  rw [cut_eq_take, cut_eq_take, hs, List.take_append_of_le_length hle]

theorem firstEos_of_not_mem (e : α) (l : List α) (h : e ∉ l) : firstEos e l = l.length := by
  have := firstEos_le e l
  have hn : ¬ firstEos e l < l.length := fun hh => h ((firstEos_lt_iff e l).1 hh)
  omega

theorem firstEos_append_eos (e : α) (l p : List α) (h : e ∉ l) :
    firstEos e (l ++ e :: p) = l.length := by
  induction l with
  | nil => simp [firstEos]
  | cons t ts ih =>
    have hte : ¬ t = e := fun hh => h (by simp [hh])
    have : e ∉ ts := fun hh => h (List.mem_cons_of_mem _ hh)
    simp [firstEos, hte, ih this]

/-- eos + anything appended behind a column without an eos (`include_eos = false`): the
transcript is the original column — the padded representation of an un-padded sequence. -/
theorem cut_append_eos (e : α) (l p : List α) (h : e ∉ l) :
    cut (some e) false (l ++ e :: p) = l := by
  rw [cut_eq_take]
  simp only [seqLen, firstEos_append_eos e l p h]
  simp

end PdtVerif.ErrorRate
