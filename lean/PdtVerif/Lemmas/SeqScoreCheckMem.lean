import PdtVerif.Lemmas.SeqScoreCheck
import PdtVerif.Lemmas.SeqScoreEnum
import PdtVerif.Lemmas.SeqScoreWalk
/-! `TokenSequenceConstraint.check` on a row of natural-number tokens is membership of the
cut-and-padded row in `Spec.support` (core Lean only). -/
namespace PdtVerif.SeqScore

/-- `fill_after_eos` when `eos` is set, the identity otherwise. -/
def fillOpt (eos : Option Nat) (r : List Nat) : List Nat :=
  match eos with
  | none => r
  | some e => Spec.fillSpec e r

/-- Completeness of a row of natural-number tokens. -/
def CompleteNat (eos : Option Nat) (T : Nat) (r : List Nat) : Prop :=
  r.length = T ∨ (r.length ≤ T ∧ ∃ e, eos = some e ∧ e ∈ r)

theorem mem_map_ofNat (r : List Nat) (x : Nat) : Int.ofNat x ∈ r.map Int.ofNat ↔ x ∈ r := by
  simp only [List.mem_map]
  constructor
  · rintro ⟨a, ha, h⟩
    have : a = x := Int.ofNat.inj h
    subst this
    exact ha
  · intro h
    exact ⟨x, h, rfl⟩

theorem complete_map (eos : Option Nat) (T : Nat) (r : List Nat) :
    Complete (eos.map Int.ofNat) T (r.map Int.ofNat) ↔ CompleteNat eos T r := by
  unfold Complete CompleteNat
  simp only [List.length_map]
  constructor
  · rintro (h | ⟨h, e', he', hm⟩)
    · exact Or.inl h
    · cases eos with
      | none => simp at he'
      | some e =>
        simp only [Option.map_some, Option.some.injEq] at he'
        subst he'
        exact Or.inr ⟨h, e, rfl, (mem_map_ofNat r e).1 hm⟩
  · rintro (h | ⟨h, e, he, hm⟩)
    · exact Or.inl h
    · subst he
      exact Or.inr ⟨h, Int.ofNat e, rfl, (mem_map_ofNat r e).2 hm⟩

theorem fillSpec_append_replicate (e : Nat) (r : List Nat) (k : Nat) :
    Spec.fillSpec e (r ++ List.replicate k e) = Spec.fillSpec e r ++ List.replicate k e := by
  induction r with
  | nil =>
    cases k with
    | zero => simp [fillSpec_nil]
    | succ k => simp [List.replicate_succ, fillSpec_cons_eos, fillSpec_nil]
  | cons v r ih =>
    by_cases hv : v = e
    · subst hv
      simp [fillSpec_cons_eos, List.replicate_append_replicate]
    · simp [fillSpec_cons_ne e v _ hv, ih]

theorem padTo_fill_fixed (e T : Nat) (r : List Nat) :
    Spec.fillSpec e (padTo T e (Spec.fillSpec e r)) = padTo T e (Spec.fillSpec e r) := by
  unfold padTo
  rw [fillSpec_append_replicate, fillSpec_idem]

theorem check_iff_mem (V : Nat) (eos : Option Nat) (T : Nat) (r : List Nat) :
    supportCheck V (eos.map Int.ofNat) (some T) (r.map Int.ofNat) = true ↔
      CompleteNat eos T r ∧ padTo T (eos.getD 0) (fillOpt eos r) ∈ Spec.support V eos T := by
  rw [supportCheck_iff, complete_map, mem_support]
  apply and_congr_right
  intro hc
  have hlen : r.length ≤ T := by
    rcases hc with h | ⟨h, _⟩
    · omega
    · exact h
  cases eos with
  | none =>
    have hfull : r.length = T := by
      rcases hc with h | ⟨_, e, he, _⟩
      · exact h
      · cases he
    have hpad : padTo T 0 r = r := by simp [padTo, hfull]
    simp only [Option.map_none, Spec.cutAtEos, Option.getD_none, fillOpt, hpad, Canon]
    constructor
    · intro h
      refine ⟨hfull, ?_, fun e he => by cases he⟩
      intro x hx
      have := (h (Int.ofNat x) ((mem_map_ofNat r x).2 hx)).2
      simp only [Int.ofNat_eq_natCast] at this
      omega
    · rintro ⟨_, h, _⟩ x hx
      obtain ⟨y, hy, rfl⟩ := List.mem_map.1 hx
      have := h y hy
      simp only [Int.ofNat_eq_natCast]
      omega
  | some e =>
    have hcut : Spec.cutAtEos (some (Int.ofNat e)) (r.map Int.ofNat)
        = (r.take (r.idxOf e + 1)).map Int.ofNat := by
      simp only [Spec.cutAtEos]
      rw [idxOf_map_ofNat, List.map_take]
    simp only [Option.map_some, Option.getD_some, fillOpt, hcut, Canon]
    constructor
    · intro h
      have hv : ∀ x ∈ r.take (r.idxOf e + 1), x < V := by
        intro x hx
        have := (h (Int.ofNat x) (List.mem_map.2 ⟨x, hx, rfl⟩)).2
        simp only [Int.ofNat_eq_natCast] at this
        omega
      refine ⟨?_, ?_, ?_⟩
      · simp only [padTo, List.length_append, List.length_replicate, fillSpec_length]; omega
      · -- the fill / pad token is the token at the first-eos position
        have he : ∀ k, k ≠ 0 → (k = r.length - (r.idxOf e + 1) ∨ k = T - r.length) → e < V := by
          intro k hk hcase
          have hmem : e ∈ r := by
            rcases hcase with h' | h'
            · have : r.idxOf e < r.length := by omega
              exact List.idxOf_lt_length_iff.1 this
            · rcases hc with h'' | ⟨_, e', he', hm⟩
              · omega
              · cases he'; exact hm
          have hi : r.idxOf e < r.length := List.idxOf_lt_length_of_mem hmem
          apply hv
          rw [List.mem_take_iff_getElem]
          exact ⟨r.idxOf e, by omega, by simp⟩
        intro x hx
        simp only [padTo, Spec.fillSpec, List.mem_append, List.mem_replicate, fillSpec_length] at hx
        rcases hx with (hx | ⟨hk, hxe⟩) | ⟨hk, hxe⟩
        · exact hv x hx
        · rw [hxe]; exact he _ hk (Or.inl rfl)
        · have := fillSpec_length e r
          simp only [Spec.fillSpec] at this
          rw [this] at hk
          rw [hxe]; exact he _ hk (Or.inr rfl)
      · intro e' he'
        cases he'
        exact padTo_fill_fixed e T r
    · rintro ⟨_, hv, _⟩ x hx
      obtain ⟨y, hy, rfl⟩ := List.mem_map.1 hx
      have : y < V := by
        apply hv
        simp only [padTo, Spec.fillSpec, List.mem_append]
        exact Or.inl (Or.inl hy)
      simp only [Int.ofNat_eq_natCast]
      omega

end PdtVerif.SeqScore
