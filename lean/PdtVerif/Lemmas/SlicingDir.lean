import PdtVerif.Model.SlicingDir
import PdtVerif.Lemmas.SlicingAli
import PdtVerif.Lemmas.PadChunk
/-!
# Lemmas for the directory level of C10 (core Lean only)

1. names: decimal rendering reads back (`readNat_natStr`, `readInt_fmtInt`), a rendered integer holds no
   dot, splitting at the last dot (`splitLast_append`), the default and the index format read back;
2. writes: what `lookupFile` returns when equal names carry equal contents;
3. frames: `ChunkBySlices` on the utterance expanded against its windows is C09's pad-then-slice of the
   utterance, window by window (`expandChunk_spec`; `chunk_any_mode` is the statement of C09's property
   theorems `C09_chunk` / `C09_chunk_reflect`, derived here from the same lemmas of `Lemmas/PadChunk.lean`
   — `chunkBySlices_eq`, `chunkRowOut_valid`, `chunkBySlices_reflect_full`, `chunkRowOutReflect_valid` — so
   that this file does not depend on C09's property file);
4. the worker: `dirWorker_eq`.
-/
namespace PdtVerif.Slicing
open PdtVerif.SlicePolicy PdtVerif.PadSlice

/-! ## 1. names -/

theorem charDigit_digitChar (d : Nat) (h : d < 10) : charDigit (digitChar d) = some d := by
  match d, h with
  | 0, _ => rfl | 1, _ => rfl | 2, _ => rfl | 3, _ => rfl | 4, _ => rfl
  | 5, _ => rfl | 6, _ => rfl | 7, _ => rfl | 8, _ => rfl | 9, _ => rfl
  | n + 10, h => omega

theorem digitChar_ne_dot (d : Nat) : digitChar d ≠ '.' := by
  unfold digitChar; split <;> decide

theorem digitChar_ne_minus (d : Nat) : digitChar d ≠ '-' := by
  unfold digitChar; split <;> decide

theorem natDigits_lt (n : Nat) : ∀ d ∈ natDigits n, d < 10 := by
  induction n using natDigits.induct with
  | case1 n h => intro d hd; rw [natDigits, dif_pos h] at hd; simp at hd; omega
  | case2 n h ih =>
    intro d hd
    rw [natDigits, dif_neg h] at hd
    rcases List.mem_append.1 hd with hd | hd
    · exact ih d hd
    · simp at hd; omega

theorem natDigits_ne_nil (n : Nat) : natDigits n ≠ [] := by
  rw [natDigits]; split <;> simp

theorem natStr_ne_nil (n : Nat) : natStr n ≠ [] := by
  simp [natStr, natDigits_ne_nil]

theorem readNat_snoc (acc : Nat) (cs : List Char) (d : Nat) (hd : d < 10) :
    readNat acc (cs ++ [digitChar d]) = (readNat acc cs).map (· * 10 + d) := by
  induction cs generalizing acc with
  | nil => simp [readNat, charDigit_digitChar d hd]
  | cons c cs ih =>
    simp only [List.cons_append, readNat]
    cases charDigit c with
    | none => rfl
    | some v => exact ih _

theorem readNat_natStr (n : Nat) : readNat 0 (natStr n) = some n := by
  induction n using natDigits.induct with
  | case1 n h =>
    rw [natStr, natDigits, dif_pos h]
    simp [readNat, charDigit_digitChar n h]
  | case2 n h ih =>
    rw [natStr, natDigits, dif_neg h, List.map_append]
    simp only [List.map_cons, List.map_nil]
    rw [readNat_snoc _ _ _ (Nat.mod_lt _ (by decide))]
    rw [natStr] at ih
    rw [ih]
    simp
    omega

theorem readNat_zeros (k : Nat) (cs : List Char) : readNat 0 (List.replicate k '0' ++ cs) = readNat 0 cs := by
  induction k with
  | zero => rfl
  | succ k ih => simpa [List.replicate_succ, readNat, charDigit] using ih

theorem readNat_zeroPad (w n : Nat) : readNat 0 (zeroPad w (natStr n)) = some n := by
  rw [zeroPad, readNat_zeros, readNat_natStr]

/-- every character of a zero-padded number is a digit character -/
theorem zeroPad_digits (w n : Nat) : ∀ c ∈ zeroPad w (natStr n), ∃ d, c = digitChar d := by
  intro c hc
  rcases List.mem_append.1 hc with hc | hc
  · exact ⟨0, by rw [List.eq_of_mem_replicate hc]; rfl⟩
  · obtain ⟨d, _, rfl⟩ := List.mem_map.1 hc
    exact ⟨d, rfl⟩

theorem zeroPad_ne_nil (w n : Nat) : zeroPad w (natStr n) ≠ [] := by
  simp [zeroPad, natStr_ne_nil]

theorem dot_not_mem_fmtInt (w : Nat) (n : Int) : '.' ∉ fmtInt w n := by
  intro h
  unfold fmtInt at h
  split at h
  · rcases List.mem_cons.1 h with h | h
    · exact absurd h (by decide)
    · obtain ⟨d, hd⟩ := zeroPad_digits _ _ _ h
      exact digitChar_ne_dot d hd.symm
  · obtain ⟨d, hd⟩ := zeroPad_digits _ _ _ h
    exact digitChar_ne_dot d hd.symm

/-- **decimal round trip**: Python's `format(n, "0wd")` read back as an integer is `n`, for every
width and every integer (negative numbers, numbers wider than the field). -/
theorem readInt_fmtInt (w : Nat) (n : Int) : readInt (fmtInt w n) = some n := by
  unfold fmtInt
  split
  · rename_i hn
    have hne := zeroPad_ne_nil (w - 1) (-n).toNat
    simp only [readInt, if_true]
    cases hz : zeroPad (w - 1) (natStr (-n).toNat) with
    | nil => exact absurd hz hne
    | cons c cs =>
      rw [← hz, readNat_zeroPad]
      simp
      refine ⟨hne, ?_⟩
      omega
  · rename_i hn
    cases hz : zeroPad w (natStr n.toNat) with
    | nil => exact absurd hz (zeroPad_ne_nil _ _)
    | cons c cs =>
      have hc : c ≠ '-' := by
        obtain ⟨d, hd⟩ := zeroPad_digits w n.toNat c (by rw [hz]; exact List.mem_cons_self)
        rw [hd]; exact digitChar_ne_minus d
      simp only [readInt, hc, if_false]
      rw [← hz, readNat_zeroPad]
      simp
      omega

theorem splitLast_none (c : Char) (l : List Char) (h : c ∉ l) : splitLast c l = none := by
  induction l with
  | nil => rfl
  | cons x xs ih =>
    have hx : x ≠ c := fun e => h (e ▸ List.mem_cons_self)
    have hxs : c ∉ xs := fun e => h (List.mem_cons_of_mem _ e)
    simp [splitLast, ih hxs, hx]

/-- splitting at the last `c`: everything after it holds no `c` -/
theorem splitLast_append (c : Char) (a b : List Char) (hb : c ∉ b) :
    splitLast c (a ++ c :: b) = some (a, b) := by
  induction a with
  | nil => simp [splitLast, splitLast_none c b hb]
  | cons x xs ih => simp [splitLast, ih]

theorem render_default (utt : List Char) (i : Nat) (w : Win) :
    render defaultFmt utt i w = (utt ++ '.' :: fmtInt 5 w.start) ++ '.' :: fmtInt 5 w.stop := by
  simp [render, defaultFmt, Piece.render]

/-- the default name does not depend on the chunk index -/
theorem baseName_default_idx (pre suf utt : List Char) (i j : Nat) (w : Win) :
    baseName defaultFmt pre suf utt i w = baseName defaultFmt pre suf utt j w := by
  simp [baseName, render_default]

/-- … nor on the window's source label -/
theorem baseName_default_window (pre suf utt : List Char) (i j : Nat) (w w' : Win)
    (hs : w.start = w'.start) (he : w.stop = w'.stop) :
    baseName defaultFmt pre suf utt i w = baseName defaultFmt pre suf utt j w' := by
  simp [baseName, render_default, hs, he]

theorem parseName_render_default (utt : List Char) (i : Nat) (w : Win) :
    parseName (render defaultFmt utt i w) = some (utt, w.start, w.stop) := by
  rw [render_default, parseName, splitLast_append _ _ _ (dot_not_mem_fmtInt 5 w.stop)]
  simp only
  rw [splitLast_append _ _ _ (dot_not_mem_fmtInt 5 w.start)]
  simp only [readInt_fmtInt]

/-- `{utt_id}.{idx}.{start}.{end}` read from the right. -/
def parseIdxName (name : List Char) : Option (List Char × Int × Int × Int) :=
  match splitLast '.' name with
  | none => none
  | some (r, e) =>
    match splitLast '.' r with
    | none => none
    | some (r', s) =>
      match splitLast '.' r' with
      | none => none
      | some (utt, i) =>
        match readInt i, readInt s, readInt e with
        | some i', some s', some e' => some (utt, i', s', e')
        | _, _, _ => none

theorem render_idx (utt : List Char) (i : Nat) (w : Win) :
    render idxFmt utt i w =
      ((utt ++ '.' :: fmtInt 0 i) ++ '.' :: fmtInt 0 w.start) ++ '.' :: fmtInt 0 w.stop := by
  simp [render, idxFmt, Piece.render]

theorem parseIdxName_render (utt : List Char) (i : Nat) (w : Win) :
    parseIdxName (render idxFmt utt i w) = some (utt, (i : Int), w.start, w.stop) := by
  rw [render_idx, parseIdxName, splitLast_append _ _ _ (dot_not_mem_fmtInt 0 w.stop)]
  simp only
  rw [splitLast_append _ _ _ (dot_not_mem_fmtInt 0 w.start)]
  simp only
  rw [splitLast_append _ _ _ (dot_not_mem_fmtInt 0 i)]
  simp only [readInt_fmtInt]

/-! ## 2. writes -/

theorem lookupFile_mem {β} (writes : List (List Char × β)) (name : List Char) (c : β)
    (h : lookupFile writes name = some c) : (name, c) ∈ writes := by
  unfold lookupFile at h
  cases hf : writes.reverse.find? (fun p => p.1 == name) with
  | none => rw [hf] at h; simp at h
  | some q =>
    rw [hf] at h
    have hm := List.mem_of_find?_eq_some hf
    have hp := List.find?_some hf
    simp only [Option.map_some, Option.some.injEq] at h
    have h1 : q.1 = name := by simpa using hp
    have : q = (name, c) := Prod.ext h1 h
    rw [← this]
    exact List.mem_reverse.1 hm

theorem lookupFile_none {β} (writes : List (List Char × β)) (name : List Char) :
    lookupFile writes name = none ↔ ∀ p ∈ writes, p.1 ≠ name := by
  unfold lookupFile
  simp only [Option.map_eq_none_iff, List.find?_eq_none, List.mem_reverse]
  constructor
  · intro h p hp e; exact h p hp (by simp [e])
  · intro h p hp e; exact h p hp (by simpa using e)

/-- If writes under the same name carry the same content, every write is what its name holds. -/
theorem lookupFile_consistent {β} (writes : List (List Char × β))
    (h : ∀ p ∈ writes, ∀ q ∈ writes, p.1 = q.1 → p.2 = q.2) (p : List Char × β) (hp : p ∈ writes) :
    lookupFile writes p.1 = some p.2 := by
  cases hl : lookupFile writes p.1 with
  | none => exact absurd rfl ((lookupFile_none writes p.1).1 hl p hp)
  | some c =>
    have := lookupFile_mem writes p.1 c hl
    rw [h p hp _ this rfl]

/-! ## 3. frames: `ChunkBySlices` on the expanded utterance -/

/-- C09's chunk theorems for every mode, in the form used here. -/
theorem chunk_any_mode {β} (mode : Mode) (value : β) (T : Nat) (rows : List (PadChunk.ChunkRow β))
    (hne : rows ≠ []) (h : ∀ c ∈ rows, c.Legal mode T) :
    ∃ out lens, PadChunk.chunkBySlices false mode value T rows = .ok (out, lens) ∧
      out.length = rows.length ∧ lens.length = rows.length ∧
      ∀ (n : Nat) (hn : n < rows.length) (ho : n < out.length) (hl : n < lens.length),
        lens[n] = chunkLen (rows[n]).start (rows[n]).stop
        ∧ (out[n]).take lens[n]
            = chunkSeq mode value ((rows[n]).x.take (rows[n]).len) (rows[n]).start (rows[n]).stop := by
  by_cases hm : mode = .reflect
  · subst hm
    refine ⟨_, _, PadChunk.chunkBySlices_reflect_full value T rows hne h, by simp, by simp, ?_⟩
    intro n hn ho hl
    obtain ⟨hx, hlen, _⟩ := h rows[n] (List.getElem_mem hn)
    have hv := PadChunk.chunkRowOutReflect_valid value T (PadChunk.chunkTp rows) rows[n] hx hlen
    simp only [List.getElem_map]
    exact ⟨rfl, hv⟩
  · refine ⟨_, _, PadChunk.chunkBySlices_eq mode hm value T rows hne h, by simp, by simp, ?_⟩
    intro n hn ho hl
    obtain ⟨hx, hlen, _⟩ := h rows[n] (List.getElem_mem hn)
    have hv := PadChunk.chunkRowOut_valid mode hm value T (PadChunk.chunkTp rows) rows[n] hx hlen
    simp only [List.getElem_map]
    exact ⟨rfl, hv⟩

theorem zipWith_replicate_rows {β γ δ} (a : β) (b : γ) (ws : List Win) (g : β × γ → Int × Int → δ) :
    List.zipWith g ((List.replicate ws.length a).zip ((List.replicate ws.length a).map fun _ => b))
        (ws.map fun w => (w.start, w.stop))
      = ws.map fun w => g (a, b) (w.start, w.stop) := by
  induction ws with
  | nil => rfl
  | cons w ws ih => simpa [List.replicate_succ] using ih

theorem leftPad_eq_needLeft {β} (c : PadChunk.ChunkRow β) : c.leftPad = needLeft c.start c.stop := by
  unfold PadChunk.ChunkRow.leftPad PadChunk.ChunkRow.chunkLen needLeft
  split <;> split <;> omega

theorem rightPad_eq_needRight {β} (c : PadChunk.ChunkRow β) : c.rightPad = needRight c.len c.start c.stop := by
  unfold PadChunk.ChunkRow.rightPad PadChunk.ChunkRow.chunkLen needRight
  split <;> split <;> omega

/-- A request the chunker accepts for a sequence of `T` frames: any window with constant padding, a
non-empty sequence with replicate padding, less than `T` frames of padding on either side with reflect
padding (C09's `legalPad`). -/
def WinLegal (mode : Mode) (T : Nat) (w : Win) : Prop :=
  legalPad mode T (needLeft w.start w.stop) (needRight T w.start w.stop) = true

instance (mode : Mode) (T : Nat) (w : Win) : Decidable (WinLegal mode T w) := by
  unfold WinLegal; infer_instance

theorem winLegal_constant (T : Nat) (w : Win) : WinLegal .constant T w := rfl

theorem winLegal_replicate (T : Nat) (hT : T ≠ 0) (w : Win) : WinLegal .replicate T w := by
  simp [WinLegal, legalPad]; omega

/-- a window inside the sequence needs no padding: legal in every mode -/
theorem winLegal_inside (mode : Mode) (T : Nat) (w : Win) (h : Inside w (T : Int)) : WinLegal mode T w := by
  obtain ⟨h0, h1, h2⟩ := h
  have hl : needLeft w.start w.stop = 0 := by unfold needLeft; split <;> omega
  have hr : needRight T w.start w.stop = 0 := by unfold needRight; split <;> omega
  have hT : 0 < T := by omega
  cases mode <;> simp [WinLegal, legalPad, hl, hr] <;> omega

/-- **the frames of the chunks**: `chunker(x.expand(M, …), slices)` succeeds on every legal request,
reports the lengths `end - start` (a function of the windows alone), and row `n` cut at its length is
C09's pad-then-slice of the utterance `xs` at window `n` — for every mode, including reflect. -/
theorem expandChunk_spec {β} (mode : Mode) (value : β) (xs : List β) (ws : List Win)
    (hlegal : ∀ w ∈ ws, WinLegal mode xs.length w) :
    ∃ out, expandChunk mode value xs ws = .ok (out, ws.map fun w => chunkLen w.start w.stop) ∧
      cutRows out (ws.map fun w => chunkLen w.start w.stop)
        = ws.map fun w => chunkSeq mode value xs w.start w.stop := by
  by_cases hws : ws = []
  · subst hws
    exact ⟨[], by simp [expandChunk, PadChunk.chunkBySlicesT], by simp [cutRows]⟩
  · have hlen : ws.length ≠ 0 := fun h => hws (List.eq_nil_of_length_eq_zero h)
    have hT : ¬ (xs.length = 0 ∧ mode ≠ .constant) := by
      rintro ⟨h0, hm⟩
      obtain ⟨w, hw⟩ := List.exists_mem_of_ne_nil ws hws
      have := hlegal w hw
      unfold WinLegal at this
      rw [h0] at this
      cases mode <;> simp [legalPad] at this hm
    have hrows : expandChunk mode value xs ws = PadChunk.chunkBySlices false mode value xs.length
        (ws.map fun w => (⟨xs, xs.length, w.start, w.stop⟩ : PadChunk.ChunkRow β)) := by
      unfold expandChunk PadChunk.chunkBySlicesT
      have he : (List.replicate ws.length xs).isEmpty = false := by
        cases hn : ws.length with
        | zero => exact absurd hn hlen
        | succ k => rfl
      rw [if_neg (by simp only [he, Bool.false_eq_true, false_or]; exact hT)]
      simp only [List.length_map, ne_eq, not_true_eq_false, if_false]
      rw [zipWith_replicate_rows]
    have hleg : ∀ c ∈ (ws.map fun w => (⟨xs, xs.length, w.start, w.stop⟩ : PadChunk.ChunkRow β)),
        c.Legal mode xs.length := by
      intro c hc
      obtain ⟨w, hw, rfl⟩ := List.mem_map.1 hc
      refine ⟨rfl, Nat.le_refl _, ?_⟩
      rw [leftPad_eq_needLeft, rightPad_eq_needRight]
      exact hlegal w hw
    obtain ⟨out, lens, h1, h2, h3, h4⟩ := chunk_any_mode mode value xs.length _ (by simpa using hws) hleg
    simp only [List.length_map] at h2 h3 h4
    have hlens : lens = ws.map fun w => chunkLen w.start w.stop := by
      apply List.ext_getElem
      · simp [h3]
      · intro n hn1 hn2
        have hn : n < ws.length := by simpa using hn2
        have := (h4 n hn (by omega) hn1).1
        simpa using this
    refine ⟨out, by rw [hrows, h1, hlens], ?_⟩
    apply List.ext_getElem
    · simp [cutRows, h2]
    · intro n hn1 hn2
      have hn : n < ws.length := by simpa using hn2
      have h5 := (h4 n hn (by omega) (by omega)).2
      have h6 := (h4 n hn (by omega) (by omega)).1
      simp only [List.getElem_map, List.take_length] at h5 h6
      simp only [cutRows, List.getElem_zipWith, List.getElem_map]
      rw [← h5, h6]

/-- a chunk whose window lies inside the sequence is the plain slice: no padding value enters -/
theorem chunkSeq_inside {β} (mode : Mode) (value : β) (xs : List β) (a b : Int)
    (h0 : 0 ≤ a) (h1 : a ≤ b) (h2 : b ≤ (xs.length : Int)) :
    chunkSeq mode value xs a b = (xs.take b.toNat).drop a.toNat := by
  unfold chunkSeq
  split
  · rename_i h
    have : a = b := by omega
    subst this
    simp
  · rename_i h
    have hl : needLeft a b = 0 := by unfold needLeft; split <;> omega
    have hr : needRight xs.length a b = 0 := by unfold needRight; split <;> omega
    simp only [hl, hr, slice]
    have hp : padSeq mode value 0 0 xs = xs := by cases mode <;> simp [padSeq]
    rw [hp]
    simp

/-! ## 4. the worker -/

/-- `dirSlices_eq` needs the alignment only for policy `'ali'`. -/
theorem dirSlices_eq' (policy : Policy) (wt : WinType) (vo : Bool) (lobe : Nat) (u : Utt)
    (hali : policy = .ali → u.ali.length = u.T) (hne : if policy = .ref then u.ref ≠ [] else u.T ≠ 0) :
    dirSlices policy wt vo lobe u = .ok (dirWindows policy lobe wt vo u) := by
  cases policy
  · exact dirSlices_eq .fixed wt vo lobe ⟨u.T, List.replicate u.T 0, u.ref⟩ (by simp) hne
  · exact dirSlices_eq .ali wt vo lobe u (hali rfl) hne
  · exact dirSlices_eq .ref wt vo lobe ⟨u.T, List.replicate u.T 0, u.ref⟩ (by simp) hne

/-- What the worker writes for window number `n`: the name, the frames and the alignment as C09's
pad-then-slice of the utterance, the tokens kept for the window passed through the code's `shiftTok`. -/
def writtenOf {α} (fmt : Fmt) (pre suf utt : List Char) (mode : Mode) (padConst : α) (padConstAli : Int)
    (p retain : Bool) (s : Source α) (n : Nat) (w : Win) : Written α :=
  ⟨baseName fmt pre suf utt n w, chunkSeq mode padConst s.frames w.start w.stop,
   s.ali.map fun a => chunkSeq mode padConstAli a w.start w.stop,
   s.ref.map fun r => (tokensKept p r (w.start, w.stop) none).map (shiftTok retain w.start)⟩

theorem getD_map_lt {β γ} (f : β → γ) (l : List β) (n : Nat) (d : β) (d' : γ) (h : n < l.length) :
    (l.map f).getD n d' = f (l.getD n d) := by
  simp [List.getD_eq_getElem?_getD, h]

theorem expandedTokens_getD (p retain : Bool) (r : List Tok) (ws : List Win) (n : Nat) (h : n < ws.length) :
    (chunkTokens p retain (List.replicate ws.length r) (ws.map fun w => (w.start, w.stop)) none).1.getD n []
      = (tokensKept p r ((ws.getD n ⟨0, 0, 0⟩).start, (ws.getD n ⟨0, 0, 0⟩).stop) none).map
          (shiftTok retain (ws.getD n ⟨0, 0, 0⟩).start) := by
  rw [chunkTokens_eq p retain _ _ none (by simp)]
  simp only [List.length_replicate, Option.map_none]
  rw [getD_map_lt (d := 0) _ _ _ _ (by simpa using h)]
  simp [List.getD_eq_getElem?_getD, h]

theorem dirWorker_eq {α} (fmt : Fmt) (pre suf utt : List Char) (policy : Policy) (wt : WinType) (lobe : Nat)
    (padMode : Option Mode) (padConst : α) (padConstAli : Int) (p retain : Bool) (s : Source α)
    (hhave : (policy = .ali → s.ali.isSome) ∧ (policy = .ref → s.ref.isSome))
    (hali : ∀ a, s.ali = some a → a.length = s.frames.length)
    (hne : if policy = .ref then s.utt.ref ≠ [] else s.frames ≠ [])
    (hlegal : ∀ w ∈ dirWindows policy lobe wt padMode.isNone s.utt,
      WinLegal (padMode.getD .constant) s.frames.length w) :
    dirWorker fmt pre suf utt policy wt lobe padMode padConst padConstAli p retain s =
      .ok ((List.range (dirWindows policy lobe wt padMode.isNone s.utt).length).map fun n =>
        writtenOf fmt pre suf utt (padMode.getD .constant) padConst padConstAli p retain s n
          ((dirWindows policy lobe wt padMode.isNone s.utt).getD n ⟨0, 0, 0⟩)) := by
  have hmiss : ¬ ((policy = .ali ∧ s.ali.isNone) ∨ (policy = .ref ∧ s.ref.isNone)) := by
    rintro (⟨h1, h2⟩ | ⟨h1, h2⟩)
    · have := hhave.1 h1; cases hs : s.ali <;> simp [hs] at this h2
    · have := hhave.2 h1; cases hs : s.ref <;> simp [hs] at this h2
  have hsl : dirSlices policy wt padMode.isNone lobe s.utt
      = .ok (dirWindows policy lobe wt padMode.isNone s.utt) := by
    apply dirSlices_eq'
    · intro hp
      have := hhave.1 hp
      cases hs : s.ali with
      | none => simp [hs] at this
      | some a => simp [Source.utt, hs, hali a hs]
    · by_cases hp : policy = .ref
      · simpa [hp] using hne
      · simp only [hp, if_false] at hne ⊢
        simpa [Source.utt] using hne
  generalize dirWindows policy lobe wt padMode.isNone s.utt = ws at hlegal hsl ⊢
  obtain ⟨fo, hf1, hf2⟩ := expandChunk_spec (padMode.getD .constant) padConst s.frames ws hlegal
  simp only [dirWorker, if_neg hmiss, hsl, hf1, hf2]
  cases hsa : s.ali with
  | none =>
    simp only [Option.map_none]
    congr 1
    apply List.map_congr_left
    intro n hn
    have hn' : n < ws.length := by simpa using hn
    simp only [writtenOf, hsa, Option.map_none]
    congr 1
    · exact getD_map_lt _ ws n ⟨0, 0, 0⟩ [] hn'
    · cases s.ref with
      | none => rfl
      | some r => simp only [Option.map_some]; rw [expandedTokens_getD p retain r ws n hn']
  | some a =>
    have hla := hali a hsa
    obtain ⟨ao, ha1, ha2⟩ := expandChunk_spec (padMode.getD .constant) padConstAli a ws (by rw [hla]; exact hlegal)
    simp only [ha1, if_true, ha2, Option.map_some]
    congr 1
    apply List.map_congr_left
    intro n hn
    have hn' : n < ws.length := by simpa using hn
    simp only [writtenOf, hsa, Option.map_some]
    congr 1
    · exact getD_map_lt _ ws n ⟨0, 0, 0⟩ [] hn'
    · congr 1; exact getD_map_lt _ ws n ⟨0, 0, 0⟩ [] hn'
    · cases s.ref with
      | none => rfl
      | some r => simp only [Option.map_some]; rw [expandedTokens_getD p retain r ws n hn']

theorem range_map_getD_congr {β γ} (l : List β) (d : β) (f g : Nat → β → γ)
    (h : ∀ n, ∀ w ∈ l, f n w = g n w) :
    (List.range l.length).map (fun n => f n (l.getD n d)) = (List.range l.length).map fun n => g n (l.getD n d) := by
  apply List.map_congr_left
  intro n hn
  have hn' : n < l.length := by simpa using hn
  apply h
  simp [List.getD_eq_getElem?_getD, hn']

theorem range_map_getD_eq_zipIdx {β γ} (l : List β) (d : β) (f : Nat → β → γ) :
    (List.range l.length).map (fun n => f n (l.getD n d)) = l.zipIdx.map fun q => f q.2 q.1 := by
  apply List.ext_getElem
  · simp
  · intro i h1 h2
    have hi : i < l.length := by simpa using h1
    simp [List.getD_eq_getElem?_getD, hi]

end PdtVerif.Slicing
