import PdtVerif.Lemmas.Estimators
/-!
# C19 — counting lemmas: the cardinality filter has `choose n k` rows; SRSWOR probabilities

`enumerate_binary_sequences_with_cardinality(n, k)` keeps the rows of the `2^n`-row binary table
whose digit sum is `k`.  The count is done on the model's own row formula `(s / 2^r) % 2`,
splitting `range (2^(n+1))` into `range (2^n)` and its shift by `2^n` (top digit 0 / 1).
-/
namespace PdtVerif.Estimators

/-- digit sum of row `s` of the `n`-column binary table, as `enumVocab` writes the row -/
def bitSum (n s : Nat) : Nat := ((List.range n).map fun r => (s / 2 ^ r) % 2).sum

theorem bitSum_succ (n s : Nat) : bitSum (n + 1) s = bitSum n s + (s / 2 ^ n) % 2 := by
  simp [bitSum, List.range_succ, List.map_append, List.sum_append]

theorem bitSum_low (n s : Nat) (h : s < 2 ^ n) : bitSum (n + 1) s = bitSum n s := by
  rw [bitSum_succ, Nat.div_eq_of_lt h]
  simp

theorem bitSum_high (n s : Nat) (h : s < 2 ^ n) : bitSum (n + 1) (2 ^ n + s) = bitSum n s + 1 := by
  rw [bitSum_succ]
  have hpos : 0 < 2 ^ n := Nat.pos_of_ne_zero (by positivity)
  have htop : (2 ^ n + s) / 2 ^ n = 1 := by
    rw [Nat.add_div_left _ hpos, Nat.div_eq_of_lt h]
  rw [htop]
  congr 1
  unfold bitSum
  congr 1
  apply List.map_congr_left
  intro r hr
  rw [List.mem_range] at hr
  obtain ⟨m, rfl⟩ : ∃ m, n = r + (m + 1) := ⟨n - r - 1, by omega⟩
  have hr0 : 0 < 2 ^ r := Nat.pos_of_ne_zero (by positivity)
  have e : 2 ^ (r + (m + 1)) + s = 2 ^ r * (2 * 2 ^ m) + s := by
    rw [pow_add, pow_succ]; ring
  rw [e, Nat.mul_add_div hr0, Nat.mul_add_mod]

/-- rows with digit sum `k` among the first `2^n` -/
theorem countP_bitSum (n : Nat) : ∀ k, (List.range (2 ^ n)).countP (fun s => bitSum n s == k) = Nat.choose n k := by
  induction n with
  | zero =>
    intro k
    cases k with
    | zero => simp [bitSum]
    | succ k => simp [bitSum]
  | succ n ih =>
    intro k
    have hsplit : List.range (2 ^ (n + 1)) = List.range (2 ^ n) ++ (List.range (2 ^ n)).map (2 ^ n + ·) := by
      rw [pow_succ, Nat.mul_two, List.range_add]
    rw [hsplit, List.countP_append, List.countP_map]
    have hlow : (List.range (2 ^ n)).countP (fun s => bitSum (n + 1) s == k)
        = (List.range (2 ^ n)).countP (fun s => bitSum n s == k) := by
      apply List.countP_congr
      intro s hs
      rw [List.mem_range] at hs
      rw [bitSum_low n s hs]
    have hhigh : (List.range (2 ^ n)).countP ((fun s => bitSum (n + 1) s == k) ∘ (2 ^ n + ·))
        = (List.range (2 ^ n)).countP (fun s => bitSum n s + 1 == k) := by
      apply List.countP_congr
      intro s hs
      rw [List.mem_range] at hs
      simp only [Function.comp, bitSum_high n s hs]
    rw [hlow, hhigh, ih k]
    cases k with
    | zero =>
      have : (List.range (2 ^ n)).countP (fun s => bitSum n s + 1 == 0) = 0 := by
        rw [List.countP_eq_zero]
        intro s _
        simp
      rw [this]
      simp
    | succ k =>
      have : (List.range (2 ^ n)).countP (fun s => bitSum n s + 1 == k + 1)
          = (List.range (2 ^ n)).countP (fun s => bitSum n s == k) := by
        apply List.countP_congr
        intro s _
        simp
      rw [this, ih k, Nat.choose_succ_succ, Nat.add_comm]

theorem enumCard_length (n k : Nat) : (enumCard n k).length = Nat.choose n k := by
  rw [← countP_bitSum n k]
  simp only [enumCard, enumBinary, enumVocab, List.filter_map, List.length_map,
    ← List.countP_eq_length_filter]
  apply List.countP_congr
  intro s _
  simp [bitSum, Function.comp, List.sum_eq_foldr]

/-- in a 0/1 list the number of ones is the sum -/
theorem count_one_eq_sum : ∀ (l : List Nat), (∀ d ∈ l, d < 2) → l.count 1 = l.sum := by
  intro l
  induction l with
  | nil => intro _; rfl
  | cons x xs ih =>
    intro h
    have hx : x < 2 := h x (by simp)
    have := ih (fun d hd => h d (by simp [hd]))
    rw [List.count_cons, List.sum_cons, this]
    have : x = 0 ∨ x = 1 := by omega
    rcases this with rfl | rfl
    · simp
    · simp; omega

/-! ### SRSWOR probability -/

theorem srsworFactTable_getD (o i : Nat) (h : i < o) : (srsworFactTable o).getD i 0 = (i + 1).factorial := by
  have := cumprodFrom_factorial o 0
  simp only [Nat.factorial_zero, Nat.zero_add] at this
  rw [srsworFactTable, this, List.getD_eq_getElem?_getD, List.getElem?_map, List.getElem?_range' (by omega)]
  simp [Nat.add_comm]

/-- the table entry used for the count `m` is `m!` (also for `m = 0`, through the clamped index) -/
theorem srsworFact_idx (o m : Nat) (ho : 0 < o) (hm : m ≤ o) :
    (srsworFactTable o).getD (srsworIdx (m : Int)) 0 = m.factorial := by
  cases m with
  | zero =>
    have : srsworIdx ((0 : Nat) : Int) = 0 := by simp [srsworIdx]
    rw [this, srsworFactTable_getD o 0 ho]
    rfl
  | succ m =>
    have : srsworIdx ((m + 1 : Nat) : Int) = m := by
      simp only [srsworIdx]
      have h1 : ¬ (((m + 1 : Nat) : Int) - 1 < 0) := by omega
      rw [if_neg h1]
      omega
    rw [this, srsworFactTable_getD o m (by omega)]

theorem srsworPartition_eq (o t g : Nat) (hg : g ≤ t) (ht : t ≤ o) (ho : 0 < o) :
    srsworPartition o t g = (t.factorial : Rat) / ((g.factorial : Rat) * ((t - g).factorial : Rat)) := by
  have e : (t : Int) - (g : Int) = ((t - g : Nat) : Int) := by omega
  simp only [srsworPartition]
  rw [e, srsworFact_idx o t ho ht, srsworFact_idx o g ho (by omega), srsworFact_idx o (t - g) ho (by omega)]

/-! ## the tensor variant of the cardinality filter -/

/-- row `s` of the `m`-column binary table -/
def binRow (m s : Nat) : List Nat := (List.range m).map fun r => (s / 2 ^ r) % 2

theorem enumBinary_eq (m : Nat) : enumBinary m = (List.range (2 ^ m)).map (binRow m) := rfl

/-- a row index below `2^n` has only zeros beyond column `n` -/
theorem binRow_pad (n d s : Nat) (hs : s < 2 ^ n) :
    binRow (n + d) s = binRow n s ++ List.replicate d 0 := by
  simp only [binRow, List.range_add, List.map_append, List.map_map]
  congr 1
  rw [List.eq_replicate_iff]
  refine ⟨by simp, ?_⟩
  intro x hx
  obtain ⟨j, _, rfl⟩ := List.mem_map.1 hx
  have : s < 2 ^ (n + j) := lt_of_lt_of_le hs (Nat.pow_le_pow_right (by norm_num) (by omega))
  simp [Function.comp, Nat.div_eq_of_lt this]

theorem foldr_add_pad (l : List Nat) (d : Nat) :
    (l ++ List.replicate d 0).foldr (· + ·) 0 = l.foldr (· + ·) 0 := by
  have h : ∀ d : Nat, (List.replicate d 0).foldr (· + ·) 0 = 0 := by
    intro d; induction d with
    | zero => rfl
    | succ d ih => simp [List.replicate_succ, ih]
  rw [List.foldr_append, h]

theorem zip_map_self {α β : Type} (f : α → β) : ∀ l : List α, (l.map f).zip l = l.map fun s => (f s, s)
  | [] => rfl
  | x :: xs => by simp [zip_map_self f xs]

theorem filter_lt_range (m : Nat) : ∀ M : Nat, m ≤ M → (List.range M).filter (fun s => decide (s < m)) = List.range m
  | 0, h => by
    have : m = 0 := by omega
    subst this; rfl
  | M + 1, h => by
    rw [List.range_succ, List.filter_append]
    by_cases hm : m ≤ M
    · rw [filter_lt_range m M hm]
      simp; omega
    · have : m = M + 1 := by omega
      subst this
      have e1 : (List.range M).filter (fun s => decide (s < M + 1)) = List.range M := by
        rw [List.filter_eq_self]
        intro a ha
        have := List.mem_range.1 ha
        simp; omega
      rw [e1]
      simp [List.range_succ]

/-- **the tensor variant of the cardinality filter**: for an element of length `n ≤ lmax` the valid
rows of `_enumerate_binary_sequences_with_cardinality_tensor` are the rows of the `int` variant
for `(n, k)`, in the same order, each padded with zeros up to `lmax`. -/
theorem enumCardTensor_eq (n d k : Nat) :
    enumCardTensor (n + d) n k = (enumCard n k).map (· ++ List.replicate d 0) := by
  have hle : 2 ^ n ≤ 2 ^ (n + d) := Nat.pow_le_pow_right (by norm_num) (by omega)
  simp only [enumCardTensor, enumCard, enumBinary_eq, zip_map_self, List.filter_map, List.map_map]
  have e : (List.range (2 ^ (n + d))).filter
        ((fun si : List Nat × Nat => decide (si.2 < 2 ^ n) && si.1.foldr (· + ·) 0 == k)
          ∘ fun s => (binRow (n + d) s, s))
      = ((List.range (2 ^ (n + d))).filter (fun s => decide (s < 2 ^ n))).filter
          (fun s => (binRow (n + d) s).foldr (· + ·) 0 == k) := by
    rw [List.filter_filter]
    apply List.filter_congr
    intro s _
    simp [Function.comp, Bool.and_comm]
  rw [e, filter_lt_range _ _ hle]
  have e2 : (List.range (2 ^ n)).filter (fun s => (binRow (n + d) s).foldr (· + ·) 0 == k)
      = (List.range (2 ^ n)).filter ((fun s : List Nat => s.foldr (· + ·) 0 == k) ∘ binRow n) := by
    apply List.filter_congr
    intro s hs
    simp only [Function.comp, binRow_pad n d s (List.mem_range.1 hs), foldr_add_pad]
  rw [e2]
  apply List.map_congr_left
  intro s hs
  have hs' := List.mem_range.1 (List.mem_filter.1 hs).1
  simp only [Function.comp, binRow_pad n d s hs']

end PdtVerif.Estimators
