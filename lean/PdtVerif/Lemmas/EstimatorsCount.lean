import PdtVerif.Lemmas.Estimators
/-!
# C19 — counting lemmas: the cardinality filter has `choose n k` rows; SRSWOR probabilities

`enumerate_binary_sequences_with_cardinality(n, k)` keeps the rows of the `2^n`-row binary table
whose digit sum is `k`.  The count is done on the model's own row formula `(s / 2^r) % 2`,
splitting `range (2^(n+1))` into `range (2^n)` and its shift by `2^n` (top digit 0 / 1).
-/
namespace PdtVerif.Estimators

/-- digit sum of row `s` of the `n`-column binary table, as `enumVocab` writes the row -/
def bitSum (n s : Nat) : Nat := ((List.range n).map fun r => (s / 2 ^ r) % 2).sum

theorem bitSum_succ (n s : Nat) : bitSum (n + 1) s = bitSum n s + (s / 2 ^ n) % 2 := by
  simp [bitSum, List.range_succ, List.map_append, List.sum_append]

theorem bitSum_low (n s : Nat) (h : s < 2 ^ n) : bitSum (n + 1) s = bitSum n s := by
  rw [bitSum_succ, Nat.div_eq_of_lt h]
  simp

theorem bitSum_high (n s : Nat) (h : s < 2 ^ n) : bitSum (n + 1) (2 ^ n + s) = bitSum n s + 1 := by
  rw [bitSum_succ]
  have hpos : 0 < 2 ^ n := Nat.pos_of_ne_zero (by positivity)
  have htop : (2 ^ n + s) / 2 ^ n = 1 := by
    rw [Nat.add_div_left _ hpos, Nat.div_eq_of_lt h]
  rw [htop]
  congr 1
  unfold bitSum
  congr 1
  apply List.map_congr_left
  intro r hr
  rw [List.mem_range] at hr
  obtain ⟨m, rfl⟩ : ∃ m, n = r + (m + 1) := ⟨n - r - 1, by omega⟩
  have hr0 : 0 < 2 ^ r := Nat.pos_of_ne_zero (by positivity)
  have e : 2 ^ (r + (m + 1)) + s = 2 ^ r * (2 * 2 ^ m) + s := by
    rw [pow_add, pow_succ]; ring
  rw [e, Nat.mul_add_div hr0, Nat.mul_add_mod]

/-- rows with digit sum `k` among the first `2^n` -/
theorem countP_bitSum (n : Nat) : ∀ k, (List.range (2 ^ n)).countP (fun s => bitSum n s == k) = Nat.choose n k := by
  induction n with
  | zero =>
    intro k
    cases k with
    | zero => simp [bitSum]
    | succ k => simp [bitSum]
  | succ n ih =>
    intro k
    have hsplit : List.range (2 ^ (n + 1)) = List.range (2 ^ n) ++ (List.range (2 ^ n)).map (2 ^ n + ·) := by
      rw [pow_succ, Nat.mul_two, List.range_add]
    rw [hsplit, List.countP_append, List.countP_map]
    have hlow : (List.range (2 ^ n)).countP (fun s => bitSum (n + 1) s == k)
        = (List.range (2 ^ n)).countP (fun s => bitSum n s == k) := by
      apply List.countP_congr
      intro s hs
      rw [List.mem_range] at hs
      rw [bitSum_low n s hs]
    have hhigh : (List.range (2 ^ n)).countP ((fun s => bitSum (n + 1) s == k) ∘ (2 ^ n + ·))
        = (List.range (2 ^ n)).countP (fun s => bitSum n s + 1 == k) := by
      apply List.countP_congr
      intro s hs
      rw [List.mem_range] at hs
      simp only [Function.comp, bitSum_high n s hs]
    rw [hlow, hhigh, ih k]
    cases k with
    | zero =>
      have : (List.range (2 ^ n)).countP (fun s => bitSum n s + 1 == 0) = 0 := by
        rw [List.countP_eq_zero]
        intro s _
        simp
      rw [this]
      simp
    | succ k =>
      have : (List.range (2 ^ n)).countP (fun s => bitSum n s + 1 == k + 1)
          = (List.range (2 ^ n)).countP (fun s => bitSum n s == k) := by
        apply List.countP_congr
        intro s _
        simp
      rw [this, ih k, Nat.choose_succ_succ, Nat.add_comm]

theorem enumCard_length (n k : Nat) : (enumCard n k).length = Nat.choose n k := by
  rw [← countP_bitSum n k]
  simp only [enumCard, enumBinary, enumVocab, List.filter_map, List.length_map,
    ← List.countP_eq_length_filter]
  apply List.countP_congr
  intro s _
  simp [bitSum, Function.comp, List.sum_eq_foldr]

/-- in a 0/1 list the number of ones is the sum -/
theorem count_one_eq_sum : ∀ (l : List Nat), (∀ d ∈ l, d < 2) → l.count 1 = l.sum := by
  intro l
  induction l with
  | nil => intro _; rfl
  | cons x xs ih =>
    intro h
    have hx : x < 2 := h x (by simp)
    have := ih (fun d hd => h d (by simp [hd]))
    rw [List.count_cons, List.sum_cons, this]
    have : x = 0 ∨ x = 1 := by omega
    rcases this with rfl | rfl
    · simp
    · simp; omega

/-! ### SRSWOR probability -/

theorem srsworFactTable_getD (o i : Nat) (h : i < o) : (srsworFactTable o).getD i 0 = (i + 1).factorial := by
  have := cumprodFrom_factorial o 0
  simp only [Nat.factorial_zero, Nat.zero_add] at this
  rw [srsworFactTable, this, List.getD_eq_getElem?_getD, List.getElem?_map, List.getElem?_range' (by omega)]
  simp [Nat.add_comm]

/-- the table entry used for the count `m` is `m!` (also for `m = 0`, through the clamped index) -/
theorem srsworFact_idx (o m : Nat) (ho : 0 < o) (hm : m ≤ o) :
    (srsworFactTable o).getD (srsworIdx (m : Int)) 0 = m.factorial := by
  cases m with
  | zero =>
    have : srsworIdx ((0 : Nat) : Int) = 0 := by simp [srsworIdx]
    rw [this, srsworFactTable_getD o 0 ho]
    rfl
  | succ m =>
    have : srsworIdx ((m + 1 : Nat) : Int) = m := by
      simp only [srsworIdx]
      have h1 : ¬ (((m + 1 : Nat) : Int) - 1 < 0) := by omega
      rw [if_neg h1]
      omega
    rw [this, srsworFactTable_getD o m (by omega)]

theorem srsworPartition_eq (o t g : Nat) (hg : g ≤ t) (ht : t ≤ o) (ho : 0 < o) :
    srsworPartition o t g = (t.factorial : Rat) / ((g.factorial : Rat) * ((t - g).factorial : Rat)) := by
  have e : (t : Int) - (g : Int) = ((t - g : Nat) : Int) := by omega
  simp only [srsworPartition]
  rw [e, srsworFact_idx o t ho ht, srsworFact_idx o g ho (by omega), srsworFact_idx o (t - g) ho (by omega)]

end PdtVerif.Estimators
