import PdtVerif.Spec.CommandLine
import Mathlib.Data.List.Nodup
import Mathlib.Tactic.Ring
import Mathlib.Tactic.FieldSimp
import Mathlib.Tactic.Linarith
import Mathlib.Algebra.Order.Ring.Rat
/-!
# Helper lemmas for C17 added by the audit round

* the copy loop of `subset_torch_spect_data_dir` (`copyTargets`, `copyRun`, `copyCmd`): which
  targets are visited, when `os.link` / `os.symlink` meet a target that is already there;
* `Σ (x − m)² = Σ x² − 2 m Σ x + n m²` — the step from the `(s, ss, c)` the moments commands pool
  to the variance as it is defined.
-/
set_option linter.unusedSectionVars false
namespace PdtVerif.CommandLine

section Copy
variable {σ κ : Type} [DecidableEq σ] [DecidableEq κ]

theorem mem_copyTargets (subdirs : List σ) (src : List (σ × κ)) (names : List κ) (k : σ × κ) :
    k ∈ copyTargets subdirs src names ↔ (k ∈ src ∧ k.1 ∈ subdirs ∧ k.2 ∈ names) := by
  obtain ⟨a, b⟩ := k
  simp only [copyTargets, List.mem_flatMap, List.mem_map, List.mem_filter, List.contains_iff_mem,
    Prod.mk.injEq]
  constructor
  · rintro ⟨n, hn, sub, ⟨hs, hc⟩, rfl, rfl⟩
    exact ⟨hc, hs, hn⟩
  · rintro ⟨hc, hs, hn⟩
    exact ⟨b, hn, a, ⟨hs, hc⟩, rfl, rfl⟩

theorem nodup_copyTargets (subdirs : List σ) (src : List (σ × κ)) (names : List κ)
    (hs : subdirs.Nodup) (hn : names.Nodup) : (copyTargets subdirs src names).Nodup := by
  unfold copyTargets
  rw [List.nodup_flatMap]
  refine ⟨fun n _ => ?_, ?_⟩
  · exact (hs.filter _).map (fun a b h => (Prod.mk.inj h).1)
  · refine hn.imp ?_
    intro a b hab x hx hy
    obtain ⟨_, _, rfl⟩ := List.mem_map.1 hx
    obtain ⟨_, _, h2⟩ := List.mem_map.1 hy
    exact hab (Prod.mk.inj h2).2.symm

theorem copyRun_nodup (lm : Bool) (d l : List κ) (h : (d ++ l).Nodup) :
    copyRun lm d l = .ok (d ++ l) := by
  induction l generalizing d with
  | nil => simp [copyRun]
  | cons k ks ih =>
    have hk : k ∉ d := by
      intro hkd
      have := (List.nodup_append.1 h).2.2 k hkd k (by simp)
      exact this rfl
    have h' : ((d ++ [k]) ++ ks).Nodup := by simpa [List.append_assoc] using h
    simp only [copyRun, List.contains_iff_mem, hk, if_false]
    rw [ih (d ++ [k]) h']
    simp

theorem copyRun_link_error (d l : List κ) (hd : d.Nodup) (h : ¬ (d ++ l).Nodup) :
    copyRun true d l = .error () := by
  induction l generalizing d with
  | nil => exact absurd (by simpa using hd) h
  | cons k ks ih =>
    by_cases hk : k ∈ d
    · simp [copyRun, hk]
    · have hd' : (d ++ [k]).Nodup := by
        rw [List.nodup_append]
        refine ⟨hd, by simp, ?_⟩
        intro a ha b hb
        simp only [List.mem_singleton] at hb
        subst hb
        exact fun e => hk (e ▸ ha)
      have h' : ¬ ((d ++ [k]) ++ ks).Nodup := by simpa [List.append_assoc] using h
      simp only [copyRun, List.contains_iff_mem, hk, if_false]
      exact ih (d ++ [k]) hd' h'

theorem copyRun_copy (d l : List κ) :
    ∃ d', copyRun false d l = .ok d' ∧ ∀ k, k ∈ d' ↔ (k ∈ d ∨ k ∈ l) := by
  induction l generalizing d with
  | nil => exact ⟨d, by simp [copyRun], by simp⟩
  | cons x xs ih =>
    by_cases hx : x ∈ d
    · obtain ⟨d', h1, h2⟩ := ih d
      refine ⟨d', by simp [copyRun, hx, h1], fun k => ?_⟩
      rw [h2 k]
      constructor
      · rintro (h | h)
        · exact Or.inl h
        · exact Or.inr (List.mem_cons_of_mem _ h)
      · rintro (h | h)
        · exact Or.inl h
        · rcases List.mem_cons.1 h with rfl | h
          · exact Or.inl hx
          · exact Or.inr h
    · obtain ⟨d', h1, h2⟩ := ih (d ++ [x])
      refine ⟨d', by simp [copyRun, hx, h1], fun k => ?_⟩
      rw [h2 k]
      simp only [List.mem_append, List.mem_cons]
      tauto

end Copy

section Variance

/-- `Σ (x − m)² = Σ x² − 2 m Σ x + n m²` for integer samples and any rational `m`. -/
theorem sum_sq_shift (m : Rat) (xs : List Int) :
    (xs.map (fun (x : Int) => ((x : Rat) - m) * ((x : Rat) - m))).sum =
      (((xs.map (fun (x : Int) => x * x)).sum : Int) : Rat) - 2 * m * ((xs.sum : Int) : Rat)
        + (xs.length : Rat) * m * m := by
  induction xs with
  | nil => simp
  | cons x xs ih =>
    simp only [List.map_cons, List.sum_cons, List.length_cons, ih]
    push_cast
    ring

end Variance

end PdtVerif.CommandLine
