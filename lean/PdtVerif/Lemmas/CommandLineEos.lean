import PdtVerif.Model.CommandLineEos
import PdtVerif.Lemmas.CommandLine
/-!
# C17 — the `eos` / `padding` sentinels of the error-rate command are unreachable

`erRead (erColumn T ids) = ids` iff no id equals `eos`; ids handed out by the interning are
natural numbers below the table size, hence never `-1` / `-2`, whatever the stored token ids are.
-/
set_option linter.unusedSectionVars false
namespace PdtVerif.CommandLine

theorem takeWhile_eos_iff (ids tl : List Int) :
    (ids ++ erEos :: tl).takeWhile (fun x => x != erEos) = ids ↔ ∀ i ∈ ids, i ≠ erEos := by
  induction ids with
  | nil => simp
  | cons x xs ih =>
    by_cases hx : x = erEos
    · subst hx
      simp
    · have hp : (x != erEos) = true := by simpa using hx
      simp only [List.cons_append, List.takeWhile_cons, hp, if_true, List.cons.injEq, true_and,
        List.mem_cons, forall_eq_or_imp, ih]
      exact ⟨fun h => ⟨hx, h⟩, fun h => h.2⟩

theorem erRead_erColumn_iff (T : Nat) (ids : List Int) :
    erRead (erColumn T ids) = ids ↔ ∀ i ∈ ids, i ≠ erEos :=
  takeWhile_eos_iff ids _

theorem ofNat_ne_sentinels (n : Nat) : Int.ofNat n ≠ erEos ∧ Int.ofNat n ≠ erPad := by
  have h : (0 : Int) ≤ Int.ofNat n := Int.natCast_nonneg n
  unfold erEos erPad
  omega

theorem erRead_erColumn_nat (T : Nat) (s : List Nat) :
    erRead (erColumn T (s.map Int.ofNat)) = s.map Int.ofNat := by
  rw [erRead_erColumn_iff]
  intro i hi
  obtain ⟨n, _, rfl⟩ := List.mem_map.1 hi
  exact (ofNat_ne_sentinels n).1

theorem erTensor_read (seqs : List (List Nat)) :
    (erTensor (seqs.map (·.map Int.ofNat))).map erRead = seqs.map (·.map Int.ofNat) := by
  unfold erTensor
  simp only [List.map_map]
  apply List.map_congr_left
  intro s _
  exact erRead_erColumn_nat _ s

section
variable {τ υ : Type} [DecidableEq τ]

theorem internMany_lt (st : List τ) (ls : List (List τ)) (hn : st.Nodup) :
    ∀ is ∈ (internMany st ls).1, ∀ i ∈ is, i < (internMany st ls).2.length := by
  obtain ⟨_, _, h3, h4⟩ := internMany_spec st ls hn
  intro is his i hi
  rw [h4] at his
  obtain ⟨l, hl, rfl⟩ := List.mem_map.1 his
  obtain ⟨t, ht, rfl⟩ := List.mem_map.1 hi
  exact List.idxOf_lt_length_iff.2 (h3 l hl t ht)

theorem batchTensors_read (table : List τ) (batch : List (Pair υ τ)) :
    (batchTensors table batch).1.1.map erRead =
        (internMany table (batch.map (·.2.1))).1.map (·.map Int.ofNat) ∧
      (batchTensors table batch).1.2.map erRead =
        (internMany (internMany table (batch.map (·.2.1))).2 (batch.map (·.2.2))).1.map
          (·.map Int.ofNat) ∧
      (batchTensors table batch).2 =
        (internMany (internMany table (batch.map (·.2.1))).2 (batch.map (·.2.2))).2 := by
  simp only [batchTensors, erTensor_read]
  exact ⟨trivial, trivial, trivial⟩

end
end PdtVerif.CommandLine
