import PdtVerif.Lemmas.SpecAugment
import Mathlib.Tactic.LinearCombination
/-!
# More lemmas for C08: the float-stable evaluation of the order-1 warp, the axis that is not
warped, and the polyharmonic system through three knots for a general radial function.
-/
namespace PdtVerif.SpecAugment

/-! ## `stableAt` (the literal arithmetic of the repaired `warp_1d_grid`) is `pwl` -/

/-- Measuring the clamped knot from the lower pinned end. -/
theorem knot_from_lower (dn lo up A B : Rat) :
    rmin (rmax dn (lo + A)) (up - B) - lo = rmin (rmax (dn - lo) A) ((up - lo) - B) := by
  unfold rmin rmax
  split_ifs <;> linarith

/-- Measuring it from the upper pinned end: the two clamps swap roles; they commute because the
two margins together never exceed the span (`A + B ≤ up - lo`, i.e. `mu ≤ 1`). -/
theorem knot_from_upper (dn lo up A B : Rat) (h : A + B ≤ up - lo) :
    up - rmin (rmax dn (lo + A)) (up - B) = rmin (rmax (up - dn) B) ((up - lo) - A) := by
  unfold rmin rmax
  split_ifs <;> linarith

/-- The closed form in the shape the code evaluates it. -/
def stableCore (lo up y2 c2 x : Rat) : Rat :=
  (if up - x ≤ 0 then x - lo
   else if x - lo ≤ c2 - lo ∧ up - c2 ≤ up - x then (y2 - lo) * ((x - lo) / (c2 - lo))
   else (up - lo) - (up - y2) * ((up - x) / (up - c2))) + lo

theorem stableCore_eq_pwl {k : Knots} (ho : k.Ordered) {x : Rat} (hx : k.c1 < x) :
    stableCore k.c1 k.c3 k.y2 k.c2 x = pwl k x := by
  have h12 := ho.h12
  have h23 := ho.h23
  unfold stableCore
  rcases pwl_cases k x with ⟨a, _⟩ | ⟨a, e⟩ | ⟨a1, a2, a3, e⟩ | ⟨a1, a2, a3, e⟩
  · linarith
  · rw [e, if_pos (by linarith)]; ring
  · rw [e, if_neg (by linarith), if_pos ⟨by linarith, by linarith⟩]
    unfold segL; ring
  · rw [e, if_neg (by linarith), if_neg (by intro h; linarith [h.1])]
    unfold segR
    have hd : k.c3 - k.c2 ≠ 0 := by intro h; linarith
    field_simp
    ring

theorem stableAt_eq_core {eps : Rat} {T len : Nat} (hT : 1 ≤ T) (hl : 1 ≤ len) (he : 0 < eps)
    (hT2 : 2 * eps * (T : Rat) ≤ 1) (src flow : Rat) (j : Nat) :
    stableAt eps T len src flow j =
      stableCore (lowerPin eps T) (upperPin eps T len) (norm T (clampSrc len src))
        (warpKnots eps (knotMargin eps T) T len src flow).c2 (norm T (j : Rat)) := by
  have hTr : (0 : Rat) < (T : Rat) := by exact_mod_cast hT
  have hTne : (T : Rat) ≠ 0 := ne_of_gt hTr
  obtain ⟨s0, s1⟩ := clampSrc_bounds hl src
  have sn0 := norm_mono hT s0
  have sn1 := norm_mono hT s1
  rw [norm_zero_eq eps] at sn0
  rw [norm_last_eq eps] at sn1
  -- the offsets of the code are the differences of the model's quantities
  have e_span : 2 / (T : Rat) * ((len : Rat) - 1) + 2 * eps = upperPin eps T len - lowerPin eps T := by
    unfold upperPin lowerPin; field_simp; ring
  have e_slo : 2 / (T : Rat) * clampSrc len src + eps = norm T (clampSrc len src) - lowerPin eps T := by
    unfold norm lowerPin; field_simp; ring
  have e_sup : 2 / (T : Rat) * ((len : Rat) - 1 - clampSrc len src) + eps
      = upperPin eps T len - norm T (clampSrc len src) := by
    unfold norm upperPin; field_simp; ring
  have e_dlo : 2 / (T : Rat) * clampDst len src flow + eps = norm T (clampDst len src flow) - lowerPin eps T := by
    unfold norm lowerPin; field_simp; ring
  have e_dup : 2 / (T : Rat) * ((len : Rat) - 1 - clampDst len src flow) + eps
      = upperPin eps T len - norm T (clampDst len src flow) := by
    unfold norm upperPin; field_simp; ring
  have e_tlo : 2 / (T : Rat) * (j : Rat) + eps = norm T (j : Rat) - lowerPin eps T := by
    unfold norm lowerPin; field_simp; ring
  have e_tup : 2 / (T : Rat) * ((len : Rat) - 1 - (j : Rat)) + eps = upperPin eps T len - norm T (j : Rat) := by
    unfold norm upperPin; field_simp; ring
  have e_lo : 1 / (T : Rat) - 1 - eps = lowerPin eps T := by unfold lowerPin; ring
  -- the two margins together stay below the span
  have hmarg : knotMargin eps T * (norm T (clampSrc len src) - lowerPin eps T)
      + knotMargin eps T * (upperPin eps T len - norm T (clampSrc len src))
      ≤ upperPin eps T len - lowerPin eps T := by
    have hspan : 0 ≤ upperPin eps T len - lowerPin eps T := by linarith
    have : knotMargin eps T * (upperPin eps T len - lowerPin eps T) ≤ upperPin eps T len - lowerPin eps T := by
      unfold knotMargin
      nlinarith
    linarith
  have e_c2lo := knot_from_lower (norm T (clampDst len src flow)) (lowerPin eps T) (upperPin eps T len)
    (knotMargin eps T * (norm T (clampSrc len src) - lowerPin eps T))
    (knotMargin eps T * (upperPin eps T len - norm T (clampSrc len src)))
  have e_c2up := knot_from_upper (norm T (clampDst len src flow)) (lowerPin eps T) (upperPin eps T len)
    (knotMargin eps T * (norm T (clampSrc len src) - lowerPin eps T))
    (knotMargin eps T * (upperPin eps T len - norm T (clampSrc len src))) hmarg
  have e_m : 2 * eps * (T : Rat) = knotMargin eps T := by unfold knotMargin; ring
  unfold stableAt
  simp only []
  rw [e_span, e_slo, e_sup, e_dlo, e_dup, e_tlo, e_tup, e_lo, e_m, ← e_c2lo, ← e_c2up]
  simp only [stableCore, warpKnots]
  rfl

theorem knotMargin_bounds {eps : Rat} {T : Nat} (he : 0 < eps) (hT2 : 2 * eps * (T : Rat) ≤ 1) :
    0 ≤ knotMargin eps T ∧ knotMargin eps T ≤ 1 := by
  have hTr : (0 : Rat) ≤ (T : Rat) := by exact_mod_cast Nat.zero_le T
  unfold knotMargin
  exact ⟨by positivity, hT2⟩

theorem stableAt_eq_pwl {eps : Rat} {T len : Nat} (hT : 1 ≤ T) (hl : 1 ≤ len) (he : 0 < eps)
    (hT2 : 2 * eps * (T : Rat) ≤ 1) (src flow : Rat) (j : Nat) :
    stableAt eps T len src flow j
      = pwl (warpKnots eps (knotMargin eps T) T len src flow) (norm T (j : Rat)) := by
  obtain ⟨m0, m1⟩ := knotMargin_bounds he hT2
  have ho := (warpKnots_facts hT hl (le_of_lt he) m0 m1 src flow).ordered he
  have hx : (warpKnots eps (knotMargin eps T) T len src flow).c1 < norm T (j : Rat) := by
    have := norm_mono hT (show (0 : Rat) ≤ (j : Rat) by exact_mod_cast Nat.zero_le j)
    rw [norm_zero_eq eps] at this
    show lowerPin eps T < _
    linarith
  rw [stableAt_eq_core hT hl he hT2]
  exact stableCore_eq_pwl ho hx

/-! ## the axis that is not warped is read cell by cell -/

theorem unnorm_norm {n : Nat} (hn : 1 ≤ n) (x : Rat) : unnorm n (norm n x) = x := by
  have hne : (n : Rat) ≠ 0 := by
    have : (0 : Rat) < (n : Rat) := by exact_mod_cast hn
    exact ne_of_gt this
  unfold unnorm norm
  field_simp
  ring

theorem clip_natCast {n j : Nat} (hj : j < n) : clip n (j : Rat) = (j : Rat) := by
  have h0 : (0 : Rat) ≤ (j : Rat) := by exact_mod_cast Nat.zero_le j
  have h1 : (j : Rat) ≤ (n : Rat) - 1 := by
    have : ((j + 1 : Nat) : Rat) ≤ (n : Rat) := by exact_mod_cast hj
    push_cast at this; linarith
  unfold clip rmin rmax
  split_ifs <;> linarith

theorem floor_natCast' (j : Nat) : ((j : Rat)).floor = (j : Int) := by
  have := Rat.floor_intCast (j : Int)
  simpa using this

/-- Linear interpolation along row `j` (time frame `j`) at frequency coordinate `gx`. -/
def rowInterp (img : List (List Rat)) (T F : Nat) (j : Nat) (gx : Rat) : Rat :=
  let x := clip F (unnorm F gx)
  getPix img T F (j : Int) x.floor * (((x.floor + 1 : Int) : Rat) - x)
    + getPix img T F (j : Int) (x.floor + 1) * (x - (x.floor : Rat))

/-- Linear interpolation along column `k` (coefficient `k`) at time coordinate `gy`. -/
def colInterp (img : List (List Rat)) (T F : Nat) (k : Nat) (gy : Rat) : Rat :=
  let y := clip T (unnorm T gy)
  getPix img T F y.floor (k : Int) * (((y.floor + 1 : Int) : Rat) - y)
    + getPix img T F (y.floor + 1) (k : Int) * (y - (y.floor : Rat))

/-- At the centre of frame `j` the bilinear kernel reads row `j` only. -/
theorem bilinear_idrow (img : List (List Rat)) {T F j : Nat} (hj : j < T) (gx : Rat) :
    bilinear img T F (norm T (j : Rat)) gx = rowInterp img T F j gx := by
  have hT : 1 ≤ T := by omega
  unfold bilinear rowInterp
  simp only [unnorm_norm hT, clip_natCast hj, floor_natCast']
  push_cast
  ring

/-- At the centre of coefficient `k` the bilinear kernel reads column `k` only. -/
theorem bilinear_idcol (img : List (List Rat)) {T F k : Nat} (hk : k < F) (gy : Rat) :
    bilinear img T F gy (norm F (k : Rat)) = colInterp img T F k gy := by
  have hF : 1 ≤ F := by omega
  unfold bilinear colInterp
  simp only [unnorm_norm hF, clip_natCast hk, floor_natCast']
  push_cast
  ring

/-- The time grid `spec_augment_apply_parameters` hands to `grid_sample`. -/
def timeGridOf (epsG : Rat) (T len : Nat) (p : Params) : List Rat :=
  match p.warpT with
  | some (w0, w) => warpGrid epsG T len w0 w
  | none => idGrid T

/-- The frequency grid: the *same* `warp_1d_grid`, with `F` as both the size and the length. -/
def freqGridOf (epsG : Rat) (F : Nat) (p : Params) : List Rat :=
  match p.warpF with
  | some (v0, v) => warpGrid epsG F F v0 v
  | none => idGrid F

theorem applyParams_warp (epsG : Rat) (x : List (List Rat)) (T F len : Nat) (p : Params)
    (hw : (p.warpT.isSome || p.warpF.isSome) = true) :
    applyParams epsG x T F len p
      = applyMasks (gridSample x T F (timeGridOf epsG T len p) (freqGridOf epsG F p)) p.tmasks p.fmasks := by
  unfold applyParams timeGridOf freqGridOf
  rw [if_pos hw]
  rcases p.warpT with _ | ⟨w0, w⟩ <;> rcases p.warpF with _ | ⟨v0, v⟩ <;> rfl

/-! ## the polyharmonic system through three 1-D knots, for any radial function

`_solve_interpolation` sets up, for the knots `c1 < c1 + a < c1 + a + b` with values `y1 y2 y3`
and a radial function `φ` with `φ 0 = 0` (`r`, `r² log r`, `r³`, …), the `5 × 5` system below
(`pa = φ a`, `pb = φ b`, `pab = φ (a + b)`; the diagonal of the kernel matrix is `φ 0 = 0`).
It has exactly one solution iff the second divided difference of the kernel,
`Q = a b φ(a+b) − b (a+b) φ(a) − a (a+b) φ(b)`, is non-zero. -/

section Poly3
variable {K : Type} [Field K]

structure Poly3Sys (c1 a b pa pb pab y1 y2 y3 w1 w2 w3 v1 v0 : K) : Prop where
  at1 : w2 * pa + w3 * pab + v1 * c1 + v0 = y1
  at2 : w1 * pa + w3 * pb + v1 * (c1 + a) + v0 = y2
  at3 : w1 * pab + w2 * pb + v1 * (c1 + a + b) + v0 = y3
  orth0 : w1 + w2 + w3 = 0
  orth1 : w1 * c1 + w2 * (c1 + a) + w3 * (c1 + a + b) = 0

def poly3Q (a b pa pb pab : K) : K := a * b * pab - b * (a + b) * pa - a * (a + b) * pb

/-- The weights are a multiple of the second-divided-difference weights `(b, -(a+b), a)`, the
multiple fixed by `Q`. -/
theorem Poly3Sys.w1_eq {c1 a b pa pb pab y1 y2 y3 w1 w2 w3 v1 v0 : K}
    (S : Poly3Sys c1 a b pa pb pab y1 y2 y3 w1 w2 w3 v1 v0) :
    2 * poly3Q a b pa pb pab * w1 = b * (b * y1 - (a + b) * y2 + a * y3) := by
  obtain ⟨e1, e2, e3, o0, o1⟩ := S
  have h1 : b * w3 = a * w1 := by linear_combination o1 - (c1 + a) * o0
  have h2 : b * w2 = -(a + b) * w1 := by linear_combination b * o0 - h1
  unfold poly3Q
  linear_combination (b * b) * e1 - (b * (a + b)) * e2 + (b * a) * e3 - (pa * b + pb * a) * h2
    - (pab * b - pb * (a + b)) * h1

theorem Poly3Sys.unique {c1 a b pa pb pab y1 y2 y3 w1 w2 w3 v1 v0 w1' w2' w3' v1' v0' : K}
    (h2 : (2 : K) ≠ 0) (hb : b ≠ 0) (hab : a + b ≠ 0) (hQ : poly3Q a b pa pb pab ≠ 0)
    (S : Poly3Sys c1 a b pa pb pab y1 y2 y3 w1 w2 w3 v1 v0)
    (S' : Poly3Sys c1 a b pa pb pab y1 y2 y3 w1' w2' w3' v1' v0') :
    w1 = w1' ∧ w2 = w2' ∧ w3 = w3' ∧ v1 = v1' ∧ v0 = v0' := by
  have k1 := S.w1_eq
  have k1' := S'.w1_eq
  obtain ⟨e1, e2, e3, o0, o1⟩ := S
  obtain ⟨e1', e2', e3', o0', o1'⟩ := S'
  have hw1 : w1 = w1' := mul_left_cancel₀ (mul_ne_zero h2 hQ) (by rw [k1, k1'])
  have hw3 : w3 = w3' := by
    have a1 : b * w3 = a * w1 := by linear_combination o1 - (c1 + a) * o0
    have a2 : b * w3' = a * w1' := by linear_combination o1' - (c1 + a) * o0'
    exact mul_left_cancel₀ hb (by rw [a1, a2, hw1])
  have hw2 : w2 = w2' := by linear_combination o0 - o0' - hw1 - hw3
  have hv1 : v1 = v1' := by
    apply mul_left_cancel₀ hab
    linear_combination e3 - e1 - e3' + e1' - (pab - 0) * hw1 - (pb - pa) * hw2 + pab * hw3
  have hv0 : v0 = v0' := by linear_combination e1 - e1' - pa * hw2 - pab * hw3 - c1 * hv1
  exact ⟨hw1, hw2, hw3, hv1, hv0⟩

theorem Poly3Sys.exists (c1 a b pa pb pab y1 y2 y3 : K)
    (h2 : (2 : K) ≠ 0) (hab : a + b ≠ 0) (hQ : poly3Q a b pa pb pab ≠ 0) :
    ∃ w1 w2 w3 v1 v0, Poly3Sys c1 a b pa pb pab y1 y2 y3 w1 w2 w3 v1 v0 := by
  -- s = R / (2 Q),  w = s (b, -(a+b), a)
  obtain ⟨D, hD⟩ : ∃ D : K, D = poly3Q a b pa pb pab := ⟨_, rfl⟩
  rw [← hD] at hQ
  unfold poly3Q at hD
  refine ⟨(b * y1 - (a + b) * y2 + a * y3) / (2 * D) * b,
    -((b * y1 - (a + b) * y2 + a * y3) / (2 * D) * (a + b)),
    (b * y1 - (a + b) * y2 + a * y3) / (2 * D) * a,
    ((y3 - y1) - ((b * y1 - (a + b) * y2 + a * y3) / (2 * D) * b * pab
      + (-((b * y1 - (a + b) * y2 + a * y3) / (2 * D) * (a + b))) * pb
      - (-((b * y1 - (a + b) * y2 + a * y3) / (2 * D) * (a + b))) * pa
      - (b * y1 - (a + b) * y2 + a * y3) / (2 * D) * a * pab)) / (a + b),
    y1 - (-((b * y1 - (a + b) * y2 + a * y3) / (2 * D) * (a + b))) * pa
      - (b * y1 - (a + b) * y2 + a * y3) / (2 * D) * a * pab
      - ((y3 - y1) - ((b * y1 - (a + b) * y2 + a * y3) / (2 * D) * b * pab
      + (-((b * y1 - (a + b) * y2 + a * y3) / (2 * D) * (a + b))) * pb
      - (-((b * y1 - (a + b) * y2 + a * y3) / (2 * D) * (a + b))) * pa
      - (b * y1 - (a + b) * y2 + a * y3) / (2 * D) * a * pab)) / (a + b) * c1, ?_, ?_, ?_, ?_, ?_⟩
  · ring
  · field_simp
    rw [hD]
    ring
  · field_simp
    ring
  · ring
  · ring

end Poly3

/-- For ordered knots and `φ 0 = 0` the spec's system is the `Poly3Sys` of the gaps. -/
theorem splineSystemPhi_iff {φ : Rat → Rat} (h0 : φ 0 = 0) {k : Knots} (h12 : k.c1 < k.c2) (h23 : k.c2 < k.c3)
    (w1 w2 w3 v1 v0 : Rat) :
    SplineSystemPhi φ k w1 w2 w3 v1 v0 ↔
      Poly3Sys k.c1 (k.c2 - k.c1) (k.c3 - k.c2) (φ (k.c2 - k.c1)) (φ (k.c3 - k.c2))
        (φ ((k.c2 - k.c1) + (k.c3 - k.c2))) k.c1 k.y2 k.c3 w1 w2 w3 v1 v0 := by
  have r11 : rabs (k.c1 - k.c1) = 0 := by rw [rabs_of_nonneg (by linarith)]; ring
  have r12 : rabs (k.c1 - k.c2) = k.c2 - k.c1 := by rw [rabs_of_nonpos (by linarith)]; ring
  have r13 : rabs (k.c1 - k.c3) = (k.c2 - k.c1) + (k.c3 - k.c2) := by rw [rabs_of_nonpos (by linarith)]; ring
  have r21 : rabs (k.c2 - k.c1) = k.c2 - k.c1 := rabs_of_nonneg (by linarith)
  have r22 : rabs (k.c2 - k.c2) = 0 := by rw [rabs_of_nonneg (by linarith)]; ring
  have r23 : rabs (k.c2 - k.c3) = k.c3 - k.c2 := by rw [rabs_of_nonpos (by linarith)]; ring
  have r31 : rabs (k.c3 - k.c1) = (k.c2 - k.c1) + (k.c3 - k.c2) := by rw [rabs_of_nonneg (by linarith)]; ring
  have r32 : rabs (k.c3 - k.c2) = k.c3 - k.c2 := rabs_of_nonneg (by linarith)
  have r33 : rabs (k.c3 - k.c3) = 0 := by rw [rabs_of_nonneg (by linarith)]; ring
  constructor
  · rintro ⟨e1, e2, e3, o0, o1⟩
    unfold splineEvalPhi at e1 e2 e3
    rw [r11, r12, r13, h0] at e1
    rw [r21, r22, r23, h0] at e2
    rw [r31, r32, r33, h0] at e3
    exact ⟨by linarith, by linarith, by linarith, o0, by linarith⟩
  · rintro ⟨e1, e2, e3, o0, o1⟩
    refine ⟨?_, ?_, ?_, o0, by linarith⟩
    · unfold splineEvalPhi; rw [r11, r12, r13, h0]; linarith
    · unfold splineEvalPhi; rw [r21, r22, r23, h0]; linarith
    · unfold splineEvalPhi; rw [r31, r32, r33, h0]; linarith

/-- Order 3: `Q = 2 a² b² (a + b) > 0`. -/
theorem poly3Q_phi3 {a b : Rat} (ha : 0 < a) (hb : 0 < b) :
    poly3Q a b (phi3 a) (phi3 b) (phi3 (a + b)) ≠ 0 := by
  have : poly3Q a b (phi3 a) (phi3 b) (phi3 (a + b)) = 2 * (a * a) * (b * b) * (a + b) := by
    unfold poly3Q phi3; ring
  rw [this]
  positivity

theorem cubicEval_eq (k : Knots) (c : Coeffs) (x : Rat) :
    cubicEval k c x = splineEvalPhi phi3 k.c1 k.c2 k.c3 c.w1 c.w2 c.w3 c.v1 c.v0 x := by
  unfold cubicEval splineEvalPhi phi3; rfl

/-- The closed-form coefficients of the model solve the order-3 system. -/
theorem cubicCoeffs_solves {k : Knots} (h12 : k.c1 < k.c2) (h23 : k.c2 < k.c3) :
    SplineSystemPhi phi3 k (cubicCoeffs k).w1 (cubicCoeffs k).w2 (cubicCoeffs k).w3
      (cubicCoeffs k).v1 (cubicCoeffs k).v0 := by
  have h0 : phi3 0 = 0 := by unfold phi3; ring
  have ha : 0 < k.c2 - k.c1 := by linarith
  have hb : 0 < k.c3 - k.c2 := by linarith
  have hab : (k.c2 - k.c1) + (k.c3 - k.c2) ≠ 0 := by intro h; linarith
  have hQ := poly3Q_phi3 ha hb
  rw [splineSystemPhi_iff h0 h12 h23]
  unfold poly3Q phi3 at hQ
  simp only [cubicCoeffs, phi3]
  generalize k.c2 - k.c1 = a at *
  generalize k.c3 - k.c2 = b at *
  obtain ⟨D, hD⟩ : ∃ D : Rat, D = a * b * ((a + b) * (a + b) * (a + b)) - b * (a + b) * (a * a * a)
      - a * (a + b) * (b * b * b) := ⟨_, rfl⟩
  rw [← hD] at hQ ⊢
  constructor
  · ring
  · field_simp
    rw [hD]
    ring
  · field_simp
    ring
  · ring
  · ring

/-- Order 1: `Q = -a b (a + b) < 0` (the system of `C08_linear_warp_spline`). -/
theorem poly3Q_id {a b : Rat} (ha : 0 < a) (hb : 0 < b) : poly3Q a b a b (a + b) ≠ 0 := by
  have : poly3Q a b a b (a + b) = -(a * b * (a + b)) := by unfold poly3Q; ring
  rw [this]
  have : 0 < a * b * (a + b) := by positivity
  linarith

/-! ## audit round: the no-warp branch, empty masks, `CellsIn` for a well-shaped image -/

theorem applyMasks_nil (y : List (List Rat)) : applyMasks y [] [] = y := by
  apply List.ext_getElem (by simp [applyMasks])
  intro j h1 h2
  apply List.ext_getElem (by simp [applyMasks])
  intro k h3 h4
  simp [applyMasks, inMask]

theorem applyParams_nowarp (epsG : Rat) (x : List (List Rat)) (T F len : Nat) (p : Params)
    (hw : ¬ (p.warpT.isSome || p.warpF.isSome) = true) :
    applyParams epsG x T F len p = applyMasks x p.tmasks p.fmasks := by
  simp only [applyParams, if_neg hw]

/-- For an image that really is `T × F` the `getD`-padded hypothesis `CellsIn` is the plain
statement "every entry lies in `[lo, hi]`". -/
theorem cellsIn_inRange {x : List (List Rat)} {T F : Nat} {lo hi : Rat} (hx : x.length = T)
    (hr : ∀ r ∈ x, r.length = F) (H : CellsIn x T F lo hi) : InRange lo hi x := by
  intro row hrow v hv
  obtain ⟨j, hj, rfl⟩ := List.mem_iff_getElem.mp hrow
  obtain ⟨k, hk, rfl⟩ := List.mem_iff_getElem.mp hv
  have hkF : k < F := by have := hr _ (List.getElem_mem hj); omega
  have := H j k (by omega) hkF
  simpa [List.getD_eq_getElem?_getD, List.getElem?_eq_getElem hj, List.getElem?_eq_getElem hk] using this

end PdtVerif.SpecAugment
