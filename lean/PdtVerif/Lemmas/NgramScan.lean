import PdtVerif.Lemmas.NgramLevel
import PdtVerif.Lemmas.NgramSort
import PdtVerif.Lemmas.NgramTrie
/-!
# Lemmas for C06, part 8: the child scan of the lookup on a laid-out level

Piece (c) of `C06_flat`: if the offsets of a parent node delimit a block of sibling nodes with
pairwise distinct ids, the block is no wider than `max_direct_descendants` and lies inside the
buffers, then the scan of `_lookup_calc_idx_log_probs` over `S` slots (matches summed)
returns exactly the sibling with the requested id, or nothing.
-/
namespace PdtVerif.NgramTrie

theorem filter_unique (p : Nat → Bool) (j : Nat) : ∀ (l : List Nat), l.Nodup → j ∈ l → p j = true →
    (∀ i ∈ l, p i = true → i = j) → l.filter p = [j]
  | [], _, h, _, _ => by cases h
  | x :: xs, hnd, hmem, hp, huniq => by
    rw [List.nodup_cons] at hnd
    by_cases hx : x = j
    · subst hx
      rw [List.filter_cons, if_pos hp]
      congr 1
      rw [List.filter_eq_nil_iff]
      intro a ha hpa
      have := huniq a (List.mem_cons_of_mem _ ha) hpa
      subst this
      exact hnd.1 ha
    · have hpx : ¬ p x = true := fun h => hx (huniq x (by simp) h)
      rw [List.filter_cons, if_neg hpx]
      refine filter_unique p j xs hnd.2 ?_ hp (fun i hi => huniq i (List.mem_cons_of_mem _ hi))
      rcases List.mem_cons.mp hmem with h | h
      · exact absurd h.symm hx
      · exact h

/-- **The scan over `S` slots.** Node `d` owns the cells `[s, s + toks.length)`, whose ids are
`toks` (pairwise distinct). -/
theorem child_scan (b : Buffers) (U d s : Nat) (toks : List Int)
    (hs : b.offsets.getD d 0 + d = s)
    (he : b.offsets.getD (d + 1) 0 + d + 1 = s + toks.length)
    (hS : toks.length ≤ b.S) (hP : s + toks.length ≤ b.logps.size)
    (hids : ∀ j (hj : j < toks.length), b.ids.getD (s + j - U) 0 = toks[j])
    (hnd : toks.Nodup) (t : Int) :
    (∀ j (hj : j < toks.length), toks[j] = t → (flatNav b U).child d t = some (s + j)) ∧
    (t ∉ toks → (flatNav b U).child d t = none) := by
  have hp : ∀ j, (decide (b.offsets.getD (d + 1) 0 + d + 1 > b.offsets.getD d 0 + d + j) &&
        b.ids.getD (min (b.offsets.getD d 0 + d + j) (b.logps.size - 1) - U) 0 == t) = true ↔
      ∃ hj : j < toks.length, toks[j] = t := by
    intro j
    rw [hs, he]
    simp only [Bool.and_eq_true, decide_eq_true_eq, beq_iff_eq]
    constructor
    · rintro ⟨h1, h2⟩
      have hj : j < toks.length := by omega
      have hm : min (s + j) (b.logps.size - 1) = s + j := by omega
      rw [hm, hids j hj] at h2
      exact ⟨hj, h2⟩
    · rintro ⟨hj, h2⟩
      have hm : min (s + j) (b.logps.size - 1) = s + j := by omega
      rw [hm, hids j hj]
      exact ⟨by omega, h2⟩
  constructor
  · intro j hj htj
    simp only [flatNav]
    have hfil : (List.range b.S).filter (fun j =>
        decide (b.offsets.getD (d + 1) 0 + d + 1 > b.offsets.getD d 0 + d + j) &&
        b.ids.getD (min (b.offsets.getD d 0 + d + j) (b.logps.size - 1) - U) 0 == t) = [j] := by
      apply filter_unique _ j _ List.nodup_range (List.mem_range.mpr (by omega)) ((hp j).mpr ⟨hj, htj⟩)
      intro i _ hi
      obtain ⟨hi', hti⟩ := (hp i).mp hi
      exact (List.getElem_inj hnd).mp (hti.trans htj.symm)
    rw [hfil, hs]
    simp
  · intro hnot
    simp only [flatNav]
    have hfil : (List.range b.S).filter (fun j =>
        decide (b.offsets.getD (d + 1) 0 + d + 1 > b.offsets.getD d 0 + d + j) &&
        b.ids.getD (min (b.offsets.getD d 0 + d + j) (b.logps.size - 1) - U) 0 == t) = [] := by
      rw [List.filter_eq_nil_iff]
      intro i _ hi
      obtain ⟨hi', hti⟩ := (hp i).mp hi
      exact hnot (hti ▸ List.getElem_mem hi')
    rw [hfil]
    simp

/-! ## non-decreasing parent indices: the children of a parent form a block -/

theorem mono_countP_lt : ∀ (ps : List Nat), Mono ps → ∀ (q k : Nat) (hk : k < ps.length),
    (ps[k] < q ↔ k < ps.countP (fun x => decide (x < q)))
  | [], _, _, _, hk => by simp at hk
  | a :: rest, hm, q, k, hk => by
    rw [List.countP_cons]
    by_cases ha : a < q
    · simp only [ha, decide_true, if_true]
      cases k with
      | zero => simp [ha]
      | succ k' =>
        have hk' : k' < rest.length := by simpa using hk
        have := mono_countP_lt rest hm.tail q k' hk'
        simp only [List.getElem_cons_succ]
        rw [this]; omega
    · simp only [ha, decide_false, Bool.false_eq_true, if_false, Nat.add_zero]
      have hz : rest.countP (fun x => decide (x < q)) = 0 :=
        countP_lt_mono rest a q (Mono.head_le hm) (by omega)
      rw [hz]
      constructor
      · intro h
        exfalso
        cases k with
        | zero => simp at h; omega
        | succ k' =>
          simp only [List.getElem_cons_succ] at h
          have := Mono.head_le hm _ (List.getElem_mem (by simpa using hk : k' < rest.length))
          omega
      · intro h; omega

theorem countP_lt_all (ps : List Nat) (q : Nat) (h : ∀ p ∈ ps, p < q) :
    ps.countP (fun x => decide (x < q)) = ps.length := by
  rw [List.countP_eq_length]
  intro x hx
  simpa using h x hx

theorem countP_lt_le (ps : List Nat) (q q' : Nat) (h : q ≤ q') :
    ps.countP (fun x => decide (x < q)) ≤ ps.countP (fun x => decide (x < q')) := by
  apply List.countP_mono_left
  intro x _ hx
  simp only [decide_eq_true_eq] at hx ⊢
  omega

/-! ## one laid-out level -/

/-- The cells of one level `S` (sorted, reversed keys) and of its parent level `K` (reversed
keys of the nodes at `lo, lo+1, …`), as `_build_trie` is supposed to leave them: `ps` are the
parents' indices of the nodes of `S`. The dummy node sits at `lo + K.length`. -/
structure LevelOK (offs : Array Nat) (ids : Array Int) (logps logbs : Array LogP) (U lo : Nat)
    (K : List (List Int)) (S : List Item) (ps : List Nat) (isTop : Bool) : Prop where
  len : ps.length = S.length
  mono : Mono ps
  par : ∀ k (hk : k < S.length), ∃ j, K[j]? = some (S[k].key.dropLast) ∧ ps[k]? = some (lo + j) ∧
    S[k].key ≠ []
  off : ∀ q, lo ≤ q → q < lo + K.length →
    offs.getD q 0 + q = lo + K.length + 1 + ps.countP (fun x => decide (x < q))
  dummy : offs.getD (lo + K.length) 0 = S.length + 1
  ids : ∀ k (hk : k < S.length), ids.getD (lo + K.length + 1 + k - U) 0 = S[k].key.getLastD 0
  logp : ∀ k (hk : k < S.length), logps.getD (lo + K.length + 1 + k) LogP.nan = S[k].logp
  logb : isTop = false → ∀ k (hk : k < S.length), logbs.getD (lo + K.length + 1 + k) LogP.nan = S[k].logb
  fits : lo + K.length + 1 + S.length ≤ logps.size
  keysS : (S.map (·.key)).Nodup

theorem key_eq_dropLast_append (k : List Int) (h : k ≠ []) : k = k.dropLast ++ [k.getLastD 0] := by
  have e : k.getLastD 0 = k.getLast h := by
    rw [List.getLastD_eq_getLast?, List.getLast?_eq_some_getLast h]; rfl
  rw [e, List.dropLast_concat_getLast h]

section level
variable {offs : Array Nat} {ids : Array Int} {logps logbs : Array LogP} {U lo : Nat}
  {K : List (List Int)} {S : List Item} {ps : List Nat} {isTop : Bool}

theorem LevelOK.ps_range (L : LevelOK offs ids logps logbs U lo K S ps isTop) :
    ∀ p ∈ ps, lo ≤ p ∧ p < lo + K.length := by
  intro p hp
  obtain ⟨k, hk, rfl⟩ := List.mem_iff_getElem.mp hp
  obtain ⟨j, hj, hpk, _⟩ := L.par k (L.len ▸ hk)
  have hjl : j < K.length := by
    obtain ⟨h, _⟩ := List.getElem?_eq_some_iff.mp hj; exact h
  rw [List.getElem?_eq_getElem hk] at hpk
  simp only [Option.some.injEq] at hpk
  omega

/-- The nodes of `S` whose parent is the node `lo + j` (reversed key `r`) are exactly those
with key `r ++ [t]`. -/
theorem LevelOK.parent_iff (L : LevelOK offs ids logps logbs U lo K S ps isTop) (hK : K.Nodup)
    (j : Nat) (r : List Int) (hj : K[j]? = some r) (k : Nat) (hk : k < S.length) :
    ps[k]'(L.len ▸ hk) = lo + j ↔ S[k].key.dropLast = r := by
  obtain ⟨j', hj', hpk, _⟩ := L.par k hk
  rw [List.getElem?_eq_getElem (L.len ▸ hk)] at hpk
  simp only [Option.some.injEq] at hpk
  obtain ⟨h1, e1⟩ := List.getElem?_eq_some_iff.mp hj
  obtain ⟨h2, e2⟩ := List.getElem?_eq_some_iff.mp hj'
  constructor
  · intro h
    have : j' = j := by omega
    subst this
    rw [← e2, e1]
  · intro h
    have : K[j'] = K[j] := by rw [e2, e1, h]
    have := (List.getElem_inj hK).mp this
    omega

end level

/-- **The child scan on a laid-out level**: for the parent node `lo + j` with reversed key `r`
and a token `t`, the lookup's scan returns the node of `S` with key `r ++ [t]`, or nothing if
there is none. `hS`: `max_direct_descendants` is at least the width of every block. -/
theorem child_level (b : Buffers) (U lo : Nat) (K : List (List Int)) (S : List Item) (ps : List Nat)
    (isTop : Bool) (L : LevelOK b.offsets b.ids b.logps b.logbs U lo K S ps isTop) (hK : K.Nodup)
    (hS : ∀ q, lo ≤ q → q < lo + K.length →
      ps.countP (fun x => decide (x < q + 1)) - ps.countP (fun x => decide (x < q)) ≤ b.S)
    (j : Nat) (r : List Int) (hj : K[j]? = some r) (t : Int) :
    (∀ k (hk : k < S.length), S[k].key = r ++ [t] →
      (flatNav b U).child (lo + j) t = some (lo + K.length + 1 + k)) ∧
    ((∀ e ∈ S, e.key ≠ r ++ [t]) → (flatNav b U).child (lo + j) t = none) := by
  obtain ⟨hjl, hjr⟩ := List.getElem?_eq_some_iff.mp hj
  have hc_le := countP_lt_le ps (lo + j) (lo + j + 1) (by omega)
  have hc'_le : ps.countP (fun x => decide (x < lo + j + 1)) ≤ S.length := by
    rw [← L.len]; exact List.countP_le_length
  -- the block of node `lo + j`
  let c := ps.countP (fun x => decide (x < lo + j))
  let c' := ps.countP (fun x => decide (x < lo + j + 1))
  have hcc : c ≤ c' := hc_le
  have hcS : c' ≤ S.length := hc'_le
  -- membership in the block
  have hblock : ∀ k (hk : k < S.length), (c ≤ k ∧ k < c') ↔ S[k].key.dropLast = r := by
    intro k hk
    have hkp : k < ps.length := L.len ▸ hk
    rw [← L.parent_iff hK j r hj k hk]
    have h1 := mono_countP_lt ps L.mono (lo + j) k hkp
    have h2 := mono_countP_lt ps L.mono (lo + j + 1) k hkp
    constructor
    · rintro ⟨a1, a2⟩
      have : ps[k] < lo + j + 1 := h2.mpr a2
      have : ¬ ps[k] < lo + j := fun h => by have := h1.mp h; omega
      omega
    · intro h
      exact ⟨by
        by_cases hh : c ≤ k
        · exact hh
        · have := h1.mpr (by omega); omega, h2.mp (by omega)⟩
  let toks : List Int := (List.range (c' - c)).map (fun i => (S.getD (c + i) default).key.getLastD 0)
  have htl : toks.length = c' - c := by simp [toks]
  have hget : ∀ i (hi : i < toks.length), toks[i] = (S[c + i]'(by omega)).key.getLastD 0 := by
    intro i hi
    have hci : c + i < S.length := by omega
    simp only [toks, List.getElem_map, List.getElem_range]
    rw [List.getD_eq_getElem?_getD, List.getElem?_eq_getElem hci]; rfl
  have hkey : ∀ i (hi : i < toks.length), (S[c + i]'(by omega)).key = r ++ [toks[i]] := by
    intro i hi
    have hci : c + i < S.length := by omega
    have hd := (hblock (c + i) hci).mp ⟨by omega, by omega⟩
    obtain ⟨_, _, _, hne⟩ := L.par (c + i) hci
    rw [hget i hi]
    have := key_eq_dropLast_append _ hne
    rw [hd] at this
    exact this
  have hnd : toks.Nodup := by
    rw [List.nodup_iff_pairwise_ne, List.pairwise_iff_getElem]
    intro i i' hi hi' hlt heq
    have h1 := hkey i hi
    have h2 := hkey i' hi'
    rw [heq] at h1
    have hci : c + i < S.length := by omega
    have hci' : c + i' < S.length := by omega
    have hkk : (S.map (·.key))[c + i]'(by simpa using hci) = (S.map (·.key))[c + i']'(by simpa using hci') := by
      simp only [List.getElem_map]; rw [h1, h2]
    have := (List.getElem_inj L.keysS).mp hkk
    omega
  have hoff := L.off (lo + j) (by omega) (by omega)
  have hs : b.offsets.getD (lo + j) 0 + (lo + j) = lo + K.length + 1 + c := hoff
  have he : b.offsets.getD (lo + j + 1) 0 + (lo + j) + 1 = lo + K.length + 1 + c + toks.length := by
    rw [htl]
    by_cases hlast : lo + j + 1 < lo + K.length
    · have := L.off (lo + j + 1) (by omega) hlast
      show _ = lo + K.length + 1 + c + (c' - c)
      have e : ps.countP (fun x => decide (x < lo + j + 1)) = c' := rfl
      rw [e] at this
      omega
    · have hq : lo + j + 1 = lo + K.length := by omega
      have hall : c' = ps.length := by
        apply countP_lt_all
        intro p hp
        have := L.ps_range p hp
        omega
      rw [hq, L.dummy]
      show _ = lo + K.length + 1 + c + (c' - c)
      rw [hall, L.len] at *
      omega
  have hwid : toks.length ≤ b.S := by
    rw [htl]; exact hS (lo + j) (by omega) (by omega)
  have hP : lo + K.length + 1 + c + toks.length ≤ b.logps.size := by
    have := L.fits
    rw [htl]; omega
  have hids : ∀ i (hi : i < toks.length),
      b.ids.getD (lo + K.length + 1 + c + i - U) 0 = toks[i] := by
    intro i hi
    have hci : c + i < S.length := by omega
    have := L.ids (c + i) hci
    rw [hget i hi, ← this]
    congr 1
    omega
  have hscan := child_scan b U (lo + j) (lo + K.length + 1 + c) toks hs he hwid hP hids hnd t
  constructor
  · intro k hk hkey'
    have hd : S[k].key.dropLast = r := by rw [hkey']; simp
    obtain ⟨hck, hkc'⟩ := (hblock k hk).mpr hd
    have hi : k - c < toks.length := by omega
    have hki : c + (k - c) = k := by omega
    have htok : toks[k - c] = t := by
      rw [hget (k - c) hi]
      have : (S[c + (k - c)]'(by omega)).key = S[k].key := by congr 1 <;> simp [hki]
      rw [this, hkey']; simp
    have := hscan.1 (k - c) hi htok
    rw [this]
    congr 1
    omega
  · intro hnone
    apply hscan.2
    intro hmem
    obtain ⟨i, hi, hti⟩ := List.mem_iff_getElem.mp hmem
    have := hkey i hi
    rw [hti] at this
    exact hnone _ (List.getElem_mem _) this

/-! ## the width of a block, read off the offsets -/

section width
variable {offs : Array Nat} {ids : Array Int} {logps logbs : Array LogP} {U lo : Nat}
  {K : List (List Int)} {S : List Item} {ps : List Nat} {isTop : Bool}

/-- `q + 1 + offsets[q+1]` – for the last node of the level, `q + 1` is the dummy cell. -/
theorem LevelOK.off_succ (L : LevelOK offs ids logps logbs U lo K S ps isTop) (q : Nat)
    (h1 : lo ≤ q) (h2 : q < lo + K.length) :
    offs.getD (q + 1) 0 + q + 1 = lo + K.length + 1 + ps.countP (fun x => decide (x < q + 1)) := by
  by_cases hlast : q + 1 < lo + K.length
  · have := L.off (q + 1) (by omega) hlast
    omega
  · have hq : q + 1 = lo + K.length := by omega
    have hall : ps.countP (fun x => decide (x < q + 1)) = ps.length := by
      apply countP_lt_all
      intro p hp
      have := L.ps_range p hp
      omega
    rw [hall, hq, L.dummy, L.len]
    omega

theorem LevelOK.width (L : LevelOK offs ids logps logbs U lo K S ps isTop) (q : Nat)
    (h1 : lo ≤ q) (h2 : q < lo + K.length) :
    ps.countP (fun x => decide (x < q + 1)) - ps.countP (fun x => decide (x < q)) =
      offs.getD (q + 1) 0 + 1 - offs.getD q 0 := by
  have a := L.off q h1 h2
  have b := L.off_succ q h1 h2
  have c := countP_lt_le ps q (q + 1) (by omega)
  omega

theorem LevelOK.first_hop (L : LevelOK offs ids logps logbs U lo K S ps isTop) (hK : K ≠ []) :
    lo + offs.getD lo 0 = lo + K.length + 1 := by
  have hpos : 0 < K.length := List.length_pos_iff.mpr hK
  have a := L.off lo (Nat.le_refl _) (by omega)
  have z : ps.countP (fun x => decide (x < lo)) = 0 := by
    rw [List.countP_eq_zero]
    intro p hp
    have := L.ps_range p hp
    simp only [decide_eq_true_eq]; omega
  omega

end width

/-! ## all levels -/

/-- The levels above `(lo, K)`: `S :: rest` are the sorted levels (reversed keys) whose first
one has its parents in `K`; the last one is the highest order, whose nodes have no offsets –
the offsets buffer ends with its dummy cell. -/
def Layout (offs : Array Nat) (ids : Array Int) (logps logbs : Array LogP) (U : Nat) :
    Nat → List (List Int) → List (List Item) → Prop
  | lo, _, [] => offs.size = lo
  | lo, K, S :: rest =>
    (∃ ps, LevelOK offs ids logps logbs U lo K S ps rest.isEmpty) ∧ K ≠ [] ∧
      Layout offs ids logps logbs U (lo + K.length + 1) (S.map (·.key)) rest

/-- Every node that has children owns at most `bound` of them. -/
def WideFrom (offs : Array Nat) (bound : Nat) : Nat → List (List Int) → List (List Item) → Prop
  | _, _, [] => True
  | lo, K, S :: rest =>
    (∀ q, lo ≤ q → q < lo + K.length → offs.getD (q + 1) 0 + 1 - offs.getD q 0 ≤ bound) ∧
      WideFrom offs bound (lo + K.length + 1) (S.map (·.key)) rest

theorem WideFrom.mono {offs : Array Nat} {b1 b2 : Nat} (h : b1 ≤ b2) :
    ∀ (Ss : List (List Item)) (lo : Nat) (K : List (List Int)), WideFrom offs b1 lo K Ss → WideFrom offs b2 lo K Ss
  | [], _, _, _ => trivial
  | S :: rest, lo, K, hw =>
    ⟨fun q h1 h2 => Nat.le_trans (hw.1 q h1 h2) h, WideFrom.mono h rest _ _ hw.2⟩

theorem Layout.size_ge {offs : Array Nat} {ids : Array Int} {logps logbs : Array LogP} {U : Nat} :
    ∀ (Ss : List (List Item)) (lo : Nat) (K : List (List Int)),
      Layout offs ids logps logbs U lo K Ss → lo + Ss.length ≤ offs.size
  | [], lo, _, h => by simp only [Layout] at h; simp [h]
  | S :: rest, lo, K, h => by
    have := Layout.size_ge rest _ _ h.2.2
    simp only [List.length_cons]
    omega

theorem foldl_max_ge : ∀ (l : List Nat) (s : Nat), s ≤ l.foldl max s ∧ ∀ x ∈ l, x ≤ l.foldl max s
  | [], s => ⟨Nat.le_refl _, fun _ h => by cases h⟩
  | a :: l, s => by
    obtain ⟨h1, h2⟩ := foldl_max_ge l (max s a)
    rw [List.foldl_cons]
    refine ⟨Nat.le_trans (Nat.le_max_left s a) h1, ?_⟩
    intro x hx
    rcases List.mem_cons.mp hx with rfl | hx
    · exact Nat.le_trans (Nat.le_max_right s x) h1
    · exact h2 x hx

theorem maxDirectLoop_ge (offs : Array Nat) : ∀ (fuel i s : Nat), s ≤ maxDirectLoop offs fuel i s
  | 0, _, _ => Nat.le_refl _
  | fuel + 1, i, s => by
    unfold maxDirectLoop
    split
    · exact Nat.le_trans (foldl_max_ge _ s).1 (maxDirectLoop_ge offs fuel _ _)
    · exact Nat.le_refl _

/-- `_infer_max_direct_descendants` hops from the first node of a level to the first node of
the next one and sees the width of every block on the way. -/
theorem maxDirectLoop_layout {offs : Array Nat} {ids : Array Int} {logps logbs : Array LogP} {U : Nat} :
    ∀ (Ss : List (List Item)) (lo : Nat) (K : List (List Int)) (fuel s : Nat),
      Layout offs ids logps logbs U lo K Ss → Ss.length ≤ fuel →
      WideFrom offs (maxDirectLoop offs fuel lo s) lo K Ss
  | [], _, _, _, _, _, _ => trivial
  | S :: rest, lo, K, fuel, s, h, hf => by
    obtain ⟨⟨ps, L⟩, hK, hrest⟩ := h
    cases fuel with
    | zero => simp at hf
    | succ fuel =>
      have hsz := Layout.size_ge rest _ _ hrest
      unfold maxDirectLoop
      rw [if_pos (by omega)]
      simp only
      rw [L.first_hop hK]
      have hj : lo + K.length + 1 - 1 - lo = K.length := by omega
      rw [hj]
      have hmax := foldl_max_ge ((List.range K.length).map
        (fun k => offs.getD (lo + k + 1) 0 + 1 - offs.getD (lo + k) 0)) s
      have hge := maxDirectLoop_ge offs fuel (lo + K.length + 1)
        (((List.range K.length).map
          (fun k => offs.getD (lo + k + 1) 0 + 1 - offs.getD (lo + k) 0)).foldl max s)
      refine ⟨?_, maxDirectLoop_layout rest _ _ fuel _ hrest (by simpa using hf)⟩
      intro q h1 h2
      refine Nat.le_trans (hmax.2 _ ?_) hge
      rw [List.mem_map]
      refine ⟨q - lo, List.mem_range.mpr (by omega), ?_⟩
      have e : lo + (q - lo) = q := by omega
      rw [e]

/-- `maxDirect` bounds every block of a model with at least one level above the unigrams. -/
theorem maxDirect_layout {offs : Array Nat} {ids : Array Int} {logps logbs : Array LogP} {U : Nat}
    (K : List (List Int)) (S : List Item) (rest : List (List Item))
    (h : Layout offs ids logps logbs U 0 K (S :: rest)) :
    WideFrom offs (maxDirect offs (K.length + 1)) 0 K (S :: rest) := by
  have hsz := Layout.size_ge _ _ _ h
  obtain ⟨⟨ps, L⟩, hK, hrest⟩ := h
  unfold maxDirect
  rw [if_neg (by simp only [List.length_cons] at hsz; omega)]
  simp only
  have e1 : K.length + 1 - 1 = K.length := by omega
  rw [e1]
  have hmax := foldl_max_ge ((List.range K.length).map
    (fun k => offs.getD (k + 1) 0 + 1 - offs.getD k 0)) 0
  have hge := maxDirectLoop_ge offs offs.size (K.length + 1)
    (((List.range K.length).map (fun k => offs.getD (k + 1) 0 + 1 - offs.getD k 0)).foldl max 0)
  constructor
  · intro q _ h2
    refine Nat.le_trans (hmax.2 _ ?_) hge
    rw [List.mem_map]
    exact ⟨q, List.mem_range.mpr (by omega), rfl⟩
  · have := maxDirectLoop_layout rest (0 + K.length + 1) (S.map (·.key)) offs.size
      (((List.range K.length).map (fun k => offs.getD (k + 1) 0 + 1 - offs.getD k 0)).foldl max 0)
      hrest (by simp only [List.length_cons] at hsz; omega)
    simpa using this

/-! ## what the lookup reaches -/

theorem reach_snoc {ν} (nav : Nav ν) (r : List Int) (hr : r ≠ []) (t : Int) :
    reach nav (r ++ [t]) = (reach nav r).bind (fun q => nav.child q t) := by
  cases r with
  | nil => exact absurd rfl hr
  | cons t0 rest =>
    simp only [List.cons_append, reach]
    rw [walkSt_snoc]
    cases hf : (walkSt nav t0 rest).2 with
    | false => simp [stepChild]
    | true =>
      simp only [stepChild, if_true]
      cases hc : nav.child (walkSt nav t0 rest).1 t with
      | none => simp [hc]
      | some d' => simp [hc]

/-- Key lengths of consecutive levels. -/
def KeyLens : Nat → List (List Item) → Prop
  | _, [] => True
  | m, S :: rest => (∀ e ∈ S, e.key.length = m) ∧ KeyLens (m + 1) rest

/-- The nodes of one level are reached along their reversed keys, and nothing else of that
length is reached. -/
def PosOK (nav : Nav Nat) (D : Int → Prop) (m lo : Nat) (K : List (List Int)) : Prop :=
  ∀ r : List Int, r.length = m → (∀ t ∈ r, D t) →
    (∀ j, K[j]? = some r → reach nav r = some (lo + j)) ∧ (r ∉ K → reach nav r = none)

theorem reach_next (b : Buffers) (U lo : Nat) (D : Int → Prop) (K : List (List Int)) (S : List Item)
    (ps : List Nat) (isTop : Bool) (L : LevelOK b.offsets b.ids b.logps b.logbs U lo K S ps isTop)
    (hK : K.Nodup)
    (hS : ∀ q, lo ≤ q → q < lo + K.length → b.offsets.getD (q + 1) 0 + 1 - b.offsets.getD q 0 ≤ b.S)
    (m : Nat) (hm : 1 ≤ m) (hlen : ∀ e ∈ S, e.key.length = m + 1)
    (hpos : PosOK (flatNav b U) D m lo K) :
    PosOK (flatNav b U) D (m + 1) (lo + K.length + 1) (S.map (·.key)) := by
  intro r hr hD
  have hne : r ≠ [] := by intro e; rw [e] at hr; simp at hr
  have hsplit := key_eq_dropLast_append r hne
  have hr' : r.dropLast.length = m := by simp [hr]
  have hne' : r.dropLast ≠ [] := by intro e; rw [e] at hr'; simp at hr'; omega
  have hD' : ∀ t ∈ r.dropLast, D t := fun t ht => hD t (List.dropLast_subset r ht)
  have hsn := reach_snoc (flatNav b U) r.dropLast hne' (r.getLastD 0)
  rw [← hsplit] at hsn
  obtain ⟨hp1, hp2⟩ := hpos r.dropLast hr' hD'
  have hS' : ∀ q, lo ≤ q → q < lo + K.length →
      ps.countP (fun x => decide (x < q + 1)) - ps.countP (fun x => decide (x < q)) ≤ b.S := by
    intro q h1 h2; rw [L.width q h1 h2]; exact hS q h1 h2
  by_cases hin : r.dropLast ∈ K
  · obtain ⟨j, hj⟩ := List.mem_iff_getElem?.mp hin
    have hcl := child_level b U lo K S ps isTop L hK hS' j r.dropLast hj (r.getLastD 0)
    rw [hp1 j hj, Option.bind_some] at hsn
    constructor
    · intro k hk
      rw [List.getElem?_map] at hk
      obtain ⟨e, he, hek⟩ := Option.map_eq_some_iff.mp hk
      obtain ⟨hkl, hke⟩ := List.getElem?_eq_some_iff.mp he
      rw [hsn]
      apply hcl.1 k hkl
      rw [hke, hek]; exact hsplit
    · intro hnot
      rw [hsn]
      apply hcl.2
      intro e he hek
      apply hnot
      rw [List.mem_map]
      exact ⟨e, he, by rw [hek]; exact hsplit.symm⟩
  · rw [hp2 hin, Option.bind_none] at hsn
    constructor
    · intro k hk
      exfalso
      rw [List.getElem?_map] at hk
      obtain ⟨e, he, hek⟩ := Option.map_eq_some_iff.mp hk
      obtain ⟨hkl, hke⟩ := List.getElem?_eq_some_iff.mp he
      obtain ⟨j, hj, _, _⟩ := L.par k hkl
      apply hin
      rw [← hek, ← hke]
      exact List.mem_iff_getElem?.mpr ⟨j, hj⟩
    · intro _; exact hsn

/-- **All levels**: every reversed key of every level above `(lo, K)` is reached at a node that
carries the item's values; nothing else is reached. -/
theorem reach_layout (b : Buffers) (U : Nat) (D : Int → Prop) :
    ∀ (Ss : List (List Item)) (lo : Nat) (K : List (List Int)) (m : Nat),
      Layout b.offsets b.ids b.logps b.logbs U lo K Ss → WideFrom b.offsets b.S lo K Ss →
      K.Nodup → 1 ≤ m → KeyLens (m + 1) Ss → PosOK (flatNav b U) D m lo K →
      ∀ r : List Int, m < r.length → r.length ≤ m + Ss.length → (∀ t ∈ r, D t) →
        (∀ e ∈ Ss.flatten, e.key = r → ∃ q, reach (flatNav b U) r = some q ∧
          b.logps.getD q LogP.nan = e.logp ∧
          (r.length < m + Ss.length → b.logbs.getD q LogP.nan = e.logb)) ∧
        ((∀ e ∈ Ss.flatten, e.key ≠ r) → reach (flatNav b U) r = none)
  | [], _, _, _, _, _, _, _, _, _, r, h1, h2, _ => by simp at h2; omega
  | S :: rest, lo, K, m, hlay, hwide, hK, hm, hlens, hpos, r, h1, h2, hD => by
    obtain ⟨⟨ps, L⟩, _, hrest⟩ := hlay
    have hnext := reach_next b U lo D K S ps rest.isEmpty L hK hwide.1 m hm hlens.1 hpos
    by_cases hrm : r.length = m + 1
    · -- this level
      obtain ⟨hn1, hn2⟩ := hnext r hrm hD
      have hinS : ∀ e ∈ (S :: rest).flatten, e.key = r → e ∈ S := by
        intro e he hek
        rw [List.flatten_cons, List.mem_append] at he
        rcases he with he | he
        · exact he
        · exfalso
          -- deeper levels have longer keys
          have : ∀ (Rs : List (List Item)) (n : Nat), KeyLens n Rs → ∀ e ∈ Rs.flatten, n ≤ e.key.length := by
            intro Rs
            induction Rs with
            | nil => intro n _ e he; simp at he
            | cons R Rs ih =>
              intro n hl e he
              rw [List.flatten_cons, List.mem_append] at he
              rcases he with he | he
              · rw [hl.1 e he]; exact Nat.le_refl _
              · have := ih (n + 1) hl.2 e he; omega
          have := this rest (m + 1 + 1) hlens.2 e he
          rw [hek] at this; omega
      constructor
      · intro e he hek
        have heS := hinS e he hek
        obtain ⟨k, hk, hSk⟩ := List.mem_iff_getElem.mp heS
        have hkk : (S.map (·.key))[k]? = some r := by
          rw [List.getElem?_map, List.getElem?_eq_getElem hk, hSk, Option.map_some, hek]
        refine ⟨lo + K.length + 1 + k, hn1 k hkk, ?_, ?_⟩
        · rw [L.logp k hk, hSk]
        · intro hlt
          have hnt : rest.isEmpty = false := by
            cases rest with
            | nil => simp at hlt; omega
            | cons _ _ => rfl
          rw [L.logb hnt k hk, hSk]
      · intro hnone
        apply hn2
        intro hmem
        rw [List.mem_map] at hmem
        obtain ⟨e, he, hek⟩ := hmem
        exact hnone e (by rw [List.flatten_cons]; exact List.mem_append_left _ he) hek
    · -- a deeper level
      have ih := reach_layout b U D rest (lo + K.length + 1) (S.map (·.key)) (m + 1) hrest hwide.2
        L.keysS (by omega) hlens.2 hnext r (by omega)
        (by simp only [List.length_cons] at h2; omega) hD
      have hnotS : ∀ e ∈ S, e.key ≠ r := by
        intro e he hek
        have := hlens.1 e he
        rw [hek] at this; omega
      constructor
      · intro e he hek
        rw [List.flatten_cons, List.mem_append] at he
        rcases he with he | he
        · exact absurd hek (hnotS e he)
        · obtain ⟨q, hq1, hq2, hq3⟩ := ih.1 e he hek
          refine ⟨q, hq1, hq2, ?_⟩
          intro hlt
          apply hq3
          simp only [List.length_cons] at hlt; omega
      · intro hnone
        apply ih.2
        intro e he
        exact hnone e (by rw [List.flatten_cons]; exact List.mem_append_right _ he)

end PdtVerif.NgramTrie
