import PdtVerif.Model.Batching
import PdtVerif.Spec.Batching
/-!
# Helper lemmas for C14 (core Lean only)

1. association-list dictionaries (`dget`/`dput`/`ddel`, `sortKey`);
2. the fold invariant of `BucketBatchSampler.__iter__` (DESIGN appendix A7);
3. the `Counter` / length prediction;
4. collation (`sortDesc`, `padSequence`), `extractWindow`, bucket parameters, torch's `BatchSampler`;
5. sessions (several live iterators over one loader): an operation only touches what it names.
-/
namespace PdtVerif.Batching

/-! ## 1. dictionaries -/
section Dict
variable {β : Type}

def keys (d : List (Nat × β)) : List Nat := d.map Prod.fst

@[simp] theorem keys_nil : keys ([] : List (Nat × β)) = [] := rfl
@[simp] theorem keys_cons (e : Nat × β) (d) : keys (e :: d) = e.1 :: keys d := rfl

theorem dget_dput_self (d : List (Nat × β)) (k : Nat) (v : β) : dget (dput d k v) k = some v := by
  induction d with
  | nil => simp [dput, dget]
  | cons e t ih =>
    obtain ⟨k', v'⟩ := e
    by_cases h : k' = k <;> simp [dput, dget, h, ih]

theorem dget_dput_other (d : List (Nat × β)) (k k' : Nat) (v : β) (hne : k' ≠ k) :
    dget (dput d k v) k' = dget d k' := by
  induction d with
  | nil => simp [dput, dget, Ne.symm hne]
  | cons e t ih =>
    obtain ⟨k₀, v₀⟩ := e
    by_cases h : k₀ = k
    · subst h
      simp [dput, dget, Ne.symm hne]
    · by_cases h2 : k₀ = k'
      · subst h2
        simp [dput, dget, hne]
      · simp [dput, dget, h, h2, ih]

theorem dget_eq_none_iff (d : List (Nat × β)) (k : Nat) : dget d k = none ↔ k ∉ keys d := by
  induction d with
  | nil => simp [dget]
  | cons e t ih =>
    obtain ⟨k₀, v₀⟩ := e
    by_cases h : k₀ = k
    · simp [dget, h]
    · have : ¬ k = k₀ := fun h' => h h'.symm
      simp [dget, h, ih, this]

theorem dget_some_mem {d : List (Nat × β)} {k : Nat} {v : β} (h : dget d k = some v) : (k, v) ∈ d := by
  induction d with
  | nil => simp [dget] at h
  | cons e t ih =>
    obtain ⟨k₀, v₀⟩ := e
    by_cases h0 : k₀ = k
    · simp [dget, h0] at h
      subst h0; subst h
      simp
    · simp [dget, h0] at h
      exact List.mem_cons_of_mem _ (ih h)

theorem mem_dget {d : List (Nat × β)} {k : Nat} {v : β} (hn : (keys d).Nodup) (h : (k, v) ∈ d) :
    dget d k = some v := by
  induction d with
  | nil => simp at h
  | cons e t ih =>
    obtain ⟨k₀, v₀⟩ := e
    simp only [keys_cons, List.nodup_cons] at hn
    rcases List.mem_cons.1 h with h1 | h1
    · cases h1
      simp [dget]
    · have : k₀ ≠ k := by
        intro hk
        subst hk
        exact hn.1 (List.mem_map.2 ⟨(k₀, v), h1, rfl⟩)
      simp [dget, this, ih hn.2 h1]

theorem mem_keys_dput (d : List (Nat × β)) (k k' : Nat) (v : β) :
    k' ∈ keys (dput d k v) ↔ k' = k ∨ k' ∈ keys d := by
  induction d with
  | nil => simp [dput]
  | cons e t ih =>
    obtain ⟨k₀, v₀⟩ := e
    by_cases h : k₀ = k
    · subst h
      simp [dput]
    · simp [dput, h, ih]
      constructor
      · rintro (h1 | h1 | h1) <;> simp [h1]
      · rintro (h1 | h1 | h1) <;> simp [h1]

theorem mem_dput {d : List (Nat × β)} {k : Nat} {v : β} {e : Nat × β} (h : e ∈ dput d k v) :
    e = (k, v) ∨ e ∈ d := by
  induction d with
  | nil => simpa [dput] using h
  | cons f t ih =>
    obtain ⟨k₀, v₀⟩ := f
    by_cases h0 : k₀ = k
    · simp [dput, h0] at h
      rcases h with h | h
      · exact Or.inl h
      · exact Or.inr (List.mem_cons_of_mem _ h)
    · simp [dput, h0] at h
      rcases h with h | h
      · exact Or.inr (by simp [h])
      · rcases ih h with h' | h'
        · exact Or.inl h'
        · exact Or.inr (List.mem_cons_of_mem _ h')

theorem mem_ddel {d : List (Nat × β)} {k : Nat} {e : Nat × β} (h : e ∈ ddel d k) : e ∈ d := by
  induction d with
  | nil => simp [ddel] at h
  | cons f t ih =>
    obtain ⟨k₀, v₀⟩ := f
    by_cases h0 : k₀ = k
    · simp [ddel, h0] at h
      exact List.mem_cons_of_mem _ h
    · simp [ddel, h0] at h
      rcases h with h | h
      · simp [h]
      · exact List.mem_cons_of_mem _ (ih h)

theorem mem_keys_ddel {d : List (Nat × β)} {k k' : Nat} (h : k' ∈ keys (ddel d k)) : k' ∈ keys d := by
  obtain ⟨e, he, rfl⟩ := List.mem_map.1 h
  exact List.mem_map.2 ⟨e, mem_ddel he, rfl⟩

theorem keys_dput_nodup {d : List (Nat × β)} (k : Nat) (v : β) (hn : (keys d).Nodup) :
    (keys (dput d k v)).Nodup := by
  induction d with
  | nil => simp [dput]
  | cons e t ih =>
    obtain ⟨k₀, v₀⟩ := e
    simp only [keys_cons, List.nodup_cons] at hn
    by_cases h : k₀ = k
    · subst h
      simpa [dput] using hn
    · simp only [dput, h, if_false, keys_cons, List.nodup_cons]
      refine ⟨?_, ih hn.2⟩
      intro hm
      rcases (mem_keys_dput t k k₀ v).1 hm with h1 | h1
      · exact h h1
      · exact hn.1 h1

theorem keys_ddel_nodup {d : List (Nat × β)} (k : Nat) (hn : (keys d).Nodup) :
    (keys (ddel d k)).Nodup := by
  induction d with
  | nil => simp [ddel]
  | cons e t ih =>
    obtain ⟨k₀, v₀⟩ := e
    simp only [keys_cons, List.nodup_cons] at hn
    by_cases h : k₀ = k
    · simpa [ddel, h] using hn.2
    · simp only [ddel, h, if_false, keys_cons, List.nodup_cons]
      exact ⟨fun hm => hn.1 (mem_keys_ddel hm), ih hn.2⟩

theorem dget_ddel_self {d : List (Nat × β)} (k : Nat) (hn : (keys d).Nodup) :
    dget (ddel d k) k = none := by
  induction d with
  | nil => simp [ddel, dget]
  | cons e t ih =>
    obtain ⟨k₀, v₀⟩ := e
    simp only [keys_cons, List.nodup_cons] at hn
    by_cases h : k₀ = k
    · subst h
      simpa [ddel, dget_eq_none_iff] using hn.1
    · simp [ddel, dget, h, ih hn.2]

theorem dget_ddel_other (d : List (Nat × β)) (k k' : Nat) (hne : k' ≠ k) :
    dget (ddel d k) k' = dget d k' := by
  induction d with
  | nil => simp [ddel]
  | cons e t ih =>
    obtain ⟨k₀, v₀⟩ := e
    by_cases h : k₀ = k
    · subst h
      simp [ddel, dget, Ne.symm hne]
    · by_cases h2 : k₀ = k'
      · subst h2
        simp [ddel, dget, hne]
      · simp [ddel, dget, h, h2, ih]

/-- Length after `dput`: one more iff the key is new. -/
theorem length_dput (d : List (Nat × β)) (k : Nat) (v : β) :
    (dput d k v).length = d.length + (if dget d k = none then 1 else 0) := by
  induction d with
  | nil => simp [dput, dget]
  | cons e t ih =>
    obtain ⟨k₀, v₀⟩ := e
    by_cases h : k₀ = k
    · simp [dput, dget, h]
    · simp [dput, dget, h, ih]
      omega

/-- Length after `ddel`: one fewer iff the key was present. -/
theorem length_ddel (d : List (Nat × β)) (k : Nat) :
    (ddel d k).length + (if dget d k = none then 0 else 1) = d.length := by
  induction d with
  | nil => simp [ddel, dget]
  | cons e t ih =>
    obtain ⟨k₀, v₀⟩ := e
    by_cases h : k₀ = k
    · simp [ddel, dget, h]
    · simp [ddel, dget, h]
      omega

end Dict

/-! ### sorting by key -/
section SortKey
variable {β : Type}

theorem insertKey_perm (e : Nat × β) (d : List (Nat × β)) : (insertKey e d).Perm (e :: d) := by
  induction d with
  | nil => simp [insertKey]
  | cons f t ih =>
    by_cases h : e.1 ≤ f.1
    · simp [insertKey, h]
    · simp only [insertKey, h, if_false]
      exact (List.Perm.cons f ih).trans (List.Perm.swap e f t)

theorem sortKey_perm (d : List (Nat × β)) : (sortKey d).Perm d := by
  induction d with
  | nil => simp [sortKey]
  | cons e t ih =>
    have : sortKey (e :: t) = insertKey e (sortKey t) := rfl
    rw [this]
    exact (insertKey_perm e _).trans (List.Perm.cons e ih)

theorem insertKey_sorted (e : Nat × β) (d : List (Nat × β))
    (hs : (keys d).Pairwise (· ≤ ·)) : (keys (insertKey e d)).Pairwise (· ≤ ·) := by
  induction d with
  | nil => simp [insertKey]
  | cons f t ih =>
    simp only [keys_cons, List.pairwise_cons] at hs
    by_cases h : e.1 ≤ f.1
    · simp only [insertKey, h, if_true, keys_cons, List.pairwise_cons]
      refine ⟨?_, hs.1, hs.2⟩
      intro k hk
      rcases List.mem_cons.1 hk with rfl | hk
      · exact h
      · exact Nat.le_trans h (hs.1 k hk)
    · simp only [insertKey, h, if_false, keys_cons, List.pairwise_cons]
      refine ⟨?_, ih hs.2⟩
      intro k hk
      have hp := (insertKey_perm e t).map Prod.fst
      have : k ∈ keys (e :: t) := hp.subset hk
      rcases List.mem_cons.1 this with rfl | hk'
      · omega
      · exact hs.1 k hk'

theorem sortKey_sorted (d : List (Nat × β)) : (keys (sortKey d)).Pairwise (· ≤ ·) := by
  induction d with
  | nil => simp [sortKey]
  | cons e t ih => exact insertKey_sorted e _ ih

/-- With distinct keys the flush order is strictly increasing in the bucket id. -/
theorem sortKey_strict (d : List (Nat × β)) (hn : (keys d).Nodup) :
    (keys (sortKey d)).Pairwise (· < ·) := by
  have hs := sortKey_sorted d
  have hn' : (keys (sortKey d)).Nodup := ((sortKey_perm d).map Prod.fst).nodup_iff.2 hn
  have := List.Pairwise.and hs hn'
  exact this.imp (fun ⟨h1, h2⟩ => Nat.lt_of_le_of_ne h1 h2)

end SortKey

open Spec

/-! ## 2. the fold invariant of `BucketBatchSampler.__iter__` -/

def pflat (d : List (Nat × List Nat)) : List Nat := (d.map Prod.snd).flatten

@[simp] theorem pflat_nil : pflat [] = [] := rfl
@[simp] theorem pflat_cons (e : Nat × List Nat) (d) : pflat (e :: d) = e.2 ++ pflat d := by
  simp [pflat]

theorem pendOf_cons (k₀ : Nat) (v₀ : List Nat) (t : List (Nat × List Nat)) (k : Nat) :
    pendOf ((k₀, v₀) :: t) k = if k₀ = k then v₀ else pendOf t k := by
  by_cases h : k₀ = k <;> simp [pendOf, dget, h]

/-- Removing bucket `k`'s entry removes exactly its pending list. -/
theorem pflat_ddel_perm (d : List (Nat × List Nat)) (k : Nat) :
    (pflat d).Perm (pendOf d k ++ pflat (ddel d k)) := by
  induction d with
  | nil => simp [pendOf, dget, ddel]
  | cons e t ih =>
    obtain ⟨k₀, v₀⟩ := e
    by_cases h : k₀ = k
    · simp [pendOf_cons, ddel, h]
    · simp only [pendOf_cons, ddel, h, if_false, pflat_cons]
      have := ih.append_left v₀
      refine this.trans ?_
      rw [← List.append_assoc, ← List.append_assoc]
      exact List.Perm.append_right _ List.perm_append_comm

/-- Appending `x` to bucket `k`'s pending list adds exactly `x`. -/
theorem pflat_dput_perm (d : List (Nat × List Nat)) (k x : Nat) :
    (pflat (dput d k (pendOf d k ++ [x]))).Perm (pflat d ++ [x]) := by
  induction d with
  | nil => simp [pendOf, dget, dput]
  | cons e t ih =>
    obtain ⟨k₀, v₀⟩ := e
    by_cases h : k₀ = k
    · simp only [pendOf_cons, dput, h, if_true, pflat_cons]
      rw [List.append_assoc, List.append_assoc]
      exact List.Perm.append_left _ List.perm_append_comm
    · simp only [pendOf_cons, dput, h, if_false, pflat_cons]
      rw [List.append_assoc]
      exact List.Perm.append_left _ ih

theorem proj_append (i2b : Nat → Option Nat) (h : Nat) (xs ys : List Nat) :
    proj i2b h (xs ++ ys) = proj i2b h xs ++ proj i2b h ys := by
  simp [proj]

theorem proj_single_self {i2b : Nat → Option Nat} {h x : Nat} (hx : i2b x = some h) :
    proj i2b h [x] = [x] := by
  simp [proj, hx]

theorem proj_single_other {i2b : Nat → Option Nat} {h h' x : Nat} (hx : i2b x = some h)
    (hne : h' ≠ h) : proj i2b h' [x] = [] := by
  simp [proj, hx, Ne.symm hne]

/-- DESIGN appendix A7: what holds after the loop consumed the prefix `xs`. -/
structure Inv (i2b : Nat → Option Nat) (b2s : Nat → Option Nat) (xs : List Nat) (s : St) : Prop where
  cover : (s.out.flatten ++ pflat s.pend).Perm xs
  nodup : (keys s.pend).Nodup
  full : ∀ b ∈ s.out, ∃ h n, b2s h = some n ∧ b.length = n ∧ 0 < n ∧
    (∀ x ∈ b, i2b x = some h) ∧ b.Sublist xs
  pend : ∀ h l, (h, l) ∈ s.pend → ∃ n, b2s h = some n ∧ 0 < l.length ∧ l.length < n ∧
    (∀ x ∈ l, i2b x = some h) ∧ l.Sublist xs
  suffix : ∀ h n, b2s h = some n → ∃ pre, proj i2b h xs = pre ++ pendOf s.pend h ∧ n ∣ pre.length

theorem Inv.init (i2b b2s) : Inv i2b b2s [] St.init :=
  { cover := by simp [St.init]
    nodup := by simp [St.init]
    full := by simp [St.init]
    pend := by simp [St.init]
    suffix := by
      intro h n _
      exact ⟨[], by simp [proj, pendOf, dget, St.init], by simp⟩ }

/-- Facts about the pending list of a bucket, read off the invariant. -/
theorem Inv.pendOf_facts {i2b b2s xs s} (inv : Inv i2b b2s xs s) (h : Nat) :
    (∀ x ∈ pendOf s.pend h, i2b x = some h) ∧ (pendOf s.pend h).Sublist xs := by
  unfold pendOf
  cases hg : dget s.pend h with
  | none => simp
  | some l =>
    obtain ⟨n, _, _, _, h4, h5⟩ := inv.pend h l (dget_some_mem hg)
    exact ⟨h4, h5⟩

theorem step_inv {i2b b2s xs s x s'} (inv : Inv i2b b2s xs s)
    (hs : step i2b b2s s x = .ok s') : Inv i2b b2s (xs ++ [x]) s' := by
  unfold step at hs
  cases hb : i2b x with
  | none => simp [hb] at hs
  | some h =>
    cases hn : b2s h with
    | none => simp [hb, hn] at hs
    | some n =>
      simp only [hb, hn] at hs
      obtain ⟨pf1, pf2⟩ := inv.pendOf_facts h
      have sub_ext : ∀ {l : List Nat}, l.Sublist xs → l.Sublist (xs ++ [x]) :=
        fun hl => hl.trans (List.sublist_append_left xs [x])
      by_cases h1 : n = (pendOf s.pend h ++ [x]).length
      · -- the batch is full: yield it, delete the entry
        rw [if_pos h1] at hs
        cases hs
        have hlen : n = (pendOf s.pend h).length + 1 := by simpa using h1
        refine ⟨?_, keys_ddel_nodup h inv.nodup, ?_, ?_, ?_⟩
        · -- cover
          have c1 := inv.cover
          have c2 := pflat_ddel_perm s.pend h
          simp only [List.flatten_append, List.flatten_cons, List.flatten_nil, List.append_nil]
          rw [List.perm_iff_count] at *
          intro a
          have := c1 a
          have := c2 a
          simp only [List.count_append] at *
          omega
        · intro b hbm
          rcases List.mem_append.1 hbm with hbm | hbm
          · obtain ⟨h', n', q1, q2, q3, q4, q5⟩ := inv.full b hbm
            exact ⟨h', n', q1, q2, q3, q4, sub_ext q5⟩
          · have : b = pendOf s.pend h ++ [x] := by simpa using hbm
            subst this
            refine ⟨h, n, hn, h1.symm, by omega, ?_, pf2.append (List.Sublist.refl [x])⟩
            intro y hy
            rcases List.mem_append.1 hy with hy | hy
            · exact pf1 y hy
            · have : y = x := by simpa using hy
              subst this; exact hb
        · intro h' l hm
          obtain ⟨n', q1, q2, q3, q4, q5⟩ := inv.pend h' l (mem_ddel hm)
          exact ⟨n', q1, q2, q3, q4, sub_ext q5⟩
        · intro h' n' hn'
          obtain ⟨pre, e1, e2⟩ := inv.suffix h' n' hn'
          by_cases hh : h' = h
          · subst hh
            have : n' = n := by rw [hn] at hn'; cases hn'; rfl
            subst this
            refine ⟨pre ++ (pendOf s.pend h' ++ [x]), ?_, ?_⟩
            · simp [proj_append, proj_single_self hb, e1, pendOf, dget_ddel_self h' inv.nodup]
            · rw [List.length_append, ← h1]
              exact (Nat.dvd_add_right e2).2 (Nat.dvd_refl _)
          · refine ⟨pre, ?_, e2⟩
            simp [proj_append, proj_single_other hb hh, e1, pendOf, dget_ddel_other _ _ _ hh]
      · rw [if_neg h1] at hs
        by_cases h2 : n < (pendOf s.pend h ++ [x]).length
        · rw [if_pos h2] at hs; cases hs
        · -- still short: store the extended list
          rw [if_neg h2] at hs
          cases hs
          have hlen : (pendOf s.pend h).length + 1 < n := by
            simp only [List.length_append, List.length_singleton] at h1 h2
            omega
          refine ⟨?_, keys_dput_nodup h _ inv.nodup, ?_, ?_, ?_⟩
          · have c1 := inv.cover
            have c2 := pflat_dput_perm s.pend h x
            rw [List.perm_iff_count] at *
            intro a
            have := c1 a
            have := c2 a
            simp only [List.count_append] at *
            omega
          · intro b hbm
            obtain ⟨h', n', q1, q2, q3, q4, q5⟩ := inv.full b hbm
            exact ⟨h', n', q1, q2, q3, q4, sub_ext q5⟩
          · intro h' l hm
            rcases mem_dput hm with he | he
            · cases he
              refine ⟨n, hn, by simp, by simpa using hlen, ?_, pf2.append (List.Sublist.refl [x])⟩
              intro y hy
              rcases List.mem_append.1 hy with hy | hy
              · exact pf1 y hy
              · have : y = x := by simpa using hy
                subst this; exact hb
            · obtain ⟨n', q1, q2, q3, q4, q5⟩ := inv.pend h' l he
              exact ⟨n', q1, q2, q3, q4, sub_ext q5⟩
          · intro h' n' hn'
            obtain ⟨pre, e1, e2⟩ := inv.suffix h' n' hn'
            by_cases hh : h' = h
            · subst hh
              refine ⟨pre, ?_, e2⟩
              simp [proj_append, proj_single_self hb, e1, pendOf, dget_dput_self]
            · refine ⟨pre, ?_, e2⟩
              simp [proj_append, proj_single_other hb hh, e1, pendOf, dget_dput_other _ _ _ _ hh]

theorem run_inv {i2b b2s} : ∀ {xs pre s s'}, Inv i2b b2s pre s →
    run i2b b2s s xs = (s', none) → Inv i2b b2s (pre ++ xs) s' := by
  intro xs
  induction xs with
  | nil =>
    intro pre s s' inv h
    simp [run] at h
    subst h
    simpa using inv
  | cons x xs ih =>
    intro pre s s' inv h
    simp only [run] at h
    cases hs : step i2b b2s s x with
    | error e => simp [hs] at h
    | ok s₁ =>
      simp only [hs] at h
      have := ih (step_inv inv hs) h
      simpa using this

/-! ## 3. the `Counter` and the predicted length -/

/-- `Counter.__getitem__` (0 when absent). -/
def cnt (c : List (Nat × Nat)) (h : Nat) : Nat := (dget c h).getD 0

theorem cnt_bump_self (c : List (Nat × Nat)) (h : Nat) : cnt (bump c h) h = cnt c h + 1 := by
  simp [cnt, bump, dget_dput_self]

theorem cnt_bump_other (c : List (Nat × Nat)) (h h' : Nat) (hne : h' ≠ h) :
    cnt (bump c h) h' = cnt c h' := by
  simp [cnt, bump, dget_dput_other _ _ _ _ hne]

/-- A sum over the items of a counter. -/
def sumG (g : Nat → Nat → Nat) : List (Nat × Nat) → Nat
  | [] => 0
  | (h, k) :: t => g h k + sumG g t

theorem sumG_dput (g : Nat → Nat → Nat) (hg : ∀ h, g h 0 = 0) (c : List (Nat × Nat)) (h v : Nat) :
    sumG g (dput c h v) + g h (cnt c h) = sumG g c + g h v := by
  induction c with
  | nil => simp [dput, sumG, cnt, dget, hg]
  | cons e t ih =>
    obtain ⟨k₀, v₀⟩ := e
    by_cases h0 : k₀ = h
    · subst h0
      simp [dput, sumG, cnt, dget]
      omega
    · have : cnt ((k₀, v₀) :: t) h = cnt t h := by simp [cnt, dget, h0]
      rw [this]
      simp only [dput, h0, if_false, sumG]
      omega

theorem sumG_congr {g g' : Nat → Nat → Nat} {c : List (Nat × Nat)}
    (h : ∀ e ∈ c, g e.1 e.2 = g' e.1 e.2) : sumG g c = sumG g' c := by
  induction c with
  | nil => rfl
  | cons e t ih =>
    obtain ⟨k₀, v₀⟩ := e
    simp only [sumG]
    rw [h (k₀, v₀) (by simp), ih (fun e he => h e (List.mem_cons_of_mem _ he))]

theorem sumG_add (g g' : Nat → Nat → Nat) (c : List (Nat × Nat)) :
    sumG (fun h k => g h k + g' h k) c = sumG g c + sumG g' c := by
  induction c with
  | nil => rfl
  | cons e t ih =>
    obtain ⟨k₀, v₀⟩ := e
    simp only [sumG, ih]
    omega

/-- Bucket size with a harmless default (only used where the size is known to exist). -/
def szOf (b2s : Nat → Option Nat) (h : Nat) : Nat := (b2s h).getD 1
def gDiv (b2s : Nat → Option Nat) (h k : Nat) : Nat := k / szOf b2s h
def gRem (b2s : Nat → Option Nat) (h k : Nat) : Nat := if k % szOf b2s h = 0 then 0 else 1

theorem succ_full {n k : Nat} (hn : 0 < n) (h : k % n + 1 = n) :
    (k + 1) / n = k / n + 1 ∧ (k + 1) % n = 0 := by
  rw [Nat.div_mod_unique hn]
  have := Nat.div_add_mod k n
  refine ⟨?_, hn⟩
  rw [Nat.mul_succ]
  omega

theorem succ_short {n k : Nat} (hn : 0 < n) (h : k % n + 1 < n) :
    (k + 1) / n = k / n ∧ (k + 1) % n = k % n + 1 := by
  rw [Nat.div_mod_unique hn]
  have := Nat.div_add_mod k n
  exact ⟨by omega, h⟩

theorem ceil_div {n k : Nat} (hn : 0 < n) :
    (k + n - 1) / n = k / n + (if k % n = 0 then 0 else 1) := by
  have h1 := Nat.div_add_mod k n
  have h2 := Nat.mod_lt k hn
  by_cases h : k % n = 0
  · simp only [h, if_true, Nat.add_zero]
    have : k + n - 1 = (n - 1) + n * (k / n) := by omega
    rw [this, Nat.add_mul_div_left _ _ hn, Nat.div_eq_of_lt (by omega)]
    omega
  · simp only [h, if_false]
    have : k + n - 1 = (k % n - 1) + n * (k / n + 1) := by rw [Nat.mul_succ]; omega
    rw [this, Nat.add_mul_div_left _ _ hn, Nat.div_eq_of_lt (by omega)]
    omega

theorem sumCounts_ok (b2s : Nat → Option Nat) (drop : Bool) (c : List (Nat × Nat))
    (hc : ∀ e ∈ c, ∃ n, b2s e.1 = some n ∧ 0 < n) :
    sumCounts b2s drop c = .ok (sumG (fun h k => perBucket drop k (szOf b2s h)) c) := by
  induction c with
  | nil => rfl
  | cons e t ih =>
    obtain ⟨k₀, v₀⟩ := e
    obtain ⟨n, hn, hpos⟩ := hc (k₀, v₀) (by simp)
    have := ih (fun e he => hc e (List.mem_cons_of_mem _ he))
    have hne : n ≠ 0 := by omega
    simp [sumCounts, hn, hne, this, sumG, szOf]

/-- The generator state and the counter after the same prefix. -/
structure LInv (b2s : Nat → Option Nat) (s : St) (c : List (Nat × Nat)) : Prop where
  nodup : (keys s.pend).Nodup
  nonempty : ∀ h l, (h, l) ∈ s.pend → l ≠ []
  outLen : s.out.length = sumG (gDiv b2s) c
  pendLen : s.pend.length = sumG (gRem b2s) c
  link : ∀ h n, b2s h = some n → 0 < n → (pendOf s.pend h).length = cnt c h % n
  sizes : ∀ e ∈ c, ∃ n, b2s e.1 = some n ∧ 0 < n

theorem LInv.init (b2s) : LInv b2s St.init [] :=
  { nodup := by simp [St.init]
    nonempty := by simp [St.init]
    outLen := by simp [St.init, sumG]
    pendLen := by simp [St.init, sumG]
    link := by intro h n _ _; simp [St.init, pendOf, dget, cnt]
    sizes := by simp }

theorem dget_none_iff_pendOf_nil {pend : List (Nat × List Nat)}
    (hne : ∀ h l, (h, l) ∈ pend → l ≠ []) (h : Nat) :
    dget pend h = none ↔ (pendOf pend h).length = 0 := by
  unfold pendOf
  cases hg : dget pend h with
  | none => simp
  | some l =>
    have := hne h l (dget_some_mem hg)
    simp [this]

theorem step_linv {i2b b2s s c x s' h} (inv : LInv b2s s c) (hb : i2b x = some h)
    (hs : step i2b b2s s x = .ok s') : LInv b2s s' (bump c h) := by
  unfold step at hs
  cases hn : b2s h with
  | none => simp [hb, hn] at hs
  | some n =>
    simp only [hb, hn] at hs
    have hsz : szOf b2s h = n := by simp [szOf, hn]
    have g0 : ∀ h, gDiv b2s h 0 = 0 := by intro h; simp [gDiv]
    have r0 : ∀ h, gRem b2s h 0 = 0 := by intro h; simp [gRem]
    have d1 := sumG_dput (gDiv b2s) g0 c h (cnt c h + 1)
    have d2 := sumG_dput (gRem b2s) r0 c h (cnt c h + 1)
    have hbump : bump c h = dput c h (cnt c h + 1) := rfl
    by_cases h1 : n = (pendOf s.pend h ++ [x]).length
    · rw [if_pos h1] at hs
      cases hs
      have hlen : n = (pendOf s.pend h).length + 1 := by simpa using h1
      have hpos : 0 < n := by omega
      have hl := inv.link h n hn hpos
      obtain ⟨a1, a2⟩ := succ_full hpos (by omega : cnt c h % n + 1 = n)
      refine ⟨keys_ddel_nodup h inv.nodup, fun h' l hm => inv.nonempty h' l (mem_ddel hm), ?_, ?_, ?_, ?_⟩
      · simp only [List.length_append, List.length_singleton, inv.outLen, hbump]
        simp only [gDiv, hsz] at d1 ⊢
        rw [a1] at d1
        simp only [gDiv] at *
        omega
      · have l1 := length_ddel s.pend h
        have l2 := dget_none_iff_pendOf_nil inv.nonempty h
        rw [hbump]
        simp only [gRem, hsz, a2] at d2
        have := inv.pendLen
        simp only [gRem] at *
        by_cases hz : dget s.pend h = none
        · have : cnt c h % n = 0 := by rw [← hl]; exact l2.1 hz
          simp [hz, this] at l1 d2 ⊢
          omega
        · have : cnt c h % n ≠ 0 := by
            intro h0; rw [← hl] at h0; exact hz (l2.2 h0)
          simp [hz, this] at l1 d2 ⊢
          omega
      · intro h' n' hn' hpos'
        by_cases hh : h' = h
        · subst hh
          have : n' = n := by rw [hn] at hn'; cases hn'; rfl
          subst this
          simp [pendOf, dget_ddel_self h' inv.nodup, cnt_bump_self, a2]
        · simp only [pendOf, dget_ddel_other _ _ _ hh, cnt_bump_other _ _ _ hh]
          exact inv.link h' n' hn' hpos'
      · intro e he
        rcases mem_dput he with he | he
        · cases he; exact ⟨n, hn, hpos⟩
        · exact inv.sizes e he
    · rw [if_neg h1] at hs
      by_cases h2 : n < (pendOf s.pend h ++ [x]).length
      · rw [if_pos h2] at hs; cases hs
      · rw [if_neg h2] at hs
        cases hs
        have hlen : (pendOf s.pend h).length + 1 < n := by
          simp only [List.length_append, List.length_singleton] at h1 h2
          omega
        have hpos : 0 < n := by omega
        have hl := inv.link h n hn hpos
        obtain ⟨a1, a2⟩ := succ_short hpos (by omega : cnt c h % n + 1 < n)
        refine ⟨keys_dput_nodup h _ inv.nodup, ?_, ?_, ?_, ?_, ?_⟩
        · intro h' l hm
          rcases mem_dput hm with he | he
          · cases he; simp
          · exact inv.nonempty h' l he
        · simp only [inv.outLen, hbump]
          simp only [gDiv, hsz] at d1 ⊢
          rw [a1] at d1
          simp only [gDiv] at *
          omega
        · have l1 := length_dput s.pend h (pendOf s.pend h ++ [x])
          have l2 := dget_none_iff_pendOf_nil inv.nonempty h
          rw [hbump]
          simp only [gRem, hsz, a2] at d2
          have := inv.pendLen
          simp only [gRem] at *
          by_cases hz : dget s.pend h = none
          · have : cnt c h % n = 0 := by rw [← hl]; exact l2.1 hz
            simp [hz, this] at l1 d2 ⊢
            omega
          · have : cnt c h % n ≠ 0 := by
              intro h0; rw [← hl] at h0; exact hz (l2.2 h0)
            simp [hz, this] at l1 d2 ⊢
            omega
        · intro h' n' hn' hpos'
          by_cases hh : h' = h
          · subst hh
            have : n' = n := by rw [hn] at hn'; cases hn'; rfl
            subst this
            simp [pendOf, dget_dput_self, cnt_bump_self, a2, ← hl]
          · simp only [pendOf, dget_dput_other _ _ _ _ hh, cnt_bump_other _ _ _ hh]
            exact inv.link h' n' hn' hpos'
        · intro e he
          rcases mem_dput he with he | he
          · cases he; exact ⟨n, hn, hpos⟩
          · exact inv.sizes e he

theorem step_ok_bucket {i2b b2s s x s'} (hs : step i2b b2s s x = .ok s') : ∃ h, i2b x = some h := by
  unfold step at hs
  cases hb : i2b x with
  | none => simp [hb] at hs
  | some h => exact ⟨h, rfl⟩

theorem run_linv {i2b b2s} : ∀ {xs s c s'}, LInv b2s s c → run i2b b2s s xs = (s', none) →
    ∃ c', counter i2b c xs = .ok c' ∧ LInv b2s s' c' := by
  intro xs
  induction xs with
  | nil =>
    intro s c s' inv h
    simp [run] at h
    subst h
    exact ⟨c, rfl, inv⟩
  | cons x xs ih =>
    intro s c s' inv h
    simp only [run] at h
    cases hs : step i2b b2s s x with
    | error e => simp [hs] at h
    | ok s₁ =>
      simp only [hs] at h
      obtain ⟨hb, hbe⟩ := step_ok_bucket hs
      obtain ⟨c', hc', inv'⟩ := ih (step_linv inv hbe hs) h
      exact ⟨c', by simp [counter, hbe, hc'], inv'⟩

theorem flush_length (pend : List (Nat × List Nat)) : (flush pend).length = pend.length := by
  simp [flush, (sortKey_perm pend).length_eq]

/-! ## 4. collation -/
section Collate
variable {α β : Type}

theorem insertDesc_perm (key : α → Nat) (x : α) (l : List α) : (insertDesc key x l).Perm (x :: l) := by
  induction l with
  | nil => simp [insertDesc]
  | cons y ys ih =>
    by_cases h : key x < key y
    · simp only [insertDesc, h, if_true]
      exact (List.Perm.cons y ih).trans (List.Perm.swap x y ys)
    · simp [insertDesc, h]

theorem sortDesc_perm (key : α → Nat) (l : List α) : (sortDesc key l).Perm l := by
  induction l with
  | nil => simp [sortDesc]
  | cons x xs ih =>
    have : sortDesc key (x :: xs) = insertDesc key x (sortDesc key xs) := rfl
    rw [this]
    exact (insertDesc_perm key x _).trans (List.Perm.cons x ih)

theorem insertDesc_sorted (key : α → Nat) (x : α) (l : List α)
    (hs : l.Pairwise (fun a b => key b ≤ key a)) :
    (insertDesc key x l).Pairwise (fun a b => key b ≤ key a) := by
  induction l with
  | nil => simp [insertDesc]
  | cons y ys ih =>
    simp only [List.pairwise_cons] at hs
    by_cases h : key x < key y
    · simp only [insertDesc, h, if_true, List.pairwise_cons]
      refine ⟨?_, ih hs.2⟩
      intro z hz
      rcases List.mem_cons.1 ((insertDesc_perm key x ys).subset hz) with rfl | hz'
      · omega
      · exact hs.1 z hz'
    · simp only [insertDesc, h, if_false, List.pairwise_cons]
      refine ⟨?_, hs.1, hs.2⟩
      intro z hz
      rcases List.mem_cons.1 hz with rfl | hz'
      · omega
      · have := hs.1 z hz'; omega

/-- `sorted(.., reverse=True)`: lengths are non-increasing. -/
theorem sortDesc_sorted (key : α → Nat) (l : List α) :
    (sortDesc key l).Pairwise (fun a b => key b ≤ key a) := by
  induction l with
  | nil => simp [sortDesc]
  | cons x xs ih => exact insertDesc_sorted key x _ ih

theorem length_le_maxLen {seqs : List (List β)} {s : List β} (h : s ∈ seqs) :
    s.length ≤ maxLen seqs := by
  induction seqs with
  | nil => simp at h
  | cons t ts ih =>
    have e : maxLen (t :: ts) = max t.length (maxLen ts) := rfl
    rw [e]
    rcases List.mem_cons.1 h with rfl | h'
    · exact Nat.le_max_left _ _
    · exact Nat.le_trans (ih h') (Nat.le_max_right _ _)

theorem padTo_take (pad : β) (T : Nat) (s : List β) : (padTo pad T s).take s.length = s := by
  simp [padTo]

theorem padTo_drop (pad : β) (T : Nat) (s : List β) :
    (padTo pad T s).drop s.length = List.replicate (T - s.length) pad := by
  simp [padTo]

theorem padTo_length (pad : β) {T : Nat} {s : List β} (h : s.length ≤ T) :
    (padTo pad T s).length = T := by
  simp [padTo]; omega

/-- Cutting every padded row back to its length returns the sequences. -/
theorem cutBack_padTo (pad : β) (T : Nat) (seqs : List (List β)) :
    cutBack (seqs.map (padTo pad T)) (seqs.map List.length) = seqs := by
  induction seqs with
  | nil => rfl
  | cons s ss ih =>
    simp only [List.map_cons, cutBack, List.zipWith_cons_cons, padTo_take] at ih ⊢
    rw [ih]

theorem cutBack_padSequence (pad : β) (seqs : List (List β)) :
    cutBack (padSequence pad seqs) (seqs.map List.length) = seqs :=
  cutBack_padTo pad _ seqs

theorem padCellsOk_padTo [DecidableEq β] (pad : β) (T : Nat) (seqs : List (List β)) :
    padCellsOk pad (seqs.map (padTo pad T)) (seqs.map List.length) = true := by
  induction seqs with
  | nil => rfl
  | cons s ss ih =>
    simp only [padCellsOk, List.map_cons, List.zipWith_cons_cons, List.all_cons, padTo_drop,
      Bool.and_eq_true] at ih ⊢
    refine ⟨?_, ih⟩
    simp

theorem padCellsOk_padSequence [DecidableEq β] (pad : β) (seqs : List (List β)) :
    padCellsOk pad (padSequence pad seqs) (seqs.map List.length) = true :=
  padCellsOk_padTo pad _ seqs

/-- All rows of the padded batch have the same length, that of the longest sequence. -/
theorem padSequence_row_length (pad : β) (seqs : List (List β)) :
    ∀ r ∈ padSequence pad seqs, r.length = maxLen seqs := by
  intro r hr
  obtain ⟨s, hs, rfl⟩ := List.mem_map.1 hr
  exact padTo_length pad (length_le_maxLen hs)

theorem padTo_getD (pad : β) (T : Nat) (s : List β) (t : Nat) :
    (padTo pad T s).getD t pad = s.getD t pad := by
  unfold padTo
  simp only [List.getD_eq_getElem?_getD, List.getElem?_append]
  by_cases h : t < s.length
  · simp [h]
  · have : s[t]? = none := by simp; omega
    simp [h, List.getElem?_replicate]
    split <;> rfl

/-- The time-first layout is the transpose of the batch-first one. -/
theorem padSequenceTF_eq (pad : β) (seqs : List (List β)) (t n : Nat) (ht : t < maxLen seqs)
    (hn : n < seqs.length) :
    ((padSequenceTF pad seqs).getD t []).getD n pad = ((padSequence pad seqs).getD n []).getD t pad := by
  simp [padSequenceTF, padSequence, List.getD_eq_getElem?_getD, ht, hn]
  rw [← List.getD_eq_getElem?_getD, ← List.getD_eq_getElem?_getD, padTo_getD]

theorem splitBySizes_flatten (ls : List (List β)) :
    splitBySizes (ls.map List.length) ls.flatten = ls := by
  induction ls with
  | nil => rfl
  | cons l t ih => simp [splitBySizes, ih]

theorem allSome_eq_some {γ} {l : List (Option γ)} {r : List γ} (h : allSome l = some r) :
    l = r.map some := by
  induction l generalizing r with
  | nil => simp [allSome] at h; subst h; rfl
  | cons x t ih =>
    cases x with
    | none => simp [allSome] at h
    | some v =>
      simp only [allSome, Option.map_eq_some_iff] at h
      obtain ⟨r', hr', rfl⟩ := h
      simp [ih hr']

theorem allSome_eq_none {γ} {l : List (Option γ)} (h : allSome l = none) : none ∈ l := by
  induction l with
  | nil => simp [allSome] at h
  | cons x t ih =>
    cases x with
    | none => simp
    | some v =>
      simp only [allSome, Option.map_eq_none_iff] at h
      exact List.mem_cons_of_mem _ (ih h)

/-! ### the collate sort is THE stable descending sort -/

theorem insertDesc_filter (key : α → Nat) (x : α) (l : List α) (k : Nat) :
    (insertDesc key x l).filter (fun a => key a == k)
      = if key x = k then x :: l.filter (fun a => key a == k) else l.filter (fun a => key a == k) := by
  induction l with
  | nil => by_cases hk : key x = k <;> simp [insertDesc, hk]
  | cons y ys ih =>
    by_cases h : key x < key y
    · simp only [insertDesc, h, if_true, List.filter_cons, ih]
      by_cases hk : key x = k
      · have hy : ¬ key y = k := by omega
        simp [hk, hy]
      · simp [hk]
    · simp only [insertDesc, h, if_false]
      by_cases hk : key x = k <;> simp [List.filter_cons, hk]

/-- Stability: within a class of equal keys the input order is kept. -/
theorem sortDesc_filter (key : α → Nat) (l : List α) (k : Nat) :
    (sortDesc key l).filter (fun a => key a == k) = l.filter (fun a => key a == k) := by
  induction l with
  | nil => simp [sortDesc]
  | cons x xs ih =>
    have : sortDesc key (x :: xs) = insertDesc key x (sortDesc key xs) := rfl
    rw [this, insertDesc_filter, ih]
    by_cases hk : key x = k <;> simp [hk]

theorem sortDesc_isStable (key : α → Nat) (l : List α) :
    Spec.IsStableDescSort key l (sortDesc key l) :=
  ⟨sortDesc_sorted key l, sortDesc_filter key l⟩

/-- Two descending lists with the same classes (each class in the same order) are equal. -/
theorem desc_classes_unique (key : α → Nat) : ∀ {s₁ s₂ : List α},
    s₁.Pairwise (fun a b => key b ≤ key a) → s₂.Pairwise (fun a b => key b ≤ key a) →
    (∀ k : Nat, s₁.filter (fun a => key a == k) = s₂.filter (fun a => key a == k)) → s₁ = s₂ := by
  intro s₁
  induction s₁ with
  | nil =>
    intro s₂ _ _ hc
    cases s₂ with
    | nil => rfl
    | cons b t =>
      have := hc (key b)
      simp at this
  | cons a t₁ ih =>
    intro s₂ h₁ h₂ hc
    cases s₂ with
    | nil =>
      have := hc (key a)
      simp at this
    | cons b t₂ =>
      simp only [List.pairwise_cons] at h₁ h₂
      have ha : a ∈ (b :: t₂).filter (fun x => key x == key a) := by
        rw [← hc (key a)]; simp
      have hb : b ∈ (a :: t₁).filter (fun x => key x == key b) := by
        rw [hc (key b)]; simp
      have hab : key a ≤ key b := by
        rcases List.mem_cons.1 (List.mem_filter.1 ha).1 with rfl | h
        · exact Nat.le_refl _
        · exact h₂.1 a h
      have hba : key b ≤ key a := by
        rcases List.mem_cons.1 (List.mem_filter.1 hb).1 with rfl | h
        · exact Nat.le_refl _
        · exact h₁.1 b h
      have hk : key b = key a := by omega
      have h0 := hc (key a)
      simp only [List.filter_cons, hk, beq_self_eq_true, if_true, List.cons.injEq] at h0
      obtain ⟨rfl, h0t⟩ := h0
      congr 1
      apply ih h₁.2 h₂.2
      intro k
      by_cases hka : key a = k
      · subst hka; exact h0t
      · have := hc k
        simpa [List.filter_cons, hka] using this

/-- **Uniqueness**: whatever satisfies the specification of the stable descending sort IS
`sortDesc` (Python's `sorted(seq, key=len, reverse=True)`). -/
theorem stableDescSort_unique (key : α → Nat) (l s : List α) (h : Spec.IsStableDescSort key l s) :
    s = sortDesc key l :=
  desc_classes_unique key h.1 (sortDesc_sorted key l)
    (fun k => (h.2 k).trans (sortDesc_filter key l k).symm)

/-! ### the time-first layout, read column by column, is the batch-first layout -/

theorem padTo_eq_map_range (pad : β) {T : Nat} {s : List β} (h : s.length ≤ T) :
    padTo pad T s = (List.range T).map (fun t => s.getD t pad) := by
  apply List.ext_getElem?
  intro i
  unfold padTo
  simp only [List.getElem?_append, List.getElem?_map, List.getElem?_replicate,
    List.getD_eq_getElem?_getD]
  by_cases hs : i < s.length
  · have hi : i < T := by omega
    simp [hs, hi]
  · by_cases hi : i < T
    · have h1 : i - s.length < T - s.length := by omega
      have h2 : s[i]? = none := by simp; omega
      simp [hs, hi, h1]
    · have h1 : ¬ i - s.length < T - s.length := by omega
      simp [hs, hi, h1]

theorem column_padSequenceTF (pad : β) (seqs : List (List β)) (n : Nat) (hn : n < seqs.length) :
    Spec.column n (padSequenceTF pad seqs) = padTo pad (maxLen seqs) seqs[n] := by
  rw [padTo_eq_map_range pad (length_le_maxLen (List.getElem_mem hn))]
  unfold Spec.column padSequenceTF
  rw [List.filterMap_map]
  have : ((fun row : List β => row[n]?) ∘ fun t => seqs.map (fun s => s.getD t pad))
      = fun t => some (seqs[n].getD t pad) := by
    funext t
    simp [List.getElem?_map, List.getElem?_eq_getElem hn]
  rw [this]
  induction List.range (maxLen seqs) with
  | nil => rfl
  | cons t ts ih => simp

/-- Reading a time-first padded batch entry by entry gives the batch-first padded batch. -/
theorem columns_padSequenceTF (pad : β) (seqs : List (List β)) :
    Spec.columns seqs.length (padSequenceTF pad seqs) = padSequence pad seqs := by
  unfold Spec.columns padSequence
  apply List.ext_getElem
  · simp
  · intro n h1 h2
    have hn : n < seqs.length := by simpa using h1
    simp only [List.getElem_map, List.getElem_range]
    exact column_padSequenceTF pad seqs n hn

/-- Shape of the time-first batch: `max_n len` time steps, each with one cell per batch entry. -/
theorem padSequenceTF_shape (pad : β) (seqs : List (List β)) :
    (padSequenceTF pad seqs).length = maxLen seqs ∧
    ∀ row ∈ padSequenceTF pad seqs, row.length = seqs.length := by
  refine ⟨by simp [padSequenceTF], ?_⟩
  intro row hr
  obtain ⟨t, _, rfl⟩ := List.mem_map.1 hr
  simp

end Collate

/-! ## 5. `extract_window` -/
section Window
variable {α : Type}

theorem window_core (dflt : α) (feat : List α) (frame left right : Nat) (hf : frame < feat.length) :
    List.replicate (left - frame) (feat.getD 0 dflt)
        ++ pySlice feat (frame - left) (frame + right + 1)
        ++ List.replicate (frame + right + 1 - feat.length) (feat.getD (feat.length - 1) dflt)
      = (List.range (left + right + 1)).map
          (fun i => feat.getD (clampIdx feat.length frame left i) dflt) := by
  apply List.ext_getElem?
  intro i
  simp only [List.getElem?_append, List.length_append, List.length_replicate, pySlice,
    List.length_drop, List.length_take, List.getElem?_replicate, List.getElem?_drop,
    List.getElem?_take, List.getElem?_map, clampIdx,
    List.getD_eq_getElem?_getD]
  by_cases hi : i < left + right + 1
  · have hr : (List.range (left + right + 1))[i]? = some i := by simp [hi]
    rw [hr]
    simp only [Option.map_some]
    by_cases h1 : i < left - frame
    · have h0 : i < left - frame + (min (frame + right + 1) feat.length - (frame - left)) := by omega
      have e : min (frame + i - left) (feat.length - 1) = 0 := by omega
      simp only [h0, h1, if_true, e]
    · by_cases h2 : i < left - frame + (min (frame + right + 1) feat.length - (frame - left))
      · have e : min (frame + i - left) (feat.length - 1) = frame - left + (i - (left - frame)) := by omega
        have e2 : frame - left + (i - (left - frame)) < frame + right + 1 := by omega
        have e3 : frame - left + (i - (left - frame)) < feat.length := by omega
        simp only [h1, h2, if_true, if_false, e, e2]
        simp [List.getElem?_eq_getElem e3]
      · have e : min (frame + i - left) (feat.length - 1) = feat.length - 1 := by omega
        have e4 : i - (left - frame + (min (frame + right + 1) feat.length - (frame - left)))
            < frame + right + 1 - feat.length := by omega
        simp only [h2, if_false, e4, if_true, e]
  · have hr : (List.range (left + right + 1))[i]? = none := by simp; omega
    have h0 : ¬ i < left - frame + (min (frame + right + 1) feat.length - (frame - left)) := by omega
    have e4 : ¬ i - (left - frame + (min (frame + right + 1) feat.length - (frame - left)))
            < frame + right + 1 - feat.length := by omega
    rw [hr]
    simp only [h0, e4, if_false, Option.map_none]

/-- The code's branch without padding is the padded formula with zero pads. -/
theorem extractWindow_eq (dflt : α) (feat : List α) (frame left right : Nat) (reverse : Bool) :
    extractWindow dflt feat frame left right reverse =
      (let w := List.replicate (left - frame) (feat.getD 0 dflt)
        ++ pySlice feat (frame - left) (frame + right + 1)
        ++ List.replicate (frame + right + 1 - feat.length) (feat.getD (feat.length - 1) dflt)
       if reverse then w.reverse else w) := by
  unfold extractWindow
  by_cases hc : frame < left ∨ frame + right + 1 > feat.length
  · simp only [hc, if_true]
  · have h1 : left - frame = 0 := by omega
    have h2 : frame + right + 1 - feat.length = 0 := by omega
    simp only [hc, if_false, h1, h2, List.replicate_zero, List.nil_append, List.append_nil]

end Window

section CollateMap
open Spec
theorem cutBack_padSequence_map {γ β : Type} (pad : β) (f : γ → List β) (l : List γ) :
    cutBack (padSequence pad (l.map f)) (l.map (fun a => (f a).length)) = l.map f := by
  have := cutBack_padSequence pad (l.map f)
  rw [List.map_map] at this
  exact this

theorem padCellsOk_padSequence_map {γ β : Type} [DecidableEq β] (pad : β) (f : γ → List β) (l : List γ) :
    padCellsOk pad (padSequence pad (l.map f)) (l.map (fun a => (f a).length)) = true := by
  have := padCellsOk_padSequence pad (l.map f)
  rw [List.map_map] at this
  exact this


end CollateMap

/-! ## 6. bucket parameters -/
section Params
open Spec

theorem bucketOfLen_cons (b : Nat) (t : List Nat) (l : Nat) :
    bucketOfLen (b :: t) l = (if b < l then 1 else 0) + bucketOfLen t l := by
  unfold bucketOfLen
  by_cases h : b < l <;> simp [h] <;> omega

theorem bucketOfLen_le_length (bs : List Nat) (l : Nat) : bucketOfLen bs l ≤ bs.length :=
  List.length_filter_le _ _

theorem sorted_bucket (bs : List Nat) (hs : bs.Pairwise (· < ·)) (l : Nat) :
    (∀ k b, k < bucketOfLen bs l → bs[k]? = some b → b < l) ∧
    (∀ k b, bucketOfLen bs l ≤ k → bs[k]? = some b → l ≤ b) := by
  induction bs with
  | nil => simp [bucketOfLen]
  | cons b t ih =>
    simp only [List.pairwise_cons] at hs
    obtain ⟨ih1, ih2⟩ := ih hs.2
    rw [bucketOfLen_cons]
    by_cases hb : b < l
    · simp only [hb, if_true]
      constructor
      · intro k c hk hc
        cases k with
        | zero => simp at hc; omega
        | succ k => exact ih1 k c (by omega) (by simpa using hc)
      · intro k c hk hc
        cases k with
        | zero => omega
        | succ k => exact ih2 k c (by omega) (by simpa using hc)
    · have h0 : bucketOfLen t l = 0 := by
        unfold bucketOfLen
        rw [List.length_eq_zero_iff, List.filter_eq_nil_iff]
        intro a ha
        have := hs.1 a ha
        simp; omega
      simp only [hb, if_false, h0]
      constructor
      · intro k c hk; omega
      · intro k c _ hc
        cases k with
        | zero => simp at hc; omega
        | succ k =>
          have hm : c ∈ t := List.mem_of_getElem? (by simpa using hc)
          have := hs.1 c hm
          omega

/-- Interval form of bucket purity for strictly increasing bounds whose last entry dominates
the length. -/
theorem bucket_interval (bs : List Nat) (hs : bs.Pairwise (· < ·)) (l : Nat)
    (hl : ∃ m, bs.getLast? = some m ∧ l ≤ m) :
    bucketOfLen bs l < bs.length ∧
    (∀ b, bs[bucketOfLen bs l]? = some b → l ≤ b) ∧
    (∀ k b, k < bucketOfLen bs l → bs[k]? = some b → b < l) := by
  obtain ⟨h1, h2⟩ := sorted_bucket bs hs l
  refine ⟨?_, fun b hb => h2 _ b (Nat.le_refl _) hb, h1⟩
  obtain ⟨m, hm, hlm⟩ := hl
  have hle := bucketOfLen_le_length bs l
  rcases Nat.lt_or_ge (bucketOfLen bs l) bs.length with h | h
  · exact h
  · exfalso
    have hne : bs ≠ [] := by intro h0; simp [h0] at hm
    have hpos : 0 < bs.length := List.length_pos_iff.2 hne
    have : bs[bs.length - 1]? = some m := by
      rw [List.getLast?_eq_getElem?] at hm; exact hm
    have := h1 (bs.length - 1) m (by omega) this
    omega

theorem dyn_size {Y B y : Nat} (hy : 0 < y) (hle : y ≤ Y) :
    B ≤ Y * B / y ∧ (Y * B / y) * y ≤ Y * B ∧ Y * B < (Y * B / y + 1) * y := by
  refine ⟨?_, Nat.div_mul_le_self _ _, ?_⟩
  · rw [Nat.le_div_iff_mul_le hy, Nat.mul_comm Y B]
    exact Nat.mul_le_mul_left B hle
  · generalize Y * B = m
    have h1 := Nat.div_add_mod m y
    have h2 := Nat.mod_lt m hy
    rw [Nat.add_mul, Nat.one_mul, Nat.mul_comm (m / y) y]
    omega
theorem insertNat_perm (x : Nat) (l : List Nat) : (insertNat x l).Perm (x :: l) := by
  induction l with
  | nil => simp [insertNat]
  | cons y t ih =>
    by_cases h : x ≤ y
    · simp [insertNat, h]
    · simp only [insertNat, h, if_false]
      exact (List.Perm.cons y ih).trans (List.Perm.swap x y t)

theorem isort_perm (l : List Nat) : (isort l).Perm l := by
  induction l with
  | nil => simp [isort]
  | cons x t ih =>
    have : isort (x :: t) = insertNat x (isort t) := rfl
    rw [this]
    exact (insertNat_perm x _).trans (List.Perm.cons x ih)

theorem insertNat_sorted (x : Nat) (l : List Nat) (hs : l.Pairwise (· ≤ ·)) :
    (insertNat x l).Pairwise (· ≤ ·) := by
  induction l with
  | nil => simp [insertNat]
  | cons y t ih =>
    simp only [List.pairwise_cons] at hs
    by_cases h : x ≤ y
    · simp only [insertNat, h, if_true, List.pairwise_cons]
      refine ⟨?_, hs.1, hs.2⟩
      intro z hz
      rcases List.mem_cons.1 hz with rfl | hz
      · exact h
      · exact Nat.le_trans h (hs.1 z hz)
    · simp only [insertNat, h, if_false, List.pairwise_cons]
      refine ⟨?_, ih hs.2⟩
      intro z hz
      rcases List.mem_cons.1 ((insertNat_perm x t).subset hz) with rfl | hz
      · omega
      · exact hs.1 z hz

theorem isort_sorted (l : List Nat) : (isort l).Pairwise (· ≤ ·) := by
  induction l with
  | nil => simp [isort]
  | cons x t ih => exact insertNat_sorted x _ ih

theorem mem_dedupAdj (l : List Nat) (x : Nat) : x ∈ dedupAdj l ↔ x ∈ l := by
  induction l using dedupAdj.induct with
  | case1 => simp [dedupAdj]
  | case2 a => simp [dedupAdj]
  | case3 a t ih =>
    rw [dedupAdj, if_pos rfl, ih]
    simp
  | case4 a b t h ih =>
    rw [dedupAdj, if_neg h, List.mem_cons, ih]
    simp

theorem dedupAdj_strict (l : List Nat) (hs : l.Pairwise (· ≤ ·)) : (dedupAdj l).Pairwise (· < ·) := by
  induction l using dedupAdj.induct with
  | case1 => simp [dedupAdj]
  | case2 a => simp [dedupAdj]
  | case3 a t ih =>
    rw [dedupAdj, if_pos rfl]
    exact ih (List.Pairwise.of_cons hs)
  | case4 a b t h ih =>
    rw [dedupAdj, if_neg h, List.pairwise_cons]
    refine ⟨?_, ih (List.Pairwise.of_cons hs)⟩
    intro z hz
    rw [mem_dedupAdj] at hz
    simp only [List.pairwise_cons] at hs
    have h1 := hs.1 b (by simp)
    rcases List.mem_cons.1 hz with rfl | hz
    · omega
    · have := hs.2.1 z hz
      omega

/-- In a non-decreasing list every element is at most the last. -/
theorem le_getLast_of_sorted {l : List Nat} (hs : l.Pairwise (· ≤ ·)) {m : Nat}
    (hm : l.getLast? = some m) : ∀ x ∈ l, x ≤ m := by
  induction l with
  | nil => simp
  | cons a t ih =>
    simp only [List.pairwise_cons] at hs
    intro x hx
    cases t with
    | nil =>
      simp at hm hx
      omega
    | cons b u =>
      have hm' : (b :: u).getLast? = some m := by simpa [List.getLast?_cons_cons] using hm
      have hmem : m ∈ (b :: u) := List.mem_of_getLast? hm'
      rcases List.mem_cons.1 hx with rfl | hx
      · exact hs.1 m hmem
      · exact ih hs.2 hm' x hx

/-- A non-decreasing list that contains an upper bound of itself ends with it. -/
theorem getLast_of_sorted_max {l : List Nat} (hs : l.Pairwise (· ≤ ·)) {M : Nat} (hM : M ∈ l)
    (hub : ∀ x ∈ l, x ≤ M) : l.getLast? = some M := by
  have hne : l ≠ [] := List.ne_nil_of_mem hM
  have h1 : l.getLast? = some (l.getLast hne) := List.getLast?_eq_some_getLast hne
  have h2 := le_getLast_of_sorted hs h1 M hM
  have h3 := hub _ (List.getLast_mem hne)
  rw [h1]
  congr 1
  omega

/-- What `_get_bucket_batch_sampler_params` guarantees about its bounds. -/
structure GoodBounds (lens bounds : List Nat) : Prop where
  strict : bounds.Pairwise (· < ·)
  top : ∃ M, bounds.getLast? = some M ∧ ∀ l ∈ lens, l ≤ M

theorem setLast_mem (l : List Nat) (v : Nat) (hne : l ≠ []) : v ∈ setLast l v := by
  cases l with
  | nil => exact absurd rfl hne
  | cons a t => simp [setLast]

theorem mem_setLast {l : List Nat} {v x : Nat} (h : x ∈ setLast l v) : x = v ∨ x ∈ l := by
  cases l with
  | nil => simp [setLast] at h
  | cons a t =>
    simp only [setLast, List.mem_append, List.mem_singleton] at h
    rcases h with h | h
    · exact Or.inr ((List.dropLast_sublist _).subset h)
    · exact Or.inl h

theorem bucketParams_good {lens : List Nat} {nb B : Nat} {dynamic : Bool} {p : BucketParams}
    (h : bucketParams lens nb B dynamic = .ok p) (hN : lens ≠ []) :
    GoodBounds lens p.bounds ∧ p.idx2bucket = lens.map (bucketOfLen p.bounds) ∧
    (dynamic = false → p.sizes = p.bounds.map (fun _ => B)) ∧
    (dynamic = true → (∀ b ∈ p.bounds, 0 < b) ∧
      p.sizes = p.bounds.map (fun b => p.bounds.getLastD 0 * B / b)) := by
  unfold bucketParams at h
  have hlen : lens.length ≠ 0 := by
    intro h0; exact hN (List.length_eq_zero_iff.1 h0)
  by_cases hnb : nb = 0
  · simp [hnb, hN] at h
  simp only [hnb, if_false, hlen] at h
  -- the maximum
  have hs := isort_sorted lens
  have hp := isort_perm lens
  have hlast : (isort lens).getLast? = some ((isort lens).getD (lens.length - 1) 0) := by
    rw [List.getLast?_eq_getElem?, hp.length_eq, List.getD_eq_getElem?_getD]
    have : lens.length - 1 < (isort lens).length := by rw [hp.length_eq]; omega
    simp [List.getElem?_eq_getElem this]
  generalize hM : (isort lens).getD (lens.length - 1) 0 = M at h hlast
  have hub : ∀ l ∈ lens, l ≤ M := fun l hl => le_getLast_of_sorted hs hlast l (hp.symm.subset hl)
  generalize hb0 : (List.range nb).map (fun n =>
      if lens.length / nb = 0 then M else (isort lens).getD ((n + 1) * (lens.length / nb) - 1) 0) = b0 at h
  have hb0ne : b0 ≠ [] := by
    rw [← hb0]; intro h0
    have := congrArg List.length h0
    simp at this; exact hnb this
  have hb0le : ∀ x ∈ b0, x ≤ M := by
    rw [← hb0]
    intro x hx
    obtain ⟨n, _, rfl⟩ := List.mem_map.1 hx
    by_cases he : lens.length / nb = 0
    · simp [he]
    · simp only [he, if_false, List.getD_eq_getElem?_getD]
      cases hg : (isort lens)[(n + 1) * (lens.length / nb) - 1]? with
      | none => simp
      | some v =>
        simp only [Option.getD_some]
        exact hub v (hp.subset (List.mem_of_getElem? hg))
  -- the de-duplicated, sorted bounds
  have hMmem : M ∈ dedupAdj (isort (setLast b0 M)) := by
    rw [mem_dedupAdj]
    exact (isort_perm _).symm.subset (setLast_mem b0 M hb0ne)
  have hble : ∀ x ∈ dedupAdj (isort (setLast b0 M)), x ≤ M := by
    intro x hx
    rw [mem_dedupAdj] at hx
    rcases mem_setLast ((isort_perm _).subset hx) with h1 | h1
    · omega
    · exact hb0le x h1
  have hstrict := dedupAdj_strict _ (isort_sorted (setLast b0 M))
  have good : GoodBounds lens (dedupAdj (isort (setLast b0 M))) :=
    ⟨hstrict, M, getLast_of_sorted_max (hstrict.imp (fun h => Nat.le_of_lt h)) hMmem hble, hub⟩
  cases dynamic with
  | false =>
    simp only [Bool.false_eq_true, if_false] at h
    cases h
    exact ⟨good, rfl, fun _ => rfl, fun h => by cases h⟩
  | true =>
    simp only [if_true] at h
    by_cases hz : (dedupAdj (isort (setLast b0 M))).any (fun b => b == 0) = true
    · simp [hz] at h
    · simp only [hz] at h
      cases h
      refine ⟨good, rfl, (fun h => by cases h), fun _ => ⟨?_, rfl⟩⟩
      intro b hb
      rcases Nat.eq_zero_or_pos b with h0 | h0
      · exfalso; apply hz
        rw [List.any_eq_true]
        exact ⟨b, hb, by simp [h0]⟩
      · exact h0

end Params

/-! ## 7. `torch.utils.data.BatchSampler` -/
section Plain

theorem chunksAux_nil {α} (n fuel : Nat) : chunksAux n fuel ([] : List α) = [] := by
  cases fuel <;> simp [chunksAux]

theorem chunksAux_length {α} {n : Nat} (hn : 0 < n) : ∀ (fuel : Nat) (l : List α), l.length ≤ fuel →
    (chunksAux n fuel l).length = (l.length + n - 1) / n ∧
    ((chunksAux n fuel l).filter (fun b => b.length == n)).length = l.length / n := by
  intro fuel
  induction fuel with
  | zero =>
    intro l hl
    have : l = [] := List.length_eq_zero_iff.1 (by omega)
    subst this
    simp [chunksAux, Nat.div_eq_of_lt (by omega : n - 1 < n)]
  | succ fuel ih =>
    intro l hl
    cases l with
    | nil => simp [chunksAux, Nat.div_eq_of_lt (by omega : n - 1 < n)]
    | cons a t =>
      have hd : ((a :: t).drop n).length ≤ fuel := by simp only [List.length_drop, List.length_cons] at hl ⊢; omega
      obtain ⟨i1, i2⟩ := ih _ hd
      simp only [chunksAux, List.isEmpty_cons, Bool.false_eq_true, if_false, List.length_cons, i1]
      simp only [List.length_drop, List.length_cons] at i1 i2 ⊢
      have e : t.length + 1 + n - 1 = t.length + n := by omega
      constructor
      · rw [e, Nat.add_div_right _ hn]
        by_cases hc : n ≤ t.length + 1
        · have : t.length + 1 - n + n - 1 = t.length := by omega
          rw [this]
        · have : t.length + 1 - n + n - 1 = n - 1 := by omega
          rw [this, Nat.div_eq_of_lt (by omega : n - 1 < n), Nat.div_eq_of_lt (by omega : t.length < n)]
      · rw [List.filter_cons]
        by_cases hc : n ≤ t.length + 1
        · have hk : ((a :: t).take n).length = n := by simp only [List.length_take, List.length_cons]; omega
          simp only [hk, beq_self_eq_true, if_true, List.length_cons, i2]
          have : t.length + 1 = (t.length + 1 - n) + n := by omega
          rw [this, Nat.add_div_right _ hn]
          congr 2
          omega
        · have hk : ((a :: t).take n).length ≠ n := by simp only [List.length_take, List.length_cons]; omega
          have hk' : (((a :: t).take n).length == n) = false := by simpa using hk
          simp only [hk', Bool.false_eq_true, if_false, i2]
          rw [Nat.div_eq_of_lt (by omega : t.length + 1 < n)]
          have : t.length + 1 - n = 0 := by omega
          simp [this]

/-- `len(BatchSampler)` is the number of batches it yields. -/
theorem plain_len {n : Nat} (hn : 0 < n) (drop : Bool) (order : List Nat) :
    (plainIter n drop order).length = plainLen n drop order.length := by
  obtain ⟨h1, h2⟩ := chunksAux_length hn order.length order (Nat.le_refl _)
  cases drop
  · simp [plainIter, plainLen, chunks, h1]
  · simp [plainIter, plainLen, chunks, h2]

/-- The chunks of `BatchSampler` concatenate to the sampler's output. -/
theorem chunksAux_flatten {α} {n : Nat} (hn : 0 < n) : ∀ (fuel : Nat) (l : List α), l.length ≤ fuel →
    (chunksAux n fuel l).flatten = l := by
  intro fuel
  induction fuel with
  | zero =>
    intro l hl
    have : l = [] := List.length_eq_zero_iff.mp (by omega)
    subst this; rfl
  | succ fuel ih =>
    intro l hl
    unfold chunksAux
    by_cases he : l.isEmpty
    · simp only [he, if_true]
      have : l = [] := by simpa using he
      subst this; rfl
    · simp only [he]
      have hne : l ≠ [] := by simpa using he
      have hpos : 0 < l.length := List.length_pos_iff.mpr hne
      have hd : (l.drop n).length ≤ fuel := by simp only [List.length_drop]; omega
      simp only [Bool.false_eq_true, if_false, List.flatten_cons, ih _ hd, List.take_append_drop]

end Plain

/-! ## 8. sessions: several live iterators over one loader (`Session.step` / `Session.exec`) -/
section Sessions

/-- An operation other than `next k` leaves iterator `k` as it is. -/
theorem Session.step_other (perm : Nat → List Nat) (op : IOp) (s : Session) (k : Nat) (x : LiveIter)
    (hk : s.iters[k]? = some x) (hop : op ≠ .next k) :
    (Session.step perm op s).2.iters[k]? = some x := by
  have hlt : k < s.iters.length := by
    rcases List.getElem?_eq_some_iff.mp hk with ⟨h, _⟩; exact h
  cases op with
  | serve => exact hk
  | setEpoch e => exact hk
  | len => exact hk
  | peek e => exact hk
  | newIter =>
    show (s.iters ++ [_])[k]? = some x
    rw [List.getElem?_append_left hlt]; exact hk
  | next k' =>
    have hne : k' ≠ k := fun h => hop (by rw [h])
    unfold Session.step
    simp only
    split
    · exact hk
    · show (s.iters.set k' _)[k]? = some x
      rw [List.getElem?_set_ne hne]; exact hk
    · show (s.iters.set k' _)[k]? = some x
      rw [List.getElem?_set_ne hne]; exact hk

/-- `next` on a started iterator: hands out `nextOf v j`, moves its own cursor, nothing else. -/
theorem Session.step_next_started (perm : Nat → List Nat) (s : Session) (k : Nat) (v : PassVal) (j : Nat)
    (hk : s.iters[k]? = some ⟨some v, j⟩) :
    Session.step perm (.next k) s
      = (.batch (nextOf v j), { s with iters := s.iters.set k ⟨some v, j + 1⟩ }) := by
  unfold Session.step
  simp only [hk]

/-- The first `next` of an iterator: the pass starts NOW (`Loader.serve` on the loader as it is). -/
theorem Session.step_next_fresh (perm : Nat → List Nat) (s : Session) (k p : Nat)
    (hk : s.iters[k]? = some ⟨none, p⟩) :
    Session.step perm (.next k) s
      = (.batch (nextOf (s.loader.serve perm).1 0),
         ⟨(s.loader.serve perm).2, s.iters.set k ⟨some (s.loader.serve perm).1, 1⟩⟩) := by
  unfold Session.step
  simp only [hk]

theorem deliveredBy_cons_self (k : Nat) (o : Out) (tr : List (IOp × Out)) :
    deliveredBy k ((IOp.next k, o) :: tr) = o :: deliveredBy k tr := by
  simp [deliveredBy]

theorem deliveredBy_cons_other (k : Nat) (op : IOp) (o : Out) (tr : List (IOp × Out))
    (h : op ≠ .next k) : deliveredBy k ((op, o) :: tr) = deliveredBy k tr := by
  simp [deliveredBy, h]

theorem deliveredBy_append (k : Nat) (a b : List (IOp × Out)) :
    deliveredBy k (a ++ b) = deliveredBy k a ++ deliveredBy k b := by
  simp [deliveredBy]

theorem Session.exec_append (perm : Nat → List Nat) : ∀ (a b : List IOp) (s : Session),
    Session.exec perm (a ++ b) s
      = ((Session.exec perm a s).1 ++ (Session.exec perm b (Session.exec perm a s).2).1,
         (Session.exec perm b (Session.exec perm a s).2).2) := by
  intro a
  induction a with
  | nil => intro b s; rfl
  | cons op a ih =>
    intro b s
    show ((op, _) :: (Session.exec perm (a ++ b) _).1, (Session.exec perm (a ++ b) _).2) = _
    rw [ih]
    rfl

/-- No script touches the constructor arguments or the sampler's configuration. -/
theorem Session.step_fixed (perm : Nat → List Nat) (op : IOp) (s : Session) :
    (Session.step perm op s).2.loader.cfg = s.loader.cfg ∧
    (Session.step perm op s).2.loader.sampler.cfg = s.loader.sampler.cfg := by
  cases op with
  | serve => exact ⟨rfl, rfl⟩
  | setEpoch e => exact ⟨rfl, rfl⟩
  | len => exact ⟨rfl, rfl⟩
  | peek e => exact ⟨rfl, rfl⟩
  | newIter => exact ⟨rfl, rfl⟩
  | next k =>
    unfold Session.step
    simp only
    split
    · exact ⟨rfl, rfl⟩
    · exact ⟨rfl, rfl⟩
    · exact ⟨rfl, rfl⟩

theorem Session.exec_fixed (perm : Nat → List Nat) : ∀ (ops : List IOp) (s : Session),
    (Session.exec perm ops s).2.loader.cfg = s.loader.cfg ∧
    (Session.exec perm ops s).2.loader.sampler.cfg = s.loader.sampler.cfg := by
  intro ops
  induction ops with
  | nil => intro s; exact ⟨rfl, rfl⟩
  | cons op ops ih =>
    intro s
    obtain ⟨a, b⟩ := Session.step_fixed perm op s
    obtain ⟨c, d⟩ := ih (Session.step perm op s).2
    exact ⟨c.trans a, d.trans b⟩

/-- An iterator whose first batch was not requested yet stays like that (and delivers nothing)
as long as the script does not call `next` on it. -/
theorem Session.exec_fresh (perm : Nat → List Nat) : ∀ (ops : List IOp) (s : Session) (k : Nat)
    (x : LiveIter), s.iters[k]? = some x → IOp.next k ∉ ops →
    deliveredBy k (Session.exec perm ops s).1 = [] ∧ (Session.exec perm ops s).2.iters[k]? = some x := by
  intro ops
  induction ops with
  | nil => intro s k x hk _; exact ⟨rfl, hk⟩
  | cons op ops ih =>
    intro s k x hk hn
    have hop : op ≠ .next k := fun h => hn (by rw [h]; exact List.mem_cons_self)
    have hn' : IOp.next k ∉ ops := fun h => hn (List.mem_cons_of_mem _ h)
    obtain ⟨i1, i2⟩ := ih (Session.step perm op s).2 k x (Session.step_other perm op s k x hk hop) hn'
    refine ⟨?_, i2⟩
    show deliveredBy k ((op, (Session.step perm op s).1)
        :: (Session.exec perm ops (Session.step perm op s).2).1) = _
    rw [deliveredBy_cons_other k op _ _ hop, i1]

/-- `m ≥ n` calls of `next` on a pass with `n` batches: the batches, then only StopIteration. -/
theorem nextOf_range (bs : List (List Nat)) (m : Nat) (hm : bs.length ≤ m) :
    (List.range m).map (fun i => Out.batch (nextOf (.ok (bs, none)) i))
      = bs.map (fun b => Out.batch (.ok (some b))) ++ List.replicate (m - bs.length) (Out.batch (.ok none)) := by
  apply List.ext_getElem?
  intro i
  simp only [List.getElem?_map, List.getElem?_append, List.length_map]
  by_cases h : i < bs.length
  · have h' : i < m := by omega
    simp [h, h', nextOf]
  · by_cases h2 : i < m
    · have h3 : i - bs.length < m - bs.length := by omega
      have h4 : bs[i]? = none := by simp; omega
      simp [h, h2, h3, nextOf]
    · have h3 : ¬ i - bs.length < m - bs.length := by omega
      simp [h, h2, h3]

end Sessions

/-! ## 9. views: a session + the flags stored on the loader and its data set -/
section Views

theorem View.exec_append (perm : Nat → List Nat) : ∀ (a b : List VOp) (v : View),
    View.exec perm (a ++ b) v
      = ((View.exec perm a v).1 ++ (View.exec perm b (View.exec perm a v).2).1,
         (View.exec perm b (View.exec perm a v).2).2) := by
  intro a
  induction a with
  | nil => intro b v; rfl
  | cons op a ih =>
    intro b v
    show ((op, _) :: (View.exec perm (a ++ b) _).1, (View.exec perm (a ++ b) _).2) = _
    rw [ih]
    rfl

/-- One trace entry per operation. -/
theorem View.exec_length (perm : Nat → List Nat) : ∀ (ops : List VOp) (v : View),
    (View.exec perm ops v).1.length = ops.length := by
  intro ops
  induction ops with
  | nil => intro v; rfl
  | cons op ops ih =>
    intro v
    show ((View.exec perm ops (View.step perm op v).2).1.length + 1) = ops.length + 1
    rw [ih]

theorem presentAfter_append (p : Present) (a b : List VOp) :
    presentAfter p (a ++ b) = presentAfter (presentAfter p a) b := by
  simp [presentAfter, List.foldl_append]

/-- The flags after a script are the fold of its assignments - whatever else the script does. -/
theorem View.exec_present (perm : Nat → List Nat) : ∀ (ops : List VOp) (v : View),
    (View.exec perm ops v).2.present = presentAfter v.present ops := by
  intro ops
  induction ops with
  | nil => intro v; rfl
  | cons op ops ih =>
    intro v
    show (View.exec perm ops (View.step perm op v).2).2.present = _
    rw [ih]
    cases op <;> rfl

/-- An assignment to a presentation attribute leaves the session (loader, sampler, iterators) as it
is; a `Session` operation acts on the session as `Session.step` does. -/
theorem View.exec_session (perm : Nat → List Nat) : ∀ (ops : List VOp) (v : View),
    (∀ d, VOp.setDrop d ∉ ops) →
    (View.exec perm ops v).2.session = (Session.exec perm (ioOps ops) v.session).2 := by
  intro ops
  induction ops with
  | nil => intro v _; rfl
  | cons op ops ih =>
    intro v h
    have h' : ∀ d, VOp.setDrop d ∉ ops := fun d hd => h d (List.mem_cons_of_mem _ hd)
    show (View.exec perm ops (View.step perm op v).2).2.session = _
    rw [ih _ h']
    cases op with
    | io o => rfl
    | assign a b => rfl
    | setDrop d => exact absurd List.mem_cons_self (h d)

end Views

/-! ## 10. The `Seeded` layer (`sampler.base_seed` reassigned) -/

theorem Seeded.exec_append (src : Nat → Nat → List Nat) : ∀ (a b : List SOp) (z : Seeded),
    Seeded.exec src (a ++ b) z
      = ((Seeded.exec src a z).1 ++ (Seeded.exec src b (Seeded.exec src a z).2).1,
         (Seeded.exec src b (Seeded.exec src a z).2).2) := by
  intro a
  induction a with
  | nil => intro b z; rfl
  | cons op a ih =>
    intro b z
    show ((op, _) :: (Seeded.exec src (a ++ b) _).1, (Seeded.exec src (a ++ b) _).2) = _
    rw [ih]
    rfl

theorem Seeded.exec_length (src : Nat → Nat → List Nat) : ∀ (ops : List SOp) (z : Seeded),
    (Seeded.exec src ops z).1.length = ops.length := by
  intro ops
  induction ops with
  | nil => intro z; rfl
  | cons op ops ih =>
    intro z
    show ((Seeded.exec src ops _).1.length + 1) = ops.length + 1
    rw [ih]

theorem Seeded.exec_seed (src : Nat → Nat → List Nat) : ∀ (ops : List SOp) (z : Seeded),
    (Seeded.exec src ops z).2.seed = seedAfter z.seed ops := by
  intro ops
  induction ops with
  | nil => intro z; rfl
  | cons op ops ih =>
    intro z
    show (Seeded.exec src ops (Seeded.step src op z).2).2.seed = _
    rw [ih]
    cases op <;> rfl

/-- No operation of the `View` language touches the epoch sampler's configuration or the batching
arguments other than the drop flag. -/
theorem View.step_fixed (perm : Nat → List Nat) (op : VOp) (v : View) :
    (View.step perm op v).2.session.loader.sampler.cfg = v.session.loader.sampler.cfg ∧
    (View.step perm op v).2.session.loader.cfg.lens = v.session.loader.cfg.lens ∧
    (View.step perm op v).2.session.loader.cfg.nb = v.session.loader.cfg.nb ∧
    (View.step perm op v).2.session.loader.cfg.B = v.session.loader.cfg.B ∧
    (View.step perm op v).2.session.loader.cfg.dynamic = v.session.loader.cfg.dynamic := by
  cases op with
  | io o =>
    have h := Session.exec_fixed perm [o] v.session
    have h1 : (Session.step perm o v.session).2.loader.cfg = v.session.loader.cfg := h.1
    have h2 : (Session.step perm o v.session).2.loader.sampler.cfg = v.session.loader.sampler.cfg := h.2
    exact ⟨h2, congrArg LoaderCfg.lens h1, congrArg LoaderCfg.nb h1, congrArg LoaderCfg.B h1,
      congrArg LoaderCfg.dynamic h1⟩
  | assign a b => exact ⟨rfl, rfl, rfl, rfl, rfl⟩
  | setDrop d => exact ⟨rfl, rfl, rfl, rfl, rfl⟩

theorem Seeded.exec_fixed (src : Nat → Nat → List Nat) : ∀ (ops : List SOp) (z : Seeded),
    (Seeded.exec src ops z).2.view.session.loader.sampler.cfg = z.view.session.loader.sampler.cfg ∧
    (Seeded.exec src ops z).2.view.session.loader.cfg.lens = z.view.session.loader.cfg.lens ∧
    (Seeded.exec src ops z).2.view.session.loader.cfg.nb = z.view.session.loader.cfg.nb ∧
    (Seeded.exec src ops z).2.view.session.loader.cfg.B = z.view.session.loader.cfg.B ∧
    (Seeded.exec src ops z).2.view.session.loader.cfg.dynamic = z.view.session.loader.cfg.dynamic := by
  intro ops
  induction ops with
  | nil => intro z; exact ⟨rfl, rfl, rfl, rfl, rfl⟩
  | cons op ops ih =>
    intro z
    have h := ih (Seeded.step src op z).2
    have hs : (Seeded.step src op z).2.view.session.loader.sampler.cfg = z.view.session.loader.sampler.cfg ∧
        (Seeded.step src op z).2.view.session.loader.cfg.lens = z.view.session.loader.cfg.lens ∧
        (Seeded.step src op z).2.view.session.loader.cfg.nb = z.view.session.loader.cfg.nb ∧
        (Seeded.step src op z).2.view.session.loader.cfg.B = z.view.session.loader.cfg.B ∧
        (Seeded.step src op z).2.view.session.loader.cfg.dynamic = z.view.session.loader.cfg.dynamic := by
      cases op with
      | v o => exact View.step_fixed (src z.seed) o z.view
      | setSeed s => exact ⟨rfl, rfl, rfl, rfl, rfl⟩
    show (Seeded.exec src ops (Seeded.step src op z).2).2.view.session.loader.sampler.cfg = _ ∧ _
    exact ⟨h.1.trans hs.1, h.2.1.trans hs.2.1, h.2.2.1.trans hs.2.2.1, h.2.2.2.1.trans hs.2.2.2.1,
      h.2.2.2.2.trans hs.2.2.2.2⟩

/-- What an operation does to the batch sampler's drop flag (audit F): only
`batch_sampler.drop_incomplete = d` writes it. -/
def SOp.dropOf : SOp → Bool → Bool
  | .v (.setDrop t), _ => t
  | _, d => d

/-- The drop flag stored after a script: the last value assigned, the initial one where none was. -/
def dropAfter (d : Bool) (script : List SOp) : Bool := script.foldl (fun d op => op.dropOf d) d

theorem Seeded.step_drop (src : Nat → Nat → List Nat) (op : SOp) (z : Seeded) :
    (Seeded.step src op z).2.view.session.loader.cfg.drop = op.dropOf z.view.session.loader.cfg.drop := by
  cases op with
  | setSeed s => rfl
  | v o =>
    cases o with
    | io o =>
      have h := (Session.exec_fixed (src z.seed) [o] z.view.session).1
      exact congrArg LoaderCfg.drop h
    | assign a b => rfl
    | setDrop d => rfl

/-- The drop flag after a script is the fold of its drop assignments - whatever else the script does
(passes, live iterators, `len()`, look-ups, seed / presentation assignments). -/
theorem Seeded.exec_drop (src : Nat → Nat → List Nat) : ∀ (ops : List SOp) (z : Seeded),
    (Seeded.exec src ops z).2.view.session.loader.cfg.drop = dropAfter z.view.session.loader.cfg.drop ops := by
  intro ops
  induction ops with
  | nil => intro z; rfl
  | cons op ops ih =>
    intro z
    show (Seeded.exec src ops (Seeded.step src op z).2).2.view.session.loader.cfg.drop = _
    rw [ih, Seeded.step_drop]
    rfl

/-- The presentation flags an operation of the `Seeded` language leaves behind. -/
def SOp.presentOf : SOp → Present → Present
  | .v o, p => o.apply p
  | .setSeed _, p => p

def presentAfterS (p : Present) (script : List SOp) : Present := script.foldl (fun p op => op.presentOf p) p

theorem Seeded.exec_present (src : Nat → Nat → List Nat) : ∀ (ops : List SOp) (z : Seeded),
    (Seeded.exec src ops z).2.view.present = presentAfterS z.view.present ops := by
  intro ops
  induction ops with
  | nil => intro z; rfl
  | cons op ops ih =>
    intro z
    show (Seeded.exec src ops (Seeded.step src op z).2).2.view.present = _
    rw [ih]
    cases op with
    | setSeed s => rfl
    | v o => cases o <;> rfl

end PdtVerif.Batching
