import PdtVerif.Model.SeqScoreWalk
import PdtVerif.Spec.SeqScore
/-! `fill_after_eos` (double cumulative sum) is "keep up to and including the first `eos`, then
fill" (core Lean only). -/
namespace PdtVerif.SeqScore

/-- The double-cumsum pipeline with both running sums started anywhere. -/
def fillAux {α} [BEq α] (eos fill : α) (a1 a2 : Nat) (tok : List α) : List α :=
  List.zipWith (fun c t => if c > 1 then fill else t)
    (cumsumFrom a2 ((cumsumFrom a1 (tok.map (fun h => (h == eos).toNat))).map (fun c => min c 1)))
    tok

theorem fillAux_cons {α} [BEq α] (eos fill : α) (a1 a2 : Nat) (h : α) (tok : List α) :
    fillAux eos fill a1 a2 (h :: tok) =
      (if a2 + min (a1 + (h == eos).toNat) 1 > 1 then fill else h) ::
        fillAux eos fill (a1 + (h == eos).toNat) (a2 + min (a1 + (h == eos).toNat) 1) tok := by
  simp [fillAux, cumsumFrom]

/-- Once an `eos` has been counted, every later cell is filled. -/
theorem fillAux_after {α} [BEq α] (eos fill : α) (a1 a2 : Nat) (h1 : 1 ≤ a1) (h2 : 1 ≤ a2)
    (tok : List α) : fillAux eos fill a1 a2 tok = List.replicate tok.length fill := by
  induction tok generalizing a1 a2 with
  | nil => simp [fillAux]
  | cons h tok ih =>
    rw [fillAux_cons]
    have hm : min (a1 + (h == eos).toNat) 1 = 1 := by omega
    rw [hm, ih _ _ (by omega) (by omega)]
    have : a2 + 1 > 1 := by omega
    simp [this, List.replicate_succ]

/-- **`fill_after_eos`**: the tokens up to and including the first `eos` are kept, every later
cell holds `fill`. -/
theorem fillAfterEos_eq {α} [BEq α] [LawfulBEq α] (tok : List α) (eos fill : α) :
    fillAfterEos tok eos fill =
      tok.take (tok.idxOf eos + 1) ++ List.replicate (tok.length - (tok.idxOf eos + 1)) fill := by
  have hstart : fillAfterEos tok eos fill = fillAux eos fill 0 0 tok := rfl
  rw [hstart]
  clear hstart
  induction tok with
  | nil => simp [fillAux]
  | cons h tok ih =>
    rw [fillAux_cons]
    by_cases he : h = eos
    · subst he
      simp only [beq_self_eq_true, Bool.toNat_true, Nat.zero_add, Nat.min_self]
      rw [fillAux_after _ _ 1 1 (by omega) (by omega)]
      simp [List.idxOf_cons]
    · have hb : (h == eos) = false := by simpa using he
      simp only [hb, Bool.toNat_false, Nat.add_zero, Nat.zero_le, Nat.min_eq_left]
      rw [ih]
      simp [List.idxOf_cons, hb]

theorem fillAfterEos_eq_spec (s : List Nat) (e : Nat) : fillAfterEos s e e = Spec.fillSpec e s := by
  rw [fillAfterEos_eq]; rfl

end PdtVerif.SeqScore
