import PdtVerif.Lemmas.CheckpointFormats
/-!
# C16 lemmas: the optimizer's hyper-parameters are part of what is saved

`Content.optim` carries an `Opt = ⟨t, lr⟩`; `update_for_epoch(e)` writes the reduced learning rate
into the optimizer BEFORE it saves (`Train.step = applyLr ∘ fit`). Here:

* what `U` says about the learning rate (`lrAt_succ_of_red`, `lrAt_succ_of_none`, closed form
  `lrAt_eq_sched` for a training that leaves the learning rate alone);
* `Rec` pins the optimizer FILES of the last and the best epoch, learning rate included
  (`files_of_load`, `c16_saved_lr`);
* the process that resumes holds exactly the uninterrupted run's state in memory, at the start and at
  the end of the final session (`c16_resume_memory`, `afterCrashes`);
* the order "write the learning rate, then save" is necessary (`c16_lr_order_necessary`).
-/
namespace PdtVerif.Checkpoint

/-! ## the learning rate of the uninterrupted run -/

/-- The learning-rate column of the uninterrupted history: the value the last reduction wrote,
`0` (the initial one) before the first. -/
def lrSched (red : Nat → Option Nat) : Nat → Nat
  | 0 => 0
  | e + 1 => (red (e + 1)).getD (lrSched red e)

/-- The user's training leaves the optimizer's learning rate alone (no scheduler of its own). -/
def FitKeepsLr (tr : Train) : Prop := ∀ e s, (tr.fit e s).2.lr = s.2.lr

theorem withLr_t (o : Opt) (r : Option Nat) : (o.withLr r).t = o.t := by cases r <;> rfl

theorem step_fst (tr : Train) (e : Nat) (s : St) : (tr.step e s).1 = (tr.fit e s).1 := rfl

theorem step_t (tr : Train) (e : Nat) (s : St) : (tr.step e s).2.t = (tr.fit e s).2.t := by
  simp [Train.step, applyLr, withLr_t]

theorem lrAt_zero (tr : Train) : lrAt tr 0 = 0 := rfl

/-- A reduction at epoch `e+1` IS the learning rate of the state saved for `e+1`. -/
theorem lrAt_succ_of_red {tr : Train} {e l : Nat} (h : tr.red (e + 1) = some l) :
    lrAt tr (e + 1) = l := by
  simp [lrAt, U, Train.step, applyLr, h, Opt.withLr]

theorem lrAt_succ_of_none {tr : Train} {e : Nat} (h : tr.red (e + 1) = none) :
    lrAt tr (e + 1) = (tr.fit (e + 1) (U tr e)).2.lr := by
  simp [lrAt, U, Train.step, applyLr, h, Opt.withLr]

theorem lrAt_eq_sched {tr : Train} (hf : FitKeepsLr tr) : ∀ e, lrAt tr e = lrSched tr.red e := by
  intro e
  induction e with
  | zero => rfl
  | succ e ih =>
    cases h : tr.red (e + 1) with
    | some l => rw [lrAt_succ_of_red h]; simp [lrSched, h]
    | none =>
      rw [lrAt_succ_of_none h, hf]
      simp only [lrSched, h, Option.getD_none]
      exact ih

/-! ## `Rec` is a statement about the files -/

theorem files_of_load {P : Params} {d : Disk} {e : Nat} {s : St} (he : e ≠ 0)
    (h : loadState P d e = some s) :
    d.files.get (P.mpath e) = some (.model s.1) ∧ d.files.get (P.opath e) = some (.optim s.2) := by
  unfold loadState at h
  rw [if_neg he] at h
  split at h
  · rename_i w o hm ho
    cases h
    exact ⟨hm, ho⟩
  · cases h

/-- On a recoverable disk the optimizer files of the last and of the best recorded epoch hold the
optimizer state of the uninterrupted run — per-parameter state AND learning rate. -/
theorem c16_saved_lr {P : Params} {vals : List (Option Int)} {tr : Train} {d : Disk} {k : Nat}
    (h : RecAt P vals tr d k) (e : Nat) (he : e = k ∨ e = bestOf (vals.take k)) (h1 : 1 ≤ e) :
    ∃ o, d.files.get (P.opath e) = some (.optim o) ∧ o = (U tr e).2 ∧ o.lr = lrAt tr e ∧
      (∀ l, tr.red e = some l → o.lr = l) := by
  have hl : loadState P d e = some (U tr e) := by
    rcases he with rfl | rfl
    · exact h.2.2.2.1
    · exact h.2.2.2.2
  refine ⟨(U tr e).2, (files_of_load (by omega) hl).2, rfl, rfl, ?_⟩
  intro l hl'
  obtain ⟨e', rfl⟩ : ∃ e', e = e' + 1 := ⟨e - 1, by omega⟩
  exact lrAt_succ_of_red hl'

/-! ## the state a resumed process holds in memory -/

/-- The disk after the killed sessions of a schedule (before the final session). -/
def afterCrashes (Q : Quirks) (P : Params) (vals : List (Option Int)) (tr : Train) (d : Disk) :
    List (Nat × Nat × Bool) → Disk
  | [] => d
  | (j, i, torn) :: rest => afterCrashes Q P vals tr (crashSession Q P vals tr d j i torn) rest

theorem faulty_eq_runToEnd (Q : Quirks) (P : Params) (vals : List (Option Int)) (tr : Train) (d : Disk)
    (sched : List (Nat × Nat × Bool)) :
    faulty Q P vals tr d sched = runToEnd Q P vals tr (afterCrashes Q P vals tr d sched) := by
  induction sched generalizing d with
  | nil => rfl
  | cons x rest ih => obtain ⟨j, i, torn⟩ := x; exact ih _

theorem rec_afterCrashes {P : Params} (vals : List (Option Int)) (hs : SafeFmt P vals) (tr : Train)
    (d : Disk) (hrec : Rec P vals tr d) (sched : List (Nat × Nat × Bool)) :
    Rec P vals tr (afterCrashes Quirks.fixed P vals tr d sched) := by
  induction sched generalizing d with
  | nil => exact hrec
  | cons x rest ih =>
    obtain ⟨j, i, torn⟩ := x
    exact ih _ (c16_rec_crashSession vals hs tr d hrec j i torn)

/-- A session started on a recoverable disk holds, right after its load, exactly the state the
uninterrupted run had after the last recorded epoch, and, after running to the end, exactly the
uninterrupted run's final state — model, per-parameter optimizer state and learning rate. -/
theorem c16_resume_memory {P : Params} (vals : List (Option Int)) (hs : SafeFmt P vals) (tr : Train)
    (d : Disk) (hrec : Rec P vals tr d) :
    ∃ k d', k ≤ vals.length ∧ startSession P d = some (k, U tr k) ∧
      runLoop Quirks.fixed P vals tr (vals.length - k) k (U tr k) d = (vals.length, U tr vals.length, d') ∧
      runToEnd Quirks.fixed P vals tr d = d' ∧ RecAt P vals tr d' vals.length := by
  obtain ⟨k, hk⟩ := hrec
  have hk : RecAt P vals tr d k := hk
  have hkl : k ≤ vals.length := hk.2.2.1
  obtain ⟨d', hr, h'⟩ := runLoop_of_RecAt hs (vals.length - k) k d hk (by omega)
  have e : k + (vals.length - k) = vals.length := by omega
  rw [e] at hr h'
  refine ⟨k, d', hkl, startSession_of_RecAt hk, hr, ?_, h'⟩
  simp only [runToEnd, startSession_of_RecAt hk, hr]

/-! ## the order is necessary -/

/-- `tr` without the reduction of epoch `e0`. -/
def Train.noRedAt (tr : Train) (e0 : Nat) : Train :=
  ⟨tr.fit, fun e => if e = e0 then none else tr.red e⟩

theorem U_noRedAt (tr : Train) (e0 : Nat) : ∀ e, e < e0 → U (tr.noRedAt e0) e = U tr e := by
  intro e
  induction e with
  | zero => intro _; rfl
  | succ e ih =>
    intro h
    have hne : e + 1 ≠ e0 := by omega
    have ih' := ih (by omega)
    show (tr.noRedAt e0).step (e + 1) (U (tr.noRedAt e0) e) = tr.step (e + 1) (U tr e)
    rw [ih']
    simp only [Train.step, applyLr, Train.noRedAt, if_neg hne]

theorem step_noRedAt (tr : Train) (k : Nat) (s : St) :
    (tr.noRedAt (k + 1)).step (k + 1) s = tr.fit (k + 1) s := by
  simp [Train.step, applyLr, Train.noRedAt, Opt.withLr]

theorem RecAt_noRedAt {P : Params} {vals : List (Option Int)} {tr : Train} {d : Disk} {k : Nat}
    (h : RecAt P vals tr d k) : RecAt P vals (tr.noRedAt (k + 1)) d k := by
  obtain ⟨h1, h2, h3, h4, h5⟩ := h
  have hb := bestOf_take_le vals k
  refine ⟨h1, h2, h3, ?_, ?_⟩
  · rw [U_noRedAt tr (k + 1) k (by omega)]; exact h4
  · rw [U_noRedAt tr (k + 1) _ (by omega)]; exact h5

/-- **The learning rate must be written before the checkpoint is taken.** A checkpoint-first update
of a recoverable disk in which the plateau rule fires (`red (k+1) = some l`, a real change), done in
the other order (`updateLrLate`): the process ends up holding the right state in memory, `k+1`
epochs are recorded, but the optimizer saved for epoch `k+1` still has the old learning rate — a
controller started now does not get what an uninterrupted run has at that epoch. -/
theorem c16_lr_order_necessary {P : Params} {vals : List (Option Int)} {tr : Train} {d : Disk} {k : Nat}
    (hrec : RecAt P vals tr d k) (hlt : k < vals.length) (hs : SafeAt P vals k) (hsep : Sep P vals k)
    {l : Nat} (hred : tr.red (k + 1) = some l) (hne : (tr.fit (k + 1) (U tr k)).2.lr ≠ l) :
    ∃ d', updateLrLate Quirks.fixed P vals tr k (U tr k) d = .ok (d', U tr (k + 1)) ∧
      recorded d' = some (k + 1) ∧
      loadState P d' (k + 1) = some (tr.fit (k + 1) (U tr k)) ∧
      ¬ Rec P vals tr d' := by
  have hp := plan_safe hs d (tr.fit (k + 1) (U tr k))
  have hp' : planUpdate Quirks.fixed P vals k d
      ((tr.noRedAt (k + 1)).step (k + 1) (U (tr.noRedAt (k + 1)) k)) =
      .ok (saveOps P d (k + 1) (tr.fit (k + 1) (U tr k)) ++ histOps Quirks.fixed d (k + 1),
        cleanSet P vals k d) := by
    rw [step_noRedAt, U_noRedAt tr (k + 1) k (by omega)]; exact hp
  have hfull := c16_rec_full vals (tr.noRedAt (k + 1)) d k (RecAt_noRedAt hrec) hlt hs hsep _ _ hp' _
    (fun _ h => h)
  have hload : loadState P (exec d (opsOf (saveOps P d (k + 1) (tr.fit (k + 1) (U tr k)) ++
      histOps Quirks.fixed d (k + 1)) (cleanSet P vals k d))) (k + 1) =
      some (tr.fit (k + 1) (U tr k)) := by
    have := hfull.2.2.2.1
    rw [show U (tr.noRedAt (k + 1)) (k + 1) =
      (tr.noRedAt (k + 1)).step (k + 1) (U (tr.noRedAt (k + 1)) k) from rfl,
      step_noRedAt, U_noRedAt tr (k + 1) k (by omega)] at this
    exact this
  refine ⟨_, ?_, hfull.1, hload, ?_⟩
  · simp [updateLrLate, hp, U]
  · rintro ⟨k2, h2⟩
    have hk2 : k2 = k + 1 := by
      have := h2.1; rw [hfull.1] at this; exact (Option.some.inj this).symm
    subst hk2
    have := h2.2.2.2.1
    rw [hload] at this
    have hlr : (tr.fit (k + 1) (U tr k)).2.lr = (U tr (k + 1)).2.lr :=
      congrArg (fun s : St => s.2.lr) (Option.some.inj this)
    rw [show (U tr (k + 1)).2.lr = lrAt tr (k + 1) from rfl, lrAt_succ_of_red hred] at hlr
    exact hne hlr

end PdtVerif.Checkpoint
